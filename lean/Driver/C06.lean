import Usual.Common
/-! Model driver for C06 (stub: not built yet). -/
def main : IO Unit := IO.println "stub"
