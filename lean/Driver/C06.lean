import Usual.Common
import Usual.C06.CBTree
import Usual.C06.Pools
/-! Model driver for C06: crit-bit tree, strpool, mdict (line protocol, see FRAMEWORK.md). -/
open Usual Usual.C06

structure St where
  cb : Option T := none
  cbNext : Nat := 1
  sp : StrPool := {}
  md : MDict := {}

def ids (l : List Entry) : String := ",".intercalate (l.map fun e => toString e.obj)
def keysHex (l : List Entry) : String := ",".intercalate (l.map fun e => toHex e.key)

def valStr : Val → String
  | none => "nil"
  | some v => toHex v

def pairsStr (ps : List (Key × Val)) : String :=
  ";".intercalate (ps.map fun p => toHex p.1 ++ "=" ++ valStr p.2)

def parseVal (s : String) : Option Val :=
  if s == "nil" then some none else (parseHex s).map some

def step (s : St) (line : String) : St × String :=
  match words line with
  | ["#case"] => ({}, "#case")
  -- ---------------------------------------------------------------- cbtree
  | ["ins", hk] =>
    match parseHex hk with
    | none => (s, "bad-op")
    | some k =>
      let id := s.cbNext
      match insert s.cb ⟨k, id⟩ with
      | none => ({ s with cbNext := id + 1 }, s!"0 ## {dump s.cb} live={liveAllocs s.cb}")
      | some t' => ({ s with cb := t', cbNext := id + 1 }, s!"1 ## {dump t'} live={liveAllocs t'}")
  | ["get", hk] =>
    match parseHex hk with
    | none => (s, "bad-op")
    | some k =>
      match lookup s.cb k with
      | none => (s, "nil")
      | some e => (s, s!"#{e.obj}")
  | ["del", hk] =>
    match parseHex hk with
    | none => (s, "bad-op")
    | some k =>
      match delete s.cb k with
      | none => (s, s!"0 ## {dump s.cb} live={liveAllocs s.cb}")
      | some (e, t') => ({ s with cb := t' }, s!"1 freed={e.obj} ## {dump t'} live={liveAllocs t'}")
  -- `delown`: the caller passes the key stored inside the object; `freeret`: what the caller's free
  -- callback returns.  Neither is visible to the library's contract, so the model treats them as `del` / no-op.
  | ["delown", hk] =>
    match parseHex hk with
    | none => (s, "bad-op")
    | some k =>
      match delete s.cb k with
      | none => (s, s!"0 ## {dump s.cb} live={liveAllocs s.cb}")
      | some (e, t') => ({ s with cb := t' }, s!"1 freed={e.obj} ## {dump t'} live={liveAllocs t'}")
  | ["freeret", _] => (s, "ok")
  -- `getpfx k n` / `delpfx k n`: look up / delete the first n bytes of k; the harness passes them through the
  -- key buffer of the object stored under k (aliasing is invisible to the contract)
  | ["getpfx", hk, n] =>
    match parseHex hk, n.toNat? with
    | some k, some m =>
      match lookup s.cb (k.take m) with
      | none => (s, "nil")
      | some e => (s, s!"#{e.obj}")
    | _, _ => (s, "bad-op")
  | ["delpfx", hk, n] =>
    match parseHex hk, n.toNat? with
    | some k, some m =>
      match delete s.cb (k.take m) with
      | none => (s, s!"0 ## {dump s.cb} live={liveAllocs s.cb}")
      | some (e, t') => ({ s with cb := t' }, s!"1 freed={e.obj} ## {dump t'} live={liveAllocs t'}")
    | _, _ => (s, "bad-op")
  | ["walk", n] =>
    match n.toNat? with
    | none => (s, "bad-op")
    | some stop =>
      let (l, ok) := walkUntil s.cb stop
      (s, s!"{keysHex l} {if ok then "ok" else "stop"}")
  | ["destroy"] =>
    ({ s with cb := none }, s!"freed={ids (destroyLog s.cb)} live=0")
  -- --------------------------------------------------------------- strpool
  | ["sget", hk] =>
    match parseHex hk with
    | none => (s, "bad-op")
    | some k =>
      let (sp', r) := s.sp.get k
      match r with
      | none => ({ s with sp := sp' }, s!"nil ## live={sp'.live}")
      | some id => ({ s with sp := sp' }, s!"h{id} ref={(refOf sp'.refs id).getD 0} ## live={sp'.live}")
  | ["sinc", n] =>
    match n.toNat? with
    | none => (s, "bad-op")
    | some id =>
      match refOf s.sp.refs id with
      | none => (s, "bad-op")
      | some _ =>
        let sp' := s.sp.incref id
        ({ s with sp := sp' }, s!"ref={(refOf sp'.refs id).getD 0}")
  | ["sdec", n] =>
    match n.toNat? with
    | none => (s, "bad-op")
    | some id =>
      match refOf s.sp.refs id with
      | none => (s, "bad-op")
      | some _ =>
        let (sp', rel) := s.sp.decref id
        ({ s with sp := sp' }, s!"{if rel then "released" else "kept"} ## live={sp'.live}")
  | ["stotal"] => (s, s!"{s.sp.count}")
  | ["sfree"] => ({ s with sp := {} }, "live=0")
  -- ----------------------------------------------------------------- mdict
  | ["mput", hk, hv] =>
    match parseHex hk, parseVal hv with
    | some k, some v =>
      let (d', ok) := s.md.put k v
      ({ s with md := d' }, s!"{if ok then 1 else 0} ## live={d'.live}")
    | _, _ => (s, "bad-op")
  | ["mget", hk] =>
    match parseHex hk with
    | none => (s, "bad-op")
    | some k =>
      match s.md.get k with
      | none => (s, "absent")
      | some v => (s, valStr v)
  | ["mdel", hk] =>
    match parseHex hk with
    | none => (s, "bad-op")
    | some k =>
      let (d', ok) := s.md.del k
      ({ s with md := d' }, s!"{if ok then 1 else 0} ## live={d'.live}")
  | ["mwalk"] => (s, pairsStr s.md.pairs)
  | ["menc"] => (s, toHex (urlencode s.md.pairs))
  | ["mdec", hs] =>
    match parseHex hs with
    | none => (s, "bad-op")
    | some str =>
      let (d', ok) := s.md.urldecode str
      ({ s with md := d' }, s!"{if ok then 1 else 0} ## live={d'.live}")
  | ["mrt"] =>
    let enc := urlencode s.md.pairs
    let (d2, ok) := ({} : MDict).urldecode enc
    (s, if ok && d2.pairs == s.md.pairs then "same" else "diff")
  | ["mfree"] => ({ s with md := {} }, "live=0")
  | _ => (s, "bad-op")

def main : IO Unit := runDriver ({} : St) step
