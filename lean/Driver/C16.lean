import Usual.Common
import Usual.C16.Crc32
import Usual.C16.Lookup3
import Usual.C16.SipHash
import Usual.C16.Spooky
import Usual.C16.XXHash
import Usual.C16.MemHash
/-! Model driver for C16 (non-cryptographic hashes).  Line protocol, one output line per input line:

    #case                      forget the current buffer
    data <hex|->               set the current buffer           → ok <len>
    crc <init>                 calc_crc32(buf, len, init)       → 8 hex digits
    crcinc <split> <init>      calc_crc32(b, |b|, calc_crc32(a, |a|, init)), a = first <split> bytes
    l3                         hash_lookup3(buf, len)           → 16 hex digits
    sip <k0> <k1>              siphash24(buf, len, k0, k1)      → 16 hex digits
    spooky <h1> <h2>           spookyhash(buf, len, &h1, &h2)   → 16 hex digits, space, 16 hex digits
    xxh <seed>                 xxhash(buf, len, seed)           → 8 hex digits
    mem <seed>                 memhash_seed(buf, len, seed)     → 8 hex digits
    mem32 <seed>               memhash_seed as a build with 32-bit pointers and longs computes it
    touch                      (harness: call memhash, memhash_string, siphash24_secure and every
                               other entry point with other arguments)  → touched

Numbers are hex without prefix (1..8 digits for 32-bit, 1..16 for 64-bit arguments, decimal
for <split>); anything else is `bad-op`. -/
open Usual

namespace DrvC16

def hexNat (s : String) (maxDigits : Nat) : Option Nat :=
  let cs := s.toList
  if cs.isEmpty || cs.length > maxDigits then none else
  cs.foldl (fun acc c => match acc, hexVal c with
    | some a, some v => some (a * 16 + v)
    | _, _ => none) (some 0)

def decNat (s : String) : Option Nat :=
  let cs := s.toList
  if cs.isEmpty || cs.length > 9 then none else
  cs.foldl (fun acc c => match acc with
    | some a => if '0' ≤ c ∧ c ≤ '9' then some (a * 10 + (c.toNat - '0'.toNat)) else none
    | none => none) (some 0)

def hexPad (n : Nat) (digits : Nat) : String :=
  let ds := Nat.toDigits 16 n
  String.ofList (List.replicate (digits - ds.length) '0' ++ ds)

def h32 (x : UInt32) : String := hexPad x.toNat 8
def h64 (x : UInt64) : String := hexPad x.toNat 16

abbrev State := Option (List UInt8)

def step (st : State) (line : String) : State × String :=
  match words line with
  | ["#case"] => (none, "#case")
  | ["data", hx] =>
    match parseHex hx with
    | some bs => (some bs, s!"ok {bs.length}")
    | none => (st, "bad-op")
  | op :: args =>
    match st with
    | none => (st, "bad-op")
    | some buf =>
      let out : String :=
        match op, args with
        | "crc", [i] =>
          match hexNat i 8 with
          | some i => h32 (Usual.C16.Crc32.calcCrc32 buf (UInt32.ofNat i))
          | none => "bad-op"
        | "crcinc", [k, i] =>
          match decNat k, hexNat i 8 with
          | some k, some i =>
            if k ≤ buf.length then
              h32 (Usual.C16.Crc32.calcCrc32 (buf.drop k)
                    (Usual.C16.Crc32.calcCrc32 (buf.take k) (UInt32.ofNat i)))
            else "bad-op"
          | _, _ => "bad-op"
        | "l3", [] => h64 (Usual.C16.Lookup3.hashLookup3 buf)
        | "sip", [a, b] =>
          match hexNat a 16, hexNat b 16 with
          | some a, some b => h64 (Usual.C16.SipHash.siphash24 buf (UInt64.ofNat a) (UInt64.ofNat b))
          | _, _ => "bad-op"
        | "spooky", [a, b] =>
          match hexNat a 16, hexNat b 16 with
          | some a, some b =>
            let r := Usual.C16.Spooky.spookyhash buf (UInt64.ofNat a) (UInt64.ofNat b)
            h64 r.1 ++ " " ++ h64 r.2
          | _, _ => "bad-op"
        | "xxh", [s] =>
          match hexNat s 8 with
          | some s => h32 (Usual.C16.XXHash.xxh32 buf (UInt32.ofNat s))
          | none => "bad-op"
        | "mem", [s] =>
          match hexNat s 8 with
          | some s => h32 (Usual.C16.MemHash.memhashSeed true buf (UInt32.ofNat s))
          | none => "bad-op"
        | "touch", [] => "touched"     -- the model has no state: nothing to do
        | "mem32", [s] =>
          match hexNat s 8 with
          | some s => h32 (Usual.C16.MemHash.memhashSeed false buf (UInt32.ofNat s))
          | none => "bad-op"
        | _, _ => "bad-op"
      (st, out)
  | [] => (st, "bad-op")

end DrvC16

def main : IO Unit := Usual.runDriver (none : DrvC16.State) DrvC16.step
