import Usual.Common
import Usual.C14.Str
import Usual.C14.Bits
import Usual.C14.Inet
import Usual.C14.Libc
import Usual.C14.Fnmatch
/-! Model driver for C14: one op per line, see harness/C14/h.c for the op language and the
    output format (the two programs must print the same line for every op). -/
open Usual Usual.C14

def toNats (l : List UInt8) : List Nat := l.map (·.toNat)
def hexOf (l : List Nat) : String := toHex (l.map UInt8.ofNat)
def arg (w : String) : Option Bytes := (parseHex w).map toNats

def offStr : Option Nat → String
  | none => "null"
  | some n => toString n

def int64? (s : String) : Option Int :=
  match s.toInt? with
  | some v => if llMin ≤ v ∧ v ≤ llMax ∧ ¬ s.startsWith "+" then some v else none
  | none => none

def u64? (s : String) : Option Nat :=
  match s.toNat? with
  | some v => if v < 2 ^ 64 then some v else none
  | none => none

def hex2 (n : Nat) : String := String.ofList [hexDigit (n / 16 % 16), hexDigit (n % 16)]

def errStr (e : NumErr) : String := e.errstr.getD "ok"
def errnoStr (e : NumErr) : String := e.errno.getD "keep"

def fillAA (n : Nat) : Bytes := List.replicate n 0xAA

/-- `fmt` op: the text the format/arguments of harness kind `k` produce for total length `len` -/
def fmtArg (n total : Nat) : Bytes := (List.range n).map fun i => 97 + (i * 7 + total) % 26
def fmtText (kind len : Nat) : Bytes :=
  if kind = 0 then fmtArg len len
  else if kind = 1 then List.replicate (len - 2) 32 ++ [52, 50]
  else [97, 98] ++ fmtArg (len - 7) len ++ [120, 121, 49, 50, 51]

def getlineAll : (fuel : Nat) → Bytes → Option Nat → List String
  | 0, _, _ => []
  | f + 1, file, cap =>
    let r := getline file cap
    let one := toString r.ret ++ ":" ++ (if r.ret > 0 then hexOf r.line else "-") ++ ":" ++ toString r.size
    if r.ret < 0 then [one] else one :: getlineAll f r.rest (some r.size)

/-- strict decode of the pattern (`mbstr_decode(..., false)`): `.inl rc` = fnmatch returns rc -/
def decodeStrict : (fuel : Nat) → Bytes → List Nat → Sum Int (List Nat)
  | 0, _, acc => .inr acc.reverse
  | f + 1, s, acc =>
    if s = [] then .inr acc.reverse
    else match utf8Mbr s with
      | .char n wc => decodeStrict f (s.drop n) (wc :: acc)
      | .nul => .inr acc.reverse
      | .invalid => .inl 1          -- errno == EILSEQ → FNM_NOMATCH
      | .incomplete => .inr acc.reverse   -- F43: mbsnrtowcs stops at the cut, the count is returned

/-- the char-by-char pass of `mbstr_decode(..., true)`: undecodable bytes stand for themselves
    (it runs only when the full strict decode failed, i.e. met an INVALID sequence: `decodeSubject`) -/
def decodeLax : (fuel : Nat) → Bytes → List Nat → List Nat
  | 0, _, acc => acc.reverse
  | f + 1, s, acc =>
    match s with
    | [] => acc.reverse
    | b :: r =>
      -- same result as the strict decode on the valid part
      match utf8Mbr s with
      | .char n wc => decodeLax f (s.drop n) (wc :: acc)
      | .nul => acc.reverse
      | _ => decodeLax f r (b :: acc)

def bitsLine (lo sh cnt : Nat) : String :=
  if cnt = 0 then "-" else
  String.join ((List.range cnt).map fun i =>
    let v := ((lo + i) * 2 ^ sh) % 2 ^ 64
    let v32 := v % 2 ^ 32
    let one := hex2 (ffs 32 v32) ++ hex2 (fls 32 v32) ++ hex2 (ffs 64 v) ++ hex2 (fls 64 v) ++
               hex2 (ffs 64 v) ++ hex2 (fls 64 v)
    one ++ one)

/-- which `mbrtowc` failure makes the strict scan stop first (`some true` = invalid ⇒ EILSEQ,
    `some false` = cut inside a character ⇒ no failure since F43, `none` = none) -/
def firstFail : (fuel : Nat) → Bytes → Option Bool
  | 0, _ => none
  | f + 1, s =>
    if s = [] then none
    else match utf8Mbr s with
      | .char n _ => firstFail f (s.drop n)
      | .nul => none
      | .invalid => some true
      | .incomplete => some false

/-- `mbsq`: consecutive `mbsnrtowcs` calls on one conversion state; per call `ret@off/errno/mbsinit/dst` -/
def mbsqRun (dstlen : Option Nat) (useNull : Bool) : List Bytes → Bytes → String → Bool → List String × String
  | [], _, e, _ => ([], e)
  | seg :: rest, pend, e, failed =>
    if failed then
      let r := mbsqRun dstlen useNull rest pend e true
      ("skipped" :: r.1, r.2)
    else
      let r := mbsnrtowcsSt utf8Mbr pend seg seg.length (dstlen.map fun n => List.replicate n 0x7AAAAAAA)
      let bad := r.1.ret.isNone
      let e' := if bad then "EILSEQ" else e
      let one := (match r.1.ret with | some k => toString k | none => "-1") ++ "@" ++ offStr r.1.srcp ++ "/" ++ e' ++ "/" ++
        (if useNull ∨ bad then "-" else if r.2.isEmpty then "1" else "0") ++ "/" ++
        (match dstlen with
         | none => "-"
         | some 0 => "-"
         | some _ => String.intercalate "," (r.1.dst.map fun w => String.ofList (Nat.toDigits 16 w)))
      let t := mbsqRun dstlen useNull rest r.2 e' bad
      (one :: t.1, t.2)

def mbsqOp (st mode dl : String) (segs : List String) : String :=
  let dstlen : Option (Option Nat) := if dl = "null" then some none else dl.toNat?.map some
  match dstlen, segs.mapM arg with
  | some d, some ss =>
    if (mode ≠ "ps" ∧ mode ≠ "null") ∨ (d.getD 0) > 64 then "bad-op"
    else
      let r := mbsqRun d (mode = "null") ss [] st false
      String.intercalate " " r.1 ++ " e=" ++ r.2
  | _, _ => "bad-op"

/-- new errno state after an op: what the output says after `e=` (the harness keeps the errno a
    call left behind as the entry errno of the next call) -/
def errnoAfter (st out : String) : String :=
  -- (the `errno NAME` op is handled in `step`)
  match ((out.splitOn " ## ").headD "").splitOn " e=" with
  | _ :: t :: _ => (t.splitOn " ").headD st
  | _ => st

def step (st : String) (line : String) : String × String :=
  let bad := "bad-op"
  let out : String :=
    match words line with
    | ["#case"] => "#case"
    | ["layout", n] =>
      if ["sep", "pageend", "pagestart", "unaligned", "srcdst", "dstsrc"].contains n then "ok" else "bad-op"
    | ["errno", n] =>
      if ["0", "ERANGE", "EINVAL", "EPERM", "ENOMEM", "EILSEQ", "ENOSPC"].contains n then "ok" else "bad-op"
    | ["locale"] => "utf8"
    | ["mbsq", mode, dl, s1, s2] => mbsqOp st mode dl [s1, s2]
    | ["mbsq", mode, dl, s1, s2, s3] => mbsqOp st mode dl [s1, s2, s3]
    | [op, d, s, n] =>
      if op = "strlcpy" ∨ op = "strlcat" ∨ op = "strpcpy" ∨ op = "strpcat" ∨ op = "mempcpy" then
        match arg d, arg s, n.toNat? with
        | some d, some s, some n =>
          if n > d.length then bad
          else if op = "strlcpy" then let r := strlcpy d (s ++ [0]) n; toString r.1 ++ " " ++ hexOf r.2
          else if op = "strlcat" then let r := strlcat d (s ++ [0]) n; toString r.1 ++ " " ++ hexOf r.2
          else if op = "strpcpy" then let r := strpcpy d (s ++ [0]) n; offStr r.1 ++ " " ++ hexOf r.2
          else if op = "strpcat" then let r := strpcat d (s ++ [0]) n; offStr r.1 ++ " " ++ hexOf r.2
          else if n > s.length then bad
          else let r := mempcpy d s n; toString r.1 ++ " " ++ hexOf r.2
        | _, _, _ => bad
      else if op = "memrchr" then
        match arg d, s.toInt?, n.toNat? with
        | some b, some c, some n =>
          if c < -2147483648 ∨ c > 2147483647 ∨ n > b.length ∨ s.startsWith "+" then bad
          else offStr (memrchr b c n)
        | _, _, _ => bad
      else if op = "strtonum" then
        match arg d, int64? s, int64? n with
        | some b, some mn, some mx =>
          let r := strtonum (b ++ [0]) mn mx
          toString r.1 ++ " " ++ errStr r.2 ++ " e=" ++ r.2.errno.getD st
        | _, _, _ => bad
      else if op = "bits" then
        match u64? d, u64? s, u64? n with
        | some lo, some sh, some cnt => if sh > 63 ∨ cnt > 4096 then bad else bitsLine lo sh cnt
        | _, _, _ => bad
      else if op = "ntop" then
        match d.toInt?, arg s, n.toInt? with
        | some af, some a, some size =>
          if size > 100 ∨ size < -5 ∨ (af = 4 ∧ a.length ≠ 4) ∨ (af = 6 ∧ a.length ≠ 16) ∨
             d.startsWith "+" ∨ n.startsWith "+" then bad
          else if size < 0 then "null e=ENOSPC -"
          else
            let sz := size.toNat
            let dst := fillAA sz
            if af ≠ 4 ∧ af ≠ 6 then "null e=EAFNOSUPPORT " ++ hexOf dst
            else
              match (if af = 4 then ntop4 a dst sz else ntop6 a dst sz) with
              | some d' => "dst e=" ++ st ++ " " ++ hexOf d'
              | none => "null e=ENOSPC " ++ hexOf dst
        | _, _, _ => bad
      else if op = "fmt" then
        match s.toNat?, n.toNat? with
        | some kind, some len =>
          if kind > 2 ∨ len > 100000 ∨ (kind = 1 ∧ len < 2) ∨ (kind = 2 ∧ len < 7) ∨
             ¬ (d = "asprintf" ∨ d = "cx_asprintf" ∨ d = "cx_sprintf") then bad
          else
            let r := cxVasprintf (fmtText kind len)
            match r.2 with
            | some b => toString r.1 ++ " e=" ++ st ++ " " ++ hexOf b
            | none => toString r.1 ++ " e=" ++ st ++ " null"
        | _, _ => bad
      else if op = "mbs" then
        match arg d, s.toNat? with
        | some src, some srclen =>
          -- mbrtowc sets EILSEQ for an invalid sequence, nothing for an incomplete one
          let probe := mbsnrtowcs utf8Mbr src srclen (some (List.replicate (srclen + 1) 0))
          let failOff := match probe.ret, probe.srcp with
            | none, some o => some o
            | _, _ => none
          let mbsEOf (r : Mbs) : String :=
            match r.ret, failOff with
            | none, some o => if utf8Mbr ((src.take srclen).drop o) == .invalid then "EILSEQ" else st
            | _, _ => st
          if srclen > src.length then bad
          else if n = "null" then
            let r := mbsnrtowcs utf8Mbr src srclen none
            let mbsE := mbsEOf r
            (match r.ret with | some k => toString k | none => "-1") ++ " e=" ++ mbsE ++ " " ++ offStr r.srcp ++ " -"
          else
            match n.toNat? with
            | some dstlen =>
              if dstlen > 4096 then bad
              else
                let r := mbsnrtowcs utf8Mbr src srclen (some (List.replicate dstlen 0x7AAAAAAA))
                let mbsE := mbsEOf r
                (match r.ret with | some k => toString k | none => "-1") ++ " e=" ++ mbsE ++ " " ++ offStr r.srcp ++ " " ++
                  (if dstlen = 0 then "-" else String.intercalate "," (r.dst.map fun w => String.ofList (Nat.toDigits 16 w)))
            | none => bad
        | _, _ => bad
      else if op = "fnmatch" then
        match arg d, arg s, n.toNat? with
        | some p, some str, some fl =>
          if fl > 31 ∨ p.contains 0 ∨ str.contains 0 then bad
          else
            match decodeStrict (p.length + 1) p [] with
            | .inl _ =>
              -- invalid pattern: mbrtowc sets EILSEQ → FNM_NOMATCH (a pattern cut inside a character
              -- no longer fails since F43: the result does not depend on the caller's errno any more)
              "1 e=EILSEQ ## 1"
            | .inr wp =>
              -- subject: the full strict decode succeeds unless it meets an invalid sequence (a cut
              -- character at the end is dropped, F43); only then the char-by-char pass runs
              let ws := match firstFail (str.length + 1) str with
                | some true => decodeLax (str.length + 1) str []
                | _ => match decodeStrict (str.length + 1) str [] with
                  | .inr w => w
                  | .inl _ => []
              let f := FnFlags.ofNat fl
              let e := match firstFail (str.length + 1) str with
                | some true => "EILSEQ"
                | _ => st
              toString (fnmatchSpec f wp ws) ++ " e=" ++ e ++ " ## " ++ toString (wfnmatch f wp ws)
        | _, _, _ => bad
      else bad
    | [op, a, b] =>
      if op = "strnlen" then
        match arg a, b.toNat? with
        | some s, some m => if m > s.length ∧ ¬ s.contains 0 then bad else toString (strnlen s m)
        | _, _ => bad
      else if op = "strsep" then
        match arg b with
        | some dl =>
          let sarg : Option (Option Bytes) :=
            if a = "null" then some none else (arg a).map fun s => some (s ++ [0])
          match sarg with
          | some sp =>
            let r := strsepP sp (dl ++ [0])
            offStr r.1 ++ " " ++ offStr r.2.1 ++ " " ++ (match r.2.2 with | some b => hexOf b | none => "-")
          | none => bad
        | none => bad
      else if op = "memmem" ∨ op = "mempbrk" ∨ op = "memspn" ∨ op = "memcspn" then
        match arg a, arg b with
        | some x, some y =>
          if op = "memmem" then offStr (memmem x y)
          else if op = "mempbrk" then offStr (mempbrk x y)
          else if op = "memspn" then toString (memspn x y)
          else toString (memcspn x y)
        | _, _ => bad
      else if op = "pton" then
        match a.toInt?, arg b with
        | some af, some s =>
          if a.startsWith "+" then bad
          else if af = 4 then
            match pton4 (s ++ [0]) with
            | some v => "1 e=" ++ st ++ " " ++ hexOf v
            | none => "0 e=" ++ st ++ " " ++ hexOf (fillAA 4)
          else if af = 6 then
            match pton6 (s ++ [0]) with
            | some v => "1 e=" ++ st ++ " " ++ hexOf v
            | none => "0 e=" ++ st ++ " " ++ hexOf (fillAA 16)
          else "-1 e=EAFNOSUPPORT " ++ hexOf (fillAA 16)
        | _, _ => bad
      else if op = "reallocarray" then
        match u64? a, u64? b with
        | some c, some s =>
          match reallocarray c s with
          | .realloc t => "realloc " ++ toString t ++ " e=" ++ st
          | .enomem => "null e=ENOMEM"
        | _, _ => bad
      else if op = "getline" then
        match arg a with
        | some content =>
          if b = "null" then String.intercalate " " (getlineAll 64 content none) ++ " e=" ++ st
          else match b.toNat? with
            | some init => if init = 0 ∨ init > 100000 then bad
                           else String.intercalate " " (getlineAll 64 content (some init)) ++ " e=" ++ st
            | none => bad
        | none => bad
      else bad
    | ["wctype", a] =>
      match arg a with
      | some name =>
        if name.length > 64 then bad
        -- `wctype_wcsn`: shorter than 10, printable ASCII only, and EXACTLY one of the twelve names
        else if name.length < 10 ∧ name.all (fun c => 32 ≤ c ∧ c ≤ 127) ∧ (cclassOf name).isSome then "1" else "0"
      | none => bad
    | [op, a] =>
      if op = "basename" ∨ op = "dirname" then
        let p : Option (Option Bytes) :=
          if a = "null" then some none
          else match arg a with
            | some s => if s.contains 0 then none else some (some (s ++ [0]))
            | none => none
        match p with
        | none => bad
        | some path =>
          if op = "basename" then
            hexOf (basename path) ++ " e=" ++ st ++ " ## " ++
              (match basenameLoc path with | some k => "path+" ++ toString k | none => "static")
          else
            match dirname path with
            | some d => hexOf d ++ " e=" ++ st ++ " ## static"
            | none => "null e=ENAMETOOLONG"
      else bad
    | ["timegm", y, mo, d, h, mi, s] =>
      match y.toInt?, mo.toInt?, d.toInt?, h.toInt?, mi.toInt?, s.toInt? with
      | some y, some mo, some d, some h, some mi, some s =>
        if [y, mo, d, h, mi, s].any (fun v => v < -100000 ∨ v > 100000) then bad
        else
          let r := timegm y mo d h mi s
          toString r.secs ++ " wday=" ++ toString r.wday ++ " tz-restored"
      | _, _, _, _, _, _ => bad
    | _ => bad
  let st' :=
    match words line with
    | ["#case"] => "0"
    | ["layout", _] => st
    | ["errno", n] => if out = "ok" then n else st
    | _ => errnoAfter st out
  (st', out)

def main : IO Unit := runDriver "0" step
