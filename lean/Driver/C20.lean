import Usual.Common
import Usual.C20.Trace
import Usual.C20.Monitor
/-! Model driver for C20: reads the event traces printed by harness/C20/h.c
    ("trace <scenario>" … event lines … "end") and prints one verdict line per trace:
    `ok steps=<model steps> events=<n> spurious=<k>` or `reject obs|int <event index> <reason>`. -/
open Usual Usual.C20

def parseWho (s : String) : Option Who :=
  if s == "W" then some .w
  else if s == "N" then some (.s 9)     -- a helper thread started by the resolver (not in the model)
  else (s.toNat?).map Who.s

/-- request templates are named by one character 0-9a-z -/
def hostVal (c : Char) : Option Nat :=
  if '0' ≤ c ∧ c ≤ '9' then some (c.toNat - '0'.toNat)
  else if 'a' ≤ c ∧ c ≤ 'z' then some (c.toNat - 'a'.toNat + 10)
  else none

def parseSev (s : String) : Option Sev :=
  if s == "0" then some .none else if s == "S" || s == "B" then some .signal else if s == "T" then some .thread else none

def parseMode (s : String) : Option Mode :=
  if s == "W" then some .wait else if s == "N" then some .nowait else none

def parseHosts (s : String) : Option (List Nat) :=
  s.toList.mapM hostVal

def parseEv (ws : List String) : Option Ev :=
  match ws with
  | ["begin", i, b, n, m, sv, hs] => do
    some (.begin (← i.toNat?) (← b.toNat?) (← n.toNat?) (← parseMode m) (← parseSev sv) (← parseHosts hs))
  | ["lock", i, "I", snap] => do some (.lockI (← i.toNat?) snap.toList)
  | ["lock", x, "Q", snap] => do some (.lockQ (← parseWho x) snap.toList)
  | ["lock", "W", "Q"] => some (.lockQ .w [])
  | ["lock", "W", "I"] => none
  | ["unlock", i, "I"] => do some (.unlockI (← i.toNat?))
  | ["unlock", x, "Q"] => do some (.unlockQ (← parseWho x) none)
  | ["create", i] => do some (.create (← i.toNat?))
  | ["malloc", i, _] => do some (.malloc (← i.toNat?))
  | ["signal", i] => do some (.signal (← i.toNat?))
  | ["ret", i, b, rc, snap] => do some (.ret (← i.toNat?) (← b.toNat?) (← rc.toInt?) snap.toList)
  | ["gacall", x, b, k, h, ok] => do
    some (.gacall (← parseWho x) (← b.toNat?) (← k.toNat?) (← h.toNat?) (← ok.toNat?))
  | ["garet", x, b, k, rc] => do some (.garet (← parseWho x) (← b.toNat?) (← k.toNat?) (← rc.toInt?))
  | ["notify", x, b, snap] => do some (.notify (← parseWho x) (← b.toNat?) snap.toList)
  | ["kill", x, t, sl, bid] => do some (.kill (← parseWho x) (← t.toNat?) (← sl.toNat?) (← bid.toNat?))
  | ["sigrecv", i, b, _, snap] => do some (.sigrecv (← i.toNat?) (← b.toNat?) snap.toList)
  | ["mask", x, b, same, _] => do some (.mask (← parseWho x) (← b.toNat?) (← same.toNat?))
  | ["free", "W"] => some .free
  | ["cwait", "W"] => some .cwait
  | ["cwret", "W"] => some .cwret
  | ["poll", i, b, snap] => do some (.poll (← i.toNat?) (← b.toNat?) snap.toList)
  | ["final", i, b, k, rc, same] => do
    some (.final (← i.toNat?) (← b.toNat?) (← k.toNat?) (← rc.toInt?) (← same.toNat?))
  | _ => none

structure TAcc where
  active : Bool := false
  tab : List (Nat × Int) := []
  evs : List Ev := []            -- reversed
  bad : Option (Nat × String) := none
  n : Nat := 0
  tsan : Bool := false

def gaOf (tab : List (Nat × Int)) : Nat → Int := fun h =>
  match tab.find? (fun p => p.1 == h) with
  | some p => p.2
  | none => 12345

/-- `ok …`                      model follows the trace and all monitors hold
    `reject obs <i> <reason>`   a property monitor fails (or crash / hang / foreign callback):
                                concrete violation
    `reject int <i> <reason>`   all monitors hold but the trace is not an execution of the model:
                                the tie is broken, the property is not shown violated -/
def verdict (a : TAcc) : String :=
  let ga := gaOf a.tab
  match a.bad with
  | some (i, msg) =>
    -- a scenario that did not complete: the events before the time-out may already show why
    if msg.startsWith "TIMEOUT" then
      let evs := annotate a.evs.reverse
      match monAll ga {} 0 evs with
      | .error (j, m2) => s!"reject obs {j} {m2} (and the scenario then timed out)"
      | .ok _ =>
        match feedAll (ga := ga) { m := Walk.start ga } 0 evs with
        | .ok _ => s!"reject obs {i} {msg}"
        | .error (j, m2) => s!"reject obs {j} {m2} (and the scenario then timed out)"
    else if msg.startsWith "INT " then s!"reject int {i} {msg.drop 4}"
    else s!"reject obs {i} {msg}"
  | none =>
    let evs := annotate (a.evs.reverse ++ [Ev.fin (!a.tsan)])
    match monAll ga {} 0 evs with
    | .error (j, m2) => s!"reject obs {j} {m2}"
    | .ok _ =>
      match feedAll (ga := ga) { m := Walk.start ga } 0 evs with
      | .ok v => s!"ok steps={v.m.sched.length} events={a.n} spurious={v.spurious}"
      | .error (i, msg) => s!"reject int {i} {msg}"

def addLine (a : TAcc) (line : String) : TAcc :=
  if a.bad.isSome then a else
  let ws := words line
  match ws with
  | ["oracle", k, rc] =>
    match k.toNat?, rc.toInt? with
    | some k, some rc => { a with tab := (k, rc) :: a.tab }
    | _, _ => { a with bad := some (a.n, "unparsable oracle line") }
  | ["mode", "tsan"] => { a with tsan := true }
  | "crash" :: rest => { a with bad := some (a.n, "CRASH " ++ " ".intercalate rest) }
  | "timeout" :: _ => { a with bad := some (a.n, "TIMEOUT: the scenario did not complete (lost wake-up / deadlock / lost request)") }
  | "overflow" :: _ => { a with bad := some (a.n, "event log overflow (runaway loop)") }
  | "unfilled" :: _ => { a with bad := some (a.n, "event slot never filled") }
  | "note" :: _ :: "4" :: rest => { a with bad := some (a.n, "a notification signal that the submitter keeps blocked (to collect it with sigtimedwait) was delivered asynchronously: " ++ " ".intercalate rest) }
  | "note" :: rest => { a with bad := some (a.n, "a notification was delivered that is not the one requested at submission (the sigevent was read after getaddrinfo_a returned, or an unknown cookie/signal): " ++ " ".intercalate rest) }
  | "bad-op" :: _ => { a with bad := some (a.n, "bad-op") }
  | ["lock", "W", "I"] => { a with bad := some (a.n, "INT a resolver thread locks a second queue mutex (two contexts exist; a data race on the static is ThreadSanitizer's to report)") }
  | ["unlock", "W", "I"] => { a with bad := some (a.n, "INT a resolver thread unlocks a second queue mutex (two contexts exist)") }
  | ["gacall", _, "-1", _, _, _] => { a with bad := some (a.n, "getaddrinfo called for something that is not a submitted request") }
  | _ =>
    match parseEv ws with
    | some e => { a with evs := e :: a.evs, n := a.n + 1 }
    | none => { a with bad := some (a.n, "unparsable event: " ++ line.trimAscii.toString) }

partial def loop (h : IO.FS.Stream) (out : IO.FS.Stream) (a : TAcc) : IO Unit := do
  let line ← h.getLine
  if line.isEmpty then
    out.flush
    return ()
  let ws := words line
  match ws with
  | "trace" :: _ => loop h out { active := true }
  | ["end"] =>
    if a.active then out.putStrLn (verdict a) else out.putStrLn "reject obs 0 end without trace"
    out.flush
    loop h out {}
  | [] => loop h out a
  | _ => if a.active then loop h out (addLine a line) else loop h out a

def main : IO Unit := do
  let stdin ← IO.getStdin
  let stdout ← IO.getStdout
  loop stdin stdout {}
