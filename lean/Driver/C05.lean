import Usual.Common
import Usual.C05.MDInst
import Usual.C05.Keccak
import Usual.C05.Sha3
import Usual.C05.Hmac
import Usual.C05.ChaCha
import Usual.C05.Digests
/-! Model driver for C05 (line protocol, see harness/C05/h.c for the implementation side). -/
open Usual Usual.C05

namespace C05Drv

abbrev Bytes := List UInt8
abbrev M32 := MD.Ctx (Array UInt32)
abbrev M64 := MD.Ctx (Array UInt64)

def fK : Bytes → Bytes := Keccak.fBytes

def sha3Digest (params : Nat × Nat × UInt8) : Hmac.Digest Sha3.Ctx := Usual.C05.sha3Digest fK params

/-- a digest context of one of the three state shapes -/
inductive DCtx
  | c32 (D : Hmac.Digest M32) (c : M32)
  | c64 (D : Hmac.Digest M64) (c : M64)
  | c3 (D : Hmac.Digest Sha3.Ctx) (c : Sha3.Ctx)

inductive HCtx
  | h32 (D : Hmac.Digest M32) (c : Hmac.Ctx M32)
  | h64 (D : Hmac.Digest M64) (c : Hmac.Ctx M64)
  | h3 (D : Hmac.Digest Sha3.Ctx) (c : Hmac.Ctx Sha3.Ctx)

open Usual.Gen.C05 in
def sha3Params (name : String) : Option (Nat × Nat × UInt8) :=
  match name with
  | "sha3_224" => some sha3_224Params
  | "sha3_256" => some sha3_256Params
  | "sha3_384" => some sha3_384Params
  | "sha3_512" => some sha3_512Params
  | "shake128" => some shake128Params
  | "shake256" => some shake256Params
  | _ => none

open Usual.Gen.C05 in
def newDigest (name : String) : Option DCtx :=
  match name with
  | "md5" => let D := mdDigest MD.md5 md5Digest; some (.c32 D D.init)
  | "sha1" => let D := mdDigest MD.sha1 sha1Digest; some (.c32 D D.init)
  | "sha224" => let D := mdDigest MD.sha224 sha224_digest_length; some (.c32 D D.init)
  | "sha256" => let D := mdDigest MD.sha256 sha256_digest_length; some (.c32 D D.init)
  | "sha384" => let D := mdDigest MD.sha384 sha384_digest_length; some (.c64 D D.init)
  | "sha512" => let D := mdDigest MD.sha512 sha512_digest_length; some (.c64 D D.init)
  | n => (sha3Params n).map fun p => let D := sha3Digest p; .c3 D D.init

def DCtx.update : DCtx → Bytes → DCtx
  | .c32 D c, b => .c32 D (D.update c b)
  | .c64 D c, b => .c64 D (D.update c b)
  | .c3 D c, b => .c3 D (D.update c b)

def DCtx.final : DCtx → Bytes
  | .c32 D c => D.final c
  | .c64 D c => D.final c
  | .c3 D c => D.final c

def DCtx.reset : DCtx → DCtx
  | .c32 D _ => .c32 D D.init
  | .c64 D _ => .c64 D D.init
  | .c3 D _ => .c3 D D.init

def newHmac (name : String) (key : Bytes) : Option HCtx :=
  (newDigest name).map fun
    | .c32 D _ => .h32 D (Hmac.new D key)
    | .c64 D _ => .h64 D (Hmac.new D key)
    | .c3 D _ => .h3 D (Hmac.new D key)

def HCtx.update : HCtx → Bytes → HCtx
  | .h32 D c, b => .h32 D (Hmac.update D c b)
  | .h64 D c, b => .h64 D (Hmac.update D c b)
  | .h3 D c, b => .h3 D (Hmac.update D c b)

def HCtx.final : HCtx → Bytes
  | .h32 D c => Hmac.final D c
  | .h64 D c => Hmac.final D c
  | .h3 D c => Hmac.final D c

def HCtx.reset : HCtx → HCtx
  | .h32 D c => .h32 D (Hmac.reset D c)
  | .h64 D c => .h64 D (Hmac.reset D c)
  | .h3 D c => .h3 D (Hmac.reset D c)

structure St where
  dig : Option DCtx := none
  digDone : Bool := false
  hm : Option HCtx := none
  hmDone : Bool := false
  sh : Option Sha3.Ctx := none
  kc : Option Keccak.Ctx := none
  prng : Option Sha3.Prng := none
  cc : ChaCha.Ctx := ChaCha.empty
  ccKey : Bool := false
  ccNonce : Bool := false

def bad (s : St) : St × String := (s, "bad-op")

def parseNat (w : String) : Option Nat :=
  if w.length > 0 ∧ w.length ≤ 12 ∧ w.all Char.isDigit then w.toNat? else none

/-- byte counts: at most 1 MiB -/
def parseLen (w : String) : Option Nat :=
  match parseNat w with
  | some n => if n ≤ 1048576 then some n else none
  | none => none

def kOut (c : Keccak.Ctx) (obs : String) : String := s!"{obs} ## {c.pos}"

def ccOut (c : ChaCha.Ctx) (obs : String) : String :=
  s!"{obs} ## {c.s.pos} {c.s.lo.toNat} {c.s.hi.toNat}"

def step (s : St) (line : String) : St × String :=
  match words line with
  | ["#case"] => ({}, "#case")
  -- digests through the DigestInfo API
  | ["d.new", name] =>
    match newDigest name with
    | some d => ({ s with dig := some d, digDone := false }, "ok")
    | none => bad s
  | ["d.upd", hex] =>
    match s.dig, parseHex hex with
    | some d, some b => if s.digDone then bad s else ({ s with dig := some (d.update b) }, "ok")
    | _, _ => bad s
  | ["d.fin"] =>
    match s.dig with
    | some d => if s.digDone then bad s else ({ s with digDone := true }, toHex d.final)
    | none => bad s
  | ["d.reset"] =>
    match s.dig with
    | some d => ({ s with dig := some d.reset, digDone := false }, "ok")
    | none => bad s
  -- HMAC
  | ["h.new", name, hex] =>
    match parseHex hex with
    | some k =>
      match newHmac name k with
      | some h => ({ s with hm := some h, hmDone := false }, "ok")
      | none => bad s
    | none => bad s
  | ["h.upd", hex] =>
    match s.hm, parseHex hex with
    | some h, some b => if s.hmDone then bad s else ({ s with hm := some (h.update b) }, "ok")
    | _, _ => bad s
  | ["h.fin"] =>
    match s.hm with
    | some h => if s.hmDone then bad s else ({ s with hmDone := true }, toHex h.final)
    | none => bad s
  | ["h.reset"] =>
    match s.hm with
    | some h => ({ s with hm := some h.reset, hmDone := false }, "ok")
    | none => bad s
  -- SHA3Context API (repeated extraction)
  | ["sh.new", name] =>
    match sha3Params name with
    | some p => ({ s with sh := some (Sha3.reset p) }, "ok")
    | none => bad s
  | ["sh.upd", hex] =>
    match s.sh, parseHex hex with
    | some c, some b => let c' := Sha3.update fK c b; ({ s with sh := some c' }, kOut c'.k "ok")
    | _, _ => bad s
  | ["sh.ext", n] =>
    match s.sh, parseLen n with
    | some c, some n => let r := Sha3.extract fK c n; ({ s with sh := some r.2 }, kOut r.2.k (toHex r.1))
    | _, _ => bad s
  | ["sh.fin"] =>
    match s.sh with
    | some c => let r := Sha3.final fK c; ({ s with sh := some r.2 }, kOut r.2.k (toHex r.1))
    | none => bad s
  -- raw sponge
  | ["k.init", cap] =>
    match parseNat cap with
    | some cap =>
      match Keccak.init cap with
      | some c => ({ s with kc := some c }, "1")
      | none => ({ s with kc := none }, "0")
    | none => bad s
  | ["k.abs", hex] =>
    match s.kc, parseHex hex with
    | some c, some b => let c' := Keccak.absorb fK c b; ({ s with kc := some c' }, kOut c' "ok")
    | _, _ => bad s
  | ["k.sqz", n] =>
    match s.kc, parseLen n with
    | some c, some n => let r := Keccak.squeeze fK c n; ({ s with kc := some r.2 }, kOut r.2 (toHex r.1))
    | _, _ => bad s
  | ["k.sqx", hex] =>
    match s.kc, parseHex hex with
    | some c, some b => let r := Keccak.squeezeXor fK c b; ({ s with kc := some r.2 }, kOut r.2 (toHex r.1))
    | _, _ => bad s
  | ["k.enc", hex] =>
    match s.kc, parseHex hex with
    | some c, some b => let r := Keccak.encrypt fK c b; ({ s with kc := some r.2 }, kOut r.2 (toHex r.1))
    | _, _ => bad s
  | ["k.dec", hex] =>
    match s.kc, parseHex hex with
    | some c, some b => let r := Keccak.decrypt fK c b; ({ s with kc := some r.2 }, kOut r.2 (toHex r.1))
    | _, _ => bad s
  | ["k.pad", hex] =>
    match s.kc, parseHex hex with
    | some c, some b => let c' := Keccak.pad fK c b; ({ s with kc := some c' }, kOut c' "ok")
    | _, _ => bad s
  | ["k.rew"] =>
    match s.kc with
    | some c => let c' := Keccak.rewind c; ({ s with kc := some c' }, kOut c' "ok")
    | none => bad s
  | ["k.fgt"] =>
    match s.kc with
    | some c => let c' := Keccak.forget c; ({ s with kc := some c' }, kOut c' "ok")
    | none => bad s
  | ["k.dump"] =>
    match s.kc with
    | some c => (s, s!"dump ## {toHex c.st}")
    | none => bad s
  | ["k.perm", hex] =>
    match parseHex hex with
    | some b => if b.length = 200 then (s, toHex (fK b)) else bad s
    | none => bad s
  -- keccak_prng
  | ["p.init", cap] =>
    match parseNat cap with
    | some cap =>
      match Sha3.prngInit cap with
      | some p => ({ s with prng := some p }, "1")
      | none => ({ s with prng := none }, "0")
    | none => bad s
  | ["p.add", hex] =>
    match s.prng, parseHex hex with
    | some p, some b => let p' := Sha3.prngAddData fK p b; ({ s with prng := some p' }, kOut p'.ctx "ok")
    | _, _ => bad s
  | ["p.ext", n] =>
    match s.prng, parseLen n with
    | some p, some n =>
      let r := Sha3.prngExtract fK p n
      ({ s with prng := some r.2 }, kOut r.2.ctx (match r.1 with | some b => toHex b | none => "false"))
    | _, _ => bad s
  -- ChaCha
  | ["c.key256", hex] =>
    match parseHex hex with
    | some k => if k.length = 32 then ({ s with cc := ChaCha.setKey256 s.cc k, ccKey := true }, "ok") else bad s
    | none => bad s
  | ["c.key128", hex] =>
    match parseHex hex with
    | some k => if k.length = 16 then ({ s with cc := ChaCha.setKey128 s.cc k, ccKey := true }, "ok") else bad s
    | none => bad s
  | ["c.nonce", lo, hi, iv] =>
    match parseNat lo, parseNat hi with
    | some lo, some hi =>
      if lo < 2 ^ 32 ∧ hi < 2 ^ 32 then
        if iv = "null" then
          if s.ccNonce then ({ s with cc := ChaCha.setNonce s.cc (UInt32.ofNat lo) (UInt32.ofNat hi) none }, "ok")
          else bad s
        else match parseHex iv with
          | some v =>
            if v.length = 8 then
              ({ s with cc := ChaCha.setNonce s.cc (UInt32.ofNat lo) (UInt32.ofNat hi) (some v), ccNonce := true }, "ok")
            else bad s
          | none => bad s
      else bad s
    | _, _ => bad s
  | ["c.ks", n] =>
    match parseLen n with
    | some n =>
      if s.ccKey ∧ s.ccNonce then
        let r := ChaCha.keystream s.cc.bf s.cc.s n
        let cc := { s.cc with s := r.2 }
        ({ s with cc := cc }, ccOut cc (toHex r.1))
      else bad s
    | none => bad s
  | ["c.xor", hex] =>
    match parseHex hex with
    | some b =>
      if s.ccKey ∧ s.ccNonce then
        let r := ChaCha.keystreamXor s.cc.bf s.cc.s b
        let cc := { s.cc with s := r.2 }
        ({ s with cc := cc }, ccOut cc (toHex r.1))
      else bad s
    | none => bad s
  | _ => bad s

end C05Drv

def main : IO Unit := Usual.runDriver ({} : C05Drv.St) C05Drv.step
