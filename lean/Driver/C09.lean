import Usual.Common
import Usual.C09.World
/-! Model driver for C09 (allocators, safe_mul): same op lines as harness/C09/h.c. -/
open Usual Usual.C09

namespace C09Drv

def num (s : String) : Option Nat := s.toNat?

def fmtAddr (a : Nat) : String := s!"R{a / regionSpan - 1}+{a % regionSpan}"

def live (w : World) : String := s!"live={w.regs.length}"

def obsOk (al : Bool) : String := s!"al={if al then 1 else 0} in=1 dj=1 ct=1"

def okParent (w : World) (slot : Nat) : Bool :=
  match w.slot slot with
  | some .trk => true
  | some (.talloc ..) => true
  | some (.troot ..) => true
  | some (.tsub ..) => true
  | some (.pool p _ _) => p.align % 8 == 0
  | _ => false

def isTree (w : World) (slot : Nat) : Bool :=
  match w.slot slot with
  | some (.troot ..) => true
  | some (.tsub ..) => true
  | _ => false

def isCx (w : World) (slot : Nat) : Bool :=
  match w.slot slot with
  | some .trk => true
  | some (.talloc ..) => true
  | some (.troot ..) => true
  | some (.tsub ..) => true
  | some (.pool ..) => true
  | _ => false

def alignArgOk (a : Nat) : Bool := a == 0 || (a < 2 ^ 32 && isPowerOf2 a)

/-- alignment the block must have: the pool's `align`; nothing is requested from the others -/
def alOf (w : World) (slot : Nat) (q : Nat) : Bool :=
  match w.slot slot with
  | some (.pool p _ _) => q % p.align == 0
  | _ => true

def smWidth (t : String) : Option Nat :=
  match t with
  | "u8" => some 8 | "u16" => some 16 | "u32" => some 32 | "uint" => some 32
  | "u64" => some 64 | "ulong" => some 64 | "size" => some 64
  | _ => none

def mixStep (h : UInt64) (v : UInt64) : UInt64 := (h ^^^ v) * 0x100000001b3

def smVal (lim mx md a b : Nat) : UInt64 :=
  match safeMulCore lim mx md a b with
  | some r => UInt64.ofNat (2 * r + 1)
  | none => 0

def smRowHash (lim mx md a : Nat) : Nat → Nat → UInt64 → UInt64
  | 0, _, h => h
  | n + 1, b, h => smRowHash lim mx md a n (b + 1) (mixStep h (smVal lim mx md a b))

def smRangeHashCore (lim mx md : Nat) (blo bn : Nat) : Nat → Nat → UInt64 → UInt64
  | 0, _, h => h
  | n + 1, a, h => smRangeHashCore lim mx md blo bn n (a + 1) (smRowHash lim mx md a bn blo h)

/-- hash of `safeMul w a b` over a rectangle (`safeMul w = safeMulCore` at the constants of `w`) -/
def smRangeHash (w : Nat) (blo bn an alo : Nat) (h : UInt64) : UInt64 :=
  smRangeHashCore (1 <<< (w / 2)) (2 ^ w - 1) (2 ^ w) blo bn an alo h

def ip2Hash : Nat → Nat → UInt64 → UInt64
  | 0, _, h => h
  | n + 1, x, h => ip2Hash n (x + 1) (mixStep h (if isPowerOf2 x then 1 else 0))

/-- running summary of a bulk op: blocks obtained, all aligned, hash of their addresses in order -/
structure Bulk where
  cnt : Nat := 0
  al : Bool := true
  h : UInt64 := 0xcbf29ce484222325

def Bulk.add (b : Bulk) (q : Nat) (al : Bool) : Bulk :=
  { cnt := b.cnt + 1, al := b.al && al, h := mixStep b.h (UInt64.ofNat q) }

def Bulk.fmt (b : Bulk) (w : World) : String :=
  s!"n={b.cnt} al={if b.al then 1 else 0} in=1 dj=1 ct=1 ## h={b.h.toNat} {live w}"

/-- `n` times `slab_alloc` (the objects stay with the client until the slab is destroyed) -/
def sbulkLoop (par align mis : Nat) : Nat → World → Slab → Bulk → World × Slab × Bulk
  | 0, w, sl, acc => (w, sl, acc)
  | n + 1, w, sl, acc =>
    let (w1, pa) := match slabAllocReq sl with
      | some req => cxAllocW fuelW w par req mis
      | none => (w, none)
    let (sl', r) := slabAlloc sl pa
    let acc' := match r with
      | some q => acc.add q (q % (if align == 16 && par == 0 then 16 else 8) == 0)
      | none => acc
    sbulkLoop par align mis n w1 sl' acc'

/-- `n` times `cx_alloc(slot, size)` (the blocks stay with the client until the allocator is destroyed) -/
def abulkLoop (slot size mis : Nat) : Nat → World → Bulk → World × Bulk
  | 0, w, acc => (w, acc)
  | n + 1, w, acc =>
    let (w1, r) := cxAllocW fuelW w slot size mis
    let acc' := match r with
      | some q => acc.add q (alOf w1 slot q)
      | none => acc
    abulkLoop slot size mis n w1 acc'

def step (w : World) (line : String) : World × String :=
  let ws := words line
  let bad := (w, "bad-op")
  match ws with
  | ["#case"] => (World.init, "#case")
  | ["failnext"] => ({ w with failNext := true }, "ok")
  | ["sizes"] =>
    (w, s!"sizes ## pool={sizeofPool} seg={poolHdr} tree={sizeofTree} item={treeHdr} slab={sizeofSlab} frag={slabFragHdr} mp={mpHdr} th={tallocHdr}")
  | ["pool", s, par, ini, al, mis] =>
    (match num s, num par, num ini, num al, num mis with
     | some s, some par, some ini, some al, some mis =>
       if (w.slot s).isSome || !okParent w par || !alignArgOk al then bad else
       let (w1, pa) := cxAllocW fuelW w par (newPoolReq ini) mis
       (match newPool ini al pa with
        | some p => let w2 := w1.setSlot s (.pool p par none); (w2, s!"ok ## {live w2}")
        | none => (w1, s!"ok ## null {live w1}"))
     | _, _, _, _, _ => bad)
  | ["area", s, par, bsz, boff, af, al, mis] =>
    (match num s, num par, num bsz, num boff, num af, num al, num mis with
     | some s, some par, some bsz, some boff, some af, some al, some mis =>
       if (w.slot s).isSome || !okParent w par || !alignArgOk al || af > 1 || boff % 8 != 0
          || (af == 1 && boff != 0) || bsz + boff == 0 then bad else
       let (w1, pa) := cxAllocW fuelW w par (boff + bsz) mis
       (match pa with
        | none => (w1, s!"ok ## null {live w1}")
        | some a =>
          match fromArea (a + boff) bsz (af == 1) al with
          | some p =>
            let w2 := w1.setSlot s (.pool p par (if af == 1 then none else some a))
            (w2, s!"ok ## {live w2}")
          | none => let w2 := cxFreeW fuelW w1 par a; (w2, s!"ok ## null {live w2}"))
     | _, _, _, _, _, _, _ => bad)
  | ["tree", s, par, mis] =>
    (match num s, num par, num mis with
     | some s, some par, some mis =>
       if (w.slot s).isSome || !okParent w par then bad else
       (match w.treeOf par with
        | some (r, t, real) =>
          let (w1, pa) := cxAllocW fuelW w real sizeofTree mis
          (match pa with
           | none => (w1, s!"ok ## null {live w1}")
           | some a =>
             let w2 := (w1.setSlot r (.troot (t.update (treeAddSub s a) par) real)).setSlot s (.tsub r)
             (w2, s!"ok ## {live w2}"))
        | none =>
          let (w1, pa) := cxAllocW fuelW w par sizeofTree mis
          (match pa with
           | none => (w1, s!"ok ## null {live w1}")
           | some a => let w2 := w1.setSlot s (.troot (.mk s a [] []) par); (w2, s!"ok ## {live w2}")))
     | _, _, _ => bad)
  | ["talloc", s, mis] =>
    (match num s, num mis with
     | some s, some mis =>
       if (w.slot s).isSome then bad else
       let w := { w with failNext := false }
       let (w1, root) := trkAlloc w tallocHdr mis
       let (w2, cx) := trkAlloc w1 (16 + tallocHdr) mis
       let w3 := w2.setSlot s (.talloc root cx [])
       (w3, s!"ok ## {live w3}")
     | _, _ => bad)
  | ["a", s, b, size, mis] =>
    (match num s, num b, num size, num mis with
     | some s, some b, some size, some mis =>
       if !isCx w s || (w.blk b).isSome || size ≥ 2 ^ 64 then bad else
       let (w1, r) := cxAllocW fuelW w s size mis
       (match r with
        | some q => let w2 := w1.setBlk b { slot := s, ptr := q, len := size }
                    (w2, s!"{obsOk (alOf w2 s q)} ## {fmtAddr q} {live w2}")
        | none => (w1, s!"{obsOk true} ## null {live w1}"))
     | _, _, _, _ => bad)
  | ["r", s, b, size, mis] =>
    (match num s, num b, num size, num mis with
     | some s, some b, some size, some mis =>
       (match w.blk b with
        | some blk =>
          if blk.slot != s || !isCx w s || size ≥ 2 ^ 64 then bad else
          let (w1, r) := cxReallocW fuelW w s blk.ptr size mis
          (match r with
           | some q => let w2 := w1.setBlk b { slot := s, ptr := q, len := size }
                       (w2, s!"{obsOk (alOf w2 s q)} ## {fmtAddr q} {live w2}")
           | none =>
             let w2 := if size == 0 then w1.delBlk b else w1
             (w2, s!"{obsOk true} ## null {live w2}"))
        | none => bad)
     | _, _, _, _ => bad)
  | ["f", s, b] =>
    (match num s, num b with
     | some s, some b =>
       (match w.blk b with
        | some blk =>
          if blk.slot != s || !isCx w s then bad else
          let w1 := (cxFreeW fuelW w s blk.ptr).delBlk b
          (w1, s!"{obsOk true} ## - {live w1}")
        | none => bad)
     | _, _ => bad)
  | ["freenull", s] =>
    -- cx_free(cx, NULL): a no-op for every allocator ("libc" = cx_libc_allocator / USUAL_ALLOC)
    if s == "libc" then (w, "ok") else
    (match num s with
     | some s => if !isCx w s then bad else (cxFreeOptW fuelW w s none, "ok")
     | _ => bad)
  | ["d", s] =>
    (match num s with
     | some s =>
       (match w.slot s with
        | none => bad
        | some .trk => bad
        | some _ =>
          if !w.canDestroy s then bad else
          let w1 := destroyW w s
          (w1, s!"{live w1} ct=1 ## -"))
     | _ => bad)
  | ["slab", s, par, osz, al, ini, mis] =>
    (match num s, num par, num osz, num al, num ini, num mis with
     | some s, some par, some osz, some al, some ini, some mis =>
       if (w.slot s).isSome || !okParent w par || osz ≥ 2 ^ 32 || al ≥ 2 ^ 32 || ini > 1
          || !(al < 8 || isPowerOf2 al) then bad else
       let (w1, pa) := cxAllocW fuelW w par sizeofSlab mis
       (match slabCreate osz al pa with
        | some sl => let w2 := w1.setSlot s (.slab sl par osz al); (w2, s!"ok ## {live w2}")
        | none => (w1, s!"ok ## null {live w1}"))
     | _, _, _, _, _, _ => bad)
  | ["sa", s, b, mis] =>
    (match num s, num b, num mis with
     | some s, some b, some mis =>
       (match w.slot s with
        | some (.slab sl par osz al) =>
          if (w.blk b).isSome then bad else
          let (w1, pa) := match slabAllocReq sl with
            | some req => cxAllocW fuelW w par req mis
            | none => (w, none)
          let (sl', r) := slabAlloc sl pa
          let w2 := w1.setSlot s (.slab sl' par osz al)
          (match r with
           | some q =>
             let w3 := w2.setBlk b { slot := s, ptr := q, len := osz }
             let req := if al == 16 && par == 0 then 16 else 8
             (w3, s!"{obsOk (q % req == 0)} ## {fmtAddr q} {live w3}")
           | none => (w2, s!"{obsOk true} ## null {live w2}"))
        | _ => bad)
     | _, _, _ => bad)
  | ["sbulk", s, n, mis] =>
    (match num s, num n, num mis with
     | some s, some n, some mis =>
       (match w.slot s with
        | some (.slab sl par osz al) =>
          if n > 4000000 then bad else
          let (w1, sl', acc) := sbulkLoop par al mis n w sl {}
          let w2 := w1.setSlot s (.slab sl' par osz al)
          (w2, acc.fmt w2)
        | _ => bad)
     | _, _, _ => bad)
  | ["abulk", s, n, size, mis] =>
    (match num s, num n, num size, num mis with
     | some s, some n, some size, some mis =>
       (match w.slot s with
        | some (.pool ..) | some (.troot ..) | some (.tsub ..) | some (.talloc ..) =>
          if n > 4000000 || size ≥ 2 ^ 32 || size == 0 then bad else
          let (w1, acc) := abulkLoop s size mis n w {}
          (w1, acc.fmt w1)
        | _ => bad)
     | _, _, _, _ => bad)
  | ["sf", s, b] =>
    (match num s, num b with
     | some s, some b =>
       (match w.slot s, w.blk b with
        | some (.slab sl par osz al), some blk =>
          if blk.slot != s then bad else
          let w1 := (w.setSlot s (.slab (slabFree sl blk.ptr) par osz al)).delBlk b
          (w1, s!"{obsOk true} ## - {live w1}")
        | _, _ => bad)
     | _, _ => bad)
  | ["mp", s] =>
    (match num s with
     | some s =>
       if (w.slot s).isSome then bad else
       let w1 := w.setSlot s (.mp { segs := [] })
       (w1, s!"ok ## {live w1}")
     | _ => bad)
  | ["mdin", s, b] =>
    -- mempool_destroy(&handle) with the handle stored inside block b of the pool: where the handle
    -- lives makes no difference, every segment goes back exactly once
    (match num s, num b with
     | some s, some b =>
       (match w.slot s, w.blk b with
        | some (.mp _), some blk =>
          if blk.slot != s || blk.len < 8 then bad else
          let w1 := destroyW w s
          (w1, s!"{live w1} ct=1 ## -")
        | _, _ => bad)
     | _, _ => bad)
  | ["rx", reps, mis] =>
    -- regcomp/regexec/regfree of the internal regex: all mempool blocks are back afterwards
    (match num reps, num mis with
     | some reps, some _ => if reps > 5000 then bad else (w, s!"ok ## {live w}")
     | _, _ => bad)
  | ["ma", s, b, size, mis] =>
    (match num s, num b, num size, num mis with
     | some s, some b, some size, some mis =>
       (match w.slot s with
        | some (.mp m) =>
          if (w.blk b).isSome || size ≥ 2 ^ 32 then bad else
          let (w1, pa) := match mpAllocReq m size with
            | some req => trkAllocO w req mis
            | none => (w, none)
          (match mpAlloc m size pa with
           | some (m', q) =>
             let w2 := (w1.setSlot s (.mp m')).setBlk b { slot := s, ptr := q, len := size }
             (w2, s!"{obsOk (q % 8 == 0)} ## {fmtAddr q} {live w2}")
           | none => (w1, s!"{obsOk true} ## null {live w1}"))
        | _ => bad)
     | _, _, _, _ => bad)
  | ["sm", t, a, b] =>
    (match smWidth t, num a, num b with
     | some wd, some a, some b =>
       if a ≥ 2 ^ wd || b ≥ 2 ^ wd then bad else
       (match safeMul wd a b with
        | some r => (w, s!"1 {r}")
        | none => (w, "0"))
     | _, _, _ => bad)
  | ["smr", t, alo, ahi, blo, bhi] =>
    (match smWidth t, num alo, num ahi, num blo, num bhi with
     | some wd, some alo, some ahi, some blo, some bhi =>
       if ahi > 2 ^ wd || bhi > 2 ^ wd || alo > ahi || blo > bhi then bad else
       (w, s!"{(smRangeHash wd blo (bhi - blo) (ahi - alo) alo 0xcbf29ce484222325).toNat}")
     | _, _, _, _, _ => bad)
  | ["ip2", n] =>
    (match num n with
     | some n => if n ≥ 2 ^ 32 then bad else (w, if isPowerOf2 n then "1" else "0")
     | _ => bad)
  | ["ip2r", lo, hi] =>
    (match num lo, num hi with
     | some lo, some hi =>
       if hi > 2 ^ 32 || lo > hi then bad else
       (w, s!"{(ip2Hash (hi - lo) lo 0xcbf29ce484222325).toNat}")
     | _, _ => bad)
  | ["ra", c, sz] =>
    (match num c, num sz with
     | some c, some sz =>
       if c ≥ 2 ^ 64 || sz ≥ 2 ^ 64 then bad else
       (match reallocarrayReq c sz with
        | some n => (w, s!"req={n}")
        | none => (w, "null"))
     | _, _ => bad)
  | ["ta", e, c] =>
    (match num e, num c with
     | some e, some c =>
       if e ≥ 2 ^ 64 || c ≥ 2 ^ 64 then bad else
       (match tallocArrayReq e c with
        | some n => if n > tallocMaxLen then (w, "null") else (w, s!"req={alignUp n 8 + tallocHdr}")
        | none => (w, "null"))
     | _, _ => bad)
  | ["tr", e, c] =>
    (match num e, num c with
     | some e, some c =>
       if e ≥ 2 ^ 64 || c ≥ 2 ^ 64 then bad else
       (match tallocReallocReq e c with
        | some n => if n == 0 then (w, "null") else (w, s!"req={alignUp n 8 + tallocHdr}")
        | none => (w, "null"))
     | _, _ => bad)
  | _ => bad

end C09Drv

/-- `failnext` arms a failure of the base allocator for the next op line only -/
def stepLine (w : World) (line : String) : World × String :=
  let (w', out) := C09Drv.step w line
  if words line == ["failnext"] then (w', out) else ({ w' with failNext := false }, out)

def main : IO Unit := runDriver World.init stepLine
