import Usual.Common
/-! Model driver for C09 (stub: not built yet). -/
def main : IO Unit := IO.println "stub"
