import Usual.Common
import Usual.C15.Store
import Usual.C15.HashTab
import Usual.C15.Heap
import Usual.C15.ListSort
import Usual.C15.DList
import Usual.C15.SHList
/-! Model driver for C15: hash table (`ht`), heap (`hp`), List/StatList/list_sort (`dl`),
    SHList (`sh`).  One output line per input line: `observable ## internal`. -/
open Usual Usual.C15

namespace C15Drv

def fnvInit : UInt64 := 0xcbf29ce484222325
def fnv (h v : UInt64) : UInt64 := Id.run do
  let mut h := h
  for i in [0:8] do
    h := (h ^^^ ((v >>> (8 * i).toUInt64) &&& 0xff)) * 0x100000001b3
  return h
def fnvN (h : UInt64) (v : Nat) : UInt64 := fnv h (UInt64.ofNat v)
def fnvI (h : UInt64) (v : Int) : UInt64 := fnv h (UInt64.ofInt v)
def hx (h : UInt64) : String := String.ofList (Nat.toDigits 16 h.toNat)

def splitmix (seed i : Nat) : Nat :=
  let s : UInt64 := UInt64.ofNat seed * 0x9E3779B97F4A7C15 + 0x1234567 + (UInt64.ofNat (i + 1)) * 0x9E3779B97F4A7C15
  let z := (s ^^^ (s >>> 30)) * 0xBF58476D1CE4E5B9
  let z := (z ^^^ (z >>> 27)) * 0x94D049BB133111EB
  (z ^^^ (z >>> 31)).toNat

/-- decimal `unsigned long long` (what the harness accepts with strtoull) -/
def _root_.String.pn (w : String) : Option Nat :=
  if w.isEmpty || !(w.toList.all Char.isDigit) then none else
  match w.toNat? with
  | some n => if n < 2 ^ 64 then some n else none
  | none => none

structure St where
  -- hashtab
  ht : List HashTab.Table := [HashTab.create 8]
  htMode : Nat := 0
  -- heap
  hp : Heap.Heap := Heap.init
  pri : Store := Store.empty
  inHeap : Store := Store.empty
  hpFail : Bool := false            -- `hp fail`: the heap's next allocator request returns NULL
  -- lists
  dl : DList.DL := DList.listInit (DList.listInit (DList.listInit (DList.listInit DList.empty 1) 2) 3) 4
  dkey : Store := Store.empty
  dst : Store := Store.empty          -- 0 = uninitialised, 1 = detached, 1 + h = member of list h
  dcnt3 : Int := 0
  dcnt4 : Int := 0
  dmax : Nat := 4
  -- shlist
  sh : SHList.Mem := SHList.init (SHList.init SHList.emptyMem 1024) (1024 + 16)
  shOff : Nat := 0
  shH : Nat := 0                       -- layout: slot k lives at region offset shH + shStride * k
  shStride : Nat := 16
  shN : Nat := 64                      -- number of slots; region length = shH + shStride * shN
  shSt : Store := Store.empty          -- per slot: 0 uninit, 1 detached, 2 + h member of head h

def shArena : Nat := 1024
def shSlots : Nat := 64
def shArenaLen : Nat := 8192

/-! ## hashtab -/

def htCmp (mode : Nat) (cur arg : Nat) : Bool :=
  if mode = 0 then cur == arg else cur / 16 == arg / 16
def htShift (mode v : Nat) : Nat := if mode = 0 then v else v / 16

def pairLt (a b : Nat × Nat) : Bool := a.1 < b.1 || (a.1 == b.1 && a.2 < b.2)

def htSorted (s : St) : Array (Nat × Nat) :=
  ((HashTab.contents s.ht).map fun kv => (kv.1, htShift s.htMode kv.2)).toArray.qsort pairLt

def htTail (s : St) : String :=
  let st := HashTab.stats s.ht
  let c := (htSorted s).foldl (fun h kv => fnvN (fnvN h kv.1) kv.2) fnvInit
  let ih := s.ht.foldl (fun h t =>
    (List.range t.size).foldl (fun h i => fnvN (fnvN h (t.keys.get i)) (t.vals.get i))
      (fnvN (fnvN h t.size) t.used)) fnvInit
  s!" n={st.1} c={hx c} ## nt={st.2} h={hx ih}"

def htDump (s : St) : String :=
  let st := HashTab.stats s.ht
  let c := ",".intercalate ((htSorted s).toList.map fun kv => s!"{kv.1}:{kv.2}")
  let tabs := " ".intercalate (s.ht.map fun t =>
    s!"T{t.size}:{t.used}:[" ++ ",".intercalate ((List.range t.size).map fun i =>
      s!"{t.keys.get i}:{t.vals.get i}") ++ "]")
  s!"dump n={st.1} c={c} ## nt={st.2} {tabs}"

def isPow2 (n : Nat) : Bool := n ≥ 2 && n ≤ 1024 && (n &&& (n - 1)) == 0

def parseArg (w : String) : Option (Option Nat) :=
  if w == "-" then some none else
  match w.pn with
  | some a => if a ≥ 1 then some (some a) else none
  | none => none

def htStep (s : St) (w : List String) : St × String :=
  match w with
  | ["new", sz, md] =>
    match sz.pn, md.pn with
    | some sz, some md =>
      if isPow2 sz && md ≤ 1 then
        let s := { s with ht := [HashTab.create sz], htMode := md }
        (s, "ok" ++ htTail s)
      else (s, "bad-op")
    | _, _ => (s, "bad-op")
  | ["ins", k, v, a] =>
    match k.pn, v.pn, parseArg a with
    | some k, some v, some a =>
      if v = 0 then (s, "bad-op") else
      let r := HashTab.insert (htCmp s.htMode) k v a s.ht
      let s := { s with ht := r.1 }
      match r.2 with
      | .new => (s, "new" ++ htTail s)
      | .exists e => (s, s!"exists {htShift s.htMode e}" ++ htTail s)
      | .spin => (s, "SPIN")
    | _, _, _ => (s, "bad-op")
  | ["get", k, a] =>
    match k.pn, parseArg a with
    | some k, some a =>
      match HashTab.lookup (htCmp s.htMode) k a s.ht 0 with
      | .found ti p =>
        let v := ((s.ht.getD ti (HashTab.create 0)).vals.get p)
        (s, s!"found {htShift s.htMode v}" ++ htTail s ++ s!" at={ti}:{p}:{v}")
      | .none => (s, "none" ++ htTail s)
      | .spin => (s, "SPIN")
    | _, _ => (s, "bad-op")
  | ["del", k, a] =>
    match k.pn, parseArg a with
    | some k, some a =>
      match HashTab.delete (htCmp s.htMode) k a s.ht with
      | some h => let s := { s with ht := h }; (s, "ok" ++ htTail s)
      | none => (s, "SPIN")
    | _, _ => (s, "bad-op")
  | ["copy", sz] =>
    match sz.pn with
    | some sz =>
      if isPow2 sz then
        match HashTab.copy s.ht sz with
        | some h => let s := { s with ht := h }; (s, "ok" ++ htTail s)
        | none => (s, "SPIN")
      else (s, "bad-op")
    | none => (s, "bad-op")
  | ["all"] =>
    -- every stored pair must be findable through the API with itself as `arg`
    let pairs := HashTab.contents s.ht
    let ok := pairs.foldl (fun n kv =>
      match HashTab.lookup (htCmp s.htMode) kv.1 (some kv.2) s.ht 0 with
      | .found ti p =>
        let t := s.ht.getD ti (HashTab.create 0)
        if t.keys.get p = kv.1 && htCmp s.htMode (t.vals.get p) kv.2 then n + 1 else n
      | _ => n) 0
    (s, s!"all {ok}/{pairs.length}" ++ htTail s)
  | ["dump"] => (s, htDump s)
  | _ => (s, "bad-op")

/-! ## heap -/

def hpBetter (pri : Store) (a b : Nat) : Bool := pri.get a < pri.get b

def hpTail (s : St) : String :=
  let ids := Heap.toList s.hp
  let ps := (ids.map s.pri.get).toArray.qsort (· < ·)
  let m := ps.foldl fnvN fnvInit
  let ih := ids.foldl fnvN fnvInit
  let sp := if Heap.posOkB s.hp then 1 else 0
  s!" n={s.hp.used} sp={sp} m={hx m} ## a={s.hp.allocated} h={hx ih}"

def hpStep (s : St) (w : List String) : St × String :=
  let better := hpBetter s.pri
  match w with
  | ["push", id, p] =>
    match id.pn, p.pn with
    | some id, some p =>
      if id = 0 || id ≥ 4096 || s.inHeap.get id ≠ 0 then (s, "bad-op") else
      let pri := s.pri.set id p
      let allocs := decide (s.hp.used ≥ s.hp.allocated)
      let r := Heap.pushO (!s.hpFail) (hpBetter pri) s.hp id
      let s := { s with pri := pri, inHeap := s.inHeap.set id (if r.2 then 1 else 0), hp := r.1,
                        hpFail := s.hpFail && !allocs }
      (s, (if r.2 then "1" else "0") ++ hpTail s)
    | _, _ => (s, "bad-op")
  | ["fail"] =>
    let s := { s with hpFail := true }
    (s, "ok" ++ hpTail s)
  | ["pop"] =>
    let r := Heap.pop better s.hp
    if r.2 = 0 then (s, "null" ++ hpTail s) else
    let s := { s with hp := r.1, inHeap := s.inHeap.set r.2 0 }
    (s, s!"pri={s.pri.get r.2}" ++ hpTail s ++ s!" id={r.2}")
  | ["rm", i] =>
    match i.pn with
    | some i =>
      let at_ := Heap.getObj s.hp i
      let r := Heap.remove better s.hp i
      if r.2 = 0 then (s, "null" ++ hpTail s) else
      let s := { s with hp := r.1, inHeap := s.inHeap.set r.2 0 }
      (s, s!"same={if at_ = r.2 then 1 else 0}" ++ hpTail s ++ s!" id={r.2}")
    | none => (s, "bad-op")
  | ["top"] =>
    let t := Heap.top s.hp
    if t = 0 then (s, "null" ++ hpTail s) else (s, s!"pri={s.pri.get t}" ++ hpTail s ++ s!" id={t}")
  | ["get", i] =>
    match i.pn with
    | some i =>
      let t := Heap.getObj s.hp i
      if t = 0 then (s, "null" ++ hpTail s) else (s, "obj" ++ hpTail s ++ s!" id={t}")
    | none => (s, "bad-op")
  | ["reserve", e] =>
    match e.pn with
    | some e =>
      if e > 100000 then (s, "bad-op") else
      let allocs := Heap.reserveAllocs s.hp e
      let r := Heap.reserveO (!s.hpFail) s.hp e
      let s := { s with hp := r.1, hpFail := s.hpFail && !allocs }
      (s, (if r.2 then "1" else "0") ++ hpTail s)
    | none => (s, "bad-op")
  | ["dump"] =>
    let ids := Heap.toList s.hp
    (s, "dump " ++ ",".intercalate (ids.map fun x => s!"{s.pri.get x}") ++ s!" n={s.hp.used} ## a={s.hp.allocated} " ++
        ",".intercalate (ids.map fun x => s!"{x}@{s.hp.pos.get x}"))
  | _ => (s, "bad-op")

/-! ## List / StatList / list_sort -/

def dlMaxNode : Nat := 10100

def dlCount (s : St) (h : Nat) : Int := if h = 3 then s.dcnt3 else s.dcnt4
def dlSetCount (s : St) (h : Nat) (c : Int) : St := if h = 3 then { s with dcnt3 := c } else { s with dcnt4 := c }

def hashList (l : List Nat) : UInt64 := l.foldl fnvN fnvInit

def dlHeadStr (s : St) (h : Nat) : String :=
  let fuel := s.dmax + 1
  let f := DList.toList s.dl h fuel
  let b := DList.toListRev s.dl h fuel
  let base := s!" L{h}={f.length}:{hx (hashList f)}:{b.length}:{hx (hashList b)}"
  if h ≥ 3 then base ++ s!":{dlCount s h}" else base

def dlTail (s : St) : String :=
  let ih := (List.range (s.dmax + 1)).foldl (fun h i => fnvN (fnvN h (s.dl.next.get i)) (s.dl.prev.get i)) fnvInit
  dlHeadStr s 1 ++ dlHeadStr s 2 ++ dlHeadStr s 3 ++ dlHeadStr s 4 ++ s!" ## r={hx ih}"

def isHead (h : Nat) : Bool := h ≥ 1 && h ≤ 4
def isItem (x : Nat) : Bool := x ≥ 5 && x ≤ dlMaxNode

def dlLe (key : Store) (a b : Nat) : Bool := key.get a ≤ key.get b

def ptrStr (x : Nat) : String := if x = 0 then "null" else toString x

def dlInsert (s : St) (h x : Nat) (front : Bool) : St :=
  let s := { s with dst := s.dst.set x (1 + h) }
  if h ≤ 2 then
    { s with dl := if front then DList.listPrepend s.dl h x else DList.listAppend s.dl h x }
  else
    let sl : DList.SL := { head := h, count := dlCount s h }
    let r := if front then DList.statPrepend s.dl sl x else DList.statAppend s.dl sl x
    dlSetCount { s with dl := r.1 } h r.2.count

def dlStep (s : St) (w : List String) : St × String :=
  match w with
  | ["node", x] =>
    match x.pn with
    | some x =>
      if isItem x && s.dst.get x ≤ 1 then
        let s := { s with dl := DList.listInit s.dl x, dst := s.dst.set x 1, dmax := max s.dmax x }
        (s, "ok" ++ dlTail s)
      else (s, "bad-op")
    | none => (s, "bad-op")
  | ["key", x, k] =>
    match x.pn, k.pn with
    | some x, some k =>
      if isItem x && k < 1000000 then
        let s := { s with dkey := s.dkey.set x k }
        (s, "ok" ++ dlTail s)
      else (s, "bad-op")
    | _, _ => (s, "bad-op")
  | [op, h, x] =>
    match h.pn, x.pn with
    | some h, some x =>
      if op == "popt" then
        -- list_pop_type(list, typ, field): `none` (NULL) on an empty list, else the element
        if (h = 1 || h = 2) && x ≤ 1 then
          let r := DList.listPop s.dl h
          let s := { s with dl := r.1, dst := if r.2 = 0 then s.dst else s.dst.set r.2 1 }
          (s, ptrStr r.2 ++ dlTail s)
        else (s, "bad-op")
      else if op == "pre" || op == "app" then
        if isHead h && isItem x && s.dst.get x = 1 then
          let s := dlInsert s h x (op == "pre")
          (s, "ok" ++ dlTail s)
        else (s, "bad-op")
      else (s, "bad-op")
    | _, _ => (s, "bad-op")
  | ["del", x] =>
    match x.pn with
    | some x =>
      if isItem x && s.dst.get x ≥ 1 then
        let h := s.dst.get x - 1
        let s := { s with dst := s.dst.set x 1 }
        if h ≥ 3 then
          let r := DList.statRemove s.dl { head := h, count := dlCount s h } x
          let s := dlSetCount { s with dl := r.1 } h r.2.count
          (s, "ok" ++ dlTail s)
        else
          let s := { s with dl := DList.listDel s.dl x }
          (s, "ok" ++ dlTail s)
      else (s, "bad-op")
    | none => (s, "bad-op")
  | [op, h] =>
    match h.pn with
    | some h =>
      if !isHead h then (s, "bad-op") else
      if op == "pop" then
        if h ≤ 2 then
          let r := DList.listPop s.dl h
          let s := { s with dl := r.1, dst := if r.2 = 0 then s.dst else s.dst.set r.2 1 }
          (s, ptrStr r.2 ++ dlTail s)
        else
          let r := DList.statPop s.dl { head := h, count := dlCount s h }
          let s := dlSetCount { s with dl := r.1, dst := if r.2.2 = 0 then s.dst else s.dst.set r.2.2 1 } h r.2.1.count
          (s, ptrStr r.2.2 ++ dlTail s)
      else if op == "first" then (s, ptrStr (DList.listFirst s.dl h) ++ dlTail s)
      else if op == "last" then (s, ptrStr (DList.listLast s.dl h) ++ dlTail s)
      else if op == "empty" then (s, (if DList.listEmpty s.dl h then "1" else "0") ++ dlTail s)
      else if op == "sort" then
        let fuel := s.dmax + 1
        let before := DList.toList s.dl h fuel
        let s := { s with dl := DList.listSort (dlLe s.dkey) s.dl h fuel }
        let after := DList.toList s.dl h fuel
        let keys := after.map s.dkey.get
        let sorted := (keys.zip keys.tail).all fun ab => ab.1 ≤ ab.2
        -- stability: rank of each element in the input order
        let rank := (before.zipIdx).foldl (fun (r : Store) xi => r.set xi.1 (xi.2 + 1)) Store.empty
        let stable := (after.zip after.tail).all fun ab =>
          s.dkey.get ab.1 ≠ s.dkey.get ab.2 || rank.get ab.1 < rank.get ab.2
        (s, s!"sort ok={if sorted then 1 else 0}{if stable then 1 else 0}" ++ dlTail s)
      else if op == "dump" then
        let fuel := s.dmax + 1
        let f := DList.toList s.dl h fuel
        let b := DList.toListRev s.dl h fuel
        (s, "dump " ++ ",".intercalate (f.map fun x => s!"{x}/{s.dkey.get x}") ++ " | " ++
            ",".intercalate (b.map toString))
      else (s, "bad-op")
    | none => (s, "bad-op")
  | [op, h, x, p] =>
    match h.pn, x.pn, p.pn with
    | some h, some x, some p =>
      if (op == "before" || op == "after") && (h = 3 || h = 4) && isItem x && s.dst.get x = 1
              && (p = h || (isItem p && s.dst.get p = 1 + h)) then
        let sl : DList.SL := { head := h, count := dlCount s h }
        let r := if op == "before" then DList.statPutBefore s.dl sl x p else DList.statPutAfter s.dl sl x p
        let s := dlSetCount { s with dl := r.1, dst := s.dst.set x (1 + h) } h r.2.count
        (s, "ok" ++ dlTail s)
      else (s, "bad-op")
    | _, _, _ => (s, "bad-op")
  -- dl fill <h> <n> <K> <seed>: n fresh nodes 5 .. 4+n with pseudo-random keys, appended to h
  | ["fill", h, n, k, seed] =>
    match h.pn, n.pn, k.pn, seed.pn with
    | some h, some n, some k, some seed =>
      let nodes := (List.range n).map (· + 5)
      if isHead h && n ≤ dlMaxNode - 4 && k ≥ 1 && k ≤ 1000000 && nodes.all (fun x => s.dst.get x ≤ 1) then
        let s := (List.range n).foldl (fun s i =>
          let x := i + 5
          let s := { s with dl := DList.listInit s.dl x, dkey := s.dkey.set x (splitmix seed i % k),
                            dmax := max s.dmax x, dst := s.dst.set x 1 }
          dlInsert s h x false) s
        (s, "ok" ++ dlTail s)
      else (s, "bad-op")
    | _, _, _, _ => (s, "bad-op")
  | _ => (s, "bad-op")

/-! ## SHList -/

def shLen (s : St) : Nat := s.shH + s.shStride * s.shN
def shAddr (s : St) (slot : Nat) : Nat := shArena + s.shOff + s.shH + s.shStride * slot
def shSlotOf (s : St) (a : Nat) : Nat := (a - (shArena + s.shOff + s.shH)) / s.shStride
def shFuel : Nat := shSlots + 1

def shHeadStr (s : St) (h : Nat) : String :=
  let f := (SHList.toList s.sh (shAddr s h) shFuel).map (shSlotOf s)
  let b := (SHList.toListRev s.sh (shAddr s h) shFuel).map (shSlotOf s)
  s!" H{h}={f.length}:{hx (hashList f)}:{b.length}:{hx (hashList b)}"

def shTail (s : St) : String :=
  let ih := (List.range s.shN).foldl (fun h i =>
    fnvI (fnvI h (s.sh.next.get (shAddr s i))) (s.sh.prev.get (shAddr s i))) fnvInit
  shHeadStr s 0 ++ shHeadStr s 1 ++ s!" ## r={hx ih}"

def shOpt (s : St) : Option Nat → String
  | none => "null"
  | some a => toString (shSlotOf s a)

def shStep (s : St) (w : List String) : St × String :=
  match w with
  -- sh layout <h> <stride> <n>: fresh region whose slot k is at byte offset h + stride * k (the node
  -- embedded in `stride`-byte records; 8-byte aligned like `ptrdiff_t`), both heads initialised
  | ["layout", h, st, n] =>
    match h.pn, st.pn, n.pn with
    | some h, some st, some n =>
      if h % 8 = 0 && h ≤ 64 && st % 8 = 0 && st ≥ 16 && st ≤ 120 && n ≥ 3 && n ≤ 64 then
        let s := { s with shOff := 0, shH := h, shStride := st, shN := n, shSt := Store.empty }
        let s := { s with sh := SHList.init (SHList.init SHList.emptyMem (shAddr s 0)) (shAddr s 1) }
        (s, "ok" ++ shTail s)
      else (s, "bad-op")
    | _, _, _ => (s, "bad-op")
  | ["node", k] =>
    match k.pn with
    | some k =>
      if k ≥ 2 && k < s.shN && s.shSt.get k ≤ 1 then
        let s := { s with sh := SHList.init s.sh (shAddr s k), shSt := s.shSt.set k 1 }
        (s, "ok" ++ shTail s)
      else (s, "bad-op")
    | none => (s, "bad-op")
  | [op, h, k] =>
    match h.pn, k.pn with
    | some h, some k =>
      if op == "popt" then
        -- shlist_pop_type(list, type, field): `none` (NULL) on an empty list, else the element
        if h ≤ 1 && k ≤ 1 then
          let l := shAddr s h
          let r := SHList.pop s.sh l
          let res := shOpt s r.2
          let s := { s with sh := r.1, shSt := match r.2 with | none => s.shSt | some a => s.shSt.set (shSlotOf s a) 1 }
          (s, res ++ shTail s)
        else (s, "bad-op")
      else if (op == "app" || op == "pre") && h ≤ 1 && k ≥ 2 && k < s.shN && s.shSt.get k = 1 then
        let m := if op == "app" then SHList.append s.sh (shAddr s h) (shAddr s k)
                 else SHList.prepend s.sh (shAddr s h) (shAddr s k)
        let s := { s with sh := m, shSt := s.shSt.set k (2 + h) }
        (s, "ok" ++ shTail s)
      else (s, "bad-op")
    | _, _ => (s, "bad-op")
  | ["rm", k] =>
    match k.pn with
    | some k =>
      if k ≥ 2 && k < s.shN && s.shSt.get k ≥ 1 then
        let s := { s with sh := SHList.remove s.sh (shAddr s k), shSt := s.shSt.set k 1 }
        (s, "ok" ++ shTail s)
      else (s, "bad-op")
    | none => (s, "bad-op")
  | ["move", off] =>
    match off.pn with
    | some off =>
      if off % 8 = 0 && off + shLen s ≤ shArenaLen then
        let m := SHList.relocate s.sh (shArena + s.shOff) (shLen s) (shArena + off)
        let s := { s with sh := m, shOff := off }
        (s, "ok" ++ shTail s)
      else (s, "bad-op")
    | none => (s, "bad-op")
  | [op, h] =>
    match h.pn with
    | some h =>
      if h > 1 then (s, "bad-op") else
      let l := shAddr s h
      if op == "pop" then
        let r := SHList.pop s.sh l
        let res := shOpt s r.2
        let s := { s with sh := r.1, shSt := match r.2 with | none => s.shSt | some a => s.shSt.set (shSlotOf s a) 1 }
        (s, res ++ shTail s)
      else if op == "first" then (s, shOpt s (SHList.first s.sh l) ++ shTail s)
      else if op == "last" then (s, shOpt s (SHList.last s.sh l) ++ shTail s)
      else if op == "empty" then (s, (if SHList.isEmpty s.sh l then "1" else "0") ++ shTail s)
      else if op == "dump" then
        let f := (SHList.toList s.sh l shFuel).map (shSlotOf s)
        let b := (SHList.toListRev s.sh l shFuel).map (shSlotOf s)
        (s, "dump " ++ ",".intercalate (f.map toString) ++ " | " ++ ",".intercalate (b.map toString))
      else (s, "bad-op")
    | none => (s, "bad-op")
  | _ => (s, "bad-op")

def step (s : St) (line : String) : St × String :=
  match words line with
  | ["#case"] => ({}, "#case")
  | "ht" :: w => htStep s w
  | "hp" :: w => hpStep s w
  | "dl" :: w => dlStep s w
  | "sh" :: w => shStep s w
  | _ => (s, "bad-op")

end C15Drv

def main : IO Unit := Usual.runDriver ({} : C15Drv.St) C15Drv.step
