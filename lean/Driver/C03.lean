import Usual.Common
import Usual.C03.Build
/-! Model driver for C03: JSON builder / render / re-parse (line protocol of FRAMEWORK.md).

Slots: every constructor line (`null bool int float str list dict parse`) takes the next slot
number; a slot holds a heap id or NULL.  `N` names the NULL pointer in argument position. -/
open Usual Usual.C03

structure St where
  heap : Heap := {}
  slots : Array (Option Nat) := #[]
  fmt : List (UInt64 × Bytes) := []      -- %.17g texts reported on the op lines
  sd : List (Bytes × UInt64) := []       -- number token → bits (for re-parsing)
  cyc : Bool := true                     -- repair F38 (cycle check) present in the code under test

def parseBits (s : String) : Option UInt64 :=
  if s.length != 16 then none else
  match parseHex s with
  | some bs => some (UInt64.ofNat (bs.foldl (fun a b => a * 256 + b.toNat) 0))
  | none => none

/-- `-?[0-9]+` -/
def strictInt (s : String) : Option Int :=
  let cs := s.toList
  let (neg, ds) := match cs with | '-' :: r => (true, r) | r => (false, r)
  if ds.isEmpty || !ds.all Char.isDigit then none else
  let n : Nat := ds.foldl (fun a c => a * 10 + (c.toNat - 48)) 0
  some (if neg then -(n : Int) else n)

def bitsHex (x : UInt64) : String :=
  toHex ((List.range 8).map fun i => UInt8.ofNat ((x.toNat >>> (8 * (7 - i))) % 256))

def fmtOf (st : St) (x : UInt64) : Bytes :=
  match st.fmt.find? (·.1 == x) with
  | some (_, t) => t
  | none => []

def sdOf (st : St) (t : Bytes) : Option UInt64 :=
  match st.sd.find? (·.1 == t) with
  | some (_, x) => some x
  | none => none

/-- register the `%.17g` text of a double; returns the state and a marker when a hypothesis of
the round-trip theorem does not hold for this text -/
def addFmt (st : St) (x : UInt64) (t : Bytes) : St × String :=
  let tok := renderFloat (fun _ => t) x
  let st' := { st with fmt := (x, t) :: st.fmt, sd := (tok, x) :: st.sd }
  (st', if isFinite x && !floatTok tok then " HYP-floatTok-fails" else "")

def slotArg (st : St) (w : String) : Option (Option Nat) :=
  if w == "N" then some none else
  match w.toNat? with
  | some n => if n < st.slots.size then some (st.slots[n]!) else none
  | none => none

mutual
partial def dump : JVal → String
  | .null => "n"
  | .bool b => if b then "t" else "f"
  | .int i => s!"i{i}"
  | .float x => "d" ++ bitsHex x
  | .str s => "s" ++ toHex s
  | .list l => "[" ++ ",".intercalate (l.map dump) ++ "]"
  | .dict kvs => "{" ++ ",".intercalate (kvs.map fun (k, v) => toHex k ++ ":" ++ dump v) ++ "}"
end

def sizeIter (st : St) (p : Option Nat) : String :=
  let it := match st.heap.iter p with
    | some l => toString l.length
    | none => "-"
  s!"sz={st.heap.valueSize p} it={it}"

def scalarOf (st : St) (kind : String) (args : List String) : Option (Scalar × St × String) :=
  match kind, args with
  | "null", [] => some (.null, st, "")
  | "bool", [b] => if b == "0" then some (.bool false, st, "") else if b == "1" then some (.bool true, st, "") else none
  | "int", [n] =>
    match strictInt n with
    | some i => if -(2:Int)^63 ≤ i && i < (2:Int)^63 then some (.int i, st, "") else none
    | none => none
  | "float", [b, t] =>
    match parseBits b, parseHex t with
    | some x, some tb => let (st', m) := addFmt st x tb; some (.float x, st', m)
    | _, _ => none
  | "str", [h] =>
    match parseHex h with
    | some bs => if bs.contains 0 then none else some (.str bs, st, "")
    | none => none
  | _, _ => none

def pushSlot (st : St) (p : Option Nat) : St := { st with slots := st.slots.push p }

def doOp (st : St) (op : Op) : St × Ret :=
  let (h, r) := st.heap.step true st.cyc op
  ({ st with heap := h }, r)

def retStr : Ret → String
  | .ptr p => if p.isSome then "ptr 1" else "ptr 0"
  | .flag b => if b then "ret 1" else "ret 0"

def parseSd (w : String) : Option (List (Bytes × UInt64)) :=
  if w == "-" then some [] else
  (w.splitOn ";").mapM fun item =>
    match item.splitOn "=" with
    | [t, b] => match parseHex t, parseBits b with
      | some tb, some x => some (tb, x)
      | _, _ => none
    | _ => none

def valueOf (st : St) (p : Option Nat) : Option JVal :=
  match p with
  | some i => st.heap.value i
  | none => none

partial def step (st : St) (line : String) : St × String :=
  match words line with
  | ["#case"] => ({ cyc := st.cyc }, "#case")
  | "list" :: [] => let (st', r) := doOp st .newList
                    match r with | .ptr p => (pushSlot st' p, retStr r) | _ => (st, "bad-op")
  | "dict" :: [] => let (st', r) := doOp st .newDict
                    match r with | .ptr p => (pushSlot st' p, retStr r) | _ => (st, "bad-op")
  | ["append", l, v] =>
    match slotArg st l, slotArg st v with
    | some lp, some vp => let (st', r) := doOp st (.append lp vp); (st', retStr r ++ " " ++ sizeIter st' lp)
    | _, _ => (st, "bad-op")
  | ["put", d, k, v] =>
    match slotArg st d, parseHex k, slotArg st v with
    | some dp, some kb, some vp =>
      if kb.contains 0 then (st, "bad-op") else
      let (st', r) := doOp st (.put dp kb vp); (st', retStr r ++ " " ++ sizeIter st' dp)
    | _, _, _ => (st, "bad-op")
  | ["size", v] =>
    match slotArg st v with
    | some vp => (st, sizeIter st vp)
    | none => (st, "bad-op")
  | ["render", v] =>
    match slotArg st v with
    | some (some i) =>
      (match st.heap.value i with
       | some jv => (st, "r " ++ toHex (render (fmtOf st) jv))
       | none => (st, "cyclic"))
    | _ => (st, "bad-op")
  | ["dump", v] =>
    match slotArg st v with
    | some (some i) =>
      (match st.heap.value i with
       | some jv => (st, "v " ++ dump jv)
       | none => (st, "cyclic"))
    | _ => (st, "bad-op")
  | ["poison", w, doc] =>
    -- a document parsed and dropped: the model's parser has no context state, so nothing changes
    if w != "0" && w != "2" then (st, "bad-op") else
    match parseHex doc with
    | some d =>
      (match Rfc.parse (sdOf st) d with
       | some jv => (st, if jv.parseable then "p 1" else "p 0")
       | none => (st, "p 0"))
    | none => (st, "bad-op")
  | ["rtf", v] => step st ("rt " ++ v)
  | ["rts", v] => step st ("rt " ++ v)
  | ["rt", v] =>
    match slotArg st v with
    | some (some i) =>
      (match st.heap.value i with
       | some jv =>
         (match Rfc.parse (sdOf st) (render (fmtOf st) jv) with
          | some jv' => (st, "rt " ++ dump jv')
          | none => (st, "rt-fail"))
       | none => (st, "cyclic"))
    | _ => (st, "bad-op")
  | ["parse", doc, tab] =>
    match parseHex doc, parseSd tab with
    | some d, some t =>
      let st1 := { st with sd := t ++ st.sd }
      (match Rfc.parse (sdOf st1) d with
       | none => (pushSlot st1 none, "ptr 0")
       | some jv =>
         if !jv.parseable then (pushSlot st1 none, "ptr 0") else
         let base := st1.heap.cells.length
         let root := (buildOps jv base).2.1
         let (h, _) := st1.heap.run true st1.cyc (loadOps jv base)
         (pushSlot { st1 with heap := h } (some root), "ptr 1"))
    | _, _ => (st, "bad-op")
  | kind :: args =>
    if kind.startsWith "append_" then
      match args with
      | l :: rest =>
        (match slotArg st l, scalarOf st (kind.drop 7).toString rest with
         | some (some li), some (s, st1, m) =>
           let (st', r) := doOp st1 (.appendS li s); (st', retStr r ++ " " ++ sizeIter st' (some li) ++ m)
         | _, _ => (st, "bad-op"))
      | _ => (st, "bad-op")
    else if kind.startsWith "put_" then
      match args with
      | d :: k :: rest =>
        (match slotArg st d, parseHex k, scalarOf st (kind.drop 4).toString rest with
         | some (some di), some kb, some (s, st1, m) =>
           if kb.contains 0 then (st, "bad-op") else
           let (st', r) := doOp st1 (.putS di kb s); (st', retStr r ++ " " ++ sizeIter st' (some di) ++ m)
         | _, _, _ => (st, "bad-op"))
      | _ => (st, "bad-op")
    else
      match scalarOf st kind args with
      | some (s, st1, m) =>
        let (st', r) := doOp st1 (.new s)
        (match r with | .ptr p => (pushSlot st' p, retStr r ++ m) | _ => (st, "bad-op"))
      | none => (st, "bad-op")
  | [] => (st, "bad-op")

def main (args : List String) : IO Unit :=
  runDriver ({ cyc := !args.contains "--no-cycle-check" } : St) step
