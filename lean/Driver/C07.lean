import Usual.Common
import Usual.C07.AATree
/-! Model driver for C07 (AA-tree).  Line protocol, see harness/C07/h.c:

    ins K | rem K | find K | walk in|pre|post | destroy | count        (K: -?[0-9]{1,18})
    tN <op>                      (op goes to tree N = 0..2, default 0; tree 2 has no release callback:
                                  it never logs a release, and `destroy` is refused unless it is empty)
    cmp sign|diff|sat            (all trees re-created; comparator variant of the harness — the model's
                                  comparator is the integer order in every case; under `diff` keys with
                                  |K| ≥ 2^30 are bad-op)
    height                       (`hb=<0|1> ## h=<height> n=<nodes> lim=<2*floor(log2(n+1))>`)
    bulk asc|desc|alt|rnd N [S]  (insert N keys without per-op output, one summary line `bulk=<linked> c=..`)
    nwalk O I tM i1,i2,..        (nested walks: outer walk of the addressed tree in order O; at visit numbers
                                  i1<i2<.. the walker runs a complete walk of tree M in order I.  The model's
                                  walks are pure functions of the tree: every sequence is what a plain walk gives)
    reins K                      (insert K again with the node already linked for K; nothing if absent)
    perms n ilo ihi jlo jhi      (range-hash over insertion order × removal order of 1..n)

Mutating ops answer
    `<r> c=<count> aa=<0|1> hb=<0|1> in=<keys> rel=<keys> ## <shape>`
where `aa` = the AA level rules hold, `hb` = height ≤ 2·log2(n+1), `in` = in-order keys,
`rel` = keys passed to the release callback during this op, shape = pre-order dump
`(key:level left right)` with `.` for NIL.  Lists longer than 40 are printed as
`#<n>:<fnv1a-64 hex>`.  `destroy`: `rel` sorted ascending, and ` ord=<keys in call order>`
appended to the internal part.  `walk pre|post`: `w=<sorted keys> ## <keys in visiting order>`. -/
open Usual Usual.C07

namespace C07Drv

abbrev K := Int

def cmpK (a b : K) : Ordering := compare a b

def parseKey (s : String) : Option K :=
  let cs := s.toList
  let (neg, ds) := match cs with
    | '-' :: rest => (true, rest)
    | _ => (false, cs)
  if ds.isEmpty || ds.length > 18 || !ds.all Char.isDigit then none
  else
    let n := ds.foldl (fun acc c => acc * 10 + (c.toNat - '0'.toNat)) 0
    some (if neg then - (Int.ofNat n) else Int.ofNat n)

def fnvInit : UInt64 := 0xcbf29ce484222325

/-- same as `hc_fnv` in harness/common/hcommon.h: 8 bytes little endian -/
def fnv (h : UInt64) (v : UInt64) : UInt64 :=
  let step (h : UInt64) (i : Nat) : UInt64 :=
    (h ^^^ ((v >>> (UInt64.ofNat (8 * i))) &&& 0xff)) * 0x100000001b3
  [0, 1, 2, 3, 4, 5, 6, 7].foldl step h

def keyBits (k : K) : UInt64 := UInt64.ofNat (k % 18446744073709551616).toNat

def hex64 (v : UInt64) : String :=
  let n := v.toNat
  String.ofList ((List.range 16).map fun i => hexDigit ((n / 16 ^ (15 - i)) % 16))

def limit : Nat := 40

def showKeys (l : List K) : String :=
  if l.isEmpty then "-"
  else if l.length ≤ limit then ",".intercalate (l.map toString)
  else s!"#{l.length}:{hex64 (l.foldl (fun h k => fnv h (keyBits k)) fnvInit)}"

def shapeStr : T K → String
  | .nil => "."
  | .node l k v r => s!"({k}:{v} {shapeStr l} {shapeStr r})"

def shapeHash : T K → UInt64 → UInt64
  | .nil, h => fnv h 0
  | .node l k v r, h => shapeHash r (shapeHash l (fnv (fnv (fnv h 1) (keyBits k)) (UInt64.ofNat v)))

def showShape (t : T K) : String :=
  let n := size t
  if n ≤ limit then shapeStr t else s!"#{n}:{hex64 (shapeHash t fnvInit)}"

def b01 (b : Bool) : String := if b then "1" else "0"

def mutObs (r : String) (s : State K) (rel : List K) : String :=
  s!"{r} c={s.count} aa={b01 (aa s.root)} hb={b01 (heightOk s.root)} in={showKeys (toList s.root)} rel={showKeys rel}"

def mutLine (r : String) (s : State K) (rel : List K) : String :=
  s!"{mutObs r s rel} ## {showShape s.root}"

def doOp (s : State K) (o : Op K) : State K × String :=
  let n0 := s.log.length
  let (s', out) := step cmpK s o
  -- keep only what this op released (the model's log is cumulative)
  let rel := s'.log.drop n0
  let s'' : State K := { s' with log := [] }
  match o, out with
  | .ins _, .linked b => (s'', mutLine s!"ins={b01 b}" s'' rel)
  | .rem _, _ => (s'', mutLine "rem" s'' rel)
  | .destroy, _ =>
      -- which nodes are released is observable, the visiting order of destroy is internal
      (s'', s!"{mutLine "destroy" s'' (rel.mergeSort (fun a b => decide (a ≤ b)))} ord={showKeys rel}")
  | .find _, .found none => (s'', "f=0")
  | .find _, .found (some x) => (s'', s!"f=1:{x}")
  | .walk .inOrder, .keys l => (s'', s!"w={showKeys l}")
  -- pre/post-order: visited set observable (sorted), visiting order internal
  | .walk _, .keys l => (s'', s!"w={showKeys (l.mergeSort (fun a b => decide (a ≤ b)))} ## {showKeys l}")
  | .count, .num n => (s'', s!"c={n}")
  | _, _ => (s'', "model-error")

/-- `reins k`: the harness calls aatree_insert again with the node object already linked for
    `k` (nothing if `k` is absent).  Nodes are identified with keys in the model, so this is the
    model's insert of a present key. -/
def doReins (s : State K) (k : K) : State K × String × String :=
  match search cmpK s.root k with
  | none => (s, mutObs "reins=0" s [], showShape s.root)
  | some _ =>
    let (s', _) := step cmpK s (.ins k)
    let s'' : State K := { s' with log := [] }
    (s'', mutObs "reins=1" s'' s'.log, showShape s''.root)

/-! ### range-hash protocol: `perms n ilo ihi jlo jhi` -/

def fnvStr (h : UInt64) (s : String) : UInt64 :=
  s.foldl (fun h c => (h ^^^ UInt64.ofNat c.toNat) * 0x100000001b3) h

def factorial : Nat → Nat
  | 0 => 1
  | n + 1 => (n + 1) * factorial n

/-- idx-th permutation of the list in lexicographic order (factoradic digits) -/
def nthPermAux : Nat → List Nat → Nat → List Nat
  | 0, _, _ => []
  | m + 1, avail, idx =>
    let f := factorial m
    let d := idx / f
    match avail[d]? with
    | none => []
    | some x => x :: nthPermAux m (avail.eraseIdx d) (idx % f)

def nthPerm (n idx : Nat) : List Nat := nthPermAux n ((List.range n).map (· + 1)) idx

/-- one op in hash mode: new state and hashes -/
def hashOp (acc : State K × UInt64 × UInt64) (o : Op K) : State K × UInt64 × UInt64 :=
  let (s, ho, hi) := acc
  let (s', out) := step cmpK s o
  let rel := s'.log
  let s'' : State K := { s' with log := [] }
  let r := match o, out with
    | .ins _, .linked b => s!"ins={b01 b}"
    | _, _ => "rem"
  (s'', fnvStr (fnvStr ho (mutObs r s'' rel)) "\n", fnvStr (fnvStr hi (showShape s''.root)) "\n")

/-- keys used by `perms`: 1..n, or (under the saturating comparator) multiples of 2^31 -/
def permKey (sat : Bool) (e : Nat) : K :=
  if sat then (Int.ofNat e - 3) * 2147483648 else Int.ofNat e

/-- hash stream of `perms`: for each insertion order the n insertion lines, the n lines
    `reins 1` .. `reins n` and the n+1 lines `find 0` .. `find n` once, then for each
    removal order the n removal lines (each removal order starts from the state after the inserts) -/
def permsRow (sat : Bool) (n jlo jhi : Nat) (h : UInt64 × UInt64) (i : Nat) : UInt64 × UInt64 :=
  let insOps : List (Op K) := (nthPerm n i).map (fun k => Op.ins (permKey sat k))
  let (si, ho, hi) := insOps.foldl hashOp ((init : State K), h.1, h.2)
  let (si, ho, hi) := (List.range n).foldl (fun (acc : State K × UInt64 × UInt64) t =>
    let (s, ho, hi) := acc
    let (s', o, i) := doReins s (permKey sat (t + 1))
    (s', fnvStr (fnvStr ho o) "\n", fnvStr (fnvStr hi i) "\n")) (si, ho, hi)
  let (ho, hi) := (List.range (n + 1)).foldl (fun (h : UInt64 × UInt64) t =>
    let line := match search cmpK si.root (permKey sat t) with
      | some x => s!"f=1:{x}"
      | none => "f=0"
    (fnvStr (fnvStr h.1 line) "\n", fnvStr h.2 "\n")) (ho, hi)
  (List.range (jhi - jlo)).foldl (fun h dj =>
    let remOps : List (Op K) := (nthPerm n (jlo + dj)).map (fun k => Op.rem (permKey sat k))
    let (_, ho, hi) := remOps.foldl hashOp (si, h.1, h.2)
    (ho, hi)) (ho, hi)

def permsRange (sat : Bool) (n ilo ihi jlo jhi : Nat) : UInt64 × UInt64 :=
  (List.range (ihi - ilo)).foldl (fun h di => permsRow sat n jlo jhi h (ilo + di)) (fnvInit, fnvInit)

def parseNat (s : String) : Option Nat :=
  let cs := s.toList
  if cs.isEmpty || cs.length > 9 || !cs.all Char.isDigit then none
  else some (cs.foldl (fun acc c => acc * 10 + (c.toNat - '0'.toNat)) 0)

def doPerms (sat : Bool) (a b c d e : String) : Option String :=
  match parseNat a, parseNat b, parseNat c, parseNat d, parseNat e with
  | some n, some ilo, some ihi, some jlo, some jhi =>
    if n < 1 || n > 9 || ilo > ihi || jlo > jhi || ihi > factorial n || jhi > factorial n then none
    else
      let (ho, hi) := permsRange sat n ilo ihi jlo jhi
      some s!"ph={hex64 ho} ## {hex64 hi}"
  | _, _, _, _, _ => none

/-! ### big trees and nested walks -/

def mix64 (z : UInt64) : UInt64 :=
  let z := z * 0x9E3779B97F4A7C15
  let z := (z ^^^ (z >>> 30)) * 0xBF58476D1CE4E5B9
  let z := (z ^^^ (z >>> 27)) * 0x94D049BB133111EB
  z ^^^ (z >>> 31)

/-- key sequence of `bulk` (same as the harness) -/
def bulkKeys (kind : String) (n seed : Nat) : List K :=
  let asc := (List.range n).map fun i => Int.ofNat (i + 1)
  if kind == "asc" then asc
  else if kind == "desc" then asc.reverse
  else if kind == "alt" then
    -- 1, n, 2, n-1, ...
    (List.range n).map fun t => if t % 2 == 0 then Int.ofNat (t / 2 + 1) else Int.ofNat (n - t / 2)
  else
    (List.range n).map fun i =>
      Int.ofNat ((mix64 (UInt64.ofNat (seed * 4294967296 + i + 1))) >>> 35).toNat

def doBulk (s : State K) (kind : String) (n seed : Nat) : State K × String :=
  let (s', linked) := (bulkKeys kind n seed).foldl (fun (acc : State K × Nat) k =>
    let (s', out) := step cmpK acc.1 (.ins k)
    (s', match out with | .linked true => acc.2 + 1 | _ => acc.2)) (s, 0)
  let s'' : State K := { s' with log := [] }
  (s'', mutLine s!"bulk={linked}" s'' [])

def heightLine (s : State K) : String :=
  let n := size s.root
  s!"hb={b01 (heightOk s.root)} ## h={height s.root} n={n} lim={2 * Nat.log2 (n + 1)}"

def parseOrder : String → Option Walk
  | "in" => some .inOrder
  | "pre" => some .preOrder
  | "post" => some .postOrder
  | _ => none

def canon (w : Walk) (l : List K) : List K :=
  match w with
  | .inOrder => l
  | _ => l.mergeSort (fun a b => decide (a ≤ b))

def parseIdxs (s : String) : Option (List Nat) :=
  let parts := s.splitOn ","
  let vals := parts.filterMap parseNat
  if vals.length != parts.length || vals.length > 8 || vals.isEmpty then none
  else if (vals.zip (vals.drop 1)).all (fun p => p.1 < p.2) then some vals else none

/-- nested walks: the walker, at the given visit numbers of the outer walk, runs a complete inner
    walk.  `walkSub` is a pure function, so each sequence is simply the plain walk. -/
def nwalkLine (outer inner : State K) (oo io : Walk) (idxs : List Nat) : String :=
  let o := walkSub outer.root oo
  let i := walkSub inner.root io
  let hit := idxs.filter (· < o.length)
  let obs := hit.foldl (fun acc ix => acc ++ s!" i{ix}={showKeys (canon io i)}") s!"nw={showKeys (canon oo o)}"
  let int := hit.foldl (fun acc _ => acc ++ s!" {showKeys i}") (showKeys o)
  s!"{obs} ## {int}"

/-- comparator variant of the harness: 0 sign, 1 plain difference, 2 saturated difference -/
structure DS where
  mode : Nat
  t0 : State K
  t1 : State K
  t2 : State K

def dsInit (mode : Nat) : DS := { mode := mode, t0 := init, t1 := init, t2 := init }

def keyOk (mode : Nat) (k : K) : Bool := mode != 1 || (-1073741824 < k && k < 1073741824)

/-- ops on one tree; `nocb`: the tree was created without release callback -/
def treeOp (mode : Nat) (nocb : Bool) (s : State K) (ws : List String) : Option (State K × String) :=
  let key (k : String) : Option K := (parseKey k).filter (keyOk mode)
  -- without callback nothing is ever logged
  let fin (r : State K × String) : State K × String := r
  let quietRel (s : State K) : State K := if nocb then { s with log := [] } else s
  match ws with
  | ["ins", k] => (key k).map fun k => fin (doOp s (.ins k))
  | ["rem", k] => (key k).map fun k =>
      if nocb then
        -- the model's remove without the callback: same tree and count, empty log
        let (s', _) := step cmpK s (.rem k)
        let s'' := quietRel { s' with log := [] }
        (s'', mutLine "rem" s'' [])
      else doOp s (.rem k)
  | ["reins", k] => (key k).map fun k => let (s', o, i) := doReins s k; (s', s!"{o} ## {i}")
  | ["find", k] => (key k).map fun k => doOp s (.find k)
  | ["walk", "in"] => some (doOp s (.walk .inOrder))
  | ["walk", "pre"] => some (doOp s (.walk .preOrder))
  | ["walk", "post"] => some (doOp s (.walk .postOrder))
  | ["destroy"] =>
      -- aatree_destroy calls the callback unconditionally: not exercised without one
      if nocb && !isNil s.root then none else some (doOp s .destroy)
  | ["count"] => some (doOp s .count)
  | ["height"] => some (s, heightLine s)
  | ["bulk", kind, n] =>
      if kind == "asc" || kind == "desc" || kind == "alt" then
        (parseNat n).bind fun n => if n < 1 || n > 200000 then none else some (doBulk s kind n 0)
      else none
  | ["bulk", "rnd", n, sd] =>
      (parseNat n).bind fun n => (parseNat sd).bind fun sd =>
        if n < 1 || n > 200000 then none else some (doBulk s "rnd" n sd)
  | _ => none

def DS.tree (d : DS) : String → Option (State K)
  | "t0" => some d.t0
  | "t1" => some d.t1
  | "t2" => some d.t2
  | _ => none

def doNwalk (d : DS) (outer : State K) (o i t ix : String) : Option String :=
  match parseOrder o, parseOrder i, d.tree t, parseIdxs ix with
  | some oo, some io, some inner, some idxs => some (nwalkLine outer inner oo io idxs)
  | _, _, _, _ => none

def stepLine (d : DS) (line : String) : DS × String :=
  match words line with
  | ["nwalk", o, i, t, ix] => (d, (doNwalk d d.t0 o i t ix).getD "bad-op")
  | ["t0", "nwalk", o, i, t, ix] => (d, (doNwalk d d.t0 o i t ix).getD "bad-op")
  | ["t1", "nwalk", o, i, t, ix] => (d, (doNwalk d d.t1 o i t ix).getD "bad-op")
  | ["t2", "nwalk", o, i, t, ix] => (d, (doNwalk d d.t2 o i t ix).getD "bad-op")
  | ["#case"] => (dsInit 0, "#case")
  | ["cmp", "sign"] => (dsInit 0, "cmp=sign")
  | ["cmp", "diff"] => (dsInit 1, "cmp=diff")
  | ["cmp", "sat"] => (dsInit 2, "cmp=sat")
  | ["perms", a, b, c, e, f] => match doPerms (d.mode == 2) a b c e f with
    | some r => (dsInit d.mode, r)
    | none => (d, "bad-op")
  | "t1" :: ws => match (if ws.isEmpty then none else treeOp d.mode false d.t1 ws) with
    | some (s, o) => ({ d with t1 := s }, o)
    | none => (d, "bad-op")
  | "t2" :: ws => match (if ws.isEmpty then none else treeOp d.mode true d.t2 ws) with
    | some (s, o) => ({ d with t2 := s }, o)
    | none => (d, "bad-op")
  | "t0" :: ws => match (if ws.isEmpty then none else treeOp d.mode false d.t0 ws) with
    | some (s, o) => ({ d with t0 := s }, o)
    | none => (d, "bad-op")
  | ws => match treeOp d.mode false d.t0 ws with
    | some (s, o) => ({ d with t0 := s }, o)
    | none => (d, "bad-op")

end C07Drv

def main : IO Unit := Usual.runDriver (C07Drv.dsInit 0) C07Drv.stepLine
