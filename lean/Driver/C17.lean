import Usual.Common
import Usual.C17.Run
/-! Model driver for C17: same op lines as harness/C17/h.c, one output line per input line. -/
def main : IO Unit :=
  Usual.runDriver () (fun _ line => ((), Usual.C17.Run.runLine line))
