import Usual.Common
import Usual.C13.PgQuote
import Usual.C13.PgLex
import Usual.C13.PgArray
/-! Model driver for C13: one op per line, see harness/C13/h.c for the op language.
    `lit <hex|null> <n>` · `id <hex> <n>` · `fq <hex> <n>` · `kw <hex>` · `arr <hex>`.
    Output: observable part ` ## ` internal part (the whole destination block after the call). -/
open Usual Usual.C13

def toNats (l : List UInt8) : List Nat := l.map (·.toNat)
def ofNats (l : List Nat) : List UInt8 := l.map UInt8.ofNat

/-- parse a hex argument that must not contain a NUL byte -/
def argBytes (w : String) : Option Bytes :=
  match parseHex w with
  | some l => let n := toNats l; if n.contains 0 then none else some n
  | none => none

def showQuote (r : Bool × Dst) : String :=
  let obs :=
    if r.1 then
      if terminated r.2.buf then "1 " ++ toHex (ofNats (cstr r.2.buf)) else "1 unterminated"
    else "0"
  obs ++ " ## " ++ toHex (ofNats r.2.buf)

def showElem : Option Bytes → String
  | none => "N"
  | some s => "s:" ++ toHex (ofNats s)

def showArr (r : Res (List (Option Bytes)) × Log) : String :=
  match r.1 with
  | .oof => "model-out-of-fuel"
  | .fail => "null"
  | .ok l => String.intercalate " " (("list " ++ toString l.length) :: l.map showElem)

def step (_ : Unit) (line : String) : Unit × String :=
  let out :=
    match words line with
    | ["#case"] => "#case"
    | ["lit", "null", n] =>
      match n.toNat? with
      | some n => showQuote (quoteLiteral none n)
      | none => "bad-op"
    | ["lit", h, n] =>
      match argBytes h, n.toNat? with
      | some s, some n => showQuote (quoteLiteral (some s) n)
      | _, _ => "bad-op"
    | ["id", h, n] =>
      match argBytes h, n.toNat? with
      | some s, some n => showQuote (quoteIdent s n)
      | _, _ => "bad-op"
    | ["fq", h, n] =>
      match argBytes h, n.toNat? with
      | some s, some n => showQuote (quoteFqident s n)
      | _, _ => "bad-op"
    | ["kw", h] =>
      match argBytes h with
      | some s => if isReserved s then "1" else "0"
      | none => "bad-op"
    | ["arr", h] =>
      match argBytes h with
      | some s => showArr (parseArray (s ++ [0]))
      | none => "bad-op"
    | _ => "bad-op"
  ((), out)

def main : IO Unit := runDriver () step
