import Usual.Common
import Usual.C12.MBuf
/-! Model driver for C12 (MBuf).  One output line per op line; see harness/C12/h.c for the
same protocol on the implementation side.

    <ok> <val> <bytes> | <slot>:r=..,w=..,c=..,m=rfn,<contents> …  ## <slot>:a=<alloc>,<data> …
-/
open Usual Usual.C12

namespace C12Drv

def nslots : Nat := 4
def reallocLimit : Nat := 65536

def pat (seed k : Nat) : UInt8 := UInt8.ofNat ((seed + 31 * k + k / 256) % 256)

def fnv (l : List UInt8) : UInt64 :=
  l.foldl (fun h b => (h ^^^ b.toUInt64) * 0x100000001b3) 0xcbf29ce484222325

def hex64 (x : UInt64) : String :=
  String.ofList ((List.range 16).map fun i => hexDigit ((x.toNat >>> (4 * (15 - i))) % 16))

def dump (l : List UInt8) : String :=
  if l.length ≤ 24 then "x=" ++ toHex l else "h=" ++ hex64 (fnv l) ++ ":" ++ toString l.length

def bit (b : Bool) : String := if b then "1" else "0"

def obsSlot (s : State) (i : Nat) : String :=
  let b := s i
  s!"{i}:r={b.readPos.toNat},w={b.writePos.toNat},c=" ++
    (if b.fixed then toString b.allocLen.toNat else "dyn") ++
    s!",m={bit b.reader}{bit b.fixed}{bit b.isNull}," ++ dump (contents b) ++
    (if inv b then "" else ",MODEL-INV-BROKEN")

def intSlot (s : State) (i : Nat) : String :=
  let b := s i
  s!"{i}:a={b.allocLen.toNat}," ++ dump b.data

def dedup (l : List Nat) : List Nat := l.foldl (fun acc x => if acc.contains x then acc else acc ++ [x]) []

/-- model-side check of the safety predicate (proved to hold; printed only if it ever fails) -/
def accCheck (s s' : State) (o : Out) : Bool :=
  o.acc.all fun p => accOk (s p.1) (s' p.1) p.2

def render (s s' : State) (o : Out) (slots : List Nat) (valInternal : Bool := false) : String :=
  let sl := dedup slots
  let v := if valInternal then "dyn" else toString o.val
  s!"{bit o.ok} {v} {toHex o.bytes} | " ++ " ".intercalate (sl.map (obsSlot s')) ++
    (if accCheck s s' o then "" else " MODEL-UNSAFE") ++
    " ## " ++ (if valInternal then s!"v={o.val} " else "") ++ " ".intercalate (sl.map (intSlot s'))

def slot? (w : String) : Option Nat :=
  match w.toNat? with
  | some n => if n < nslots then some n else none
  | none => none

def u32? (w : String) : Option UInt32 :=
  match w.toNat? with
  | some n => if n < 4294967296 then some (UInt32.ofNat n) else none
  | none => none

def u8? (w : String) : Option UInt8 :=
  match w.toNat? with
  | some n => if n < 256 then some (UInt8.ofNat n) else none
  | none => none

def ora? (w : String) : Option (UInt32 → Bool) :=
  if w == "1" then some (fun n => decide (n.toNat ≤ reallocLimit))
  else if w == "0" then some (fun _ => false)
  else none

/-- parse one op line -/
def parseOp (ws : List String) : Option (Op × List Nat) :=
  match ws with
  | ["initr", i, h] => do
    let i ← slot? i; let d ← parseHex h
    if d.length > reallocLimit then none
    else some (.initReader i (UInt32.ofNat d.length) (fun k => d.getD k 0), [i])
  | ["initw", i, len, seed] => do
    let i ← slot? i; let len ← u32? len; let seed ← u8? seed
    if len.toNat > reallocLimit then none
    else some (.initWriter i len (pat seed.toNat), [i])
  | ["initd", i] => do let i ← slot? i; some (.initDynamic i, [i])
  | ["free", i] => do let i ← slot? i; some (.free i, [i])
  | ["rewr", i] => do let i ← slot? i; some (.rewindReader i, [i])
  | ["reww", i] => do let i ← slot? i; some (.rewindWriter i, [i])
  | ["availr", i] => do let i ← slot? i; some (.availRead i, [i])
  | ["availw", i] => do let i ← slot? i; some (.availWrite i, [i])
  | ["written", i] => do let i ← slot? i; some (.written i, [i])
  | ["consumed", i] => do let i ← slot? i; some (.consumed i, [i])
  | ["eq", i, j] => do let i ← slot? i; let j ← slot? j; some (.eq i j, [i, j])
  | ["eqstr", i, h] => do
    let i ← slot? i; let d ← parseHex h
    if d.contains 0 then none else some (.eqStr i d, [i])
  | ["getb", i] => do let i ← slot? i; some (.getByte i, [i])
  | ["getc", i] => do let i ← slot? i; some (.getChar i, [i])
  | ["get16", i] => do let i ← slot? i; some (.getU16 i, [i])
  | ["get32", i] => do let i ← slot? i; some (.getU32 i, [i])
  | ["get64", i] => do let i ← slot? i; some (.getU64 i, [i])
  | ["getn", i, len] => do let i ← slot? i; let len ← u32? len; some (.getBytes i len, [i])
  | ["getcs", i, len] => do let i ← slot? i; let len ← u32? len; some (.getChars i len, [i])
  | ["getstr", i] => do let i ← slot? i; some (.getString i, [i])
  | ["room", i, len, o] => do
    let i ← slot? i; let len ← u32? len; let o ← ora? o; some (.makeRoom i len o, [i])
  | ["wbyte", i, v, o] => do
    let i ← slot? i; let v ← u8? v; let o ← ora? o; some (.writeByte i v o, [i])
  | ["write", i, h, o] => do
    let i ← slot? i; let d ← parseHex h; let o ← ora? o
    some (.write i (fun k => d.getD k 0) (UInt32.ofNat d.length) o, [i])
  | ["writen", i, len, seed, o] => do
    let i ← slot? i; let len ← u32? len; let seed ← u8? seed; let o ← ora? o
    some (.write i (pat seed.toNat) len o, [i])
  | ["fill", i, v, len, o] => do
    let i ← slot? i; let v ← u8? v; let len ← u32? len; let o ← ora? o
    some (.fill i v len o, [i])
  | ["wraw", d, c, o] => do
    let d ← slot? d; let c ← slot? c; let o ← ora? o; some (.writeRaw d c o, [d, c])
  | ["wmbuf", d, c, len, o] => do
    let d ← slot? d; let c ← slot? c; let len ← u32? len; let o ← ora? o
    some (.writeMbuf d c len o, [d, c])
  | ["cut", i, ofs, len] => do
    let i ← slot? i; let ofs ← u32? ofs; let len ← u32? len; some (.cut i ofs len, [i])
  | ["copy", c, d] => do let c ← slot? c; let d ← slot? d; some (.copy c d, [c, d])
  | ["slice", c, len, d] => do
    let c ← slot? c; let len ← u32? len; let d ← slot? d; some (.slice c len d, [c, d])
  | _ => none

/-! ### symbolic length tokens (generator support)

The generator writes lengths relative to the *model's* current cursors: `R+1` (one more than
`mbuf_avail_for_read` of the slot read from), `W-1` (`avail_for_write` of the slot written),
`P+0` (`write_pos`), `A+0` (`alloc_len`), `U-3` (`UINT_MAX − 3`), `H+1` (`2^31 + 1`).
`drv_c12 resolve` prints the concrete op line (tokens replaced by numbers) prefixed by the
model's return value, and the check then feeds those concrete lines to both sides. -/

def tokenVal (s : State) (rs wsl : Nat) (w : String) : Option Nat :=
  match w.toList with
  | b :: sign :: ds =>
    match (String.ofList ds).toNat? with
    | none => none
    | some k =>
      let base : Option Nat :=
        if b == 'R' then some (availRead (s rs)).toNat
        else if b == 'W' then some (availWrite (s wsl)).toNat
        else if b == 'P' then some (s wsl).writePos.toNat
        else if b == 'A' then some (s wsl).allocLen.toNat
        else if b == 'U' then some 4294967295
        else if b == 'H' then some 2147483648
        else none
      match base with
      | none => none
      | some v =>
        if sign == '+' then some (min (v + k) 4294967295)
        else if sign == '-' then some (v - k)
        else none
  | _ => none

def resolveWords (s : State) (ws : List String) : List String :=
  match ws with
  | op :: a :: rest =>
    let first := (slot? a).getD 0
    let (rs, wsl) : Nat × Nat :=
      if op == "wmbuf" then
        match rest with
        | c :: _ => ((slot? c).getD 0, first)
        | _ => (first, first)
      else (first, first)
    op :: a :: rest.map fun w =>
      match tokenVal s rs wsl w with
      | some v => toString v
      | none => w
  | _ => ws

def stepLineMode (resolve : Bool) (s : State) (line : String) : State × String :=
  let ws := words line
  match ws with
  | ["#case"] => (State.init, "#case")
  | _ =>
    let ws := resolveWords s ws
    match parseOp ws with
    | none => (s, "bad-op")
    | some (op, slots) =>
      let r := step s op
      let valInt := match op with
        | .availWrite i => !(s i).fixed
        | _ => false
      if resolve then (r.1, bit r.2.ok ++ " " ++ " ".intercalate ws)
      else (r.1, render s r.1 r.2 slots valInt)

end C12Drv

def main (args : List String) : IO Unit :=
  Usual.runDriver Usual.C12.State.init (C12Drv.stepLineMode (args.contains "resolve"))
