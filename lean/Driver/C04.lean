import Usual.Common
import Usual.C04.Regex
import Usual.C04.Parse
import Usual.C04.CMatch
/-! Model driver for C04 (line protocol of harness/C04/h.c).

  x <cflags> <pattern-hex> <nm,..> <ef,..> <subject-hex>...   compile + all execs
  p <cflags> <pattern-hex> <nmatch> <eflags> <subject-hex>    one exec, overall match only
  k <len> <nsub> so,eo so,eo ...                              `pmatchOk` on an implementation answer
  t <E|B> <icase> <tree> <pattern-hex>                        render the tree, compare with the text,
                                                              parse the text, compare with the folded tree
-/
open Usual Usual.C04

def splitComma (s : String) : List String := (s.splitOn ",").filter (· ≠ "")

def mkEnv (cflags ef : Nat) (subj : List UInt8) : Env :=
  { s := subj.toArray, icase := cflags.testBit 1, newline := cflags.testBit 3,
    notbol := ef.testBit 4, noteol := ef.testBit 5 }

/-- nmatch spec: integer, `n` = nsub+1, `m` = nsub+2 -/
def nmOf (nsub : Nat) (s : String) : Option Nat :=
  if s == "n" then some (nsub + 1) else if s == "m" then some (nsub + 2) else s.toNat?

def tokOf (nosub : Bool) (nm : Nat) (res : Option (Nat × Nat)) : String :=
  match res with
  | none => "-"
  | some (i, j) => if nm == 0 || nosub then "+" else s!"{i},{j}"

def compileLine (cflagsS patS : String) : Option (Nat × Except Code (Re × Nat)) := do
  let cflags ← cflagsS.toNat?
  if cflags > 15 then none
  let pat ← parseHex patS
  if pat.contains 0 then none
  some (cflags, compile cflags pat)

def doX (w : List String) : String :=
  match w with
  | cflagsS :: patS :: nmS :: efS :: subjs =>
    if subjs.isEmpty then "bad-op" else
    match compileLine cflagsS patS with
    | none => "bad-op"
    | some (cflags, res) =>
      let nms := splitComma nmS
      let efs := (splitComma efS).map String.toNat?
      if nms.isEmpty || efs.isEmpty || efs.any (fun e => match e with | some v => v &&& 48 != v | none => true) then "bad-op"
      else
      match res with
      | .error .unsupported => "unsup"
      | .error c => s!"err ## code={c.num}"
      | .ok (r, nsub) =>
        if nms.any (fun s => (nmOf nsub s).isNone) then "bad-op" else
        let nosub := cflags.testBit 2
        let toks := subjs.flatMap fun sh =>
          match parseHex sh with
          | none => ["bad-subject"]
          | some sb =>
            if sb.contains 0 then ["bad-subject"] else
            efs.flatMap fun ef =>
              let res := llmatch (mkEnv cflags (ef.getD 0) sb) r
              nms.map fun nmS => tokOf nosub ((nmOf nsub nmS).getD 0) res
        s!"ok nsub={nsub} " ++ " ".intercalate toks
  | _ => "bad-op"

def pmStr (pm : List (Int × Int)) : String :=
  ";".intercalate (pm.map fun (a, b) => s!"{a},{b}")

/-- internal token of one exec: what the model of the C matcher (`CM.cExec`) reports — rc and the
whole pmatch array — cross-checked inside the driver against the proved reference `llmatch` -/
def cmTok (alts : List (List CM.COp)) (nsub : Nat) (nosub : Bool) (e : Env) (nm : Nat)
    (ref : Option (Nat × Nat)) : String :=
  let r := CM.cExec alts nsub nosub e nm 400000 100000
  if r.rc == CM.OUT_OF_BUDGET || r.rc == CM.OUT_OF_FUEL then "?" else
  let agree : Bool :=
    match ref with
    | none => r.rc == CM.NOMATCH
    | some (i, j) => r.rc == 0 && (nosub || nm == 0 || r.pm.head? == some ((i : Int), (j : Int)))
  let t := if r.rc == CM.NOMATCH then "-" else if nosub || nm == 0 then "+" else pmStr r.pm
  if agree then t else t ++ "!MODEL"

/-- `y` = `x` plus the internal projection (full pmatch arrays from the matcher model) -/
def doY (w : List String) : String :=
  match w with
  | cflagsS :: patS :: nmS :: efS :: subjs =>
    if subjs.isEmpty then "bad-op" else
    match compileLine cflagsS patS with
    | none => "bad-op"
    | some (cflags, res) =>
      let nms := splitComma nmS
      let efs := (splitComma efS).map String.toNat?
      if nms.isEmpty || efs.isEmpty || efs.any (fun e => match e with | some v => v &&& 48 != v | none => true) then "bad-op"
      else
      match res with
      | .error .unsupported => "unsup"
      | .error c => s!"err ## code={c.num}"
      | .ok (r, nsub) =>
        if nms.any (fun s => (nmOf nsub s).isNone) then "bad-op" else
        let nosub := cflags.testBit 2
        -- the domain of `cmatch_refines_llmatch` / `parse_render_*`: every parsed tree has the parser's shape
        if !wfL 2 r then "ok nsub=" ++ toString nsub ++ " noshape" else
        match CM.compileOps r with
        | none => "ok nsub=" ++ toString nsub ++ " nocompile"
        | some (alts, _) =>
        let rnsub := r.groups
        let both := subjs.flatMap fun sh =>
          match parseHex sh with
          | none => [("bad-subject", "bad-subject")]
          | some sb =>
            if sb.contains 0 then [("bad-subject", "bad-subject")] else
            efs.flatMap fun ef =>
              let e := mkEnv cflags (ef.getD 0) sb
              let res := llmatch e r
              nms.map fun nmS =>
                let nm := (nmOf nsub nmS).getD 0
                (tokOf nosub nm res, cmTok alts rnsub nosub e nm res)
        s!"ok nsub={nsub} " ++ " ".intercalate (both.map (·.1)) ++ " ## " ++ " ".intercalate (both.map (·.2))
  | _ => "bad-op"

def doP (w : List String) : String :=
  match w with
  | [cflagsS, patS, nmS, efS, subjS] =>
    match compileLine cflagsS patS, nmS.toNat?, efS.toNat?, parseHex subjS with
    | some (cflags, res), some nm, some ef, some sb =>
      if sb.contains 0 || ef &&& 48 != ef then "bad-op" else
      match res with
      | .error .unsupported => "unsup"
      | .error c => s!"err ## code={c.num}"
      | .ok (r, nsub) =>
        match llmatch (mkEnv cflags ef sb) r with
        | none => s!"ok nsub={nsub} NOMATCH"
        | some (i, j) =>
          if nm == 0 || cflags.testBit 2 then s!"ok nsub={nsub} NULL" else s!"ok nsub={nsub} ({i},{j})"
    | _, _, _, _ => "bad-op"
  | _ => "bad-op"

def parsePair (s : String) : Option (Int × Int) :=
  match s.splitOn "," with
  | [a, b] => do
    let x ← a.toInt?
    let y ← b.toInt?
    some (x, y)
  | _ => none

def doK (w : List String) : String :=
  match w with
  | lenS :: nsubS :: pairs =>
    match lenS.toNat?, nsubS.toNat?, pairs.mapM parsePair with
    | some len, some nsub, some pm => if pmatchOk len nsub pm then "ok" else "bad"
    | _, _, _ => "bad-op"
  | _ => "bad-op"

/-! tree syntax (prefix, comma separated):  `e` empty, `c<hex2>` literal, `.` any, `^` bol, `$` eol,
`C` a, b  cat, `A` a, b  alt, `R<m>-<n|i>` r  repetition, `G` r  group -/
def parseTree : Nat → List String → Option (Re × List String)
  | 0, _ => none
  | _, [] => none
  | fuel + 1, t :: rest =>
    if t == "e" then some (.empty, rest)
    else if t == "." then some (.any, rest)
    else if t == "^" then some (.bol, rest)
    else if t == "$" then some (.eol, rest)
    else if t == "C" then do
      let (a, r1) ← parseTree fuel rest
      let (b, r2) ← parseTree fuel r1
      some (.cat a b, r2)
    else if t == "A" then do
      let (a, r1) ← parseTree fuel rest
      let (b, r2) ← parseTree fuel r1
      some (.alt a b, r2)
    else if t == "G" then do
      let (a, r1) ← parseTree fuel rest
      some (.group a, r1)
    else if t.startsWith "c" then
      match parseHex (t.drop 1).toString with
      | some [b] => some (.chr b, rest)
      | _ => none
    else if t.startsWith "R" then
      match (t.drop 1).toString.splitOn "-" with
      | [ms, ns] => do
        let m ← ms.toNat?
        let n ← if ns == "i" then some none else ns.toNat?.map some
        let (a, r1) ← parseTree fuel rest
        some (.rep a m n, r1)
      | _ => none
    else none

def doT (w : List String) : String :=
  match w with
  | [mode, icS, treeS, patS] =>
    let toks := splitComma treeS
    match parseTree (toks.length + 1) toks, parseHex patS with
    | some (r, []), some pat =>
      let fl : PFlags := { icase := icS == "1" }
      let ere := mode == "E"
      let txt := if ere then renderERE r else renderBRE r
      let wf := if ere then wfE r else wfB r
      let same := txt == pat
      let back := if ere then parseERE fl pat else parseBRE fl pat
      let rt := match back with
        | .ok (r', nsub) => r' == foldRe fl r && nsub == r.groups
        | .error _ => false
      s!"wf={wf} text={same} rt={rt}"
    | _, _ => "bad-op"
  | _ => "bad-op"

/-- `r <cflags> <pattern-hex>`: parse, render the stored tree with the Lean renderers (bracket
expressions from their bitmaps), parse again.  Output `ok wf=<b> same=<b> <rendered-hex>`:
`same` = the re-rendered text compiles to the same tree under the same flags. -/
def doR (w : List String) : String :=
  match w with
  | [cflagsS, patS] =>
    match cflagsS.toNat?, parseHex patS with
    | some cflags, some pat =>
      if cflags > 15 || pat.contains 0 then "bad-op" else
      let fl : PFlags := { icase := cflags.testBit 1, newline := cflags.testBit 3 }
      let ere := cflags.testBit 0
      match (if ere then parseERE fl pat else parseBRE fl pat) with
      | .error .unsupported => "unsup"
      | .error c => s!"err ## code={c.num}"
      | .ok (r, nsub) =>
        let wf := if ere then wfE r else wfB r
        let txt := if ere then renderERE r else renderBRE r
        let same := match (if ere then parseERE fl txt else parseBRE fl txt) with
          | .ok (r', nsub') => r' == r && nsub' == nsub
          | .error _ => false
        s!"ok wf={wf} same={same} {toHex txt}"
    | _, _ => "bad-op"
  | _ => "bad-op"

def step (_ : Unit) (line : String) : Unit × String :=
  let l := line.trimAscii.toString
  if l == "#case" then ((), "#case") else
  match words l with
  | "x" :: w => ((), doX w)
  | "y" :: w => ((), doY w)
  | "p" :: w => ((), doP w)
  | "k" :: w => ((), doK w)
  | "t" :: w => ((), doT w)
  | "r" :: w => ((), doR w)
  | _ => ((), "bad-op")

def main : IO Unit := runDriver () step
