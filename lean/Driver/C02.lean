import Usual.C02.Parse
/-! Model driver for C02: same op lines as `harness/C02/h.c`.

* `d <hex>` — `Usual.C02.parse` with the four option sets (bits 0..3) and with `Opts.default`
  (a context on which `json_set_options` was never called), `strtod` instantiated
  by `Usual.C02.strtodModel` (exact big-integer decimal → binary64);
* `s <hex> …` — several documents on one context: the model is stateless per `json_parse` call
  (the call resets the parser), so each document is parsed afresh; results grouped per option set;
* `f <hex>` — `strtodModel` on a token: bits and bytes consumed. -/
open Usual Usual.C02

def opD (doc : List UInt8) : String :=
  let r := fun (n : Nat) => dumpRes (parse strtodModel (Opts.ofBits n) doc)
  r 0 ++ " | " ++ r 1 ++ " | " ++ r 2 ++ " | " ++ r 3 ++ " | " ++
    dumpRes (parse strtodModel Opts.default doc)

def opS (docs : List (List UInt8)) : String :=
  let grp := fun (n : Nat) =>
    " ; ".intercalate (docs.map fun d => dumpRes (parse strtodModel (Opts.ofBits n) d))
  -- fifth group: a context that never saw json_set_options for the first document
  -- (`Opts.default`), then json_set_options(ctx, i % 4) before document i >= 1
  let mixed := " ; ".intercalate ((List.range docs.length).zip docs |>.map fun (i, d) =>
    dumpRes (parse strtodModel (if i == 0 then Opts.default else Opts.ofBits (i % 4)) d))
  grp 0 ++ " | " ++ grp 1 ++ " | " ++ grp 2 ++ " | " ++ grp 3 ++ " | " ++ mixed

def stepLine (_ : Unit) (line : String) : Unit × String :=
  if line.trimAscii.toString == "#case" then ((), "#case") else
  match words line with
  | ["d", h] =>
    match parseHex h with
    | some doc => ((), opD doc)
    | none => ((), "bad-op")
  | "s" :: hs =>
    if hs.isEmpty || hs.length > 62 then ((), "bad-op") else
    match hs.mapM Usual.parseHex with
    | some docs => ((), opS docs)
    | none => ((), "bad-op")
  | ["f", h] =>
    match parseHex h with
    | some tok =>
      let r := strtodModel tok
      ((), String.ofList (Nat.toDigits 16 r.1.toNat) ++ " " ++ toString r.2)
    | none => ((), "bad-op")
  | _ => ((), "bad-op")

def main : IO Unit := runDriver () stepLine
