import Usual.C02.Parse
/-! Model driver for C02: same op lines as `harness/C02/h.c`.

* `d <hex>` — `Usual.C02.parse` with the four option sets (bits 0..3), `strtod` instantiated
  by `Usual.C02.strtodModel` (exact big-integer decimal → binary64);
* `f <hex>` — `strtodModel` on a token: bits and bytes consumed. -/
open Usual Usual.C02

def opD (doc : List UInt8) : String :=
  let r := fun (n : Nat) => dumpRes (parse strtodModel (Opts.ofBits n) doc)
  r 0 ++ " | " ++ r 1 ++ " | " ++ r 2 ++ " | " ++ r 3

def stepLine (_ : Unit) (line : String) : Unit × String :=
  if line.trimAscii.toString == "#case" then ((), "#case") else
  match words line with
  | ["d", h] =>
    match parseHex h with
    | some doc => ((), opD doc)
    | none => ((), "bad-op")
  | ["f", h] =>
    match parseHex h with
    | some tok =>
      let r := strtodModel tok
      ((), String.ofList (Nat.toDigits 16 r.1.toNat) ++ " " ++ toString r.2)
    | none => ((), "bad-op")
  | _ => ((), "bad-op")

def main : IO Unit := runDriver () stepLine
