import Usual.Common
import Usual.C18.Num
import Usual.C18.CfParser
import Usual.C18.Spec
import Usual.C18.Config
/-! Model driver for C18: config parser (line protocol, see FRAMEWORK.md and harness/C18/h.c).

The four built-in schemas below are the same as the `struct CfSect` tables in harness/C18/h.c. -/
open Usual Usual.C18

def bs (s : String) : Bytes := s.toUTF8.toList

/-- state of the user callbacks: dynamic key table and the log of section_start calls -/
structure User where
  tab : List ((Nat × Bytes) × Bytes) := []
  starts : List Bytes := []

def lkTab : List (Bytes × Int) := [(bs "one", 1), (bs "two", 2), (bs "Three", 3), (bs "uno", 1)]

def byName (_top : Option Nat) (n : Bytes) : Option Nat :=
  if n == bs "a" then some 10 else if n == bs "b" then some 11 else if n == bs "c" then some 12 else none

def k (name : String) (ty : Ty) (ofs : Nat) (dflt : Option String := none) (rel := false)
    (ro := false) (nr := false) : Key :=
  { name := bs name, setter := some ty, getter := some (if ty == .file then .str else ty), rel := rel,
    readOnly := ro, noReload := nr, ofs := ofs, dflt := dflt.map bs }

def mainKeys0 : List Key := [
  k "i" .int 0 (some "5"), k "u" .uint 1, k "b" .int 2 (some "0"), k "s" .str 3 (some "dflt"),
  k "f" .file 4, k "t" .timeUsec 5 (some "1.5"), k "d" .timeDouble 6, k "l" (.lookup lkTab) 7 (some "one"),
  k "ro" .int 8 (some "7") (ro := true), k "roa" .int 8, k "nr" .int 9 (some "3") (nr := true),
  k "nrs" .str 10 (nr := true),
  { name := bs "ns", setter := none, getter := some .int, ofs := 0, dflt := some (bs "9") },
  { name := bs "ng", setter := some .int, getter := none, ofs := 11 },
  k "a.b-c_d*" .int 12, k "" .str 13 ]

def schema0 : List (Sect User) := [
  { name := bs "main", keys := mainKeys0 },
  { name := bs "two", keys := [k "s2" .str 20 (some "somedefault"), k "i2" .int 21] },
  { name := bs "baddef", keys := [k "x" .int 30 (some "zz")] },
  { name := [], keys := [k "k" .str 31] } ]

def schema1 : List (Sect User) := [
  { name := bs "main", keys := [k "i" .int 0 (some "5") (rel := true), k "s" .str 1 (some "dflt") (rel := true),
                                k "abs" .int 40] },
  { name := bs "two", baseLookup := some (fun top _ => top.map (fun _ => 2)),
    keys := [k "s2" .str 0 (some "somedefault") (rel := true), k "t" .timeUsec 1 (rel := true),
             k "nr" .int 2 (some "3") (rel := true) (nr := true)] },
  { name := bs "nobase", baseLookup := some (fun _ _ => none), keys := [k "x" .int 0 (rel := true)] },
  { name := bs "*", baseLookup := some byName,
    keys := [k "x" .int 0 (some "1") (rel := true), k "y" .str 1 (rel := true)] },
  { name := bs "shadowed", keys := [k "q" .int 41] } ]

def dynSet (u : User) (base : Option Nat) (key val : Bytes) : User × Bool :=
  match base with
  | none => (u, false)
  | some b =>
    if key.head? == some 120 then (u, false)
    else ({ u with tab := ((b, key), val) :: u.tab.filter (fun p => !(p.1 == (b, key))) }, true)

def dynGet (u : User) (base : Option Nat) (key : Bytes) : Option Bytes :=
  match base with
  | none => none
  | some b => u.tab.lookup (b, key)

def startLog (u : User) (_top : Option Nat) (n : Bytes) : User × Bool :=
  ({ u with starts := u.starts ++ [n] }, true)
def startBad (u : User) (_top : Option Nat) (n : Bytes) : User × Bool :=
  ({ u with starts := u.starts ++ [n] }, false)

def schema2 : List (Sect User) := [
  { name := bs "main", keys := [k "i" .int 0 (some "5"), k "s" .str 3], sectionStart := some startLog },
  { name := bs "wo", setKey := some dynSet },
  { name := bs "bad", sectionStart := some startBad },
  { name := bs "*", baseLookup := some byName, setKey := some dynSet, getKey := some dynGet,
    sectionStart := some startLog } ]

/-- the MAIN (first) section is dynamic; a fixed-key section and a wildcard follow -/
def schema4 : List (Sect User) := [
  { name := bs "main", setKey := some dynSet, getKey := some dynGet, sectionStart := some startLog },
  { name := bs "fixed", keys := [k "i" .int 0 (some "5"), k "s" .str 3] },
  { name := bs "*", baseLookup := some byName, setKey := some dynSet, getKey := some dynGet } ]

/-- the wildcard is the first section: every section name is the main section -/
def schema5 : List (Sect User) := [
  { name := bs "*", baseLookup := some byName, setKey := some dynSet, getKey := some dynGet,
    sectionStart := some startLog },
  { name := bs "fixed", keys := [k "i" .int 0 (some "5")] } ]

def schemaOf (id : Nat) : Option (List (Sect User) × Option Nat) :=
  match id with
  | 0 => some (schema0, none)
  | 1 => some (schema1, some 1)
  | 2 => some (schema2, some 1)
  | 3 => some (schema1, none)
  | 4 => some (schema4, some 1)
  | 5 => some (schema5, some 1)
  | _ => none

/-- pairs listed by `dump` -/
def dumpList (id : Nat) : List (String × String) :=
  match id with
  | 0 => (mainKeys0.map fun key => ("main", String.ofList (key.name.map fun c => Char.ofNat c.toNat))) ++
         [("two", "s2"), ("two", "i2"), ("baddef", "x"), ("", "k")]
  | 4 => [("main", "k1"), ("main", "k2"), ("fixed", "i"), ("fixed", "s"), ("a", "k1"), ("zz", "k1")]
  | 5 => [("a", "k1"), ("b", "k1"), ("main", "k1"), ("fixed", "i")]
  | 2 => [("main", "i"), ("main", "s"), ("wo", "k1"), ("a", "k1"), ("a", "k2"), ("b", "k1"), ("zz", "k1")]
  | _ => [("main", "i"), ("main", "s"), ("main", "abs"), ("two", "s2"), ("two", "t"), ("two", "nr"),
          ("nobase", "x"), ("a", "x"), ("a", "y"), ("b", "x"), ("b", "y"), ("c", "x"), ("zz", "x"),
          ("shadowed", "q"), ("shadowed", "x")]

def slotList (id : Nat) : List Loc :=
  match id with
  | 0 => [0,1,2,3,4,5,6,7,8,9,10,11,12,13,20,21,30,31].map Loc.abs
  | 2 => [.abs 0, .abs 3]
  | 4 => [.abs 0, .abs 3]
  | 5 => [.abs 0]
  | _ => [.rel 1 0, .rel 1 1, .abs 40, .rel 2 0, .rel 2 1, .rel 2 2, .rel 10 0, .rel 10 1,
          .rel 11 0, .rel 11 1, .rel 12 0, .rel 12 1, .abs 41]

structure St where
  files : List (Bytes × Bytes) := []
  schema : Nat := 0
  loaded : Bool := false
  home : Option Bytes := some (bs "/home/u0")
  store : Store User := { user := {} }

def St.fs (s : St) (n : Bytes) : Option Bytes := s.files.lookup n

def pwNam (n : Bytes) : Option Bytes :=
  if n == bs "alice" then some (bs "/home/alice") else if n == bs "bob" then some (bs "/b") else none

def St.env (s : St) : Env :=
  { strtod := strtodC, fmtG := fmtG, home := s.home, pwUid := some (bs "/home/uid"), pwNam := pwNam }

def St.cf (s : St) : Cf User :=
  match schemaOf s.schema with
  | some (sects, base) => { sects := sects, base := base, loaded := s.loaded }
  | none => { sects := [], base := none, loaded := s.loaded }

def evStr : Event → String
  | .sect n => "S:" ++ toHex n
  | .kv key v => "K:" ++ toHex key ++ "=" ++ toHex v

def evsStr (l : List Event) : String := if l.isEmpty then "none" else ",".intercalate (l.map evStr)

def errStr : Err → String
  | .noFile => "nofile" | .depth => "depth" | .incl => "incl" | .badSect => "badsect"
  | .badVal => "badval" | .syntax => "syntax" | .oob => "OOB" | .fuel => "FUEL"

def cfErrStr : CfErr → String
  | .unknownSect => "unknownsect" | .unknownKey => "unknownkey" | .noBase => "nobase"
  | .expand => "expand" | .fillDefaults => "filldefaults" | .noSection => "nosection"
  | .mainMissing => "mainmissing" | .parse e => errStr e

def optHex : Option Bytes → String
  | none => "nil"
  | some b => toHex b

def noNul (b : Bytes) : Bool := !b.contains 0

def rawStr : Option Val → String
  | none => "0"
  | some (.int v) => toString v
  | some (.uint v) => toString v
  | some (.usec v) => toString v
  | some (.dbl d) => toString d.bits
  | some (.str v) => optHex v

def clearLog (s : St) : St := { s with store := { s.store with log := none } }

def step (s0 : St) (line : String) : St × String :=
  let s := clearLog s0
  match words line with
  | ["#case"] => ({}, "#case")
  | ["file", hn, hc] =>
    match parseHex hn, parseHex hc with
    | some n, some c =>
      if !noNul n then (s, "bad-op") else
      ({ s with files := (n, c) :: s.files.filter (fun p => !(p.1 == n)) }, "ok")
    | _, _ => (s, "bad-op")
  | ["parse", hn, fa] =>
    match parseHex hn, fa.toNat? with
    | some n, some failAt =>
      if !noNul n then (s, "bad-op") else
      let (evs, err, first) := parseIni s.fs (logHandler failAt) n []
      -- the spec (line grammar) run next to the model: must agree (also proved)
      let (evs2, err2, first2) := specParse s.fs (logHandler failAt) n []
      let agree := evs == evs2 && err == err2 && first == first2
      let res := match err with | none => "ok" | some _ => "fail"
      let e := match first with | none => "none" | some e => errStr e
      (s, s!"{res} {evsStr evs} live=0 ## err={e}{if agree then "" else " SPEC-DISAGREES"}")
    | _, _ => (s, "bad-op")
  | ["schema", id] =>
    match id.toNat? with
    | some i => if (schemaOf i).isSome then ({ s with schema := i, store := { user := {} } }, "ok") else (s, "bad-op")
    | none => (s, "bad-op")
  | ["loaded", v] =>
    if v == "0" then ({ s with loaded := false }, "ok")
    else if v == "1" then ({ s with loaded := true }, "ok") else (s, "bad-op")
  | ["home", h] =>
    if h == "nil" then ({ s with home := none }, "ok") else
    match parseHex h with
    | some b => if noNul b then ({ s with home := some b }, "ok") else (s, "bad-op")
    | none => (s, "bad-op")
  | ["load", hn] =>
    match parseHex hn with
    | some n =>
      if !noNul n then (s, "bad-op") else
      let st0 := { s.store with user := { s.store.user with starts := [] } }
      let (st', ok) := cfLoadFile s.env s.cf s.fs st0 n
      let e := match st'.log with | none => "none" | some e => cfErrStr e
      let starts := if st'.user.starts.isEmpty then "none" else ",".intercalate (st'.user.starts.map toHex)
      ({ s with store := st' }, s!"{if ok then "ok" else "fail"} starts={starts} live=0 ## err={e}")
    | none => (s, "bad-op")
  | ["set", hs, hk, hv] =>
    match parseHex hs, parseHex hk, parseHex hv with
    | some sc, some key, some v =>
      if !(noNul sc && noNul key && noNul v) then (s, "bad-op") else
      let (st', ok) := cfSet s.env s.cf s.store sc key v
      let e := match st'.log with | none => "none" | some e => cfErrStr e
      ({ s with store := st' }, s!"{if ok then 1 else 0} live=0 ## err={e}")
    | _, _, _ => (s, "bad-op")
  | ["get", hs, hk] =>
    match parseHex hs, parseHex hk with
    | some sc, some key =>
      if !(noNul sc && noNul key) then (s, "bad-op") else
      (s, optHex (cfGet s.env s.cf s.store sc key))
    | _, _ => (s, "bad-op")
  | ["setself", hs, hk, off] =>
    match parseHex hs, parseHex hk, off.toNat? with
    | some sc, some key, some o =>
      if !(noNul sc && noNul key) || o > 1000 then (s, "bad-op") else
      match cfGet s.env s.cf s.store sc key with
      | none => (s, "nil")
      | some old =>
        if old.length < o then (s, "range") else
        let (st', ok) := cfSet s.env s.cf s.store sc key (old.drop o)
        let e := match st'.log with | none => "none" | some e => cfErrStr e
        ({ s with store := st' },
          s!"{if ok then 1 else 0} {optHex (cfGet s.env s.cf st' sc key)} live=0 ## err={e}")
    | _, _, _ => (s, "bad-op")
  | ["dump"] =>
    let items := (dumpList s.schema).map fun (sc, key) => optHex (cfGet s.env s.cf s.store (bs sc) (bs key))
    let raws := (slotList s.schema).filterMap fun l =>
      let r := rawStr (s.store.read l)
      if r == "0" || r == "nil" then none
      else some ((match l with | .abs o => s!"a{o}" | .rel b o => s!"r{b}.{o}") ++ "=" ++ r)
    (s, ",".intercalate items ++ " ## " ++ (if raws.isEmpty then "none" else ",".intercalate raws))
  | _ => (s, "bad-op")

def main : IO Unit := runDriver ({} : St) step
