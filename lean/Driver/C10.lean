import Usual.Common
import Usual.C10.Alloc
import Usual.C10.Tree
import Usual.C10.Structs
import Usual.C10.CxPool
/-!
Model driver for C10 (allocation-fault models; line protocol, see FRAMEWORK.md).

A case is `#case`, `fail k1 [k2 …]` (request numbers made to fail, counted from the start of
the case), op lines `<family> <op> args…`, and `end`.  Every op prints

    <P>:<ret> <abstract contents> live=<blocks allocated right now>

with `P` = `F` when an injected failure fired inside this op and the op reports failure through
its return channel, `A` when a failure fired and the op still reports success, `S` otherwise.
`end` prints the number of requests made, the number of injected failures that fired and the
balance.
-/
open Usual Usual.C06 Usual.C10

structure DS where
  as : AS := {}
  cb : Option CB := none
  cbNext : Nat := 1
  sp : Option SP := none
  spSlots : List (Nat × Id) := []
  md : Option MD := none
  ht : Option HT := none
  hp : Option HP := none
  sl : Option SL := none
  mb : Option MB := none
  sb : Option SB := none
  sbSlots : List Nat := []
  ct : Option CT := none
  ctSlots : List (Nat × Id × Option Nat) := []     -- slot ↦ block, sub-tree slot
  ctSubs : List (Nat × Id) := []                   -- sub-tree slot ↦ struct block
  hm : Option HM := none
  dg : Option Id := none
  pool : Option Usual.C09.Pool := none
  poolSlots : List (Nat × Nat × Nat) := []         -- slot ↦ pointer, length
  mp : Usual.C09.MemPool := { segs := [] }
  mpSlots : List (Nat × Nat) := []                 -- slot ↦ length

def commaSep (l : List String) : String := ",".intercalate l

def valS : Option (List UInt8) → String
  | none => "N"
  | some v => toHex v

def parseValS (s : String) : Option (Option (List UInt8)) :=
  if s == "N" then some none else (parseHex s).map some

def cbDump (t : CB) : String := "[" ++ commaSep (t.entries.map fun e => toHex e.key) ++ "]"

def spDump (p : SP) : String :=
  s!"total={p.count} [" ++
    commaSep (p.tree.entries.map fun e => toHex e.key ++ ":" ++ toString ((refOf p.refs e.obj).getD 0)) ++ "]"

def mdDump (d : MD) : String :=
  "[" ++ commaSep (d.pairs.map fun p => toHex p.1 ++ "=" ++ valS p.2) ++ "]"

def htDump (h : HT) : String :=
  let items := h.allItems.mergeSort (fun a b => a.1 ≤ b.1)
  "used=[" ++ commaSep (h.map fun s => toString s.used) ++ "] {" ++
    commaSep (items.map fun p => s!"{p.1}:{p.2}") ++ "}"

def hpDump (h : HP) : String :=
  s!"used={h.used} alloc={h.allocated} [" ++
    commaSep ((h.elems.mergeSort (· ≤ ·)).map toString) ++ "]"

def slDump (l : SL) : String := "[" ++ commaSep (l.values.map valS) ++ "]"

def mbDump (m : MB) : String := s!"alloc={m.allocLen} {toHex m.bytes}"

def sbDump (b : SB) : String := s!"total={b.total} free={b.free}"

def ctDump (t : CT) : String :=
  s!"items={t.items.length} subs=[" ++ commaSep (t.subs.map fun p => toString p.2.length) ++ "]"

def slotsDump (l : List (Nat × Nat)) : String :=
  "[" ++ commaSep ((l.mergeSort (fun a b => a.1 ≤ b.1)).map fun p => s!"{p.1}:{p.2}") ++ "]"

def poolDump (d : DS) : String := slotsDump (d.poolSlots.map fun p => (p.1, p.2.2))

def mpDump (d : DS) : String := s!"segs={d.mp.segs.length} " ++ slotsDump d.mpSlots

/-- compose an output line -/
def outLine (d0 d1 : DS) (failed : Bool) (ret dump : String) : String :=
  let p := if d1.as.fired > d0.as.fired then (if failed then "F:" else "A:") else "S:"
  let body := if dump.isEmpty then ret else ret ++ " " ++ dump
  s!"{p}{body} live={d1.as.live.length}"

def nats (ws : List String) : Option (List Nat) := ws.mapM String.toNat?

def parseVals (s : String) : Option (List (Option (List UInt8))) :=
  if s == "E" then some [] else (s.splitOn ",").mapM parseValS

def step (d : DS) (line : String) : DS × String :=
  match words line with
  | ["#case"] => ({}, "#case")
  | "fail" :: ks =>
    match nats ks with
    | none => (d, "bad-op")
    | some l => ({ d with as := { d.as with fails := l } }, "ok")
  | ["end"] =>
    (d, s!"req={d.as.count} fired={d.as.fired} live={d.as.live.length}")
  | ["nop"] => (d, "nop")
  -- ------------------------------------------------------------------ cbtree
  | ["cb", "new"] =>
    match d.cb with
    | some _ => (d, "bad-op")
    | none =>
      match cbCreateA d.as with
      | (none, s1) => let d1 := { d with as := s1 }; (d1, outLine d d1 true "null" "")
      | (some t, s1) => let d1 := { d with as := s1, cb := some t }; (d1, outLine d d1 false "ok" (cbDump t))
  | ["cb", "ins", hk] =>
    match d.cb, parseHex hk with
    | _, none => (d, "bad-op")
    | none, _ => (d, "skip")
    | some t, some k =>
      match cbInsertA t ⟨k, d.cbNext⟩ d.as with
      | ((ok, t'), s1) =>
        let d1 := { d with as := s1, cb := some t', cbNext := d.cbNext + 1 }
        (d1, outLine d d1 (!ok) (if ok then "1" else "0") (cbDump t'))
  | ["cb", "del", hk] =>
    match d.cb, parseHex hk with
    | _, none => (d, "bad-op")
    | none, _ => (d, "skip")
    | some t, some k =>
      match cbDeleteA t k d.as with
      | ((r, t'), s1) =>
        let d1 := { d with as := s1, cb := some t' }
        (d1, outLine d d1 r.isNone (if r.isSome then "1" else "0") (cbDump t'))
  | ["cb", "get", hk] =>
    match d.cb, parseHex hk with
    | _, none => (d, "bad-op")
    | none, _ => (d, "skip")
    | some t, some k =>
      let r := lookup t.eroot k
      (d, outLine d d r.isNone (if r.isSome then "1" else "0") (cbDump t))
  | ["cb", "free"] =>
    match d.cb with
    | none => (d, "skip")
    | some t =>
      let d1 := { d with as := cbDestroyA t d.as, cb := none }
      (d1, outLine d d1 false "ok" "")
  -- ----------------------------------------------------------------- strpool
  | ["sp", "new"] =>
    match d.sp with
    | some _ => (d, "bad-op")
    | none =>
      match spCreateA d.as with
      | (none, s1) => let d1 := { d with as := s1 }; (d1, outLine d d1 true "null" "")
      | (some p, s1) => let d1 := { d with as := s1, sp := some p }; (d1, outLine d d1 false "ok" (spDump p))
  | ["sp", "get", slot, hk] =>
    match d.sp, slot.toNat?, parseHex hk with
    | _, none, _ => (d, "bad-op")
    | _, _, none => (d, "bad-op")
    | none, _, _ => (d, "skip")
    | some p, some sl, some k =>
      if d.spSlots.any (·.1 == sl) then (d, "bad-op") else
      match spGetA p k d.as with
      | ((none, p'), s1) =>
        let d1 := { d with as := s1, sp := some p' }
        (d1, outLine d d1 true "null" (spDump p'))
      | ((some id, p'), s1) =>
        let d1 := { d with as := s1, sp := some p', spSlots := (sl, id) :: d.spSlots }
        (d1, outLine d d1 false s!"ref={(refOf p'.refs id).getD 0}" (spDump p'))
  | ["sp", "dec", slot] =>
    match d.sp, slot.toNat? with
    | _, none => (d, "bad-op")
    | none, _ => (d, "skip")
    | some p, some sl =>
      match d.spSlots.find? (·.1 == sl) with
      | none => (d, "skip")
      | some (_, id) =>
        match spDecrefA p id d.as with
        | ((rel, p'), s1) =>
          -- the slot is used up; when the string was released every slot holding it is cleared
          let slots := d.spSlots.filter fun q => q.1 != sl && !(rel && q.2 == id)
          let d1 := { d with as := s1, sp := some p', spSlots := slots }
          (d1, outLine d d1 false (if rel then "released" else "kept") (spDump p'))
  | ["sp", "free"] =>
    match d.sp with
    | none => (d, "skip")
    | some p =>
      let d1 := { d with as := spFreeA p d.as, sp := none, spSlots := [] }
      (d1, outLine d d1 false "ok" "")
  -- ------------------------------------------------------------------- mdict
  | ["md", "new"] =>
    match d.md with
    | some _ => (d, "bad-op")
    | none =>
      match mdNewA d.as with
      | (none, s1) => let d1 := { d with as := s1 }; (d1, outLine d d1 true "null" "")
      | (some m, s1) => let d1 := { d with as := s1, md := some m }; (d1, outLine d d1 false "ok" (mdDump m))
  | ["md", "put", hk, hv] =>
    match d.md, parseHex hk, parseValS hv with
    | _, none, _ => (d, "bad-op")
    | _, _, none => (d, "bad-op")
    | none, _, _ => (d, "skip")
    | some m, some k, some v =>
      match mdPutA m k v d.as with
      | ((ok, m'), s1) =>
        let d1 := { d with as := s1, md := some m' }
        (d1, outLine d d1 (!ok) (if ok then "1" else "0") (mdDump m'))
  | ["md", "del", hk] =>
    match d.md, parseHex hk with
    | _, none => (d, "bad-op")
    | none, _ => (d, "skip")
    | some m, some k =>
      match mdDelA m k d.as with
      | ((ok, m'), s1) =>
        let d1 := { d with as := s1, md := some m' }
        (d1, outLine d d1 (!ok) (if ok then "1" else "0") (mdDump m'))
  | ["md", "url", hs] =>
    match d.md, parseHex hs with
    | _, none => (d, "bad-op")
    | none, _ => (d, "skip")
    | some m, some str =>
      match mdUrldecodeA (str.length + 1) m str d.as with
      | ((ok, m'), s1) =>
        let d1 := { d with as := s1, md := some m' }
        (d1, outLine d d1 (!ok) (if ok then "1" else "0") (mdDump m'))
  | ["md", "free"] =>
    match d.md with
    | none => (d, "skip")
    | some m =>
      let d1 := { d with as := mdFreeA m d.as, md := none }
      (d1, outLine d d1 false "ok" "")
  -- ----------------------------------------------------------------- hashtab
  | ["ht", "new", sz] =>
    match d.ht, sz.toNat? with
    | some _, _ => (d, "bad-op")
    | _, none => (d, "bad-op")
    | none, some n =>
      match htCreateA n d.as with
      | (none, s1) => let d1 := { d with as := s1 }; (d1, outLine d d1 true "null" "")
      | (some h, s1) => let d1 := { d with as := s1, ht := some [h] }; (d1, outLine d d1 false "ok" (htDump [h]))
  | ["ht", "put", ks, vs] =>
    match d.ht, ks.toNat?, vs.toNat? with
    | _, none, _ => (d, "bad-op")
    | _, _, none => (d, "bad-op")
    | none, _, _ => (d, "skip")
    | some h, some k, some v =>
      if v == 0 then (d, "bad-op") else
      match htPutA h k v d.as with
      | ((r, h'), s1) =>
        let d1 := { d with as := s1, ht := some h' }
        (d1, outLine d d1 r.isNone (match r with | none => "null" | some x => toString x) (htDump h'))
  | ["ht", "get", ks] =>
    match d.ht, ks.toNat? with
    | _, none => (d, "bad-op")
    | none, _ => (d, "skip")
    | some h, some k =>
      let r := h.find k
      (d, outLine d d r.isNone (match r with | none => "null" | some x => toString x) (htDump h))
  | ["ht", "del", ks] =>
    match d.ht, ks.toNat? with
    | _, none => (d, "bad-op")
    | none, _ => (d, "skip")
    | some h, some k =>
      let h' := htDelete k h
      let d1 := { d with ht := some h' }
      (d1, outLine d d1 false "ok" (htDump h'))
  | ["ht", "copy", sz] =>
    match d.ht, sz.toNat? with
    | _, none => (d, "bad-op")
    | none, _ => (d, "skip")
    | some h, some n =>
      match htCopyA h n d.as with
      | (none, s1) =>
        let d1 := { d with as := s1 }
        (d1, outLine d d1 true "null" (htDump h))
      | (some h2, s1) =>
        -- the resize idiom: the old chain is destroyed and replaced by the copy
        let d1 := { d with as := htDestroyA h s1, ht := some h2 }
        (d1, outLine d d1 false "ok" (htDump h2))
  | ["ht", "free"] =>
    match d.ht with
    | none => (d, "skip")
    | some h =>
      let d1 := { d with as := htDestroyA h d.as, ht := none }
      (d1, outLine d d1 false "ok" "")
  -- -------------------------------------------------------------------- heap
  | ["hp", "new"] =>
    match d.hp with
    | some _ => (d, "bad-op")
    | none =>
      match hpCreateA d.as with
      | (none, s1) => let d1 := { d with as := s1 }; (d1, outLine d d1 true "null" "")
      | (some h, s1) => let d1 := { d with as := s1, hp := some h }; (d1, outLine d d1 false "ok" (hpDump h))
  | ["hp", "push", xs] =>
    match d.hp, xs.toNat? with
    | _, none => (d, "bad-op")
    | none, _ => (d, "skip")
    | some h, some x =>
      if x == 0 then (d, "bad-op") else
      match hpPushA h x d.as with
      | ((ok, h'), s1) =>
        let d1 := { d with as := s1, hp := some h' }
        (d1, outLine d d1 (!ok) (if ok then "1" else "0") (hpDump h'))
  | ["hp", "reserve", xs] =>
    match d.hp, xs.toNat? with
    | _, none => (d, "bad-op")
    | none, _ => (d, "skip")
    | some h, some x =>
      match hpReserveA h x d.as with
      | ((ok, h'), s1) =>
        let d1 := { d with as := s1, hp := some h' }
        (d1, outLine d d1 (!ok) (if ok then "1" else "0") (hpDump h'))
  | ["hp", "pop"] =>
    match d.hp with
    | none => (d, "skip")
    | some h =>
      let (r, h') := hpPop h
      let d1 := { d with hp := some h' }
      (d1, outLine d d1 r.isNone (match r with | none => "nil" | some x => toString x) (hpDump h'))
  | ["hp", "free"] =>
    match d.hp with
    | none => (d, "skip")
    | some h =>
      let d1 := { d with as := hpDestroyA h d.as, hp := none }
      (d1, outLine d d1 false "ok" "")
  -- ----------------------------------------------------------------- strlist
  | ["sl", "new"] =>
    match d.sl with
    | some _ => (d, "bad-op")
    | none =>
      match slNewA d.as with
      | (none, s1) => let d1 := { d with as := s1 }; (d1, outLine d d1 true "null" "")
      | (some l, s1) => let d1 := { d with as := s1, sl := some l }; (d1, outLine d d1 false "ok" (slDump l))
  | ["sl", "app", hv] =>
    match d.sl, parseValS hv with
    | _, none => (d, "bad-op")
    | none, _ => (d, "skip")
    | some l, some v =>
      match slAppendA l v d.as with
      | ((ok, l'), s1) =>
        let d1 := { d with as := s1, sl := some l' }
        (d1, outLine d d1 (!ok) (if ok then "1" else "0") (slDump l'))
  | ["sl", "pop"] =>
    match d.sl with
    | none => (d, "skip")
    | some l =>
      match slPopA l d.as with
      | ((r, l'), s1) =>
        let d1 := { d with as := s1, sl := some l' }
        (d1, outLine d d1 r.isNone (match r with | none => "nil" | some v => valS v) (slDump l'))
  | ["sl", "free"] =>
    match d.sl with
    | none => (d, "skip")
    | some l =>
      let d1 := { d with as := slFreeA l d.as, sl := none }
      (d1, outLine d d1 false "ok" "")
  -- ---------------------------------------------------------- pg_parse_array
  | ["pg", "parse", _text, vs] =>
    match parseVals vs with
    | none => (d, "bad-op")
    | some vals =>
      match pgParseA vals d.as with
      | (none, s1) => let d1 := { d with as := s1 }; (d1, outLine d d1 true "null" "")
      | (some l, s1) =>
        -- the caller looks at the list and releases it
        let d1 := { d with as := slFreeA l s1 }
        (d1, outLine d d1 false "ok" (slDump l))
  -- -------------------------------------------------------------------- mbuf
  | ["mb", "new"] =>
    match d.mb with
    | some _ => (d, "bad-op")
    | none => let d1 := { d with mb := some {} }; (d1, outLine d d1 false "ok" (mbDump {}))
  | ["mb", "write", hv] =>
    match d.mb, parseHex hv with
    | _, none => (d, "bad-op")
    | none, _ => (d, "skip")
    | some m, some b =>
      match mbWriteA m b d.as with
      | ((ok, m'), s1) =>
        let d1 := { d with as := s1, mb := some m' }
        (d1, outLine d d1 (!ok) (if ok then "1" else "0") (mbDump m'))
  | ["mb", "free"] =>
    match d.mb with
    | none => (d, "skip")
    | some m =>
      let d1 := { d with as := mbFreeA m d.as, mb := none }
      (d1, outLine d d1 false "ok" "")
  -- -------------------------------------------------------------------- slab
  | ["slb", "new", sz] =>
    match d.sb, sz.toNat? with
    | some _, _ => (d, "bad-op")
    | _, none => (d, "bad-op")
    | none, some n =>
      match sbCreateA n d.as with
      | (none, s1) => let d1 := { d with as := s1 }; (d1, outLine d d1 true "null" "")
      | (some b, s1) => let d1 := { d with as := s1, sb := some b }; (d1, outLine d d1 false "ok" (sbDump b))
  | ["slb", "alloc", slot] =>
    match d.sb, slot.toNat? with
    | _, none => (d, "bad-op")
    | none, _ => (d, "skip")
    | some b, some sl =>
      if d.sbSlots.contains sl then (d, "bad-op") else
      match sbAllocA b d.as with
      | ((ok, b'), s1) =>
        let d1 := { d with as := s1, sb := some b', sbSlots := if ok then sl :: d.sbSlots else d.sbSlots }
        (d1, outLine d d1 (!ok) (if ok then "1" else "0") (sbDump b'))
  | ["slb", "free", slot] =>
    match d.sb, slot.toNat? with
    | _, none => (d, "bad-op")
    | none, _ => (d, "skip")
    | some b, some sl =>
      if !d.sbSlots.contains sl then (d, "skip") else
      let b' := sbFree b
      let d1 := { d with sb := some b', sbSlots := d.sbSlots.erase sl }
      (d1, outLine d d1 false "ok" (sbDump b'))
  | ["slb", "destroy"] =>
    match d.sb with
    | none => (d, "skip")
    | some b =>
      let d1 := { d with as := sbDestroyA b d.as, sb := none, sbSlots := [] }
      (d1, outLine d d1 false "ok" "")
  -- ----------------------------------------------------------------- cx tree
  | ["ct", "new"] =>
    match d.ct with
    | some _ => (d, "bad-op")
    | none =>
      match ctNewA d.as with
      | (none, s1) => let d1 := { d with as := s1 }; (d1, outLine d d1 true "null" "")
      | (some t, s1) => let d1 := { d with as := s1, ct := some t }; (d1, outLine d d1 false "ok" (ctDump t))
  | ["ct", "sub", slot] =>
    match d.ct, slot.toNat? with
    | _, none => (d, "bad-op")
    | none, _ => (d, "skip")
    | some t, some sl =>
      if d.ctSubs.any (·.1 == sl) then (d, "bad-op") else
      match ctNewSubA t d.as with
      | ((none, t'), s1) =>
        let d1 := { d with as := s1, ct := some t' }
        (d1, outLine d d1 true "null" (ctDump t'))
      | ((some b, t'), s1) =>
        let d1 := { d with as := s1, ct := some t', ctSubs := d.ctSubs ++ [(sl, b)] }
        (d1, outLine d d1 false "ok" (ctDump t'))
  | ["ct", "alloc", slot, sub, _len] =>
    match d.ct, slot.toNat? with
    | _, none => (d, "bad-op")
    | none, _ => (d, "skip")
    | some t, some sl =>
      if d.ctSlots.any (·.1 == sl) then (d, "bad-op") else
      let subSlot : Option (Option Nat) := if sub == "T" then some none else sub.toNat?.map some
      match subSlot with
      | none => (d, "bad-op")
      | some ss =>
        -- resolve the sub-tree; a sub-tree that does not exist makes the op a skip
        let sid : Option (Option Id) := match ss with
          | none => some none
          | some n => (d.ctSubs.find? (·.1 == n)).map fun p => some p.2
        match sid with
        | none => (d, "skip")
        | some sidv =>
          match ctAllocA t sidv d.as with
          | ((none, t'), s1) =>
            let d1 := { d with as := s1, ct := some t' }
            (d1, outLine d d1 true "null" (ctDump t'))
          | ((some b, t'), s1) =>
            let d1 := { d with as := s1, ct := some t', ctSlots := (sl, b, ss) :: d.ctSlots }
            (d1, outLine d d1 false "ok" (ctDump t'))
  | ["ct", "realloc", slot, _len] =>
    match d.ct, slot.toNat? with
    | _, none => (d, "bad-op")
    | none, _ => (d, "skip")
    | some t, some sl =>
      match d.ctSlots.find? (·.1 == sl) with
      | none => (d, "skip")
      | some (_, blk, ss) =>
        let sidv : Option Id := ss.bind fun n => (d.ctSubs.find? (·.1 == n)).map (·.2)
        match ctReallocA t sidv blk d.as with
        | ((none, t'), s1) =>
          let d1 := { d with as := s1, ct := some t' }
          (d1, outLine d d1 true "null" (ctDump t'))
        | ((some b, t'), s1) =>
          let slots := d.ctSlots.map fun q => if q.1 == sl then (sl, b, ss) else q
          let d1 := { d with as := s1, ct := some t', ctSlots := slots }
          (d1, outLine d d1 false "ok" (ctDump t'))
  | ["ct", "freeb", slot] =>
    match d.ct, slot.toNat? with
    | _, none => (d, "bad-op")
    | none, _ => (d, "skip")
    | some t, some sl =>
      match d.ctSlots.find? (·.1 == sl) with
      | none => (d, "skip")
      | some (_, blk, ss) =>
        let sidv : Option Id := ss.bind fun n => (d.ctSubs.find? (·.1 == n)).map (·.2)
        let (t', s1) := ctFreeA t sidv blk d.as
        let d1 := { d with as := s1, ct := some t', ctSlots := d.ctSlots.filter (·.1 != sl) }
        (d1, outLine d d1 false "ok" (ctDump t'))
  | ["ct", "dsub", slot] =>
    match d.ct, slot.toNat? with
    | _, none => (d, "bad-op")
    | none, _ => (d, "skip")
    | some t, some sl =>
      match d.ctSubs.find? (·.1 == sl) with
      | none => (d, "skip")
      | some (_, sid) =>
        let (t', s1) := ctDestroySubA t sid d.as
        let d1 := { d with as := s1, ct := some t', ctSubs := d.ctSubs.filter (·.1 != sl),
                           ctSlots := d.ctSlots.filter (·.2.2 != some sl) }
        (d1, outLine d d1 false "ok" (ctDump t'))
  | ["ct", "free"] =>
    match d.ct with
    | none => (d, "skip")
    | some t =>
      let d1 := { d with as := ctDestroyA t d.as, ct := none, ctSlots := [], ctSubs := [] }
      (d1, outLine d d1 false "ok" "")
  -- ------------------------------------------------------------ digest / HMAC
  | ["dg", "new", _name] =>
    match d.dg with
    | some _ => (d, "bad-op")
    | none =>
      match dgNewA d.as with
      | (none, s1) => let d1 := { d with as := s1 }; (d1, outLine d d1 true "null" "")
      | (some b, s1) => let d1 := { d with as := s1, dg := some b }; (d1, outLine d d1 false "ok" "")
  | ["dg", "run", _data] =>
    match d.dg with
    | none => (d, "skip")
    | some _ => (d, outLine d d false "ok" "")
  | ["dg", "free"] =>
    match d.dg with
    | none => (d, "skip")
    | some b =>
      let d1 := { d with as := freeS b d.as, dg := none }
      (d1, outLine d d1 false "ok" "")
  | ["hm", "new", _name, _key] =>
    match d.hm with
    | some _ => (d, "bad-op")
    | none =>
      match hmNewA d.as with
      | (none, s1) => let d1 := { d with as := s1 }; (d1, outLine d d1 true "null" "")
      | (some h, s1) => let d1 := { d with as := s1, hm := some h }; (d1, outLine d d1 false "ok" "")
  | ["hm", "run", _data] =>
    match d.hm with
    | none => (d, "skip")
    | some _ => (d, outLine d d false "ok" "")
  | ["hm", "free"] =>
    match d.hm with
    | none => (d, "skip")
    | some h =>
      let d1 := { d with as := hmFreeA h d.as, hm := none }
      (d1, outLine d d1 false "ok" "")
  -- ------------------------------------------------- cx pool (model of property C09)
  | ["pool", "new", ia, al] =>
    match d.pool, ia.toNat?, al.toNat? with
    | some _, _, _ => (d, "bad-op")
    | _, none, _ => (d, "bad-op")
    | _, _, none => (d, "bad-op")
    | none, some i, some a =>
      if i > 1000000 || a > 4096 then (d, "bad-op") else
      match poolNewA i a d.as with
      | (none, s1) => let d1 := { d with as := s1 }; (d1, outLine d d1 true "null" "")
      | (some p, s1) =>
        let d1 := { d with as := s1, pool := some p, poolSlots := [] }
        (d1, outLine d d1 false "ok" (poolDump d1))
  | ["pool", "alloc", slot, ls] =>
    match slot.toNat?, ls.toNat? with
    | none, _ => (d, "bad-op")
    | _, none => (d, "bad-op")
    | some sl, some len =>
      if len == 0 || len > 1000000 then (d, "bad-op") else
      match d.pool with
      | none => (d, "skip")
      | some p =>
        if d.poolSlots.any (·.1 == sl) then (d, "bad-op") else
        match poolAllocA p len d.as with
        | (none, s1) => let d1 := { d with as := s1 }; (d1, outLine d d1 true "null" (poolDump d1))
        | (some r, s1) =>
          let d1 := { d with as := s1, pool := some r.1, poolSlots := (sl, r.2, len) :: d.poolSlots }
          (d1, outLine d d1 false "ok" (poolDump d1))
  | ["pool", "realloc", slot, ls] =>
    match slot.toNat?, ls.toNat? with
    | none, _ => (d, "bad-op")
    | _, none => (d, "bad-op")
    | some sl, some len =>
      if len == 0 || len > 1000000 then (d, "bad-op") else
      match d.pool with
      | none => (d, "skip")
      | some p =>
        match d.poolSlots.find? (·.1 == sl) with
        | none => (d, "skip")
        | some (_, ptr, _) =>
          match poolReallocA p ptr len d.as with
          | (none, s1) => let d1 := { d with as := s1 }; (d1, outLine d d1 true "null" (poolDump d1))
          | (some r, s1) =>
            let slots := d.poolSlots.map fun q => if q.1 == sl then (sl, r.2.1, len) else q
            let d1 := { d with as := s1, pool := some r.1, poolSlots := slots }
            (d1, outLine d d1 false "ok" (poolDump d1))
  | ["pool", "freeb", slot] =>
    match slot.toNat? with
    | none => (d, "bad-op")
    | some sl =>
      match d.pool with
      | none => (d, "skip")
      | some p =>
        match d.poolSlots.find? (·.1 == sl) with
        | none => (d, "skip")
        | some (_, ptr, _) =>
          let d1 := { d with pool := some (Usual.C09.free p ptr), poolSlots := d.poolSlots.filter (·.1 != sl) }
          (d1, outLine d d1 false "ok" (poolDump d1))
  | ["pool", "free"] =>
    match d.pool with
    | none => (d, "skip")
    | some p =>
      let d1 := { d with as := poolDestroyA p d.as, pool := none, poolSlots := [] }
      (d1, outLine d d1 false "ok" "")
  -- ------------------------------------------------- mempool (model of property C09)
  | ["mp", "alloc", slot, ls] =>
    match slot.toNat?, ls.toNat? with
    | none, _ => (d, "bad-op")
    | _, none => (d, "bad-op")
    | some sl, some len =>
      if len == 0 || len > 1000000 then (d, "bad-op") else
      if d.mpSlots.any (·.1 == sl) then (d, "bad-op") else
      match mpAllocA d.mp len d.as with
      | (none, s1) => let d1 := { d with as := s1 }; (d1, outLine d d1 true "null" (mpDump d1))
      | (some r, s1) =>
        let d1 := { d with as := s1, mp := r.1, mpSlots := (sl, len) :: d.mpSlots }
        (d1, outLine d d1 false "ok" (mpDump d1))
  | ["mp", "free"] =>
    let d1 := { d with as := mpDestroyA d.mp d.as, mp := { segs := [] }, mpSlots := [] }
    (d1, outLine d d1 false "ok" (mpDump d1))
  | _ => (d, "bad-op")

def main : IO Unit := runDriver ({} : DS) step
