import Usual.Common
/-! C19 shares the talloc model and its driver with C01: the check (checks/C19.py) runs
`drv_c01` (lean/Driver/C01.lean).  This target only exists because the lakefile declares it. -/
def main : IO Unit := IO.println "C19 uses drv_c01 (see lean/Driver/C01.lean)"
