import Usual.Common
import Usual.C08.TlsName
/-! Model driver for C08: same op lines as harness/C08/h.c, one output line per input line. -/
def main : IO Unit :=
  Usual.runDriver () (fun _ line => ((), Usual.C08.runLine line))
