import Usual.Common
/-! Model driver for C11 (stub: not built yet). -/
def main : IO Unit := IO.println "stub"
