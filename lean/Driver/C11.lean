import Usual.Common
import Usual.C11.Utf8
/-!
Model driver for C11 (UTF-8 codec).  Same line protocol as `harness/C11/h.c`.

Range-hash ops (one output line `<hash> <count>` each; the hash folds every result of the
range in order, `count` = number of accepting / storing results):

* `win v|g <avail> <lo> <hi>` — `validateSeq` / `getChar` on every `avail`-byte window with
  big-endian index in `[lo, hi)` (`avail` = 1..4; exactly `avail` bytes exist before `end`)
* `winq v|g <lo> <hi>`        — 4-byte windows `b0 b1 b2` × 8 boundary values of `b3`;
  index = `(b0 b1 b2) * 8 + k`
* `put <lo> <hi>`             — `charSize c` and `putChar room c` for `room` = 0..4, `c ∈ [lo, hi)`
* `seq <lo> <hi>`             — `seqSize b` for `b ∈ [lo, hi)`
* `seqc <lo> <hi>`            — the same through `char` / `signed char` / `unsigned char` arguments
* `rt <lo> <hi>`              — `putChar 4 c` then `getChar` on the stored bytes, `c ∈ [lo, hi)`

Direct ops (used for replays, boundary cases and strings):
`vseq <hex>`, `getc <hex>`, `putc <hexcode> <room>`, `seqsize <hexbyte>`, `charsize <hexcode>`,
`vstr <hex>`.
-/
open Usual Usual.C11

namespace Driver.C11

@[inline] def mix (h v : UInt64) : UInt64 :=
  let x := (h ^^^ v) * 0x9E3779B97F4A7C15
  x ^^^ (x >>> 29)

def hashInit : UInt64 := 0xcbf29ce484222325

@[inline] def bv8 (x : UInt64) : B := x.toUInt8.toBitVec

def b3set : Array B := #[0x00#8, 0x7F#8, 0x80#8, 0x8F#8, 0x90#8, 0xBF#8, 0xC0#8, 0xFF#8]

/-- how the window bytes are cut out of the index: `b_k = byte (i >>> sh_k)` when `k < avail`,
else 0; in quick mode `b3` comes from the boundary set -/
structure Cut where
  avail : Nat
  quick : Bool
  sh0 : UInt64
  sh1 : UInt64
  sh2 : UInt64
  has1 : Bool
  has2 : Bool
  has3 : Bool

def Cut.ofAvail (a : Nat) : Cut :=
  { avail := a, quick := false, sh0 := (8 * (a - 1)).toUInt64, sh1 := (8 * (a - 2)).toUInt64,
    sh2 := (8 * (a - 3)).toUInt64, has1 := a ≥ 2, has2 := a ≥ 3, has3 := a ≥ 4 }

def Cut.q : Cut :=
  { avail := 4, quick := true, sh0 := 19, sh1 := 11, sh2 := 3, has1 := true, has2 := true, has3 := true }

@[inline] def Cut.b0 (c : Cut) (i : UInt64) : B := bv8 (i >>> c.sh0)
@[inline] def Cut.b1 (c : Cut) (i : UInt64) : B := if c.has1 then bv8 (i >>> c.sh1) else 0#8
@[inline] def Cut.b2 (c : Cut) (i : UInt64) : B := if c.has2 then bv8 (i >>> c.sh2) else 0#8
@[inline] def Cut.b3 (c : Cut) (i : UInt64) : B :=
  if c.quick then b3set[(i &&& 7).toNat]! else if c.has3 then bv8 i else 0#8

partial def loopV (c : Cut) (i hi h n : UInt64) : UInt64 × UInt64 :=
  if i >= hi then (h, n) else
  let r := (validateSeqW (c.b0 i) (c.b1 i) (c.b2 i) (c.b3 i) c.avail).toNat.toUInt64
  loopV c (i + 1) hi (mix h r) (if r != 0 then n + 1 else n)

partial def loopG (c : Cut) (i hi h n : UInt64) : UInt64 × UInt64 :=
  if i >= hi then (h, n) else
  let r := getCharW (c.b0 i) (c.b1 i) (c.b2 i) (c.b3 i) c.avail
  let v := r.1.toNat.toUInt64
  loopG c (i + 1) hi (mix h (v ||| (r.2.toUInt64 <<< 32))) (if v < 0x80000000 then n + 1 else n)

def loopWin (isV : Bool) (c : Cut) (lo hi : UInt64) : UInt64 × UInt64 :=
  if isV then loopV c lo hi hashInit 0 else loopG c lo hi hashInit 0

def packPut (r : Bool × Nat × List B) : UInt64 :=
  let bs := r.2.2
  let b (k : Nat) : UInt64 := (bs.getD k 0#8).toNat.toUInt64
  (if r.1 then (1 : UInt64) else 0) ||| (r.2.1.toUInt64 <<< 8) ||| (b 0 <<< 16) ||| (b 1 <<< 24) |||
    (b 2 <<< 32) ||| (b 3 <<< 40)

partial def loopPut (c hi h n : UInt64) : UInt64 × UInt64 :=
  if c >= hi then (h, n) else
  let cv := BitVec.ofNat 32 c.toNat
  let h := mix h (charSize cv).toNat.toUInt64
  let rec rooms (room : Nat) (h n : UInt64) : UInt64 × UInt64 :=
    if room > 4 then (h, n) else
    let r := putChar room cv
    rooms (room + 1) (mix h (packPut r)) (if r.1 && r.2.1 > 0 then n + 1 else n)
  let (h, n) := rooms 0 h n
  loopPut (c + 1) hi h n

partial def loopSeq (b hi h n : UInt64) : UInt64 × UInt64 :=
  if b >= hi then (h, n) else
  let r := (seqSize (BitVec.ofNat 8 b.toNat)).toNat.toUInt64
  loopSeq (b + 1) hi (mix h r) (if r != 0 then n + 1 else n)

/-- `utf8_seq_size` called through a `char`, a `signed char` and an `unsigned char` lvalue: a
caller hands over a *byte*, so all three are `seqSize` of that byte -/
partial def loopSeqC (b hi h n : UInt64) : UInt64 × UInt64 :=
  if b >= hi then (h, n) else
  let r := (seqSize (BitVec.ofNat 8 b.toNat)).toNat.toUInt64
  let v := r ||| (r <<< 8) ||| (r <<< 16)
  loopSeqC (b + 1) hi (mix h v) (if v != 0 then n + 1 else n)

/-- `putChar 4 c`, then `getChar` on exactly the bytes stored -/
def roundTrip (c : UInt64) : Bool × Nat × BitVec 32 × Nat :=
  let r := putChar 4 (BitVec.ofNat 32 c.toNat)
  if r.1 && r.2.1 > 0 then
    let g := getCharL r.2.2
    (true, r.2.1, g.1, g.2)
  else (r.1, 0, 0#32, 0)

partial def loopRt (c hi h n : UInt64) : UInt64 × UInt64 :=
  if c >= hi then (h, n) else
  let r := roundTrip c
  let v : UInt64 :=
    if r.2.1 > 0 then r.2.2.1.toNat.toUInt64 ||| (r.2.2.2.toUInt64 <<< 32) ||| (r.2.1.toUInt64 <<< 40)
    else 0xFFFFFFFFFFFFFFFF ^^^ (if r.1 then 1 else 0)
  let good := r.2.1 > 0 && r.2.2.1.toNat.toUInt64 == (c &&& 0xFFFFFFFF) && r.2.2.2 == r.2.1
  loopRt (c + 1) hi (mix h v) (if good then n + 1 else n)

def hex64 (x : UInt64) : String :=
  String.ofList ((List.range 16).map fun k => hexDigit ((x >>> (60 - 4 * k).toUInt64) &&& 0xF).toNat)

def showHN (r : UInt64 × UInt64) : String := s!"{hex64 r.1} {r.2.toNat}"

/-- parse a hexadecimal number (no prefix) -/
def parseHexNat (s : String) : Option Nat :=
  if s.isEmpty || s.length > 16 then none else
  s.toList.foldl (fun acc ch => match acc, hexVal ch with
    | some a, some d => some (a * 16 + d)
    | _, _ => none) (some 0)

def boolStr (b : Bool) : String := if b then "1" else "0"

def step (line : String) : String :=
  match words line with
  | ["#case"] => "#case"
  | ["win", f, a, lo, hi] =>
    match a.toNat?, lo.toNat?, hi.toNat? with
    | some a, some lo, some hi =>
      if (f == "v" || f == "g") && 1 ≤ a && a ≤ 4 && lo ≤ hi && hi ≤ 256 ^ a then
        showHN (loopWin (f == "v") (Cut.ofAvail a) lo.toUInt64 hi.toUInt64)
      else "bad-op"
    | _, _, _ => "bad-op"
  | ["winq", f, lo, hi] =>
    match lo.toNat?, hi.toNat? with
    | some lo, some hi =>
      if (f == "v" || f == "g") && lo ≤ hi && hi ≤ 256 ^ 3 * 8 then
        showHN (loopWin (f == "v") Cut.q lo.toUInt64 hi.toUInt64)
      else "bad-op"
    | _, _ => "bad-op"
  | ["put", lo, hi] =>
    match lo.toNat?, hi.toNat? with
    | some lo, some hi =>
      if lo ≤ hi && hi ≤ 2 ^ 32 then showHN (loopPut lo.toUInt64 hi.toUInt64 hashInit 0) else "bad-op"
    | _, _ => "bad-op"
  | ["seq", lo, hi] =>
    match lo.toNat?, hi.toNat? with
    | some lo, some hi =>
      if lo ≤ hi && hi ≤ 256 then showHN (loopSeq lo.toUInt64 hi.toUInt64 hashInit 0) else "bad-op"
    | _, _ => "bad-op"
  | ["seqc", lo, hi] =>
    match lo.toNat?, hi.toNat? with
    | some lo, some hi =>
      if lo ≤ hi && hi ≤ 256 then showHN (loopSeqC lo.toUInt64 hi.toUInt64 hashInit 0) else "bad-op"
    | _, _ => "bad-op"
  | ["rt", lo, hi] =>
    match lo.toNat?, hi.toNat? with
    | some lo, some hi =>
      if lo ≤ hi && hi ≤ 2 ^ 32 then showHN (loopRt lo.toUInt64 hi.toUInt64 hashInit 0) else "bad-op"
    | _, _ => "bad-op"
  | ["seqsizec", b] =>
    match parseHexNat b with
    | some b =>
      if b < 256 then
        let r := (seqSize (BitVec.ofNat 8 b)).toNat
        s!"{r} {r} {r}"
      else "bad-op"
    | none => "bad-op"
  | ["rtc", c] =>
    match parseHexNat c with
    | some c =>
      if c < 2 ^ 32 then
        let r := roundTrip c.toUInt64
        if r.2.1 > 0 then s!"{boolStr r.1} {r.2.1} {r.2.2.1.toInt} {r.2.2.2}"
        else s!"{boolStr r.1} 0 - -"
      else "bad-op"
    | none => "bad-op"
  | ["vseq", h] =>
    match parseHex h with
    | some (b :: bs) => toString (validateSeqU (b :: bs))
    | _ => "bad-op"
  | ["getc", h] =>
    match parseHex h with
    | some (b :: bs) => let r := getCharU (b :: bs); s!"{r.1} {r.2}"
    | _ => "bad-op"
  | ["putc", c, room] =>
    match parseHexNat c, room.toNat? with
    | some c, some room =>
      if c < 2 ^ 32 && room ≤ 16 then
        let r := putCharU room c
        s!"{boolStr r.1} {r.2.1} {toHex r.2.2}"
      else "bad-op"
    | _, _ => "bad-op"
  | ["seqsize", b] =>
    match parseHexNat b with
    | some b => if b < 256 then toString (seqSize (BitVec.ofNat 8 b)).toNat else "bad-op"
    | none => "bad-op"
  | ["charsize", c] =>
    match parseHexNat c with
    | some c => if c < 2 ^ 32 then toString (charSize (BitVec.ofNat 32 c)).toNat else "bad-op"
    | none => "bad-op"
  | ["vstr", h] =>
    match parseHex h with
    | some bs => boolStr (validateStringU bs)
    | none => "bad-op"
  | _ => "bad-op"

end Driver.C11

def main : IO Unit := Usual.runDriver () (fun _ line => ((), Driver.C11.step line))
