import Usual.Common
import Usual.C01.Drv
import Usual.C01.HistGen
/-! Model driver for C01/C19: talloc ownership + memlimit accounting (line protocol, see
FRAMEWORK.md).
  drv_c01 [old]                          line protocol on stdin
  drv_c01 gen <seed> <count> <c01|c19> [old]   print generated histories
  drv_c01 exh <depth>                    print the bounded-exhaustive histories
  drv_c01 stat [old]                     line protocol, prints branch/outcome tags per op
`old` selects the model of the code as pinned (no repairs); `cfg=1000000` etc. selects single
repairs (used to validate the model of the pinned code against the pinned code). -/
open Usual Usual.C01 Usual.C01.Drv

def bit (s : String) (i : Nat) : Bool := s.toList.getD i '1' == '1'

/-- `old`, or `cfg=<7 bits: fixCx fixWalk fixRealloc fixSet fixPromote fixGone fixRollback>` -/
def cfgOf (args : List String) : Cfg :=
  match args.find? (·.startsWith "cfg=") with
  | some a =>
    let b := (a.drop 4).toString
    ⟨bit b 0, bit b 1, bit b 2, bit b 3, bit b 4, bit b 5, bit b 6⟩
  | none => if args.contains "old" then Cfg.old else Cfg.fixed

def main (args : List String) : IO Unit :=
  let cfg := cfgOf args
  match args with
  | "gen" :: seed :: count :: profile :: _ =>
    genMain seed.toNat! count.toNat! profile cfg
  | "exh" :: depth :: _ => exhMain depth.toNat! cfg
  | "stat" :: _ => runDriver ({ cfg := cfg, stat := true } : DSt) stepLine
  | _ => runDriver ({ cfg := cfg } : DSt) stepLine
