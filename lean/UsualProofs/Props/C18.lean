import UsualProofs.C18.Scan
import UsualProofs.C18.NumP
import UsualProofs.C18.ConfigP
import UsualProofs.C18.LoadP
import UsualProofs.C18.Float
import UsualProofs.C18.StrtodP
import UsualProofs.C18.FmtP
/-!
# C18 — Config parser delivers exactly the documented events and typed values

Models (`Usual.C18`): `CfParser` = `parse_ini_file_internal` on a mutable buffer (`loop`,
`stepAt`, `scanFile`, `parseIni`; every load/store bounds-checked, NUL patches and their
restoration explicit); `Spec` = the line grammar as an independent tokenizer (`lineItems`,
`runLines`, `specFile`); `Config` = `cf_set/cf_get/find_sect/find_key/get_dest/fill_defaults/
load_handler/cf_load_file` over an abstract schema; `Num` = strtol/strtoul base 0, `%d`/`%u`,
binary64 rounding, and the *modelled libc* `strtodC`/`fmtG` (parameters `Env` of every theorem).
The code modelled is the tree with repairs F24 (`cf_set_time_usec` rounds and range-checks) and F37
(`cf_set_int`/`cf_set_uint` reject what does not fit instead of wrapping).
-/
namespace UsualProps.C18
open Usual.C18 UsualProofs.C18

variable {σ δ : Type}

/-! ## concrete objects used by the non-vacuity examples -/

/-- `a` = "[s]\n k = v \n%include b\nz=\n", `b` = "[t] q=1" (no final newline) -/
def exFs (n : Bytes) : Option Bytes :=
  if n == [97] then some [91, 115, 93, 10, 32, 107, 32, 61, 32, 118, 32, 10, 37, 105, 110, 99, 108, 117,
    100, 101, 32, 98, 10, 122, 61, 10]
  else if n == [98] then some [91, 116, 93, 32, 113, 61, 49]
  else none

/-- files named by one letter `A`, `B`, …: file number `i < n` is "%include <next letter>\n", file
    number `n` is "k=v": a chain of `n` nested includes below the top file `A` -/
def chainFs (n : Nat) (name : Bytes) : Option Bytes :=
  match name with
  | [c] =>
    if c.toNat < 65 then none
    else if c.toNat - 65 < n then some ([37, 105, 110, 99, 108, 117, 100, 101, 32, c + 1, 10])
    else if c.toNat - 65 == n then some [107, 61, 118] else none
  | _ => none

def exEnv : Env := { strtod := strtodC, fmtG := fmtG, home := none, pwUid := none, pwNam := fun _ => none }

def exLk : List (Bytes × Int) := [([111, 110, 101], 1), ([116, 119, 111], 2)]   -- one, two

/-- section `main`: i (int, default "5"), ro (read-only), nr (no-reload), l (lookup), r (relative);
    section `two`: s (string) -/
def exCf (loaded : Bool) (base : Option Nat) : Cf Unit :=
  { sects := [
      { name := [109, 97, 105, 110],
        keys := [
          { name := [105], setter := some .int, getter := some .int, ofs := 0, dflt := some [53] },
          { name := [114, 111], setter := some .int, getter := some .int, ofs := 1, readOnly := true },
          { name := [110, 114], setter := some .int, getter := some .int, ofs := 2, noReload := true },
          { name := [108], setter := some (.lookup exLk), getter := some (.lookup exLk), ofs := 3 },
          { name := [114], setter := some .uint, getter := some .uint, ofs := 4, rel := true } ] },
      { name := [116, 119, 111],
        keys := [{ name := [115], setter := some .str, getter := some .str, ofs := 10 }] } ],
    base := base, loaded := loaded }

def exSt : Store Unit := { user := () }

/-! ## the parser -/

/-- **buffer intact.**  A round of the loop that continues hands the *same* buffer to the next
    round (every NUL patch has been undone), and its offset again points at NUL-free text
    followed by the terminating NUL. -/
theorem buffer_intact_for_later_lines (incl : Bytes → σ → σ × Option Err) (h : σ → Event → σ × Bool)
    (level : Nat) (buf : Bytes) (p : Nat) (s : Bytes) (st : σ) (hv : View buf p s)
    (b' : Bytes) (p' : Nat) (st' : σ) (hstep : stepAt incl h level buf p st = .next b' p' st') :
    b' = buf ∧ ∃ s', View buf p' s' := by
  have := stepAt_view incl h level st hv
  rw [hstep] at this
  cases hr : refStep incl h level s st with
  | next s' st'' =>
    rw [hr] at this
    obtain ⟨q, he, hv'⟩ := this
    cases he
    exact ⟨rfl, s', hv'⟩
  | done st'' => rw [hr] at this; cases this
  | fail st'' e f => rw [hr] at this; cases this

example : (match stepAt (fun _ (s : List Event) => (s, none)) (logHandler 0) 0
      (loadBuf [107, 61, 118, 10, 120]) 0 [] with
    | .next b p st => b == loadBuf [107, 61, 118, 10, 120] && p == 4 && st == [.kv [107] [118]]
    | _ => false) = true := by decide +kernel

/-- **buffer restored.**  When the scan of a loaded file succeeds, the buffer that is freed is
    byte for byte what `load_file` returned. -/
theorem buffer_restored (incl : Bytes → σ → σ × Option Err) (h : σ → Event → σ × Bool) (level : Nat)
    (content : Bytes) (st : σ) :
    let o := loop incl h level ((loadBuf content).length + 1) (loadBuf content) 0 st
    o.err = none → o.buf = loadBuf content :=
  (loop_loadBuf incl h level content st).2

example : (loop (fun _ (s : List Event) => (s, none)) (logHandler 0) 0 100
    (loadBuf [91, 115, 93, 10, 107, 61, 118, 32, 10]) 0 []).err = none := by decide +kernel

/-- **no access outside the loaded text.**  Every load and store of the model is checked
    against the allocation `load_file` made (text + one NUL); a violation would surface as
    `Err.oob`.  It never does, and the loop/recursion fuel never runs out (`Err.fuel`). -/
theorem reads_in_text (fs : Bytes → Option Bytes) (h : σ → Event → σ × Bool) (name : Bytes) (st : σ) :
    let r := parseIni fs h name st
    r.2.1 ≠ some .oob ∧ r.2.1 ≠ some .fuel ∧ r.2.2 ≠ some .oob ∧ r.2.2 ≠ some .fuel := by
  unfold parseIni
  rw [scanFile_eq_spec]
  exact specFile_real fs h (MAX_INCLUDE + 2) name 0 st (by unfold MAX_INCLUDE; omega) (by omega)

example : (parseIni exFs (logHandler 0) [97] []).2.1 = none := by decide +kernel

/-- **events = line grammar.**  For every file system, handler and content (also with NUL
    bytes: the text ends at the first one), `parse_ini_file` delivers exactly what the line
    tokenizer `specParse` says, with the same result and the same first error. -/
theorem scan_eq_line_grammar (fs : Bytes → Option Bytes) (h : σ → Event → σ × Bool) (name : Bytes)
    (st : σ) : parseIni fs h name st = specParse fs h name st := by
  unfold parseIni specParse
  exact scanFile_eq_spec fs h _ name 0 st

/-- the same for the event list a handler that accepts everything receives -/
theorem scan_events_eq_line_grammar (fs : Bytes → Option Bytes) (name : Bytes) :
    scan fs name = specScan fs name := by
  unfold scan specScan
  rw [scan_eq_line_grammar]
  rcases specParse fs (logHandler 0) name [] with ⟨evs, _ | e, f⟩ <;> rfl

example : parseIni exFs (logHandler 0) [97] [] =
    ([.sect [115], .kv [107] [118], .sect [116], .kv [113] [49], .kv [122] []], none, none) := by
  decide +kernel

/-- **include depth**: an `%include` in a file that is itself `MAX_INCLUDE` (10) levels below the
    top file is an error (and nothing of it is delivered); at a smaller level the included file
    is expanded in place, one level deeper. -/
theorem include_depth (incl : Bytes → σ → σ × Option Err) (h : σ → Event → σ × Bool) (level : Nat)
    (f : Bytes) (rest : List Item) (st : σ) :
    (level ≥ MAX_INCLUDE → runItems incl h level (.incl f :: rest) st = (st, some .depth, some .depth)) ∧
    (level < MAX_INCLUDE → runItems incl h level (.incl f :: rest) st =
      match incl f st with
      | (st', some e) => (st', some .incl, some e)
      | (st', none) => runItems incl h level rest st') := by
  constructor
  · intro hl; simp [runItems, hl]
  · intro hl
    have : ¬ level ≥ MAX_INCLUDE := by omega
    simp only [runItems, this, if_false]
    rcases incl f st with ⟨st', _ | e⟩ <;> rfl

/-- ten nested includes are accepted, eleven are not -/
theorem include_depth_limit :
    parseIni (chainFs 10) (logHandler 0) [65] [] = ([.kv [107] [118]], none, none) ∧
    parseIni (chainFs 11) (logHandler 0) [65] [] = ([], some .incl, some .depth) := by
  decide +kernel

example : MAX_INCLUDE = 10 := rfl

/-! ## typed values -/

/-- **round trip, int (and bool = int)**: what `cf_get_int` prints for any `int` is read back by
    `cf_set_int` as the same value, through `cf_set`/`cf_get` on any reachable writable key. -/
theorem set_get_roundtrip_int (env : Env) (cf : Cf δ) (st : Store δ) {sect key : Bytes} {s : Sect δ}
    {k : Key} {i : Nat} (hr : Reaches cf sect key s k i) (hs : k.setter = some .int)
    (hg : k.getter = some .int) (hro : k.readOnly = false) (hnr : (k.noReload && cf.loaded) = false)
    {loc : Loc} (hd : getDest (sectBase cf s sect) k = some loc)
    (v : Int) (h1 : -2147483648 ≤ v) (h2 : v ≤ 2147483647) :
    (cfSet env cf st sect key (renderInt v)).2 = true ∧
    cfGet env cf (cfSet env cf st sect key (renderInt v)).1 sect key = some (renderInt v) := by
  have hv : applySetter env .int (renderInt v) = some (.int v) := by
    simp [applySetter, setInt_render v h1 h2]
  have := set_then_get env cf st hr hs hg hro hnr hd hv
  simpa [applyGetter, asInt] using this

example : cfGet exEnv (exCf false none) (cfSet exEnv (exCf false none) exSt [109, 97, 105, 110] [105]
    (renderInt (-2147483648))).1 [109, 97, 105, 110] [105] = some (renderInt (-2147483648)) := by
  decide +kernel

/-- **int/uint store the value the text denotes, or nothing** (repair F37): whatever
    `cf_set_int` / `cf_set_uint` accept is the integer the literal denotes (sign, `0x`/`0`
    prefix), inside `int` / `unsigned int`; nothing is wrapped or clamped. -/
theorem set_int_stores_denoted_value (s : Bytes) :
    (∀ v, setInt s = some v →
      v = litValue (strtoBase0 s) ∧ -2147483648 ≤ v ∧ v ≤ 2147483647) ∧
    (∀ n, setUint s = some n → (n : Int) = litValue (strtoBase0 s) ∧ n ≤ 4294967295) :=
  ⟨fun _ h => setInt_exact h, fun _ h => setUint_exact h⟩

example : setInt [45, 48, 120, 49, 48] = some (-16) ∧ setUint [48, 49, 48] = some 8 ∧
    setInt [50, 49, 52, 55, 52, 56, 51, 54, 52, 56] = none := by decide +kernel

/-- **the defect repaired by F37.**  The unrepaired setters converted the `long` unchecked:
    "2147483648" was accepted and stored as −2147483648 (rendered "-2147483648"),
    "99999999999999999999" (strtol overflow, ERANGE ignored) as −1, and for unsigned "-1" as
    4294967295 and "4294967296" as 0.  The repaired setters reject all four. -/
theorem int_wrap_counterexample :
    setIntOld [50, 49, 52, 55, 52, 56, 51, 54, 52, 56] = some (-2147483648) ∧
    renderInt (-2147483648) ≠ [50, 49, 52, 55, 52, 56, 51, 54, 52, 56] ∧
    setIntOld (List.replicate 20 57) = some (-1) ∧
    setUintOld [45, 49] = some 4294967295 ∧
    setUintOld [52, 50, 57, 52, 57, 54, 55, 50, 57, 54] = some 0 ∧
    setInt [50, 49, 52, 55, 52, 56, 51, 54, 52, 56] = none ∧ setInt (List.replicate 20 57) = none ∧
    setUint [45, 49] = none ∧ setUint [52, 50, 57, 52, 57, 54, 55, 50, 57, 54] = none := by
  decide +kernel

/-- the two canonical bool spellings (CF_BOOL is `cf_set_int`/`cf_get_int`) -/
theorem set_get_roundtrip_bool :
    setInt [48] = some 0 ∧ setInt [49] = some 1 ∧ renderInt 0 = [48] ∧ renderInt 1 = [49] := by
  decide

/-- **round trip, uint** -/
theorem set_get_roundtrip_uint (env : Env) (cf : Cf δ) (st : Store δ) {sect key : Bytes} {s : Sect δ}
    {k : Key} {i : Nat} (hr : Reaches cf sect key s k i) (hs : k.setter = some .uint)
    (hg : k.getter = some .uint) (hro : k.readOnly = false) (hnr : (k.noReload && cf.loaded) = false)
    {loc : Loc} (hd : getDest (sectBase cf s sect) k = some loc) (n : Nat) (h : n < 4294967296) :
    (cfSet env cf st sect key (renderNat n)).2 = true ∧
    cfGet env cf (cfSet env cf st sect key (renderNat n)).1 sect key = some (renderNat n) := by
  have hv : applySetter env .uint (renderNat n) = some (.uint n) := by
    simp [applySetter, setUint_render n h]
  have := set_then_get env cf st hr hs hg hro hnr hd hv
  simpa [applyGetter, asUint] using this

example : cfGet exEnv (exCf false (some 7)) (cfSet exEnv (exCf false (some 7)) exSt [109, 97, 105, 110]
    [114] (renderNat 4294967295)).1 [109, 97, 105, 110] [114] = some (renderNat 4294967295) := by
  decide +kernel

/-- **round trip, string** (also CF_FILE values that do not start with `~`) -/
theorem set_get_roundtrip_str (env : Env) (cf : Cf δ) (st : Store δ) {sect key : Bytes} {s : Sect δ}
    {k : Key} {i : Nat} (hr : Reaches cf sect key s k i) (hs : k.setter = some .str)
    (hg : k.getter = some .str) (hro : k.readOnly = false) (hnr : (k.noReload && cf.loaded) = false)
    {loc : Loc} (hd : getDest (sectBase cf s sect) k = some loc) (val : Bytes) :
    (cfSet env cf st sect key val).2 = true ∧
    cfGet env cf (cfSet env cf st sect key val).1 sect key = some val := by
  have hv : applySetter env .str val = some (.str (some val)) := rfl
  have := set_then_get env cf st hr hs hg hro hnr hd hv
  simpa [applyGetter, asStr] using this

example : cfGet exEnv (exCf true none) (cfSet exEnv (exCf true none) exSt [116, 119, 111] [115]
    [104, 105, 32, 61]).1 [116, 119, 111] [115] = some [104, 105, 32, 61] := by decide +kernel

/-- **setting a key from its own value**: `cf_set(k, cf_get(k) + off)` — in C the argument points
    into the string being replaced (`cf_get_str` returns the stored pointer) — leaves exactly the
    suffix of the old value, as for any other argument (the setter copies before it frees; the
    harness op `setself` replays this with the library's own pointer) -/
theorem set_from_own_value (env : Env) (cf : Cf δ) (st : Store δ) {sect key : Bytes} {s : Sect δ}
    {k : Key} {i : Nat} (hr : Reaches cf sect key s k i) (hs : k.setter = some .str)
    (hg : k.getter = some .str) (hro : k.readOnly = false) (hnr : (k.noReload && cf.loaded) = false)
    {loc : Loc} (hd : getDest (sectBase cf s sect) k = some loc) (old : Bytes)
    (_hold : cfGet env cf st sect key = some old) (off : Nat) :
    (cfSet env cf st sect key (old.drop off)).2 = true ∧
    cfGet env cf (cfSet env cf st sect key (old.drop off)).1 sect key = some (old.drop off) :=
  set_get_roundtrip_str env cf st hr hs hg hro hnr hd (old.drop off)

example :
    let st1 := (cfSet exEnv (exCf false none) exSt [116, 119, 111] [115] [104, 101, 108, 108, 111]).1
    (cfGet exEnv (exCf false none) st1 [116, 119, 111] [115]).map (fun old =>
      cfGet exEnv (exCf false none) (cfSet exEnv (exCf false none) st1 [116, 119, 111] [115] (old.drop 2)).1
        [116, 119, 111] [115]) = some (some [108, 108, 111]) := by decide +kernel

/-- **round trip, filename**: no tilde = string; `~…` is `$HOME` / the passwd directory (the
    environment is the parameter `env`) followed by the rest of the value -/
theorem set_filename (env : Env) (v : Bytes) :
    (v.head? ≠ some 126 → applySetter env .file v = some (.str (some v))) ∧
    (∀ h rest, env.home = some h →
      applySetter env .file (126 :: 47 :: rest) = some (.str (some (h ++ 47 :: rest)))) := by
  constructor
  · intro hv
    cases v with
    | nil => rfl
    | cons c t =>
      have hc : c ≠ 126 := by simpa using hv
      show (match c :: t with
        | 126 :: _ => (expandTilde env (c :: t)).map (fun x => Val.str (some x))
        | _ => some (.str (some (c :: t)))) = _
      split
      · rename_i heq; simp only [List.cons.injEq] at heq; exact absurd heq.1 hc
      · rfl
  · intro h rest hh
    have hi : List.findIdx? (fun x : UInt8 => x == 47) (126 :: 47 :: rest) = some 1 := by
      simp [List.findIdx?_cons]
    show (expandTilde env (126 :: 47 :: rest)).map (fun x => Val.str (some x)) = _
    unfold expandTilde
    simp [hi, hh]

example : applySetter { exEnv with home := some [47, 104] } .file [126, 47, 120] = some (.str (some [47, 104, 47, 120])) := by
  decide +kernel

/-- **filename, `~user`**: `~user/rest` is the passwd directory of `user` (parameter `env.pwNam`)
    followed by `/rest`, `~user` alone is that directory, an unknown user makes the setter fail;
    `~` and `~/rest` use `$HOME`, or the passwd directory of the uid when HOME is unset. -/
theorem set_filename_user (env : Env) (user rest : Bytes) (hu : user ≠ []) (hs : ∀ x ∈ user, x ≠ 47) :
    applySetter env .file (126 :: user ++ 47 :: rest) =
      (env.pwNam user).map (fun d => Val.str (some (d ++ 47 :: rest))) ∧
    applySetter env .file (126 :: user) = (env.pwNam user).map (fun d => Val.str (some d)) ∧
    (∀ r, r = [] ∨ r.head? = some 47 → applySetter env .file (126 :: r) =
      (match env.home with | some h => some h | none => env.pwUid).map (fun d => Val.str (some (d ++ r)))) := by
  refine ⟨?_, ?_, ?_⟩
  · show (expandTilde env (126 :: user ++ 47 :: rest)).map (fun x => Val.str (some x)) = _
    rw [expandTilde_user env user rest hu hs]
    cases env.pwNam user <;> rfl
  · show (expandTilde env (126 :: user)).map (fun x => Val.str (some x)) = _
    rw [expandTilde_user_only env user hu hs]
  · intro r hr
    show (expandTilde env (126 :: r)).map (fun x => Val.str (some x)) = _
    rw [expandTilde_self env r hr, Option.map_map]
    rfl

example :
    let env := { exEnv with pwNam := fun n => if n == [98, 111, 98] then some [47, 98] else none }
    applySetter env .file [126, 98, 111, 98, 47, 120] = some (.str (some [47, 98, 47, 120])) ∧
    applySetter env .file [126, 97, 108, 47, 120] = none ∧
    applySetter { env with pwUid := some [47, 117] } .file [126] = some (.str (some [47, 117])) := by
  decide +kernel

/-- **filename through cf_set / cf_get = the expansion, of any length**: on a reachable writable
    CF_FILE key, `cf_set(k, "~/rest")` then `cf_get(k)` gives `$HOME ++ "/rest"` — the whole of
    it, whatever the lengths of `$HOME` and `rest` (no bound appears anywhere in the statement);
    likewise `~user/rest` with the passwd directory. -/
theorem set_get_filename_expansion (env : Env) (cf : Cf δ) (st : Store δ) {sect key : Bytes} {s : Sect δ}
    {k : Key} {i : Nat} (hr : Reaches cf sect key s k i) (hs : k.setter = some .file)
    (hg : k.getter = some .str) (hro : k.readOnly = false) (hnr : (k.noReload && cf.loaded) = false)
    {loc : Loc} (hd : getDest (sectBase cf s sect) k = some loc) :
    (∀ h rest, env.home = some h →
      cfGet env cf (cfSet env cf st sect key (126 :: 47 :: rest)).1 sect key = some (h ++ 47 :: rest)) ∧
    (∀ user dir rest, user ≠ [] → (∀ x ∈ user, x ≠ 47) → env.pwNam user = some dir →
      cfGet env cf (cfSet env cf st sect key (126 :: user ++ 47 :: rest)).1 sect key
        = some (dir ++ 47 :: rest)) := by
  constructor
  · intro h rest hh
    have hv := (set_filename env (126 :: 47 :: rest)).2 h rest hh
    have := set_then_get env cf st hr hs hg hro hnr hd hv
    simpa [applyGetter, asStr] using this.2
  · intro user dir rest hu hsl hp
    have hv := (set_filename_user env user rest hu hsl).1
    rw [hp] at hv
    have := set_then_get env cf st hr hs hg hro hnr hd hv
    simpa [applyGetter, asStr] using this.2

/-- one section `m` with one CF_FILE key `f` -/
def fnCf : Cf Unit :=
  { sects := [{ name := [109],
                keys := [{ name := [102], setter := some Ty.file, getter := some Ty.str, ofs := 0 }] }],
    base := none, loaded := false }

/-- HOME of 1500 bytes, `~/` + 1500 bytes: 3001 bytes come back -/
example :
    (cfGet { exEnv with home := some (List.replicate 1500 72) } fnCf
      (cfSet { exEnv with home := some (List.replicate 1500 72) } fnCf exSt [109] [102]
        (126 :: 47 :: List.replicate 1500 120)).1 [109] [102]).map List.length = some 3001 := by
  decide +kernel

/-- **round trip, lookup**: every spelling (any letter case) of a listed name stores its value,
    and the getter renders the name as listed (names distinct ignoring case, values distinct) -/
theorem set_get_roundtrip_lookup (tbl : List (Bytes × Int))
    (hp : tbl.Pairwise (fun a b => strcaseEq a.1 b.1 = false ∧ a.2 ≠ b.2))
    (n : Bytes) (v : Int) (spelled : Bytes) (hm : (n, v) ∈ tbl) (hs : strcaseEq n spelled = true)
    (env : Env) :
    applySetter env (.lookup tbl) spelled = some (.int v) ∧
    applyGetter env (.lookup tbl) (some (.int v)) = some n := by
  have := lookup_roundtrip tbl hp n v spelled hm hs
  simp [applySetter, applyGetter, asInt, this]

example : applySetter exEnv (.lookup exLk) [84, 87, 79] = some (.int 2) ∧
    applyGetter exEnv (.lookup exLk) (some (.int 2)) = some [116, 119, 111] := by decide +kernel

/-- **round trip, time**: with `strtod`/`%g` as parameters — whenever the modelled libc reads the
    text `s` as the double that `%g` prints as `s`, `cf_set_time_double` then `cf_get_time_double`
    give `s` back; for `cf_set_time_usec` the stored count is `timeToUsec` of that double. -/
theorem set_get_roundtrip_time (env : Env) (s : Bytes) (d : Dbl) (hs : parseTime env s = some d) :
    applySetter env .timeDouble s = some (.dbl d) ∧
    applyGetter env .timeDouble (some (.dbl d)) = some (env.fmtG d) ∧
    applySetter env .timeUsec s = (timeToUsec d).map .usec := by
  simp [applySetter, applyGetter, asDbl, hs]

example : parseTime exEnv [50, 46, 53] = some (.fin false 5629499534213120 (-51)) := by decide +kernel

/-- **the repaired `cf_set_time_usec` is exact** (binary64, round-to-nearest-even, proved for
    every value, not sampled): for every `n < 2^40` microseconds (12.7 days), if `x` is the double
    nearest to `n/10^6` — what a correctly rounded `strtod` returns for ANY spelling of that
    value — then `(usec_t)(USEC * x + 0.5)` is exactly `n`. -/
theorem time_usec_exact (n : Nat) (hn : n < 2 ^ 40) :
    timeToUsec (dblOfRat false n 1000000) = some n := timeToUsec_exact n hn

/-- the same through the setter, for any libc model whose `strtod` is correctly rounded on `s` -/
theorem set_time_usec_exact (env : Env) (s : Bytes) (n : Nat) (hn : n < 2 ^ 40) (hs : s ≠ [])
    (hstrtod : env.strtod s = ⟨dblOfRat false n 1000000, s.length, false⟩) :
    applySetter env .timeUsec s = some (.usec n) := by
  have hlen : s.length ≠ 0 := fun h => hs (List.eq_nil_of_length_eq_zero h)
  have hlt : (dblOfRat false n 1000000).ltZero = false := by
    unfold dblOfRat
    cases roundRat n 1000000 <;> rfl
  have hp : parseTime env s = some (dblOfRat false n 1000000) := by
    unfold parseTime
    simp [hstrtod, hlen, hlt]
  simp [applySetter, hp, timeToUsec_exact n hn]

example : strtodC [48, 46, 48, 48, 48, 50, 52, 57] = ⟨dblOfRat false 249 1000000, 8, false⟩ := by
  decide +kernel

/-- **every plain decimal spelling is stored exactly** (concrete libc model `strtodC`, all
    values, not sampled): for every text `ip.fp` or `ip` (`ip`, `fp` strings of decimal digits of
    ANY length, `ip` not empty — "0.000249", "1.5", "0001.50", "86400") whose value is a whole
    number `n < 2^40` of microseconds, `cf_set_time_usec` accepts it and stores exactly `n`. -/
theorem set_time_usec_every_decimal_spelling (env : Env) (henv : env.strtod = strtodC) (ip fp : Bytes)
    (hip : ∀ c ∈ ip, isDigit c = true) (hne : ip ≠ []) (hfp : ∀ c ∈ fp, isDigit c = true)
    (n : Nat) (hn : n < 2 ^ 40) :
    (decVal (ip ++ fp) 0 * 1000000 = n * 10 ^ fp.length →
      applySetter env .timeUsec (ip ++ 46 :: fp) = some (.usec n)) ∧
    (decVal ip 0 * 1000000 = n → applySetter env .timeUsec ip = some (.usec n)) :=
  ⟨fun hv => set_time_usec_plain env henv ip fp (allDig_of_isDigit hip) hne (allDig_of_isDigit hfp) n hn hv,
   fun hv => set_time_usec_int env henv ip (allDig_of_isDigit hip) hne n hn hv⟩

example : applySetter exEnv .timeUsec [48, 46, 48, 48, 48, 50, 52, 57] = some (.usec 249) :=
  (set_time_usec_every_decimal_spelling exEnv rfl [48] [48, 48, 48, 50, 52, 57] (by decide) (by decide)
    (by decide) 249 (by decide)).1 (by decide)

/-- **binary64 rounding is correct**: for a positive rational in the normal range, `roundRat`
    (the only rounding primitive of the model: strtod, `USEC * v`, `+ 0.5`, `/ USEC`) returns a
    normalised double (`2^52 ≤ m`) within relative error 2⁻⁵³ of the argument. -/
theorem binary64_rounding_correct (n d : Nat) (hn : 0 < n) (hd : 0 < d)
    (hlo : (2 : ℚ) ^ (-1000 : Int) ≤ (n : ℚ) / d) (hhi : (n : ℚ) / d < 2 ^ (1000 : Int)) :
    ∃ r, roundRat n d = some r ∧ 2 ^ 52 ≤ r.m ∧
      |(r.m : ℚ) * 2 ^ r.e - (n : ℚ) / d| ≤ (n : ℚ) / d * 2 ^ (-53 : Int) :=
  roundRat_spec n d hn hd hlo hhi

example : roundRat 1 10 = some ⟨7205759403792794, -56, true⟩ := by decide +kernel

/-- `cf_set_time_double` on a plain decimal spelling stores the binary64 nearest to the value -/
theorem set_time_double_nearest (env : Env) (henv : env.strtod = strtodC) (ip fp : Bytes)
    (hip : ∀ c ∈ ip, isDigit c = true) (hne : ip ≠ []) (hfp : ∀ c ∈ fp, isDigit c = true)
    (hpos : 0 < decVal (ip ++ fp) 0) (hlo : 10 ^ fp.length ≤ decVal (ip ++ fp) 0 * 1048576)
    (hhi : decVal (ip ++ fp) 0 < 1125899906842624 * 10 ^ fp.length) :
    applySetter env .timeDouble (ip ++ 46 :: fp) =
      some (.dbl (dblOfRat false (decVal (ip ++ fp) 0) (10 ^ fp.length))) :=
  set_time_double_plain env henv ip fp (allDig_of_isDigit hip) hne (allDig_of_isDigit hfp) hpos hlo hhi

example : applySetter exEnv .timeDouble [50, 46, 53] = some (.dbl (dblOfRat false 25 10)) :=
  set_time_double_nearest exEnv rfl [50] [53] (by decide) (by decide) (by decide) (by decide) (by decide)
    (by decide)

/-- **the range limit of `cf_set_time_usec` is strict**: a text whose `USEC*v + 0.5` is exactly 2^64
    ("18446744073709.551", "1.8446744073709551e13") is rejected, "18446744073709.548" is accepted
    and stored (`v < 2^64`, not `v <= (double)UINT64_MAX`, which rounds up to 2^64) -/
theorem time_usec_range_limit_strict :
    applySetter exEnv .timeUsec [49, 56, 52, 52, 54, 55, 52, 52, 48, 55, 51, 55, 48, 57, 46, 53, 53, 49] = none ∧
    applySetter exEnv .timeUsec [49, 46, 56, 52, 52, 54, 55, 52, 52, 48, 55, 51, 55, 48, 57, 53, 53, 49, 101, 49, 51] = none ∧
    applySetter exEnv .timeUsec [49, 56, 52, 52, 54, 55, 52, 52, 48, 55, 51, 55, 48, 57, 46, 53, 52, 56] = some (.usec 18446744073709547520) := by
  decide +kernel

/-- **round trip, time (µs), concrete libc model, ALL values** (no sampling): under the concrete
    binary64 / `strtod` / `%g` model, for every `n` microseconds with at most six significant
    digits in `%g`'s fixed-notation range — `n/10^6 = D·10^(X-5)` with six digits
    `10^5 ≤ D < 10^6` and `-4 ≤ X ≤ 5`, i.e. every such value from 100 µs to 999999 s — the text
    `cf_get_time_usec` renders is accepted by `cf_set_time_usec` and stores `n` again.
    (Proof: both roundings of the getter keep the value within 2⁻⁴⁰ of `n/10^6`; the decimal
    exponent search and the half-even rounding to six digits recover `D` and `X`; the layout is a
    plain decimal spelling of `n/10^6`; the setter is exact on every such spelling.) -/
theorem set_get_roundtrip_time_usec (env : Env) (hs : env.strtod = strtodC) (hg : env.fmtG = fmtG)
    (n D : Nat) (X : Int) (hD1 : 100000 ≤ D) (hD2 : D < 1000000) (hX1 : -4 ≤ X) (hX2 : X ≤ 5)
    (hn : n * 100000 = D * 10 ^ (X + 6).toNat) :
    (applyGetter env .timeUsec (some (.usec n))).bind (applySetter env .timeUsec) = some (.usec n) :=
  time_usec_roundtrip env hs hg n D X hD1 hD2 hX1 hX2 hn

/-- 249 µs = 249000·10^(-4-5): the getter prints "0.000249", the setter reads 249 back -/
example : (applyGetter exEnv .timeUsec (some (.usec 249))).bind (applySetter exEnv .timeUsec) = some (.usec 249) :=
  set_get_roundtrip_time_usec exEnv rfl rfl 249 249000 (-4) (by decide) (by decide) (by decide) (by decide)
    (by decide)

/-- **time (double), set → get on every canonical spelling**: for every text `%g` produces in its
    fixed-notation range (six digits `D`, exponent `X ∈ [-4, 5]`: "0.0001", "2.5", "86400",
    "999999", …) `cf_set_time_double` stores the nearest binary64 and `cf_get_time_double`
    renders that double as the same text (concrete libc model, all values). -/
theorem set_get_roundtrip_time_double (env : Env) (hs : env.strtod = strtodC) (hg : env.fmtG = fmtG)
    (D : Nat) (X : Int) (hD1 : 100000 ≤ D) (hD2 : D < 1000000) (hX1 : -4 ≤ X) (hX2 : X ≤ 5) :
    ∃ d, applySetter env .timeDouble (layoutG D X) = some (.dbl d) ∧
      applyGetter env .timeDouble (some (.dbl d)) = some (layoutG D X) :=
  time_double_set_get env hs hg D X hD1 hD2 hX1 hX2

example : layoutG 250000 0 = [50, 46, 53] ∧ layoutG 864000 4 = [56, 54, 52, 48, 48] ∧
    layoutG 100000 (-4) = [48, 46, 48, 48, 48, 49] := by decide +kernel

/-- **the guard of the exact round trip is "at most six significant digits"**: the getters
    print with `%g` (six digits).  For ANY stored `n` from 1 s to 999999 s the getter's text, fed
    back, stores some `n'` for which the getter prints the same text and which is then
    reproduced exactly (get ∘ set ∘ get = get) … -/
theorem time_usec_get_set_get_stable (env : Env) (hs : env.strtod = strtodC) (hg : env.fmtG = fmtG)
    (n : Nat) (h1 : 1000000 ≤ n) (h2 : n ≤ 999999000000) :
    ∃ n' : Nat,
      (applyGetter env .timeUsec (some (.usec n))).bind (applySetter env .timeUsec) = some (.usec n') ∧
      applyGetter env .timeUsec (some (.usec n')) = applyGetter env .timeUsec (some (.usec n)) ∧
      (applyGetter env .timeUsec (some (.usec n'))).bind (applySetter env .timeUsec) = some (.usec n') :=
  time_usec_get_set_stable env hs hg n h1 h2

/-- … but `n' = n` only up to six digits: 1.234567 s is stored exactly, rendered "1.23457", and
    that text stores 1.23457 s (witness replayed on the code: corpus/C18/09-time-six-digits.ops).
    The property's clause is about the setter being exact on what the getter renders, which
    holds; the getter's precision is `%g`'s. -/
theorem time_usec_seven_digits_witness :
    applySetter exEnv .timeUsec [49, 46, 50, 51, 52, 53, 54, 55] = some (.usec 1234567) ∧
    applyGetter exEnv .timeUsec (some (.usec 1234567)) = some [49, 46, 50, 51, 52, 53, 55] ∧
    applySetter exEnv .timeUsec [49, 46, 50, 51, 52, 53, 55] = some (.usec 1234570) ∧
    applyGetter exEnv .timeUsec (some (.usec 1234570)) = some [49, 46, 50, 51, 52, 53, 55] := by
  decide +kernel

/-- **round trip, time, concrete libc model** (`strtodC`, `fmtG`, IEEE round-to-nearest-even):
    each of the listed microsecond counts (among them the ones the unrepaired code got wrong:
    248…251, 488…511, 977…1009) — and each listed millisecond count as a double — is rendered by
    the getter to a text that the setter reads back as the same value (get → set → get is
    stable).  Kernel-evaluated (0.15 s per value), hence a finite list. -/
theorem set_get_roundtrip_time_partial :
    (∀ u ∈ [0, 1, 2, 3, 5, 7, 9, 10, 11, 99, 100, 101, 248, 249, 250, 251, 488, 489, 493, 497, 498,
        502, 507, 511, 977, 978, 983, 986, 991, 996, 999, 1000, 1001, 1004, 1009, 1999, 100000,
        123456, 500000, 999999],
      (applyGetter exEnv .timeUsec (some (.usec u))).bind (applySetter exEnv .timeUsec) = some (.usec u)) ∧
    (∀ k ∈ [0, 1, 2, 5, 10, 100, 250, 290, 500, 1000, 1001, 1130, 1500, 2500, 4350, 33333, 123456,
        999999, 86400000],
      (applyGetter exEnv .timeDouble (some (.dbl (dblOfRat false k 1000)))).bind
        (applySetter exEnv .timeDouble) = some (.dbl (dblOfRat false k 1000))) := by
  decide +kernel
/- Proved for all values elsewhere in this file: microseconds with <= 6 significant digits from
   100 us to 999999 s (`set_get_roundtrip_time_usec`), more digits (`time_usec_get_set_get_stable`,
   witness `time_usec_seven_digits_witness`), doubles on canonical spellings
   (`set_get_roundtrip_time_double`).  What this finite list still adds: texts %g prints in
   exponent notation (below 1e-4 s, from 1e6 s), for which the strtod model's exponent parsing
   is not covered by a general theorem.  Former statement:
   theorem set_get_roundtrip_time_full : ∀ u < 10^6 * 2^31, (u has at most 6 significant decimal
     digits) → (applyGetter exEnv .timeUsec (some (.usec u))).bind (applySetter exEnv .timeUsec)
     = some (.usec u)   -- and the analogue for doubles with ≤ 6 significant digits -/

example : applyGetter exEnv .timeUsec (some (.usec 249)) = some [48, 46, 48, 48, 48, 50, 52, 57] := by
  decide +kernel

/-- **the defect repaired by F24.**  The unrepaired conversion `(usec_t)(USEC * v)` truncates:
    the text "0.000249" — which is what the getter prints for 249 µs — was stored as 248 µs and
    rendered back as "0.000248".  The repaired conversion stores 249. -/
theorem time_usec_truncation_counterexample :
    timeToUsecOld (strtodC [48, 46, 48, 48, 48, 50, 52, 57]).val = some 248 ∧
    applyGetter exEnv .timeUsec (some (.usec 248)) = some [48, 46, 48, 48, 48, 50, 52, 56] ∧
    timeToUsec (strtodC [48, 46, 48, 48, 48, 50, 52, 57]).val = some 249 := by
  decide +kernel

/-- **rejects empty input**: int, uint, time (whatever libc does) and lookup (no empty name) -/
theorem rejects_empty (env : Env) (tbl : List (Bytes × Int)) (ht : ∀ p ∈ tbl, p.1 ≠ []) :
    applySetter env .int [] = none ∧ applySetter env .uint [] = none ∧
    applySetter env .timeUsec [] = none ∧ applySetter env .timeDouble [] = none ∧
    applySetter env (.lookup tbl) [] = none := by
  have hpt : parseTime env [] = none := by
    unfold parseTime
    by_cases h0 : (env.strtod []).consumed = 0 <;> simp [h0]
  have hl : lookupSet tbl [] = none := by
    induction tbl with
    | nil => rfl
    | cons p t ih =>
      obtain ⟨n, v⟩ := p
      have hn : n ≠ [] := ht (n, v) (by simp)
      have : strcaseEq n [] = false := by
        cases n with
        | nil => exact absurd rfl hn
        | cons c t' => simp [strcaseEq]
      simp [lookupSet, this, ih (fun q hq => ht q (by simp [hq]))]
  simp [applySetter, setInt_empty, setUint_empty, hpt, hl]

example : applySetter exEnv (.lookup exLk) [] = none ∧ applySetter exEnv .timeUsec [] = none := by
  decide +kernel

/-- **rejects trailing garbage**: (a) whatever the int/uint/time setters accept was consumed by
    the libc scanner up to its last byte; (b) a canonical int/uint followed by anything that
    starts with a non-alphanumeric byte is rejected. -/
theorem rejects_trailing_garbage (env : Env) :
    (∀ s v, setInt s = some v → (strtoBase0 s).consumed = s.length) ∧
    (∀ s v, setUint s = some v → (strtoBase0 s).consumed = s.length) ∧
    (∀ s d, parseTime env s = some d → (env.strtod s).consumed = s.length) ∧
    (∀ (v : Int) c g, digitVal c = none → setInt (renderInt v ++ c :: g) = none) ∧
    (∀ (n : Nat) c g, digitVal c = none → setUint (renderNat n ++ c :: g) = none) := by
  refine ⟨fun s v h => (setInt_consumes_all h).1, fun s v h => (setUint_consumes_all h).1, ?_,
    fun v c g hc => setInt_garbage v c g hc, fun n c g hc => setUint_garbage n c g hc⟩
  intro s d h
  unfold parseTime at h
  by_cases he : (env.strtod s).erange = true
  · simp [he] at h
  · by_cases hc : (env.strtod s).consumed = s.length
    · exact hc
    · simp [he, hc] at h

example : setInt [53, 32] = none ∧ setInt [32, 53] = some 5 ∧ setInt [49, 50, 97] = none ∧
    applySetter exEnv .timeUsec [49, 46, 53, 115] = none := by decide +kernel

/-! ## flags, defaults, bases, failures -/

/-- **CF_READONLY**: `cf_set` on a read-only key succeeds and changes nothing -/
theorem readonly_ignored (env : Env) (cf : Cf δ) (st : Store δ) {sect key : Bytes} {s : Sect δ}
    {k : Key} {i : Nat} (hr : Reaches cf sect key s k i) (hro : k.readOnly = true) (val : Bytes) :
    cfSet env cf st sect key val = (st, true) := readonly_ignored' env cf st hr hro val

example : (cfSet exEnv (exCf false none) exSt [109, 97, 105, 110] [114, 111] [55]).2 = true ∧
    cfGet exEnv (exCf false none) (cfSet exEnv (exCf false none) exSt [109, 97, 105, 110] [114, 111]
      [55]).1 [109, 97, 105, 110] [114, 111] = some [48] := by decide +kernel

/-- **CF_NO_RELOAD**: once `CfContext.loaded` is set, `cf_set` on such a key succeeds and changes
    nothing; before that it stores like any other key (`set_get_roundtrip_*` with
    `k.noReload && cf.loaded = false`) -/
theorem no_reload_ignored_when_loaded (env : Env) (cf : Cf δ) (st : Store δ) {sect key : Bytes}
    {s : Sect δ} {k : Key} {i : Nat} (hr : Reaches cf sect key s k i) (hnr : k.noReload = true)
    (hl : cf.loaded = true) (val : Bytes) :
    cfSet env cf st sect key val = (st, true) := no_reload_ignored' env cf st hr hnr hl val

example :
    cfGet exEnv (exCf true none) (cfSet exEnv (exCf true none) exSt [109, 97, 105, 110] [110, 114]
      [55]).1 [109, 97, 105, 110] [110, 114] = some [48] ∧
    cfGet exEnv (exCf false none) (cfSet exEnv (exCf false none) exSt [109, 97, 105, 110] [110, 114]
      [55]).1 [109, 97, 105, 110] [110, 114] = some [55] := by decide +kernel

/-- **defaults at section start**: the handler's reaction to a `[section]` event of a static
    section is, right then, `cf_set(section, key, default)` for every key with a default in key
    order (`setDefaults`: skipping read-only keys and no-reload keys after load), before any
    later `key = value` of the file is seen; a failing default fails the load. -/
theorem defaults_applied_at_section_start (env : Env) (cf : Cf δ) (ld : Loader δ) (name : Bytes)
    {s : Sect δ} {i : Nat} (h : findSect cf name = some (i, s)) (hss : s.sectionStart = none)
    (hst : s.setKey = none) :
    loadHandler env cf ld (.sect name) =
      ({ store := (setDefaults env cf name s.keys ld.store).1, curSect := some name,
         gotMain := ld.gotMain || i == 0 },
       (setDefaults env cf name s.keys ld.store).2) ∧
    (∀ (k : Key) (t : List Key) (d : Bytes) (st : Store δ), k.dflt = some d → k.readOnly = false →
      (k.noReload && cf.loaded) = false →
      setDefaults env cf name (k :: t) st =
        if (cfSet env cf st name k.name d).2 then setDefaults env cf name t (cfSet env cf st name k.name d).1
        else ((cfSet env cf st name k.name d).1.note .fillDefaults, false)) := by
  refine ⟨loadHandler_sect env cf ld name h hss hst, ?_⟩
  intro k t d st hd hro hnr
  simp only [setDefaults, hd, hro, hnr, Bool.false_eq_true, if_false]

/-- "[main]\ni=9\n[main]\n": the second `[main]` puts the default 5 back -/
example :
    let fs : Bytes → Option Bytes := fun _ => some [91, 109, 97, 105, 110, 93, 10, 105, 61, 57, 10, 91,
      109, 97, 105, 110, 93, 10]
    let r := cfLoadFile exEnv (exCf false none) fs exSt [102]
    r.2 = true ∧ cfGet exEnv (exCf false none) r.1 [109, 97, 105, 110] [105] = some [53] := by
  decide +kernel

/-- **relative keys**: the destination of a relative key is its offset in the object that is the
    section's base — `cf->base`, or what `base_lookup(cf->base, section)` returns; with a NULL
    base `cf_set` fails and `cf_get` is NULL; an absolute key ignores the base. -/
theorem relative_key_base (cf : Cf δ) (s : Sect δ) (sect : Bytes) (k : Key) :
    sectBase cf s sect = (match s.baseLookup with | none => cf.base | some f => f cf.base sect) ∧
    getDest (sectBase cf s sect) k =
      (if k.rel then (sectBase cf s sect).map (fun b => Loc.rel b k.ofs) else some (Loc.abs k.ofs)) ∧
    (∀ env st i key ty val, Reaches cf sect key s k i → k.setter = some ty → k.readOnly = false →
      (k.noReload && cf.loaded) = false → k.rel = true → sectBase cf s sect = none →
      cfSet env cf st sect key val = (st.note .noBase, false)) := by
  refine ⟨by unfold sectBase; cases s.baseLookup <;> rfl, rfl, ?_⟩
  intro env st i key ty val hr hty hro hnr hrel hb
  exact no_base env cf st hr hty hro hnr hrel hb val

example :
    (cfSet exEnv (exCf false none) exSt [109, 97, 105, 110] [114] [55]).2 = false ∧
    (cfSet exEnv (exCf false (some 3)) exSt [109, 97, 105, 110] [114] [55]).1.read (.rel 3 4)
      = some (.uint 7) := by decide +kernel

/-- **CF_NO_RELOAD across a second load**: with `loaded` set, loading ANY file — section defaults,
    explicit `key = value` lines, includes, success or failure — leaves every variable
    untouched that is reachable only through CF_NO_RELOAD / CF_READONLY / setter-less keys. -/
theorem no_reload_survives_second_load (env : Env) (cf : Cf δ) (hl : cf.loaded = true) (loc : Loc)
    (hf : FrozenAt cf loc) (fs : Bytes → Option Bytes) (st : Store δ) (name : Bytes) :
    (cfLoadFile env cf fs st name).1.read loc = st.read loc :=
  reload_keeps_no_reload env cf hl loc hf fs st name

/-- first load "[main]\nnr=8\n" stores 8; second load (loaded) of "[main]\nnr=9\ni=1\n" keeps 8 and sets i -/
example :
    let f1 : Bytes → Option Bytes := fun _ => some [91, 109, 97, 105, 110, 93, 10, 110, 114, 61, 56, 10]
    let f2 : Bytes → Option Bytes := fun _ => some [91, 109, 97, 105, 110, 93, 10, 110, 114, 61, 57, 10, 105, 61, 49, 10]
    let st1 := (cfLoadFile exEnv (exCf false none) f1 exSt [102]).1
    let r2 := cfLoadFile exEnv (exCf true none) f2 st1 [102]
    r2.2 = true ∧ cfGet exEnv (exCf true none) r2.1 [109, 97, 105, 110] [110, 114] = some [56] ∧
    cfGet exEnv (exCf true none) r2.1 [109, 97, 105, 110] [105] = some [49] := by decide +kernel

/-- **whole file, any schema**: loading the file `[sect]\nkey=val\n` is: the section event
    (section_start, defaults), then `cf_set(sect, key, val)`, then the main-section test. -/
theorem load_section_file (env : Env) (cf : Cf δ) (fs : Bytes → Option Bytes) (st : Store δ)
    (name sect key val : Bytes)
    (hfs : fs name = some (91 :: sect ++ [93, 10] ++ key ++ 61 :: val ++ [10]))
    (hs : ∀ c ∈ sect, c ≠ 93 ∧ c ≠ 10 ∧ c ≠ 0) (hk : ∀ c ∈ key, isKeyCh c = true) (hv : PlainVal val) :
    cfLoadFile env cf fs st name =
      match loadHandler env cf { store := st } (.sect sect) with
      | (ld1, false) => (ld1.store.note (.parse .badSect), false)
      | (ld1, true) =>
        match cfSet env cf ld1.store sect key val with
        | (st2, false) => (st2.note (.parse .badVal), false)
        | (st2, true) => if ld1.gotMain then (st2, true) else (st2.note .mainMissing, false) :=
  cfLoadFile_two_lines env cf fs st name sect key val hfs hs hk hv

/-- **whole file, relative section**: if `[sect]` is the main section, static, without defaults,
    and `key` is a relative key of it, loading `[sect]\nkey=val\n` stores the parsed value at
    offset `k.ofs` of exactly the object `base_lookup(cf->base, sect)` returns (or `cf->base`). -/
theorem relative_key_base_whole_file (env : Env) (cf : Cf δ) (fs : Bytes → Option Bytes) (st : Store δ)
    (name sect key val : Bytes) {s : Sect δ} {k : Key} {ty : Ty} {b : Nat} {v : Val}
    (hfs : fs name = some (91 :: sect ++ [93, 10] ++ key ++ 61 :: val ++ [10]))
    (hs : ∀ c ∈ sect, c ≠ 93 ∧ c ≠ 10 ∧ c ≠ 0) (hk : ∀ c ∈ key, isKeyCh c = true) (hv : PlainVal val)
    (hr : Reaches cf sect key s k 0) (hss : s.sectionStart = none) (hnd : ∀ k' ∈ s.keys, k'.dflt = none)
    (hty : k.setter = some ty) (hro : k.readOnly = false) (hnr : (k.noReload && cf.loaded) = false)
    (hrel : k.rel = true) (hb : sectBase cf s sect = some b) (hval : applySetter env ty val = some v) :
    cfLoadFile env cf fs st name = (st.write (Loc.rel b k.ofs) v, true) := by
  rw [cfLoadFile_two_lines env cf fs st name sect key val hfs hs hk hv,
    loadHandler_sect env cf _ sect hr.sect hss hr.static, setDefaults_nodflt env cf sect s.keys st hnd]
  have hd : getDest (sectBase cf s sect) k = some (Loc.rel b k.ofs) := by simp [getDest, hrel, hb]
  simp only []
  rw [cfSet_stores env cf st hr hty hro hnr hd val, hval]
  simp

/-- **whole file, dynamic section**: if `[sect]` is the main section with `set_key` (no
    section_start), loading `[sect]\nkey=val\n` is one call `set_key(base, key, val)` with the
    section's base, and the load succeeds iff that call does. -/
theorem dynamic_section_whole_file (env : Env) (cf : Cf δ) (fs : Bytes → Option Bytes) (st : Store δ)
    (name sect key val : Bytes) {s : Sect δ} {f : δ → Option Nat → Bytes → Bytes → δ × Bool}
    (hfs : fs name = some (91 :: sect ++ [93, 10] ++ key ++ 61 :: val ++ [10]))
    (hs : ∀ c ∈ sect, c ≠ 93 ∧ c ≠ 10 ∧ c ≠ 0) (hk : ∀ c ∈ key, isKeyCh c = true) (hv : PlainVal val)
    (hsect : findSect cf sect = some (0, s)) (hss : s.sectionStart = none) (hdyn : s.setKey = some f) :
    cfLoadFile env cf fs st name =
      match f st.user (sectBase cf s sect) key val with
      | (u, true) => ({ st with user := u }, true)
      | (u, false) => (({ st with user := u } : Store δ).note (.parse .badVal), false) := by
  rw [cfLoadFile_two_lines env cf fs st name sect key val hfs hs hk hv]
  have h1 : loadHandler env cf { store := st } (.sect sect) =
      ({ store := st, curSect := some sect, gotMain := true }, true) := by
    unfold loadHandler fillDefaults finishDefaults
    simp [hsect, hss, hdyn]
  rw [h1]
  simp only []
  have h2 : cfSet env cf st sect key val =
      ({ st with user := (f st.user (sectBase cf s sect) key val).1 }, (f st.user (sectBase cf s sect) key val).2) := by
    unfold cfSet
    simp [hsect, hdyn]
  rw [h2]
  rcases f st.user (sectBase cf s sect) key val with ⟨u, _ | _⟩ <;> simp

/-- **main section missing**: if no file that can be reached names the first section of the
    schema, `cf_load_file` returns false -/
theorem missing_main_section_fails (env : Env) (cf : Cf δ) (fs : Bytes → Option Bytes) (st : Store δ)
    (name : Bytes) (hfs : NoMainFs cf fs) : (cfLoadFile env cf fs st name).2 = false :=
  load_without_main_fails env cf fs st name hfs

/-- "[two]\ns=x\n" parses and sets, but there is no `[main]` -/
example :
    let fs : Bytes → Option Bytes := fun _ => some [91, 116, 119, 111, 93, 10, 115, 61, 120, 10]
    let r := cfLoadFile exEnv (exCf false none) fs exSt [102]
    r.2 = false ∧ r.1.log = some .mainMissing := by decide +kernel

/-- **unknown key or section**: `cf_set` fails and `cf_get` is NULL for a section that is not in
    the schema and for a key that is not in a static section; the load handler refuses a
    `[section]` that is not in the schema, a key/value before any section, and whatever `cf_set`
    refuses — and a refused event ends `parse_ini_file` with an error. -/
theorem unknown_key_or_section_fails (env : Env) (cf : Cf δ) (st : Store δ) (sect key val : Bytes) :
    (findSect cf sect = none →
      (cfSet env cf st sect key val).2 = false ∧ cfGet env cf st sect key = none) ∧
    (∀ i s, findSect cf sect = some (i, s) → s.setKey = none → findKey s.keys key = none →
      (cfSet env cf st sect key val).2 = false ∧ cfGet env cf st sect key = none) ∧
    (∀ ld : Loader δ, findSect cf sect = none → (loadHandler env cf ld (.sect sect)).2 = false) ∧
    (∀ ld : Loader δ, ld.curSect = none → (loadHandler env cf ld (.kv key val)).2 = false) ∧
    (∀ ld : Loader δ, ld.curSect = some sect →
      (loadHandler env cf ld (.kv key val)).2 = (cfSet env cf ld.store sect key val).2) ∧
    (∀ (incl : Bytes → σ → σ × Option Err) (h : σ → Event → σ × Bool) level rest (s0 : σ),
      (h s0 (.kv key val)).2 = false →
      (runItems incl h level (.kv key val :: rest) s0).2.1 = some .badVal) := by
  refine ⟨fun h => ?_, fun i s h hst hk => ?_, fun ld h => loadHandler_unknown_sect env cf ld sect h,
    fun ld h => ?_, fun ld h => ?_, ?_⟩
  · have := unknown_sect env cf st h key val
    rw [this.1]; exact ⟨rfl, this.2⟩
  · have := unknown_key env cf st h hst hk val
    rw [this.1]; exact ⟨rfl, this.2⟩
  · rw [loadHandler_kv, h]
  · rw [loadHandler_kv, h]
  · intro incl h level rest s0 hh
    simp only [runItems]
    rcases hx : h s0 (Event.kv key val) with ⟨s1, _ | _⟩
    · rfl
    · rw [hx] at hh; cases hh

/-- "[main]\nzz=1\n" and "[nosuch]\n" do not load -/
example :
    (cfLoadFile exEnv (exCf false none) (fun _ => some [91, 109, 97, 105, 110, 93, 10, 122, 122, 61, 49, 10])
      exSt [102]).2 = false ∧
    (cfLoadFile exEnv (exCf false none) (fun _ => some [91, 110, 111, 115, 117, 99, 104, 93, 10])
      exSt [102]).1.log = some .fillDefaults := by decide +kernel

end UsualProps.C18
