/-! Property theorems for C18 (stub: not built yet). -/
