/-! Property theorems for C05 (stub: not built yet). -/
