import UsualProofs.C05.MD
import UsualProofs.C05.Hmac
import UsualProofs.C05.Sponge
import UsualProofs.C05.Sha3
import UsualProofs.C05.ChaCha
import UsualProofs.C05.KeccakPaths
import UsualProofs.C05.Prng
import Usual.C05.Digests
/-! Property theorems for C05 — cryptographic primitives equal their standards for every
    input and every chunking.

    The streaming code of usual/crypto is modelled in `Usual.C05.*` (the functions the
    correspondence driver runs); the standards are the one-shot definitions `MD.mdSpec`
    (RFC 1321 / FIPS 180-4: pad, cut into blocks, fold the compression function),
    `Keccak.sponge` (FIPS 202), `Hmac.hmacSpec` (RFC 2104) and `ChaCha.streamBytes`.
    All theorems are generic in the compression function / permutation / block function, so
    each covers every digest of its family at once.

    NOT carried by theorems (see evidence `partial`):
    * that `md5Compress`, `sha1Compress`, `sha256Compress`, `sha512Compress`, `Keccak.fBytes`,
      `ChaCha.block` are the functions printed in the standards — transcription, pinned by the
      standards' vectors (UsualProofs/C05/Vectors.lean) and the hashlib cross-check;
    The three C code paths of keccak_f ARE covered (`keccak_paths_equal`): the two unrolled bodies are
    translated statement by statement from keccak.c on every run (Usual/Gen/C05Keccak.lean). -/
namespace UsualProps.C05
open Usual.C05

/-! ### MD5, SHA-1, SHA-224/256, SHA-384/512 -/

/-- Feeding a message to `*_update` in ANY partition into chunks and calling `*_final` yields the
    digest the standard defines for the whole message.  Generic in the digest (block size,
    length-field size and endianness, initial value, compression function); the message must be
    shorter than 2^61 bytes (the code keeps a 64-bit bit count, as the standards do for
    MD5/SHA-1/SHA-256). -/
theorem md_chunking {σ : Type} (A : MD.Alg σ) (hL : 8 ≤ A.lenBytes) (hLB : A.lenBytes < A.B)
    (chunks : List (List UInt8)) (hlen : 8 * chunks.flatten.length < 2 ^ 64) :
    MD.final A (chunks.foldl (MD.update A) (MD.reset A)) = MD.mdSpec A chunks.flatten :=
  MD.final_foldl_update A hL hLB chunks hlen

example : MD.final MD.sha256 ([[1, 2], [], [3]].foldl (MD.update MD.sha256) (MD.reset MD.sha256))
    = MD.mdSpec MD.sha256 [1, 2, 3] :=
  md_chunking MD.sha256 (by decide) (by decide) [[1, 2], [], [3]] (by decide)

/-- the six digests of the library satisfy the side conditions of `md_chunking` -/
theorem md_instances :
    (8 ≤ MD.md5.lenBytes ∧ MD.md5.lenBytes < MD.md5.B) ∧ (8 ≤ MD.sha1.lenBytes ∧ MD.sha1.lenBytes < MD.sha1.B) ∧
    (8 ≤ MD.sha224.lenBytes ∧ MD.sha224.lenBytes < MD.sha224.B) ∧
    (8 ≤ MD.sha256.lenBytes ∧ MD.sha256.lenBytes < MD.sha256.B) ∧
    (8 ≤ MD.sha384.lenBytes ∧ MD.sha384.lenBytes < MD.sha384.B) ∧
    (8 ≤ MD.sha512.lenBytes ∧ MD.sha512.lenBytes < MD.sha512.B) := by decide

example : MD.md5.B = 64 ∧ MD.sha512.B = 128 ∧ MD.sha512.lenBytes = 16 := by decide

/-- A context that is reset behaves as a fresh one, whatever it held before (including a
    finalised or half-filled one): any chunking after the reset gives the standard's digest. -/
theorem md_reset_fresh {σ : Type} (A : MD.Alg σ) (hL : 8 ≤ A.lenBytes) (hLB : A.lenBytes < A.B)
    (old : MD.Ctx σ) (chunks : List (List UInt8)) (hlen : 8 * chunks.flatten.length < 2 ^ 64) :
    MD.final A (chunks.foldl (MD.update A) (MD.resetCtx A old)) = MD.mdSpec A chunks.flatten :=
  MD.final_foldl_update A hL hLB chunks hlen

example : MD.final MD.md5 ([[7], [8, 9]].foldl (MD.update MD.md5)
      (MD.resetCtx MD.md5 (MD.update MD.md5 (MD.reset MD.md5) [1, 2, 3])))
    = MD.mdSpec MD.md5 [7, 8, 9] :=
  md_reset_fresh MD.md5 (by decide) (by decide) _ [[7], [8, 9]] (by decide)

/-- The padding rule of the C code (`pad_len = B - L - pos; if (pad_len <= 0) pad_len += B`)
    produces exactly the standard's padding: 0x80, then the least number `k` of zero bytes with
    `len + 1 + k + L ≡ 0 (mod B)`. -/
theorem md_padding_rule {σ : Type} (A : MD.Alg σ) (hL : 0 < A.lenBytes) (hLB : A.lenBytes < A.B) (len : Nat) :
    MD.padLen A (len % A.B) = MD.padZeros A len + 1 ∧
    (len + 1 + MD.padZeros A len + A.lenBytes) % A.B = 0 ∧ MD.padZeros A len < A.B :=
  ⟨MD.padLen_eq A hL hLB len, MD.padZeros_spec A (by omega) len⟩

example : MD.padLen MD.sha256 (55 % 64) = 1 ∧ MD.padLen MD.sha256 (56 % 64) = 64 ∧ MD.padLen MD.sha512 (112 % 128) = 128 := by
  decide

/-! ### HMAC -/

/-- HMAC over ANY digest whose streaming interface computes a function `H` of the concatenated
    input, for ANY key length (keys longer than a block are hashed first) and ANY chunking of the
    message: `hmac_new; hmac_update*; hmac_final` = RFC 2104. -/
theorem hmac_chunking {δ : Type} (D : Hmac.Digest δ) (H : Hmac.Bytes → Hmac.Bytes) (bound : Nat)
    (hD : Hmac.Lawful D H bound) (key : Hmac.Bytes) (chunks : List Hmac.Bytes) (hk : key.length < bound)
    (hm : D.blockLen + chunks.flatten.length < bound) (hr : ∀ m, D.blockLen + (H m).length < bound) :
    Hmac.final D (chunks.foldl (Hmac.update D) (Hmac.new D key)) = Hmac.hmacSpec H D.blockLen key chunks.flatten :=
  Hmac.final_foldl D H bound hD key chunks hk hm hr

/-- the MD-family `DigestInfo`s are lawful: instance of `hmac_chunking` for MD5 … SHA-512 -/
theorem hmac_md_chunking {σ : Type} (A : MD.Alg σ) (rlen : Nat) (hL : 8 ≤ A.lenBytes) (hLB : A.lenBytes < A.B)
    (hout : ∀ s, A.B + (A.out s).length < 2 ^ 61)
    (key : List UInt8) (chunks : List (List UInt8)) (hk : key.length < 2 ^ 61)
    (hm : A.B + chunks.flatten.length < 2 ^ 61) :
    Hmac.final (mdDigest A rlen) (chunks.foldl (Hmac.update (mdDigest A rlen)) (Hmac.new (mdDigest A rlen) key))
      = Hmac.hmacSpec (MD.mdSpec A) A.B key chunks.flatten := by
  apply hmac_chunking (mdDigest A rlen) (MD.mdSpec A) (2 ^ 61) _ key chunks hk hm
  · intro m; exact hout _
  · intro cs hcs
    exact md_chunking A hL hLB cs (by omega)

example (key msg1 msg2 : List UInt8) (hk : key.length < 1000) (h1 : msg1.length < 1000) (h2 : msg2.length < 1000) :
    Hmac.final (mdDigest MD.sha256 32)
        ([msg1, msg2].foldl (Hmac.update (mdDigest MD.sha256 32)) (Hmac.new (mdDigest MD.sha256 32) key))
      = Hmac.hmacSpec (MD.mdSpec MD.sha256) MD.sha256.B key (msg1 ++ msg2) := by
  have := hmac_md_chunking MD.sha256 32 (by decide) (by decide)
    (by intro s; show 64 + (List.take 32 _).length < 2 ^ 61; rw [List.length_take]; omega)
    key [msg1, msg2] (by omega) (by show 64 + _ < _; simp; omega)
  simpa using this

/-- `hmac_reset` returns any used context to the state `hmac_new` produced -/
theorem hmac_reset_fresh {δ : Type} (D : Hmac.Digest δ) (key : Hmac.Bytes) (chunks : List Hmac.Bytes) :
    Hmac.reset D (chunks.foldl (Hmac.update D) (Hmac.new D key)) = Hmac.new D key :=
  Hmac.reset_foldl D key chunks

example : Hmac.reset (mdDigest MD.sha1 20) ([[1], [2, 3]].foldl (Hmac.update (mdDigest MD.sha1 20))
    (Hmac.new (mdDigest MD.sha1 20) [9, 9])) = Hmac.new (mdDigest MD.sha1 20) [9, 9] :=
  hmac_reset_fresh _ _ _

/-! ### Keccak sponge (generic in the permutation `f`) -/

/-- `add_bytes` (partial lane / whole lanes / partial lane) and `extract_bytes` (same three phases)
    are plain byte-window operations on the state, for every offset and length. -/
theorem sponge_window_ops (st p : Keccak.Bytes) (ofs count : Nat) :
    Keccak.addBytes st p ofs = Keccak.xorAt st ofs p ∧
    Keccak.extractBytes st ofs count = (st.drop ofs).take count :=
  ⟨Keccak.addBytes_eq st p ofs, Keccak.extractBytes_eq st ofs count⟩

example : Keccak.addBytes (List.replicate 200 0) [1, 2, 3, 4, 5, 6, 7, 8, 9, 10, 11] 5
    = Keccak.xorAt (List.replicate 200 0) 5 [1, 2, 3, 4, 5, 6, 7, 8, 9, 10, 11] :=
  (sponge_window_ops _ _ 5 0).1

/-- `keccak_absorb` over any partition of the data = one call on the concatenation -/
theorem sponge_absorb_chunking (f : Keccak.Bytes → Keccak.Bytes) (c : Keccak.Ctx) (h : c.pos < c.rbytes)
    (chunks : List Keccak.Bytes) :
    chunks.foldl (Keccak.absorb f) c = Keccak.absorb f c chunks.flatten :=
  Keccak.foldl_absorb f chunks c h

example (f : Keccak.Bytes → Keccak.Bytes) :
    [[1, 2], [3]].foldl (Keccak.absorb f) { st := List.replicate 200 0, pos := 5, rbytes := 136 }
      = Keccak.absorb f { st := List.replicate 200 0, pos := 5, rbytes := 136 } [1, 2, 3] :=
  sponge_absorb_chunking f _ (by decide) [[1, 2], [3]]

/-- `keccak_squeeze` of `n₁`, `n₂`, … bytes in turn = one squeeze of `n₁ + n₂ + …` bytes
    (same bytes, same final context) -/
theorem sponge_squeeze_chunking (f : Keccak.Bytes → Keccak.Bytes) (c : Keccak.Ctx) (h : c.pos < c.rbytes)
    (ns : List Nat) :
    Keccak.squeezeMany f c ns = Keccak.squeeze f c ns.sum :=
  Keccak.squeezeMany_eq f ns c h

example (f : Keccak.Bytes → Keccak.Bytes) :
    Keccak.squeezeMany f { st := List.replicate 200 7, pos := 0, rbytes := 72 } [10, 100, 1]
      = Keccak.squeeze f { st := List.replicate 200 7, pos := 0, rbytes := 72 } 111 :=
  sponge_squeeze_chunking f _ (by decide) [10, 100, 1]

/-- `keccak_encrypt`, `keccak_decrypt`, `keccak_squeeze_xor` are insensitive to the partition -/
theorem sponge_duplex_chunking (f : Keccak.Bytes → Keccak.Bytes) (c : Keccak.Ctx) (h : c.pos < c.rbytes)
    (chunks : List Keccak.Bytes) :
    Keccak.runMany (Keccak.encrypt f) c chunks = Keccak.encrypt f c chunks.flatten ∧
    Keccak.runMany (Keccak.decrypt f) c chunks = Keccak.decrypt f c chunks.flatten ∧
    Keccak.runMany (Keccak.squeezeXor f) c chunks = Keccak.squeezeXor f c chunks.flatten :=
  ⟨Keccak.runMany_encrypt f c chunks h, Keccak.runMany_decrypt f c chunks h, Keccak.runMany_squeezeXor f c chunks h⟩

example (f : Keccak.Bytes → Keccak.Bytes) :
    Keccak.runMany (Keccak.encrypt f) { st := List.replicate 200 0, pos := 3, rbytes := 8 } [[1], [2, 3, 4, 5, 6, 7]]
      = Keccak.encrypt f { st := List.replicate 200 0, pos := 3, rbytes := 8 } [1, 2, 3, 4, 5, 6, 7] :=
  (sponge_duplex_chunking f _ (by decide) _).1

/-- `keccak_decrypt` inverts `keccak_encrypt`: starting from equal contexts, decrypting the
    ciphertext — in ANY partition `cs`, independent of the partition `ms` used for encryption —
    returns the plaintext and leaves the same context. -/
theorem decrypt_encrypt (f : Keccak.Bytes → Keccak.Bytes) (hf : ∀ s : Keccak.Bytes, s.length = 200 → (f s).length = 200)
    (c : Keccak.Ctx) (hpos : c.pos < c.rbytes) (hst : c.st.length = 200) (hr : c.rbytes ≤ 200)
    (ms cs : List Keccak.Bytes) (hcs : cs.flatten = (Keccak.runMany (Keccak.encrypt f) c ms).1) :
    Keccak.runMany (Keccak.decrypt f) c cs = (ms.flatten, (Keccak.runMany (Keccak.encrypt f) c ms).2) := by
  rw [Keccak.runMany_decrypt f c cs hpos, hcs, Keccak.runMany_encrypt f c ms hpos,
      Keccak.decrypt_eq f c _ hpos, Keccak.encrypt_eq f c _ hpos]
  exact Keccak.steps_dec_enc f hf ms.flatten c hpos ⟨hst, hr⟩

example : Keccak.runMany (Keccak.decrypt id) { st := List.replicate 200 1, pos := 2, rbytes := 4 }
      [(Keccak.runMany (Keccak.encrypt id) { st := List.replicate 200 1, pos := 2, rbytes := 4 } [[5, 6], [7]]).1]
    = ([5, 6, 7], (Keccak.runMany (Keccak.encrypt id) { st := List.replicate 200 1, pos := 2, rbytes := 4 } [[5, 6], [7]]).2) :=
  decrypt_encrypt id (fun _ h => h) _ (by decide) (List.length_replicate ..) (by decide) [[5, 6], [7]] _
    (by rw [List.flatten_cons, List.flatten_nil, List.append_nil])

/-- SHA3-224/256/384/512 and SHAKE128/256 through `sha3_*_reset; sha3_update*; sha3_final`
    = `SPONGE[f, pad10*1, r](M ‖ suffix, d)` of FIPS 202, for any chunking of the message; stated
    for every capacity `keccak_init` accepts and every pad byte. -/
theorem sha3_eq_spec (f : Keccak.Bytes → Keccak.Bytes) (cap ob : Nat) (dom : UInt8)
    (h8 : cap % 8 = 0) (hlo : 8 ≤ cap) (hhi : cap ≤ 1592) (chunks : List Keccak.Bytes) :
    (Sha3.final f (chunks.foldl (Sha3.update f) (Sha3.reset (cap, ob, dom)))).1
      = Keccak.sponge f ((1600 - cap) / 8) dom chunks.flatten ob :=
  Sha3.final_eq_sponge f cap ob dom h8 hlo hhi chunks

example (f : Keccak.Bytes → Keccak.Bytes) (a b : Keccak.Bytes) :
    (Sha3.final f ([a, b].foldl (Sha3.update f) (Sha3.reset Usual.Gen.C05.sha3_256Params))).1
      = Keccak.sponge f 136 0x06 (a ++ b) 32 := by
  have := sha3_eq_spec f 512 32 0x06 (by decide) (by decide) (by decide) [a, b]
  simpa [Usual.Gen.C05.sha3_256Params, Usual.Gen.C05.padSha3] using this

/-- the six parameter sets found in sha3.h / sha3.c are accepted by `keccak_init` -/
theorem sha3_instances :
    ∀ p ∈ [Usual.Gen.C05.sha3_224Params, Usual.Gen.C05.sha3_256Params, Usual.Gen.C05.sha3_384Params,
           Usual.Gen.C05.sha3_512Params, Usual.Gen.C05.shake128Params, Usual.Gen.C05.shake256Params],
      p.1 % 8 = 0 ∧ 8 ≤ p.1 ∧ p.1 ≤ 1592 := by decide

example : Usual.Gen.C05.shake128Params = (256, 32, 0x1f) := by decide

/-- SHAKE (and any of the six) at ANY output length and ANY sequence of `shake_extract` calls:
    the concatenated output is the sponge output of the total length. -/
theorem shake_any_length (f : Keccak.Bytes → Keccak.Bytes) (cap ob : Nat) (dom : UInt8)
    (h8 : cap % 8 = 0) (hlo : 8 ≤ cap) (hhi : cap ≤ 1592) (chunks : List Keccak.Bytes) (ns : List Nat) :
    (Sha3.extractMany f (chunks.foldl (Sha3.update f) (Sha3.reset (cap, ob, dom))) ns).1
      = Keccak.sponge f ((1600 - cap) / 8) dom chunks.flatten ns.sum :=
  Sha3.extractMany_eq_sponge f cap ob dom h8 hlo hhi chunks ns

example (f : Keccak.Bytes → Keccak.Bytes) (m : Keccak.Bytes) :
    (Sha3.extractMany f ([m].foldl (Sha3.update f) (Sha3.reset Usual.Gen.C05.shake128Params)) [3, 500, 0, 9]).1
      = Keccak.sponge f 168 0x1f m 512 := by
  have := shake_any_length f 256 32 0x1f (by decide) (by decide) (by decide) [m] [3, 500, 0, 9]
  simpa [Usual.Gen.C05.shake128Params, Usual.Gen.C05.padShake] using this

/-- HMAC over the SHA-3 `DigestInfo`s: instance of `hmac_chunking` -/
theorem hmac_sha3_chunking (f : Keccak.Bytes → Keccak.Bytes) (cap ob : Nat) (dom : UInt8)
    (h8 : cap % 8 = 0) (hlo : 8 ≤ cap) (hhi : cap ≤ 1592) (key : List UInt8) (chunks : List (List UInt8)) :
    Hmac.final (sha3Digest f (cap, ob, dom))
        (chunks.foldl (Hmac.update (sha3Digest f (cap, ob, dom))) (Hmac.new (sha3Digest f (cap, ob, dom)) key))
      = Hmac.hmacSpec (fun m => Keccak.sponge f ((1600 - cap) / 8) dom m ob) ((1600 - cap) / 8) key chunks.flatten := by
  have e : (sha3Digest f (cap, ob, dom)).blockLen = (1600 - cap) / 8 := rfl
  have h := hmac_chunking (sha3Digest f (cap, ob, dom))
    (fun m => Keccak.sponge f ((1600 - cap) / 8) dom m ob)
    (key.length + (1600 - cap) / 8 + chunks.flatten.length + ob + 1)
    (fun cs _ => sha3_eq_spec f cap ob dom h8 hlo hhi cs) key chunks (by omega) (by rw [e]; omega)
    (by
      intro m
      have := Keccak.sponge_length_le f ((1600 - cap) / 8) dom m ob
      rw [e]; omega)
  rw [e] at h
  exact h

example (f : Keccak.Bytes → Keccak.Bytes) (key a b : List UInt8) :
    Hmac.final (sha3Digest f (512, 32, 0x06))
        ([a, b].foldl (Hmac.update (sha3Digest f (512, 32, 0x06))) (Hmac.new (sha3Digest f (512, 32, 0x06)) key))
      = Hmac.hmacSpec (fun m => Keccak.sponge f 136 0x06 m 32) 136 key (a ++ b) := by
  have := hmac_sha3_chunking f 512 32 0x06 (by decide) (by decide) (by decide) key [a, b]
  simpa using this

/-! ### the three code paths of keccak_f -/

/-- The three Keccak code paths compute the same permutation, Keccak-f[1600] as FIPS 202 §3.2-3.3
    defines it (`Keccak.specF`: θ ρ π χ ι on lanes `A[x,y]`, 24 rounds, round constants from the table
    that is itself checked against the LFSR definition), for EVERY state:
    * `Keccak.f64` — the default build: the loop over the four-round unrolled in-place body, each round
      translated statement by statement from keccak.c (`Usual.Gen.C05.f64Round0..3`);
    * `Keccak.keccakF` — the KECCAK_SMALL build: the compact loops over the `RhoRot`/`PiLane` tables
      (this is the function the sponge model and the correspondence driver run);
    * `Keccak.f32` — the KECCAK_32BIT build: unrolled in-place rounds on bit-interleaved 32-bit words
      (`Usual.Gen.C05.f32Round0..3`, constants `RoundConstants32`), seen through the lane access the
      build uses: `xor_lane` interleaves (`interleave32`), `extract` de-interleaves.
    The per-round equalities are closed by the kernel alone; `bv_decide` (UsualProofs/Bridge/C05.lean) is
    used only for the bit-level facts about the interleaving network. -/
theorem keccak_paths_equal (s : Keccak.L25 UInt64) :
    Keccak.f64 s = Keccak.specF s ∧
    Keccak.keccakF s.toArray = (Keccak.specF s).toArray ∧
    Keccak.f32 (Keccak.interleaveAll s) = Keccak.interleaveAll (Keccak.specF s) ∧
    Keccak.deinterleaveAll (Keccak.f32 (Keccak.interleaveAll s)) = Keccak.specF s :=
  ⟨Keccak.f64_eq_specF s, Keccak.keccakF_eq_specF s, Keccak.f32_eq_specF s,
   by rw [Keccak.f32_eq_specF, Keccak.deinterleaveAll_interleaveAll]⟩

/-- the part of `keccak_paths_equal` about the two 64-bit builds, restated on its own because its proof
    needs no `bv_decide` axiom at all (kernel only) -/
theorem keccak_paths_equal_64 (s : Keccak.L25 UInt64) :
    Keccak.f64 s = Keccak.specF s ∧ Keccak.keccakF s.toArray = (Keccak.specF s).toArray :=
  ⟨Keccak.f64_eq_specF s, Keccak.keccakF_eq_specF s⟩

example : Keccak.keccakF (Array.replicate 25 0) = (Keccak.specF (Keccak.L25.ofFn fun _ => 0)).toArray :=
  (keccak_paths_equal_64 (Keccak.L25.ofFn fun _ => 0)).2

example : Keccak.f64 (Keccak.L25.ofFn fun i => UInt64.ofNat (i * 0x0101010101010101))
    = Keccak.specF (Keccak.L25.ofFn fun i => UInt64.ofNat (i * 0x0101010101010101)) :=
  (keccak_paths_equal _).1

/-- Lane access of the KECCAK_32BIT build is transparent: the networks of `xor_lane` and `extract` are
    inverse bijections between 64-bit lanes and word pairs, xor-ing a value into a stored lane is xor
    on the lane (`xor_lane`), and the all-zero state (`keccak_init`, `keccak_forget`'s memset) is the
    all-zero lane.  Together with `keccak_paths_equal` every sponge operation of the 32-bit build acts on
    the de-interleaved view exactly as the other builds act on their lanes. -/
theorem keccak32_lane_access (a b : UInt64) (w0 w1 : UInt32) :
    Usual.Gen.C05.deinterleave32 (Usual.Gen.C05.interleave32 a).1 (Usual.Gen.C05.interleave32 a).2 = a ∧
    Usual.Gen.C05.interleave32 (Usual.Gen.C05.deinterleave32 w0 w1) = (w0, w1) ∧
    Usual.Gen.C05.interleave32 (a ^^^ b)
      = ((Usual.Gen.C05.interleave32 a).1 ^^^ (Usual.Gen.C05.interleave32 b).1,
         (Usual.Gen.C05.interleave32 a).2 ^^^ (Usual.Gen.C05.interleave32 b).2) ∧
    Usual.Gen.C05.interleave32 0 = (0, 0) :=
  ⟨Keccak.deinterleave32_interleave32 a, Keccak.interleave32_deinterleave32 w0 w1,
   Keccak.interleave32_xor a b, by decide⟩

example : Usual.Gen.C05.interleave32 0x8000000000000003 = (0x00000001, 0x80000001) := by decide

/-! ### keccak_prng -/

/-- `keccak_prng_extract` refuses (returns false, context untouched) until data has been added; once it
    has, ANY sequence of extract calls delivers one contiguous stream: the sponge squeezed from the
    context as padded (pad byte 0x01) when extraction started. -/
theorem prng_extract_stream (f : Keccak.Bytes → Keccak.Bytes) (p : Sha3.Prng) (ns : List Nat) :
    (p.haveData = false → ∀ n, Sha3.prngExtract f p n = (none, p)) ∧
    (p.haveData = true → p.ctx.pos < p.ctx.rbytes →
      (Sha3.prngExtractMany f p ns).1 = (Keccak.squeeze f (Sha3.prngOutCtx f p) ns.sum).1) :=
  ⟨fun h n => Sha3.prngExtract_none f p n h, fun h hw => Sha3.prng_stream f ns p h hw⟩

example (f : Keccak.Bytes → Keccak.Bytes) :
    (Sha3.prngExtractMany f { ctx := { st := List.replicate 200 1, pos := 3, rbytes := 168 }, extracting := false,
                              haveData := true } [5, 0, 300]).1
      = (Keccak.squeeze f (Keccak.pad f { st := List.replicate 200 1, pos := 3, rbytes := 168 } [0x01]) 305).1 :=
  (prng_extract_stream f _ [5, 0, 300]).2 rfl (by decide)

/-- Seeding: `keccak_prng_init; keccak_prng_add_data*` in any chunking, then any sequence of extract calls
    = `SPONGE[f, pad10*1, r](data ‖ 0x01-suffix, total length)`; with no (or only empty) data every extract
    is refused. -/
theorem prng_seed_stream (f : Keccak.Bytes → Keccak.Bytes) (cap : Nat) (h8 : cap % 8 = 0) (hlo : 8 ≤ cap)
    (hhi : cap ≤ 1592) (p0 : Sha3.Prng) (hp : Sha3.prngInit cap = some p0) (chunks : List Keccak.Bytes) (ns : List Nat) :
    (chunks.flatten = [] → ∀ n, (Sha3.prngExtract f (chunks.foldl (Sha3.prngAddData f) p0) n).1 = none) ∧
    (chunks.flatten ≠ [] →
      (Sha3.prngExtractMany f (chunks.foldl (Sha3.prngAddData f) p0) ns).1
        = Keccak.sponge f ((1600 - cap) / 8) 0x01 chunks.flatten ns.sum) := by
  have hr : 0 < (1600 - cap) / 8 := by omega
  rw [Sha3.prngInit_valid cap h8 hlo hhi] at hp
  injection hp with hp
  subst hp
  obtain ⟨c1, c2, c3⟩ := Sha3.prng_foldl_add f chunks
    { ctx := { st := List.replicate 200 0, pos := 0, rbytes := (1600 - cap) / 8 }, extracting := false, haveData := false }
    rfl (by simpa [Keccak.WF] using hr)
  simp only [Bool.false_or] at c3
  obtain ⟨q, hq⟩ : ∃ q, q = chunks.foldl (Sha3.prngAddData f)
      { ctx := { st := List.replicate 200 0, pos := 0, rbytes := (1600 - cap) / 8 }, extracting := false,
        haveData := false } := ⟨_, rfl⟩
  rw [← hq] at c1 c2 c3 ⊢
  constructor
  · intro hnil n
    have hd : q.haveData = false := by rw [c3, hnil]; rfl
    rw [Sha3.prngExtract_none f _ n hd]
  · intro hne
    have hl : chunks.flatten.length > 0 := List.length_pos_iff.mpr hne
    have hd : q.haveData = true := by rw [c3]; exact decide_eq_true hl
    have hw : Keccak.WF q.ctx := by
      rw [c1]; exact Keccak.absorb_wf f _ _ (by simpa [Keccak.WF] using hr)
    rw [Sha3.prng_stream f ns _ hd hw]
    unfold Sha3.prngOutCtx
    rw [c2, c1]
    simp only [Bool.false_eq_true, ↓reduceIte]
    exact Keccak.hash_eq_sponge f _ hr 0x01 chunks.flatten ns.sum

example (f : Keccak.Bytes → Keccak.Bytes) (p0 : Sha3.Prng) (hp : Sha3.prngInit 256 = some p0) :
    (Sha3.prngExtractMany f ([[1, 2], [], [3]].foldl (Sha3.prngAddData f) p0) [16, 16]).1
      = Keccak.sponge f 168 0x01 [1, 2, 3] 32 :=
  (prng_seed_stream f 256 (by decide) (by decide) (by decide) p0 hp [[1, 2], [], [3]] [16, 16]).2 (by decide)

/-- Reseeding as the code has it: data added while extracting restarts absorption at position 0 of the
    CURRENT state (`keccak_rewind`, no re-initialisation), in any chunking; the next extraction pads again.
    Data added while not extracting continues the absorption where it stood. -/
theorem prng_reseed (f : Keccak.Bytes → Keccak.Bytes) (p : Sha3.Prng) (data : Keccak.Bytes) :
    (Sha3.prngAddData f p data).ctx = Keccak.absorb f (if p.extracting then Keccak.rewind p.ctx else p.ctx) data ∧
    (Sha3.prngAddData f p data).extracting = false ∧
    (Sha3.prngAddData f p data).haveData = (p.haveData || decide (data.length > 0)) :=
  Sha3.prngAddData_ctx f p data

example (f : Keccak.Bytes → Keccak.Bytes) :
    (Sha3.prngAddData f { ctx := { st := List.replicate 200 9, pos := 77, rbytes := 136 }, extracting := true,
                          haveData := true } [1, 2, 3]).ctx
      = Keccak.absorb f { st := List.replicate 200 9, pos := 0, rbytes := 136 } [1, 2, 3] :=
  (prng_reseed f _ [1, 2, 3]).1

/-! ### ChaCha20 (generic in the block function) -/

/-- `chacha_mix` advances the 64-bit block counter by one with carry from word 12 into word 13
    (wrapping at 2^64) and outputs the block of the counter value it found. -/
theorem chacha_counter_carry (bf : ChaCha.BlockFn) (s : ChaCha.Stream) :
    ChaCha.ctrVal (ChaCha.mix bf s).lo (ChaCha.mix bf s).hi = (ChaCha.ctrVal s.lo s.hi + 1) % 2 ^ 64 ∧
    (ChaCha.mix bf s).out = ChaCha.blockAt bf (ChaCha.ctrVal s.lo s.hi) ∧ (ChaCha.mix bf s).pos = 0 :=
  ⟨ChaCha.mix_ctr bf s, (ChaCha.blockAt_ctrVal bf s.lo s.hi).symm, rfl⟩

example : ChaCha.ctrVal (ChaCha.mix (fun _ _ => []) { lo := 0xffffffff, hi := 7, out := [], pos := 64 }).lo
    (ChaCha.mix (fun _ _ => []) { lo := 0xffffffff, hi := 7, out := [], pos := 64 }).hi = 8 * 2 ^ 32 := by decide

/-- After `chacha_set_nonce` (pos = 64), ANY sequence of `chacha_keystream` calls delivers the
    key stream from its beginning: the concatenated output of calls for `n₁, n₂, …` bytes is the
    first `n₁ + n₂ + …` bytes of the stream that starts at the given 64-bit counter. -/
theorem chacha_keystream_chunking (bf : ChaCha.BlockFn) (hbf : ∀ lo hi, (bf lo hi).length = 64)
    (s : ChaCha.Stream) (hs : s.pos = 64) (ns : List Nat) :
    (ChaCha.ksMany bf s ns).1 = ChaCha.streamBytes bf (ChaCha.ctrVal s.lo s.hi) 0 ns.sum :=
  (ChaCha.ksMany_spec bf hbf _ ns s 0 (ChaCha.rel_start bf s hs)).1

example : (ChaCha.ksMany (fun lo _ => List.replicate 64 lo.toUInt8) { lo := 5, hi := 0, out := [], pos := 64 } [10, 60]).1
    = ChaCha.streamBytes (fun lo _ => List.replicate 64 lo.toUInt8) 5 0 70 :=
  chacha_keystream_chunking _ (by intro lo hi; simp) _ rfl [10, 60]

/-- `chacha_keystream_xor` (with the repair of F9) in ANY partition of the plaintext =
    plaintext ⊕ the prefix of the key stream of the same length. -/
theorem chacha_xor_eq_stream (bf : ChaCha.BlockFn) (hbf : ∀ lo hi, (bf lo hi).length = 64)
    (s : ChaCha.Stream) (hs : s.pos = 64) (xs : List ChaCha.Bytes) :
    (ChaCha.xorMany bf s xs).1
      = ChaCha.xorBytes xs.flatten (ChaCha.streamBytes bf (ChaCha.ctrVal s.lo s.hi) 0 xs.flatten.length) :=
  (ChaCha.xorMany_spec bf hbf _ xs s 0 (ChaCha.rel_start bf s hs)).1

example : (ChaCha.xorMany (fun lo _ => (List.range 64).map (fun i => UInt8.ofNat i + lo.toUInt8))
      { lo := 0, hi := 0, out := [], pos := 64 } [List.replicate 10 0, List.replicate 30 0]).1
    = ChaCha.xorBytes (List.replicate 40 0)
        (ChaCha.streamBytes (fun lo _ => (List.range 64).map (fun i => UInt8.ofNat i + lo.toUInt8)) 0 0 40) := by
  have := chacha_xor_eq_stream (fun lo _ => (List.range 64).map (fun i => UInt8.ofNat i + lo.toUInt8))
    (by intro lo hi; simp) { lo := 0, hi := 0, out := [], pos := 64 } rfl [List.replicate 10 0, List.replicate 30 0]
  simpa [ChaCha.ctrVal] using this

/-- mixed sequences: key stream position is shared between `chacha_keystream` and
    `chacha_keystream_xor` (the invariant `Rel` is what both preserve) -/
theorem chacha_mixed_calls (bf : ChaCha.BlockFn) (hbf : ∀ lo hi, (bf lo hi).length = 64) (c0 : Nat)
    (s : ChaCha.Stream) (o n : Nat) (src : ChaCha.Bytes) (h : ChaCha.Rel bf c0 s o) :
    (ChaCha.keystream bf s n).1 = ChaCha.streamBytes bf c0 o n ∧
    (ChaCha.keystreamXor bf (ChaCha.keystream bf s n).2 src).1
      = ChaCha.xorBytes src (ChaCha.streamBytes bf c0 (o + n) src.length) := by
  obtain ⟨a1, a2⟩ := ChaCha.keystreamF_spec bf hbf c0 (n + 1) s o n h (by omega)
  exact ⟨a1, (ChaCha.keystreamXorF_spec bf hbf c0 (src.length + 1) _ (o + n) src a2 (by omega)).1⟩

example : ChaCha.Rel (fun _ _ => List.replicate 64 0) 3 { lo := 3, hi := 0, out := [], pos := 64 } 0 :=
  ChaCha.rel_start _ _ rfl

/-- F9, the loop as it stood in the pinned tree (`dst[i] = src[i] ^ ks[i]`, ignoring `ctx->pos`):
    a 10 + 30 byte split differs from the one-shot call already for a block function whose output
    is 0,1,2,…,63.  (The repaired loop is the subject of `chacha_xor_eq_stream`.) -/
theorem chacha_xor_old_counterexample :
    ¬ ∀ (bf : ChaCha.BlockFn) (s : ChaCha.Stream) (a b : ChaCha.Bytes), s.pos = 64 →
        (ChaCha.keystreamXorOldF bf 100 s a).1 ++ (ChaCha.keystreamXorOldF bf 100 (ChaCha.keystreamXorOldF bf 100 s a).2 b).1
          = (ChaCha.keystreamXorOldF bf 100 s (a ++ b)).1 := by
  intro h
  have := h (fun _ _ => (List.range 64).map UInt8.ofNat) { lo := 0, hi := 0, out := [], pos := 64 }
    (List.replicate 10 0) (List.replicate 30 0) rfl
  revert this
  decide

example : (ChaCha.keystreamXorOldF (fun _ _ => (List.range 64).map UInt8.ofNat) 100
    { lo := 0, hi := 0, out := (List.range 64).map UInt8.ofNat, pos := 10 } [0, 0]).1 = [0, 1] := by decide

end UsualProps.C05
