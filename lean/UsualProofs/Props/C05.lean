import UsualProofs.C05.MD
import UsualProofs.C05.Hmac
import UsualProofs.C05.Sponge
import UsualProofs.C05.Sha3
import UsualProofs.C05.ChaCha
import Usual.C05.Digests
/-! Property theorems for C05 — cryptographic primitives equal their standards for every
    input and every chunking.

    The streaming code of usual/crypto is modelled in `Usual.C05.*` (the functions the
    correspondence driver runs); the standards are the one-shot definitions `MD.mdSpec`
    (RFC 1321 / FIPS 180-4: pad, cut into blocks, fold the compression function),
    `Keccak.sponge` (FIPS 202), `Hmac.hmacSpec` (RFC 2104) and `ChaCha.streamBytes`.
    All theorems are generic in the compression function / permutation / block function, so
    each covers every digest of its family at once.

    NOT carried by theorems (see evidence `partial`):
    * that `md5Compress`, `sha1Compress`, `sha256Compress`, `sha512Compress`, `Keccak.fBytes`,
      `ChaCha.block` are the functions printed in the standards — transcription, pinned by the
      standards' vectors (UsualProofs/C05/Vectors.lean) and the hashlib cross-check;
    * that the three C code paths of keccak_f compute the same permutation — correspondence. -/
namespace UsualProps.C05
open Usual.C05

/-! ### MD5, SHA-1, SHA-224/256, SHA-384/512 -/

/-- Feeding a message to `*_update` in ANY partition into chunks and calling `*_final` yields the
    digest the standard defines for the whole message.  Generic in the digest (block size,
    length-field size and endianness, initial value, compression function); the message must be
    shorter than 2^61 bytes (the code keeps a 64-bit bit count, as the standards do for
    MD5/SHA-1/SHA-256). -/
theorem md_chunking {σ : Type} (A : MD.Alg σ) (hL : 8 ≤ A.lenBytes) (hLB : A.lenBytes < A.B)
    (chunks : List (List UInt8)) (hlen : 8 * chunks.flatten.length < 2 ^ 64) :
    MD.final A (chunks.foldl (MD.update A) (MD.reset A)) = MD.mdSpec A chunks.flatten :=
  MD.final_foldl_update A hL hLB chunks hlen

example : MD.final MD.sha256 ([[1, 2], [], [3]].foldl (MD.update MD.sha256) (MD.reset MD.sha256))
    = MD.mdSpec MD.sha256 [1, 2, 3] :=
  md_chunking MD.sha256 (by decide) (by decide) [[1, 2], [], [3]] (by decide)

/-- the six digests of the library satisfy the side conditions of `md_chunking` -/
theorem md_instances :
    (8 ≤ MD.md5.lenBytes ∧ MD.md5.lenBytes < MD.md5.B) ∧ (8 ≤ MD.sha1.lenBytes ∧ MD.sha1.lenBytes < MD.sha1.B) ∧
    (8 ≤ MD.sha224.lenBytes ∧ MD.sha224.lenBytes < MD.sha224.B) ∧
    (8 ≤ MD.sha256.lenBytes ∧ MD.sha256.lenBytes < MD.sha256.B) ∧
    (8 ≤ MD.sha384.lenBytes ∧ MD.sha384.lenBytes < MD.sha384.B) ∧
    (8 ≤ MD.sha512.lenBytes ∧ MD.sha512.lenBytes < MD.sha512.B) := by decide

example : MD.md5.B = 64 ∧ MD.sha512.B = 128 ∧ MD.sha512.lenBytes = 16 := by decide

/-- A context that is reset behaves as a fresh one, whatever it held before (including a
    finalised or half-filled one): any chunking after the reset gives the standard's digest. -/
theorem md_reset_fresh {σ : Type} (A : MD.Alg σ) (hL : 8 ≤ A.lenBytes) (hLB : A.lenBytes < A.B)
    (old : MD.Ctx σ) (chunks : List (List UInt8)) (hlen : 8 * chunks.flatten.length < 2 ^ 64) :
    MD.final A (chunks.foldl (MD.update A) (MD.resetCtx A old)) = MD.mdSpec A chunks.flatten :=
  MD.final_foldl_update A hL hLB chunks hlen

example : MD.final MD.md5 ([[7], [8, 9]].foldl (MD.update MD.md5)
      (MD.resetCtx MD.md5 (MD.update MD.md5 (MD.reset MD.md5) [1, 2, 3])))
    = MD.mdSpec MD.md5 [7, 8, 9] :=
  md_reset_fresh MD.md5 (by decide) (by decide) _ [[7], [8, 9]] (by decide)

/-- The padding rule of the C code (`pad_len = B - L - pos; if (pad_len <= 0) pad_len += B`)
    produces exactly the standard's padding: 0x80, then the least number `k` of zero bytes with
    `len + 1 + k + L ≡ 0 (mod B)`. -/
theorem md_padding_rule {σ : Type} (A : MD.Alg σ) (hL : 0 < A.lenBytes) (hLB : A.lenBytes < A.B) (len : Nat) :
    MD.padLen A (len % A.B) = MD.padZeros A len + 1 ∧
    (len + 1 + MD.padZeros A len + A.lenBytes) % A.B = 0 ∧ MD.padZeros A len < A.B :=
  ⟨MD.padLen_eq A hL hLB len, MD.padZeros_spec A (by omega) len⟩

example : MD.padLen MD.sha256 (55 % 64) = 1 ∧ MD.padLen MD.sha256 (56 % 64) = 64 ∧ MD.padLen MD.sha512 (112 % 128) = 128 := by
  decide

/-! ### HMAC -/

/-- HMAC over ANY digest whose streaming interface computes a function `H` of the concatenated
    input, for ANY key length (keys longer than a block are hashed first) and ANY chunking of the
    message: `hmac_new; hmac_update*; hmac_final` = RFC 2104. -/
theorem hmac_chunking {δ : Type} (D : Hmac.Digest δ) (H : Hmac.Bytes → Hmac.Bytes) (bound : Nat)
    (hD : Hmac.Lawful D H bound) (key : Hmac.Bytes) (chunks : List Hmac.Bytes) (hk : key.length < bound)
    (hm : D.blockLen + chunks.flatten.length < bound) (hr : ∀ m, D.blockLen + (H m).length < bound) :
    Hmac.final D (chunks.foldl (Hmac.update D) (Hmac.new D key)) = Hmac.hmacSpec H D.blockLen key chunks.flatten :=
  Hmac.final_foldl D H bound hD key chunks hk hm hr

/-- the MD-family `DigestInfo`s are lawful: instance of `hmac_chunking` for MD5 … SHA-512 -/
theorem hmac_md_chunking {σ : Type} (A : MD.Alg σ) (rlen : Nat) (hL : 8 ≤ A.lenBytes) (hLB : A.lenBytes < A.B)
    (hout : ∀ s, A.B + (A.out s).length < 2 ^ 61)
    (key : List UInt8) (chunks : List (List UInt8)) (hk : key.length < 2 ^ 61)
    (hm : A.B + chunks.flatten.length < 2 ^ 61) :
    Hmac.final (mdDigest A rlen) (chunks.foldl (Hmac.update (mdDigest A rlen)) (Hmac.new (mdDigest A rlen) key))
      = Hmac.hmacSpec (MD.mdSpec A) A.B key chunks.flatten := by
  apply hmac_chunking (mdDigest A rlen) (MD.mdSpec A) (2 ^ 61) _ key chunks hk hm
  · intro m; exact hout _
  · intro cs hcs
    exact md_chunking A hL hLB cs (by omega)

example (key msg1 msg2 : List UInt8) (hk : key.length < 1000) (h1 : msg1.length < 1000) (h2 : msg2.length < 1000) :
    Hmac.final (mdDigest MD.sha256 32)
        ([msg1, msg2].foldl (Hmac.update (mdDigest MD.sha256 32)) (Hmac.new (mdDigest MD.sha256 32) key))
      = Hmac.hmacSpec (MD.mdSpec MD.sha256) MD.sha256.B key (msg1 ++ msg2) := by
  have := hmac_md_chunking MD.sha256 32 (by decide) (by decide)
    (by intro s; show 64 + (List.take 32 _).length < 2 ^ 61; rw [List.length_take]; omega)
    key [msg1, msg2] (by omega) (by show 64 + _ < _; simp; omega)
  simpa using this

/-- `hmac_reset` returns any used context to the state `hmac_new` produced -/
theorem hmac_reset_fresh {δ : Type} (D : Hmac.Digest δ) (key : Hmac.Bytes) (chunks : List Hmac.Bytes) :
    Hmac.reset D (chunks.foldl (Hmac.update D) (Hmac.new D key)) = Hmac.new D key :=
  Hmac.reset_foldl D key chunks

example : Hmac.reset (mdDigest MD.sha1 20) ([[1], [2, 3]].foldl (Hmac.update (mdDigest MD.sha1 20))
    (Hmac.new (mdDigest MD.sha1 20) [9, 9])) = Hmac.new (mdDigest MD.sha1 20) [9, 9] :=
  hmac_reset_fresh _ _ _

/-! ### Keccak sponge (generic in the permutation `f`) -/

/-- `add_bytes` (partial lane / whole lanes / partial lane) and `extract_bytes` (same three phases)
    are plain byte-window operations on the state, for every offset and length. -/
theorem sponge_window_ops (st p : Keccak.Bytes) (ofs count : Nat) :
    Keccak.addBytes st p ofs = Keccak.xorAt st ofs p ∧
    Keccak.extractBytes st ofs count = (st.drop ofs).take count :=
  ⟨Keccak.addBytes_eq st p ofs, Keccak.extractBytes_eq st ofs count⟩

example : Keccak.addBytes (List.replicate 200 0) [1, 2, 3, 4, 5, 6, 7, 8, 9, 10, 11] 5
    = Keccak.xorAt (List.replicate 200 0) 5 [1, 2, 3, 4, 5, 6, 7, 8, 9, 10, 11] :=
  (sponge_window_ops _ _ 5 0).1

/-- `keccak_absorb` over any partition of the data = one call on the concatenation -/
theorem sponge_absorb_chunking (f : Keccak.Bytes → Keccak.Bytes) (c : Keccak.Ctx) (h : c.pos < c.rbytes)
    (chunks : List Keccak.Bytes) :
    chunks.foldl (Keccak.absorb f) c = Keccak.absorb f c chunks.flatten :=
  Keccak.foldl_absorb f chunks c h

example (f : Keccak.Bytes → Keccak.Bytes) :
    [[1, 2], [3]].foldl (Keccak.absorb f) { st := List.replicate 200 0, pos := 5, rbytes := 136 }
      = Keccak.absorb f { st := List.replicate 200 0, pos := 5, rbytes := 136 } [1, 2, 3] :=
  sponge_absorb_chunking f _ (by decide) [[1, 2], [3]]

/-- `keccak_squeeze` of `n₁`, `n₂`, … bytes in turn = one squeeze of `n₁ + n₂ + …` bytes
    (same bytes, same final context) -/
theorem sponge_squeeze_chunking (f : Keccak.Bytes → Keccak.Bytes) (c : Keccak.Ctx) (h : c.pos < c.rbytes)
    (ns : List Nat) :
    Keccak.squeezeMany f c ns = Keccak.squeeze f c ns.sum :=
  Keccak.squeezeMany_eq f ns c h

example (f : Keccak.Bytes → Keccak.Bytes) :
    Keccak.squeezeMany f { st := List.replicate 200 7, pos := 0, rbytes := 72 } [10, 100, 1]
      = Keccak.squeeze f { st := List.replicate 200 7, pos := 0, rbytes := 72 } 111 :=
  sponge_squeeze_chunking f _ (by decide) [10, 100, 1]

/-- `keccak_encrypt`, `keccak_decrypt`, `keccak_squeeze_xor` are insensitive to the partition -/
theorem sponge_duplex_chunking (f : Keccak.Bytes → Keccak.Bytes) (c : Keccak.Ctx) (h : c.pos < c.rbytes)
    (chunks : List Keccak.Bytes) :
    Keccak.runMany (Keccak.encrypt f) c chunks = Keccak.encrypt f c chunks.flatten ∧
    Keccak.runMany (Keccak.decrypt f) c chunks = Keccak.decrypt f c chunks.flatten ∧
    Keccak.runMany (Keccak.squeezeXor f) c chunks = Keccak.squeezeXor f c chunks.flatten :=
  ⟨Keccak.runMany_encrypt f c chunks h, Keccak.runMany_decrypt f c chunks h, Keccak.runMany_squeezeXor f c chunks h⟩

example (f : Keccak.Bytes → Keccak.Bytes) :
    Keccak.runMany (Keccak.encrypt f) { st := List.replicate 200 0, pos := 3, rbytes := 8 } [[1], [2, 3, 4, 5, 6, 7]]
      = Keccak.encrypt f { st := List.replicate 200 0, pos := 3, rbytes := 8 } [1, 2, 3, 4, 5, 6, 7] :=
  (sponge_duplex_chunking f _ (by decide) _).1

/-- `keccak_decrypt` inverts `keccak_encrypt`: starting from equal contexts, decrypting the
    ciphertext — in ANY partition `cs`, independent of the partition `ms` used for encryption —
    returns the plaintext and leaves the same context. -/
theorem decrypt_encrypt (f : Keccak.Bytes → Keccak.Bytes) (hf : ∀ s : Keccak.Bytes, s.length = 200 → (f s).length = 200)
    (c : Keccak.Ctx) (hpos : c.pos < c.rbytes) (hst : c.st.length = 200) (hr : c.rbytes ≤ 200)
    (ms cs : List Keccak.Bytes) (hcs : cs.flatten = (Keccak.runMany (Keccak.encrypt f) c ms).1) :
    Keccak.runMany (Keccak.decrypt f) c cs = (ms.flatten, (Keccak.runMany (Keccak.encrypt f) c ms).2) := by
  rw [Keccak.runMany_decrypt f c cs hpos, hcs, Keccak.runMany_encrypt f c ms hpos,
      Keccak.decrypt_eq f c _ hpos, Keccak.encrypt_eq f c _ hpos]
  exact Keccak.steps_dec_enc f hf ms.flatten c hpos ⟨hst, hr⟩

example : Keccak.runMany (Keccak.decrypt id) { st := List.replicate 200 1, pos := 2, rbytes := 4 }
      [(Keccak.runMany (Keccak.encrypt id) { st := List.replicate 200 1, pos := 2, rbytes := 4 } [[5, 6], [7]]).1]
    = ([5, 6, 7], (Keccak.runMany (Keccak.encrypt id) { st := List.replicate 200 1, pos := 2, rbytes := 4 } [[5, 6], [7]]).2) :=
  decrypt_encrypt id (fun _ h => h) _ (by decide) (List.length_replicate ..) (by decide) [[5, 6], [7]] _
    (by rw [List.flatten_cons, List.flatten_nil, List.append_nil])

/-- SHA3-224/256/384/512 and SHAKE128/256 through `sha3_*_reset; sha3_update*; sha3_final`
    = `SPONGE[f, pad10*1, r](M ‖ suffix, d)` of FIPS 202, for any chunking of the message; stated
    for every capacity `keccak_init` accepts and every pad byte. -/
theorem sha3_eq_spec (f : Keccak.Bytes → Keccak.Bytes) (cap ob : Nat) (dom : UInt8)
    (h8 : cap % 8 = 0) (hlo : 8 ≤ cap) (hhi : cap ≤ 1592) (chunks : List Keccak.Bytes) :
    (Sha3.final f (chunks.foldl (Sha3.update f) (Sha3.reset (cap, ob, dom)))).1
      = Keccak.sponge f ((1600 - cap) / 8) dom chunks.flatten ob :=
  Sha3.final_eq_sponge f cap ob dom h8 hlo hhi chunks

example (f : Keccak.Bytes → Keccak.Bytes) (a b : Keccak.Bytes) :
    (Sha3.final f ([a, b].foldl (Sha3.update f) (Sha3.reset Usual.Gen.C05.sha3_256Params))).1
      = Keccak.sponge f 136 0x06 (a ++ b) 32 := by
  have := sha3_eq_spec f 512 32 0x06 (by decide) (by decide) (by decide) [a, b]
  simpa [Usual.Gen.C05.sha3_256Params, Usual.Gen.C05.padSha3] using this

/-- the six parameter sets found in sha3.h / sha3.c are accepted by `keccak_init` -/
theorem sha3_instances :
    ∀ p ∈ [Usual.Gen.C05.sha3_224Params, Usual.Gen.C05.sha3_256Params, Usual.Gen.C05.sha3_384Params,
           Usual.Gen.C05.sha3_512Params, Usual.Gen.C05.shake128Params, Usual.Gen.C05.shake256Params],
      p.1 % 8 = 0 ∧ 8 ≤ p.1 ∧ p.1 ≤ 1592 := by decide

example : Usual.Gen.C05.shake128Params = (256, 32, 0x1f) := by decide

/-- SHAKE (and any of the six) at ANY output length and ANY sequence of `shake_extract` calls:
    the concatenated output is the sponge output of the total length. -/
theorem shake_any_length (f : Keccak.Bytes → Keccak.Bytes) (cap ob : Nat) (dom : UInt8)
    (h8 : cap % 8 = 0) (hlo : 8 ≤ cap) (hhi : cap ≤ 1592) (chunks : List Keccak.Bytes) (ns : List Nat) :
    (Sha3.extractMany f (chunks.foldl (Sha3.update f) (Sha3.reset (cap, ob, dom))) ns).1
      = Keccak.sponge f ((1600 - cap) / 8) dom chunks.flatten ns.sum :=
  Sha3.extractMany_eq_sponge f cap ob dom h8 hlo hhi chunks ns

example (f : Keccak.Bytes → Keccak.Bytes) (m : Keccak.Bytes) :
    (Sha3.extractMany f ([m].foldl (Sha3.update f) (Sha3.reset Usual.Gen.C05.shake128Params)) [3, 500, 0, 9]).1
      = Keccak.sponge f 168 0x1f m 512 := by
  have := shake_any_length f 256 32 0x1f (by decide) (by decide) (by decide) [m] [3, 500, 0, 9]
  simpa [Usual.Gen.C05.shake128Params, Usual.Gen.C05.padShake] using this

/-- HMAC over the SHA-3 `DigestInfo`s: instance of `hmac_chunking` -/
theorem hmac_sha3_chunking (f : Keccak.Bytes → Keccak.Bytes) (cap ob : Nat) (dom : UInt8)
    (h8 : cap % 8 = 0) (hlo : 8 ≤ cap) (hhi : cap ≤ 1592) (key : List UInt8) (chunks : List (List UInt8)) :
    Hmac.final (sha3Digest f (cap, ob, dom))
        (chunks.foldl (Hmac.update (sha3Digest f (cap, ob, dom))) (Hmac.new (sha3Digest f (cap, ob, dom)) key))
      = Hmac.hmacSpec (fun m => Keccak.sponge f ((1600 - cap) / 8) dom m ob) ((1600 - cap) / 8) key chunks.flatten := by
  have e : (sha3Digest f (cap, ob, dom)).blockLen = (1600 - cap) / 8 := rfl
  have h := hmac_chunking (sha3Digest f (cap, ob, dom))
    (fun m => Keccak.sponge f ((1600 - cap) / 8) dom m ob)
    (key.length + (1600 - cap) / 8 + chunks.flatten.length + ob + 1)
    (fun cs _ => sha3_eq_spec f cap ob dom h8 hlo hhi cs) key chunks (by omega) (by rw [e]; omega)
    (by
      intro m
      have := Keccak.sponge_length_le f ((1600 - cap) / 8) dom m ob
      rw [e]; omega)
  rw [e] at h
  exact h

example (f : Keccak.Bytes → Keccak.Bytes) (key a b : List UInt8) :
    Hmac.final (sha3Digest f (512, 32, 0x06))
        ([a, b].foldl (Hmac.update (sha3Digest f (512, 32, 0x06))) (Hmac.new (sha3Digest f (512, 32, 0x06)) key))
      = Hmac.hmacSpec (fun m => Keccak.sponge f 136 0x06 m 32) 136 key (a ++ b) := by
  have := hmac_sha3_chunking f 512 32 0x06 (by decide) (by decide) (by decide) key [a, b]
  simpa using this

/-! ### ChaCha20 (generic in the block function) -/

/-- `chacha_mix` advances the 64-bit block counter by one with carry from word 12 into word 13
    (wrapping at 2^64) and outputs the block of the counter value it found. -/
theorem chacha_counter_carry (bf : ChaCha.BlockFn) (s : ChaCha.Stream) :
    ChaCha.ctrVal (ChaCha.mix bf s).lo (ChaCha.mix bf s).hi = (ChaCha.ctrVal s.lo s.hi + 1) % 2 ^ 64 ∧
    (ChaCha.mix bf s).out = ChaCha.blockAt bf (ChaCha.ctrVal s.lo s.hi) ∧ (ChaCha.mix bf s).pos = 0 :=
  ⟨ChaCha.mix_ctr bf s, (ChaCha.blockAt_ctrVal bf s.lo s.hi).symm, rfl⟩

example : ChaCha.ctrVal (ChaCha.mix (fun _ _ => []) { lo := 0xffffffff, hi := 7, out := [], pos := 64 }).lo
    (ChaCha.mix (fun _ _ => []) { lo := 0xffffffff, hi := 7, out := [], pos := 64 }).hi = 8 * 2 ^ 32 := by decide

/-- After `chacha_set_nonce` (pos = 64), ANY sequence of `chacha_keystream` calls delivers the
    key stream from its beginning: the concatenated output of calls for `n₁, n₂, …` bytes is the
    first `n₁ + n₂ + …` bytes of the stream that starts at the given 64-bit counter. -/
theorem chacha_keystream_chunking (bf : ChaCha.BlockFn) (hbf : ∀ lo hi, (bf lo hi).length = 64)
    (s : ChaCha.Stream) (hs : s.pos = 64) (ns : List Nat) :
    (ChaCha.ksMany bf s ns).1 = ChaCha.streamBytes bf (ChaCha.ctrVal s.lo s.hi) 0 ns.sum :=
  (ChaCha.ksMany_spec bf hbf _ ns s 0 (ChaCha.rel_start bf s hs)).1

example : (ChaCha.ksMany (fun lo _ => List.replicate 64 lo.toUInt8) { lo := 5, hi := 0, out := [], pos := 64 } [10, 60]).1
    = ChaCha.streamBytes (fun lo _ => List.replicate 64 lo.toUInt8) 5 0 70 :=
  chacha_keystream_chunking _ (by intro lo hi; simp) _ rfl [10, 60]

/-- `chacha_keystream_xor` (with the repair of F9) in ANY partition of the plaintext =
    plaintext ⊕ the prefix of the key stream of the same length. -/
theorem chacha_xor_eq_stream (bf : ChaCha.BlockFn) (hbf : ∀ lo hi, (bf lo hi).length = 64)
    (s : ChaCha.Stream) (hs : s.pos = 64) (xs : List ChaCha.Bytes) :
    (ChaCha.xorMany bf s xs).1
      = ChaCha.xorBytes xs.flatten (ChaCha.streamBytes bf (ChaCha.ctrVal s.lo s.hi) 0 xs.flatten.length) :=
  (ChaCha.xorMany_spec bf hbf _ xs s 0 (ChaCha.rel_start bf s hs)).1

example : (ChaCha.xorMany (fun lo _ => (List.range 64).map (fun i => UInt8.ofNat i + lo.toUInt8))
      { lo := 0, hi := 0, out := [], pos := 64 } [List.replicate 10 0, List.replicate 30 0]).1
    = ChaCha.xorBytes (List.replicate 40 0)
        (ChaCha.streamBytes (fun lo _ => (List.range 64).map (fun i => UInt8.ofNat i + lo.toUInt8)) 0 0 40) := by
  have := chacha_xor_eq_stream (fun lo _ => (List.range 64).map (fun i => UInt8.ofNat i + lo.toUInt8))
    (by intro lo hi; simp) { lo := 0, hi := 0, out := [], pos := 64 } rfl [List.replicate 10 0, List.replicate 30 0]
  simpa [ChaCha.ctrVal] using this

/-- mixed sequences: key stream position is shared between `chacha_keystream` and
    `chacha_keystream_xor` (the invariant `Rel` is what both preserve) -/
theorem chacha_mixed_calls (bf : ChaCha.BlockFn) (hbf : ∀ lo hi, (bf lo hi).length = 64) (c0 : Nat)
    (s : ChaCha.Stream) (o n : Nat) (src : ChaCha.Bytes) (h : ChaCha.Rel bf c0 s o) :
    (ChaCha.keystream bf s n).1 = ChaCha.streamBytes bf c0 o n ∧
    (ChaCha.keystreamXor bf (ChaCha.keystream bf s n).2 src).1
      = ChaCha.xorBytes src (ChaCha.streamBytes bf c0 (o + n) src.length) := by
  obtain ⟨a1, a2⟩ := ChaCha.keystreamF_spec bf hbf c0 (n + 1) s o n h (by omega)
  exact ⟨a1, (ChaCha.keystreamXorF_spec bf hbf c0 (src.length + 1) _ (o + n) src a2 (by omega)).1⟩

example : ChaCha.Rel (fun _ _ => List.replicate 64 0) 3 { lo := 3, hi := 0, out := [], pos := 64 } 0 :=
  ChaCha.rel_start _ _ rfl

/-- F9, the loop as it stood in the pinned tree (`dst[i] = src[i] ^ ks[i]`, ignoring `ctx->pos`):
    a 10 + 30 byte split differs from the one-shot call already for a block function whose output
    is 0,1,2,…,63.  (The repaired loop is the subject of `chacha_xor_eq_stream`.) -/
theorem chacha_xor_old_counterexample :
    ¬ ∀ (bf : ChaCha.BlockFn) (s : ChaCha.Stream) (a b : ChaCha.Bytes), s.pos = 64 →
        (ChaCha.keystreamXorOldF bf 100 s a).1 ++ (ChaCha.keystreamXorOldF bf 100 (ChaCha.keystreamXorOldF bf 100 s a).2 b).1
          = (ChaCha.keystreamXorOldF bf 100 s (a ++ b)).1 := by
  intro h
  have := h (fun _ _ => (List.range 64).map UInt8.ofNat) { lo := 0, hi := 0, out := [], pos := 64 }
    (List.replicate 10 0) (List.replicate 30 0) rfl
  revert this
  decide

example : (ChaCha.keystreamXorOldF (fun _ _ => (List.range 64).map UInt8.ofNat) 100
    { lo := 0, hi := 0, out := (List.range 64).map UInt8.ofNat, pos := 10 } [0, 0]).1 = [0, 1] := by decide

end UsualProps.C05
