/-! Property theorems for C14 (stub: not built yet). -/
