import UsualProofs.C14.Str
import UsualProofs.C14.Mem
import UsualProofs.C14.Path
import UsualProofs.C14.Num
import UsualProofs.C14.Bits
import UsualProofs.C14.Inet
import UsualProofs.C14.Inet6
import UsualProofs.C14.Inet6rt
import UsualProofs.C14.Inet4g
import UsualProofs.C14.Inet6g
import UsualProofs.C14.Libc
import UsualProofs.C14.Extra
import UsualProofs.C14.Fnmatch
import UsualProofs.C14.FnSound
import UsualProofs.C14.FnComplete
import UsualProofs.C14.FnPeriod
/-!
# C14 — compat replacements behave exactly like the platform or specified functions

One `…_spec` theorem per replacement: the executable model of the compat C code
(`lean/Usual/C14/*.lean`, tied to the code by the forced-compat differential run of
`checks/C14.py`) satisfies the BSD/POSIX text, stated as a predicate on return value and on the
COMPLETE destination buffer ("same writes": the buffer equals the specified one everywhere and
keeps its length, i.e. nothing outside is touched).  Every theorem is followed by an `example`
instantiating it on a non-trivial value.

Nothing is `…_partial` any more:
* fnmatch: the loop of the code (`wfn`, mirror of `wfnmatch`) is proved sound AND complete —
  `fnmatch_code_sound_complete` (flag sets without FNM_PERIOD, against `Matches`) and
  `fnmatch_period_sound_complete` (ALL flag sets, against the position-aware `MatchesP`); bracket
  expressions via `match_class_spec`; no recursion budget (`fnmatch_no_budget`);
* `pton6_spec` and `pton4_spec` characterise the complete accepted grammars.
-/
namespace UsualProps.C14
open Usual.C14 UsualProofs.C14

/-! ## strlcpy / strlcat (OpenBSD) -/

/-- `strlcpy(dst, src, n)` with `n ≤ |dst|`: returns `strlen(src)`; for `n > 0` stores
    `min(len, n-1)` bytes of `src` and a NUL and leaves every other byte of `dst` alone; for
    `n = 0` stores nothing.  The buffer keeps its length (no store outside). -/
theorem strlcpy_spec (dst src : Bytes) (n : Nat) (hn : n ≤ dst.length) :
    (strlcpy dst src n).1 = (cstr src).length ∧
    (strlcpy dst src n).2.length = dst.length ∧
    (n = 0 → (strlcpy dst src n).2 = dst) ∧
    (0 < n → (strlcpy dst src n).2 =
      (cstr src).take (n - 1) ++ [0] ++ dst.drop (min (cstr src).length (n - 1) + 1)) :=
  ⟨strlcpy_ret dst src n, strlcpy_length dst src n hn,
   fun h => by subst h; exact strlcpy_zero dst src, strlcpy_buf dst src n⟩

example : strlcpy [0xAA, 0xAA, 0xAA, 0xAA] [97, 98, 99, 100, 0] 3 = (4, [97, 98, 0, 0xAA]) := by decide

/-- `strlcat(dst, src, n)` with `n ≤ |dst|`: returns `min(n, strlen(dst)) + strlen(src)`; if
    `dst` holds a string shorter than `n` the string is kept, as much of `src` as fits in
    `n - 1 - strlen(dst)` bytes is appended and NUL-terminated, the rest of the buffer is
    untouched; if there is no NUL in the first `n` bytes nothing is written. -/
theorem strlcat_spec (dst src : Bytes) (n : Nat) (hn : n ≤ dst.length) :
    (strlcat dst src n).1 = min n (cstr dst).length + (cstr src).length ∧
    (strlcat dst src n).2.length = dst.length ∧
    (n ≤ (cstr dst).length → (strlcat dst src n).2 = dst) ∧
    ((cstr dst).length < n → (strlcat dst src n).2 =
      cstr dst ++ (cstr src).take (n - (cstr dst).length - 1) ++ [0] ++
        dst.drop ((cstr dst).length + min (cstr src).length (n - (cstr dst).length - 1) + 1)) :=
  ⟨strlcat_ret dst src n, strlcat_length dst src n hn, strlcat_full dst src n hn,
   strlcat_buf dst src n⟩

example : strlcat [97, 0, 0xAA, 0xAA, 0xAA] [98, 99, 100, 0] 4 = (4, [97, 98, 99, 0, 0xAA]) := by decide

/-- `strpcpy`: the same stores as `strlcpy`; returns the offset of the terminator when the
    whole string fit, NULL on truncation (or `n = 0`) -/
theorem strpcpy_spec (dst src : Bytes) (n : Nat) :
    strpcpy dst src n =
      (if (cstr src).length < n then some (cstr src).length else none, (strlcpy dst src n).2) :=
  strpcpy_eq dst src n

example : strpcpy [0xAA, 0xAA, 0xAA] [97, 98, 99, 0] 3 = (none, [97, 98, 0]) := by decide

/-- `strpcat`: the same stores as `strlcat`; the end of the result when nothing was cut -/
theorem strpcat_spec (dst src : Bytes) (n : Nat) :
    strpcat dst src n =
      (if (cstr dst).length < n ∧ (cstr dst).length + (cstr src).length < n
        then some ((cstr dst).length + (cstr src).length) else none,
       (strlcat dst src n).2) :=
  strpcat_eq dst src n

example : strpcat [97, 0, 0xAA, 0xAA] [98, 99, 0] 4 = (some 3, [97, 98, 99, 0]) := by decide

/-- `strnlen(s, maxlen) = min(maxlen, strlen(s))` -/
theorem strnlen_spec (s : Bytes) (maxlen : Nat) : strnlen s maxlen = min maxlen (cstr s).length :=
  strnlen_eq s maxlen

example : strnlen [97, 98, 99, 0, 100] 2 = 2 ∧ strnlen [97, 98, 99, 0, 100] 9 = 3 := by decide

/-- `mempcpy` copies exactly `n` bytes and returns `dst + n` -/
theorem mempcpy_spec (dst src : Bytes) (n : Nat) (hs : n ≤ src.length) (hd : n ≤ dst.length) :
    (mempcpy dst src n).1 = n ∧ (mempcpy dst src n).2 = src.take n ++ dst.drop n ∧
    (mempcpy dst src n).2.length = dst.length := by
  refine ⟨rfl, mempcpy_buf dst src n hs, ?_⟩
  rw [mempcpy_buf dst src n hs]; simp; omega

example : mempcpy [1, 2, 3, 4] [9, 8, 7] 2 = (2, [9, 8, 3, 4]) := by decide

/-- `strsep(&s, delim)` on a terminated buffer: exactly one byte is stored (a NUL at the first
    delimiter, or over the terminator), the token is the part of the string before its first
    delimiter and contains none, `*stringp` becomes NULL iff there was no delimiter and otherwise
    points just past the delimiter found. -/
theorem strsep_spec (s delim : Bytes) (hterm : 0 ∈ s) :
    (strsep s delim).2 = s.set (strcspn s delim) 0 ∧
    cstr (strsep s delim).2 = (cstr s).take (strcspn s delim) ∧
    (∀ b ∈ (cstr s).take (strcspn s delim), ¬ b ∈ cstr delim) ∧
    ((strsep s delim).1 = none ↔ strcspn s delim = (cstr s).length) ∧
    (strcspn s delim < (cstr s).length →
      (strsep s delim).1 = some (strcspn s delim + 1) ∧
      ∃ d, (cstr s)[strcspn s delim]? = some d ∧ d ∈ cstr delim) :=
  ⟨strsep_buf s delim, strsep_token s delim hterm, strsep_token_no_delim s delim,
   (strsep_next s delim hterm).1, (strsep_next s delim hterm).2⟩

example : strsep [97, 44, 98, 0] [44, 0] = (some 2, [97, 0, 98, 0]) := by decide

/-- `strsep` with `*stringp == NULL`: returns NULL, leaves `*stringp` NULL, touches nothing;
    otherwise the token is the start of the string -/
theorem strsep_null_spec (delim : Bytes) :
    strsepP none delim = (none, none, none) ∧
    ∀ b, strsepP (some b) delim = (some 0, (strsep b delim).1, some (strsep b delim).2) :=
  ⟨rfl, fun _ => rfl⟩

example : strsepP (some [97, 98, 0]) [44, 0] = (some 0, none, some [97, 98, 0]) := by decide

/-! ## memrchr (repair F16) -/

/-- `memrchr(p, c, n)`: the GREATEST index below `n` whose byte equals `(unsigned char)c`
    (`c mod 256`), NULL iff there is none -/
theorem memrchr_spec (p : Bytes) (c : Int) (n : Nat) :
    ((ucharOf c : Int) = c % 256) ∧
    (∀ i, memrchr p c n = some i ↔
      i < n ∧ p.getD i 0 = ucharOf c ∧ ∀ j, i < j → j < n → p.getD j 0 ≠ ucharOf c) ∧
    (memrchr p c n = none ↔ ∀ j, j < n → p.getD j 0 ≠ ucharOf c) :=
  ⟨ucharOf_mod c, fun i => memrchrFrom_some p (ucharOf c) n i, memrchrFrom_none p (ucharOf c) n⟩

example : memrchr [97, 0xE9, 97, 0xE9, 98] (-23) 5 = some 3 ∧ memrchr [97, 98, 97] (97 + 256) 3 = some 2 := by
  decide

/-- the unrepaired `p[n] == c` violates it: a negative `char` value or `c ≥ 256` never matches -/
theorem memrchr_unrepaired_violates :
    memrchrOld [97, 0xE9] (-23) 2 = none ∧ memrchr [97, 0xE9] (-23) 2 = some 1 ∧
    memrchrOld [97] (97 + 256) 1 = none ∧ memrchr [97] (97 + 256) 1 = some 0 := by decide

example : memrchrOld [97, 98] 98 2 = some 1 := by decide

/-! ## memmem -/

/-- `memmem` returns the LEAST offset at which the needle occurs (0 for the empty needle) and
    NULL iff it occurs nowhere -/
theorem memmem_least (h q : Bytes) :
    (∀ i, memmem h q = some i ↔ Occ h q i ∧ ∀ j, j < i → ¬ Occ h q j) ∧
    (memmem h q = none ↔ ∀ i, ¬ Occ h q i) ∧
    (q = [] → memmem h q = some 0) :=
  ⟨memmem_some h q, memmem_none h q, fun hq => by subst hq; rfl⟩

example : memmem [97, 98, 97, 98, 99] [97, 98, 99] = some 2 ∧ memmem [97, 98] [98, 97] = none ∧
    Occ [97, 98, 97, 98, 99] [97, 98, 99] 2 := by
  refine ⟨by decide, by decide, by decide, by decide⟩

/-! ## mempbrk / memspn / memcspn -/

/-- `mempbrk`: the first byte of `data` that is in the set -/
theorem mempbrk_spec (d f : Bytes) :
    (∀ i, mempbrk d f = some i ↔
      (∃ a, d[i]? = some a ∧ a ∈ f) ∧ ∀ j, j < i → ∀ b, d[j]? = some b → ¬ b ∈ f) ∧
    (mempbrk d f = none ↔ ∀ a ∈ d, ¬ a ∈ f) :=
  ⟨mempbrk_some d f, mempbrk_none d f⟩

example : mempbrk [97, 98, 47, 46] [46, 47] = some 2 := by decide

/-- `memspn`: length of the longest prefix made of bytes of `accept` -/
theorem memspn_spec (d a : Bytes) :
    memspn d a ≤ d.length ∧ (∀ b ∈ d.take (memspn d a), b ∈ a) ∧
    (memspn d a < d.length → ∃ c, d[memspn d a]? = some c ∧ ¬ c ∈ a) :=
  UsualProofs.C14.memspn_spec d a

example : memspn [97, 98, 47, 97] [98, 97] = 2 := by decide

/-- `memcspn`: length of the longest prefix without a byte of `reject` -/
theorem memcspn_spec (d r : Bytes) :
    memcspn d r ≤ d.length ∧ (∀ j, j < memcspn d r → ∀ b, d[j]? = some b → ¬ b ∈ r) ∧
    (memcspn d r < d.length → ∃ c, d[memcspn d r]? = some c ∧ c ∈ r) :=
  UsualProofs.C14.memcspn_spec d r

example : memcspn [97, 98, 47, 97] [47] = 2 ∧ memcspn [97, 98] [47] = 2 := by decide

/-! ## basename / dirname (POSIX) -/

/-- `basename`: for a path `pre ++ comp ++ tail` whose last component is `comp` (non-empty,
    without `/`), followed only by slashes, preceded by nothing or by something ending in `/`:
    the result is `comp`.  (When the path ends in `/` the component must fit the 256-byte static
    buffer.) -/
theorem basename_spec (pre comp tail : Bytes) (hc : comp ≠ [])
    (hcs : ∀ b ∈ comp, b ≠ cSlash) (ht : ∀ b ∈ tail, b = cSlash)
    (hpre : pre = [] ∨ pre.getLast? = some cSlash)
    (h0 : ∀ b ∈ pre ++ comp ++ tail, b ≠ 0)
    (hlen : tail = [] ∨ comp.length ≤ basenameBuf) :
    basename (some (pre ++ comp ++ tail)) = comp :=
  basename_decomp pre comp tail hc hcs ht hpre h0 hlen

example : basename (some (bytesOf "/usr//lib///")) = bytesOf "lib" := by decide

/-- the static-buffer limit of the compat `basename` (a documented-by-code limit, not POSIX): a
    last component longer than 255 bytes FOLLOWED BY `/` comes back cut to its last 255 bytes;
    without a trailing `/` (`basename_spec`, `tail = []`) there is no limit.  `dirname` refuses
    results above 1023 bytes with NULL/ENAMETOOLONG (`dirname_spec`). -/
theorem basename_limit_spec (pre comp tail : Bytes) (hcs : ∀ b ∈ comp, b ≠ cSlash)
    (ht : ∀ b ∈ tail, b = cSlash) (htne : tail ≠ []) (hpre : pre = [] ∨ pre.getLast? = some cSlash)
    (h0 : ∀ b ∈ pre ++ comp ++ tail, b ≠ 0) (hlen : basenameBuf < comp.length) :
    basename (some (pre ++ comp ++ tail)) = comp.drop (comp.length - basenameBuf) ∧
    (basename (some (pre ++ comp ++ tail))).length = basenameBuf := by
  have h := basename_limit pre comp tail hcs ht htne hpre h0 hlen
  refine ⟨h, ?_⟩
  rw [h, List.length_drop]; omega

example : (basename (some ([] ++ List.replicate 300 97 ++ [47]))).length = 255 :=
  (basename_limit_spec [] (List.replicate 300 97) [47]
    (fun b hb => by rw [List.eq_of_mem_replicate hb]; decide)
    (fun b hb => by rw [List.mem_singleton.mp hb]; rfl) (by decide) (Or.inl rfl)
    (fun b hb => by
      rcases List.mem_append.mp hb with h | h
      · rcases List.mem_append.mp h with h' | h'
        · cases h'
        · rw [List.eq_of_mem_replicate h']; decide
      · rw [List.mem_singleton.mp h]; decide)
    (by rw [List.length_replicate]; decide)).2

/-- the corner cases of POSIX: NULL, "", "/", "//", "a/", "a//b", "." -/
theorem basename_corners :
    basename none = bytesOf "." ∧ basename (some []) = bytesOf "." ∧
    basename (some (bytesOf "/")) = bytesOf "/" ∧ basename (some (bytesOf "//")) = bytesOf "/" ∧
    basename (some (bytesOf "///")) = bytesOf "/" ∧
    basename (some (bytesOf "a/")) = bytesOf "a" ∧ basename (some (bytesOf "a//b")) = bytesOf "b" ∧
    basename (some (bytesOf ".")) = bytesOf "." ∧ basename (some (bytesOf "..")) = bytesOf ".." := by
  decide

example : basename (some (bytesOf "a//b")) = [98] := by decide

/-- `dirname`: for the same decomposition: "." when there is no directory part, "/" when the
    directory part is all slashes, otherwise the directory part without its trailing slashes
    (NULL/ENAMETOOLONG beyond the 1024-byte static buffer) -/
theorem dirname_spec (pre comp tail : Bytes) (hc : comp ≠ [])
    (hcs : ∀ b ∈ comp, b ≠ cSlash) (ht : ∀ b ∈ tail, b = cSlash)
    (hpre : pre = [] ∨ pre.getLast? = some cSlash)
    (h0 : ∀ b ∈ pre ++ comp ++ tail, b ≠ 0) :
    dirname (some (pre ++ comp ++ tail)) =
      (if pre = [] then some [cDot]
       else if rstripSlash pre = [] then some [cSlash]
       else if (rstripSlash pre).length > dirnameBuf then none
       else some (rstripSlash pre)) ∧
    ((∃ k, pre = rstripSlash pre ++ List.replicate k cSlash) ∧
     (rstripSlash pre = [] ∨ ∃ c, (rstripSlash pre).getLast? = some c ∧ c ≠ cSlash)) :=
  ⟨dirname_decomp pre comp tail hc hcs ht hpre h0, rstripSlash_spec pre⟩

example : dirname (some (bytesOf "/usr//lib///")) = some (bytesOf "/usr") := by decide

/-- the corner cases of POSIX ("//" may be "/" or "//": the code gives "/") -/
theorem dirname_corners :
    dirname none = some (bytesOf ".") ∧ dirname (some []) = some (bytesOf ".") ∧
    dirname (some (bytesOf "/")) = some (bytesOf "/") ∧ dirname (some (bytesOf "//")) = some (bytesOf "/") ∧
    dirname (some (bytesOf "a/")) = some (bytesOf ".") ∧ dirname (some (bytesOf "a//b")) = some (bytesOf "a") ∧
    dirname (some (bytesOf "/a")) = some (bytesOf "/") ∧ dirname (some (bytesOf "a")) = some (bytesOf ".") ∧
    dirname (some (bytesOf "//a//")) = some (bytesOf "/") ∧ dirname (some (bytesOf "a/b/c")) = some (bytesOf "a/b") := by
  decide

example : dirname (some (bytesOf "a//b")) = some [97] := by decide

/-! ## strtonum (OpenBSD; repair F39) -/

/-- `strtonum`, full classification (the OpenBSD text): with `minval > maxval` the result is
    "invalid"; a string that is a decimal numeral (optional white space, optional sign, digits,
    nothing else — `Numeral`) gives its value when that lies in `[minval, maxval]`, else 0 with
    "too small"/"too large" — also when the digits overflow `long long`; EVERYTHING else is 0 with
    "invalid".  A value is returned only inside the bounds; every error returns 0.  `errstr` is
    NULL and `errno` kept exactly on success; ERANGE goes with too small/too large, EINVAL with
    invalid. -/
theorem strtonum_spec (s : Bytes) (lo hi : Int) :
    (lo > hi → strtonum s lo hi = (0, .invalid)) ∧
    (∀ v, Numeral (cstr s) v → lo ≤ hi → llMin ≤ lo → hi ≤ llMax →
      strtonum s lo hi = (if v < lo then (0, .small) else if v > hi then (0, .large) else (v, .ok))) ∧
    ((¬ ∃ v, Numeral (cstr s) v) → strtonum s lo hi = (0, .invalid)) ∧
    (∀ v, strtonum s lo hi = (v, .ok) → lo ≤ v ∧ v ≤ hi) ∧
    ((strtonum s lo hi).2 ≠ .ok → (strtonum s lo hi).1 = 0) ∧
    (∀ e : NumErr, (e.errstr = none ↔ e = .ok) ∧ (e.errno = none ↔ e = .ok) ∧
      (e.errno = some "ERANGE" ↔ e = .small ∨ e = .large) ∧ (e.errno = some "EINVAL" ↔ e = .invalid) ∧
      (e.errstr = some "invalid" ↔ e = .invalid)) :=
  ⟨fun h => by simp [strtonum, h],
   fun v hn h1 h2 h3 => strtonum_numeral s v lo hi hn h1 h2 h3,
   strtonum_not_numeral s lo hi,
   fun v h => strtonum_ok_range s lo hi v h, strtonum_err_zero s lo hi,
   fun e => by cases e <;> simp [NumErr.errstr, NumErr.errno]⟩

example : strtonum (bytesOf " -42" ++ [0]) (-100) 100 = (-42, .ok) ∧
    strtonum (bytesOf "+7" ++ [0]) 0 9 = (7, .ok) ∧
    strtonum (bytesOf "101" ++ [0]) (-100) 100 = (0, .large) ∧
    strtonum (bytesOf "42x" ++ [0]) (-100) 100 = (0, .invalid) ∧
    strtonum (bytesOf "99999999999999999999" ++ [0]) llMin llMax = (0, .large) ∧
    Numeral (bytesOf " -42") (-42) := by
  refine ⟨by decide, by decide, by decide, by decide, by decide, ?_⟩
  exact ⟨[32], [45], [52, 50], rfl, by decide, Or.inr (Or.inr rfl), by decide, by decide, by decide⟩

/-- the unrepaired order (ERANGE tested before trailing garbage) violates it: digits that
    overflow followed by garbage were reported "too large" instead of "invalid" -/
theorem strtonum_old_counterexample :
    strtonumOld (bytesOf "99999999999999999999x" ++ [0]) 0 100 = (0, .large) ∧
    strtonum (bytesOf "99999999999999999999x" ++ [0]) 0 100 = (0, .invalid) ∧
    ¬ ∃ v, Numeral (bytesOf "99999999999999999999x") v := by
  refine ⟨by decide, by decide, ?_⟩
  rintro ⟨v, hn⟩
  have h1 := (strtonum_spec (bytesOf "99999999999999999999x" ++ [0]) llMin llMax).2.1 v
    (by simpa [cstr, bytesOf] using hn) (by decide) (by decide) (by decide)
  have h2 : strtonum (bytesOf "99999999999999999999x" ++ [0]) llMin llMax = (0, .invalid) := by decide
  rw [h2] at h1
  split at h1
  · cases h1
  · split at h1 <;> cases h1

example : strtonumOld (bytesOf "12" ++ [0]) 0 100 = (12, .ok) := by decide

/-! ## ffs / fls families, reallocarray -/

/-- `fls(x) = ⌊log2 x⌋ + 1` for `x > 0` (and 0 for 0), for every width -/
theorem fls_spec (w x : Nat) (hw : x < 2 ^ w) :
    (x = 0 → fls w x = 0) ∧ (0 < x → fls w x = Nat.log2 x + 1) :=
  ⟨fun h => by simp [fls, h], fun h => fls_eq w x h hw⟩

example : fls 32 0x80000000 = 32 ∧ fls 64 1 = 1 ∧ fls 32 0 = 0 ∧ fls 32 1000 = 10 := by decide

/-- `ffs(x) = k` for `x > 0`: bit `k-1` is the lowest set bit (`2^(k-1) ∣ x`, `2^k ∤ x`); 0 for 0 -/
theorem ffs_spec (w x : Nat) (hw : x < 2 ^ w) :
    (x = 0 → ffs w x = 0) ∧
    (0 < x → 1 ≤ ffs w x ∧ 2 ^ (ffs w x - 1) ∣ x ∧ ¬ 2 ^ (ffs w x) ∣ x) :=
  ⟨fun h => by simp [ffs, h], fun h => ffs_spec' w x h hw⟩

example : ffs 32 0x80000000 = 32 ∧ ffs 64 1 = 1 ∧ ffs 32 0 = 0 ∧ ffs 32 1000 = 4 := by decide

/-- `reallocarray(p, count, size)` calls `realloc(p, count * size)` exactly when the product
    fits `size_t`; otherwise it fails with ENOMEM without calling `realloc` -/
theorem reallocarray_spec (count size : Nat) (hc : count < 2 ^ 64) (hs : size < 2 ^ 64) :
    reallocarray count size =
      (if count * size < 2 ^ 64 then .realloc (count * size) else .enomem) := by
  unfold reallocarray
  rw [safeMul_iff 64 count size (by decide) hc hs]
  by_cases h : count * size < 2 ^ 64 <;> simp [h]

example : reallocarray 4294967296 4294967296 = .enomem ∧ reallocarray 4294967295 4294967297 = .realloc 18446744073709551615 := by
  decide

/-! ## inet_ntop / inet_pton -/

/-- `inet_pton4(inet_ntop4(a)) = a` for every IPv4 address -/
theorem pton_ntop4 (a b c d : Nat) (ha : a < 256) (hb : b < 256) (hc : c < 256) (hd : d < 256)
    (t : Bytes) : pton4 (ntop4Text [a, b, c, d] ++ 0 :: t) = some [a, b, c, d] :=
  pton4_ntop4 a b c d ha hb hc hd t

example : ntop4Text [192, 168, 0, 1] = bytesOf "192.168.0.1" ∧
    pton4 (bytesOf "192.168.0.1" ++ [0]) = some [192, 168, 0, 1] := by decide

/-- THE GRAMMAR of `inet_pton4`: accepted are exactly four decimal fields separated by single
    dots, each ONE TO THREE digits — LEADING ZEROS are allowed (POSIX inet_pton: "ddd ... a one to
    three digit decimal number between 0 and 255"; glibc rejects them: a logged platform
    difference; fields of four and more digits were accepted before F42) — with value ≤ 255
    (`DecOctet`); the result is the four values.  Hence four bytes < 256; 256, empty fields,
    signs, blanks, a trailing dot, three or five fields, "0000" are rejected. -/
theorem pton4_spec (s v : Bytes) :
    (pton4 s = some v ↔
      ∃ d1 d2 d3 d4 v1 v2 v3 v4, cstr s = d1 ++ cDot :: (d2 ++ cDot :: (d3 ++ cDot :: d4)) ∧
        DecOctet d1 v1 ∧ DecOctet d2 v2 ∧ DecOctet d3 v3 ∧ DecOctet d4 v4 ∧ v = [v1, v2, v3, v4]) ∧
    (pton4 s = some v → v.length = 4 ∧ ∀ x ∈ v, x < 256) :=
  ⟨pton4_grammar s v, pton4_sound s v⟩

example : pton4 (bytesOf "1.2.3.256" ++ [0]) = none ∧ pton4 (bytesOf "1..2.3" ++ [0]) = none ∧
    pton4 (bytesOf "1.2.3" ++ [0]) = none ∧ pton4 (bytesOf "1.2.3.4.5" ++ [0]) = none ∧
    pton4 (bytesOf "1.2.3.4." ++ [0]) = none ∧ pton4 (bytesOf " 1.2.3.4" ++ [0]) = none ∧
    pton4 (bytesOf "255.00.000.010" ++ [0]) = some [255, 0, 0, 10] ∧
    pton4 (bytesOf "255.00.0000.010" ++ [0]) = none ∧ pton4 (bytesOf "1.2.3.0255" ++ [0]) = none ∧
    ¬ DecOctet (bytesOf "0000") 0 ∧ DecOctet (bytesOf "010") 10 := by
  refine ⟨by decide, by decide, by decide, by decide, by decide, by decide, by decide, by decide, by decide, ?_, ?_⟩
  · intro h; exact absurd h.2.2.2.2 (by decide)
  · exact ⟨by decide, by decide, by decide, by decide, by decide⟩

/-- `inet_ntop4/6` size handling: ENOSPC (nothing written) iff text + terminator do not fit;
    otherwise exactly text + NUL is stored and the rest of the buffer is untouched -/
theorem ntop_store_spec (text dst : Bytes) (size : Nat) (hsz : size ≤ dst.length)
    (h0 : ∀ b ∈ text, b ≠ 0) :
    (text.length + 1 > size → ntopStore text dst size = none) ∧
    (text.length + 1 ≤ size →
      ntopStore text dst size = some (text ++ [0] ++ dst.drop (text.length + 1))) :=
  ntopStore_spec text dst size hsz h0

example : ntop4 [127, 0, 0, 1] (List.replicate 12 0xAA) 10 = some (bytesOf "127.0.0.1" ++ [0, 0xAA, 0xAA]) ∧
    ntop4 [127, 0, 0, 1] (List.replicate 12 0xAA) 9 = none := by decide

/-- `inet_ntop6` canonical `::` placement: the run of zero words that is abbreviated has length
    ≥ 2, no run of zero words is longer, and among the longest it is the leftmost; nothing is
    abbreviated only when no two adjacent words are zero -/
theorem ntop6_canonical (ws : List Nat) (h8 : ws.length = 8) :
    match bestRun ws with
    | some (b, l) =>
      2 ≤ l ∧ ZeroRun ws b l ∧
      ∀ b' l', 0 < l' → ZeroRun ws b' l' → l' ≤ l ∧ (l' = l → b ≤ b')
    | none => ∀ b', ¬ ZeroRun ws b' 2 :=
  ntop6_run ws h8

example : bestRun [1, 0, 0, 2, 0, 0, 3, 4] = some (1, 2) ∧ bestRun [1, 0, 2, 0, 3, 0, 4, 0] = none ∧
    ntop6Text [0x20, 0x01, 0x0d, 0xb8, 0, 0, 0, 0, 0, 1, 0, 0, 0, 0, 0, 1] = bytesOf "2001:db8::1:0:0:1" ∧
    ntop6Text [0, 0, 0, 0, 0, 0, 0, 0, 0, 0, 0xff, 0xff, 1, 2, 3, 4] = bytesOf "::ffff:1.2.3.4" ∧
    ntop6Text (List.replicate 16 0) = bytesOf "::" := by decide

/-- the text `inet_ntop6` builds always fits its 46-byte `tmp` array: the `return (NULL)`
    exits that do not set `errno` are unreachable, ENOSPC is the only failure -/
theorem ntop6_fits_tmp (a : Bytes) : (ntop6Text a).length + 1 ≤ 46 := by
  have := ntop6Text_len a; omega

example : (ntop6Text (List.replicate 16 255)).length = 39 := by decide

/-- `inet_pton6(inet_ntop6(a)) = a` for EVERY IPv6 address (all three text shapes the code
    produces: eight groups, `P::Q`, `::[ffff:]a.b.c.d`) -/
theorem pton_ntop6 (a : Bytes) (h16 : a.length = 16) (hb : ∀ x ∈ a, x < 256) (t : Bytes) :
    pton6 (ntop6Text a ++ 0 :: t) = some a :=
  pton6_ntop6 a h16 hb t

example : pton6 (ntop6Text [0x20, 0x01, 0x0d, 0xb8, 0, 0, 0, 0, 0, 1, 0, 0, 0, 0, 0, 1] ++ [0]) =
    some [0x20, 0x01, 0x0d, 0xb8, 0, 0, 0, 0, 0, 1, 0, 0, 0, 0, 0, 1] :=
  pton_ntop6 _ rfl (by decide) []

/-- THE GRAMMAR of `inet_pton6` (`Sentence6`): a text is accepted iff it is
    * groups of 1–4 hex digits (either case, leading zeros allowed) separated by single colons,
    * with at most one `::` (standing for at least one zero group),
    * optionally a dotted quad as the LAST item (what `inet_pton4` accepts: since F42 fields of one to three digits),
    * making 8 groups without `::` and at most 7 with it (a quad counts for two);
    and the result is the groups before `::`, the zero fill, the groups after it, the quad.
    Both directions; it is always sixteen bytes. -/
theorem pton6_spec (s V : Bytes) :
    (pton6 s = some V ↔ Sentence6 (cstr s) V) ∧ (pton6 s = some V → V.length = 16) :=
  ⟨pton6_grammar s V, pton6_sound s V⟩

example : Sentence6 (bytesOf "2001:DB8::0001:1.2.3.4") [0x20, 0x01, 0x0d, 0xb8, 0, 0, 0, 0, 0, 0, 0, 1, 1, 2, 3, 4] :=
  (pton6_spec (bytesOf "2001:DB8::0001:1.2.3.4") _).1.mp (by decide)

example : pton6 (bytesOf "2001:db8::1:0:0:1" ++ [0]) = some [0x20, 0x01, 0x0d, 0xb8, 0, 0, 0, 0, 0, 1, 0, 0, 0, 0, 0, 1] ∧
    pton6 (bytesOf "::ffff:1.2.3.4" ++ [0]) = some [0, 0, 0, 0, 0, 0, 0, 0, 0, 0, 0xff, 0xff, 1, 2, 3, 4] ∧
    pton6 (bytesOf "1::2::3" ++ [0]) = none ∧ pton6 (bytesOf "12345::" ++ [0]) = none ∧
    pton6 (bytesOf "1:2:3:4:5:6:7:8:9" ++ [0]) = none ∧ pton6 (bytesOf "1:2:3:4:5:6:7::8" ++ [0]) = none ∧
    pton6 (bytesOf "::00001.2.3.4" ++ [0]) = none ∧ pton6 (bytesOf "1:" ++ [0]) = none ∧
    pton6 (bytesOf "::" ++ [0]) = some (List.replicate 16 0) := by
  decide

/-! ## asprintf / vasprintf / cx_vasprintf (repair F06) -/

/-- for formatted output of ANY length `len` the two-pass logic returns `len` and a block
    holding exactly the text and its terminator — on both sides of the 128-byte buffer -/
theorem vasprintf_any_length (fmt : Nat → Bytes) (len : Nat) (hf : (fmt len).length = len) :
    cxVasprintf (fmt len) = ((len : Int), some (fmt len ++ [0])) := by
  rw [cxVasprintf_eq, hf]

example : cxVasprintf (List.replicate 127 65) = (127, some (List.replicate 127 65 ++ [0])) ∧
    cxVasprintf (List.replicate 128 65) = (128, some (List.replicate 128 65 ++ [0])) ∧
    cxVasprintf (List.replicate 129 65) = (129, some (List.replicate 129 65 ++ [0])) :=
  ⟨vasprintf_any_length (fun n => List.replicate n 65) 127 (by simp),
   vasprintf_any_length (fun n => List.replicate n 65) 128 (by simp),
   vasprintf_any_length (fun n => List.replicate n 65) 129 (by simp)⟩

/-- the unrepaired code (second `vsnprintf` on a consumed `va_list`) violates it for every
    text of 128 bytes or more -/
theorem vasprintf_unrepaired_violates (out : Bytes) (h : 128 ≤ out.length) :
    cxVasprintfOld out [] ≠ ((out.length : Int), some (out ++ [0])) := by
  rw [cxVasprintfOld_wrong out h]
  intro hc; cases hc

example : cxVasprintfOld (List.replicate 128 65) [] ≠ (128, some (List.replicate 128 65 ++ [0])) := by
  have := vasprintf_unrepaired_violates (List.replicate 128 65) (by simp)
  simpa using this

/-! ## getline (repair F26), mbsnrtowcs (repair F27), timegm -/

/-- one `getline` call: -1 exactly at end of file; otherwise returns the length of the next line
    (up to and including the first newline, NUL bytes included), stores it NUL-terminated,
    advances the stream by exactly that line, in a buffer large enough for line + terminator;
    a newline can only be the last byte of the line -/
theorem getline_spec (file : Bytes) (cap : Option Nat) :
    (file = [] → (getline file cap).ret = -1 ∧ (getline file cap).rest = file) ∧
    (file ≠ [] →
      (getline file cap).ret = ((nextLine file).length : Int) ∧
      (getline file cap).line = nextLine file ++ [0] ∧
      file = nextLine file ++ (getline file cap).rest ∧
      (nextLine file).length + 1 ≤ (getline file cap).size) ∧
    ((∀ b ∈ (nextLine file).dropLast, b ≠ 10) ∧
     ((nextLine file).length < file.length → (nextLine file).getLast? = some 10)) :=
  ⟨(getline_spec' file cap).1, (getline_spec' file cap).2, nextLine_newline file⟩

example : getline [0, 97, 10, 98] none = ⟨3, [0, 97, 10, 0], 512, [98]⟩ ∧
    getline [98] (some 600) = ⟨1, [98, 0], 600, []⟩ ∧ (getline [] none).ret = -1 := by decide

/-- the unrepaired `getline` (fgets + strlen) violates it: on a line that starts with a NUL byte
    `strlen` is 0 and the byte it inspects next is `(*line_p)[-1]`, outside the buffer -/
theorem getline_unrepaired_underreads (rest : Bytes) : getlineOldIndex (0 :: 10 :: rest) 512 = -1 := by
  simp [getlineOldIndex, nextLine, cstr]

example : getlineOldIndex [97, 10] 512 = 1 := by decide

/-- `mbsnrtowcs`: the destination array keeps its size (at most `dstlen` wide characters are
    stored), and with a NULL destination `*src` is not assigned — for ANY `mbrtowc` -/
theorem mbsnrtowcs_spec (mbr : Bytes → MbRes) (src : Bytes) (srclen : Nat) :
    (∀ d, (mbsnrtowcs mbr src srclen (some d)).dst.length = d.length) ∧
    (mbsnrtowcs mbr src srclen none).srcp = some 0 :=
  ⟨mbsnrtowcs_dst_length mbr src srclen, (mbsnrtowcs_null_dst mbr src srclen).1⟩

example : mbsnrtowcs utf8Mbr [97, 0xc3, 0xa9, 98] 4 (some [7, 7]) = ⟨some 2, some 3, [97, 0xe9]⟩ ∧
    mbsnrtowcs utf8Mbr [97, 0xff] 2 (some [7, 7, 7]) = ⟨none, some 1, [97, 7, 7]⟩ ∧
    mbsnrtowcs utf8Mbr [97, 0, 98] 3 (some [7, 7, 7]) = ⟨some 1, none, [97, 0, 7]⟩ := by decide

/-- `mbsnrtowcs` on `srclen` bytes that `mbrtowc` splits into the characters `cs` (no NUL,
    nothing invalid) with room in `dst`: returns their number, stores exactly their codes at the
    front of `dst` and nothing else, and leaves `*src` just past the `srclen` bytes -/
theorem mbsnrtowcs_valid_spec (mbr : Bytes → MbRes) (src : Bytes) (srclen : Nat) (d : List Nat)
    (cs : List (Nat × Nat)) (hs : srclen ≤ src.length) (hd : Decodes mbr (src.take srclen) cs)
    (hfit : cs.length ≤ d.length) :
    mbsnrtowcs mbr src srclen (some d) = ⟨some cs.length, some srclen, cs.map (·.2) ++ d.drop cs.length⟩ :=
  mbsnrtowcs_valid mbr src srclen d cs hs hd hfit

example : Decodes utf8Mbr [97, 0xc3, 0xa9] [(1, 97), (2, 0xe9)] :=
  .cons _ 1 97 _ (by decide) (by decide) (by decide) (by decide)
    (.cons _ 2 0xe9 _ (by decide) (by decide) (by decide) (by decide) .nil)

/-- `mbsnrtowcs` with room in `dst`, every way the scan can end (`DecodesTo`): input used up →
    the count and `*src` just past the `srclen` bytes; NUL character → the count without the NUL,
    the terminating 0 stored, `*src = NULL`; invalid sequence → (size_t)-1 and `*src` AT the offending
    sequence; the input ends inside a character (`cut`, F43) → the count of the complete characters and
    `*src` just past the `srclen` bytes (POSIX: "it is unspecified whether conversion stops at the end
    of the previous character (if any), or at the end of the input buffer"; it used to be (size_t)-1
    without EILSEQ); always exactly the decoded codes at the front of `dst`, nothing else -/
theorem mbsnrtowcs_stop_spec (mbr : Bytes → MbRes) (src : Bytes) (srclen : Nat) (d : List Nat)
    (cs : List (Nat × Nat)) (st : MbStop) (rem : Bytes) (hs : srclen ≤ src.length)
    (hd : DecodesTo mbr (src.take srclen) cs st rem) (hfit : cs.length < d.length) :
    mbsnrtowcs mbr src srclen (some d) =
      match st with
      | .endOfInput => ⟨some cs.length, some srclen, cs.map (·.2) ++ d.drop cs.length⟩
      | .nul => ⟨some cs.length, none, cs.map (·.2) ++ 0 :: d.drop (cs.length + 1)⟩
      | .bad => ⟨none, some (srclen - rem.length), cs.map (·.2) ++ d.drop cs.length⟩
      | .cut => ⟨some cs.length, some srclen, cs.map (·.2) ++ d.drop cs.length⟩ :=
  mbsnrtowcs_stop mbr src srclen d cs st rem hs hd hfit

example : DecodesTo utf8Mbr [97, 0xff, 98] [(1, 97)] .bad [0xff, 98] ∧
    mbsnrtowcs utf8Mbr [97, 0xff, 98] 3 (some [7, 7, 7]) = ⟨none, some 1, [97, 7, 7]⟩ := by
  refine ⟨?_, by decide⟩
  exact .cons _ 1 97 _ _ _ (by decide) (by decide) (by decide) (by decide) (.invalid _ (by decide) (by decide))

example : DecodesTo utf8Mbr [97, 0xc3] [(1, 97)] .cut [0xc3] ∧
    mbsnrtowcs utf8Mbr [97, 0xc3, 0xa9] 2 (some [7, 7, 7]) = ⟨some 1, some 2, [97, 7, 7]⟩ := by
  refine ⟨?_, by decide⟩
  exact .cons _ 1 97 _ _ _ (by decide) (by decide) (by decide) (by decide) (.incomplete _ (by decide) (by decide))

/-- THE CONVERSION STATE of `mbsnrtowcs` (the pending bytes of a character cut short by the previous
    call on the same `*ps`, or on the internal state when `ps == NULL`): (1) from the initial state the
    call is the single-call function of the theorems above; (2) a pending character is never skipped:
    if `pend ++ input` does not start with a valid character — e.g. the new input starts with an ASCII
    byte — the call fails with (size_t)-1, `*src` unchanged, nothing stored, state kept (seeded C14-16:
    an ASCII fast path ignored `*ps`); (3) if it does, exactly the missing bytes are consumed and the
    rest is converted from the initial state -/
theorem mbsnrtowcs_state_spec (mbr : Bytes → MbRes) (pend src : Bytes) (srclen : Nat) :
    (∀ dst, (mbsnrtowcsSt mbr [] src srclen dst).1 = mbsnrtowcs mbr src srclen dst) ∧
    (∀ d : List Nat, src.take srclen ≠ [] → 0 < d.length → mbr (pend ++ src.take srclen) = .invalid →
      mbsnrtowcsSt mbr pend src srclen (some d) = (⟨none, some 0, d⟩, pend)) ∧
    (∀ (hasDst : Bool) (dstlen f off count len wc : Nat) (w : List Nat) (s : Bytes), s ≠ [] →
      ¬ (hasDst = true ∧ count ≥ dstlen) → mbr (pend ++ s) = .char len wc →
      mbsLoopSt mbr hasDst dstlen (f + 1) pend s off count w =
        mbsLoopSt mbr hasDst dstlen f [] (s.drop (len - pend.length)) (off + (len - pend.length)) (count + 1)
          (if hasDst then wc :: w else w)) :=
  ⟨fun dst => mbsnrtowcsSt_initial mbr src srclen dst,
   fun d hs hd hm => mbsnrtowcsSt_pending_invalid mbr pend src srclen d hs hd hm,
   fun hasDst dstlen f off count len wc w s hs hr hm =>
     mbsLoopSt_pending_char mbr hasDst dstlen f pend s off count len wc w hs hr hm⟩

/-- "a\xC3" then "b\xA9" on one state: 1 and the lead byte pending; then -1, nothing stored (not 2 with
    'b', U+00E9); "a\xC3" then "\xA9b": U+00E9, 'b' and the initial state again -/
example :
    mbsnrtowcsSt utf8Mbr [] [97, 0xc3] 2 (some [7, 7, 7]) = (⟨some 1, some 2, [97, 7, 7]⟩, [0xc3]) ∧
    mbsnrtowcsSt utf8Mbr [0xc3] [98, 0xa9] 2 (some [7, 7, 7]) = (⟨none, some 0, [7, 7, 7]⟩, [0xc3]) ∧
    mbsnrtowcsSt utf8Mbr [0xc3] [0xa9, 98] 2 (some [7, 7, 7]) = (⟨some 2, some 2, [0xe9, 98, 7]⟩, []) ∧
    mbsnrtowcsSt utf8Mbr [0xf0, 0x9f] [0x98] 1 (some [7]) = (⟨some 0, some 1, [7]⟩, [0xf0, 0x9f, 0x98]) := by
  decide

/-- the unrepaired `mbsnrtowcs` assigned `*src` with a NULL destination -/
theorem mbsnrtowcs_unrepaired_violates :
    mbsnrtowcsOldSrcp utf8Mbr [97, 98] 2 = some 2 ∧ (mbsnrtowcs utf8Mbr [97, 98] 2 none).srcp = some 0 := by
  decide

example : mbsnrtowcsOldSrcp utf8Mbr [97, 0] 2 = none := by decide

/-- the specification `timegm` is compared with: `daysFromCivil` IS the proleptic-Gregorian
    day count from 1970-01-01 (it is 0 there and grows by one per day across month and year
    ends with the Gregorian leap rule), and `timegm` = days × 86400 + time of day -/
theorem timegm_spec :
    daysFromCivil 1970 1 1 = 0 ∧
    (∀ y m d : Int, daysFromCivil y m (d + 1) = daysFromCivil y m d + 1) ∧
    (∀ y m : Int, 1 ≤ m → m ≤ 11 →
      daysFromCivil y (m + 1) 1 = daysFromCivil y m (daysInMonth y m) + 1) ∧
    (∀ y : Int, daysFromCivil (y + 1) 1 1 = daysFromCivil y 12 31 + 1) ∧
    (∀ y mon d h mi s : Int, 1 ≤ mon → mon ≤ 12 →
      (timegm y mon d h mi s).secs = daysFromCivil y mon d * 86400 + h * 3600 + mi * 60 + s) :=
  ⟨dfc_epoch, dfc_next_day, dfc_next_month, dfc_next_year, timegm_secs⟩

example : (timegm 2024 2 29 12 0 0).secs = 1709208000 ∧ (timegm 2024 2 29 12 0 0).wday = 4 ∧
    daysInMonth 2024 2 = 29 ∧ daysInMonth 1900 2 = 28 ∧ daysInMonth 2000 2 = 29 := by decide

/-! ## fnmatch -/

/-- soundness and completeness of the reference matcher against the declarative glob semantics
    `Matches` (literals, `?`, `*`, bracket expressions, FNM_PATHNAME, FNM_NOESCAPE via the
    tokenizer, FNM_CASEFOLD, FNM_LEADING_DIR), and `fnmatchSpec` is that matcher whenever
    FNM_PERIOD is off.  (About the REFERENCE: the single-retry loop of the code is mirrored by
    `wfnmatch` and compared with it on every run, not proved equal; with FNM_PERIOD the mirror is
    the specification.) -/
theorem fnmatch_sound_complete (fl : FnFlags) (pat str : List Nat) :
    (∀ ts s, refMatch fl ts s = true ↔ Matches fl ts s) ∧
    (fl.period = false →
      (fnmatchSpec fl pat str = 0 ↔ Matches fl (tokenize fl (pat.length + 1) pat) str) ∧
      (fnmatchSpec fl pat str = 0 ∨ fnmatchSpec fl pat str = 1)) := by
  refine ⟨refMatch_iff fl, fun hp => ?_⟩
  unfold fnmatchSpec refFnmatch
  simp only [hp, Bool.false_eq_true, if_false]
  constructor
  · rw [← refMatch_iff]
    split <;> simp_all
  · split <;> simp

example : Matches (FnFlags.ofNat 1) [.star true, .lit 46, .lit 99] (bytesOf "ab.c") ∧
    ¬ Matches (FnFlags.ofNat 1) [.star true, .lit 46, .lit 99] (bytesOf "a/b.c") ∧
    tokenize (FnFlags.ofNat 0) 9 (bytesOf "[!a-c]*\\?") =
      [.cls true [.range 97 99], .star false, .lit 63] ∧
    fnmatchSpec (FnFlags.ofNat 0) (bytesOf "[!a-c]*\\?") (bytesOf "xyz?") = 0 ∧
    fnmatchSpec (FnFlags.ofNat 16) (bytesOf "a*") (bytesOf "ab/c") = 0 ∧
    wfnmatch (FnFlags.ofNat 4) (bytesOf "*.c") (bytesOf ".c") = 1 := by
  refine ⟨?_, ?_, by decide, by decide, by decide, by decide⟩
  · rw [← refMatch_iff]; decide
  · rw [← refMatch_iff]; decide

/-- the bracket-expression walk of the code (`match_class`, mirrored by `matchClass`) agrees
    with the reference for EVERY pattern text, subject character and flag set: parse the
    expression once (`parseClass`: `!`/`^`, escapes, ranges, `[:class:]`; unterminated = literal
    `[`; `[.x.]`, `[=x=]`, unknown class, dangling escape = never), then test membership -/
theorem match_class_spec (fl : FnFlags) (pat : List Nat) (c : Nat) :
    matchClass fl pat c =
      (let neg := pat.head? == some cBang || pat.head? == some cCaret
       let body := if neg then pat.drop 1 else pat
       match parseClass fl (pat.length + 2) body true true [] with
       | .closed items rest => if classHas fl neg items c then some rest else none
       | .literal => if c == cLB then some pat else none
       | .never => none) := by
  rw [matchClass_eq_parse]
  simp only
  generalize parseClass fl (pat.length + 2) _ true true [] = r
  cases r <;> simp [classResult, classHas]

example : matchClass (FnFlags.ofNat 0) (bytesOf "!a-c]x") 100 = some [120] ∧
    matchClass (FnFlags.ofNat 0) (bytesOf "!a-c]x") 98 = none ∧
    matchClass (FnFlags.ofNat 0) (bytesOf "[:alpha:]0]") 48 = some [] ∧
    matchClass (FnFlags.ofNat 0) (bytesOf "ab") 91 = some (bytesOf "ab") ∧
    matchClass (FnFlags.ofNat 0) (bytesOf "[.a.]]") 97 = none := by decide

/-- the loop of the code itself (`wfnmatch`, mirrored by `wfn`: single retry point, `*.` rule,
    FNM_LEADING_DIR at pattern end, `disallow_wildcard`) is SOUND for every flag set, FNM_PERIOD
    included: whenever it reports a match, the tokenised pattern matches the subject in the
    declarative semantics — and hence the reference matcher agrees.  (The converse, that the
    single-retry loop finds every match, is compared by the harness on every run, not proved.) -/
theorem fnmatch_code_sound (fl : FnFlags) (pat str : List Nat)
    (hp : ∀ c ∈ pat, c ≠ 0) (hs : ∀ c ∈ str, c ≠ 0) (h : wfnmatch fl pat str = 0) :
    Matches fl (tokenize fl (pat.length + 1) pat) str ∧ refFnmatch fl pat str = 0 := by
  have hm := wfnmatch_sound fl pat str hp hs h
  refine ⟨hm, ?_⟩
  unfold refFnmatch
  rw [(refMatch_iff fl _ _).mpr hm]; rfl

example : Matches (FnFlags.ofNat 1) (tokenize (FnFlags.ofNat 1) 8 (bytesOf "*/[a-c]?")) (bytesOf "x/bz") :=
  (fnmatch_code_sound (FnFlags.ofNat 1) (bytesOf "*/[a-c]?") (bytesOf "x/bz") (by decide) (by decide)
    (by decide)).1

/-- SOUNDNESS AND COMPLETENESS of the loop of the code itself for every flag set without
    FNM_PERIOD: the mirror of `wfnmatch` (single retry point = the LAST `*`, `*.` rule,
    `disallow_wildcard`, FNM_LEADING_DIR at pattern end) answers 0 exactly when the tokenised
    pattern matches the subject in the declarative semantics, always ends within its fuel with 0
    or 1, and therefore computes exactly the reference matcher / the specification. -/
theorem fnmatch_code_sound_complete (fl : FnFlags) (hper : fl.period = false) (pat str : List Nat)
    (hp : ∀ c ∈ pat, c ≠ 0) (hs : ∀ c ∈ str, c ≠ 0) :
    (wfnmatch fl pat str = 0 ↔ Matches fl (tokenize fl (pat.length + 1) pat) str) ∧
    (wfnmatch fl pat str = 0 ∨ wfnmatch fl pat str = 1) ∧
    wfnmatch fl pat str = refFnmatch fl pat str ∧
    wfnmatch fl pat str = fnmatchSpec fl pat str := by
  have h1 : wfnmatch fl pat str = 0 ↔ Matches fl (tokenize fl (pat.length + 1) pat) str :=
    ⟨wfnmatch_sound fl pat str hp hs, wfnmatch_complete fl hper pat str hp hs⟩
  have h2 := wfnmatch_01 fl pat str hs
  have h3 : wfnmatch fl pat str = refFnmatch fl pat str := by
    unfold refFnmatch
    by_cases hm : refMatch fl (tokenize fl (pat.length + 1) pat) str = true
    · simp only [hm, if_true]
      exact h1.mpr ((refMatch_iff fl _ _).mp hm)
    · simp only [hm, if_false]
      rcases h2 with h0 | h1'
      · exact absurd ((refMatch_iff fl _ _).mpr (h1.mp h0)) hm
      · exact h1'
  refine ⟨h1, h2, h3, ?_⟩
  unfold fnmatchSpec
  simp only [hper, Bool.false_eq_true, if_false]
  exact h3

example : wfnmatch (FnFlags.ofNat 1) (bytesOf "*x/[!b]*c") (bytesOf "axx/acac") = 0 ∧
    wfnmatch (FnFlags.ofNat 1) (bytesOf "*x/[!b]*c") (bytesOf "ax/x/ac") = 1 := by decide

/-- CLASS NAMES ARE MATCHED EXACTLY.  `[:name:]` inside a bracket expression names a class only
    when `name` is one of the twelve POSIX names, letter for letter (`cclassOf`).  For any other
    name — a strict prefix (`al`, `dig`, `x`), the empty name, a valid name with an extra character,
    wrong case — the bracket expression never matches any character and the whole pattern
    tokenises to `never`, so by soundness the code's loop answers FNM_NOMATCH on every subject. -/
theorem unknown_class_never_matches (fl : FnFlags) (name rest : List Nat)
    (hn : cclassOf name = none) (hc : 58 ∉ name) :
    (∀ c, matchClass fl (91 :: 58 :: (name ++ 58 :: 93 :: rest)) c = none) ∧
    (∀ s, ¬ Matches fl (tokenize fl ((91 :: 91 :: 58 :: (name ++ 58 :: 93 :: rest)).length + 1)
        (91 :: 91 :: 58 :: (name ++ 58 :: 93 :: rest))) s) := by
  refine ⟨fun c => (unknown_class_never fl name rest c hn hc).1, fun s hm => ?_⟩
  have h := (unknown_class_never fl name rest 0 hn hc).2
  unfold toks at h
  rw [h] at hm
  exact no_never fl _ _ hm (by simp)

example : cclassOf (bytesOf "al") = none ∧ cclassOf (bytesOf "") = none ∧ cclassOf (bytesOf "x") = none ∧
    cclassOf (bytesOf "alphax") = none ∧ cclassOf (bytesOf "ALPHA") = none ∧
    cclassOf (bytesOf "alpha") = some .alpha ∧
    wfnmatch (FnFlags.ofNat 0) (bytesOf "[[:al:]]") (bytesOf "a") = 1 ∧
    wfnmatch (FnFlags.ofNat 0) (bytesOf "[[::]]") (bytesOf "a") = 1 ∧
    wfnmatch (FnFlags.ofNat 0) (bytesOf "[[:alpha:]]") (bytesOf "a") = 0 := by decide

/-- ESCAPED PERIOD AFTER `*` (repair F41).  POSIX: a leading period must be matched by a period
    that is the FIRST character of the pattern (or follows a `/` under FNM_PATHNAME) — so neither
    `*.c` nor `*\.c` may match `.c` under FNM_PERIOD (glibc agrees).  The `*.` entry rule of the code
    looked only at a plain `.`; `dotNext` (and with it the mark of `.star`) now covers the escaped
    form as well, unless FNM_NOESCAPE makes the backslash an ordinary character. -/
theorem fnmatch_escaped_period :
    wfnmatch (FnFlags.ofNat 4) (bytesOf "*\\.c") (bytesOf ".c") = 1 ∧
    wfnmatch (FnFlags.ofNat 4) (bytesOf "*.c") (bytesOf ".c") = 1 ∧
    wfnmatch (FnFlags.ofNat 5) (bytesOf "a/*\\.c") (bytesOf "a/.c") = 1 ∧
    wfnmatch (FnFlags.ofNat 4) (bytesOf "a/*\\.c") (bytesOf "a/.c") = 0 ∧
    wfnmatch (FnFlags.ofNat 4) (bytesOf "*\\.c") (bytesOf "x.c") = 0 ∧
    wfnmatch (FnFlags.ofNat 4) (bytesOf "\\.c") (bytesOf ".c") = 0 ∧
    wfnmatch (FnFlags.ofNat 0) (bytesOf "*\\.c") (bytesOf ".c") = 0 ∧
    tokenize (FnFlags.ofNat 4) 5 (bytesOf "*\\.c") = [.star true, .lit 46, .lit 99] ∧
    tokenize (FnFlags.ofNat 6) 5 (bytesOf "*\\.c") = [.star false, .lit 92, .lit 46, .lit 99] ∧
    (∀ fl p1, dotNext fl p1 = true → ∃ p2, tokenize fl (p1.length + 1) p1 = .lit cDot :: tokenize fl (p2.length + 1) p2) := by
  refine ⟨by decide, by decide, by decide, by decide, by decide, by decide, by decide, by decide, by decide, ?_⟩
  intro fl p1 h
  exact dotNext_toks fl p1 h

example : dotNext (FnFlags.ofNat 4) (bytesOf "\\.c") = true ∧ dotNext (FnFlags.ofNat 6) (bytesOf "\\.c") = false := by
  decide

/-- NO RECURSION BUDGET: `wfnmatch` is iterative (one remembered retry point, no recursion, no
    depth limit), so `FNM_NOMATCH` is never a resource verdict.  In the model the loop gets the fuel
    `(|pat|+2)·(|str|+2)+8`; for EVERY pattern and subject, however long or star-laden, it ends within
    that fuel with 0 or 1 (the "out of fuel" value 2 is unreachable), and the tokeniser never runs
    out of its fuel either (more fuel gives the same tokens). -/
theorem fnmatch_no_budget (fl : FnFlags) (pat str : List Nat) (hs : ∀ c ∈ str, c ≠ 0) :
    (wfnmatch fl pat str = 0 ∨ wfnmatch fl pat str = 1) ∧
    (∀ f, pat.length < f → tokenize fl f pat = tokenize fl (pat.length + 1) pat) :=
  ⟨wfnmatch_01 fl pat str hs, fun f hf => tokenize_fuel fl pat f hf⟩

example : wfnmatch (FnFlags.ofNat 0) (bytesOf "*a*a*a*a*a*a*a*a*b") (bytesOf "aaaaaaaaaaaaaaaaaaaaaaaa") = 1 := by
  decide

/-- FNM_PERIOD INCLUDED.  `MatchesP` is the position-aware declarative semantics for every flag
    set: as `Matches`, but (1) a wildcard (`?`, bracket, `*`) never consumes a LEADING period under
    FNM_PERIOD (leading = start of the string, or right after `/` under FNM_PATHNAME), and (2) a
    `*` directly followed by a `.` written in the pattern (plain, or escaped: repair F41) cannot start where a wildcard could consume nothing
    (end of string, `/` under FNM_PATHNAME, leading period under FNM_PERIOD) — the glibc-style
    reading of `*.` that the code implements.  The mirror of the code's loop answers 0 EXACTLY
    when `MatchesP` holds, ends with 0 or 1, and the specification `fnmatchSpec` (reference matcher
    without FNM_PERIOD, mirror with it) is therefore declarative for all flag sets; without
    FNM_PERIOD the two semantics agree on every tokenised pattern. -/
theorem fnmatch_period_sound_complete (fl : FnFlags) (pat str : List Nat)
    (hp : ∀ c ∈ pat, c ≠ 0) (hs : ∀ c ∈ str, c ≠ 0) :
    (wfnmatch fl pat str = 0 ↔ MatchesP fl none (tokenize fl (pat.length + 1) pat) str) ∧
    (wfnmatch fl pat str = 0 ∨ wfnmatch fl pat str = 1) ∧
    (fnmatchSpec fl pat str = 0 ↔ MatchesP fl none (tokenize fl (pat.length + 1) pat) str) ∧
    (fl.period = false →
      (MatchesP fl none (tokenize fl (pat.length + 1) pat) str ↔
        Matches fl (tokenize fl (pat.length + 1) pat) str)) := by
  have h1 : wfnmatch fl pat str = 0 ↔ MatchesP fl none (tokenize fl (pat.length + 1) pat) str :=
    ⟨wfnmatch_soundP fl pat str hp hs, wfnmatch_completeP fl pat str hp hs⟩
  refine ⟨h1, wfnmatch_01 fl pat str hs, ?_, ?_⟩
  · cases hper : fl.period with
    | true => unfold fnmatchSpec; simp only [hper, if_true]; exact h1
    | false =>
      rw [← (fnmatch_code_sound_complete fl hper pat str hp hs).2.2.2]; exact h1
  · intro hper
    rw [← h1]
    exact (fnmatch_code_sound_complete fl hper pat str hp hs).1

example : wfnmatch (FnFlags.ofNat 4) (bytesOf "*.c") (bytesOf ".c") = 1 ∧
    ¬ MatchesP (FnFlags.ofNat 4) none [.star true, .lit 46, .lit 99] (bytesOf ".c") ∧
    MatchesP (FnFlags.ofNat 4) none [.lit 46, .star false] (bytesOf ".c") ∧
    wfnmatch (FnFlags.ofNat 5) (bytesOf "a/?b") (bytesOf "a/.b") = 1 ∧
    wfnmatch (FnFlags.ofNat 4) (bytesOf "a/?b") (bytesOf "a/.b") = 0 := by
  refine ⟨by decide, ?_, ?_, by decide, by decide⟩
  · intro h
    cases h with
    | starDot _ _ _ hd _ => exact absurd hd (by decide)
  · exact .lit _ 46 46 _ _ (by decide) (.starS _ 99 _ _ (by decide) (.star0 _ _ _ (.nil _)))

end UsualProps.C14
