/-! Property theorems for C01 (stub: not built yet). -/
