import UsualProofs.C01.Unlink
import UsualProofs.C01.LogInv
import UsualProofs.C01.StepStuck
import UsualProofs.C01.StepFuel
import UsualProofs.C01.Released
import UsualProofs.C01.Promoted
/-!
# C01 — talloc: an object lives exactly while some parent or reference holds it

Property-level theorems about the executable model `Usual.C01` (lean/Usual/C01/Talloc.lean) of
usual/talloc.c **as repaired by fixes/F15-talloc-throw-child-cx.patch** (`Cfg.fixed`); the
behaviour of the code as pinned (`Cfg.old`) is refuted by `…_old_counterexample`.

Reading guide
* `State` = heap of chunks (user objects, TRef chunks, `.memlimit` chunks) addressed by ids, the
  registered null context, the destructor/release log, and two ghost flags (`oof`: fuel of a
  model recursion exhausted; `stuck`: the `list_for_each_safe` protocol assertion failed).
  Both are PROVED never to be set by an operation on a well-formed state: `no_stuck` (the cursor
  of `free_children` is never lost and `free_children(ptr, true)` leaves no child behind) and
  `fuel_suffices` (the fuel `8 * heap.length + 16` the operations start from is enough for every
  recursion of the model); the theorems below carry no hypothesis about them beyond "clear in
  the state before", which holds in every reachable state.  The driver also prints both flags
  on every state of every correspondence run (never set).
* `wfOK : State → Bool` (lean/Usual/C01/Observe.lean) is the structural invariant, evaluated by
  the driver on every state: child lists ↔ parent fields, TRef chunks ↔ `refs` entries, no
  dangling id, internal chunks are leaves in front of the plain children, no FLAG_PENDING left.
* `Ranked rk s`: `rk` strictly increases from every holder (primary parent, referencing
  context) to what it holds and the null context ranks lowest — i.e. the holder graph is acyclic.
* `OpOK rk s op`: the arguments are live user objects and an operation that adds a holder edge
  (reference, steal, reparent) keeps the graph acyclic — the property's quantifier.
-/
namespace UsualProps.C01
open Usual.C01

/-- **wf_init**: the empty heap is well formed and acyclic. -/
theorem wf_init : wfOK {} = true ∧ ∀ rk, Ranked rk {} :=
  ⟨by decide, ranked_empty⟩

example : wfOK (runOps Cfg.fixed {} [.alloc none 8 false false, .alloc (some 0) 9 false false,
    .reference (some 0) 1 false]) = true := by decide

/-- **wf_step**: one public operation — any of them, `talloc_disable_null_tracking` included —
on a well-formed state with an acyclic holder graph, with arguments inside the property's
quantifier, gives a well-formed state with an acyclic holder graph — child lists and parent
fields agree, TRef chunks and reference lists agree, no id dangles, no FLAG_PENDING survives,
for any placement of references and refusing destructors.  The two ghost flags of the model are
clear before the operation (they are in every reachable state) and, by `no_stuck` and
`fuel_suffices`, clear afterwards — part of the conclusion. -/
theorem wf_step (s : State) (op : Op) (rk : Nat → Nat)
    (hwf : wfOK s = true) (hrk : Ranked rk s) (hop : OpOK rk s op) (hst : s.stuck = false)
    (hoo : s.oof = false) :
    wfOK (step Cfg.fixed s op).1 = true ∧ (∃ rk', Ranked rk' (step Cfg.fixed s op).1) ∧
    (step Cfg.fixed s op).1.stuck = false ∧ (step Cfg.fixed s op).1.oof = false := by
  have hoof := step_oof Cfg.fixed rfl op ((wfOK_iff s).1 hwf) hrk hop hst hoo
  have hstuck := step_stuck Cfg.fixed rfl op ((wfOK_iff s).1 hwf) hrk hop hst hoof
  obtain ⟨h1, h2⟩ := step_wf Cfg.fixed rfl op ((wfOK_iff s).1 hwf) hrk hop hoof hstuck
  exact ⟨(wfOK_iff _).2 h1, h2, hstuck, hoof⟩

/-- **fuel_suffices**: on a well-formed state with an acyclic holder graph no recursion of the
model — the mutual recursion of `_talloc_free` / `_talloc_unlink` / `free_children`, the climbs of
`apply_memlimit` and `throw_child`, the walk of `memlimit_walk` — exhausts the fuel
`8 * heap.length + 16` a public operation starts with (free needs at most
`5 * (live chunks in the subtree)`, the climbs and walks at most the height of the tree). -/
theorem fuel_suffices (s : State) (op : Op) (rk : Nat → Nat)
    (hwf : wfOK s = true) (hrk : Ranked rk s) (hop : OpOK rk s op) (hst : s.stuck = false)
    (hoo : s.oof = false) : (step Cfg.fixed s op).1.oof = false :=
  step_oof Cfg.fixed rfl op ((wfOK_iff s).1 hwf) hrk hop hst hoo

/-- **no_stuck**: the `list_for_each_safe` protocol of `free_children` holds in every operation on
a well-formed state: the prefetched cursor is still a child of the context when the loop
returns to it (whatever the body freed, promoted to a referencing context or handed to an
ancestor by `throw_child`), and `free_children(ptr, true)` leaves no child behind when
`_talloc_free` releases `ptr`.  The ghost flag that records a violation is never set. -/
theorem no_stuck (s : State) (op : Op) (rk : Nat → Nat)
    (hwf : wfOK s = true) (hrk : Ranked rk s) (hop : OpOK rk s op) (hst : s.stuck = false)
    (hoo : s.oof = false) : (step Cfg.fixed s op).1.stuck = false :=
  (wf_step s op rk hwf hrk hop hst hoo).2.2.1

/-- states reachable by operations inside the quantifier -/
inductive Reach : State → Prop
  | init : Reach {}
  | step (s : State) (op : Op) (rk : Nat → Nat) : Reach s → Ranked rk s → OpOK rk s op →
      Reach (step Cfg.fixed s op).1

/-- **wf_reachable**: the invariant holds in every reachable state (induction over op lists), and
both ghost flags are clear. -/
theorem wf_reachable (s : State) (h : Reach s) :
    wfOK s = true ∧ (∃ rk, Ranked rk s) ∧ s.stuck = false ∧ s.oof = false := by
  induction h with
  | init => exact ⟨wf_init.1, ⟨fun _ => 0, wf_init.2 _⟩, rfl, rfl⟩
  | step s op rk _ hrk hop ih => exact wf_step s op rk ih.1 hrk hop ih.2.2.1 ih.2.2.2

/-- non-vacuity: a refusing destructor under a `talloc_from_cx` root (the F15 history) is inside
the quantifier, runs with clear flags and ends well formed -/
example :
    let s := runOps Cfg.fixed {} [.alloc none 10 true false, .alloc (some 0) 10 false false,
      .setDtor 1 (.refuse 1), .free 0]
    wfOK s = true ∧ s.oof = false ∧ s.stuck = false ∧ s.live 1 = true ∧ s.live 0 = false := by decide

/-- **F15** (code as pinned): `talloc_from_cx` root, child whose destructor refuses,
`talloc_free(root)` — `throw_child`'s `talloc_reparent` is refused by the cx check, the root is
released and the live child keeps a parent id that is gone (use after free in C). -/
theorem wf_step_old_counterexample :
    wfOK (runOps Cfg.old {} [.alloc none 10 true false, .alloc (some 0) 10 false false,
      .setDtor 1 (.refuse 1), .free 0]) = false := by decide

/-! ## held ⇔ live -/

/-- **live_iff_held**: in a well-formed state, whatever a live context lists as child or a live
TRef chunk targets is live (no holder edge dangles), and every live object is either top level
(held by the NULL context) or listed by its live parent.  `HeldBy` / `TopLevel` are defined in
UsualProofs/C01/Held.lean. -/
theorem live_iff_held (s : State) (hwf : wfOK s = true) (x : Nat) :
    (HeldBy s x → s.live x = true) ∧ (s.live x = true → HeldBy s x ∨ TopLevel s x) :=
  ⟨held_live ((wfOK_iff s).1 hwf) x, live_held ((wfOK_iff s).1 hwf) x⟩

example :
    let s := runOps Cfg.fixed {} [.alloc none 8 false false, .alloc (some 0) 9 false false]
    s.live 1 = true ∧ (∃ pb, s.get 0 = some pb ∧ 1 ∈ pb.children) := by
  refine ⟨by decide, _, rfl, by decide⟩

/-- **unlink_nonlast_keeps** (a referencing context lets go): the TRef chunk of that context is
released; the object stays live with the same primary parent, the same children, and one
reference less. -/
theorem unlink_nonlast_keeps (s : State) (rk : Nat → Nat) (hwf : wfOK s = true) (hrk : Ranked rk s)
    (ctx : Option Id) (o : Nat) (ob : Obj) (hob : s.get o = some ob) (hnp : ob.parent ≠ orNull s ctx)
    (r : Nat) (hr : findRefByParent s (orNull s ctx) ob.refs = some r) :
    (step Cfg.fixed s (.unlink ctx o)).2 = 0 ∧
    ∃ ob', (step Cfg.fixed s (.unlink ctx o)).1.get o = some ob' ∧ ob'.parent = ob.parent ∧
      ob'.refs = ob.refs.erase r ∧ ob'.children = ob.children ∧ ob'.kind = ob.kind ∧
      (step Cfg.fixed s (.unlink ctx o)).1.get r = none :=
  unlink_ref_keeps Cfg.fixed ((wfOK_iff s).1 hwf) hrk ctx o ob hob hnp r hr

/-- **unlink_nonlast_keeps** (the primary parent lets go while references exist): the object
stays live, keeps its children, becomes the LAST child of the context of its FIRST reference,
and that TRef chunk is released. -/
theorem unlink_primary_keeps (s : State) (rk : Nat → Nat) (hwf : wfOK s = true) (hrk : Ranked rk s)
    (ctx : Option Id) (o : Nat) (ob : Obj) (hob : s.get o = some ob) (hprim : ob.parent = orNull s ctx)
    (r : Nat) (rest : List Id) (hrefs : ob.refs = r :: rest) :
    ∃ rb, s.get r = some rb ∧ (step Cfg.fixed s (.unlink ctx o)).2 = 0 ∧
    ∃ ob', (step Cfg.fixed s (.unlink ctx o)).1.get o = some ob' ∧ ob'.parent = rb.parent ∧
      ob'.refs = rest ∧ ob'.children = ob.children ∧ ob'.kind = ob.kind ∧
      (step Cfg.fixed s (.unlink ctx o)).1.get r = none ∧
      (∀ q, rb.parent = some q → ∃ qb', (step Cfg.fixed s (.unlink ctx o)).1.get q = some qb' ∧
        qb'.children.getLast? = some o) :=
  unlink_primary_promotes Cfg.fixed ((wfOK_iff s).1 hwf) hrk ctx o ob hob hprim r rest hrefs

example :
    let s := runOps Cfg.fixed {} [.alloc none 0 false false, .alloc (some 0) 0 false false,
      .alloc (some 0) 0 false false, .alloc (some 1) 9 false false, .reference (some 2) 3 false,
      .unlink (some 1) 3]
    (s.get 3).map (·.parent) = some (some 2) ∧ (s.get 3).map (·.refs) = some [] := by decide

/-- **unlink_last_releases**: when the last link of `o` goes — no reference, `ctx` is the primary
parent — and every destructor in the subtree of `o` accepts, then
* the call answers 0 and the heap is well formed again;
* `o` and EVERY descendant that is reached from `o` through objects without references of their
  own (`Clean s o y`: user objects, their TRef chunks, `.memlimit` chunks) is released;
* everything outside the subtree (TRef chunks aside — those that point into the subtree are
  released with their targets' promotion) is untouched: still live, same parent, same destructor,
  and it keeps every such child.
A descendant `z` that has references of its own is not released by this call: `_talloc_unlink`
makes the context of its first reference its parent (`unlink_primary_keeps` is that step), with
the subtree of `z` hanging under it; if that context is itself inside the subtree being freed,
`z` is visited again when the context is freed.  Where such a `z` hangs in the end is
`unlink_last_survivors` below.  `Clean`, `AllAccept`: UsualProofs/C01/Released.lean. -/
theorem unlink_last_releases (s : State) (rk : Nat → Nat) (hwf : wfOK s = true) (hrk : Ranked rk s)
    (ctx : Option Id) (o : Nat) (ob : Obj) (hob : s.get o = some ob) (hk : ob.kind = .plain)
    (hnull : s.nullCtx ≠ some o) (hprim : ob.parent = orNull s ctx) (hrefs : ob.refs = [])
    (hst : s.stuck = false) (hoo : s.oof = false) (hacc : AllAccept s o) :
    (step Cfg.fixed s (.unlink ctx o)).2 = 0 ∧ wfOK (step Cfg.fixed s (.unlink ctx o)).1 = true ∧
    (∀ y, Clean s o y → (step Cfg.fixed s (.unlink ctx o)).1.get y = none) ∧
    (∀ (y : Nat) yb, s.get y = some yb → ¬ InSub s o y → ¬ isRefAt s y →
      ∃ yb', (step Cfg.fixed s (.unlink ctx o)).1.get y = some yb' ∧ yb'.parent = yb.parent ∧
        yb'.dtor = yb.dtor ∧ ∀ z ∈ yb.children, ¬ InSub s o z → ¬ isRefAt s z → z ∈ yb'.children) := by
  have w := (wfOK_iff s).1 hwf
  have i : Inv rk s := ⟨w.toWFp, hrk⟩
  have hop : OpOK rk s (.unlink ctx o) := ⟨ob, hob, hk, hnull⟩
  have hoof := step_oof Cfg.fixed rfl (.unlink ctx o) w hrk hop hst hoo
  have hstuck := step_stuck Cfg.fixed rfl (.unlink ctx o) w hrk hop hst hoof
  obtain ⟨h1, -⟩ := step_wf Cfg.fixed rfl (.unlink ctx o) w hrk hop hoof hstuck
  obtain ⟨hrc, hgone⟩ := (run_released Cfg.fixed rfl rk s.fuel).2.1 s ctx o ob i hob hk hrefs (w.noPending o ob hob)
    hprim hnull (pendBelow_of_wf w _ _) (pendNR_of_wf w _) hst hacc hoof
  obtain ⟨-, hkeep, -⟩ := (run_out Cfg.fixed rfl rk s.fuel).2.1 s ctx o ob i hob hk (w.noPending o ob hob)
    hprim hnull (pendBelow_of_wf w _ _) (pendNR_of_wf w _) hst hoof
  refine ⟨hrc, (wfOK_iff _).2 h1, hgone, ?_⟩
  intro y yb hy hout hnr
  obtain ⟨yb', g1, g2, -, g4, -⟩ := hkeep.keep y yb ⟨hout, hnr⟩ hy
  exact ⟨yb', g1, g2, (hkeep.fields y yb yb' ⟨hout, hnr⟩ hy g1).1, fun z hz h1 h2 => g4 z hz ⟨h1, h2⟩⟩

/-- **unlink_last_survivors** — the final parent of what survives: under the hypotheses of
`unlink_last_releases`, every user object `z` that is live before and after the call
* has gained no reference (`refs` afterwards ⊆ `refs` before), and
* hangs where it hung before, or under the context of one of the references it had before
  (`rb.parent` for a TRef chunk `r ∈ refs` of `z`) — however many promotions it went through;
and if its old parent is among the released objects (`Clean s o p`) the first alternative is
impossible: a surviving descendant ends up as child of a context that referenced it. -/
theorem unlink_last_survivors (s : State) (rk : Nat → Nat) (hwf : wfOK s = true) (hrk : Ranked rk s)
    (ctx : Option Id) (o : Nat) (ob : Obj) (hob : s.get o = some ob) (hk : ob.kind = .plain)
    (hnull : s.nullCtx ≠ some o) (hprim : ob.parent = orNull s ctx) (hrefs : ob.refs = [])
    (hst : s.stuck = false) (hoo : s.oof = false) (hacc : AllAccept s o)
    (z : Nat) (zb zb' : Obj) (hz : s.get z = some zb) (hzk : zb.kind = .plain)
    (hz' : (step Cfg.fixed s (.unlink ctx o)).1.get z = some zb') :
    (∀ r ∈ zb'.refs, r ∈ zb.refs) ∧
    (zb'.parent = zb.parent ∨ ∃ r ∈ zb.refs, ∃ rb, s.get r = some rb ∧ rb.parent = zb'.parent) ∧
    (∀ p, zb.parent = some p → Clean s o p →
      ∃ r ∈ zb.refs, ∃ rb, s.get r = some rb ∧ rb.parent = zb'.parent) := by
  have w := (wfOK_iff s).1 hwf
  have i : Inv rk s := ⟨w.toWFp, hrk⟩
  have hop : OpOK rk s (.unlink ctx o) := ⟨ob, hob, hk, hnull⟩
  have hoof := step_oof Cfg.fixed rfl (.unlink ctx o) w hrk hop hst hoo
  obtain ⟨-, hpv⟩ := (run_pv Cfg.fixed rfl rk s.fuel).2.1 s ctx o ob i hob hk (w.noPending o ob hob)
    hprim hnull (pendBelow_of_wf w _ _) (pendNR_of_wf w _) hst hacc hoof
  obtain ⟨h1, h2⟩ := hpv z zb zb' hz hz' hzk
  refine ⟨h1, h2, ?_⟩
  intro p hp hcl
  rcases h2 with e | h
  · exfalso
    obtain ⟨-, hwf', hgone, -⟩ := unlink_last_releases s rk hwf hrk ctx o ob hob hk hnull hprim hrefs hst hoo hacc
    have w' := (wfOK_iff _).1 hwf'
    obtain ⟨po, hpo, -⟩ := w'.parentLive z zb' p hz' (by rw [e]; exact hp)
    rw [hgone p hcl] at hpo; cases hpo
  · exact h

/-- non-vacuity: object 2 (child of 1) is referenced from context 5 outside the freed subtree and
from context 3 inside it; `talloc_unlink(0, 1)` releases 1, 3 and both TRef chunks' owners as far
as they are inside, and 2 ends up under 5 with no reference left -/
example :
    let s := runOps Cfg.fixed {} [.alloc none 0 false false, .alloc (some 0) 9 false false,
      .alloc (some 1) 9 false false, .alloc (some 1) 9 false false, .alloc (some 2) 7 false false,
      .alloc (some 0) 1 false false, .reference (some 3) 2 false, .reference (some 5) 2 false]
    let s' := (step Cfg.fixed s (.unlink (some 0) 1)).1
    s'.live 1 = false ∧ s'.live 3 = false ∧ s'.live 2 = true ∧ s'.live 4 = true ∧
    (s'.get 2).map (·.parent) = some (some 5) ∧ (s'.get 2).map (·.refs) = some [] ∧
    (s'.get 4).map (·.parent) = some (some 2) := by decide

/-- non-vacuity: a subtree with a child, a grandchild, a TRef chunk and a `.memlimit` chunk, all
reached without passing a referenced object, is released completely; a sibling keeps its place -/
example :
    let s := runOps Cfg.fixed {} [.alloc none 0 false false, .alloc (some 0) 9 false false,
      .alloc (some 1) 9 false false, .alloc (some 2) 9 false false, .alloc (some 0) 1 false false,
      .reference (some 1) 4 false, .setLimit 2 5000 false, .setDtor 3 .accept]
    let s' := (step Cfg.fixed s (.unlink (some 0) 1)).1
    s'.live 1 = false ∧ s'.live 2 = false ∧ s'.live 3 = false ∧ s'.live 5 = false ∧ s'.live 6 = false ∧
    s'.live 4 = true ∧ (s'.get 4).map (·.parent) = some (some 0) ∧ (s'.get 4).map (·.refs) = some [] := by decide

example :
    let s := runOps Cfg.fixed {} [.alloc none 0 false false, .alloc (some 0) 9 false false,
      .alloc (some 1) 9 false false, .setDtor 2 (.refuse 1), .unlink (some 0) 1]
    s.live 1 = false ∧ s.live 2 = true ∧ (s.get 2).map (·.parent) = some (some 0) := by decide

/-! ## a failed operation changes nothing -/

/-- **failed_op_unchanged**: an operation that answers -1 / NULL — `talloc_free` of a referenced
top-level object or with a refusing destructor, `talloc_steal` / `talloc_realloc` of a
referenced object, a cx mismatch in `talloc_reparent`, `talloc_unlink` from a context that does
not hold the object, an allocation that is too large, refused by a memory limit or failed by the
allocator — leaves the heap and the null context exactly as they were, up to the destructor
scripts (a refusal is counted) and the memlimit counters (treated exactly by C19).
`absState` is defined in lean/Usual/C01/Observe.lean. -/
theorem failed_op_unchanged (s : State) (op : Op) (rk : Nat → Nat) (hwf : wfOK s = true) (hrk : Ranked rk s)
    (h : (step Cfg.fixed s op).2 = -1) : absState (step Cfg.fixed s op).1 = absState s :=
  absState_eq_of_absEq (step_fail_absEq Cfg.fixed rk s ((wfOK_iff s).1 hwf).toWFp hrk op h)

example :
    let s := runOps Cfg.fixed {} [.alloc none 8 false false, .alloc none 8 false false, .reference (some 1) 0 false]
    (step Cfg.fixed s (.free 0)).2 = -1 ∧ (step Cfg.fixed s (.steal (some 1) 0)).2 = -1 ∧
    (step Cfg.fixed s (.realloc none 0 100 false)).2 = -1 := by decide

/-! ## talloc_move -/

/-- **move_failure_changes_nothing**: a `talloc_move(new_parent, &var)` that answers NULL — the
object has a reference, or the new parent lives in another CxMem — leaves the caller's variable
pointing to the object and the heap as it was (`moveOp`: lean/Usual/C01/Talloc.lean; result =
state, returned pointer, value of the variable afterwards).  The harness reads the variable back
after every `move`. -/
theorem move_failure_changes_nothing (s : State) (rk : Nat → Nat) (hwf : wfOK s = true) (hrk : Ranked rk s)
    (newp : Option Id) (o : Id) (h : (moveOp Cfg.fixed s newp o).2.1 = none) :
    (moveOp Cfg.fixed s newp o).2.2 = some o ∧ absState (moveOp Cfg.fixed s newp o).1 = absState s := by
  unfold moveOp at h ⊢
  by_cases hrc : (step Cfg.fixed s (.steal newp o)).2 = 0
  · simp [hrc] at h
  · simp only [hrc, if_false]
    refine ⟨trivial, ?_⟩
    have hor : (step Cfg.fixed s (.steal newp o)).2 = 0 ∨ (step Cfg.fixed s (.steal newp o)).2 = -1 := by
      simp only [step]
      split
      · exact Or.inr rfl
      · split
        · exact Or.inr rfl
        · split
          · exact Or.inl rfl
          · exact Or.inr rfl
    have hm1 : (step Cfg.fixed s (.steal newp o)).2 = -1 := hor.resolve_left hrc
    exact failed_op_unchanged s (.steal newp o) rk hwf hrk hm1

/-- **move_success_is_steal**: a `talloc_move` that answers the pointer has set the caller's
variable to NULL, and the heap is exactly what `talloc_steal(new_parent, ptr)` makes of it. -/
theorem move_success_is_steal (s : State) (newp : Option Id) (o : Id) (p : Id)
    (h : (moveOp Cfg.fixed s newp o).2.1 = some p) :
    p = o ∧ (moveOp Cfg.fixed s newp o).2.2 = none ∧
    (moveOp Cfg.fixed s newp o).1 = (step Cfg.fixed s (.steal newp o)).1 ∧
    (step Cfg.fixed s (.steal newp o)).2 = 0 := by
  unfold moveOp at h ⊢
  by_cases hrc : (step Cfg.fixed s (.steal newp o)).2 = 0
  · simp only [hrc, if_true, Option.some.injEq] at h ⊢
    exact ⟨h.symm, trivial, trivial, trivial⟩
  · simp [hrc] at h

/-- non-vacuity: a move of a referenced object fails and keeps the variable, a move across
allocation contexts fails too, a move onto a sibling works and clears the variable -/
example :
    let s := runOps Cfg.fixed {} [.alloc none 8 false false, .alloc none 8 false false,
      .alloc (some 0) 8 false false, .reference (some 1) 2 false, .alloc none 8 true false]
    (moveOp Cfg.fixed s (some 1) 2).2 = (none, some 2) ∧ (moveOp Cfg.fixed s (some 0) 4).2 = (none, some 4) ∧
    (moveOp Cfg.fixed s (some 1) 0).2 = (some 0, none) := by decide

/-! ## everything is returned -/

/-- **all_roots_freed_balanced**: in a well-formed state with acyclic holder graph every live
chunk hangs below a top-level object; hence once no top-level object is left, no chunk is
left: all memory obtained from either allocation context has been returned. -/
theorem all_roots_freed_balanced (s : State) (rk : Nat → Nat) (hwf : wfOK s = true) (hrk : Ranked rk s)
    (hroots : ∀ x, ¬ TopLevel s x) : (∀ x : Nat, s.get x = none) ∧ ∀ cx, liveRegions s cx = 0 := by
  have h := no_roots_no_objects ((wfOK_iff s).1 hwf) hrk hroots
  exact ⟨h, liveRegions_zero h⟩

example :
    let s := runOps Cfg.fixed {} [.alloc none 8 true false, .alloc (some 0) 8 false false,
      .alloc (some 1) 8 false false, .reference (some 0) 2 false, .free 0]
    liveRegions s 0 = 0 ∧ liveRegions s 1 = 0 := by decide

/-! ## destructors -/

/-- the log invariant holds in every reachable state -/
theorem reach_logInv (s : State) (h : Reach s) : LogInv s := by
  induction h with
  | init => exact logInv_empty
  | step s op rk _ _ _ ih => exact step_logInv Cfg.fixed s op ih

/-- **dtor_exactly_once** — for EVERY history of public operations from the empty heap, with any
arguments and in either configuration of the model (no well-formedness hypothesis,
`talloc_disable_null_tracking` included), and any further operation `op`:

(a) the destructor / release log (`State.log`, newest event first; the C harness prints the same
log) is well formed in the sense of `LogWF` (UsualProofs/C01/LogInv.lean): an accepting
destructor call of `x` is logged only if no accepting call and no release of `x` has happened
before (an accepted destructor never runs again — the FLAG_PENDING guard answers a re-entrant
`talloc_free(self)` — also with several references or when reached again through
`free_children`); a refusing call likewise; `x` is released only if not released before.  Hence
at most one accepted call and at most one release per object, and a released id is dead.

(b) an object that is live, not being freed and has a destructor set before `op`, and is gone
after `op`, had no accepting destructor call before `op`, has exactly one in the log after
`op` — so the destructor ran (accepted) exactly once, during the operation that released the
object — and its release is in the log.  (`xb.pending = false` holds for every object between
operations, see `wf_reachable`.) -/
theorem dtor_exactly_once (cfg : Cfg) (ops : List Op) (op : Op) (x : Id) (xb : Obj) :
    LogWF (step cfg (runOps cfg {} ops) op).1.log ∧
    (step cfg (runOps cfg {} ops) op).1.log.count (Event.dtorOk x) ≤ 1 ∧
    (step cfg (runOps cfg {} ops) op).1.log.count (Event.release x) ≤ 1 ∧
    (Event.release x ∈ (step cfg (runOps cfg {} ops) op).1.log → (step cfg (runOps cfg {} ops) op).1.get x = none) ∧
    ((runOps cfg {} ops).get x = some xb → xb.dtor ≠ .none → xb.pending = false →
      (step cfg (runOps cfg {} ops) op).1.get x = none →
      Event.dtorOk x ∉ (runOps cfg {} ops).log ∧
      (step cfg (runOps cfg {} ops) op).1.log.count (Event.dtorOk x) = 1 ∧
      Event.release x ∈ (step cfg (runOps cfg {} ops) op).1.log) := by
  have i0 := runOps_logInv cfg ops {} logInv_empty
  have i := step_logInv cfg _ op i0
  refine ⟨i.wf, (i.wf.counts x).2, (i.wf.counts x).1, i.relDead x, ?_⟩
  intro hx hd hp hgone
  have hran := step_released_ran cfg _ op x xb hx hd hp hgone
  refine ⟨(i0.fresh hx hp).1, ?_, ?_⟩
  · have h1 := (i.wf.counts x).2
    have h2 : 0 < (step cfg (runOps cfg {} ops) op).1.log.count (Event.dtorOk x) := List.count_pos_iff.2 hran
    omega
  · rcases i.okRel x hran with h | ⟨xb', h1, -⟩
    · exact h
    · rw [hgone] at h1; cases h1

/-- the log of every history (the statement of (a) for the history itself) -/
theorem dtor_log_wellformed (cfg : Cfg) (ops : List Op) (x : Id) :
    LogWF (runOps cfg {} ops).log ∧
    (runOps cfg {} ops).log.count (Event.dtorOk x) ≤ 1 ∧
    (runOps cfg {} ops).log.count (Event.release x) ≤ 1 ∧
    (Event.release x ∈ (runOps cfg {} ops).log → (runOps cfg {} ops).get x = none) := by
  have i := runOps_logInv cfg ops {} logInv_empty
  exact ⟨i.wf, (i.wf.counts x).2, (i.wf.counts x).1, i.relDead x⟩

/-- **accepted_is_released**: between operations (reachable states: nothing is pending), an
object whose destructor has accepted has been released — acceptance and release happen in the
same `talloc_free` / `talloc_unlink` / `talloc_free_children`. -/
theorem accepted_is_released (s : State) (h : Reach s) (x : Id) (hx : Event.dtorOk x ∈ s.log) :
    Event.release x ∈ s.log ∧ s.get x = none := by
  have i := reach_logInv s h
  have w := (wfOK_iff s).1 (wf_reachable s h).1
  rcases i.okRel x hx with h1 | ⟨xb, h1, h2⟩
  · exact ⟨h1, i.relDead x h1⟩
  · rw [w.noPending x xb h1] at h2; cases h2

/-- non-vacuity: a destructor that refuses once and then accepts, on an object with a reference,
freed twice; and a destructor that re-enters `talloc_free(self)`: each accepted once -/
example :
    let s := runOps Cfg.fixed {} [.alloc none 8 false false, .alloc (some 0) 8 false false,
      .setDtor 1 (.refuse 1), .free 1, .free 1, .alloc (some 0) 8 false false, .setDtor 2 .reenter, .free 0]
    s.log = [.release 0, .release 2, .dtorOk 2, .release 1, .dtorOk 1, .dtorRefuse 1] := by decide

end UsualProps.C01
