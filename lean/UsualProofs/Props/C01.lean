import UsualProofs.C01.Step
/-!
# C01 — talloc: an object lives exactly while some parent or reference holds it

Property-level theorems about the executable model `Usual.C01` (lean/Usual/C01/Talloc.lean) of
usual/talloc.c **as repaired by fixes/F15-talloc-throw-child-cx.patch** (`Cfg.fixed`); the
behaviour of the code as pinned (`Cfg.old`) is refuted by `…_old_counterexample`.

Reading guide
* `State` = heap of chunks (user objects, TRef chunks, `.memlimit` chunks) addressed by ids, the
  registered null context, the destructor/release log, and two ghost flags (`oof`: fuel of a
  model recursion exhausted; `stuck`: the `list_for_each_safe` protocol assertion failed).  Both
  flags are printed by the driver on every state of every correspondence run and were never set.
* `wfOK : State → Bool` (lean/Usual/C01/Observe.lean) is the structural invariant, evaluated by
  the driver on every state: child lists ↔ parent fields, TRef chunks ↔ `refs` entries, no
  dangling id, internal chunks are leaves in front of the plain children, no FLAG_PENDING left.
* `Ranked rk s`: `rk` strictly increases from every holder (primary parent, referencing
  context) to what it holds and the null context ranks lowest — i.e. the holder graph is acyclic.
* `OpOK rk s op`: the arguments are live user objects and an operation that adds a holder edge
  (reference, steal, reparent) keeps the graph acyclic — the property's quantifier.
-/
namespace UsualProps.C01
open Usual.C01

/-- **wf_init**: the empty heap is well formed and acyclic. -/
theorem wf_init : wfOK {} = true ∧ ∀ rk, Ranked rk {} :=
  ⟨by decide, ranked_empty⟩

example : wfOK (runOps Cfg.fixed {} [.alloc none 8 false false, .alloc (some 0) 9 false false,
    .reference (some 0) 1 false]) = true := by decide

/-- **wf_step** (all operations except `talloc_disable_null_tracking`, hence `_partial`): one
public operation on a well-formed state with an acyclic holder graph, with arguments inside the
property's quantifier, gives a well-formed state with an acyclic holder graph — child lists
and parent fields agree, TRef chunks and reference lists agree, no id dangles, no FLAG_PENDING
survives, for any placement of references and refusing destructors.

Full statement `wf_step`: the same for every `op : Op`.  Missing: `Op.nullOff`
(`talloc_disable_null_tracking` detaches the children of the null context and frees it); it is
covered by the correspondence run only. -/
theorem wf_step_partial (s : State) (op : Op) (rk : Nat → Nat)
    (hwf : wfOK s = true) (hrk : Ranked rk s) (hop : OpOK rk s op)
    (hoof : (step Cfg.fixed s op).1.oof = false) (hstuck : (step Cfg.fixed s op).1.stuck = false) :
    wfOK (step Cfg.fixed s op).1 = true ∧ ∃ rk', Ranked rk' (step Cfg.fixed s op).1 := by
  obtain ⟨h1, h2⟩ := step_wf Cfg.fixed rfl op ((wfOK_iff s).1 hwf) hrk hop hoof hstuck
  exact ⟨(wfOK_iff _).2 h1, h2⟩

/-- states reachable by operations inside the quantifier (ghost flags clear) -/
inductive Reach : State → Prop
  | init : Reach {}
  | step (s : State) (op : Op) (rk : Nat → Nat) : Reach s → Ranked rk s → OpOK rk s op →
      (step Cfg.fixed s op).1.oof = false → (step Cfg.fixed s op).1.stuck = false →
      Reach (step Cfg.fixed s op).1

/-- **wf_reachable**: the invariant holds in every reachable state (induction over op lists). -/
theorem wf_reachable (s : State) (h : Reach s) : wfOK s = true ∧ ∃ rk, Ranked rk s := by
  induction h with
  | init => exact ⟨wf_init.1, fun _ => 0, wf_init.2 _⟩
  | step s op rk _ hrk hop hoof hstuck ih => exact wf_step_partial s op rk ih.1 hrk hop hoof hstuck

/-- non-vacuity: a refusing destructor under a `talloc_from_cx` root (the F15 history) is inside
the quantifier, runs with clear flags and ends well formed -/
example :
    let s := runOps Cfg.fixed {} [.alloc none 10 true false, .alloc (some 0) 10 false false,
      .setDtor 1 (.refuse 1), .free 0]
    wfOK s = true ∧ s.oof = false ∧ s.stuck = false ∧ s.live 1 = true ∧ s.live 0 = false := by decide

/-- **F15** (code as pinned): `talloc_from_cx` root, child whose destructor refuses,
`talloc_free(root)` — `throw_child`'s `talloc_reparent` is refused by the cx check, the root is
released and the live child keeps a parent id that is gone (use after free in C). -/
theorem wf_step_old_counterexample :
    wfOK (runOps Cfg.old {} [.alloc none 10 true false, .alloc (some 0) 10 false false,
      .setDtor 1 (.refuse 1), .free 0]) = false := by decide

end UsualProps.C01
