/-! Property theorems for C09 (stub: not built yet). -/
