import UsualProofs.C09.SafeMulProofs
import UsualProofs.C09.PoolMem
import UsualProofs.C09.PoolWrap
/-! Property theorems for C09 — allocators hand out aligned, disjoint, stable blocks and return
    all memory; size computations never wrap.

    Models: `Usual.C09.{SafeMul,Pool,TreeAlloc,Slab,MemPool}` (mirroring usual/bits.h,
    usual/cxextra.c, usual/slab.c, usual/mempool.c after the repairs F04, F05, F19, F20, F21).
    Spec notions (`Inv`, `Reach`, `OpOk`, `ParentOk`, `Block`, `copy`) are in
    `UsualProofs/C09/Pool{Inv,Hist,Mem,Wrap}.lean`. -/
namespace UsualProps.C09
open Usual.C09 UsualProofs.C09

/-! ## safe_mul_* -/

/-- `safe_mul_<type>` (any unsigned type of even bit-width `w`, operands in range) returns true
    exactly when the mathematical product fits into the type … -/
theorem safeMul_iff (w a b : Nat) (hw : w % 2 = 0) (ha : a < 2 ^ w) (hb : b < 2 ^ w) :
    (safeMul w a b).isSome ↔ a * b < 2 ^ w := by
  rw [safeMul_eq w a b hw ha hb]; split <;> simp_all

example : (safeMul 16 255 257).isSome ∧ ¬ (safeMul 16 256 256).isSome := by decide

/-- … and then stores exactly the product. -/
theorem safeMul_value (w a b r : Nat) (hw : w % 2 = 0) (ha : a < 2 ^ w) (hb : b < 2 ^ w)
    (h : safeMul w a b = some r) : r = a * b := by
  rw [safeMul_eq w a b hw ha hb] at h; split at h <;> simp_all

example : safeMul 8 15 17 = some 255 := by decide

/-- `reallocarray(p, count, size)` either fails before calling `realloc` or asks `realloc` for
    exactly `count·size` bytes (so what it delivers holds at least `count × size` bytes). -/
theorem reallocarray_ok (count size : Nat) (hc : count < 2 ^ 64) (hs : size < 2 ^ 64) :
    (reallocarrayReq count size = none ∧ 2 ^ 64 ≤ count * size) ∨
    reallocarrayReq count size = some (count * size) := by
  unfold reallocarrayReq
  rw [safeMul_eq 64 count size (by decide) hc hs]
  split
  · right; rfl
  · left; exact ⟨rfl, by omega⟩

example : reallocarrayReq (2 ^ 32) (2 ^ 32) = none ∧ reallocarrayReq (2 ^ 32) (2 ^ 31) = some (2 ^ 63) := by
  decide

/-- `talloc_array` & friends (`_talloc_const_name`): fails or allocates a payload of exactly
    `elem_size·count` bytes. -/
theorem talloc_array_ok (elem count : Nat) (he : elem < 2 ^ 64) (hc : count < 2 ^ 64) :
    (tallocArrayReq elem count = none ∧ 2 ^ 64 ≤ elem * count) ∨
    tallocArrayReq elem count = some (elem * count) := by
  unfold tallocArrayReq
  rw [safeMul_eq 64 elem count (by decide) he hc]
  split
  · right; rfl
  · left; exact ⟨rfl, by omega⟩

example : tallocArrayReq 24 1000 = some 24000 := by decide

/-- `talloc_realloc` (`_talloc_realloc`): fails or resizes to exactly `elem_size·count` bytes. -/
theorem talloc_realloc_ok (elem count n : Nat) (he : elem < 2 ^ 64) (hc : count < 2 ^ 64)
    (h : tallocReallocReq elem count = some n) : n = elem * count := by
  unfold tallocReallocReq at h
  rw [safeMul_eq 64 elem count (by decide) he hc] at h
  split at h
  · cases h
  · rename_i size heq
    split at heq
    · simp only [Option.some.injEq] at heq
      subst heq
      split at h
      · cases h
      · simp only [Option.some.injEq] at h; omega
    · cases heq

example : tallocReallocReq 8 3 = some 24 ∧ tallocReallocReq (2 ^ 33) (2 ^ 33) = none := by decide

/-! ## cx pool (cx_new_pool / cx_new_pool_from_area) -/

/-- In every state reachable by any history of `cx_alloc`/`cx_realloc`/`cx_free` on a pool created
    with any alignment and any initial area, over any parent that answers with fresh memory:
    every segment satisfies `seg_start ≤ seg_pos ≤ seg_end`, `seg_pos` is aligned (or the segment
    is the empty first segment of an area too small to hold an aligned byte), the window lies
    behind the header inside the region obtained from the parent, and the regions of different
    segments do not overlap. -/
theorem pool_inv {s : HState} (h : Reach s) :
    (∀ seg ∈ s.pool.segs,
      seg.start ≤ seg.pos ∧ seg.pos ≤ seg.stop ∧
      (seg.pos % s.pool.align = 0 ∨ seg.start = seg.stop) ∧
      seg.base < seg.hdrEnd ∧ seg.hdrEnd ≤ seg.start ∧ seg.stop ≤ seg.base + seg.size) ∧
    s.pool.segs.Pairwise (fun a b => a.base + a.size ≤ b.base ∨ b.base + b.size ≤ a.base) := by
  obtain ⟨hi, _⟩ := reach_inv h
  refine ⟨?_, hi.seg_disj⟩
  intro seg hseg
  obtain ⟨a1, a2, a3, a4, a5, _, a7⟩ := hi.seg_ok seg hseg
  exact ⟨a3, a4, a7, a1, a2, a5⟩

/-- a history used for the non-vacuity examples: pool of 1024 bytes, align 64, parent regions at
    addresses that are only 16-aligned; 1000 bytes, then 3000 bytes (new segment), shrink the
    last block to 5 bytes, 100 more bytes, free a non-last block -/
def exHist : HState :=
  let p0 := (newPool 1024 64 (some 100016)).get!
  let s0 : HState := ⟨p0, [], [(100016, newPoolReq 1024)]⟩
  let s1 := step s0 (.alloc 1000 none)
  let s2 := step s1 (.alloc 3000 (some 200016))
  let q := (s2.live.head!).ptr
  let s3 := step s2 (.realloc q 5 none)
  let s4 := step s3 (.alloc 100 none)
  step s4 (.free (s1.live.head!).ptr)

example : exHist.pool.segs.map (fun g => (g.start, g.pos, g.stop)) = [(200064, 200256, 204208), (100096, 101120, 101120)]
    ∧ exHist.live = [⟨200128, 100⟩, ⟨200064, 5⟩] := by decide

/-- Every block a pool returns from `cx_alloc` is aligned to the pool's alignment, lies inside
    one live segment — behind its header and inside the region obtained from the parent — and is
    disjoint from every block the client still holds. -/
theorem pool_block_ok {s : HState} {len q : Nat} {pa : Option Nat} {p' : Pool} (h : Reach s)
    (hok : OpOk s (.alloc len pa)) (hr : cxAlloc s.pool len pa = some (p', q)) :
    q % s.pool.align = 0 ∧
    (∃ seg ∈ p'.segs, seg.hdrEnd ≤ q ∧ seg.base < q ∧ q + len ≤ seg.pos ∧ seg.pos ≤ seg.base + seg.size) ∧
    (∀ b ∈ s.live, q + len ≤ b.ptr ∨ b.ptr + b.len ≤ q) := by
  have hs := step_inv (reach_inv h) hok
  simp only [step, hr] at hs
  obtain ⟨hi, _⟩ := hs
  have hal : p'.align = s.pool.align := by
    unfold cxAlloc at hr
    split at hr
    · cases hr
    · exact (alloc_align hr).1
  refine ⟨?_, ?_, ?_⟩
  · have := hi.blk_al ⟨q, len⟩ (List.mem_cons_self ..)
    rw [hal] at this; exact this
  · obtain ⟨seg, hseg, hin⟩ := hi.blk_in ⟨q, len⟩ (List.mem_cons_self ..)
    obtain ⟨a1, a2, a3, a4, a5, _, _⟩ := hi.seg_ok seg hseg
    simp only [InSeg] at hin
    exact ⟨seg, hseg, by omega, by omega, hin.2, by omega⟩
  · intro b hb
    have := (List.pairwise_cons.mp hi.blk_disj).1 b hb
    simp only [blkDisj] at this
    exact this

/-- The same for the block returned by `cx_realloc` (compared with the *other* blocks). -/
theorem pool_realloc_block_ok {s : HState} {ptr len q n : Nat} {pa : Option Nat} {p' : Pool}
    (h : Reach s) (hlen : len ≠ 0) (hok : OpOk s (.realloc ptr len pa))
    (hr : realloc s.pool ptr len pa = some (p', q, n)) :
    q % s.pool.align = 0 ∧
    (∃ seg ∈ p'.segs, seg.hdrEnd ≤ q ∧ seg.base < q ∧ q + len ≤ seg.pos ∧ seg.pos ≤ seg.base + seg.size) ∧
    (∀ b ∈ s.live, b.ptr ≠ ptr → q + len ≤ b.ptr ∨ b.ptr + b.len ≤ q) := by
  have hs := step_inv (reach_inv h) hok
  simp only [step, hlen, if_false, hr] at hs
  obtain ⟨hi, _⟩ := hs
  have hi0 := (reach_inv h).1
  have hal : p'.align = s.pool.align := by
    have := realloc_inv hi0 (Nat.pos_of_ne_zero hlen)
      (by simp only [OpOk, cxReallocReq, hlen, if_false] at hok; exact hok.2) hr
    -- alignment field never changes: read it off the model
    unfold realloc at hr
    split at hr
    · cases hr
    · split at hr
      · simp only [reallocOther] at hr
        cases hal : alloc s.pool len pa with
        | none => simp [hal] at hr
        | some r =>
          simp only [hal, Option.map_some, Option.some.injEq, Prod.mk.injEq] at hr
          rw [← hr.1]; exact (alloc_align (p' := r.1) (q := r.2) (by rw [hal])).1
      · split at hr
        · rename_i sg rest hsegs
          simp only [reallocLast] at hr
          split at hr
          · simp only [Option.some.injEq, Prod.mk.injEq] at hr
            rw [← hr.1]
          · cases hal : alloc s.pool (alignUp len s.pool.align) pa with
            | none => simp [hal] at hr
            | some r =>
              simp only [hal, Option.map_some, Option.some.injEq, Prod.mk.injEq] at hr
              rw [← hr.1]; exact (alloc_align (p' := r.1) (q := r.2) (by rw [hal])).1
        · cases hr
  refine ⟨?_, ?_, ?_⟩
  · have := hi.blk_al ⟨q, len⟩ (List.mem_cons_self ..)
    rw [hal] at this; exact this
  · obtain ⟨seg, hseg, hin⟩ := hi.blk_in ⟨q, len⟩ (List.mem_cons_self ..)
    obtain ⟨a1, a2, a3, a4, a5, _, _⟩ := hi.seg_ok seg hseg
    simp only [InSeg] at hin
    exact ⟨seg, hseg, by omega, by omega, hin.2, by omega⟩
  · intro b hb hne
    have := (List.pairwise_cons.mp hi.blk_disj).1 b (mem_dropPtr.mpr ⟨hb, hne⟩)
    simp only [blkDisj] at this
    exact this

/-- Contents are stable: `cx_realloc` on a pool delivers the first `min(old,new)` bytes of the
    block at the returned address; the `memcpy` it performs (if any) reads inside the used part of
    one segment and writes to a range that does not overlap the source; and the bytes of every
    other block the client holds are untouched.  (`cx_alloc`/`cx_free` write nothing but
    segment headers, which `pool_block_ok` places outside every block.) -/
theorem pool_realloc_preserves {s : HState} {ptr olen len q n : Nat} {pa : Option Nat} {p' : Pool}
    (m : Mem) (h : Reach s) (hb : ⟨ptr, olen⟩ ∈ s.live) (hlen : len ≠ 0)
    (hok : OpOk s (.realloc ptr len pa)) (hr : realloc s.pool ptr len pa = some (p', q, n)) :
    (∀ i, i < min olen len → copy m q ptr n (q + i) = m (ptr + i)) ∧
    (n = 0 ∨ ((q + n ≤ ptr ∨ ptr + n ≤ q) ∧ ∃ t ∈ s.pool.segs, t.start ≤ ptr ∧ ptr + n ≤ t.pos)) ∧
    (∀ b ∈ s.live, b.ptr ≠ ptr → ∀ i, i < b.len → copy m q ptr n (b.ptr + i) = m (b.ptr + i)) := by
  simp only [OpOk, cxReallocReq, hlen, if_false] at hok
  exact realloc_mem m (reach_inv h).1 hb hok.2 hr

/-- `cx_destroy(pool)` hands back to the parent exactly the regions the pool obtained from it
    (the area of `cx_new_pool` and one region per segment; for `cx_new_pool_from_area` the area
    only when `allow_free` was given), each exactly once. -/
theorem pool_destroy_returns_once {s : HState} (h : Reach s) :
    destroy s.pool = s.obtained.reverse ∧ (destroy s.pool).Nodup := by
  obtain ⟨hi, ho⟩ := reach_inv h
  exact ⟨ho.2, destroy_nodup hi⟩

example : destroy exHist.pool = [(200016, 4192), (100016, 1104)] ∧ exHist.obtained = [(100016, 1104), (200016, 4192)] := by
  decide

/-- Size computations of `pool_alloc` never wrap: for every request the pool does not refuse
    outright (`size ≤ SIZE_MAX/4`), in any reachable state whose regions lie below 2^62,
    the sum inside `CUSTOM_ALIGN`, the aligned size, `seg_pos + size`, twice the segment length,
    every value `nsize` takes while doubling and the byte count asked from the parent are below
    2^64 (so the model's arithmetic on `Nat` is the C arithmetic on `size_t`), and the doubling
    loop ends with `nsize ≥ size`. -/
theorem pool_no_wrap {s : HState} {size : Nat} (h : Reach s) (ha : AddrOk s.pool)
    (hmax : size ≤ poolMaxSize) :
    size + s.pool.align - 1 < 2 ^ 64 ∧ alignUp size s.pool.align < 2 ^ 63 ∧
    (∀ g ∈ s.pool.segs, g.pos + alignUp size s.pool.align < 2 ^ 64 ∧ 2 * (g.stop - g.start) < 2 ^ 63) ∧
    (∀ k, k ≤ 64 → growTo k (segSizeStart s.pool) (alignUp size s.pool.align) < 2 ^ 64) ∧
    alignUp size s.pool.align ≤ nextSegSize s.pool (alignUp size s.pool.align) ∧
    segAlloc s.pool (nextSegSize s.pool (alignUp size s.pool.align)) < 2 ^ 64 :=
  alloc_no_wrap (reach_inv h).1 ha hmax

example : AddrOk exHist.pool := by
  intro g hg
  have : exHist.pool.segs.map (fun g => g.base + g.size) = [204208, 101120] := by decide
  have h2 : g.base + g.size ∈ exHist.pool.segs.map (fun g => g.base + g.size) := List.mem_map_of_mem hg
  rw [this] at h2
  simp at h2
  omega

/-! ### the unchanged code violates the property (F4, F5, K2) -/

/-- F4, unchanged `pool_realloc`: `a = alloc(8); realloc(a, 5); b = alloc(8)` on a pool with
    alignment 8 returns a block at an address ≡ 5 (mod 8). -/
theorem pool_f4_old_counterexample :
    ∃ p0 p1 p2 p3 a b, newPool 1024 8 (some 4096) = some p0 ∧ allocOld 64 p0 8 none = some (p1, a) ∧
      reallocLastOld p1 a 5 = some (p2, a) ∧ allocOld 64 p2 8 none = some (p3, b) ∧ b % 8 = 5 := by
  refine ⟨_, _, _, _, _, _, rfl, rfl, rfl, rfl, ?_⟩
  decide

/-- F5, unchanged `new_seg`/`pool_alloc`: pool with alignment 64 whose parent returns 16-aligned
    memory; a request of 2048 bytes that needs a new segment is handed `[200064, 202112)` although
    the region obtained from the parent for that segment ends at 202096. -/
theorem pool_f5_old_counterexample :
    ∃ p0 p1 q, newPool 1024 64 (some 100016) = some p0 ∧
      allocOld 64 p0 2048 (some 200016) = some (p1, q) ∧
      ∀ g ∈ p1.segs, ¬ (g.base ≤ q ∧ q + 2048 ≤ g.base + g.size) := by
  refine ⟨_, _, _, rfl, rfl, ?_⟩
  decide

/-- K2, unchanged `pool_alloc`: for a request of 2^31+8 bytes the loop
    `while (nsize < size) nsize *= 2` over `unsigned nsize` does not end, whatever number of
    rounds it is given (the repaired loop ends: `pool_no_wrap`). -/
theorem pool_k2_old_counterexample (fuel : Nat) :
    growToOld fuel 2048 (2 ^ 31 + 8) < 2 ^ 31 + 8 :=
  growToOld_never fuel

end UsualProps.C09
