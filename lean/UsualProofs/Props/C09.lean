import UsualProofs.C09.SafeMulProofs
import Usual.C09.World
import UsualProofs.C09.PoolMem
import UsualProofs.C09.PoolWrap
import UsualProofs.C09.MemPoolProofs
import UsualProofs.C09.SlabHist
import UsualProofs.C09.TreeMem
import UsualProofs.C09.TreeFull
/-! Property theorems for C09 — allocators hand out aligned, disjoint, stable blocks and return
    all memory; size computations never wrap.

    Models: `Usual.C09.{SafeMul,Pool,TreeAlloc,Slab,MemPool}` (mirroring usual/bits.h,
    usual/cxextra.c, usual/slab.c, usual/mempool.c after the repairs F04, F05, F19, F20, F21).
    Spec notions (`Inv`, `Reach`, `OpOk`, `ParentOk`, `Block`, `copy`) are in
    `UsualProofs/C09/Pool{Inv,Hist,Mem,Wrap}.lean`. -/
namespace UsualProps.C09
open Usual.C09 UsualProofs.C09

/-! ## safe_mul_* -/

/-- `safe_mul_<type>` (any unsigned type of even bit-width `w`, operands in range) returns true
    exactly when the mathematical product fits into the type … -/
theorem safeMul_iff (w a b : Nat) (hw : w % 2 = 0) (ha : a < 2 ^ w) (hb : b < 2 ^ w) :
    (safeMul w a b).isSome ↔ a * b < 2 ^ w := by
  rw [safeMul_eq w a b hw ha hb]; split <;> simp_all

example : (safeMul 16 255 257).isSome ∧ ¬ (safeMul 16 256 256).isSome := by decide

/-- … and then stores exactly the product. -/
theorem safeMul_value (w a b r : Nat) (hw : w % 2 = 0) (ha : a < 2 ^ w) (hb : b < 2 ^ w)
    (h : safeMul w a b = some r) : r = a * b := by
  rw [safeMul_eq w a b hw ha hb] at h; split at h <;> simp_all

example : safeMul 8 15 17 = some 255 := by decide

/-- `reallocarray(p, count, size)` either fails before calling `realloc` or asks `realloc` for
    exactly `count·size` bytes (so what it delivers holds at least `count × size` bytes). -/
theorem reallocarray_ok (count size : Nat) (hc : count < 2 ^ 64) (hs : size < 2 ^ 64) :
    (reallocarrayReq count size = none ∧ 2 ^ 64 ≤ count * size) ∨
    reallocarrayReq count size = some (count * size) := by
  unfold reallocarrayReq
  rw [safeMul_eq 64 count size (by decide) hc hs]
  split
  · right; rfl
  · left; exact ⟨rfl, by omega⟩

example : reallocarrayReq (2 ^ 32) (2 ^ 32) = none ∧ reallocarrayReq (2 ^ 32) (2 ^ 31) = some (2 ^ 63) := by
  decide

/-- `talloc_array` & friends (`_talloc_const_name`): fails or allocates a payload of exactly
    `elem_size·count` bytes. -/
theorem talloc_array_ok (elem count : Nat) (he : elem < 2 ^ 64) (hc : count < 2 ^ 64) :
    (tallocArrayReq elem count = none ∧ 2 ^ 64 ≤ elem * count) ∨
    tallocArrayReq elem count = some (elem * count) := by
  unfold tallocArrayReq
  rw [safeMul_eq 64 elem count (by decide) he hc]
  split
  · right; rfl
  · left; exact ⟨rfl, by omega⟩

example : tallocArrayReq 24 1000 = some 24000 := by decide

/-- `talloc_realloc` (`_talloc_realloc`): fails or resizes to exactly `elem_size·count` bytes. -/
theorem talloc_realloc_ok (elem count n : Nat) (he : elem < 2 ^ 64) (hc : count < 2 ^ 64)
    (h : tallocReallocReq elem count = some n) : n = elem * count := by
  unfold tallocReallocReq at h
  rw [safeMul_eq 64 elem count (by decide) he hc] at h
  split at h
  · cases h
  · rename_i size heq
    split at heq
    · simp only [Option.some.injEq] at heq
      subst heq
      split at h
      · cases h
      · simp only [Option.some.injEq] at h; omega
    · cases heq

example : tallocReallocReq 8 3 = some 24 ∧ tallocReallocReq (2 ^ 33) (2 ^ 33) = none := by decide

/-! ## cx pool (cx_new_pool / cx_new_pool_from_area) -/

/-- In every state reachable by any history of `cx_alloc`/`cx_realloc`/`cx_free` on a pool created
    with any alignment and any initial area, over any parent that answers with fresh memory:
    every segment satisfies `seg_start ≤ seg_pos ≤ seg_end`, `seg_pos` is aligned (or the segment
    is the empty first segment of an area too small to hold an aligned byte), the window lies
    behind the header inside the region obtained from the parent, and the regions of different
    segments do not overlap. -/
theorem pool_inv {s : HState} (h : Reach s) :
    (∀ seg ∈ s.pool.segs,
      seg.start ≤ seg.pos ∧ seg.pos ≤ seg.stop ∧
      (seg.pos % s.pool.align = 0 ∨ seg.start = seg.stop) ∧
      seg.base < seg.hdrEnd ∧ seg.hdrEnd ≤ seg.start ∧ seg.stop ≤ seg.base + seg.size) ∧
    s.pool.segs.Pairwise (fun a b => a.base + a.size ≤ b.base ∨ b.base + b.size ≤ a.base) := by
  obtain ⟨hi, _⟩ := reach_inv h
  refine ⟨?_, hi.seg_disj⟩
  intro seg hseg
  obtain ⟨a1, a2, a3, a4, a5, _, a7⟩ := hi.seg_ok seg hseg
  exact ⟨a3, a4, a7, a1, a2, a5⟩

/-- a history used for the non-vacuity examples: pool of 1024 bytes, align 64, parent regions at
    addresses that are only 16-aligned; 1000 bytes, then 3000 bytes (new segment), shrink the
    last block to 5 bytes, 100 more bytes, free a non-last block -/
def exHist : HState :=
  let p0 := (newPool 1024 64 (some 100016)).get!
  let s0 : HState := ⟨p0, [], [(100016, newPoolReq 1024)]⟩
  let s1 := step s0 (.alloc 1000 none)
  let s2 := step s1 (.alloc 3000 (some 200016))
  let q := (s2.live.head!).ptr
  let s3 := step s2 (.realloc q 5 none)
  let s4 := step s3 (.alloc 100 none)
  step s4 (.free (s1.live.head!).ptr)

example : exHist.pool.segs.map (fun g => (g.start, g.pos, g.stop)) = [(200064, 200256, 204208), (100096, 101120, 101120)]
    ∧ exHist.live = [⟨200128, 100⟩, ⟨200064, 5⟩] := by decide

/-- Every block a pool returns from `cx_alloc` is aligned to the pool's alignment, lies inside
    one live segment — behind its header and inside the region obtained from the parent — and is
    disjoint from every block the client still holds. -/
theorem pool_block_ok {s : HState} {len q : Nat} {pa : Option Nat} {p' : Pool} (h : Reach s)
    (hok : OpOk s (.alloc len pa)) (hr : cxAlloc s.pool len pa = some (p', q)) :
    q % s.pool.align = 0 ∧
    (∃ seg ∈ p'.segs, seg.hdrEnd ≤ q ∧ seg.base < q ∧ q + len ≤ seg.pos ∧ seg.pos ≤ seg.base + seg.size) ∧
    (∀ b ∈ s.live, q + len ≤ b.ptr ∨ b.ptr + b.len ≤ q) := by
  have hs := step_inv (reach_inv h) hok
  simp only [step, hr] at hs
  obtain ⟨hi, _⟩ := hs
  have hal : p'.align = s.pool.align := by
    unfold cxAlloc at hr
    split at hr
    · cases hr
    · exact (alloc_align hr).1
  refine ⟨?_, ?_, ?_⟩
  · have := hi.blk_al ⟨q, len⟩ (List.mem_cons_self ..)
    rw [hal] at this; exact this
  · obtain ⟨seg, hseg, hin⟩ := hi.blk_in ⟨q, len⟩ (List.mem_cons_self ..)
    obtain ⟨a1, a2, a3, a4, a5, _, _⟩ := hi.seg_ok seg hseg
    simp only [InSeg] at hin
    exact ⟨seg, hseg, by omega, by omega, hin.2, by omega⟩
  · intro b hb
    have := (List.pairwise_cons.mp hi.blk_disj).1 b hb
    simp only [blkDisj] at this
    exact this

/-- The same for the block returned by `cx_realloc` (compared with the *other* blocks). -/
theorem pool_realloc_block_ok {s : HState} {ptr len q n : Nat} {pa : Option Nat} {p' : Pool}
    (h : Reach s) (hlen : len ≠ 0) (hok : OpOk s (.realloc ptr len pa))
    (hr : realloc s.pool ptr len pa = some (p', q, n)) :
    q % s.pool.align = 0 ∧
    (∃ seg ∈ p'.segs, seg.hdrEnd ≤ q ∧ seg.base < q ∧ q + len ≤ seg.pos ∧ seg.pos ≤ seg.base + seg.size) ∧
    (∀ b ∈ s.live, b.ptr ≠ ptr → q + len ≤ b.ptr ∨ b.ptr + b.len ≤ q) := by
  have hs := step_inv (reach_inv h) hok
  simp only [step, hlen, if_false, hr] at hs
  obtain ⟨hi, _⟩ := hs
  have hi0 := (reach_inv h).1
  have hal : p'.align = s.pool.align := by
    have := realloc_inv hi0 (Nat.pos_of_ne_zero hlen)
      (by simp only [OpOk, cxReallocReq, hlen, if_false] at hok; exact hok.2) hr
    -- alignment field never changes: read it off the model
    unfold realloc at hr
    split at hr
    · cases hr
    · split at hr
      · simp only [reallocOther] at hr
        cases hal : alloc s.pool len pa with
        | none => simp [hal] at hr
        | some r =>
          simp only [hal, Option.map_some, Option.some.injEq, Prod.mk.injEq] at hr
          rw [← hr.1]; exact (alloc_align (p' := r.1) (q := r.2) (by rw [hal])).1
      · split at hr
        · rename_i sg rest hsegs
          simp only [reallocLast] at hr
          split at hr
          · simp only [Option.some.injEq, Prod.mk.injEq] at hr
            rw [← hr.1]
          · cases hal : alloc s.pool (alignUp len s.pool.align) pa with
            | none => simp [hal] at hr
            | some r =>
              simp only [hal, Option.map_some, Option.some.injEq, Prod.mk.injEq] at hr
              rw [← hr.1]; exact (alloc_align (p' := r.1) (q := r.2) (by rw [hal])).1
        · cases hr
  refine ⟨?_, ?_, ?_⟩
  · have := hi.blk_al ⟨q, len⟩ (List.mem_cons_self ..)
    rw [hal] at this; exact this
  · obtain ⟨seg, hseg, hin⟩ := hi.blk_in ⟨q, len⟩ (List.mem_cons_self ..)
    obtain ⟨a1, a2, a3, a4, a5, _, _⟩ := hi.seg_ok seg hseg
    simp only [InSeg] at hin
    exact ⟨seg, hseg, by omega, by omega, hin.2, by omega⟩
  · intro b hb hne
    have := (List.pairwise_cons.mp hi.blk_disj).1 b (mem_dropPtr.mpr ⟨hb, hne⟩)
    simp only [blkDisj] at this
    exact this

/-- Contents are stable: `cx_realloc` on a pool delivers the first `min(old,new)` bytes of the
    block at the returned address; the `memcpy` it performs (if any) reads inside the used part of
    one segment and writes to a range that does not overlap the source; and the bytes of every
    other block the client holds are untouched.  (`cx_alloc`/`cx_free` write nothing but
    segment headers, which `pool_block_ok` places outside every block.) -/
theorem pool_realloc_preserves {s : HState} {ptr olen len q n : Nat} {pa : Option Nat} {p' : Pool}
    (m : Mem) (h : Reach s) (hb : ⟨ptr, olen⟩ ∈ s.live) (hlen : len ≠ 0)
    (hok : OpOk s (.realloc ptr len pa)) (hr : realloc s.pool ptr len pa = some (p', q, n)) :
    (∀ i, i < min olen len → copy m q ptr n (q + i) = m (ptr + i)) ∧
    (n = 0 ∨ ((q + n ≤ ptr ∨ ptr + n ≤ q) ∧ ∃ t ∈ s.pool.segs, t.start ≤ ptr ∧ ptr + n ≤ t.pos)) ∧
    (∀ b ∈ s.live, b.ptr ≠ ptr → ∀ i, i < b.len → copy m q ptr n (b.ptr + i) = m (b.ptr + i)) := by
  simp only [OpOk, cxReallocReq, hlen, if_false] at hok
  exact realloc_mem m (reach_inv h).1 hb hok.2 hr

/-- `cx_free(cx, NULL)` is a no-op: the filter `if (ptr)` in `cx_free` (usual/cxalloc.c) keeps NULL
    away from every allocator's `c_free`, so the pool and the whole stack of allocators driven
    through `cx_free` are left exactly as they were. -/
theorem cx_free_null_noop (p : Pool) (fuel : Nat) (w : World) (slot : Nat) :
    cxFree p none = p ∧ cxFreeOptW fuel w slot none = w := ⟨rfl, rfl⟩

/-- Why the filter matters: handed NULL unfiltered, `pool_free` compares `last_ptr != ptr` with
    both NULL, takes the "free the last block" branch and sets `seg_pos = NULL`: in the state right
    after `cx_new_pool` this breaks `seg_start ≤ seg_pos` (so `pool_inv` fails and the next
    allocation is handed memory below the segment). -/
theorem pool_free_null_unfiltered_counterexample :
    ∃ p0, newPool 1024 8 (some 4096) = some p0 ∧
      ∀ g ∈ (freeUnfilteredNull p0).segs, g.pos < g.start := by
  refine ⟨_, rfl, ?_⟩
  decide

/-- `cx_destroy(pool)` hands back to the parent exactly the regions the pool obtained from it
    (the area of `cx_new_pool` and one region per segment; for `cx_new_pool_from_area` the area
    only when `allow_free` was given), each exactly once. -/
theorem pool_destroy_returns_once {s : HState} (h : Reach s) :
    destroy s.pool = s.obtained.reverse ∧ (destroy s.pool).Nodup := by
  obtain ⟨hi, ho⟩ := reach_inv h
  exact ⟨ho.2, destroy_nodup hi⟩

example : destroy exHist.pool = [(200016, 4192), (100016, 1104)] ∧ exHist.obtained = [(100016, 1104), (200016, 4192)] := by
  decide

/-- Size computations of `pool_alloc` never wrap: for every request the pool does not refuse
    outright (`size ≤ SIZE_MAX/4`), in any reachable state whose regions lie below 2^62,
    the sum inside `CUSTOM_ALIGN`, the aligned size, `seg_pos + size`, twice the segment length,
    every value `nsize` takes while doubling and the byte count asked from the parent are below
    2^64 (so the model's arithmetic on `Nat` is the C arithmetic on `size_t`), and the doubling
    loop ends with `nsize ≥ size`. -/
theorem pool_no_wrap {s : HState} {size : Nat} (h : Reach s) (ha : AddrOk s.pool)
    (hmax : size ≤ poolMaxSize) :
    size + s.pool.align - 1 < 2 ^ 64 ∧ alignUp size s.pool.align < 2 ^ 63 ∧
    (∀ g ∈ s.pool.segs, g.pos + alignUp size s.pool.align < 2 ^ 64 ∧ 2 * (g.stop - g.start) < 2 ^ 63) ∧
    (∀ k, k ≤ 64 → growTo k (segSizeStart s.pool) (alignUp size s.pool.align) < 2 ^ 64) ∧
    alignUp size s.pool.align ≤ nextSegSize s.pool (alignUp size s.pool.align) ∧
    segAlloc s.pool (nextSegSize s.pool (alignUp size s.pool.align)) < 2 ^ 64 :=
  alloc_no_wrap (reach_inv h).1 ha hmax

/-- The address bound `pool_no_wrap` assumes is a property of the parent's answers: if every
    region obtained from the parent (and, for `cx_new_pool_from_area` with a caller-owned buffer,
    that buffer) ends below 2^62, then in every reachable state all regions the pool holds do. -/
theorem pool_addr_ok {s : HState} (h : Reach s) (hob : ∀ r ∈ s.obtained, r.1 + r.2 ≤ 2 ^ 62)
    (hfirst : ∀ g, s.pool.segs.getLast? = some g → g.base + g.size ≤ 2 ^ 62) : AddrOk s.pool :=
  reach_addrOk h hob hfirst

example : AddrOk exHist.pool := by
  intro g hg
  have : exHist.pool.segs.map (fun g => g.base + g.size) = [204208, 101120] := by decide
  have h2 : g.base + g.size ∈ exHist.pool.segs.map (fun g => g.base + g.size) := List.mem_map_of_mem hg
  rw [this] at h2
  simp at h2
  omega

/-! ### the unchanged code violates the property (F4, F5, K2) -/

/-- F4, unchanged `pool_realloc`: `a = alloc(8); realloc(a, 5); b = alloc(8)` on a pool with
    alignment 8 returns a block at an address ≡ 5 (mod 8). -/
theorem pool_f4_old_counterexample :
    ∃ p0 p1 p2 p3 a b, newPool 1024 8 (some 4096) = some p0 ∧ allocOld 64 p0 8 none = some (p1, a) ∧
      reallocLastOld p1 a 5 = some (p2, a) ∧ allocOld 64 p2 8 none = some (p3, b) ∧ b % 8 = 5 := by
  refine ⟨_, _, _, _, _, _, rfl, rfl, rfl, rfl, ?_⟩
  decide

/-- F5, unchanged `new_seg`/`pool_alloc`: pool with alignment 64 whose parent returns 16-aligned
    memory; a request of 2048 bytes that needs a new segment is handed `[200064, 202112)` although
    the region obtained from the parent for that segment ends at 202096. -/
theorem pool_f5_old_counterexample :
    ∃ p0 p1 q, newPool 1024 64 (some 100016) = some p0 ∧
      allocOld 64 p0 2048 (some 200016) = some (p1, q) ∧
      ∀ g ∈ p1.segs, ¬ (g.base ≤ q ∧ q + 2048 ≤ g.base + g.size) := by
  refine ⟨_, _, _, rfl, rfl, ?_⟩
  decide

/-- K2, unchanged `pool_alloc`: for a request of 2^31+8 bytes the loop
    `while (nsize < size) nsize *= 2` over `unsigned nsize` does not end, whatever number of
    rounds it is given (the repaired loop ends: `pool_no_wrap`). -/
theorem pool_k2_old_counterexample (fuel : Nat) :
    growToOld fuel 2048 (2 ^ 31 + 8) < 2 ^ 31 + 8 :=
  growToOld_never fuel

/-- F5 (second input), unchanged `pool_alloc` after `cx_new_pool_from_area(buf, size =
    sizeof(struct CxPool))`: the first segment is empty, `nsize = 2·0 = 0`, and doubling 0 never
    reaches any request — the loop does not end, whatever number of rounds it is given. -/
theorem pool_f5_empty_area_old_counterexample (fuel size : Nat) (hs : 0 < size) :
    growToOld fuel (2 * (0 : Nat) % 2 ^ 32) size < size := by
  simp only [Nat.mul_zero, Nat.zero_mod]
  rw [growToOld_zero fuel size hs]; exact hs

/-- F5 (third input), unchanged `pool_realloc` of the last block at `p` with `len = 2^64 - 4096`:
    the pointer sum `p + len` wraps to `p - 4096 ≤ seg_end`, so the test "fits" succeeds and
    `seg_pos` is moved 4096 bytes *before* the block (below `seg_start`). -/
theorem pool_f5_realloc_wrap_old_counterexample :
    let p := 100096; let segStart := 100096; let segEnd := 101120; let len := 2 ^ 64 - 4096
    (p + len) % 2 ^ 64 ≤ segEnd ∧ (p + len) % 2 ^ 64 < segStart := by decide

/-! ## tree allocator (cx_new_tree) -/

/-- `cx_destroy(tree)` (`tree_destroy`) passes to `cx_free(real, …)` exactly the addresses the
    tree holds — its own struct, the header of every block, and all of that for every nested
    sub-tree — each as often as it is held; if the addresses are pairwise different (fresh parent
    answers), nothing is freed twice. -/
theorem tree_destroy_returns_once (t : TNode) :
    t.destroyList.Perm t.regions ∧ (t.regions.Nodup → t.destroyList.Nodup) :=
  ⟨destroyList_perm t, destroyList_nodup t⟩

example :
    (TNode.mk 1 1000 [(2000, 24), (3000, 116)] [.mk 2 4000 [(5000, 20)] [.mk 3 6000 [] []], .mk 4 7000 [(8000, 17)] []]).destroyList
      = [2000, 3000, 5000, 6000, 4000, 8000, 7000, 1000] := by decide

/-- A block returned by `tree_alloc` starts right behind the 16-byte item header inside the
    region obtained from `real` and ends exactly at the end of that region; the request to
    `real` did not wrap.  Hence it is inside parent memory, as aligned as the parent's answer for
    any alignment dividing 16, and disjoint from all other blocks whenever the parent's regions
    are. -/
theorem tree_block_ok {t t' : TNode} {id len q a req : Nat} {A : Nat}
    (hreq : treeReq len = some req) (h : treeAlloc t id len (some a) = some (t', q))
    (hA : 16 % A = 0) (ha : a % A = 0) :
    a + treeHdr = q ∧ q + len = a + req ∧ req < 2 ^ 64 ∧ q % A = 0 := by
  obtain ⟨h1, h2, h3, h4⟩ := treeAlloc_block hreq h
  refine ⟨h1.symm, h3, h4, ?_⟩
  subst h1
  simp only [treeHdr]
  rw [Nat.add_mod, ha, hA]; simp

example : (treeAlloc (.mk 1 1000 [] []) 1 100 (some 4096)).map (fun r => (r.1.items, r.2)) =
    some ([(4096, 116)], 4112) := by decide

/-- Bookkeeping over every history of a forest of trees with nested sub-trees (`TReach`:
    cx_new_tree, cx_alloc, cx_free, cx_realloc succeeding or failing, cx_new_tree below any tree,
    cx_destroy of any sub-tree; parent answers only required to be addresses not currently held):
    the forest holds exactly the addresses obtained from `real` and not yet returned, each once,
    and allocator ids stay unique. -/
theorem tree_history_tracks {t : TNode} {held : List Nat} (h : TReach t held) :
    t.regions.Perm held ∧ held.Nodup ∧ t.ids.Nodup :=
  treach_inv h

/-- … hence `cx_destroy` of the root returns every address obtained and not yet returned exactly
    once, and `cx_destroy` of a sub-tree returns exactly what that sub-tree holds, each once, all
    of it currently held. -/
theorem tree_history_destroy_once {t : TNode} {held : List Nat} (h : TReach t held) :
    t.destroyList.Perm held ∧ t.destroyList.Nodup ∧
    ∀ id n, t.find id = some n → id ∈ idsL t.subs →
      n.destroyList.Nodup ∧ ∀ x ∈ n.destroyList, x ∈ held := by
  obtain ⟨hp, hn, hi⟩ := treach_inv h
  refine ⟨(destroyList_perm t).trans hp, destroyList_nodup t (hp.nodup_iff.mpr hn), ?_⟩
  intro id n hf hsub
  obtain ⟨n1, hf1, _, hR⟩ := decompRemove ownR id t hsub hi
  rw [hf] at hf1; cases hf1
  rw [← regions_eq_collect, ← regions_eq_collect, ← regions_eq_collect] at hR
  have hnd : (n.regions ++ (t.remove id).regions).Nodup := hR.nodup_iff.mp (hp.nodup_iff.mpr hn)
  refine ⟨destroyList_nodup n (List.nodup_append.mp hnd).1, ?_⟩
  intro x hx
  have hx' : x ∈ n.regions := (destroyList_perm n).subset hx
  exact hp.subset (hR.symm.subset (List.mem_append_left _ hx'))

/-- example history: root 1, block, sub-tree 2 with a block, realloc of the root's block,
    free in the sub-tree, sub-tree 3 below 2, destroy of sub-tree 2 -/
example : ∃ t held, TReach t held ∧ held = [5000, 1000] ∧ t.destroyList = [5000, 1000] := by
  have h0 := TReach.root 1 1000
  have h1 := TReach.alloc (id := 1) (len := 100) (a := 2000) (q := 2016) h0 (by decide) (by decide) rfl
  have h2 := TReach.newSub (par := 1) (newId := 2) (a := 3000) h1 (by decide) (by decide) (by decide)
  have h3 := TReach.alloc (id := 2) (len := 8) (a := 4000) (q := 4016) h2 (by decide) (by decide) rfl
  have h4 := TReach.realloc (id := 1) (a := 2000) (sz := 116) (len := 300) (req := 316) (a' := 5000) h3
    (n := .mk 1 1000 [(2000, 116)] [.mk 2 3000 [(4000, 24)] []]) rfl (by decide) (by decide) (by decide)
  have h5 := TReach.free (id := 2) (a := 4000) (sz := 24) h4 (n := .mk 2 3000 [(4000, 24)] []) rfl (by decide)
  have h6 := TReach.newSub (par := 2) (newId := 3) (a := 6000) h5 (by decide) (by decide) (by decide)
  have h7 := TReach.destroySub (id := 2) h6 (n := .mk 2 3000 [] [.mk 3 6000 [] []]) (by decide) rfl
  exact ⟨_, _, h7, by decide, by decide⟩

/-- `TREE_HDR + len` is refused instead of wrapping (F20). -/
theorem tree_no_wrap (len : Nat) (hl : len < 2 ^ 64) :
    (treeReq len = none ∧ 2 ^ 64 ≤ treeHdr + len) ∨ (treeReq len = some (treeHdr + len) ∧ treeHdr + len < 2 ^ 64) := by
  unfold treeReq sizeMax treeHdr
  split
  · left; exact ⟨rfl, by omega⟩
  · right; exact ⟨rfl, by omega⟩

example : treeReq (2 ^ 64 - 8) = none := by decide

/-- F20, unchanged `tree_alloc(tree, (size_t)-8)`: `TREE_HDR + len` wraps to 8, the parent is asked
    for 8 bytes, and `list_init` then writes the 16-byte header into them. -/
theorem tree_f20_old_counterexample : (treeHdr + (2 ^ 64 - 8)) % 2 ^ 64 = 8 ∧ 8 < treeHdr := by decide

/-! ## slab -/

/-- In every state reachable by `slab_alloc` / `slab_free` (freed objects are reused, LIFO): the
    free objects and the objects the client holds are pairwise different slots
    `fragment + 16 + i·final_size` lying inside their fragment (so any two are at least
    `final_size ≥ 16` bytes apart), fragments do not overlap each other nor `struct Slab`, every
    fragment starts at a multiple of `A`, and the regions obtained from the parent are exactly
    `struct Slab` and the fragments. -/
theorem slab_inv {A : Nat} {s : Slab} {live : List Nat} {ob : List (Nat × Nat)} (h : SReach A s live ob) :
    16 ≤ s.finalSize ∧ (s.freelist ++ live).Nodup ∧
    (∀ o ∈ s.freelist ++ live, ∃ f ∈ s.frags, ∃ i, o = f.1 + slabFragHdr + i * s.finalSize ∧
        f.1 + slabFragHdr + (i + 1) * s.finalSize ≤ f.1 + f.2) ∧
    s.frags.Pairwise (fun a b => a.1 + a.2 ≤ b.1 ∨ b.1 + b.2 ≤ a.1) ∧
    (∀ f ∈ s.frags, s.hdr + sizeofSlab ≤ f.1 ∨ f.1 + f.2 ≤ s.hdr) ∧
    (∀ f ∈ s.frags, f.1 % A = 0) ∧ ob = (s.hdr, sizeofSlab) :: s.frags := by
  obtain ⟨hM, hob, hfa, hd⟩ := sreach_inv h
  refine ⟨hM.inv.fs_ge, hM.inv.nodup, hM.inv.slot, hd, ?_, hfa, hob⟩
  intro f hf
  have := hM.hdr_disj f hf
  simpa [fragDisj] using this

/-- Every object of every fragment lies inside the fragment, for every slab state whatsoever
    (any `total_count`, i.e. after arbitrarily many grows, any `final_size`): the `count` objects
    `grow` links into a new fragment at `a` are the slots `a + 16 + i·final_size`, `i < count`, and
    the last of them ends exactly at the end of the `count·final_size + 16` bytes asked from the
    parent.  (`slab_inv` carries this through every history; this is the single-grow fact.) -/
theorem slab_fragment_holds_all_objects (s : Slab) (a : Nat) :
    (slabGrow s a).frags = s.frags ++ [(a, slabGrowCount s * s.finalSize + slabFragHdr)] ∧
    (∀ y ∈ slabObjs (a + slabFragHdr) s.finalSize (slabGrowCount s),
      a + slabFragHdr ≤ y ∧ y + s.finalSize ≤ a + (slabGrowCount s * s.finalSize + slabFragHdr)) ∧
    (0 < slabGrowCount s →
      a + slabFragHdr + (slabGrowCount s - 1) * s.finalSize + s.finalSize =
        a + (slabGrowCount s * s.finalSize + slabFragHdr)) := by
  refine ⟨rfl, ?_, ?_⟩
  · intro y hy
    obtain ⟨i, hi, rfl⟩ := mem_slabObjs.mp hy
    have h1 : (i + 1) * s.finalSize ≤ slabGrowCount s * s.finalSize := Nat.mul_le_mul_right _ hi
    have h2 : (i + 1) * s.finalSize = i * s.finalSize + s.finalSize := Nat.succ_mul _ _
    omega
  · intro hpos
    have h2 : (slabGrowCount s - 1 + 1) * s.finalSize = (slabGrowCount s - 1) * s.finalSize + s.finalSize :=
      Nat.succ_mul _ _
    rw [Nat.sub_add_cancel hpos] at h2
    omega

/-- the 9th grow of a slab of 24-byte objects (87296 objects, 2 MB): still every object inside -/
example : slabGrowCount { hdr := 0, finalSize := 24, total := 87296, freelist := [], frags := [] } = 87296 ∧
    slabGrowReq { hdr := 0, finalSize := 24, total := 87296, freelist := [], frags := [] } = 87296 * 24 + 16 := by
  decide

/-- In every state reachable by `slab_alloc` / `slab_free` (freed objects are reused, LIFO) over
    a parent that answers with fresh memory at multiples of `A`: the object `slab_alloc` returns
    is a slot of one fragment obtained from the parent (behind the fragment header, `final_size`
    bytes inside the fragment), is at least `final_size` bytes away from every object the client
    still holds, and is `A`-aligned whenever `A` divides 16 and `final_size` (see
    `slab_final_size_ok`: any requested alignment up to 16, as slab.h documents). -/
theorem slab_block_ok {A : Nat} {s s' : Slab} {live : List Nat} {ob : List (Nat × Nat)} {o : Nat}
    {pa : Option Nat} (h : SReach A s live ob)
    (hpa : ∀ req, slabAllocReq s = some req → SParentOkM s req pa) (hal : ∀ a, pa = some a → a % A = 0)
    (hr : slabAlloc s pa = (s', some o)) :
    (∃ f ∈ s'.frags, f.1 + slabFragHdr ≤ o ∧ o + s'.finalSize ≤ f.1 + f.2) ∧
    (∀ p ∈ live, o + s'.finalSize ≤ p ∨ p + s'.finalSize ≤ o) ∧
    (16 % A = 0 → s'.finalSize % A = 0 → o % A = 0) := by
  obtain ⟨hM, _, hfa, _⟩ := sreach_inv (SReach.alloc h hpa hal hr)
  have hi := hM.inv
  obtain ⟨f, hf, hslot⟩ := hi.slot o (by simp)
  refine ⟨⟨f, hf, slot_bounds hslot⟩, ?_, ?_⟩
  · intro p hp
    obtain ⟨g, hg, hslotp⟩ := hi.slot p (by simp [hp])
    have hne : o ≠ p := by
      have hnd := hi.nodup
      rw [List.nodup_append] at hnd
      have := (List.nodup_cons.mp hnd.2.1).1
      intro e; exact this (e ▸ hp)
    exact slots_apart hslot hslotp (pairwise_mem_cases hi.frag_disj hf hg) hne
  · intro h16 hfs
    obtain ⟨i, rfl, _⟩ := hslot
    have : (i * s'.finalSize) % A = 0 := by rw [Nat.mul_mod, hfs]; simp
    simp only [slabFragHdr]
    rw [Nat.add_mod, Nat.add_mod f.1, hfa f hf, h16, this]; simp

/-- example history: slab of 1000-byte objects, alignment 16; first `slab_alloc` grows by 50 objects -/
def exSlab0 : Slab := { hdr := 4096, finalSize := slabFinalSize 1000 16, total := 0, freelist := [], frags := [] }
def exSlab1 : Slab := (slabAlloc exSlab0 (some 8192)).1

example : SReach 16 exSlab1 [8208] (obtainedAfter [(4096, sizeofSlab)] (slabAllocReq exSlab0) (some 8192)) ∧
    exSlab1.total = 50 ∧ exSlab1.freelist.take 2 = [9216, 10224] :=
  ⟨SReach.alloc (SReach.create (objSize := 1000) (align := 16) (a := 4096) rfl)
    (by intro req _; exact ⟨by intro a _ f hf; simp [exSlab0] at hf, by intro a ha; cases ha; simp only [exSlab0, sizeofSlab]; omega⟩)
    (by intro a ha; cases ha; decide)
    (Prod.ext rfl (by decide +kernel : (slabAlloc exSlab0 (some 8192)).2 = some 8208)),
   by decide +kernel, by decide +kernel⟩

/-- `init_slab` makes `final_size` a multiple of the requested alignment (8 when none or less is
    asked for) that is not smaller than the object size. -/
theorem slab_final_size_ok (objSize align : Nat) (hal : align = 0 ∨ align = 8 ∨ align = 16)
    (hsz : objSize + 16 < 2 ^ 32) :
    objSize ≤ slabFinalSize objSize align ∧
    slabFinalSize objSize align % (if align = 16 then 16 else 8) = 0 := by
  unfold slabFinalSize
  have h8 := alignUp_ge (x := objSize) (a := 8) (by omega)
  have l8 := alignUp_lt (x := objSize) (a := 8) (by omega)
  have m8 := alignUp_mod (x := objSize) (a := 8) (by omega)
  have h16 := alignUp_ge (x := objSize) (a := 16) (by omega)
  have l16 := alignUp_lt (x := objSize) (a := 16) (by omega)
  have m16 := alignUp_mod (x := objSize) (a := 16) (by omega)
  rcases hal with rfl | rfl | rfl
  · simp only [if_true, show (0:Nat) < 8 by omega]
    rw [Nat.mod_eq_of_lt (by omega)]
    split <;> simp <;> omega
  · simp only [show ¬ (8:Nat) < 8 by omega, if_false, show ¬ (8:Nat) = 0 by omega, show ¬ (8:Nat) = 16 by omega]
    rw [Nat.mod_eq_of_lt (by omega)]
    split <;> omega
  · simp only [show ¬ (16:Nat) < 8 by omega, if_false, show ¬ (16:Nat) = 0 by omega, if_true]
    rw [Nat.mod_eq_of_lt (by omega)]
    split <;> omega

/-- Slab objects are initialised as slab.h documents, in every reachable state and for every
    memory `m` before the call.  With `m1` the memory handed to the last step of `slab_alloc`
    (`m' = init_func applied to obj` resp. `memset(obj, 0, final_size)`):
    * no `init_func`: the returned object consists of `final_size` zero bytes;
    * `init_func` given: it is applied exactly once, to the returned object, and behind the
      `struct List` at its start the object it sees is zero-filled if it comes from a fragment
      just obtained, and otherwise holds exactly the bytes it held before the call — which are
      the bytes the client left at `slab_free` (`slab_free_contents` and the last item);
    * every object the client holds keeps all its bytes; every object that stays free keeps its
      bytes behind the list node (the callback is assumed to write inside its object only). -/
theorem slab_init_documented {A : Nat} {s s' : Slab} {live : List Nat} {ob : List (Nat × Nat)} {o : Nat}
    {pa : Option Nat} (junk : Mem) (init : InitFn) (m m' : Mem) (h : SReach A s live ob)
    (hpa : ∀ req, slabAllocReq s = some req → SParentOkM s req pa)
    (hloc : InitLocal init s.finalSize)
    (hr : slabAllocM junk init s m pa = (s', some o, m')) :
    slabAlloc s pa = (s', some o) ∧
    ∃ m1 : Mem,
      m' = slabInitMem init o s.finalSize m1 ∧
      (init = none → ∀ i, i < s.finalSize → m' (o + i) = 0) ∧
      (∀ i, listSize ≤ i → i < s.finalSize →
          m1 (o + i) = if s.freelist = [] then 0 else m (o + i)) ∧
      (∀ p ∈ live, ∀ i, i < s.finalSize → m' (p + i) = m (p + i)) ∧
      (∀ p ∈ s'.freelist, p ∈ s.freelist → ∀ i, listSize ≤ i → i < s.finalSize → m' (p + i) = m (p + i)) := by
  refine ⟨?_, slabAllocM_frame junk init m m' (sreach_inv h).1 hpa hloc hr⟩
  have := slabAllocM_state junk init s m pa
  rw [hr] at this
  exact this.symm

example : (slabAllocM (fun _ => 7) none exSlab0 (fun _ => 9) (some 8192)).2.2 8300 = 0 ∧
    (slabAllocM (fun _ => 7) (some (fun o m x => if x = o + 20 then 5 else m x)) exSlab0 (fun _ => 9) (some 8192)).2.2 8228 = 5 := by
  constructor <;> decide +kernel

/-- `slab_free` and contents: the object given back keeps its bytes behind the list node (this is
    "the old obj from _free()" a later callback sees), every other object the client holds keeps
    all its bytes, every free object keeps its bytes behind the list node. -/
theorem slab_free_contents {A : Nat} {s : Slab} {live : List Nat} {ob : List (Nat × Nat)} {obj : Nat}
    (junk m : Mem) (h : SReach A s live ob) (ho : obj ∈ live) :
    (slabFreeM junk s m obj).1 = slabFree s obj ∧
    (∀ i, listSize ≤ i → i < s.finalSize → (slabFreeM junk s m obj).2 (obj + i) = m (obj + i)) ∧
    (∀ p ∈ live, p ≠ obj → ∀ i, i < s.finalSize → (slabFreeM junk s m obj).2 (p + i) = m (p + i)) ∧
    (∀ p ∈ s.freelist, ∀ i, listSize ≤ i → i < s.finalSize → (slabFreeM junk s m obj).2 (p + i) = m (p + i)) :=
  ⟨rfl, slabFreeM_frame junk m (sreach_inv h).1 ho⟩

/-- F21, unchanged `grow()` for `slab_create(obj_size = 100 000 000)`: `count * final_size` is
    computed in 32-bit `unsigned`, so the fragment asked from the parent (705 032 704 + 16 bytes) is
    far smaller than the 50 objects of 100 000 000 bytes that are then linked into it. -/
theorem slab_f21_old_counterexample :
    let s : Slab := { hdr := 4096, finalSize := slabFinalSize 100000000 0, total := 0, freelist := [], frags := [] }
    slabGrowCount s = 50 ∧ (slabGrowCount s * s.finalSize) % 2 ^ 32 = 705032704 ∧
    705032704 + slabFragHdr < slabGrowCount s * s.finalSize := by decide

/-- `slab_destroy` hands back to the parent exactly the regions obtained from it (the slab struct
    and every fragment), each exactly once. -/
theorem slab_destroy_returns_once {A : Nat} {s : Slab} {live : List Nat} {ob : List (Nat × Nat)}
    (h : SReach A s live ob) : (slabDestroy s).Perm ob ∧ (slabDestroy s).Nodup := by
  obtain ⟨hM, hob, _, hd⟩ := sreach_inv h
  have hperm : (slabDestroy s).Perm ob := by
    rw [hob]; unfold slabDestroy; exact List.perm_append_singleton _ _
  refine ⟨hperm, ?_⟩
  rw [hperm.nodup_iff, hob]
  refine List.nodup_cons.mpr ⟨?_, ?_⟩
  · intro hmem
    have := hM.hdr_disj _ hmem
    simp only [fragDisj, sizeofSlab] at this; omega
  · -- fragments: pairwise non-overlapping and non-empty (each holds at least one slot)
    have hpos : ∀ f ∈ s.frags, 0 < f.2 := by
      intro f hf
      -- every fragment was created with at least the header
      have : ∀ {A s live ob}, SReach A s live ob → ∀ f ∈ s.frags, 16 ≤ f.2 := by
        intro A s live ob h
        induction h with
        | create hc =>
          simp only [slabCreate, Option.map_some, Option.some.injEq] at hc
          subst hc; intro f hf; simp at hf
        | @alloc s s' live ob o pa _ _ _ hr ih =>
          intro f hf
          unfold slabAlloc at hr
          cases hfl : s.freelist with
          | cons x rest =>
            simp only [hfl, Prod.mk.injEq] at hr
            rw [← hr.1] at hf; exact ih f hf
          | nil =>
            simp only [hfl] at hr
            cases pa with
            | none => simp at hr
            | some a =>
              simp only [] at hr
              cases hfl2 : (slabGrow s a).freelist with
              | nil => simp [hfl2] at hr
              | cons x rest =>
                simp only [hfl2, Prod.mk.injEq] at hr
                rw [← hr.1] at hf
                simp only [slabGrow, List.mem_append, List.mem_singleton] at hf
                rcases hf with hf | rfl
                · exact ih f hf
                · simp only [slabGrowReq, slabFragHdr]; omega
        | free _ _ ih => exact ih
      have := this h f hf
      omega
    refine List.Pairwise.imp_of_mem ?_ hd
    intro a b ha hb hdab
    have := hpos a ha
    have := hpos b hb
    simp only [fragDisj] at hdab
    intro e; subst e; omega

/-! ## mempool -/

/-- In every state reachable by `mempool_alloc` calls (over a `calloc` that answers with fresh
    8-aligned memory): `used ≤ size < 2^32` in every segment, segments do not overlap, and every
    block handed out is 8-aligned, lies behind the header inside the used part of one segment and
    is disjoint from all other blocks. -/
theorem mempool_block_ok {mp : MemPool} {live : List Block} {ob : List (Nat × Nat)} (h : MReach mp live ob) :
    (∀ s ∈ mp.segs, s.used ≤ s.size ∧ s.size < 2 ^ 32) ∧
    (∀ b ∈ live, b.ptr % 8 = 0 ∧ ∃ s ∈ mp.segs, s.base + mpHdr ≤ b.ptr ∧ b.ptr + b.len ≤ s.base + mpHdr + s.used) ∧
    live.Pairwise (fun a b => a.ptr + a.len ≤ b.ptr ∨ b.ptr + b.len ≤ a.ptr) := by
  obtain ⟨hi, _⟩ := mreach_inv h
  refine ⟨?_, ?_, hi.blk_disj⟩
  · intro s hs
    have := hi.seg_ok s hs
    simp only [MSegOk] at this
    omega
  · intro b hb
    exact ⟨hi.blk_al b hb, hi.blk_in b hb⟩

example : ∃ mp, MReach mp [⟨4216, 300⟩, ⟨4112, 100⟩] [(4096, 528)] ∧ mp.segs = [⟨4096, 512, 408⟩] := by
  have h1 : MReach _ [⟨4112, 100⟩] _ := MReach.alloc (size := 100) (pa := some 4096) MReach.init
    (by intro req _ a ha; cases ha; exact ⟨by decide, by intro s hs; cases hs⟩) rfl
  have h2 := MReach.alloc (size := 300) (pa := none) h1 (by intro req _ a ha; cases ha) rfl
  exact ⟨_, h2, by decide⟩

/-- Size computations of `mempool_alloc` never wrap `unsigned`: for every request it does not
    refuse (`size ≤ UINT_MAX/4`) in any reachable state, the aligned size, `used + size` in every
    segment, the start value of `nsize`, every value `nsize` takes while doubling and the final
    `nsize` are below 2^32, the loop ends with `nsize ≥ size`, and the `calloc` request fits. -/
theorem mempool_no_wrap {mp : MemPool} {live : List Block} {ob : List (Nat × Nat)} {size : Nat}
    (h : MReach mp live ob) (hmax : size ≤ mpMaxSize) :
    alignUp size 8 < 2 ^ 32 ∧ (∀ s ∈ mp.segs, s.used + alignUp size 8 < 2 ^ 32 ∧ s.size < 2 ^ 32) ∧
    mpStartSize mp < 2 ^ 32 ∧ (∀ k, k ≤ 32 → growTo k (mpStartSize mp) (alignUp size 8) < 2 ^ 32) ∧
    alignUp size 8 ≤ mpNextSize mp (alignUp size 8) ∧ mpHdr + mpNextSize mp (alignUp size 8) < 2 ^ 33 := by
  obtain ⟨hi, _⟩ := mreach_inv h
  have hlt := alignUp_lt (x := size) (a := 8) (by omega)
  have hsz : alignUp size 8 ≤ 2 ^ 30 + 8 := by rw [mpMax_val] at hmax; omega
  obtain ⟨n1, n2, n3⟩ := mpNextSize_spec mp (alignUp size 8) hi.seg_ok hsz
  obtain ⟨s1, s2⟩ := mpStartSize_spec mp hi.seg_ok
  refine ⟨by omega, ?_, by omega, ?_, n1, by simp only [mpHdr]; omega⟩
  · intro s hs
    have := hi.seg_ok s hs
    simp only [MSegOk] at this
    omega
  · intro k hk
    have := growTo_le_of_le k 32 (mpStartSize mp) (alignUp size 8) hk
    unfold mpNextSize at n3
    omega

/-- `mempool_destroy` frees exactly the regions obtained from `calloc`, each once. -/
theorem mempool_destroy_returns_once {mp : MemPool} {live : List Block} {ob : List (Nat × Nat)}
    (h : MReach mp live ob) : mpDestroy mp = ob.reverse ∧ (mpDestroy mp).Nodup := by
  obtain ⟨hi, ho⟩ := mreach_inv h
  exact ⟨ho, mpDestroy_nodup hi⟩

/-- Frame condition for `mempool_destroy(&handle)`: what is released depends only on the chain of
    segments — `mpDestroy` does not look at where the handle variable lives (outside the pool, or
    inside its oldest, a middle or the newest block, as `usual/regex.c` keeps `rxi->pool`): the
    code reads the handle once, stores NULL into it *before* the first `free`, and then follows
    `prev` pointers read from each segment before that segment is freed.  So for every reachable
    pool, wherever a block `b` holding the handle lies, exactly the regions obtained are released,
    each once, and `b` itself lies inside one of them (it is gone afterwards, never read again). -/
theorem mempool_destroy_handle_anywhere {mp : MemPool} {live : List Block} {ob : List (Nat × Nat)}
    (h : MReach mp live ob) (b : Block) (hb : b ∈ live) :
    mpDestroy mp = ob.reverse ∧ (mpDestroy mp).Nodup ∧
    ∃ r ∈ mpDestroy mp, r.1 + mpHdr ≤ b.ptr ∧ b.ptr + b.len ≤ r.1 + r.2 := by
  obtain ⟨hi, ho⟩ := mreach_inv h
  refine ⟨ho, mpDestroy_nodup hi, ?_⟩
  obtain ⟨g, hg, hin⟩ := hi.blk_in b hb
  have hok := hi.seg_ok g hg
  refine ⟨(g.base, mpHdr + g.size), ?_, ?_⟩
  · unfold mpDestroy; exact List.mem_map.mpr ⟨g, hg, rfl⟩
  · simp only [InMSeg, MSegOk] at *; omega

/-- F19, unchanged `mempool_alloc`: in a 512-byte segment with 16 bytes used, a request of
    0xFFFFFFF0 bytes passes the test `cur->used + size <= cur->size` (the sum wraps to 0) and
    `used` becomes 0, so the next block handed out overlaps the first one. -/
theorem mempool_f19_old_counterexample :
    mpFitOld { base := 4096, size := 512, used := 16 } 0xFFFFFFF0 = some (16, 0) := by decide

/-! ## stacking: any allocator that hands out fresh memory can be the parent -/

/-- **alloc_stack_ok.**  `Fresh S` is the contract between an allocator `S` and its client: the
    blocks handed out and not yet given back are pairwise disjoint and non-empty, a successful
    `alloc`/`realloc` adds exactly the returned block (of the requested size), `free`/`realloc`
    give up exactly the block passed, failures change nothing.  `PoolOn P` / `TreeOn P` are the
    cx pool / the tree allocator (a forest with nested sub-trees) running on top of an arbitrary
    allocator `P`: a composite step takes a step of `P` exactly where the C code calls
    `cx_alloc/cx_realloc/cx_free` on its parent.  If `P` satisfies the contract, so do the pool
    and the tree on top of it — they require nothing else from their parent and offer the same to
    their clients, so stacks of any depth (pool in tree in tree in a libc/talloc-backed base …)
    keep all blocks disjoint. -/
theorem alloc_stack_ok (P : Sys) (hP : Fresh P) : Fresh (PoolOn P) ∧ Fresh (TreeOn P) :=
  ⟨fresh_poolOn hP, fresh_treeOn hP⟩

/-- A layer that puts a fixed header of `H` bytes in front of every block and pads the payload
    (`pad n ≥ n`) — the talloc-backed cx (`H = THSIZE = 88`, `pad = ALIGN`), `cx_nofail_ops`
    (`H = 0`, `pad = id`) — also preserves the contract, so "pool in tree in talloc-backed cx" is
    covered: `PoolOn (TreeOn (HdrOn Base 88 (alignUp · 8)))`. -/
theorem hdr_layer_ok (P : Sys) (hP : Fresh P) (H : Nat) (pad : Nat → Nat) (hpad : ∀ n, n ≤ pad n) :
    Fresh (HdrOn P H pad) :=
  fresh_hdrOn hP H pad hpad

example : Fresh (PoolOn (TreeOn (HdrOn Bump tallocHdr (fun n => alignUp n 8)))) :=
  fresh_poolOn (fresh_treeOn (fresh_hdrOn fresh_bump _ _ (fun _ => alignUp_ge (by decide))))

/-- Where the blocks of the upper layers lie: a tree block starts exactly 16 bytes into — and ends
    with — a block obtained from the parent and inherits its alignment for every alignment
    dividing 16; a header-layer block starts `H` bytes into its parent block; and, composing
    (`pool_on_any_parent`), every block of a pool in a tree in a talloc-backed cx over any base `B`
    lies inside a block obtained from `B`. -/
theorem stack_block_inside {B : Sys} (hB : Fresh B) {H : Nat} {pad : Nat → Nat} (hpad : ∀ n, n ≤ pad n) :
    (∀ {s : (TreeOn B).σ}, (TreeOn B).WF s → ∀ b ∈ (TreeOn B).live s, ∃ r ∈ B.live s.2,
        b.ptr = r.ptr + treeHdr ∧ b.ptr + b.len = r.ptr + r.len ∧
        ∀ A, 16 % A = 0 → r.ptr % A = 0 → b.ptr % A = 0) ∧
    (∀ {s : (HdrOn B H pad).σ}, (HdrOn B H pad).WF s → ∀ b ∈ (HdrOn B H pad).live s, ∃ r ∈ B.live s.2,
        b.ptr = r.ptr + H ∧ b.ptr + b.len ≤ r.ptr + r.len) ∧
    (∀ {s : (PoolOn (TreeOn (HdrOn B H pad))).σ}, (PoolOn (TreeOn (HdrOn B H pad))).WF s →
        ∀ b ∈ (PoolOn (TreeOn (HdrOn B H pad))).live s, ∃ q ∈ B.live s.2.2.2,
          q.ptr ≤ b.ptr ∧ b.ptr + b.len ≤ q.ptr + q.len) :=
  ⟨fun hwf => treeOn_block_inside hB hwf, fun hwf => hdrOn_block_inside hB hwf,
   fun hwf => stack3_inside hB hpad hwf⟩

/-- Contents of tree blocks, on any parent satisfying the contract.  The tree code stores list
    pointers only into the 16-byte item headers of the tree it operates on and into that tree's
    `struct CxTree` (`treeTouch` lists all of these, plus the header of an item just obtained —
    which is fresh memory); none of these bytes belongs to the payload of any block of the forest,
    so whatever is stored (`junk`), every block keeps all its bytes. -/
theorem tree_contents_stable_ok {P : Sys} (hP : Fresh P) {s : (TreeOn P).σ} (hwf : (TreeOn P).WF s)
    {id : Nat} {n : TNode} (hf : s.1.find id = some n) (extra : List Nat)
    (hextra : ∀ a ∈ extra, ∀ r ∈ P.live s.2, a + treeHdr ≤ r.ptr ∨ r.ptr + r.len ≤ a)
    (junk m : Mem) :
    ∀ b ∈ (TreeOn P).live s, ∀ i, i < b.len →
      memStore junk m (treeTouch n extra) (b.ptr + i) = m (b.ptr + i) :=
  tree_contents_stable hP hwf hf extra hextra junk m

/-- `tree_realloc` preserves the first `min(old, new)` bytes: the parent's `realloc` of the item
    copies `min(sz, 16+len)` bytes (its contract, `hparent`), and the list pointers the tree then
    stores (`touch`, all outside the new payload) do not disturb them. -/
theorem tree_realloc_preserves_ok {a sz a' len : Nat} (hsz : treeHdr ≤ sz) (junk m mP : Mem)
    (touch : List (Nat × Nat))
    (hparent : ∀ i, i < min sz (treeHdr + len) → mP (a' + i) = m (a + i))
    (houtside : ∀ i, i < len → ∀ r ∈ touch, inRange r.1 r.2 (a' + treeHdr + i) = false) :
    ∀ i, i < min (sz - treeHdr) len →
      memStore junk mP touch (a' + treeHdr + i) = m (a + treeHdr + i) :=
  tree_realloc_preserves hsz junk m mP touch hparent houtside

example : (memStore (fun _ => 7) (fun x => UInt8.ofNat x) (treeTouch (.mk 1 1000 [(2000, 116)] []) [3000]) 2016 = UInt8.ofNat 2016)
    ∧ (memStore (fun _ => 7) (fun x => UInt8.ofNat x) (treeTouch (.mk 1 1000 [(2000, 116)] []) [3000]) 2008 = 7) := by
  constructor <;> decide

/-- a concrete allocator satisfying the contract (bump allocator), and a stack of depth 4 on it -/
example : Fresh Bump ∧ Fresh (PoolOn (PoolOn (TreeOn (TreeOn Bump)))) :=
  ⟨fresh_bump, fresh_poolOn (fresh_poolOn (fresh_treeOn (fresh_treeOn fresh_bump)))⟩

/-- The pool on any parent `P` satisfying the contract: `cx_new_pool` starts a well-formed
    composite; in every well-formed state each block is aligned to the pool's alignment and lies
    inside (behind the first byte of) a block the pool obtained from `P`; `cx_destroy` passes to
    `cx_free(P, …)` exactly the regions obtained from `P`, each once, all of them live in `P`, and
    `P` ends up holding exactly what it held without them. -/
theorem pool_on_any_parent (P : Sys) (hP : Fresh P) :
    (∀ {sp sp' : P.σ} {initial align a : Nat} {p : Pool}, P.WF sp → align < 2 ^ 32 →
       P.alloc sp (newPoolReq initial) (some a) sp' → newPool initial align (some a) = some p →
       (PoolOn P).WF (⟨p, [], [(a, newPoolReq initial)]⟩, sp')) ∧
    (∀ {s : (PoolOn P).σ}, (PoolOn P).WF s → ∀ b ∈ (PoolOn P).live s, b.ptr % s.1.pool.align = 0 ∧
       ∃ r ∈ P.live s.2, r.ptr < b.ptr ∧ b.ptr + b.len ≤ r.ptr + r.len) ∧
    (∀ {s : (PoolOn P).σ} {sp' : P.σ}, (PoolOn P).WF s →
       FreeAll P s.2 ((destroy s.1.pool).map blkOf) sp' →
       destroy s.1.pool = s.1.obtained.reverse ∧ (destroy s.1.pool).Nodup ∧ P.WF sp' ∧
       ∃ rest, (P.live s.2).Perm ((destroy s.1.pool).map blkOf ++ rest) ∧ rest.Perm (P.live sp')) :=
  ⟨fun hwf hal hpa hp => poolOn_create hP hwf hal hpa hp, fun hwf => poolOn_block_inside hwf,
   fun hwf hd => poolOn_destroy hP hwf hd⟩

/-- The tree allocator on any parent `P` satisfying the contract: `cx_new_tree(P)` and
    `cx_new_tree(tree)` keep the composite well-formed; `cx_destroy` of the root passes to
    `cx_free(P, …)` blocks that were all live in `P` (in the order of `tree_destroy`) and leaves
    `P` with exactly the rest; `cx_destroy` of a sub-tree leaves a well-formed forest. -/
theorem tree_on_any_parent (P : Sys) (hP : Fresh P) :
    (∀ {sp sp' : P.σ} {id a : Nat}, P.WF sp → P.alloc sp sizeofTree (some a) sp' →
       (TreeOn P).WF (.mk id a [] [], sp')) ∧
    (∀ {s : (TreeOn P).σ} {sp' : P.σ} {par newId a : Nat}, (TreeOn P).WF s → par ∈ s.1.ids →
       newId ∉ s.1.ids → P.alloc s.2 sizeofTree (some a) sp' →
       (TreeOn P).WF (s.1.update (treeAddSub newId a) par, sp')) ∧
    (∀ {s : (TreeOn P).σ} {sp' : P.σ}, (TreeOn P).WF s → FreeAll P s.2 (destroyB s.1) sp' →
       (destroyB s.1).map (·.ptr) = s.1.destroyList ∧ P.WF sp' ∧
       ∃ rest, (P.live s.2).Perm (destroyB s.1 ++ rest) ∧ rest.Perm (P.live sp')) ∧
    (∀ {s : (TreeOn P).σ} {sp' : P.σ} {id : Nat} {n : TNode}, (TreeOn P).WF s → id ∈ idsL s.1.subs →
       s.1.find id = some n → FreeAll P s.2 (destroyB n) sp' → (TreeOn P).WF (s.1.remove id, sp')) :=
  ⟨fun hwf hpa => treeOn_create hP hwf hpa, fun hwf hpar hnew hpa => treeOn_newSub hP hwf hpar hnew hpa,
   fun hwf hd => treeOn_destroy hP hwf hd, fun hwf hsub hf hd => treeOn_destroySub hP hwf hsub hf hd⟩

/-- The slab on any parent `P` satisfying the contract: what `grow` gets from `cx_alloc0(P, …)`
    is what the slab theorems require from the parent (`SParentOkM`), the composite stays
    well-formed through `slab_create`, `slab_alloc`, `slab_free`; every object held lies inside a
    block obtained from `P`; `slab_destroy` returns every fragment and the slab struct, once. -/
theorem slab_on_any_parent (P : Sys) (hP : Fresh P) :
    (∀ {sp sp' : P.σ} {objSize align a : Nat} {sl : Slab}, P.WF sp → P.alloc sp sizeofSlab (some a) sp' →
       slabCreate objSize align (some a) = some sl → SlabOnWF (⟨sl, [], sp'⟩ : SlabOnState P)) ∧
    (∀ {s : SlabOnState P} {sp' : P.σ} {pa : Option Nat} {sl' : Slab} {r : Option Nat}, SlabOnWF s →
       ParentCall P s.par (slabAllocReq s.slab) pa sp' → slabAlloc s.slab pa = (sl', r) →
       (∀ req, slabAllocReq s.slab = some req → SParentOkM s.slab req pa) ∧
       SlabOnWF (⟨sl', consOpt r s.live, sp'⟩ : SlabOnState P)) ∧
    (∀ {s : SlabOnState P} {o : Nat}, SlabOnWF s → o ∈ s.live →
       SlabOnWF (⟨slabFree s.slab o, s.live.erase o, s.par⟩ : SlabOnState P)) ∧
    (∀ {s : SlabOnState P}, SlabOnWF s → ∀ o ∈ s.live, ∃ b ∈ P.live s.par,
       b.ptr + slabFragHdr ≤ o ∧ o + s.slab.finalSize ≤ b.ptr + b.len) ∧
    (∀ {s : SlabOnState P} {sp' : P.σ}, SlabOnWF s →
       FreeAll P s.par ((slabDestroy s.slab).map blkOf) sp' →
       P.WF sp' ∧ ∃ rest, (P.live s.par).Perm ((slabDestroy s.slab).map blkOf ++ rest) ∧ rest.Perm (P.live sp')) :=
  ⟨fun hwf hpa hc => slabOn_create hP hwf hpa hc, fun hwf hc hr => slabOn_alloc hP hwf hc hr,
   fun hwf ho => slabOn_free hwf ho, fun hwf => slabOn_inside hwf, fun hwf hd => slabOn_destroy hP hwf hd⟩

/-- The mempool on any parent `P` (its `calloc`) satisfying the contract with 8-aligned answers:
    the answer is what the mempool theorems require (`MParentOk`), the composite stays
    well-formed, blocks are 8-aligned and inside a block obtained from `P`, destroy returns all. -/
theorem mempool_on_any_parent (P : Sys) (hP : Fresh P) (hal : Aligned8 P) :
    (∀ {s : MpOnState P} {sp' : P.σ} {size q : Nat} {pa : Option Nat} {mp' : MemPool}, MpOnWF s →
       ParentCall P s.par (mpAllocReq s.mp size) pa sp' → mpAlloc s.mp size pa = some (mp', q) →
       (∀ req, mpAllocReq s.mp size = some req → MParentOk s.mp req pa) ∧
       MpOnWF (⟨mp', ⟨q, size⟩ :: s.live, sp'⟩ : MpOnState P)) ∧
    (∀ {s : MpOnState P}, MpOnWF s → ∀ b ∈ s.live, b.ptr % 8 = 0 ∧
       ∃ r ∈ P.live s.par, r.ptr + mpHdr ≤ b.ptr ∧ b.ptr + b.len ≤ r.ptr + r.len) ∧
    (∀ {s : MpOnState P} {sp' : P.σ}, MpOnWF s → FreeAll P s.par ((mpDestroy s.mp).map blkOf) sp' →
       P.WF sp' ∧ ∃ rest, (P.live s.par).Perm ((mpDestroy s.mp).map blkOf ++ rest) ∧ rest.Perm (P.live sp')) :=
  ⟨fun hwf hc hr => mpOn_alloc hP hal hwf hc hr, fun hwf => mpOn_inside hwf, fun hwf hd => mpOn_destroy hP hwf hd⟩

/-- non-vacuity: a pool created inside a tree inside the bump allocator is a well-formed state of
    the depth-2 stack, and a block allocated from it is registered -/
example : ∃ s : (PoolOn (TreeOn Bump)).σ, (PoolOn (TreeOn Bump)).WF s ∧ s.2.2.1 = 8192 + 72 + (16 + 1104) := by
  have hb : Bump.WF (8192, []) := ⟨by simp, by intro b hb; cases hb⟩
  have ht := treeOn_create (id := 1) fresh_bump hb (sp' := (8192 + 72, [⟨8192, 72⟩])) (Or.inl ⟨rfl, rfl⟩)
  have hp := poolOn_create (P := TreeOn Bump) (fresh_treeOn fresh_bump) ht (initial := 1024) (align := 64)
    (a := 8192 + 72 + 16)
    (sp' := (.mk 1 8192 [(8192 + 72, 16 + 1104)] [], (8192 + 72 + (16 + 1104), [⟨8192 + 72, 16 + 1104⟩, ⟨8192, 72⟩])))
    (by decide)
    ⟨1, by decide, some (8192 + 72), by
      refine ⟨?_, ?_⟩
      · show Bump.alloc _ _ _ _
        exact Or.inl ⟨rfl, rfl⟩
      · exact ⟨rfl, rfl⟩⟩
    rfl
  exact ⟨_, hp, rfl⟩

/- NOT PROVED (delegated to the correspondence run, listed as partial in the evidence):
   * the composition glue of the model driver (`Usual.C09.World`, which threads the op lines of
     the harness through the layer models) is not itself the subject of a theorem; the stacking
     theorems above are about `PoolOn` / `TreeOn` / `SlabOn…` / `MpOn…`, which compose the same
     layer models (`step`, `treeAlloc`, `slabAlloc`, `mpAlloc` …) at the same call sites.
   * contents across layers: `Fresh` speaks about which blocks are held, not about bytes; contents
     are proved per layer (`pool_realloc_preserves`, `slab_init_documented`, `slab_free_contents`).
   * real pointers: models use abstract addresses; ASan + the poisoned margins of the tracking
     base allocator watch the real ones. -/
end UsualProps.C09
