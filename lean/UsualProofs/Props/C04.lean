import UsualProofs.C04.Ends
import UsualProofs.C04.RoundTrip
import UsualProofs.C04.RoundTripB
import UsualProofs.C04.SubMatch
import UsualProofs.C04.CMatchFrag
import UsualProofs.C04.CMatchLink
import UsualProofs.C04.CMatchLinkG
import UsualProofs.C04.CMatchRepLink
import UsualProofs.C04.CMatchSub
/-! # Property C04 — internal regex: POSIX leftmost-longest matching

Level of this property: **exploration with a proved oracle**.  The theorems below are about the
*reference* in `Usual.C04` (declarative semantics `Matches`, executable `ends` / `llmatch`,
parser model `parseERE`), not about the back-tracking matcher of `usual/regex.c`; the C code is
compared with `llmatch` / `compile` on results by `checks/C04.py` (harness/C04/h.c vs
lean/Driver/C04.lean).  The sub-match clause is the checker `Usual.C04.pmatchOk`, applied to
the implementation's output (monitored, not proved about C). -/

namespace UsualProps.C04
open Usual.C04

/-- The executable reference lists exactly the end positions of the declarative semantics:
`[i, j)` is a word of the language of `r` (in context `e`: anchors, REG_NOTBOL/NOTEOL/
NEWLINE/ICASE) iff `j` is produced by `ends`.  The repetition case uses that zero-length
iterations can be dropped (`Iter.drop`). -/
theorem ends_sound_complete (e : Env) (r : Re) (i j : Nat) :
    j ∈ ends e r i ↔ Matches e r i j :=
  mem_ends r i j

example : let e : Env := { s := #[97, 97, 98], newline := true }
    (3 ∈ ends e (.cat (.rep (.group (.alt (.chr 97) .bol)) 2 none) (.chr 98)) 0) ∧
    Matches e (.cat (.rep (.group (.alt (.chr 97) .bol)) 2 none) (.chr 98)) 0 3 := by
  refine ⟨by decide, ?_⟩
  exact (ends_sound_complete _ _ 0 3).mp (by decide)

/-- `llmatch` reports `(i, j)` iff `[i, j)` matches, nothing matches from an earlier start,
and nothing longer matches from `i`: the POSIX leftmost-longest overall match. -/
theorem llmatch_spec (e : Env) (r : Re) (i j : Nat) :
    llmatch e r = some (i, j) ↔
      Matches e r i j ∧ (∀ i', i' < i → ∀ j', ¬ Matches e r i' j') ∧ (∀ j', j' > j → ¬ Matches e r i j') := by
  unfold llmatch
  rw [scan_eq_some, maxOf_eq_some]
  constructor
  · rintro ⟨_, _, ⟨hmem, hmax⟩, hbefore⟩
    refine ⟨(mem_ends r i j).mp hmem, ?_, ?_⟩
    · intro i' hi' j' hm
      exact (ends_eq_nil_iff.mp (hbefore i' (Nat.zero_le _) hi')) j' hm
    · intro j' hj' hm
      have := hmax j' ((mem_ends r i j').mpr hm)
      omega
  · rintro ⟨hm, hleft, hlong⟩
    have hb := Matches.bounds hm
    refine ⟨Nat.zero_le _, by omega, ⟨(mem_ends r i j).mpr hm, ?_⟩, ?_⟩
    · intro x hx
      have hx' := (mem_ends r i x).mp hx
      exact Nat.le_of_not_gt (fun hgt => hlong x hgt hx')
    · intro a' _ ha'
      exact ends_eq_nil_iff.mpr (fun j' => hleft a' ha' j')

example : llmatch { s := #[120, 97, 98, 99] } (.alt (.chr 97) (.cat (.chr 97) (.chr 98))) = some (1, 3) := by
  decide

/-- `llmatch` reports no match iff no substring of the subject belongs to the language. -/
theorem llmatch_none (e : Env) (r : Re) :
    llmatch e r = none ↔ ∀ i j, ¬ Matches e r i j := by
  unfold llmatch
  rw [scan_eq_none]
  constructor
  · intro h i j hm
    have hb := Matches.bounds hm
    exact (ends_eq_nil_iff.mp (h i (Nat.zero_le _) (by omega))) j hm
  · intro h a _ _
    exact ends_eq_nil_iff.mpr (h a)

example : llmatch { s := #[97, 10, 98], newline := true } (.cat (.chr 97) (.cat .any (.chr 98))) = none := by
  decide

/-- **regexec reports a match iff some substring is in the language** (existence form used
for `nmatch = 0` / REG_NOSUB, where only the return code is observable). -/
theorem llmatch_isSome_iff (e : Env) (r : Re) :
    (llmatch e r).isSome = true ↔ ∃ i j, Matches e r i j := by
  constructor
  · intro h
    cases hl : llmatch e r with
    | none => rw [hl] at h; cases h
    | some p =>
      obtain ⟨i, j⟩ := p
      exact ⟨i, j, ((llmatch_spec e r i j).mp hl).1⟩
  · rintro ⟨i, j, hm⟩
    cases hl : llmatch e r with
    | none => exact absurd hm ((llmatch_none e r).mp hl i j)
    | some p => rfl

example : (llmatch { s := #[98, 65], icase := true } (.chr 97)).isSome = true := by decide

/-! ### the sub-match clause (`pmatchOk`), about the reference -/

/-- What the monitored predicate says: `pm[0]` is an ordered range inside the subject, and every
further entry is either unset `(-1,-1)` or belongs to a group (`k+1 ≤ nsub`) and is an ordered
range inside `pm[0]` (hence inside the subject). -/
theorem pmatchOk_spec (len nsub : Nat) (so0 eo0 : Int) (rest : List (Int × Int))
    (h : pmatchOk len nsub ((so0, eo0) :: rest) = true) :
    (0 ≤ so0 ∧ so0 ≤ eo0 ∧ eo0 ≤ (len : Int)) ∧
    ∀ k (hk : k < rest.length), rest[k] = (-1, -1) ∨
      (k + 1 ≤ nsub ∧ so0 ≤ rest[k].1 ∧ rest[k].1 ≤ rest[k].2 ∧ rest[k].2 ≤ eo0 ∧
        0 ≤ rest[k].1 ∧ rest[k].2 ≤ (len : Int)) :=
  ⟨pmatchOk_head h, fun k hk => pmatchOk_entry h k hk⟩

example : pmatchOk 4 3 [(0, 4), (0, 2), (-1, -1), (3, 4)] = true ∧
    pmatchOk 4 3 [(0, 4), (0, 2), (2, 5)] = false ∧ pmatchOk 4 1 [(0, 4), (-1, -1), (1, 2)] = false := by decide

/-- The clause is satisfiable exactly when the reference finds a match: for the overall match
`llmatch` reports there is an assignment of `re_nsub + 1` entries with `pm[0]` = that match which
satisfies `pmatchOk`; and an assignment whose `pm[0]` is a match of the pattern can only exist if
`llmatch` reports one. -/
theorem submatch_clause_satisfiable (e : Env) (r : Re) :
    (∃ i j pm, llmatch e r = some (i, j) ∧ pm.length = r.groups + 1 ∧
        pm.head? = some ((i : Int), (j : Int)) ∧ pmatchOk e.s.size r.groups pm = true) ↔
    ∃ i j, Matches e r i j := by
  constructor
  · rintro ⟨i, j, _, hl, _⟩
    exact ⟨i, j, ((llmatch_spec e r i j).mp hl).1⟩
  · intro h
    have hs := (llmatch_isSome_iff e r).mpr h
    cases hl : llmatch e r with
    | none => rw [hl] at hs; cases hs
    | some p =>
      obtain ⟨i, j⟩ := p
      have hm := ((llmatch_spec e r i j).mp hl).1
      have hb := Matches.bounds hm
      exact ⟨i, j, unsetPm i j r.groups, rfl, by simp [unsetPm], rfl, pmatchOk_unset hb.1 hb.2⟩

example : ∃ pm, pm.length = 2 ∧ pm.head? = some ((0 : Int), (2 : Int)) ∧
    pmatchOk 2 1 pm = true ∧ llmatch { s := #[97, 98] } (.cat (.group (.chr 97)) (.chr 98)) = some (0, 2) :=
  ⟨[(0, 2), (0, 1)], rfl, rfl, by decide, by decide⟩

/-- **The parser model inverts the ERE renderer on the full supported syntax.**  For every tree
in the parser's shape (`wfE`: literals, `.`, bracket expressions = any bitmap over the bytes
1..255, anchors, groups, alternation, `* + ? {m} {m,} {m,n}` with counts below `MAX_COUNT`, fewer than
`MAX_GROUPS` groups) the text `renderERE r` compiles, without error, to the tree `regcomp` stores
for it under the flags (`foldRe fl r`: literals case-folded under REG_ICASE, bracket bitmaps as
`op_class` accumulates them under REG_ICASE / REG_NEWLINE) with `re_nsub` = number of groups.
Bracket expressions are rendered from the bitmap (`renderCls`): `[[:name:]]` / `[^[:name:]]` when
the bitmap is (the complement of) a named class, otherwise the members as maximal runs `lo-hi`
with `]` first, `[` `^` `-` placed last (so `[` is never followed by `.:=`, `^` is never first, `-`
is a literal), the two classes that cannot be listed positively (`{}` and `{^}`) as a negated
listing, and `{-,^}` as `[-^]`; `Usual.C04.parseClass_clsBody` proves that `op_class`
(`get_map_token`, `fill_class`, ranges, negation) reads this back. -/
theorem parse_render_ere (fl : PFlags) (r : Re) (h : wfE r = true) :
    parseERE fl (renderERE r) = .ok (foldRe fl r, r.groups) :=
  parseERE_renderERE fl r h

/-- Without compile flags the round trip is exact: the stored tree is the tree itself. -/
theorem parse_render_ere_noflags (r : Re) (h : wfE r = true) :
    parseERE {} (renderERE r) = .ok (r, r.groups) := by
  have h2 : wfL 2 r = true := by
    simp only [wfE, Bool.and_eq_true] at h; exact h.1
  rw [parse_render_ere {} r h, foldRe_noflags r 2 h2]

/-- the text `^(A|\(){2,5}|[b-dx^-]+` (the bitmap is that of `[b-dx^-]`) -/
example :
    let r : Re := .alt (.cat .bol (.rep (.group (.alt (.chr 65) (.chr 40))) 2 (some 5)))
      (.rep (.cls (2 ^ 98 + 2 ^ 99 + 2 ^ 100 + 2 ^ 120 + 2 ^ 94 + 2 ^ 45)) 1 none)
    wfE r = true ∧
    renderERE r = [94, 40, 65, 124, 92, 40, 41, 123, 50, 44, 53, 125, 124, 91, 98, 45, 100, 120, 94, 45, 93, 43] ∧
    parseERE {} [94, 40, 65, 124, 92, 40, 41, 123, 50, 44, 53, 125, 124, 91, 98, 45, 100, 120, 94, 45, 93, 43]
      = .ok (r, 1) := by
  intro r
  have e : renderERE r = [94, 40, 65, 124, 92, 40, 41, 123, 50, 44, 53, 125, 124, 91, 98, 45, 100, 120, 94, 45, 93, 43] := by
    decide +kernel
  refine ⟨by decide +kernel, e, ?_⟩
  have := parse_render_ere_noflags r (by decide +kernel)
  rw [e] at this
  exact this

/-- Same for BRE (`parse_posix_basic`): trees without alternation (strict BRE has none) in which
`^` is the first and `$` the last item of a (sub)pattern (elsewhere they are literals in a BRE),
`*` and `\{m,n\}` repetitions, `\( \)` groups, bracket expressions as above.  The context rules of
the C parser (`*` after `\(` or `^` is a literal, `^` is an anchor only at the start, `$` only before
the end or `\)`) are part of the model and of this proof. -/
theorem parse_render_bre (fl : PFlags) (r : Re) (h : wfB r = true) :
    parseBRE fl (renderBRE r) = .ok (foldRe fl r, r.groups) :=
  parseBRE_renderBRE fl r h

theorem parse_render_bre_noflags (r : Re) (h : wfB r = true) :
    parseBRE {} (renderBRE r) = .ok (r, r.groups) := by
  have h2 : wfBL 1 true true r = true := by
    simp only [wfB, Bool.and_eq_true] at h; exact h.1
  rw [parse_render_bre {} r h, foldRe_noflagsB r 1 true true h2]

/-- the text `^\(B*\)\{2,\}[[:digit:]]$` under REG_ICASE -/
example :
    let r : Re := .cat .bol (.cat (.rep (.group (.rep (.chr 66) 0 none)) 2 none) (.cat (.cls (classBm "digit")) .eol))
    wfB r = true ∧
    renderBRE r = [94, 92, 40, 66, 42, 92, 41, 92, 123, 50, 44, 92, 125, 91, 91, 58, 100, 105, 103, 105, 116, 58, 93, 93, 36] ∧
    parseBRE { icase := true } [94, 92, 40, 66, 42, 92, 41, 92, 123, 50, 44, 92, 125, 91, 91, 58, 100, 105, 103, 105, 116, 58, 93, 93, 36]
      = .ok (.cat .bol (.cat (.rep (.group (.rep (.chr 98) 0 none)) 2 none) (.cat (.cls (classBm "digit")) .eol)), 1) := by
  intro r
  have e : renderBRE r = [94, 92, 40, 66, 42, 92, 41, 92, 123, 50, 44, 92, 125, 91, 91, 58, 100, 105, 103, 105, 116, 58, 93, 93, 36] := by
    decide +kernel
  refine ⟨by decide +kernel, e, ?_⟩
  have := parse_render_bre { icase := true } r (by decide +kernel)
  rw [e] at this
  have hf : foldRe { icase := true } r =
      .cat .bol (.cat (.rep (.group (.rep (.chr 98) 0 none)) 2 none) (.cat (.cls (classBm "digit")) .eol)) := by
    decide +kernel
  have hg : r.groups = 1 := by decide
  rw [this, hf, hg]

/-! ### the model of the C back-tracking matcher (`Usual.C04.CM`, lean/Usual/C04/CMatch.lean)

`CM.cExec` transcribes `usual_regexec` (`scan_next / match_group / match_gend` with the repaired
`minok` logic, `got_full_match / gm_resolve_tie / cmp_gmatches / gmatch_hist_cmp / fill_history /
publish_gm`).  It is compared with the C code line by line in the correspondence run (the whole
`pmatch` array of every execution, internal projection of the `y` ops). -/

/-- **The matcher model equals the reference on every pattern without a repeated group**
(`CM.fragG 2 r`: the parser's tree shape with simple atoms `c . [..]` with or without counts
`* + ? {m,n}`, anchors, concatenation, alternation, and plain groups `( … )` nested arbitrarily —
only a *group* followed by a count is excluded).  `compileOps` turns such a tree into well-numbered
op lists with `r.groups` groups, and unless the model itself ran out of fuel/steps:
`usual_regexec`'s return code is 0 exactly when the reference finds a match (REG_NOMATCH otherwise),
and when `pmatch` is wanted (`nmatch > 0`, no REG_NOSUB; any `nmatch`, so the tie-resolution loop of
`got_full_match` is included) `pmatch[0]` is the reference's leftmost-longest match.

Proof: simultaneous induction on the fuel over `do_match`, `scan_next` and its back-off loop,
`match_group` with its OR-list loop (frames pushed and popped), `match_gend` continuing with the
parent's AND-list; the frame chain is abstracted to the continuation op list; an invariant for
`pmatch[0]` through `got_full_match / publish_gm / fill_history`; the greedy run length of an atom
vs. the iteration of one-byte matches; structural correctness of the op compiler incl. group
numbering.

Superseded by `cmatch_refines_llmatch` below (every parser-shaped tree) except for the subject
length bound, which is `2^31 - 1` here and `MAX_COUNT = 32767` there. -/
theorem cmatch_refines_llmatch_partial (r : Re) (hr : CM.fragG 2 r = true) (e : Env)
    (hsz : e.s.size < 0x7FFFFFFF) (nosub : Bool) (nmatch budget fuel : Nat) :
    ∃ alts, CM.compileOps r = some (alts, r.groups) ∧
      ((CM.cExec alts r.groups nosub e nmatch budget fuel).rc ≠ CM.OUT_OF_BUDGET ∧
       (CM.cExec alts r.groups nosub e nmatch budget fuel).rc ≠ CM.OUT_OF_FUEL →
        (CM.cExec alts r.groups nosub e nmatch budget fuel).rc =
          (if (llmatch e r).isSome then 0 else CM.NOMATCH) ∧
        (nosub = false → nmatch > 0 → ∀ i j, llmatch e r = some (i, j) →
          (CM.cExec alts r.groups nosub e nmatch budget fuel).pm.head? = some ((i : Int), (j : Int)))) :=
  CM.cExec_eq_llmatch_fragG r hr e hsz nosub nmatch budget fuel

/-- `(a|ab)(c|bcd)(d|.*)` on "abcd" is in the fragment (three plain groups, alternation inside a
concatenation); the model reports `(0,4)(0,2)(2,3)(3,4)` and `(0,4)` is `llmatch` -/
example :
    let r : Re := .cat (.group (.alt (.chr 97) (.cat (.chr 97) (.chr 98))))
      (.cat (.group (.alt (.chr 99) (.cat (.chr 98) (.cat (.chr 99) (.chr 100)))))
        (.group (.alt (.chr 100) (.rep .any 0 none))))
    let e : Env := { s := #[97, 98, 99, 100] }
    CM.fragG 2 r = true ∧ llmatch e r = some (0, 4) ∧
    (match CM.compileOps r with
      | some (alts, n) => decide (n = 3 ∧ (CM.cExec alts n false e 4 5000 1000).rc = 0 ∧
          (CM.cExec alts n false e 4 5000 1000).pm = [(0, 4), (0, 2), (2, 3), (3, 4)])
      | none => false) = true := by
  refine ⟨by decide, by decide, by decide +kernel⟩

/-- **The matcher model explores exactly its declared search space — for EVERY compiled
pattern, repeated groups included.**  `CM.Sem e ops k p j` is the declarative (nondeterministic)
reading of `do_match`: an AND-list in front of a continuation `k` (the open group iterations up to
group #0) with the rules of `match_group` / `match_gend` written as inference rules — enter a group
through one of its alternatives as iteration 0, skip it when `mincnt = 0`, at the end of an
iteration either do one more repeat (count below `maxcnt`; after a zero-length iteration only when
the minimum is not reached and `minok` is not yet set) or continue with the parent's AND-list (after
a zero-length iteration, or once `minok`, or once the minimum is reached), a zero-length iteration
with `count > 0` and the minimum reached is cut.  For every tree that compiles, unless the model
itself ran out of fuel/steps: `usual_regexec` returns 0 iff `Sem` has a derivation from some start,
stops at the leftmost such start, in strict mode `last_endpos` is the largest end `Sem` derives from
there and `pmatch[0]` shows it (any `nmatch`); it returns REG_NOMATCH iff there is no derivation at
all.  This pins the loops, the fuel/back-off logic, the frame stack and the `pmatch[0]` bookkeeping
of the algorithm; `cmatch_refines_llmatch` adds the purely declarative equivalence
`Sem (compile r) ↔ Matches e r`. -/
theorem cmatch_explores_sem (r : Re) (alts : List (List CM.COp)) (nsub : Nat)
    (hc : CM.compileOps r = some (alts, nsub)) (nosub : Bool) (e : Env) (nmatch budget fuel : Nat)
    (hg : (CM.cExec alts nsub nosub e nmatch budget fuel).rc ≠ CM.OUT_OF_BUDGET ∧
          (CM.cExec alts nsub nosub e nmatch budget fuel).rc ≠ CM.OUT_OF_FUEL) :
    ((CM.cExec alts nsub nosub e nmatch budget fuel).rc = 0 ∧
      CM.SemLL e alts (!nosub && decide (nmatch > 0)) (CM.cExec alts nsub nosub e nmatch budget fuel).start
        (CM.cExec alts nsub nosub e nmatch budget fuel).last ∧
      ((!nosub && decide (nmatch > 0)) = true → ∀ le, (CM.cExec alts nsub nosub e nmatch budget fuel).last = some le →
        (CM.cExec alts nsub nosub e nmatch budget fuel).pm.head? =
          some (((CM.cExec alts nsub nosub e nmatch budget fuel).start : Int), (le : Int)))) ∨
    ((CM.cExec alts nsub nosub e nmatch budget fuel).rc = CM.NOMATCH ∧
      ∀ i, i ≤ e.s.size → ∀ j, ¬ CM.AltsSem e alts i j) :=
  CM.cExec_specR alts (CM.compR_wfg r 1 1 0 alts nsub hc).2 nsub nosub e nmatch budget fuel hg

/-- **The matcher model equals the reference — on EVERY tree of the parser's shape, repeated
groups `( … )*`, `( … ){m,n}` included** (`wfL 2 r`: exactly the domain of `parse_render_ere`, i.e.
every tree is the parse of its rendering; the driver checks at run time that each parsed pattern is
of this shape).  `compileOps` turns such a tree into op lists with `r.groups` groups, and for every
subject shorter than `MAX_COUNT` (32767, so that `*` = `{0,32767}` cannot be exhausted), all flags,
any `nmatch`, unless the model itself ran out of fuel/steps: `usual_regexec`'s return code is 0
exactly when the reference finds a match (REG_NOMATCH otherwise), and when `pmatch` is wanted
`pmatch[0]` is the reference's leftmost-longest match.

Proof: (1) `cmatch_explores_sem` — the algorithm explores exactly the derivations of `Sem`
(simultaneous induction on the fuel over `do_match / scan_next / match_group` entered and re-entered
`/ OR-list loop / match_gend`, frame chain abstracted to a continuation).  (2) `CM.sem_gend`: the
`gend` continuation unwinds (induction on `maxcnt - count`) to the iteration discipline `RepsM` over
the body relation — one more repeat / exit, the `minok` rule, the zero-length cut.  (3) `repC_iff`
(UsualProofs/C04/RepIter.lean): that discipline accepts `m` from `p` iff there is an iteration
count `mn ≤ n ≤ mx` with `Iter B n p m` — soundness by reading the path off, completeness by
dropping the empty iterations of a given iteration sequence (they change nothing), running the
non-empty ones first and, if the minimum is still not reached, ONE empty iteration that sets
`minok`/exits (this is where the repaired F25 logic is needed), `mincnt = 0` by the skip branch.
(4) `CM.compR_linkS`: structural induction over the tree with an arbitrary rest of the AND-list and
an arbitrary continuation. -/
theorem cmatch_refines_llmatch (r : Re) (hr : wfL 2 r = true) (e : Env)
    (hsz : e.s.size < CM.MAXC) (nosub : Bool) (nmatch budget fuel : Nat) :
    ∃ alts, CM.compileOps r = some (alts, r.groups) ∧
      ((CM.cExec alts r.groups nosub e nmatch budget fuel).rc ≠ CM.OUT_OF_BUDGET ∧
       (CM.cExec alts r.groups nosub e nmatch budget fuel).rc ≠ CM.OUT_OF_FUEL →
        (CM.cExec alts r.groups nosub e nmatch budget fuel).rc =
          (if (llmatch e r).isSome then 0 else CM.NOMATCH) ∧
        (nosub = false → nmatch > 0 → ∀ i j, llmatch e r = some (i, j) →
          (CM.cExec alts r.groups nosub e nmatch budget fuel).pm.head? = some ((i : Int), (j : Int)))) :=
  CM.cExec_eq_llmatch_full r hr e hsz nosub nmatch budget fuel

/-- the F25 pattern `(a|^){2}b` and the AT&T-style `(a|ab)(c|bcd)(d|.*)`, `(a*)*`, `(a*)+b` are in
the domain -/
example :
    wfL 2 (.cat (.rep (.group (.alt (.chr 97) .bol)) 2 (some 2)) (.chr 98)) = true ∧
    wfL 2 (.rep (.group (.rep (.chr 97) 0 none)) 0 none) = true ∧
    wfL 2 (.cat (.rep (.group (.rep (.chr 97) 0 none)) 1 none) (.chr 98)) = true := by
  decide

/-- the iteration discipline of `match_gend`, on its own: for a monotone, bounded body relation
`B` and `mn ≤ mx`, the positions reachable through enter / one-more-repeat / exit with the `minok`
rule and the zero-length cut (`RepC`) are exactly the ends of `mn … mx` iterations of `B`
(`unb`: the upper bound is "infinity", encoded as a count larger than the subject) -/
theorem match_gend_discipline (B : Nat → Nat → Prop) (N mn mx p m : Nat) (hmono : ∀ a b, B a b → a ≤ b)
    (hbound : ∀ a b, B a b → b ≤ N) (hmm : mn ≤ mx) (hp : p ≤ N) (unb : Bool) (hunb : unb = true → N < mx) :
    RepC B mn mx p m ↔ ∃ n, mn ≤ n ∧ (unb = false → n ≤ mx) ∧ Iter B n p m :=
  repC_iff hmono hbound hmm hp unb hunb

/-- **The sub-match clause holds for the matcher model** — "reported sub-match offsets are either
both -1 or ordered, inside the subject and inside the overall match".  For every compiled pattern
(repeated and nested groups included), every subject, all flags, any `nmatch`, and whatever the
outcome of the call (even when the model stops at its own fuel/step limit): every entry
`pmatch[i]`, `i ≥ 1`, is `(-1,-1)` or satisfies `pm[0].so ≤ so ≤ eo ≤ pm[0].eo ≤ |subject|`;
entries beyond `re_nsub` are `(-1,-1)`; and when the call returns 0 with `pmatch` wanted, `pm[0]`
itself is an ordered range inside the subject.

Proof (UsualProofs/C04/CMatchSub.lean): an invariant of the exploration, by simultaneous induction
on the fuel over `do_match / scan_next / back-off loop / match_group (entered and re-entered) /
OR-list loop / match_gend`.  Every frame on a group stack (`gm_stack[gno]`, linked by `prevgm`)
starts at or after the start of group #0, and unless it is one of the OPEN frames of the current
call chain, its `end` (if set) satisfies `start ≤ end ≤ current position`; a call returns with the
stacks restored and may only have changed `end` of open frames.  Group start recording = frame
push; group end recording = `match_gend` closing the innermost open frame at the current position;
reset of inner groups on a new iteration = `publish_gm` dropping a frame whose parent is not the
published one (it publishes `(-1,-1)`, which satisfies the clause trivially); tie resolution and
`publish_gm` read only frames on the stacks, at a moment when the only open frame, group #0, has
just been closed at the current position. -/
theorem submatch_wellformed (r : Re) (alts : List (List CM.COp)) (nsub : Nat)
    (hc : CM.compileOps r = some (alts, nsub)) (nosub : Bool) (e : Env) (nmatch budget fuel : Nat) :
    (∀ i, 1 ≤ i → i < (CM.cExec alts nsub nosub e nmatch budget fuel).pm.length →
      (CM.cExec alts nsub nosub e nmatch budget fuel).pm[i]! = (-1, -1) ∨
      ∃ s0 e0 so eo : Nat, (CM.cExec alts nsub nosub e nmatch budget fuel).pm[0]! = ((s0 : Int), (e0 : Int)) ∧
        (CM.cExec alts nsub nosub e nmatch budget fuel).pm[i]! = ((so : Int), (eo : Int)) ∧
        s0 ≤ so ∧ so ≤ eo ∧ eo ≤ e0 ∧ e0 ≤ e.s.size) ∧
    (∀ i, nsub + 1 ≤ i → i < (CM.cExec alts nsub nosub e nmatch budget fuel).pm.length →
      (CM.cExec alts nsub nosub e nmatch budget fuel).pm[i]! = (-1, -1)) ∧
    ((CM.cExec alts nsub nosub e nmatch budget fuel).rc = 0 → nosub = false → 0 < nmatch →
      ∃ s0 e0 : Nat, (CM.cExec alts nsub nosub e nmatch budget fuel).pm[0]! = ((s0 : Int), (e0 : Int)) ∧
        s0 ≤ e0 ∧ e0 ≤ e.s.size) := by
  have hwf := (CM.compR_wfg r 1 1 0 alts nsub hc).2
  obtain ⟨h1, h2, h3⟩ := CM.cExec_pmWF alts hwf nsub nosub e nmatch budget fuel
  refine ⟨h1, h2, ?_⟩
  intro hrc hns hnm
  refine h3 ?_ hns hnm
  have hg : (CM.cExec alts nsub nosub e nmatch budget fuel).rc ≠ CM.OUT_OF_BUDGET ∧
      (CM.cExec alts nsub nosub e nmatch budget fuel).rc ≠ CM.OUT_OF_FUEL := by
    rw [hrc]; exact ⟨by decide, by decide⟩
  rcases CM.cExec_specR alts hwf nsub nosub e nmatch budget fuel hg with ⟨_, hll, _⟩ | ⟨r1, _⟩
  · obtain ⟨le, hle, _⟩ := hll.longest (by simp [hns, hnm])
    rw [hle]; rfl
  · rw [hrc] at r1; exact absurd r1 (by decide)

/-- the same as the Boolean predicate `pmatchOk` that the check applies to the output of the C
code: a successful call of the model with `pmatch` wanted always satisfies the monitored clause -/
theorem submatch_clause_holds (r : Re) (alts : List (List CM.COp)) (nsub : Nat)
    (hc : CM.compileOps r = some (alts, nsub)) (e : Env) (nmatch budget fuel : Nat) (hnm : 0 < nmatch)
    (hrc : (CM.cExec alts nsub false e nmatch budget fuel).rc = 0) :
    pmatchOk e.s.size nsub (CM.cExec alts nsub false e nmatch budget fuel).pm = true := by
  obtain ⟨h1, h2, h3⟩ := submatch_wellformed r alts nsub hc false e nmatch budget fuel
  exact CM.pmatchOk_of_entries _ _ _ (h3 hrc rfl hnm) h1 h2

/-- non-vacuity: `(a(b)?)*` on "aba" — a repeated group with a nested optional group.  The inner
group matches `b` in the first iteration and does not take part in the second one: the model (and
the C code) report `(0,3)(2,3)(-1,-1)`, the inner group is reset to `(-1,-1)`; the entry past
`re_nsub` stays unset; `pmatchOk` accepts the result. -/
example :
    let r : Re := .rep (.group (.cat (.chr 97) (.rep (.group (.chr 98)) 0 (some 1)))) 0 none
    (match CM.compileOps r with
      | some (alts, n) => decide (n = 2 ∧ (CM.cExec alts n false { s := #[97, 98, 97] } 4 5000 1000).rc = 0 ∧
          (CM.cExec alts n false { s := #[97, 98, 97] } 4 5000 1000).pm = [(0, 3), (2, 3), (-1, -1), (-1, -1)] ∧
          pmatchOk 3 n (CM.cExec alts n false { s := #[97, 98, 97] } 4 5000 1000).pm = true ∧
          -- after the first iteration alone the inner group is set: "ab" gives (0,2)(0,2)(1,2)
          (CM.cExec alts n false { s := #[97, 98] } 3 5000 1000).pm = [(0, 2), (0, 2), (1, 2)])
      | none => false) = true := by
  decide +kernel

/-- `(a|^){2}b` on "ab" (a repeated group whose second iteration is empty-then-non-empty, the F25
case): it compiles, and the model reports `(0,2)(0,1)` -/
example :
    (match CM.compileOps (.cat (.rep (.group (.alt (.chr 97) .bol)) 2 (some 2)) (.chr 98)) with
      | some (alts, n) => decide (n = 1 ∧ (CM.cExec alts n false { s := #[97, 98] } 2 5000 1000).rc = 0 ∧
          (CM.cExec alts n false { s := #[97, 98] } 2 5000 1000).pm = [(0, 2), (0, 1)])
      | none => false) = true := by
  decide +kernel

/-- The repaired `match_gend` (fix F25) is needed: with a minimum count, an empty iteration may
have to be followed by a non-empty one.  `(a|^){2}` on "a" matches `[0,1)` — the unchanged C
code reported `[0,0)`. -/
theorem empty_iteration_then_nonempty :
    llmatch { s := #[97] } (.rep (.group (.alt (.chr 97) .bol)) 2 (some 2)) = some (0, 1) := by
  decide

/-- REG_ICASE on bytes ≥ 0x80 (fix F22): a literal byte matches itself. -/
theorem icase_high_byte_matches_itself (b : UInt8) :
    llmatch { s := #[b], icase := true } (.chr b) = some (0, 1) := by
  rw [llmatch_spec]
  have hm : Matches { s := #[b], icase := true } (.chr b) 0 1 := by
    refine ⟨rfl, b, rfl, ?_⟩
    simp [chrOk]
  refine ⟨hm, fun i' hi' => by omega, ?_⟩
  intro j' hj' hm'
  have := (Matches.bounds hm').2
  simp at this
  omega

example : llmatch { s := #[0xe9], icase := true } (.chr 0xe9) = some (0, 1) :=
  icase_high_byte_matches_itself 0xe9

/-- Interval counts above the limit are malformed (fix F23: no 32-bit wrap of the count):
`a{4294967297}` is rejected with REG_BADBR by the parser model. -/
theorem count_wrap_rejected :
    parseERE {} [97, 123, 52, 50, 57, 52, 57, 54, 55, 50, 57, 55, 125] = .error .badbr := by
  rfl

end UsualProps.C04
