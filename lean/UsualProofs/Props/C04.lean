/-! Property theorems for C04 (stub: not built yet). -/
