/-! Property theorems for C15 (stub: not built yet). -/
