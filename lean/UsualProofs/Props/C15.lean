import UsualProofs.C15.Sort
import UsualProofs.C15.HeapInv
/-! Property theorems for C15 — hash table, binary heap, list_sort, List/StatList, SHList
    match their abstract models.  Models: lean/Usual/C15/*.lean. -/
namespace UsualProps.C15
open Usual.C15 UsualProofs.C15

/-! ## list_sort (usual/list.c): a stable sorted permutation, for every total preorder -/
section SortSec
open Usual.C15.ListSort UsualProofs.C15.Sort

/-- `list_sort` returns a permutation of its input (no comparator assumptions at all) -/
theorem sort_perm {α : Type} (le : α → α → Bool) (l : List α) : (listSort le l).Perm l :=
  listSort_perm le l

example : (listSort (fun (a b : Nat × Nat) => a.1 ≤ b.1) [(3,0),(1,1),(2,2),(1,3),(3,4),(0,5),(1,6)]).Perm
    [(3,0),(1,1),(2,2),(1,3),(3,4),(0,5),(1,6)] := sort_perm _ _

/-- `list_sort` returns a sorted list whenever `cmp(a,b) <= 0` is a total preorder -/
theorem sort_sorted {α : Type} (le : α → α → Bool) (h : TotalPreorder le) (l : List α) :
    (listSort le l).Pairwise (fun a b => le a b = true) :=
  listSort_sorted le h l

/-- the comparator used by the harness and in the examples: compare first components -/
def leFst (a b : Nat × Nat) : Bool := decide (a.1 ≤ b.1)

theorem leFst_preorder : TotalPreorder leFst :=
  ⟨fun a b => by unfold leFst; simp only [decide_eq_true_eq]; omega,
   fun a b c => by unfold leFst; simp only [decide_eq_true_eq]; omega⟩

example : (listSort leFst [(3,0),(1,1),(2,2),(1,3),(3,4),(0,5),(1,6)]).Pairwise (fun a b => leFst a b = true) :=
  sort_sorted leFst leFst_preorder _

/-- `list_sort` is stable: the members of any class of mutually-≤ elements keep their input order -/
theorem sort_stable {α : Type} (le : α → α → Bool) (h : TotalPreorder le) (c : α → Bool)
    (hc : ∀ a b, c a = true → c b = true → le a b = true) (l : List α) :
    (listSort le l).filter c = l.filter c :=
  listSort_stable le h c hc l

example : (listSort leFst [(3,0),(1,1),(2,2),(1,3),(3,4),(0,5),(1,6)]).filter (fun a => a.1 == 1)
    = [(1,1),(1,3),(1,6)] := by
  rw [sort_stable leFst leFst_preorder (fun a => a.1 == 1)
    (fun a b ha hb => by simp only [beq_iff_eq] at ha hb; unfold leFst; simp only [decide_eq_true_eq]; omega)]
  rfl

end SortSec

/-! ## binary heap (usual/heap.c) -/
section HeapSec
open Usual.C15.Heap UsualProofs.C15.HeapP

inductive HeapOp where
  | push (x : Nat)
  | pop
  | remove (i : Nat)
  | reserve (extra : Nat)

def heapStep (better : Nat → Nat → Bool) (h : Heap) : HeapOp → Heap
  | .push x => push better h x
  | .pop => (pop better h).1
  | .remove i => (remove better h i).1
  | .reserve e => reserve h e

def heapRun (better : Nat → Nat → Bool) : Heap → List HeapOp → Heap
  | h, [] => h
  | h, op :: rest => heapRun better (heapStep better h op) rest

/-- histories the API allows: a pushed pointer is non-NULL and not already in the heap -/
def HeapValid (better : Nat → Nat → Bool) : Heap → List HeapOp → Prop
  | _, [] => True
  | h, op :: rest =>
    (match op with
     | .push x => x ≠ 0 ∧ ¬ Mem h x
     | _ => True) ∧ HeapValid better (heapStep better h op) rest

theorem heapStep_inv {better} (sw : StrictWeak better) (h : Heap) (op : HeapOp) (hi : Inv better h)
    (hv : match op with | .push x => x ≠ 0 ∧ ¬ Mem h x | _ => True) : Inv better (heapStep better h op) := by
  cases op with
  | push x => exact (push_spec sw h x hi hv.1 hv.2).1
  | pop =>
    show Inv better (remove better h 0).1
    by_cases hu : 0 < h.used
    · exact (remove_spec sw h 0 hi hu).2.1
    · rw [remove_out better h 0 (by omega)]; exact hi
  | remove i =>
    show Inv better (remove better h i).1
    by_cases hu : i < h.used
    · exact (remove_spec sw h i hi hu).2.1
    · rw [remove_out better h i (by omega)]; exact hi
  | reserve e => exact reserve_inv h e hi

theorem init_inv (better : Nat → Nat → Bool) : Inv better Heap.init :=
  ⟨⟨fun i j hi => by simp [Heap.init] at hi, fun i hi => by simp [Heap.init] at hi,
    fun i hi => by simp [Heap.init] at hi⟩, fun i _ hi => by simp [Heap.init] at hi⟩

theorem heapRun_inv {better} (sw : StrictWeak better) :
    ∀ (ops : List HeapOp) (h : Heap), Inv better h → HeapValid better h ops → Inv better (heapRun better h ops)
  | [], _, hi, _ => hi
  | op :: rest, h, hi, hv => heapRun_inv sw rest _ (heapStep_inv sw h op hi hv.1) hv.2

/-- HEAP ORDER is an invariant of every push/pop/remove/reserve history: no element is better
    than its parent (`orderedB`, the check the driver also evaluates, is true) -/
theorem heap_order_invariant {better} (sw : StrictWeak better) (ops : List HeapOp)
    (hv : HeapValid better Heap.init ops) :
    orderedB better (heapRun better Heap.init ops) = true :=
  (orderedB_iff better _).mpr (heapRun_inv sw ops _ (init_inv better) hv).ord

/-- SAVE_POS: after every history each element's last `save_pos` value is its current index -/
theorem heap_savepos_tracks_index {better} (sw : StrictWeak better) (ops : List HeapOp)
    (hv : HeapValid better Heap.init ops) :
    let h := heapRun better Heap.init ops
    ∀ i, i < h.used → h.pos.get (h.data.get i) = i :=
  (heapRun_inv sw ops _ (init_inv better) hv).pos

/-- the ordering of the harness and the examples: smaller number = better -/
def ltNat (a b : Nat) : Bool := decide (a < b)
theorem ltNat_sw : StrictWeak ltNat :=
  ⟨fun a b => by unfold ltNat; simp only [decide_eq_true_eq, decide_eq_false_iff_not]; omega,
   fun a b c => by unfold ltNat; simp only [decide_eq_false_iff_not]; omega⟩

def exOps : List HeapOp := [.push 5, .push 3, .push 9, .push 1, .reserve 3, .remove 1, .push 4, .pop, .push 2]

theorem exOps_valid : HeapValid ltNat Heap.init exOps := by
  simp only [exOps, HeapValid, heapStep]
  refine ⟨⟨by decide, ?_⟩, ⟨by decide, ?_⟩, ⟨by decide, ?_⟩, ⟨by decide, ?_⟩, trivial, trivial,
          ⟨by decide, ?_⟩, trivial, ⟨by decide, ?_⟩, trivial⟩ <;>
    (rw [← mem_toList]; decide)

example : orderedB ltNat (heapRun ltNat Heap.init exOps) = true := heap_order_invariant ltNat_sw exOps exOps_valid
example : toList (heapRun ltNat Heap.init exOps) = [2, 4, 9, 5] := by decide

/-- POP returns a best element: it was in the heap, nothing in the heap is better, exactly it
    leaves, and the invariant holds again -/
theorem heap_pop_is_best {better} (sw : StrictWeak better) (h : Heap) (hi : Inv better h) (hu : 0 < h.used) :
    Mem h (pop better h).2 ∧ (pop better h).2 ≠ 0 ∧ (∀ y, Mem h y → better y (pop better h).2 = false) ∧
    (∀ y, Mem (pop better h).1 y ↔ (Mem h y ∧ y ≠ (pop better h).2)) ∧
    (pop better h).1.used = h.used - 1 ∧ Inv better (pop better h).1 := by
  obtain ⟨e, i', u', m'⟩ := remove_spec sw h 0 hi hu
  unfold pop
  refine ⟨by rw [e]; exact ⟨0, hu, rfl⟩, by rw [e]; exact hi.nz 0 hu, ?_, by rw [e]; exact m', u', i'⟩
  rintro y ⟨a, ha, rfl⟩
  rw [e]
  exact root_best sw h.data h.used hi.ord a ha

/-- POP / TOP on the empty heap: NULL, nothing changes -/
theorem heap_pop_empty (better : Nat → Nat → Bool) (h : Heap) (hu : h.used = 0) :
    pop better h = (h, 0) ∧ top h = 0 := by
  refine ⟨remove_out better h 0 (by omega), ?_⟩
  unfold top; rw [if_neg (by omega)]

/-- `heap_top` is the element `heap_pop` would return -/
theorem heap_top_eq_pop {better} (sw : StrictWeak better) (h : Heap) (hi : Inv better h) (hu : 0 < h.used) :
    top h = (pop better h).2 := by
  unfold top pop; rw [if_pos hu, (remove_spec sw h 0 hi hu).1]

example : (pop ltNat (heapRun ltNat Heap.init exOps)).2 = 2 := by decide

/-- REMOVE(i) removes exactly the element at index `i` (`heap_get_obj(h, i)`): it is returned,
    it leaves, every other element stays, the invariant holds again -/
theorem heap_remove_exact {better} (sw : StrictWeak better) (h : Heap) (i : Nat) (hi : Inv better h)
    (hu : i < h.used) :
    (remove better h i).2 = getObj h i ∧ getObj h i ≠ 0 ∧
    (∀ y, Mem (remove better h i).1 y ↔ (Mem h y ∧ y ≠ getObj h i)) ∧
    (remove better h i).1.used = h.used - 1 ∧ Inv better (remove better h i).1 := by
  obtain ⟨e, i', u', m'⟩ := remove_spec sw h i hi hu
  have g : getObj h i = h.data.get i := by unfold getObj; rw [if_pos hu]
  rw [g]
  exact ⟨e, hi.nz i hu, m', u', i'⟩

/-- REMOVE(i) with `i` outside the heap: NULL, nothing changes -/
theorem heap_remove_out (better : Nat → Nat → Bool) (h : Heap) (i : Nat) (hu : h.used ≤ i) :
    remove better h i = (h, 0) ∧ getObj h i = 0 := by
  refine ⟨remove_out better h i hu, ?_⟩
  unfold getObj; rw [if_neg (by omega)]

example : (remove ltNat (heapRun ltNat Heap.init exOps) 2).2 = 9 ∧
    toList (remove ltNat (heapRun ltNat Heap.init exOps) 2).1 = [2, 4, 5] := by decide

/-- PUSH adds exactly the new element -/
theorem heap_push_adds {better} (sw : StrictWeak better) (h : Heap) (x : Nat) (hi : Inv better h)
    (hx0 : x ≠ 0) (hfresh : ¬ Mem h x) :
    (∀ y, Mem (push better h x) y ↔ (y = x ∨ Mem h y)) ∧ (push better h x).used = h.used + 1 ∧
    Inv better (push better h x) := by
  obtain ⟨a, b, c⟩ := push_spec sw h x hi hx0 hfresh
  exact ⟨c, b, a⟩

example : toList (push ltNat (heapRun ltNat Heap.init exOps) 1) = [1, 2, 9, 5, 4] := by decide

/-- REFINEMENT to a multiset: the contents of the heap, as a list up to permutation, follow
    the specification `push x ↦ x :: S`, `pop/remove ↦ S.erase (returned element)` along every
    valid history (`specRun` replays the history on a plain list using the values returned) -/
def specStep (better : Nat → Nat → Bool) (h : Heap) (S : List Nat) : HeapOp → List Nat
  | .push x => x :: S
  | .pop => S.erase (pop better h).2
  | .remove i => S.erase (remove better h i).2
  | .reserve _ => S

def specRun (better : Nat → Nat → Bool) : Heap → List Nat → List HeapOp → List Nat
  | _, S, [] => S
  | h, S, op :: rest => specRun better (heapStep better h op) (specStep better h S op) rest

theorem heapStep_refines {better} (sw : StrictWeak better) (h : Heap) (S : List Nat) (op : HeapOp)
    (hi : Inv better h) (hp : (toList h).Perm S)
    (hv : match op with | .push x => x ≠ 0 ∧ ¬ Mem h x | _ => True) :
    (toList (heapStep better h op)).Perm (specStep better h S op) := by
  have hi' := heapStep_inv sw h op hi hv
  have nd : S.Nodup := hp.nodup_iff.mp (toList_nodup h hi.toCore)
  have ms : ∀ y, y ∈ S ↔ Mem h y := fun y => (hp.mem_iff (a := y)).symm.trans (mem_toList h y)
  have rm : ∀ i, (toList (remove better h i).1).Perm (S.erase (remove better h i).2) := by
    intro i
    by_cases hu : i < h.used
    · obtain ⟨e, i2, _, m2⟩ := remove_spec sw h i hi hu
      rw [List.perm_ext_iff_of_nodup (toList_nodup _ i2.toCore) (nd.erase _)]
      intro y
      rw [mem_toList, m2 y, nd.mem_erase_iff, ms y, e]
      exact And.comm
    · rw [remove_out better h i (by omega)]
      rw [List.erase_of_not_mem]
      · exact hp
      · rw [ms]; rintro ⟨a, ha, e⟩; exact hi.nz a ha e
  cases op with
  | push x =>
    obtain ⟨_, _, m2⟩ := push_spec sw h x hi hv.1 hv.2
    have ndx : (x :: S).Nodup := List.nodup_cons.mpr ⟨by rw [ms]; exact hv.2, nd⟩
    show (toList (push better h x)).Perm (x :: S)
    refine (List.perm_ext_iff_of_nodup (toList_nodup (push better h x) hi'.toCore) ndx).mpr ?_
    intro y
    rw [mem_toList, m2 y, List.mem_cons, ms y]
  | pop => exact rm 0
  | remove i => exact rm i
  | reserve e =>
    show (toList (reserve h e)).Perm S
    have := reserve_same h e
    unfold toList; rw [this.1, this.2.1]; exact hp

theorem heap_refines_multiset {better} (sw : StrictWeak better) :
    ∀ (ops : List HeapOp) (h : Heap) (S : List Nat), Inv better h → (toList h).Perm S →
      HeapValid better h ops → (toList (heapRun better h ops)).Perm (specRun better h S ops)
  | [], _, _, _, hp, _ => hp
  | op :: rest, h, S, hi, hp, hv =>
    heap_refines_multiset sw rest _ _ (heapStep_inv sw h op hi hv.1) (heapStep_refines sw h S op hi hp hv.1) hv.2

example : (toList (heapRun ltNat Heap.init exOps)).Perm (specRun ltNat Heap.init [] exOps) :=
  heap_refines_multiset ltNat_sw exOps _ _ (init_inv ltNat) (List.Perm.refl _) exOps_valid

/-- `heap_reserve(h, extra)` leaves the contents alone and makes room for `extra` pushes -/
theorem heap_reserve_spec (h : Heap) (extra : Nat) :
    toList (reserve h extra) = toList h ∧ h.used + extra ≤ (reserve h extra).allocated := by
  have := reserve_same h extra
  exact ⟨by unfold toList; rw [this.1, this.2.1], reserve_room h extra⟩

example : (reserve (heapRun ltNat Heap.init exOps) 100).allocated = 104 := by decide

end HeapSec

end UsualProps.C15
