import UsualProofs.C15.Runs
import UsualProofs.C15.Examples
import UsualProofs.C15.MultiList
import UsualProofs.C15.HTextra
/-! Property theorems for C15 — hash table, binary heap, list_sort, List/StatList, SHList
    match their abstract models.

    Models: lean/Usual/C15/{HashTab,Heap,ListSort,DList,SHList}.lean (transcriptions of
    usual/hashtab-impl.h, heap.c, list.c, list.h, statlist.h, shlist.h).  Helper lemmas:
    lean/UsualProofs/C15/*.lean.  Every theorem below is followed by an `example` that
    instantiates it on a concrete non-trivial value. -/
namespace UsualProps.C15
open Usual.C15 UsualProofs.C15 UsualProofs.C15.Runs UsualProofs.C15.Examples

/-! ## list_sort (usual/list.c): a stable sorted permutation, for every total preorder -/
section SortSec
open Usual.C15.ListSort UsualProofs.C15.Sort

/-- `list_sort` returns a permutation of its input (no comparator assumptions at all) -/
theorem sort_perm {α : Type} (le : α → α → Bool) (l : List α) : (listSort le l).Perm l :=
  listSort_perm le l

example : (listSort leFst [(3,0),(1,1),(2,2),(1,3),(3,4),(0,5),(1,6)]).Perm
    [(3,0),(1,1),(2,2),(1,3),(3,4),(0,5),(1,6)] := sort_perm _ _

/-- `list_sort` returns a sorted list whenever `cmp(a,b) <= 0` is a total preorder -/
theorem sort_sorted {α : Type} (le : α → α → Bool) (h : TotalPreorder le) (l : List α) :
    (listSort le l).Pairwise (fun a b => le a b = true) :=
  listSort_sorted le h l

example : (listSort leFst [(3,0),(1,1),(2,2),(1,3),(3,4),(0,5),(1,6)]).Pairwise (fun a b => leFst a b = true) :=
  sort_sorted leFst leFst_preorder _

/-- `list_sort` is stable: the members of any class of mutually-≤ elements keep their input order -/
theorem sort_stable {α : Type} (le : α → α → Bool) (h : TotalPreorder le) (c : α → Bool)
    (hc : ∀ a b, c a = true → c b = true → le a b = true) (l : List α) :
    (listSort le l).filter c = l.filter c :=
  listSort_stable le h c hc l

example : (listSort leFst [(3,0),(1,1),(2,2),(1,3),(3,4),(0,5),(1,6)]).filter (fun a => a.1 == 1)
    = [(1,1),(1,3),(1,6)] := by
  rw [sort_stable leFst leFst_preorder (fun a => a.1 == 1)
    (fun a b ha hb => by simp only [beq_iff_eq] at ha hb; unfold leFst; simp only [decide_eq_true_eq]; omega)]
  rfl

open Usual.C15.DList UsualProofs.C15.DListP UsualProofs.C15.DSortP in
/-- LINKS after `list_sort`: the list's ring holds exactly the sorted sequence — walking `next`
    from the head yields it, walking `prev` yields its reverse — and no node outside the list
    has been written to -/
theorem sort_links_consistent (le : Nat → Nat → Bool) (s : DL) (l : Nat) (xs : List Nat) (fuel : Nat)
    (h : IsL s l xs) (hl0 : l ≠ 0) (h0 : 0 ∉ xs) (hf : xs.length ≤ fuel) :
    toList (DList.listSort le s l fuel) l fuel = ListSort.listSort le xs ∧
    toListRev (DList.listSort le s l fuel) l fuel = (ListSort.listSort le xs).reverse ∧
    ∀ z, z ∉ l :: xs → (DList.listSort le s l fuel).next.get z = s.next.get z ∧
                         (DList.listSort le s l fuel).prev.get z = s.prev.get z := by
  obtain ⟨r, f⟩ := sort_isL le s l xs fuel h hl0 h0 hf
  have := toList_eq r fuel (by rw [(listSort_perm le xs).length_eq]; exact hf)
  exact ⟨this.1, this.2, f⟩

example : Usual.C15.DList.toList (Usual.C15.DList.listSort (leKey exKey) exDL 1 9) 1 9 = [6, 8, 5, 7] ∧
    Usual.C15.DList.toListRev (Usual.C15.DList.listSort (leKey exKey) exDL 1 9) 1 9 = [7, 5, 8, 6] := by decide +kernel

open Usual.C15.DList UsualProofs.C15.DSortP in
/-- MERGE AT POINTER LEVEL: `merge()` of usual/list.c, run on two disjoint NULL-terminated runs
    `P` (from `p`) and `Q` (from `q`) of the node store, returns the head of a NULL-terminated run
    holding exactly the sequence-level `merge le P Q`, writes `next` fields of nodes of `P ++ Q`
    only, and never touches a `prev` field.  (`sort_links_consistent` is assembled from this, the
    carry / collapse loops over the run stack and the closing prev-restoring loop — all
    transcribed from the C code over the store.) -/
theorem sort_merge_pointer_level (le : Nat → Nat → Bool) (fuel : Nat) (s : DL) (p q : Nat) (P Q : List Nat)
    (hP : ChnTo s.next.get p P 0) (hQ : ChnTo s.next.get q Q 0) (hnd : (P ++ Q).Nodup) (h0 : 0 ∉ P ++ Q)
    (hf : P.length + Q.length < fuel) :
    ChnTo (ptrMerge le fuel s p q).1.next.get (ptrMerge le fuel s p q).2 (ListSort.merge le P Q) 0 ∧
    (∀ z, z ∉ P ++ Q → (ptrMerge le fuel s p q).1.next.get z = s.next.get z) ∧
    (ptrMerge le fuel s p q).1.prev = s.prev :=
  ptrMerge_spec le fuel s p q P Q hP hQ hnd h0 hf

/-- runs 5 → 7 → NULL (keys 3,3) and 6 → 8 → NULL (keys 1,1) -/
example : (Usual.C15.DList.ptrMerge (leKey exKey) 9 exRuns 5 6).2 = 6 ∧
    Usual.C15.DList.walkNext (Usual.C15.DList.ptrMerge (leKey exKey) 9 exRuns 5 6).1 0 9 6 = [6, 8, 5, 7] := by
  decide +kernel

end SortSec

/-! ## binary heap (usual/heap.c) -/
section HeapSec
open Usual.C15.Heap UsualProofs.C15.HeapP

/-- HEAP ORDER is an invariant of every push/pop/remove/reserve history: no element is better
    than its parent (`orderedB`, the check the driver also evaluates, is true) -/
theorem heap_order_invariant {better} (sw : StrictWeak better) (ops : List HeapOp)
    (hv : HeapValid better Heap.init ops) :
    orderedB better (heapRun better Heap.init ops) = true :=
  (orderedB_iff better _).mpr (heapRun_inv sw ops _ (init_inv better) hv).ord

example : orderedB ltNat (heapRun ltNat Heap.init exOps) = true := heap_order_invariant ltNat_sw exOps exOps_valid
example : toList (heapRun ltNat Heap.init exOps) = [2, 4, 9, 5] := by decide +kernel

/-- SAVE_POS: after every history each element's last `save_pos` value is its current index -/
theorem heap_savepos_tracks_index {better} (sw : StrictWeak better) (ops : List HeapOp)
    (hv : HeapValid better Heap.init ops) :
    posOkB (heapRun better Heap.init ops) = true ∧
    ∀ i, i < (heapRun better Heap.init ops).used →
      (heapRun better Heap.init ops).pos.get ((heapRun better Heap.init ops).data.get i) = i :=
  ⟨(posOkB_iff _).mpr (heapRun_inv sw ops _ (init_inv better) hv).pos,
   (heapRun_inv sw ops _ (init_inv better) hv).pos⟩

example : posOkB (heapRun ltNat Heap.init exOps) = true := (heap_savepos_tracks_index ltNat_sw exOps exOps_valid).1

/-- POP returns a best element: it was in the heap, nothing in the heap is better, exactly it
    leaves, and the invariant holds again -/
theorem heap_pop_is_best {better} (sw : StrictWeak better) (h : Heap) (hi : Inv better h) (hu : 0 < h.used) :
    Mem h (pop better h).2 ∧ (pop better h).2 ≠ 0 ∧ (∀ y, Mem h y → better y (pop better h).2 = false) ∧
    (∀ y, Mem (pop better h).1 y ↔ (Mem h y ∧ y ≠ (pop better h).2)) ∧
    (pop better h).1.used = h.used - 1 ∧ Inv better (pop better h).1 := by
  obtain ⟨e, i', u', m'⟩ := remove_spec sw h 0 hi hu
  unfold pop
  refine ⟨by rw [e]; exact ⟨0, hu, rfl⟩, by rw [e]; exact hi.nz 0 hu, ?_, by rw [e]; exact m', u', i'⟩
  rintro y ⟨a, ha, rfl⟩
  rw [e]
  exact root_best sw h.data h.used hi.ord a ha

example : (pop ltNat (heapRun ltNat Heap.init exOps)).2 = 2 ∧
    ∀ y, Mem (heapRun ltNat Heap.init exOps) y → ltNat y (pop ltNat (heapRun ltNat Heap.init exOps)).2 = false :=
  ⟨by decide, (heap_pop_is_best ltNat_sw _ exHeap_inv (by decide)).2.2.1⟩

/-- POP / TOP on the empty heap: NULL, nothing changes -/
theorem heap_pop_empty (better : Nat → Nat → Bool) (h : Heap) (hu : h.used = 0) :
    pop better h = (h, 0) ∧ top h = 0 := by
  refine ⟨remove_out better h 0 (by omega), ?_⟩
  unfold top; rw [if_neg (by omega)]

example : (pop ltNat Heap.init).2 = 0 := by rw [(heap_pop_empty ltNat Heap.init rfl).1]

/-- `heap_top` is the element `heap_pop` would return -/
theorem heap_top_eq_pop {better} (sw : StrictWeak better) (h : Heap) (hi : Inv better h) (hu : 0 < h.used) :
    top h = (pop better h).2 := by
  unfold top pop; rw [if_pos hu, (remove_spec sw h 0 hi hu).1]

example : top (heapRun ltNat Heap.init exOps) = 2 := by decide +kernel

/-- REMOVE(i) removes exactly the element at index `i` (`heap_get_obj(h, i)`): it is returned,
    it leaves, every other element stays, the invariant holds again -/
theorem heap_remove_exact {better} (sw : StrictWeak better) (h : Heap) (i : Nat) (hi : Inv better h)
    (hu : i < h.used) :
    (remove better h i).2 = getObj h i ∧ getObj h i ≠ 0 ∧
    (∀ y, Mem (remove better h i).1 y ↔ (Mem h y ∧ y ≠ getObj h i)) ∧
    (remove better h i).1.used = h.used - 1 ∧ Inv better (remove better h i).1 := by
  obtain ⟨e, i', u', m'⟩ := remove_spec sw h i hi hu
  have g : getObj h i = h.data.get i := by unfold getObj; rw [if_pos hu]
  rw [g]
  exact ⟨e, hi.nz i hu, m', u', i'⟩

example : (remove ltNat (heapRun ltNat Heap.init exOps) 2).2 = 9 ∧
    toList (remove ltNat (heapRun ltNat Heap.init exOps) 2).1 = [2, 4, 5] := by decide +kernel

/-- REMOVE(i) with `i` outside the heap: NULL, nothing changes -/
theorem heap_remove_out (better : Nat → Nat → Bool) (h : Heap) (i : Nat) (hu : h.used ≤ i) :
    remove better h i = (h, 0) ∧ getObj h i = 0 := by
  refine ⟨remove_out better h i hu, ?_⟩
  unfold getObj; rw [if_neg (by omega)]

example : (remove ltNat (heapRun ltNat Heap.init exOps) 4).2 = 0 := by decide +kernel

/-- PUSH adds exactly the new element -/
theorem heap_push_adds {better} (sw : StrictWeak better) (h : Heap) (x : Nat) (hi : Inv better h)
    (hx0 : x ≠ 0) (hfresh : ¬ Mem h x) :
    (∀ y, Mem (push better h x) y ↔ (y = x ∨ Mem h y)) ∧ (push better h x).used = h.used + 1 ∧
    Inv better (push better h x) := by
  obtain ⟨a, b, c⟩ := push_spec sw h x hi hx0 hfresh
  exact ⟨c, b, a⟩

example : toList (push ltNat (heapRun ltNat Heap.init exOps) 1) = [1, 2, 9, 5, 4] := by decide +kernel

/-- REFINEMENT to a multiset: along every valid history the contents of the heap, as a list up
    to permutation, follow the specification `push x ↦ x :: S`, `pop / remove ↦ S.erase (the
    returned element)` (`specRun` replays the history on a plain list) -/
theorem heap_refines_multiset {better} (sw : StrictWeak better) (ops : List HeapOp)
    (hv : HeapValid better Heap.init ops) :
    (toList (heapRun better Heap.init ops)).Perm (specRun better Heap.init [] ops) :=
  heapRun_refines sw ops _ _ (init_inv better) (List.Perm.refl _) hv

example : (toList (heapRun ltNat Heap.init exOps)).Perm (specRun ltNat Heap.init [] exOps) :=
  heap_refines_multiset ltNat_sw exOps exOps_valid
example : specRun ltNat Heap.init [] exOps = [2, 4, 9, 5] := by decide +kernel

/-- `heap_reserve(h, extra)` leaves the contents alone and makes room for `extra` pushes -/
theorem heap_reserve_spec (h : Heap) (extra : Nat) :
    toList (reserve h extra) = toList h ∧ h.used + extra ≤ (reserve h extra).allocated := by
  have := reserve_same h extra
  exact ⟨by unfold toList; rw [this.1, this.2.1], reserve_room h extra⟩

example : (reserve (heapRun ltNat Heap.init exOps) 100).allocated = 104 := by decide +kernel

/-- ALLOCATION FAILURE: when the allocator refuses (`cx_realloc` returns NULL), `heap_reserve`
    and `heap_push` leave the heap exactly as it was and return false — and they only fail if they
    needed the allocator at all (no room for `extra` more / array full); with a willing
    allocator they are the functions of the theorems above -/
theorem heap_alloc_failure_unchanged (better : Nat → Nat → Bool) (h : Heap) (extra x : Nat) :
    reserveO false h extra = (h, !reserveAllocs h extra) ∧
    pushO false better h x = (if h.used ≥ h.allocated then (h, false) else (push better h x, true)) ∧
    reserveO true h extra = (reserve h extra, true) ∧ pushO true better h x = (push better h x, true) :=
  ⟨reserveO_fail h extra, pushO_fail better h x, reserveO_ok h extra, pushO_ok better h x⟩

example : pushO false ltNat Heap.init 7 = (Heap.init, false) := by
  rw [(heap_alloc_failure_unchanged ltNat Heap.init 0 7).2.1]; rfl
example : (reserveO false (heapRun ltNat Heap.init exOps) 100).2 = false ∧
    (reserveO false (heapRun ltNat Heap.init exOps) 3).2 = true := by decide +kernel

end HeapSec

/-! ## hash table (usual/hashtab-impl.h) -/
section HashTabSec
open Usual.C15.HashTab UsualProofs.C15.HT UsualProofs.C15.HTdel

/-- NEXT_POS, p ↦ (5p+1) & (2^k − 1), is ONE FULL CYCLE on every table size 2^k (Hull–Dobell):
    from any slot every slot is reached within 2^k − 1 steps -/
theorem probe_full_cycle (k p q : Nat) (hp : p < 2 ^ k) (hq : q < 2 ^ k) :
    ∃ j, j < 2 ^ k ∧ (fun x => (x * 5 + 1) &&& (2 ^ k - 1))^[j] p = q := by
  have ha := (cycPow k).idx_lt p hp
  have hb := (cycPow k).idx_lt q hq
  refine ⟨fwd (2 ^ k) ((cycPow k).idx p) ((cycPow k).idx q), fwd_lt _ _ _ ha hb, ?_⟩
  have := iterate_σ (cycPow k) _ ha _ (fwd_lt _ _ _ ha hb)
  rw [(cycPow k).σ_idx p hp, plus_fwd _ _ _ ha hb, (cycPow k).σ_idx q hq] at this
  exact this

example : ∃ j, j < 2 ^ 6 ∧ (fun x => (x * 5 + 1) &&& (2 ^ 6 - 1))^[j] 17 = 3 := probe_full_cycle 6 17 3 (by decide) (by decide)

/-- REFINEMENT for every history: starting from `hashtab_create(2^k)`, every sequence of
    insert / delete / copy-resize calls (any keys, any collision pattern, any `cmp_fn`) runs to
    completion (no probe loop spins), ends in a chain satisfying the invariant `HtInv` (`used` =
    occupied slots ≤ MAX_USED in every table; every stored pair reachable from its home slot
    through occupied slots), and the multiset of stored pairs follows the multimap
    specification `SpecRel` step by step -/
theorem ht_refines_multimap (cmp : Nat → Nat → Bool) (k : Nat) (hk : 1 ≤ k) (ops : List HtOp)
    (hv : ∀ op, op ∈ ops → op.valid) :
    ∃ h' k', htRun cmp [create (2 ^ k)] ops = some h' ∧ HtInv k' h' ∧ SpecTrace cmp [] ops (contents h') := by
  have := htRun_spec cmp ops k [create (2 ^ k)] (HtInv_create k hk) hv
  rw [contents_cons, contents_nil, contents_create] at this
  exact this

example : ∃ h' k', htRun eqCmp [create (2 ^ 2)] exHt = some h' ∧ HtInv k' h' ∧ SpecTrace eqCmp [] exHt (contents h') :=
  ht_refines_multimap eqCmp 2 (by decide) exHt exHt_valid
example : (htRun eqCmp [create (2 ^ 2)] exHt).map contents = some [(0, 1), (8, 5), (12, 4), (16, 6)] := by decide +kernel

/-- one step from any chain satisfying the invariant: defined, invariant again, multimap step -/
theorem ht_step_refines_multimap (cmp : Nat → Nat → Bool) (k : Nat) (h : List Table) (hi : HtInv k h)
    (op : HtOp) (hv : op.valid) :
    ∃ h' k', htStep cmp h op = some h' ∧ HtInv k' h' ∧ SpecRel cmp (contents h) op (contents h') :=
  htStep_spec cmp k h hi op hv

example : ∃ h' k', htStep eqCmp [create (2 ^ 3)] (.ins 7 9 none) = some h' ∧ HtInv k' h' ∧
    SpecRel eqCmp (contents [create (2 ^ 3)]) (.ins 7 9 none) (contents h') :=
  ht_step_refines_multimap eqCmp 3 _ (HtInv_create 3 (by decide)) _ (by simp [HtOp.valid])

/-- EVERY STORED PAIR STAYS FINDABLE: in a chain satisfying the invariant, a lookup for the key
    of a stored pair with an `arg` that matches its value returns a slot holding that key and a
    matching value (never NULL, never a spin) -/
theorem ht_stored_pair_findable (cmp : Nat → Nat → Bool) (k : Nat) (h : List Table) (hi : HtInv k h)
    (key v : Nat) (arg : Option Nat) (hmem : (key, v) ∈ contents h) (hm : argMatch cmp v arg = true) :
    ∃ ti p t, lookup cmp key arg h 0 = .found ti p ∧ h[ti]? = some t ∧ t.vals.get p ≠ 0 ∧
      t.keys.get p = key ∧ argMatch cmp (t.vals.get p) arg = true ∧ (key, t.vals.get p) ∈ contents h := by
  obtain ⟨l1, l2, l3⟩ := lookup_spec (cycPow k) cmp key arg h 0 hi.2.2
  cases hl : lookup cmp key arg h 0 with
  | found ti p =>
    obtain ⟨t, _, a2, _, a4, a5, a6, a7⟩ := l2 ti p hl
    exact ⟨ti, p, t, rfl, by simpa using a2, a4, a5, a6, a7⟩
  | none => have := l3 hl v hmem; rw [hm] at this; cases this
  | spin => exact absurd hl l1

example : ∀ h', htRun eqCmp [create (2 ^ 2)] exHt = some h' →
    ∃ ti p t, lookup eqCmp 12 (some 4) h' 0 = .found ti p ∧ h'[ti]? = some t ∧ t.vals.get p ≠ 0 ∧
      t.keys.get p = 12 ∧ argMatch eqCmp (t.vals.get p) (some 4) = true ∧ (12, t.vals.get p) ∈ contents h' := by
  intro h' e
  obtain ⟨h2, k2, e2, i2, _⟩ := ht_refines_multimap eqCmp 2 (by decide) exHt exHt_valid
  rw [e] at e2; cases e2
  have hc : (htRun eqCmp [create (2 ^ 2)] exHt).map contents = some [(0, 1), (8, 5), (12, 4), (16, 6)] := by decide +kernel
  rw [e] at hc
  simp only [Option.map_some, Option.some.injEq] at hc
  exact ht_stored_pair_findable eqCmp k2 h' i2 12 4 (some 4) (by rw [hc]; decide) (by decide)

/-- LOOKUP IS SOUND: it never spins; a returned slot holds the key and a value matching `arg`
    (a stored pair); NULL means that no stored pair with this key matches -/
theorem ht_lookup_sound (cmp : Nat → Nat → Bool) (k : Nat) (h : List Table) (hi : HtInv k h)
    (key : Nat) (arg : Option Nat) :
    lookup cmp key arg h 0 ≠ .spin ∧
    (∀ ti p, lookup cmp key arg h 0 = .found ti p → ∃ t, h[ti]? = some t ∧ t.keys.get p = key ∧
      argMatch cmp (t.vals.get p) arg = true ∧ (key, t.vals.get p) ∈ contents h) ∧
    (lookup cmp key arg h 0 = .none → ∀ v, (key, v) ∈ contents h → argMatch cmp v arg = false) := by
  obtain ⟨l1, l2, l3⟩ := lookup_spec (cycPow k) cmp key arg h 0 hi.2.2
  refine ⟨l1, ?_, l3⟩
  intro ti p hl
  obtain ⟨t, _, a2, _, _, a5, a6, a7⟩ := l2 ti p hl
  exact ⟨t, by simpa using a2, a5, a6, a7⟩

example : ∀ h', htRun eqCmp [create (2 ^ 2)] exHt = some h' → lookup eqCmp 4 (some 2) h' 0 = .none := by
  intro h' e
  have : (htRun eqCmp [create (2 ^ 2)] exHt).map (lookup eqCmp 4 (some 2) · 0) = some .none := by decide +kernel
  rw [e] at this; simpa using this

/-- DELETED PAIRS VANISH: deleting with an `arg` that identifies one stored pair (the comparison
    is equality and the pair occurs once) leaves a chain in which that pair is no longer stored,
    every other pair still is, and the invariant holds -/
theorem ht_deleted_pair_vanishes (k : Nat) (h : List Table) (hi : HtInv k h) (key v : Nat)
    (hmem : (key, v) ∈ contents h) (hone : (contents h).count (key, v) = 1) :
    ∃ h', delete eqCmp key (some v) h = some h' ∧ HtInv k h' ∧ (key, v) ∉ contents h' ∧
      (contents h).Perm ((key, v) :: contents h') := by
  obtain ⟨hk, hne, hc⟩ := hi
  obtain ⟨h', d1, d2, d3, d4⟩ := delete_spec (cycPow k) eqCmp key (some v) h hc
  have hm : argMatch eqCmp v (some v) = true := by simp [argMatch, eqCmp]
  refine ⟨h', d1, ⟨hk, fun e => by rw [e] at d3; exact hne (List.length_eq_zero_iff.mp d3.symm), d2⟩, ?_⟩
  rcases d4 with ⟨nm, _⟩ | ⟨v', hm', hperm⟩
  · have := nm v hmem; rw [hm] at this; cases this
  · have : v' = v := by simpa [argMatch, eqCmp] using hm'
    subst this
    refine ⟨?_, hperm⟩
    intro hin
    have := hperm.count_eq (key, v')
    rw [hone, List.count_cons_self] at this
    have : (contents h').count (key, v') = 0 := by omega
    exact (List.count_eq_zero.mp this) hin

example : ∀ h', htRun eqCmp [create (2 ^ 2)] exHt = some h' →
    ∃ h'', delete eqCmp 12 (some 4) h' = some h'' ∧ (12, 4) ∉ contents h'' := by
  intro h' e
  obtain ⟨h2, k2, e2, i2, _⟩ := ht_refines_multimap eqCmp 2 (by decide) exHt exHt_valid
  rw [e] at e2; cases e2
  have hc : (htRun eqCmp [create (2 ^ 2)] exHt).map contents = some [(0, 1), (8, 5), (12, 4), (16, 6)] := by decide +kernel
  rw [e] at hc
  simp only [Option.map_some, Option.some.injEq] at hc
  obtain ⟨h'', a, _, c, _⟩ := ht_deleted_pair_vanishes k2 h' i2 12 4 (by rw [hc]; decide) (by rw [hc]; decide)
  exact ⟨h'', a, c⟩

/-- STATS: `hashtab_stats` reports exactly the number of stored pairs and the chain length -/
theorem ht_stats_eq (k : Nat) (h : List Table) (hi : HtInv k h) :
    (stats h).1 = (contents h).length ∧ (stats h).2 = h.length :=
  stats_spec (cycPow k) h hi.2.2

example : (htRun eqCmp [create (2 ^ 2)] exHt).map stats = some (4, 1) := by decide +kernel

/-- COPY-RESIZE: `hashtab_copy(h, 2^k')` of ANY chain (it only reads the slot arrays) yields a
    chain of tables of the new size satisfying the invariant and holding the same pairs -/
theorem ht_copy_spec (k' : Nat) (hk : 1 ≤ k') (h : List Table) :
    ∃ h', copy h (2 ^ k') = some h' ∧ HtInv k' h' ∧ (contents h').Perm (contents h) := by
  obtain ⟨h', e1, e2, e3, e4⟩ := copy_spec (cycPow k') (two_le_pow k' hk) h
  exact ⟨h', e1, ⟨hk, e2, e3⟩, e4⟩

example : (htRun eqCmp [create (2 ^ 2)] (exHt ++ [.copy 1])).map (fun h => (stats h, contents h))
    = some ((4, 4), [(0, 1), (8, 5), (12, 4), (16, 6)]) := by decide +kernel

/-- NULL `arg` NEVER MATCHES: `hashtab_lookup(h, key, true, NULL)` always hands out a fresh slot —
    the new pair is added even if equal pairs are stored already (`hashtab_copy` relies on it) -/
theorem ht_null_arg_always_fresh (cmp : Nat → Nat → Bool) (k : Nat) (h : List Table) (hi : HtInv k h)
    (key val : Nat) (hv : val ≠ 0) :
    (HashTab.insert cmp key val none h).2 = .new ∧
    (contents (HashTab.insert cmp key val none h).1).Perm ((key, val) :: contents h) ∧
    lookup cmp key none h 0 = .none :=
  ⟨(insert_null_arg (cycPow k) (two_le_pow k hi.1) cmp key val hv h hi.2.1 hi.2.2).1,
   (insert_null_arg (cycPow k) (two_le_pow k hi.1) cmp key val hv h hi.2.1 hi.2.2).2, by
    obtain ⟨l1, l2, _⟩ := lookup_spec (cycPow k) cmp key none h 0 hi.2.2
    cases hl : lookup cmp key none h 0 with
    | none => rfl
    | spin => exact absurd hl l1
    | found ti p =>
      obtain ⟨t, _, _, _, _, _, a6, _⟩ := l2 ti p hl
      cases a6⟩

example : (htRun eqCmp [create (2 ^ 2)] [.ins 3 9 none, .ins 3 9 none, .ins 3 9 none]).map contents
    = some [(3, 9), (3, 9), (3, 9)] := by decide +kernel

/-- VALUE SLOTS ARE STABLE UNDER INSERTS: a pointer to a stored value (table number, slot number)
    obtained earlier still designates the same key and value after any later insert — also when
    that insert chains a new table (growth appends at the end of the chain, it never moves a pair) -/
theorem ht_insert_keeps_value_slots (cmp : Nat → Nat → Bool) (key val : Nat) (arg : Option Nat)
    (h : List Table) (ti : Nat) (t : Table) (p : Nat) (ht : h[ti]? = some t) (hocc : t.vals.get p ≠ 0) :
    (∃ t', (HashTab.insert cmp key val arg h).1[ti]? = some t' ∧ t'.size = t.size ∧
      t'.keys.get p = t.keys.get p ∧ t'.vals.get p = t.vals.get p) ∧
    h.length ≤ (HashTab.insert cmp key val arg h).1.length :=
  ⟨insert_keeps_slots cmp key val arg h ti t p ht hocc, (insert_length cmp key val arg h).1⟩

example : ∀ h', htRun eqCmp [create (2 ^ 2)] [.ins 0 1 none, .ins 4 2 none, .ins 8 3 none] = some h' →
    ∀ t, h'[0]? = some t → t.vals.get 1 = 2 →
    ∃ t', (HashTab.insert eqCmp 12 4 none h').1[0]? = some t' ∧ t'.keys.get 1 = t.keys.get 1 ∧ t'.vals.get 1 = 2 := by
  intro h' _ t ht hv
  obtain ⟨⟨t', a, _, c, d⟩, _⟩ := ht_insert_keeps_value_slots eqCmp 12 4 none h' 0 t 1 ht (by rw [hv]; decide)
  exact ⟨t', a, c, by rw [d, hv]⟩

/-- DELETE IS LOCAL: only the table holding the deleted pair is rewritten (its compaction may
    move pairs inside that table); every other table of the chain is the same object at the same
    position, and a delete that matches nothing changes nothing -/
theorem ht_delete_is_local (cmp : Nat → Nat → Bool) (key : Nat) (arg : Option Nat) (h h' : List Table)
    (hd : HashTab.delete cmp key arg h = some h') :
    (lookup cmp key arg h 0 = .none → h' = h) ∧
    (∀ ti p, lookup cmp key arg h 0 = .found ti p → ∀ tj, tj ≠ ti → h'[tj]? = h[tj]?) := by
  obtain ⟨a, b⟩ := delete_local cmp key arg h h' 0 hd
  exact ⟨a, fun ti p e tj hne => b ti p e tj (by omega)⟩

example : (htRun eqCmp [create (2 ^ 2)] [.ins 0 1 none, .ins 4 2 none, .ins 8 3 none, .ins 12 4 none, .del 12 (some 4)]).map
    (fun h => (h.map tableContents)) = some [[(0, 1), (4, 2), (8, 3)], []] := by decide +kernel

end HashTabSec

/-! ## List / StatList (usual/list.h, usual/statlist.h) -/
section ListSec
open Usual.C15.DList UsualProofs.C15.DListP

/-- DEQUE REFINEMENT with counts: every history of prepend / append / remove / pop / sort calls
    on a StatList that respects the API contract leaves the ring of the list holding exactly the
    sequence the deque specification `lspecRun` computes: forward traversal yields it, backward
    traversal its reverse, and `cur_count` is its length -/
theorem list_refines_deque (le : Nat → Nat → Bool) (fuel : Nat) (s : DL) (l : Nat) (hl : l ≠ 0)
    (ops : List LOp) (hv : LValid le fuel l [] ops) (hf : (lspecRun le [] ops).length ≤ fuel) :
    let st := lrun le fuel (statInit s l) ops
    toList st.1 l fuel = lspecRun le [] ops ∧
    toListRev st.1 l fuel = (lspecRun le [] ops).reverse ∧
    st.2.count = (lspecRun le [] ops).length := by
  intro st
  have hr := lrun_rep le fuel ops (statInit s l) [] (statInit_rep s l hl) hv
  have hh : st.2.head = l := by
    have : ∀ (ops : List LOp) (st0 : DL × SL), (lrun le fuel st0 ops).2.head = st0.2.head := by
      intro ops
      induction ops with
      | nil => intro _; rfl
      | cons op rest ih => intro st0; show (lrun le fuel (lstep le fuel st0 op) rest).2.head = _; rw [ih, lstep_head]
    exact this ops _
  have ring := hr.ring
  rw [hh] at ring
  have := toList_eq ring fuel hf
  exact ⟨this.1, this.2, hr.count⟩

example : toList (lrun (leKey exKey) 10 (statInit DList.empty 1) exL).1 1 10 = [9, 7, 5] ∧
    (lrun (leKey exKey) 10 (statInit DList.empty 1) exL).2.count = 3 := by
  have := list_refines_deque (leKey exKey) 10 DList.empty 1 (by decide) exL exL_valid (by decide)
  have e : lspecRun (leKey exKey) [] exL = [9, 7, 5] := by decide +kernel
  rw [e] at this
  exact ⟨this.1, this.2.2⟩

/-- INTERIOR INSERTION (`statlist_put_after` = `list_prepend(pos, item)`, `statlist_put_before` =
    `list_append(pos, item)`): the item lands right after / right before `pos` -/
theorem list_put_after_before (s : DL) (l : Nat) (A B : List Nat) (pos x : Nat)
    (hx : x ∉ l :: (A ++ pos :: B)) (h : IsL s l (A ++ pos :: B)) :
    IsL (statPutAfter s { head := l, count := 0 } x pos).1 l (A ++ pos :: x :: B) ∧
    IsL (statPutBefore s { head := l, count := 0 } x pos).1 l (A ++ x :: pos :: B) := by
  constructor
  · have h' : IsL s l ((A ++ [pos]) ++ B) := by simpa using h
    have := prepend_at s l (A ++ [pos]) B pos x h' (by simpa using hx) (by simp)
    show IsL (listPrepend s pos x) l (A ++ pos :: x :: B)
    simpa using this
  · show IsL (listAppend s pos x) l (A ++ x :: pos :: B)
    exact append_at s l A (pos :: B) pos x h hx (by simp)

example : toList (statPutAfter exDL { head := 1, count := 4 } 9 6).1 1 9 = [5, 6, 9, 7, 8] ∧
    toList (statPutBefore exDL { head := 1, count := 4 } 9 6).1 1 9 = [5, 9, 6, 7, 8] := by decide +kernel

/-- the reading operations see the abstract sequence: `list_empty`, `list_first`, `list_last` -/
theorem list_reads (s : DL) (l : Nat) (xs : List Nat) (h : IsL s l xs) (hl : l ≠ 0) (h0 : 0 ∉ xs) :
    (listEmpty s l = true ↔ xs = []) ∧ listFirst s l = xs.headD 0 ∧ listLast s l = xs.getLastD 0 :=
  ⟨empty_iff h, first_eq h hl h0, last_eq h⟩

example : listEmpty exDL 1 = false ∧ listFirst exDL 1 = 5 ∧ listLast exDL 1 = 8 := by decide +kernel

/-- FRAME: prepend / append / del / pop write only to the item and its two new (old) neighbours,
    so every other ring in the same store is untouched; stated for `list_del` (the general
    frame lemma is `DListP.frame`) -/
theorem list_del_frame (s : DL) (l : Nat) (A B : List Nat) (x : Nat) (h : IsL s l (A ++ x :: B))
    (l2 : Nat) (ys : List Nat) (h2 : IsL s l2 ys) (hdisj : ∀ z, z ∈ l2 :: ys → z ∉ l :: (A ++ x :: B)) :
    IsL (listDel s x) l2 ys ∧ IsL (listDel s x) l (A ++ B) ∧ IsL (listDel s x) x [] := by
  refine ⟨?_, del_isL s l A B x h⟩
  have hcl := UsualProofs.C15.SHListP.isList_closed h
  have hxm : x ∈ l :: (A ++ x :: B) := by simp
  obtain ⟨hn, hp⟩ := hcl x hxm
  have hxp : x ≠ s.prev.get x := by
    obtain ⟨P0, u, eA, _⟩ := list_split l A
    obtain ⟨v, Q0, eB, _⟩ := list_split' l B
    have := (UsualProofs.C15.Ring.isList_nbrs l A B P0 Q0 u v x h eA eB).2
    rw [this]
    intro e
    have hu : u ∈ l :: A := by rw [eA]; simp
    have hnd : ((l :: A) ++ x :: B).Nodup := by simpa using h.2
    exact (List.nodup_append.mp hnd).2.2 u hu x (by simp) e.symm
  apply frame s _ l2 ys h2
  · intro z hz
    rw [del_next]
    have h1 : z ≠ x := fun e => hdisj z hz (e ▸ hxm)
    have h2 : z ≠ s.prev.get x := fun e => hdisj z hz (e ▸ hp)
    rw [if_neg h1, if_neg h2]
  · intro z hz
    rw [del_prev s x z hxp]
    have h1 : z ≠ x := fun e => hdisj z hz (e ▸ hxm)
    have h2 : z ≠ s.next.get x := fun e => hdisj z hz (e ▸ hn)
    rw [if_neg h1, if_neg h2]

example : toList (listDel exDL2 6) 2 9 = [10, 11] ∧ toList (listDel exDL2 6) 1 9 = [5, 7, 8] ∧
    toList (listDel exDL2 6) 6 9 = [] := by decide +kernel

open UsualProofs.C15.Multi in
/-- SEVERAL LISTS IN ONE STORE: for any set `H` of List / StatList heads and ANY interleaving of
    prepend / append / remove / pop / sort / put_after / put_before calls on them that respects
    the API contract, every list holds exactly the sequence its own deque specification computes
    (forward traversal, backward traversal reversed, `cur_count` = length) — operations on one
    list never disturb another -/
theorem lists_refine_deques (le : Nat → Nat → Bool) (fuel : Nat) (H : List Nat) (hnd : H.Nodup) (h0 : 0 ∉ H)
    (ops : List MOp) (hv : MValid le H fuel (fun _ => []) ops) (h : Nat) (hh : h ∈ H)
    (hf : (mspecRun le (fun _ => []) ops h).length ≤ fuel) :
    toList (mrun le fuel (minit H) ops).s h fuel = mspecRun le (fun _ => []) ops h ∧
    toListRev (mrun le fuel (minit H) ops).s h fuel = (mspecRun le (fun _ => []) ops h).reverse ∧
    (mrun le fuel (minit H) ops).cnt h = (mspecRun le (fun _ => []) ops h).length := by
  have hr := mrun_rep le fuel H ops (minit H) (fun _ => []) (minit_rep H hnd h0) hv
  have := toList_eq (hr.ring h hh) fuel hf
  exact ⟨this.1, this.2, hr.count h hh⟩

example : toList (Multi.mrun (leKey exKey) 9 (Multi.minit [1, 2, 3]) exMulti).s 1 9 = [8, 5] ∧
    toList (Multi.mrun (leKey exKey) 9 (Multi.minit [1, 2, 3]) exMulti).s 2 9 = [6, 9, 7] ∧
    (Multi.mrun (leKey exKey) 9 (Multi.minit [1, 2, 3]) exMulti).cnt 2 = 3 := by
  have e1 : Multi.mspecRun (leKey exKey) (fun _ => []) exMulti 1 = [8, 5] := by decide +kernel
  have e2 : Multi.mspecRun (leKey exKey) (fun _ => []) exMulti 2 = [6, 9, 7] := by decide +kernel
  have h1 := lists_refine_deques (leKey exKey) 9 [1, 2, 3] (by decide) (by decide) exMulti exMulti_valid 1 (by decide)
    (by rw [e1]; decide)
  have h2 := lists_refine_deques (leKey exKey) 9 [1, 2, 3] (by decide) (by decide) exMulti exMulti_valid 2 (by decide)
    (by rw [e2]; decide)
  rw [e1] at h1; rw [e2] at h2
  exact ⟨h1.1, h2.1, h2.2.2⟩

end ListSec

/-! ## SHList (usual/shlist.h) -/
section SHListSec
open Usual.C15.SHList UsualProofs.C15.SHListP

/-- DEQUE REFINEMENT UNDER RELOCATION: every history of append / prepend / remove / pop calls
    interleaved with `memmove`s of the whole region to arbitrary new addresses leaves a list
    that — read at the region's current address — holds exactly the sequence of region offsets
    the deque specification computes; the moves do not change it -/
theorem shlist_refines_deque (len lo : Nat) (hlo : lo < len) (m : Mem) (base : Nat) (hb : 0 < base)
    (ops : List SOp) (hv : SValid len lo [] ops) (fuel : Nat) (hf : (sspecRun [] ops).length ≤ fuel) :
    let st := srun len lo { mem := init m (base + lo), base := base } ops
    (toList st.mem (st.base + lo) fuel).map (· - st.base) = sspecRun [] ops ∧
    (toListRev st.mem (st.base + lo) fuel).map (· - st.base) = (sspecRun [] ops).reverse := by
  intro st
  have hr := srun_rep len lo ops _ [] (sinit_rep len lo m base hb hlo) hv
  have := toList_eq hr.ring fuel (by simpa using hf)
  have cancel : ∀ os : List Nat, (os.map (st.base + ·)).map (· - st.base) = os := by
    intro os
    rw [List.map_map]
    conv => rhs; rw [← List.map_id os]
    apply List.map_congr_left
    intro o _; simp
  refine ⟨by rw [this.1]; exact cancel _, ?_⟩
  rw [this.2, ← List.map_reverse]; exact cancel _

example : (toList (srun 96 0 { mem := init emptyMem 10, base := 10 } exS).mem 150 9).map (· - 150)
    = [32, 80] := by
  have := shlist_refines_deque 96 0 (by decide) emptyMem 10 (by decide) exS exS_valid 9 (by decide)
  have e : sspecRun [] exS = [32, 80] := by decide +kernel
  have eb : (srun 96 0 { mem := init emptyMem 10, base := 10 } exS).base = 150 := by decide +kernel
  rw [e] at this
  have h1 := this.1
  rw [eb] at h1
  exact h1

/-- RELOCATION alone: `memmove` of the region that contains the head and all nodes of a list
    moves the list with it — the abstraction (offsets relative to the region) is unchanged -/
theorem shlist_relocate (m : Mem) (old len new l : Nat) (xs : List Nat) (h : IsSH m l xs)
    (hold : 0 < old) (hreg : ∀ z, z ∈ l :: xs → old ≤ z ∧ z < old + len) (fuel : Nat) (hf : xs.length ≤ fuel) :
    (toList (relocate m old len new) (l - old + new) fuel).map (· - new) = (toList m l fuel).map (· - old) ∧
    (toListRev (relocate m old len new) (l - old + new) fuel).map (· - new) = (toListRev m l fuel).map (· - old) := by
  have h' := relocate_isSH m old len new l xs h hold hreg
  have t1 := toList_eq h fuel hf
  have t2 := toList_eq h' fuel (by simpa using hf)
  have cancel : ∀ os : List Nat, (∀ z, z ∈ os → old ≤ z) →
      (os.map (fun z => z - old + new)).map (· - new) = os.map (· - old) := by
    intro os _
    rw [List.map_map]
    apply List.map_congr_left
    intro o _; simp
  rw [t1.1, t1.2, t2.1, t2.2]
  refine ⟨cancel xs (fun z hz => (hreg z (List.mem_cons_of_mem _ hz)).1), ?_⟩
  rw [← List.map_reverse]
  exact cancel xs.reverse (fun z hz => (hreg z (List.mem_cons_of_mem _ (List.mem_reverse.mp hz))).1)

example : (toList (relocate exM 10 64 80) 80 9).map (· - 80) = [32, 16, 48] ∧
    (toList exM 10 9).map (· - 10) = [32, 16, 48] := by decide +kernel

/-- the reading operations see the abstract sequence: `shlist_empty`, `shlist_first`, `shlist_last` -/
theorem shlist_reads (m : Mem) (l : Nat) (xs : List Nat) (h : IsSH m l xs) (hl : 0 < l) :
    (isEmpty m l = true ↔ xs = []) ∧ first m l = xs.head? ∧ last m l = xs.getLast? :=
  ⟨empty_iff h hl, first_eq h hl, last_eq h hl⟩

example : isEmpty exM 10 = false ∧ first exM 10 = some 42 ∧ last exM 10 = some 58 := by decide +kernel

end SHListSec

end UsualProps.C15
