import UsualProofs.C02.Strict
/-!
# C02 — JSON parser: total, strict and value-correct on every input

Property-level theorems only.  Model: `Usual/C02/Parse.lean` (mirrors `usual/json.c` as
repaired by `fixes/F03-json-subnormal.patch`), driven by the tables of
`Usual/Gen/C02Tables.lean`, which are regenerated from the source on every run.

* `parse sd o doc : Except Err JVal` — `json_parse` with option set `o` on the bytes `doc`;
  `sd` is `strtod` (bits of the result, bytes consumed) and stays a parameter;
* `Err.none` = "`json_strerror` is NULL";
* `Reaches sd o doc st rest` — started on `doc`, the token loop of `parse_tokens` arrives at its
  head (i.e. *between* tokens, never inside a string, number or literal) in parser state `st`
  with the bytes `rest` still ahead.
-/
namespace UsualProps.C02
open Usual.C02 Usual.C03
open Usual.Gen.C02Tables

/-- **Total, and never NULL without a message.**  For every byte string, every option set and
every behaviour of `strtod`, `json_parse` (as a total function: it terminates) returns a value
tree, or fails with `json_strerror ≠ NULL`. -/
theorem parse_total (sd : Bytes → UInt64 × Nat) (o : Opts) (doc : Bytes) :
    (∃ v, parse sd o doc = .ok v) ∨ (∃ e, parse sd o doc = .error e ∧ e ≠ .none) :=
  run_total sd o doc.length St.init doc (Nat.le_refl _) Inv_init

-- non-vacuity: both outcomes occur (`[1,]` in strict and in relaxed mode)
example : parse strtodModel ⟨false, false⟩ [0x5B, 0x31, 0x2C, 0x5D] = .error .unexpectedSymbol ∧
    parse strtodModel ⟨true, false⟩ [0x5B, 0x31, 0x2C, 0x5D] = .ok (.list [.int 1]) := ⟨rfl, rfl⟩

/-- **Strict mode rejects comments.**  Without `JSON_PARSE_RELAXED`, a `/` between tokens — the
start of any comment — ends the parse with "Invalid symbol", whatever follows. -/
theorem strict_rejects_comment (sd : Bytes → UInt64 × Nat) (o : Opts) (doc : Bytes) (st : St)
    (src : Bytes) (hr : o.relaxed = false) (h : Reaches sd o doc st (0x2F :: src)) :
    parse sd o doc = .error .invalidSymbol := by
  rw [h.parse_eq]; exact run_slash_strict sd o st src hr

-- `[1,/*c*/2]`: the loop reaches the comment after `[1,`
example : ∃ st, Reaches strtodModel ⟨false, false⟩ [0x5B,0x31,0x2C,0x2F,0x2A,0x63,0x2A,0x2F,0x32,0x5D] st
    [0x2F,0x2A,0x63,0x2A,0x2F,0x32,0x5D] := ⟨_, .step (.step (.step .start rfl) rfl) rfl⟩
-- … and the same document is accepted in relaxed mode
example : parse strtodModel ⟨true, false⟩ [0x5B,0x31,0x2C,0x2F,0x2A,0x63,0x2A,0x2F,0x32,0x5D] =
    .ok (.list [.int 1, .int 2]) := rfl

/-- **Strict mode rejects an extra comma.**  Without `JSON_PARSE_RELAXED`, a comma between tokens
that is followed — after white space only — by another comma, by `]`, by `}` or by the end of the
document is an error.  (Reduced to `STEP_after_comma`: in the state an accepted comma leads to,
`STATE_STEPS` has 0 for `,` `]` `}` and the state is not `S_DONE`.) -/
theorem strict_rejects_extra_comma (sd : Bytes → UInt64 × Nat) (o : Opts) (doc : Bytes) (st : St)
    (ws tail : Bytes) (hr : o.relaxed = false) (hws : ∀ b ∈ ws, isWsByte b = true)
    (ht : tail = [] ∨ ∃ d t, tail = d :: t ∧ (d = 0x2C ∨ d = 0x5D ∨ d = 0x7D))
    (h : Reaches sd o doc st (0x2C :: (ws ++ tail))) :
    ∃ e, parse sd o doc = .error e := by
  rw [h.parse_eq]; exact run_extra_comma_strict sd o st ws tail hr hws ht

-- `[1, ]` : comma, one blank, closer
example : ∃ st, Reaches strtodModel ⟨false, false⟩ [0x5B,0x31,0x2C,0x20,0x5D] st (0x2C :: ([0x20] ++ [0x5D])) :=
  ⟨_, .step (.step .start rfl) rfl⟩

/-- … and a comma directly (white space only) after `[` or `{`. -/
theorem strict_rejects_leading_comma (sd : Bytes → UInt64 × Nat) (o : Opts) (doc : Bytes) (st : St)
    (b : UInt8) (ws tail : Bytes) (hr : o.relaxed = false) (hb : b = 0x5B ∨ b = 0x7B)
    (hws : ∀ x ∈ ws, isWsByte x = true) (h : Reaches sd o doc st (b :: (ws ++ 0x2C :: tail))) :
    ∃ e, parse sd o doc = .error e := by
  rw [h.parse_eq]; exact run_leading_comma_strict sd o st b ws tail hr hb hws

example : Reaches strtodModel ⟨false, false⟩ [0x5B,0x2C,0x31,0x5D] St.init (0x5B :: ([] ++ 0x2C :: [0x31,0x5D])) :=
  .start

/-- **Trailing garbage is rejected (all option sets).**  Once the top-level value is complete
(state `S_DONE`) every further byte other than white space — and, in relaxed mode, other than the
`/` that starts a comment — is an error.  (Reduced to `∀ t, STEP S_DONE t = 0`.) -/
theorem rejects_trailing_garbage (sd : Bytes → UInt64 × Nat) (o : Opts) (doc : Bytes) (st : St)
    (c : UInt8) (src : Bytes) (hs : st.state = S_DONE) (hw : isWsByte c = false)
    (hc : ¬(o.relaxed = true ∧ c = 0x2F)) (h : Reaches sd o doc st (c :: src)) :
    parse sd o doc = .error .unexpectedSymbol ∨ parse sd o doc = .error .invalidSymbol := by
  rw [h.parse_eq]; exact run_after_done sd o st c src hs hw hc

-- `1 x`: after `1` and the blank the state is S_DONE and `x` is ahead
example : ∃ st, st.state = S_DONE ∧ Reaches strtodModel ⟨true, true⟩ [0x31,0x20,0x78] st [0x78] :=
  ⟨_, rfl, .step (.step .start rfl) rfl⟩

end UsualProps.C02
