import UsualProofs.C02.Strict
import UsualProofs.C02.Escapes
import UsualProofs.C02.Relaxed
import UsualProofs.C02.RfcFinal
import UsualProofs.C02.Old
import UsualProofs.C02.Grammar
/-!
# C02 — JSON parser: total, strict and value-correct on every input

Property-level theorems only.  Model: `Usual/C02/Parse.lean` (mirrors `usual/json.c` as
repaired by `fixes/F03-json-subnormal.patch`), driven by the tables of
`Usual/Gen/C02Tables.lean`, which are regenerated from the source on every run.

* `parse sd o doc : Except Err JVal` — `json_parse` with option set `o` on the bytes `doc`;
  `sd` is `strtod` (bits of the result, bytes consumed) and stays a parameter;
* `Err.none` = "`json_strerror` is NULL";
* `Reaches sd o doc st rest` — started on `doc`, the token loop of `parse_tokens` arrives at its
  head (i.e. *between* tokens, never inside a string, number or literal) in parser state `st`
  with the bytes `rest` still ahead;
* `WFS s` — `s` is well-formed UTF-8 (a concatenation of rows of Unicode Table 3-7, property
  C11's `WFString`) containing no NUL; `strs v` — all strings of a tree (values and names);
* `StrBody b` — `b` can stand between the quotes of a string token (no unescaped `"`, no lone
  trailing `\`); `WellEscaped p` — `p` consists of complete valid items only (bytes other than
  `\`, one-letter escapes, `\uXXXX` of a non-zero non-surrogate, surrogate pairs).
-/
namespace UsualProps.C02
open Usual.C02 Usual.C03
open Usual.Gen.C02Tables

/-- **Total, and never NULL without a message.**  For every byte string, every option set and
every behaviour of `strtod`, `json_parse` (as a total function: it terminates) returns a value
tree, or fails with `json_strerror ≠ NULL`. -/
theorem parse_total (sd : Bytes → UInt64 × Nat) (o : Opts) (doc : Bytes) :
    (∃ v, parse sd o doc = .ok v) ∨ (∃ e, parse sd o doc = .error e ∧ e ≠ .none) :=
  run_total sd o doc.length St.init doc (Nat.le_refl _) Inv_init

-- non-vacuity: both outcomes occur (`[1,]` in strict and in relaxed mode)
example : parse strtodModel ⟨false, false⟩ [0x5B, 0x31, 0x2C, 0x5D] = .error .unexpectedSymbol ∧
    parse strtodModel ⟨true, false⟩ [0x5B, 0x31, 0x2C, 0x5D] = .ok (.list [.int 1]) := ⟨rfl, rfl⟩

/-- **Strict mode rejects comments.**  Without `JSON_PARSE_RELAXED`, a `/` between tokens — the
start of any comment — ends the parse with "Invalid symbol", whatever follows. -/
theorem strict_rejects_comment (sd : Bytes → UInt64 × Nat) (o : Opts) (doc : Bytes) (st : St)
    (src : Bytes) (hr : o.relaxed = false) (h : Reaches sd o doc st (0x2F :: src)) :
    parse sd o doc = .error .invalidSymbol := by
  rw [h.parse_eq]; exact run_slash_strict sd o st src hr

-- `[1,/*c*/2]`: the loop reaches the comment after `[1,`
example : ∃ st, Reaches strtodModel ⟨false, false⟩ [0x5B,0x31,0x2C,0x2F,0x2A,0x63,0x2A,0x2F,0x32,0x5D] st
    [0x2F,0x2A,0x63,0x2A,0x2F,0x32,0x5D] := ⟨_, .step (.step (.step .start rfl) rfl) rfl⟩
-- … and the same document is accepted in relaxed mode
example : parse strtodModel ⟨true, false⟩ [0x5B,0x31,0x2C,0x2F,0x2A,0x63,0x2A,0x2F,0x32,0x5D] =
    .ok (.list [.int 1, .int 2]) := rfl

/-- **Strict mode rejects an extra comma.**  Without `JSON_PARSE_RELAXED`, a comma between tokens
that is followed — after white space only — by another comma, by `]`, by `}` or by the end of the
document is an error.  (Reduced to `STEP_after_comma`: in the state an accepted comma leads to,
`STATE_STEPS` has 0 for `,` `]` `}` and the state is not `S_DONE`.) -/
theorem strict_rejects_extra_comma (sd : Bytes → UInt64 × Nat) (o : Opts) (doc : Bytes) (st : St)
    (ws tail : Bytes) (hr : o.relaxed = false) (hws : ∀ b ∈ ws, isWsByte b = true)
    (ht : tail = [] ∨ ∃ d t, tail = d :: t ∧ (d = 0x2C ∨ d = 0x5D ∨ d = 0x7D))
    (h : Reaches sd o doc st (0x2C :: (ws ++ tail))) :
    ∃ e, parse sd o doc = .error e := by
  rw [h.parse_eq]; exact run_extra_comma_strict sd o st ws tail hr hws ht

-- `[1, ]` : comma, one blank, closer
example : ∃ st, Reaches strtodModel ⟨false, false⟩ [0x5B,0x31,0x2C,0x20,0x5D] st (0x2C :: ([0x20] ++ [0x5D])) :=
  ⟨_, .step (.step .start rfl) rfl⟩

/-- … and a comma directly (white space only) after `[` or `{`. -/
theorem strict_rejects_leading_comma (sd : Bytes → UInt64 × Nat) (o : Opts) (doc : Bytes) (st : St)
    (b : UInt8) (ws tail : Bytes) (hr : o.relaxed = false) (hb : b = 0x5B ∨ b = 0x7B)
    (hws : ∀ x ∈ ws, isWsByte x = true) (h : Reaches sd o doc st (b :: (ws ++ 0x2C :: tail))) :
    ∃ e, parse sd o doc = .error e := by
  rw [h.parse_eq]; exact run_leading_comma_strict sd o st b ws tail hr hb hws

example : Reaches strtodModel ⟨false, false⟩ [0x5B,0x2C,0x31,0x5D] St.init (0x5B :: ([] ++ 0x2C :: [0x31,0x5D])) :=
  .start

/-- **Trailing garbage is rejected (all option sets).**  Once the top-level value is complete
(state `S_DONE`) every further byte other than white space — and, in relaxed mode, other than the
`/` that starts a comment — is an error.  (Reduced to `∀ t, STEP S_DONE t = 0`.) -/
theorem rejects_trailing_garbage (sd : Bytes → UInt64 × Nat) (o : Opts) (doc : Bytes) (st : St)
    (c : UInt8) (src : Bytes) (hs : st.state = S_DONE) (hw : isWsByte c = false)
    (hc : ¬(o.relaxed = true ∧ c = 0x2F)) (h : Reaches sd o doc st (c :: src)) :
    parse sd o doc = .error .unexpectedSymbol ∨ parse sd o doc = .error .invalidSymbol := by
  rw [h.parse_eq]; exact run_after_done sd o st c src hs hw hc

-- `1 x`: after `1` and the blank the state is S_DONE and `x` is ahead
example : ∃ st, st.state = S_DONE ∧ Reaches strtodModel ⟨true, true⟩ [0x31,0x20,0x78] st [0x78] :=
  ⟨_, rfl, .step (.step .start rfl) rfl⟩

/-- **Strict mode rejects ill-formed UTF-8 (and NUL).**  Without `JSON_PARSE_RELAXED` and without
`JSON_PARSE_IGNORE_ENCODING`, a document that is not well-formed UTF-8 — anywhere: inside a string
or between tokens — is rejected.  (In relaxed mode comments are skipped unexamined; for the values
see `strings_wellformed`.) -/
theorem rejects_bad_utf8 (sd : Bytes → UInt64 × Nat) (o : Opts) (doc : Bytes)
    (hr : o.relaxed = false) (hi : o.ignoreEnc = false) (hbad : ¬ WFS doc) :
    ∃ e, parse sd o doc = .error e := by
  cases h : parse sd o doc with
  | error e => exact ⟨e, rfl⟩
  | ok v => exact absurd (run_ok_wfs sd o hr hi doc.length St.init doc v (Nat.le_refl _) h) hbad

-- `"\xC0\x80"` (overlong NUL) is not well-formed
example : ¬ WFS [0x22, 0xC0, 0x80, 0x22] := by
  unfold WFS
  rw [← UsualProofs.C11.validateString_iff]
  decide

/-- **Invalid escapes are rejected (all option sets).**  When the loop is at a string token whose
body is `pre ++ bad`, `pre` made of valid items only and `bad` starting with `\` followed by a
byte other than `" \ / b f n r t u`, or with `\u` not followed by four hex digits, the parse fails. -/
theorem rejects_bad_escape (sd : Bytes → UInt64 × Nat) (o : Opts) (doc : Bytes) (st : St)
    (pre bad rest : Bytes) (hsb : StrBody (pre ++ bad)) (hw : WellEscaped pre) (hb : BadEscape bad)
    (h : Reaches sd o doc st (0x22 :: (pre ++ bad ++ 0x22 :: rest))) :
    ∃ e, parse sd o doc = .error e := by
  rw [h.parse_eq]; exact run_string_rejects sd o st hsb hw (Or.inl hb)

-- `"a\x"`
example : StrBody ([0x61] ++ [0x5C, 0x78]) ∧ WellEscaped [0x61] ∧ BadEscape [0x5C, 0x78] ∧
    Reaches strtodModel ⟨true, true⟩ [0x22, 0x61, 0x5C, 0x78, 0x22] St.init
      (0x22 :: ([0x61] ++ [0x5C, 0x78] ++ 0x22 :: [])) :=
  ⟨.plain _ _ (by decide) (by decide) (.esc _ _ .nil), .plain _ _ (by decide) .nil,
   ⟨0x78, [], rfl, by decide, Or.inl (by decide)⟩, .start⟩

/-- **Unpaired surrogates are rejected (all option sets).**  Same situation, `bad` starting with
`\uDC00`…`\uDFFF`, or with `\uD800`…`\uDBFF` not followed by `\uDC00`…`\uDFFF`. -/
theorem rejects_lone_surrogate (sd : Bytes → UInt64 × Nat) (o : Opts) (doc : Bytes) (st : St)
    (pre bad rest : Bytes) (hsb : StrBody (pre ++ bad)) (hw : WellEscaped pre) (hb : LoneSurrogate bad)
    (h : Reaches sd o doc st (0x22 :: (pre ++ bad ++ 0x22 :: rest))) :
    ∃ e, parse sd o doc = .error e := by
  rw [h.parse_eq]; exact run_string_rejects sd o st hsb hw (Or.inr hb)

-- `"\ud800x"`: a high surrogate followed by `x`
example : LoneSurrogate [0x5C, 0x75, 0x64, 0x38, 0x30, 0x30, 0x78] :=
  ⟨[0x64, 0x38, 0x30, 0x30, 0x78], 0xD800, rfl, rfl, Or.inr ⟨by decide, by decide, by
    rintro ⟨r, w, h, _⟩; simp at h⟩⟩

/-- **Strings of an accepted tree.**  Every string (value or object name) in a tree accepted
without `JSON_PARSE_IGNORE_ENCODING` — strict or relaxed — is well-formed UTF-8 and contains no NUL. -/
theorem strings_wellformed (sd : Bytes → UInt64 × Nat) (o : Opts) (doc : Bytes) (v : JVal)
    (hi : o.ignoreEnc = false) (h : parse sd o doc = .ok v) :
    ∀ s ∈ strs v, WFS s ∧ (0 : UInt8) ∉ s := by
  intro s hs
  have := parse_strings_wfs sd o doc v hi h s hs
  exact ⟨this, WFS_no_nul this⟩

-- `{"k":["\u00e9"]}` in relaxed mode: the strings of the result are `k` and `é`
example : parse strtodModel ⟨true, false⟩
      [0x7B,0x22,0x6B,0x22,0x3A,0x5B,0x22,0x5C,0x75,0x30,0x30,0x65,0x39,0x22,0x5D,0x7D] =
    .ok (.dict [([0x6B], .list [.str [0xC3, 0xA9]])]) ∧
    strs (.dict [([0x6B], .list [.str [0xC3, 0xA9]])]) = [[0x6B], [0xC3, 0xA9]] := ⟨rfl, rfl⟩

/-- **Relaxed mode: comments and a trailing comma do not change the value.**  `Decor sd ie st r r'`
says that, at the head of the token loop in state `st`, `r'` is `r` decorated with comments
(`//…` to the end of the line or of the document, `/*…*/`) between tokens and with at most one
trailing comma — a comma, then white space only — directly before a `]` or `}` that may close the
container here.  If the undecorated document is accepted in strict mode, the decorated one is
accepted with `JSON_PARSE_RELAXED` and yields the same value (same `IGNORE_ENCODING` bit on both
sides); in particular (`Decor.same`) relaxed mode accepts every strictly accepted document
unchanged.  (That the decorated document is *rejected* in strict mode is
`strict_rejects_comment` / `strict_rejects_extra_comma`.) -/
theorem relaxed_same_value (sd : Bytes → UInt64 × Nat) (ie : Bool) (doc doc' : Bytes)
    (hd : Decor sd ie St.init doc doc') (v : JVal) (h : parse sd ⟨false, ie⟩ doc = .ok v) :
    parse sd ⟨true, ie⟩ doc' = .ok v :=
  decor_same_value sd ie hd v h

-- `[1]` decorated as `[1/*c*/,]`
example : Decor strtodModel false St.init [0x5B,0x31,0x5D] [0x5B,0x31,0x2F,0x2A,0x63,0x2A,0x2F,0x2C,0x5D] :=
  .token _ _ _ _ _ _ _ rfl rfl
    (.token _ _ _ _ _ _ _ rfl rfl
      (.comment _ [0x2F,0x2A,0x63,0x2A,0x2F] _ [0x2C,0x5D] (.block [0x63] _ (by decide))
        (.comma _ [] 0x5D [] [] (by intro b hb; cases hb) (Or.inr ⟨rfl, Or.inl rfl⟩) (.same _ _))))
example : parse strtodModel ⟨false, false⟩ [0x5B,0x31,0x5D] = .ok (.list [.int 1]) ∧
    parse strtodModel ⟨true, false⟩ [0x5B,0x31,0x2F,0x2A,0x63,0x2A,0x2F,0x2C,0x5D] = .ok (.list [.int 1]) :=
  ⟨rfl, rfl⟩

/-- **Every RFC 8259 document is accepted and yields exactly the reference value — all four
option sets.**

`Rfc.parse rsd doc = some v` (`Usual/C03/Rfc.lean`, written from the RFC grammar): `doc` is a JSON
text with unique object names and `v` is its value — integers exact, other numbers `rsd token`,
strings un-escaped UTF-8, elements in order, members sorted by name (the order `json_dict_iter`
reports).  The property's remaining preconditions are the two hypotheses:

* `StrtodAgrees rsd sd` — on number tokens: the reference conversion `rsd` is defined only on
  tokens shorter than `NUMBER_BUF` = 100 bytes that have a fraction or an exponent (so a document
  with a longer token, or with an integer beyond ±(2^53−1), has no reference value) and there the
  platform's `strtod` (`sd`) consumes the whole token and returns the same finite double —
  "doubles correctly rounded" is this agreement with a correctly rounding `rsd`;
* `okV v` — no string or name of `v` contains NUL (no U+0000) and no name exceeds `JSON_MAX_KEY`
  = 1 MiB (an implementation limit of `real_dict_add_key`, reported as "Too large key").

Then `json_parse` accepts `doc` under every option set and returns exactly `v`. -/
theorem rfc_accepted (rsd : Bytes → Option UInt64) (sd : Bytes → UInt64 × Nat) (hsd : StrtodAgrees rsd sd)
    (doc : Bytes) (v : JVal) (h : Rfc.parse rsd doc = some v) (hok : okV v) (o : Opts) :
    parse sd o doc = .ok v :=
  parse_of_rfc rsd sd o hsd doc v h hok

-- `{"b":[1.5,"\u00e9",-0,null],"a":true}` with a reference `strtod` that knows the token `1.5`
example :
    let rsd : Bytes → Option UInt64 := fun tok => if tok = [0x31, 0x2E, 0x35] then some 0x3FF8000000000000 else none
    let doc : Bytes := [0x7B,0x22,0x62,0x22,0x3A,0x5B,0x31,0x2E,0x35,0x2C,0x22,0x5C,0x75,0x30,0x30,0x65,0x39,0x22,
      0x2C,0x2D,0x30,0x2C,0x6E,0x75,0x6C,0x6C,0x5D,0x2C,0x22,0x61,0x22,0x3A,0x74,0x72,0x75,0x65,0x7D]
    let v : JVal := .dict [([0x61], .bool true),
      ([0x62], .list [.float 0x3FF8000000000000, .str [0xC3, 0xA9], .int 0, .null])]
    StrtodAgrees rsd strtodModel ∧ Rfc.parse rsd doc = some v ∧ okV v := by
  refine ⟨?_, rfl, ?_⟩
  · intro tok x h _
    by_cases ht : tok = [0x31, 0x2E, 0x35]
    · subst ht
      simp only [if_true, Option.some.injEq] at h
      subst h
      exact ⟨by decide, by decide, rfl⟩
    · simp [ht] at h
  · simp [okV, okL, okM]
    decide

/-- **The state table is the grammar's automaton.**  `STATE_STEPS` as extracted from `json.c` on
this run equals, cell by cell (and 0 outside), the transition function `specStep` written from the
RFC 8259 grammar: a value may start exactly where one is expected, a name exactly where a member
may start, `,` only after a complete element or member, `:` only after a name, a closer only
directly after its opener or after a complete element or member.  Every edit of the table breaks
this theorem (the finite facts the strictness theorems use are instances of it). -/
theorem state_table_is_grammar (s t : Nat) : STEP s t = specStep s t := STEP_eq_specStep s t

-- e.g. no closer after a comma, nothing after the top-level value, a name only in key position
example : specStep S_LIST_VALUE T_CLOSE_LIST = 0 ∧ specStep S_DONE T_OTHER = 0 ∧
    specStep S_DICT_KEY T_STRING = S_DICT_COLON ∧ specStep S_DICT_KEY T_OTHER = 0 := by decide

/-- **Defect F3 (unchanged code).**  The unchanged `parse_number` treats `errno == ERANGE` after
`strtod` as failure; `strtod` sets it on inexact underflow, so the RFC 8259 document `5e-324`
(value: the smallest subnormal, bits `0x1`) is rejected with "Number parse failed".  The repaired
code (fixes/F03-json-subnormal.patch, the code the model mirrors) accepts it with that value. -/
theorem F03_unchanged_rejects_subnormal (sd3 : Bytes → UInt64 × Nat × Bool) (h : sd3 tok5e324 = (1, 6, true)) :
    convFloatOld sd3 tok5e324 = none ∧
    convNumber (fun t => ((sd3 t).1, (sd3 t).2.1)) tok5e324 = some (.float 1) ∧
    Rfc.parse (fun t => if t = tok5e324 then some 1 else none) tok5e324 = some (.float 1) :=
  old_rejects_subnormal sd3 h

-- the hypothesis is satisfiable: a `strtod` with exactly this behaviour on the token (glibc's; the
-- correspondence run feeds `5e-324` to the real one on every run: corpus/C02, op `f`)
example : ∃ sd3 : Bytes → UInt64 × Nat × Bool, sd3 tok5e324 = (1, 6, true) := ⟨fun _ => (1, 6, true), rfl⟩

end UsualProps.C02
