import Usual.C02.Parse
/-! Property theorems for C02 (being written). -/
namespace UsualProps.C02
end UsualProps.C02
