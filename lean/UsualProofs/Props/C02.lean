/-! Property theorems for C02 (stub: not built yet). -/
