import Usual.C12.Spec
import UsualProofs.C12.StepRefine
import UsualProofs.C12.Counter
/-!
# C12 — MBuf never reads or writes outside its data, whatever lengths are requested

Model: `Usual.C12` (lean/Usual/C12/MBuf.lean) — `usual/mbuf.h` + `usual/mbuf.c` **with fixes
F01, F01b, F01c**, 32-bit cursors, every function returns its memory accesses.
Predicates: lean/Usual/C12/Spec.lean.  An `Op` carries *any* `UInt32` length / offset and any
realloc oracle; a history is any `List Op` over any slots.

The statements are false for the unchanged tree; the `…_old_counterexample` theorems give
the witnesses (kernel-evaluated) for the comparisons as they were.
-/
namespace UsualProps.C12
open Usual.C12 UsualProofs.C12

/-! ## invariant: `read_pos ≤ write_pos ≤ alloc_len = |data|`, reader ⇒ fixed ∧ full -/

theorem inv_init : AllInv State.init :=
  fun _ => (inv_iff _).mpr good_initDynamic

example : inv (State.init 3) = true := inv_init 3

/-- every call, with any arguments, preserves the invariant of every slot -/
theorem inv_step (s : State) (op : Op) (h : AllInv s) : AllInv (step s op).1 :=
  inv_step' h op

example : AllInv (step State.init (.fill 0 7 0xFFFFFFFF (fun _ => true))).1 :=
  inv_step _ _ inv_init
example : (step State.init (.fill 0 7 100 (fun _ => true))).2.ok = true := by decide

/-- … hence along every history -/
theorem inv_run (ops : List Op) : ∀ (s : State), AllInv s → AllInv (run s ops).1 := by
  induction ops with
  | nil => intro s h; exact h
  | cons op rest ih => intro s h; exact ih _ (inv_step s op h)

example : AllInv (run State.init [.initWriter 1 4 (fun _ => 0), .write 1 (fun _ => 9) 0xFFFFFFFE (fun _ => true),
    .cut 1 5 0xFFFFFFFD, .getBytes 1 0xFFFFFFFF]).1 := inv_run _ _ inv_init

/-! ## safety of every access -/

/-- Under the invariant every access of a call is inside the buffer it touches: reads inside
the written region `[0, write_pos)` of the buffer as it was when the call started, writes
inside `[0, alloc_len)` of the buffer as it is when the call returns and never (non-empty) on a
reader; a fixed buffer keeps `alloc_len`/`|data|`, a reader also its bytes and `write_pos`
(unless the call re-initialises that slot). -/
theorem safe_step (s : State) (op : Op) (h : AllInv s) : StepSafe s op :=
  safe_step' h op

example : StepSafe (step State.init (.initReader 0 10 (fun k => UInt8.ofNat k))).1
    (.getBytes 0 0xFFFFFFFF) :=
  safe_step _ _ (inv_step _ _ inv_init)
-- the hypothesis is met by a state in which the call does something
example : (step (step State.init (.initReader 0 10 (fun k => UInt8.ofNat k))).1 (.getBytes 0 7)).2.acc
    = [(0, ⟨.rd, 0, 7⟩)] := by decide

/-- a property of single steps that follows from the invariant holds along every history -/
theorem along_run (P : State → Op → Prop) (hP : ∀ s op, AllInv s → P s op) (ops : List Op) :
    ∀ (s : State), AllInv s → AlongRun P s ops := by
  induction ops with
  | nil => intro _ _; trivial
  | cons op rest ih => intro s h; exact ⟨hP s op h, ih _ (inv_step s op h)⟩

/-- through any sequence of operations, starting from freshly initialised buffers, no access
is ever outside the data -/
theorem safe_run (ops : List Op) (s : State) (h : AllInv s) : AlongRun StepSafe s ops :=
  along_run StepSafe safe_step ops s h

example : AlongRun StepSafe State.init
    [.initWriter 0 10 (fun _ => 0), .writeByte 0 65 (fun _ => true), .fill 0 0 0xFFFFFFFF (fun _ => true),
     .cut 0 5 0xFFFFFFFD, .makeRoom 0 0x80000001 (fun _ => true)] :=
  safe_run _ _ inv_init

/-! ## a call that returns false changes nothing -/

/-- whole records are equal: both cursors, `alloc_len`, flags and every data byte -/
theorem false_unchanged_step (s : State) (op : Op) (h : AllInv s) : StepUnchanged s op :=
  unchanged_step' h op

theorem false_unchanged_run (ops : List Op) (s : State) (h : AllInv s) : AlongRun StepUnchanged s ops :=
  along_run StepUnchanged false_unchanged_step ops s h

-- a failing multi-byte getter on a state where it has to roll back: 6 bytes, get_uint64be
example : (step (step State.init (.initReader 0 6 (fun k => UInt8.ofNat k))).1 (.getU64 0)).2.ok = false := by
  decide
example : (step (step State.init (.initReader 0 6 (fun k => UInt8.ofNat k))).1 (.getU64 0)).1 0 =
    (step State.init (.initReader 0 6 (fun k => UInt8.ofNat k))).1 0 :=
  false_unchanged_step _ _ (inv_step _ _ inv_init) (by decide) 0

/-! ## the bytes read back are the bytes written, in order -/

/-- Seen as byte vectors with a read cursor (`abs`), a successful call is the vector
operation `specStep` (append for the writers, consume-from-cursor for the readers, splice for
`cut`, …), the bytes it delivers are `specBytes` (the next unread bytes, in order), the integer
getters deliver their big-endian value (`specVal`), a failing call changes no vector and
delivers nothing, and the readers / `mbuf_eq` / `mbuf_cut` return exactly `specRet`
(e.g. `get_bytes(len)` succeeds iff `len ≤ unread`). -/
theorem refines_vector_step (s : State) (op : Op) (h : AllInv s) : StepRefines s op :=
  refines_step' h op

theorem refines_vector_run (ops : List Op) (s : State) (h : AllInv s) : AlongRun StepRefines s ops :=
  along_run StepRefines refines_vector_step ops s h

example : (step (step State.init (.initReader 0 4 (fun k => UInt8.ofNat (k + 1)))).1 (.getU32 0)).2.val
    = 0x01020304 := by decide

/-- first-in first-out: what `mbuf_write` appended to an empty buffer is what `mbuf_get_bytes`
of the same length returns, whatever the 32-bit length and the realloc behaviour -/
theorem read_back_what_was_written (s : State) (h : AllInv s) (i : Nat) (src : Nat → UInt8)
    (len : UInt32) (ora : UInt32 → Bool) (hempty : abs (s i) = Vec.empty)
    (hw : (step s (.write i src len ora)).2.ok = true) :
    (step (step s (.write i src len ora)).1 (.getBytes i len)).2.ok = true ∧
    (step (step s (.write i src len ora)).1 (.getBytes i len)).2.bytes = srcBytes src len.toNat := by
  have r1 := (refines_vector_step s (.write i src len ora) h).1 hw
  have h1 := inv_step s (.write i src len ora) h
  have r2 := refines_vector_step (step s (.write i src len ora)).1 (.getBytes i len) h1
  have e1 : absS (step s (.write i src len ora)).1 = specStep (absS s) (.write i src len ora) := r1.1
  have ev : absS (step s (.write i src len ora)).1 i = ⟨srcBytes src len.toNat, 0, false⟩ := by
    rw [e1]
    simp only [specStep, VState.set, ↓reduceIte]
    show (abs (s i)).append _ = _
    rw [hempty]
    simp [Vec.empty, Vec.append]
  have hok : (step (step s (.write i src len ora)).1 (.getBytes i len)).2.ok = true := by
    apply r2.2.2
    simp only [specRet, ev, Vec.unread, List.drop_zero, length_srcBytes, Nat.le_refl, decide_true]
  refine ⟨hok, ?_⟩
  rw [(r2.1 hok).2.1]
  simp only [specBytes, ev, Vec.get, Vec.unread, List.drop_zero]
  exact List.take_of_length_le (by rw [length_srcBytes]; exact Nat.le_refl _)

example : (step (step State.init (.write 0 (fun k => UInt8.ofNat (k + 65)) 3 (fun _ => true))).1
    (.getBytes 0 3)).2.bytes = [65, 66, 67] :=
  (read_back_what_was_written State.init inv_init 0 _ 3 _ (by decide) (by decide)).2

/-! ## termination of the repaired doubling loop -/

/-- 33 iterations are enough whatever the request: the loop of the repaired `mbuf_make_room`
either refuses (`none`) or returns a size that is at least the request and at least the old
size (in particular it never returns the "out of fuel" marker 0 for a non-empty request) -/
theorem make_room_loop_terminates (na need r : UInt32) (h : na ≠ 0)
    (hr : grow 33 na need = some r) : need ≤ r ∧ na ≤ r := by
  have hn : na.toNat ≠ 0 := fun e => h (UInt32.toNat_inj.mp (by rw [e]; rfl))
  have := grow_spec 33 na need r hn (by omega) hr
  exact ⟨UInt32.le_iff_toNat_le.mpr this.1, UInt32.le_iff_toNat_le.mpr this.2⟩

example : grow 33 128 0xFFFFFFFF = none := by decide
example : grow 33 128 1000 = some 1024 := by decide

/-! ## the unchanged comparisons violate the property (witnesses, evaluated by the kernel) -/

/-- F1, `mbuf_get_bytes`: `read_pos + len > write_pos` wraps — with `read_pos = 1`,
`len = UINT_MAX` the call succeeds and hands out 4 GiB from a 2-byte buffer -/
theorem get_bytes_old_counterexample :
    ¬ ∀ (b : Buf) (len : UInt32), inv b = true →
        accAllOk b (getBytesOld b len).buf (getBytesOld b len).acc = true := by
  intro h
  exact absurd (h ⟨[1, 2], 1, 2, 2, true, true, false⟩ 0xFFFFFFFF (by decide)) (by decide)

/-- … the call on that witness really returns true (it is not refused for another reason) -/
theorem get_bytes_old_succeeds : (getBytesOld ⟨[1, 2], 1, 2, 2, true, true, false⟩ 0xFFFFFFFF).ok = true := by
  decide

/-- F1, `mbuf_write`/`mbuf_fill`: `write_pos + len > alloc_len` wraps — `write_pos = 1`,
`len = UINT_MAX` skips the room check on a fixed 2-byte buffer -/
theorem fill_old_counterexample :
    ¬ ∀ (b : Buf) (byte : UInt8) (len : UInt32), inv b = true →
        accAllOk b (fillOldFixed b byte len).buf (fillOldFixed b byte len).acc = true := by
  intro h
  exact absurd (h ⟨[0, 0], 0, 1, 2, false, true, false⟩ 0 0xFFFFFFFF (by decide)) (by decide)

/-- F1, `mbuf_cut`: `ofs + len < write_pos` wraps — `ofs = 5`, `len = UINT_MAX − 2` moves 8
bytes to offset 5 of a 10-byte buffer and leaves `write_pos = 13` -/
theorem cut_old_counterexample :
    ¬ ∀ (b : Buf) (ofs len : UInt32), inv b = true →
        accAllOk b (cutOld b ofs len).buf (cutOld b ofs len).acc = true ∧
        inv (cutOld b ofs len).buf = true := by
  intro h
  have := h ⟨[0, 1, 2, 3, 4, 5, 6, 7, 8, 9], 0, 10, 10, false, true, false⟩ 5 0xFFFFFFFD (by decide)
  exact absurd this.1 (by decide)

/-- F01b, `mbuf_cut` never moved the read cursor: write 10, read 8, `cut(0, 5)` leaves
`read_pos = 8 > write_pos = 5`, after which `avail_for_read` is about 4 · 10⁹ -/
theorem cut_old_cursor_counterexample :
    ¬ ∀ (b : Buf) (ofs len : UInt32), inv b = true → inv (cutOld b ofs len).buf = true := by
  intro h
  exact absurd (h ⟨[0, 1, 2, 3, 4, 5, 6, 7, 8, 9], 8, 10, 10, false, true, false⟩ 0 5 (by decide))
    (by decide)

/-- F01c, `mbuf_get_uint64be` with 6 bytes left: returns false with `read_pos` moved by 4 -/
theorem get_uint64be_old_counterexample :
    ¬ ∀ (b : Buf), inv b = true → (getU64Old b).ok = false → (getU64Old b).buf = b := by
  intro h
  exact absurd (h ⟨[1, 2, 3, 4, 5, 6], 0, 6, 6, true, true, false⟩ (by decide) (by decide)) (by decide)

/-- F1, `mbuf_make_room`: for a request beyond 2^31 the unchanged loop
`while (new_alloc < need) new_alloc *= 2` started at 128 is still running after any number
of iterations (`new_alloc` wraps to 0 after 25 doublings and stays there) -/
theorem make_room_old_never_terminates (k : Nat) : growOldIter 0x80000001 k 128 = none :=
  growOld_never k 7

example : growOldIter 1000 10 128 = some 1024 := by decide

end UsualProps.C12
