/-! Property theorems for C12 (stub: not built yet). -/
