import UsualProofs.C07.Ops
import UsualProofs.C07.NilWrite
/-!
# C07 — AA-tree is an ordered set that stays balanced (property theorems)

Model: `Usual.C07` (`lean/Usual/C07/AATree.lean`, a transcription of `usual/aatree.c`).
All statements are for an **abstract comparator** `cmp : α → α → Ordering` that is
`Consistent` (strict total order whose `.eq` is equality); the level-rule theorems need no
hypothesis on the comparator at all.  `run cmp ops` is the state of `struct AATree` after
the history `ops` from `aatree_init`; `refKeys cmp ops` is the strictly ascending reference
list maintained by sorted-insert / erase.
-/
set_option linter.unusedVariables false
namespace UsualProps.C07
open Usual.C07 Usual.C07.T UsualProofs.C07

variable {α : Type}

/-- the comparator used by the harness (`(k > x) - (k < x)` on integers) is consistent -/
theorem int_compare_consistent : Consistent (compare : Int → Int → Ordering) where
  eq_iff a b := Int.compare_eq_eq
  gt_iff a b := by rw [Int.compare_eq_gt, Int.compare_eq_lt]
  lt_trans a b c h1 h2 := by
    rw [Int.compare_eq_lt] at h1 h2 ⊢; omega

example : Consistent (compare : Int → Int → Ordering) := int_compare_consistent

/-- a concrete history used by the non-vacuity examples: 7 inserts (one duplicate), two removes
    (one of an absent key) -/
def demo : List (Op Int) :=
  [.ins 5, .ins 3, .ins 8, .ins 1, .ins 4, .ins 3, .ins 9, .rem 5, .rem 6, .find 4, .walk .preOrder]

/-! ## ordered-set semantics -/

/-- After every history the in-order key list of the tree *is* the reference list obtained by
    sorted-insert / erase (and `[]` after destroy): the tree contains exactly the
    inserted-and-not-removed keys. -/
theorem set_semantics (cmp : α → α → Ordering) (hc : Consistent cmp) (ops : List (Op α)) :
    toList (run cmp ops).root = refKeys cmp ops ∧
    walkSub (run cmp ops).root .inOrder = refKeys cmp ops := by
  rw [walk_inOrder]; exact ⟨toList_run hc ops, toList_run hc ops⟩

example : toList (run compare demo).root = [1, 3, 4, 8, 9] ∧ refKeys compare demo = [1, 3, 4, 8, 9] := by
  decide

/-- Search-tree level, independent of balance: on *any* tree whose in-order list is strictly
    ascending (reachable or not, level rules or not) `insert_sub` / `remove_sub` act on the
    in-order list as sorted-insert / erase, and keep it strictly ascending. -/
theorem bst_insert_remove (cmp : α → α → Ordering) (hc : Consistent cmp) (t : T α) (k : α)
    (hs : (toList t).Pairwise (fun a b => cmp a b = .lt)) :
    toList (ins cmp t k) = specInsert cmp k (toList t) ∧
    toList (del cmp t k) = specErase cmp k (toList t) ∧
    (toList (ins cmp t k)).Pairwise (fun a b => cmp a b = .lt) ∧
    (toList (del cmp t k)).Pairwise (fun a b => cmp a b = .lt) := by
  have h1 := toList_ins hc t k hs
  have h2 := toList_del hc t k hs
  refine ⟨h1, h2, ?_, ?_⟩
  · rw [h1]; exact sorted_specInsert hc k _ hs
  · rw [h2]; exact sorted_specErase hc k _ hs

/-- (an unbalanced, level-rule-violating but ordered tree) -/
example : toList (ins compare (node (node nil 1 7 nil) (2 : Int) 7 (node nil 9 7 nil)) 5) = [1, 2, 5, 9] ∧
    toList (del compare (node (node nil 1 7 nil) (2 : Int) 7 (node nil 9 7 nil)) 2) = [1, 9] := by decide

/-- Membership after one more operation, spelled out: insert adds exactly its key, remove
    deletes exactly its key, destroy empties, everything else changes nothing. -/
theorem contents_step (cmp : α → α → Ordering) (hc : Consistent cmp) (ops : List (Op α))
    (o : Op α) (y : α) :
    y ∈ toList (run cmp (ops ++ [o])).root ↔
      (match o with
       | .ins k => y = k ∨ y ∈ toList (run cmp ops).root
       | .rem k => y ≠ k ∧ y ∈ toList (run cmp ops).root
       | .destroy => False
       | _ => y ∈ toList (run cmp ops).root) := by
  have hi := inv_run hc ops
  have hstep : toList (run cmp (ops ++ [o])).root = refStep cmp (toList (run cmp ops).root) o := by
    rw [run_eq, runFrom_append, ← run_eq]
    exact toList_step hc _ o hi
  rw [hstep]
  cases o with
  | ins k => exact mem_specInsert hc k _ y
  | rem k => exact mem_specErase hc k _ hi.sorted y
  | find k => rfl
  | walk w => rfl
  | destroy => simp [refStep]
  | count => rfl

example : (4 : Int) ∈ toList (run compare (demo ++ [.rem 9])).root ∧
    (9 : Int) ∉ toList (run compare (demo ++ [.rem 9])).root := by decide

/-- `aatree_search` finds exactly the keys that are in the tree, and returns that node. -/
theorem search_correct (cmp : α → α → Ordering) (hc : Consistent cmp) (ops : List (Op α)) (k : α) :
    (k ∈ refKeys cmp ops → search cmp (run cmp ops).root k = some k) ∧
    (k ∉ refKeys cmp ops → search cmp (run cmp ops).root k = none) := by
  rw [← toList_run hc ops]
  exact search_spec hc _ k (inv_run hc ops).sorted

example : search compare (run compare demo).root 4 = some 4 ∧
    search compare (run compare demo).root 5 = none := by decide

/-- `tree->count` is the number of nodes, which is the number of keys of the reference. -/
theorem count_eq_size (cmp : α → α → Ordering) (hc : Consistent cmp) (ops : List (Op α)) :
    (run cmp ops).count = (size (run cmp ops).root : Int) ∧
    (run cmp ops).count = ((refKeys cmp ops).length : Int) := by
  have h := (inv_run hc ops).count
  refine ⟨h, ?_⟩
  rw [h, size_eq_length, toList_run hc ops]

example : (run compare demo).count = 5 := by decide

/-- An in-order walk yields the keys in strictly ascending order (so without repetition). -/
theorem inorder_strictly_ascending (cmp : α → α → Ordering) (hc : Consistent cmp) (ops : List (Op α)) :
    (walkSub (run cmp ops).root .inOrder).Pairwise (fun a b => cmp a b = .lt) ∧
    (walkSub (run cmp ops).root .inOrder).Nodup := by
  rw [walk_inOrder]
  exact ⟨(inv_run hc ops).sorted, sorted_nodup hc _ (inv_run hc ops).sorted⟩

example : walkSub (run compare demo).root .inOrder = [1, 3, 4, 8, 9] := by decide

/-- Pre-order and post-order walks visit the same nodes as the in-order walk, each once
    (for *every* tree, reachable or not). -/
theorem pre_post_perm_inorder (t : T α) :
    List.Perm (walkSub t .preOrder) (walkSub t .inOrder) ∧
    List.Perm (walkSub t .postOrder) (walkSub t .inOrder) := by
  rw [walk_inOrder]; exact ⟨walk_preOrder_perm t, walk_postOrder_perm t⟩

example : walkSub (run compare demo).root .preOrder = [3, 1, 8, 4, 9] ∧
    walkSub (run compare demo).root .postOrder = [1, 4, 9, 8, 3] := by decide

/-! ## no-op operations -/

/-- Inserting a key that is present changes nothing: same tree (shape and levels), same
    count, same release log; the caller's node is not linked. -/
theorem insert_present_noop (cmp : α → α → Ordering) (hc : Consistent cmp) (ops : List (Op α)) (k : α)
    (hm : k ∈ toList (run cmp ops).root) :
    step cmp (run cmp ops) (.ins k) = (run cmp ops, .linked false) := by
  have hi := inv_run hc ops
  have h1 : ins cmp (run cmp ops).root k = (run cmp ops).root := ins_of_mem hc _ k hi.sorted hi.aa hm
  have h2 : search cmp (run cmp ops).root k = some k := (search_spec hc _ k hi.sorted).1 hm
  simp only [step, insertSub_fst, insertSub_snd, h1, h2]
  rfl

example : (3 : Int) ∈ toList (run compare demo).root ∧
    step compare (run compare demo) (.ins 3) = (run compare demo, .linked false) :=
  ⟨by decide, insert_present_noop compare int_compare_consistent demo 3 (by decide)⟩

/-- Removing a key that is absent changes nothing: same tree, same count, no callback. -/
theorem remove_absent_noop (cmp : α → α → Ordering) (hc : Consistent cmp) (ops : List (Op α)) (k : α)
    (hm : k ∉ toList (run cmp ops).root) :
    step cmp (run cmp ops) (.rem k) = (run cmp ops, .unit) := by
  have hi := inv_run hc ops
  have h1 : del cmp (run cmp ops).root k = (run cmp ops).root := del_of_not_mem hc _ k hi.sorted hi.aa hm
  have h2 : search cmp (run cmp ops).root k = none := (search_spec hc _ k hi.sorted).2 hm
  simp only [step, removeSub_fst, removeSub_snd, h1, h2]

example : (6 : Int) ∉ toList (run compare demo).root ∧
    step compare (run compare demo) (.rem 6) = (run compare demo, .unit) :=
  ⟨by decide, remove_absent_noop compare int_compare_consistent demo 6 (by decide)⟩

/-! ## balance -/

/-- `insert_sub` preserves the AA level rules — for any comparator whatsoever. -/
theorem aa_preserved_insert (cmp : α → α → Ordering) (t : T α) (k : α) (h : aa t = true) :
    aa (ins cmp t k) = true ∧ (insertSub cmp t k 0).1 = ins cmp t k :=
  ⟨(aa_ins cmp t k h).1, insertSub_fst cmp t k 0⟩

example : aa (run compare demo).root = true ∧ aa (ins compare (run compare demo).root 2) = true := by decide

/-- `remove_sub` (with `drop_this_node`, `steal_leftmost`, `rebalance_on_remove`) preserves the
    AA level rules — for any comparator whatsoever. -/
theorem aa_preserved_remove (cmp : α → α → Ordering) (t : T α) (k : α) (h : aa t = true) :
    aa (del cmp t k) = true ∧ ∀ e, (removeSub cmp t k e).1 = del cmp t k :=
  ⟨aa_del cmp t k h, removeSub_fst cmp t k⟩

example : aa (del compare (run compare demo).root 3) = true ∧
    toList (del compare (run compare demo).root 3) = [1, 4, 8, 9] := by decide

/-- After every operation of every history the AA level rules hold. -/
theorem aa_reachable (cmp : α → α → Ordering) (hc : Consistent cmp) (ops : List (Op α)) :
    aa (run cmp ops).root = true :=
  (inv_run hc ops).aa

example : aa (run compare demo).root = true := aa_reachable compare int_compare_consistent demo

/-- The level rules alone bound the height. -/
theorem height_le_of_aa (t : T α) (h : aa t = true) : height t ≤ 2 * Nat.log2 (size t + 1) :=
  height_le_two_log t h

example : height (run compare demo).root = 3 ∧ size (run compare demo).root = 5 ∧
    height (run compare demo).root ≤ 2 * Nat.log2 (size (run compare demo).root + 1) :=
  ⟨by decide, by decide, height_le_of_aa _ (by decide)⟩

/-- After every operation the height is at most `2·log2(n+1)`, `n` = number of keys = count. -/
theorem height_bound (cmp : α → α → Ordering) (hc : Consistent cmp) (ops : List (Op α)) :
    height (run cmp ops).root ≤ 2 * Nat.log2 ((refKeys cmp ops).length + 1) ∧
    height (run cmp ops).root ≤ 2 * Nat.log2 ((run cmp ops).count.toNat + 1) := by
  have h := height_le_two_log _ (inv_run hc ops).aa
  have hc' := (inv_run hc ops).count
  rw [size_eq_length, toList_run hc ops] at h
  refine ⟨h, ?_⟩
  rw [hc', size_eq_length, toList_run hc ops]
  simpa using h

example : height (run compare demo).root ≤ 2 * Nat.log2 ((refKeys compare demo).length + 1) :=
  (height_bound compare int_compare_consistent demo).1

/-! ## release callback -/

/-- What one operation adds to the log of release callbacks: remove of a present key → exactly
    that key, once; remove of an absent key, insert, search, walk, count → nothing; destroy →
    the post-order walk of the tree, which is a permutation of its keys (each node once). -/
theorem release_log_step (cmp : α → α → Ordering) (hc : Consistent cmp) (ops : List (Op α)) (o : Op α) :
    (step cmp (run cmp ops) o).1.log = (run cmp ops).log ++
      (match o with
       | .rem k => if present cmp k (refKeys cmp ops) then [k] else []
       | .destroy => walkSub (run cmp ops).root .postOrder
       | _ => []) ∧
    List.Perm (walkSub (run cmp ops).root .postOrder) (refKeys cmp ops) ∧
    (∀ k, present cmp k (refKeys cmp ops) = true ↔ k ∈ refKeys cmp ops) := by
  refine ⟨?_, ?_, fun k => present_iff hc k _⟩
  · rw [← toList_run hc ops]; exact log_step hc _ o (inv_run hc ops)
  · rw [← toList_run hc ops]; exact walk_postOrder_perm _

example : (step compare (run compare demo) (.rem 4)).1.log = [5, 4] ∧
    (step compare (run compare demo) (.rem 6)).1.log = [5] ∧
    (step compare (run compare demo) .destroy).1.log = [5, 1, 4, 9, 8, 3] := by decide

/-- Exactly once, globally: the keys of all nodes ever linked into the tree are, as a
    multiset, the released ones plus the ones still in the tree; the latter are distinct. So
    every linked node is released at most once, exactly once if it was removed or destroyed,
    and nothing else is ever released. -/
theorem release_exactly_once (cmp : α → α → Ordering) (hc : Consistent cmp) (ops : List (Op α)) :
    List.Perm ((run cmp ops).log ++ toList (run cmp ops).root) (linkedKeys cmp ops) ∧
    (toList (run cmp ops).root).Nodup := by
  refine ⟨?_, sorted_nodup hc _ (inv_run hc ops).sorted⟩
  have := release_runFrom hc init ops (inv_init cmp)
  simpa [run_eq, linkedKeys, init, toList] using this

example : (run compare (demo ++ [.destroy, .ins 5])).log = [5, 1, 4, 9, 8, 3] ∧
    linkedKeys compare (demo ++ [.destroy, .ins 5]) = [5, 3, 8, 1, 4, 9, 5] := by decide

/-! ## the shared NIL node -/

/-- No operation of any history stores through the shared `const` NIL sentinel: every
    assignment in `skew`, `split`, `rebalance_on_insert`, `rebalance_on_remove` (in particular
    `current->right->right = …`), `steal_leftmost` and `drop_this_node` targets a real node. -/
theorem nil_never_written (cmp : α → α → Ordering) (hc : Consistent cmp) (ops : List (Op α)) (o : Op α) :
    opNilWrite cmp (run cmp ops).root o = false := by
  have ha := (inv_run hc ops).aa
  cases o with
  | ins k => exact ins_noNilWrite cmp _ k ha
  | rem k => exact del_noNilWrite cmp _ k ha
  | find k => rfl
  | walk w => rfl
  | destroy => rfl
  | count => rfl

/-- the predicate is not trivially false: a level-2 node whose right child vanished and whose
    left child does not sit one level below would make `rebalance_on_remove` store into NIL -/
example : rebalNilWrite (node (nil : T Int) 1 2 nil) = true ∧
    opNilWrite compare (run compare demo).root (.rem 3) = false := by decide

end UsualProps.C07
