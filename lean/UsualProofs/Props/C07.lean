/-! Property theorems for C07 (stub: not built yet). -/
