import UsualProofs.C11.Inverse
import UsualProofs.C11.Frame
/-!
# Property C11 — the UTF-8 codec accepts exactly well-formed UTF-8 and round-trips every scalar

All statements are about the model `Usual.C11` (`lean/Usual/C11/Utf8.lean`); the bridge lemmas
`UsualProofs.Bridge.C11.bridge_*` transport them to the definitions regenerated from
`usual/utf8.c` on every run (`Usual.Gen.C11`), and `harness/C11/h.c` compares the model with the
compiled code on every byte window / code point.

Conventions: `rd i` is the byte at offset `i` from the source pointer, `avail` the number of
bytes before the end pointer (`avail ≥ 1` is the callers' obligation: both readers look at
`p[0]` unconditionally), `window rd n = [rd 0, …, rd (n-1)]`, `WF` = one row of Unicode
Table 3-7, `decode` = its code point, `room` = bytes before the destination end pointer.
C `int`/`unsigned` are `BitVec 32`; `x.toInt` is the value of a C `int`.

Everything here is kernel-checked with the three standard axioms only (no `bv_decide`).
-/
namespace UsualProps.C11
open Usual.C11 UsualProofs.C11

/-! ## utf8_validate_seq -/

/-- The validator returns 1/2/3/4 exactly on the matching row of Table 3-7 lying completely
before `end` (and not NUL for length 1); it returns nothing but 0..4. -/
theorem validateSeq_spec (rd : Nat → B) (avail : Nat) :
    (validateSeq rd avail = 1#32 ↔ wf1 (rd 0) ∧ rd 0 ≠ 0#8) ∧
    (validateSeq rd avail = 2#32 ↔ 2 ≤ avail ∧ wf2 (rd 0) (rd 1)) ∧
    (validateSeq rd avail = 3#32 ↔ 3 ≤ avail ∧ wf3 (rd 0) (rd 1) (rd 2)) ∧
    (validateSeq rd avail = 4#32 ↔ 4 ≤ avail ∧ wf4 (rd 0) (rd 1) (rd 2) (rd 3)) ∧
    (validateSeq rd avail = 0#32 ∨ validateSeq rd avail = 1#32 ∨ validateSeq rd avail = 2#32 ∨
      validateSeq rd avail = 3#32 ∨ validateSeq rd avail = 4#32) :=
  ⟨vs1 _ _ _ _ _, vs2 _ _ _ _ _, vs3 _ _ _ _ _, vs4 _ _ _ _ _, vs_range _ _ _ _ _⟩

example : validateSeq (rdOf [0xED#8, 0x9F#8, 0xBF#8]) 3 = 3#32 :=
  ((validateSeq_spec _ 3).2.2.1).mpr (by decide)
example : validateSeq (rdOf [0xED#8, 0xA0#8, 0x80#8]) 3 ≠ 3#32 :=           -- surrogate D800
  fun h => absurd (((validateSeq_spec _ 3).2.2.1).mp h) (by decide)
example : validateSeq (rdOf [0xE2#8, 0x82#8, 0xAC#8]) 2 ≠ 3#32 :=           -- truncated
  fun h => absurd (((validateSeq_spec _ 2).2.2.1).mp h) (by decide)

/-- List form: the validator returns `n ≠ 0` iff the `n` bytes at the pointer lie before `end`,
are one well-formed sequence and are not NUL. -/
theorem validateSeq_accepts_iff (rd : Nat → B) (avail n : Nat) (ha : 1 ≤ avail) (hn : n ≠ 0) :
    (validateSeq rd avail).toNat = n ↔ n ≤ avail ∧ WF (window rd n) ∧ window rd n ≠ [0#8] :=
  vs_accepts_iff rd avail n ha hn

example : (validateSeq (rdOf [0xF4#8, 0x8F#8, 0xBF#8, 0xBF#8, 0x41#8]) 5).toNat = 4 :=
  (validateSeq_accepts_iff _ 5 4 (by decide) (by decide)).mpr (by decide)

/-- … and 0 iff no prefix before `end` is a well-formed non-NUL sequence: overlong forms,
surrogates, values above U+10FFFF, stray or missing tail bytes, truncation, NUL. -/
theorem validateSeq_rejects_iff (rd : Nat → B) (avail : Nat) (ha : 1 ≤ avail) :
    validateSeq rd avail = 0#32 ↔
      ∀ n, n ≤ avail → ¬ (WF (window rd n) ∧ window rd n ≠ [0#8]) := by
  constructor
  · intro h n hn hw
    have hn0 : n ≠ 0 := by
      intro e; rw [e] at hw; exact not_WF_nil hw.1
    have := (vs_accepts_iff rd avail n ha hn0).mpr ⟨hn, hw⟩
    rw [h] at this
    exact hn0 this.symm
  · intro h
    apply BitVec.eq_of_toNat_eq
    by_cases hz : (validateSeq rd avail).toNat = 0
    · rw [hz]; rfl
    · have := (vs_accepts_iff rd avail _ ha hz).mp rfl
      exact absurd this.2 (h _ this.1)

example : validateSeq (rdOf [0xC0#8, 0x80#8]) 2 = 0#32 :=                   -- overlong NUL
  (validateSeq_rejects_iff _ 2 (by decide)).mpr (by
    intro n hn
    match n, hn with
    | 0, _ => decide
    | 1, _ => decide
    | 2, _ => decide)

/-! ## utf8_get_char -/

/-- On a well-formed sequence lying before `end` (NUL included) the decoder returns its code
point and advances by its length. -/
theorem getChar_wellformed (rd : Nat → B) (avail n : Nat) (hn : n ≤ avail)
    (h : WF (window rd n)) :
    getChar rd avail = (BitVec.ofNat 32 (decode (window rd n)), n) := by
  match n, h with
  | 0, h => exact absurd h not_WF_nil
  | 1, h =>
    rw [window_1] at h ⊢; unfold getChar decode cp1
    rw [gc1 _ _ _ _ _ h, z_eq]
  | 2, h =>
    rw [window_2] at h ⊢; unfold getChar decode
    rw [gc2 _ _ _ _ _ hn h, dec2_cp _ _ h]
  | 3, h =>
    rw [window_3] at h ⊢; unfold getChar decode
    rw [gc3 _ _ _ _ _ hn h, dec3_cp _ _ _ h]
  | 4, h =>
    rw [window_4] at h ⊢; unfold getChar decode
    rw [gc4 _ _ _ _ _ hn h, dec4_cp _ _ _ _ h]
  | k + 5, h => have := WF_length h; rw [window_length] at this; omega

example : getChar (rdOf [0xE2#8, 0x82#8, 0xAC#8, 0x21#8]) 4 = (0x20AC#32, 3) :=
  getChar_wellformed _ 4 3 (by decide) (by decide)
example : getChar (rdOf [0x00#8]) 1 = (0#32, 1) :=
  getChar_wellformed _ 1 1 (by decide) (by decide)

/-- On anything else — no prefix before `end` is well-formed: overlong, surrogate, above
U+10FFFF, bad or missing tail byte, truncated — the decoder consumes exactly one byte and
returns the negated lead byte. -/
theorem getChar_illformed (rd : Nat → B) (avail : Nat) (ha : 1 ≤ avail)
    (h : ∀ n, n ≤ avail → ¬ WF (window rd n)) :
    getChar rd avail = (-(z (rd 0)), 1) ∧
    (getChar rd avail).1.toInt = -((rd 0).toNat : Int) ∧ (getChar rd avail).2 = 1 := by
  have e : getChar rd avail = (-(z (rd 0)), 1) := by
    unfold getChar
    rw [← bad_eq]
    apply gcbad
    · have := h 1 ha; rwa [window_1] at this
    · intro ⟨a, w⟩; have := h 2 a; rw [window_2] at this; exact this w
    · intro ⟨a, w⟩; have := h 3 a; rw [window_3] at this; exact this w
    · intro ⟨a, w⟩; have := h 4 a; rw [window_4] at this; exact this w
  refine ⟨e, ?_, ?_⟩
  · rw [e]; exact neg_byte_toInt _
  · rw [e]

example : (getChar (rdOf [0xED#8, 0xA0#8, 0x80#8]) 3).1.toInt = -0xED ∧
    (getChar (rdOf [0xED#8, 0xA0#8, 0x80#8]) 3).2 = 1 :=                     -- surrogate D800
  (getChar_illformed _ 3 (by decide) (by
    intro n hn
    match n, hn with
    | 0, _ => decide
    | 1, _ => decide
    | 2, _ => decide
    | 3, _ => decide)).2
example : (getChar (rdOf [0xE2#8, 0x82#8]) 2).1.toInt = -0xE2 :=            -- truncated
  (getChar_illformed _ 2 (by decide) (by
    intro n hn
    match n, hn with
    | 0, _ => decide
    | 1, _ => decide
    | 2, _ => decide)).2.1

/-- The decoder accepts (returns a non-negative value) exactly the well-formed sequences lying
before `end`. -/
theorem getChar_accepts_iff (rd : Nat → B) (avail : Nat) (ha : 1 ≤ avail) :
    0 ≤ (getChar rd avail).1.toInt ↔ ∃ n, n ≤ avail ∧ WF (window rd n) := by
  constructor
  · intro h
    apply Classical.byContradiction
    intro hne
    have hall : ∀ n, n ≤ avail → ¬ WF (window rd n) := fun n hn hw => hne ⟨n, hn, hw⟩
    have e := (getChar_illformed rd avail ha hall).2.1
    have h1 := hall 1 ha
    rw [window_1] at h1
    unfold WF wf1 at h1
    u8nat
    omega
  · intro ⟨n, hn, hw⟩
    rw [getChar_wellformed rd avail n hn hw]
    have := (decode_WF _ hw).1
    unfold isScalar at this
    rw [toInt_ofNat_small _ (by omega)]
    omega

example : 0 ≤ (getChar (rdOf [0xF0#8, 0x90#8, 0x80#8, 0x80#8]) 4).1.toInt :=
  (getChar_accepts_iff _ 4 (by decide)).mpr ⟨4, by decide, by decide⟩

/-- What a well-formed sequence decodes to is a Unicode scalar value (no surrogate, nothing
above U+10FFFF) in its shortest form (no overlong encodings). -/
theorem decode_scalar (s : List B) (h : WF s) : isScalar (decode s) ∧ encLen (decode s) = s.length :=
  decode_WF s h

example : isScalar (decode [0xEF#8, 0xBF#8, 0xBF#8]) ∧ encLen (decode [0xEF#8, 0xBF#8, 0xBF#8]) = 3 :=
  decode_scalar _ (by decide)

/-! ## neither reader looks at or beyond the end pointer

The result is a function of the bytes at offsets `< avail` alone.  (`avail ≥ 1`: `p[0]` is read
unconditionally.)  The harness checks the same thing physically: the source buffer is an
exact-size heap block under AddressSanitizer. -/

theorem validateSeq_frame (rd1 rd2 : Nat → B) (avail : Nat) (ha : 1 ≤ avail)
    (h : ∀ i, i < avail → rd1 i = rd2 i) : validateSeq rd1 avail = validateSeq rd2 avail := by
  unfold validateSeq
  rw [h 0 (by omega)]
  exact vsW_congr _ _ _ _ _ _ _ _ (fun a => h 1 (by omega)) (fun a => h 2 (by omega))
    (fun a => h 3 (by omega))

theorem getChar_frame (rd1 rd2 : Nat → B) (avail : Nat) (ha : 1 ≤ avail)
    (h : ∀ i, i < avail → rd1 i = rd2 i) : getChar rd1 avail = getChar rd2 avail := by
  unfold getChar
  rw [h 0 (by omega)]
  exact gcW_congr _ _ _ _ _ _ _ _ (fun a => h 1 (by omega)) (fun a => h 2 (by omega))
    (fun a => h 3 (by omega))

example : getChar (fun i => if i < 2 then 0xE2#8 else 0x82#8) 2
    = getChar (fun i => if i < 2 then 0xE2#8 else 0xFF#8) 2 :=
  getChar_frame _ _ 2 (by decide) (by
    intro i hi
    simp only [hi, ↓reduceIte])
example : validateSeq (rdOf [0xE2#8, 0x82#8, 0xAC#8]) 2 = validateSeq (rdOf [0xE2#8, 0x82#8, 0x00#8]) 2 :=
  validateSeq_frame _ _ 2 (by decide) (by
    intro i hi
    match i, hi with
    | 0, _ => rfl
    | 1, _ => rfl)

/-! ## utf8_put_char, utf8_char_size -/

/-- For a scalar value that fits, `utf8_put_char` succeeds, stores exactly
`utf8_char_size` bytes, and these bytes are the well-formed sequence of that value. -/
theorem putChar_scalar (room : Nat) (c : BitVec 32) (hs : isScalar c.toNat)
    (hr : encLen c.toNat ≤ room) :
    ∃ bytes, putChar room c = (true, encLen c.toNat, bytes) ∧ bytes.length = encLen c.toNat ∧
      charSize c = BitVec.ofNat 32 bytes.length ∧ WF bytes ∧ decode bytes = c.toNat := by
  unfold isScalar at hs
  by_cases h1 : c.toNat < 0x80
  · have e : encLen c.toNat = 1 := by unfold encLen; rw [if_pos h1]
    rw [e] at hr ⊢
    refine ⟨_, pc1 room c h1 hr, rfl, by rw [charSize_eq, e]; rfl, ?_, ?_⟩
    · unfold WF wf1; u8nat; rw [lo8_self c (by omega)]; omega
    · unfold decode cp1; exact lo8_self c (by omega)
  · by_cases h2 : c.toNat < 0x800
    · have e : encLen c.toNat = 2 := by unfold encLen; rw [if_neg h1, if_pos h2]
      rw [e] at hr ⊢
      have ok := enc2_ok c (by omega) h2
      exact ⟨_, pc2 room c (by omega) h2 hr, rfl, by rw [charSize_eq, e]; rfl, ok.1, ok.2⟩
    · by_cases h3 : c.toNat < 0x10000
      · have e : encLen c.toNat = 3 := by unfold encLen; rw [if_neg h1, if_neg h2, if_pos h3]
        rw [e] at hr ⊢
        have hs' : c.toNat < 0xD800 ∨ 0xDFFF < c.toNat := by omega
        have ok := enc3_ok c (by omega) h3 hs'
        exact ⟨_, pc3 room c (by omega) h3 hs' hr, rfl, by rw [charSize_eq, e]; rfl, ok.1, ok.2⟩
      · have e : encLen c.toNat = 4 := by unfold encLen; rw [if_neg h1, if_neg h2, if_neg h3]
        rw [e] at hr ⊢
        have ok := enc4_ok c (by omega) (by omega)
        exact ⟨_, pc4 room c (by omega) (by omega) hr, rfl, by rw [charSize_eq, e]; rfl, ok.1, ok.2⟩

example : ∃ bytes, putChar 3 0x20AC#32 = (true, 3, bytes) ∧ bytes.length = 3 ∧
    charSize 0x20AC#32 = BitVec.ofNat 32 bytes.length ∧ WF bytes ∧ decode bytes = 0x20AC :=
  putChar_scalar 3 0x20AC#32 (by decide) (by decide)

/-- `utf8_put_char` followed by `utf8_get_char` is the identity on every Unicode scalar value:
whenever the stored bytes are what the reader sees before its end pointer (more bytes may
follow), it returns the value and advances by exactly the number of bytes stored. -/
theorem put_get_roundtrip (room : Nat) (c : BitVec 32) (hs : isScalar c.toNat)
    (hr : encLen c.toNat ≤ room) (rd : Nat → B) (avail : Nat)
    (hav : (putChar room c).2.2.length ≤ avail)
    (hrd : ∀ i, i < (putChar room c).2.2.length → rd i = (putChar room c).2.2.getD i 0#8) :
    getChar rd avail = (c, (putChar room c).2.1) := by
  obtain ⟨bytes, e, hl, _, hw, hd⟩ := putChar_scalar room c hs hr
  rw [e] at hav hrd ⊢
  simp only at hav hrd ⊢
  have ew : window rd bytes.length = bytes := by
    apply List.ext_getElem
    · rw [window_length]
    · intro i h1 h2
      have := hrd i h2
      simp only [window, List.getElem_map, List.getElem_range]
      rw [this, List.getD_eq_getElem?_getD, List.getElem?_eq_getElem h2, Option.getD_some]
  have := getChar_wellformed rd avail bytes.length hav (by rw [ew]; exact hw)
  rw [ew, hd, BitVec.ofNat_toNat, BitVec.setWidth_eq, hl] at this
  exact this

/-- … in particular on the stored bytes themselves. -/
theorem put_get_roundtrip_exact (room : Nat) (c : BitVec 32) (hs : isScalar c.toNat)
    (hr : encLen c.toNat ≤ room) :
    getCharL (putChar room c).2.2 = (c, (putChar room c).2.1) :=
  put_get_roundtrip room c hs hr _ _ (Nat.le_refl _) (fun _ _ => rfl)

example : getCharL (putChar 4 0x10FFFF#32).2.2 = (0x10FFFF#32, 4) :=
  put_get_roundtrip_exact 4 0x10FFFF#32 (by decide) (by decide)
example : getChar (rdOf ((putChar 2 0x7FF#32).2.2 ++ [0x41#8])) 3 = (0x7FF#32, 2) :=
  put_get_roundtrip 2 0x7FF#32 (by decide) (by decide) _ 3 (by decide) (by
    intro i hi
    match i, hi with
    | 0, _ => rfl
    | 1, _ => rfl)

/-- Conversely `utf8_get_char` followed by `utf8_put_char` reproduces every well-formed
sequence byte for byte: together with `put_get_roundtrip` the codec is a bijection between
Unicode scalar values and the sequences of Table 3-7. -/
theorem get_put_roundtrip (rd : Nat → B) (avail n room : Nat) (hn : n ≤ avail)
    (h : WF (window rd n)) (hr : n ≤ room) :
    putChar room (getChar rd avail).1 = (true, n, window rd n) := by
  rw [getChar_wellformed rd avail n hn h]
  have := putChar_decode (window rd n) room h (by rw [window_length]; exact hr)
  rw [window_length] at this
  exact this

example : putChar 4 (getChar (rdOf [0xF0#8, 0x9F#8, 0x98#8, 0x80#8]) 4).1
    = (true, 4, [0xF0#8, 0x9F#8, 0x98#8, 0x80#8]) :=
  get_put_roundtrip _ 4 4 4 (by decide) (by decide) (by decide)

/-- Nothing is stored and the destination pointer stays for surrogates and for values above
U+10FFFF, whatever the room. -/
theorem putChar_nothing_for_invalid (room : Nat) (c : BitVec 32) (h : ¬ isScalar c.toNat) :
    (putChar room c).2 = (0, []) :=
  pc_nonscalar room c h

example : (putChar 4 0xD800#32).2 = (0, []) := putChar_nothing_for_invalid 4 _ (by decide)
example : (putChar 4 0x110000#32).2 = (0, []) := putChar_nothing_for_invalid 4 _ (by decide)

/-- The destination pointer advances by exactly the number of bytes stored, and no byte is
stored at or beyond the end pointer (stores are consecutive from the old pointer, so "at most
`room` of them" is "all below `dstend`"). -/
theorem putChar_respects_room (room : Nat) (c : BitVec 32) :
    (putChar room c).2.1 = (putChar room c).2.2.length ∧ (putChar room c).2.2.length ≤ room :=
  pc_len room c

example : (putChar 2 0x20AC#32).2.2.length ≤ 2 := (putChar_respects_room 2 _).2

/-- `false` is returned exactly in the no-room cases — a value up to U+10FFFF whose
`utf8_char_size` exceeds the room (surrogates are tested for room before they are skipped) —
and nothing is stored then. -/
theorem putChar_false_iff (room : Nat) (c : BitVec 32) :
    ((putChar room c).1 = false ↔ c.toNat ≤ 0x10FFFF ∧ room < encLen c.toNat) ∧
    ((putChar room c).1 = false → (putChar room c).2 = (0, [])) :=
  ⟨pc_false_iff room c, pc_false_nothing room c⟩

example : (putChar 2 0x20AC#32).1 = false := ((putChar_false_iff 2 _).1).mpr (by decide)
example : (putChar 0 0x110000#32).1 ≠ false :=
  fun h => absurd (((putChar_false_iff 0 _).1).mp h) (by decide)

/-- `utf8_char_size` is the encoded length (1/2/3/4 by the thresholds 0x80, 0x800, 0x10000). -/
theorem charSize_spec (c : BitVec 32) : charSize c = BitVec.ofNat 32 (encLen c.toNat) :=
  charSize_eq c

example : charSize 0xFFFF#32 = 3#32 := charSize_spec _

/-! ## utf8_seq_size agrees with the validator on every lead byte -/

/-- Whenever the validator accepts a sequence, its length is `utf8_seq_size` of the lead byte. -/
theorem seqSize_agrees (rd : Nat → B) (avail : Nat) (h : validateSeq rd avail ≠ 0#32) :
    seqSize (rd 0) = validateSeq rd avail :=
  seqSize_of_accept _ _ _ _ _ h

example : seqSize 0xE2#8 = 3#32 :=
  seqSize_agrees (rdOf [0xE2#8, 0x82#8, 0xAC#8]) 3 (by decide)

/-- Conversely every lead byte except NUL has a continuation on which the validator returns
`utf8_seq_size` of it; so `utf8_seq_size b = 0` iff no sequence starting with `b` is valid. -/
theorem seqSize_attained (b : B) (hb : b ≠ 0#8) :
    (∃ rd avail, rd 0 = b ∧ validateSeq rd avail = seqSize b) ∧
    (seqSize b = 0#32 ↔ ∀ rd avail, rd 0 = b → validateSeq rd avail = 0#32) := by
  have w : validateSeq (leadWitness b) 4 = seqSize b := seqSize_witness b hb
  refine ⟨⟨leadWitness b, 4, rfl, w⟩, ?_, ?_⟩
  · intro h0 rd avail e
    apply Classical.byContradiction
    intro hne
    have := seqSize_agrees rd avail hne
    rw [e, h0] at this
    exact hne this.symm
  · intro h
    rw [← w]
    exact h _ 4 rfl

example : seqSize 0xC1#8 = 0#32 ↔ ∀ rd avail, rd 0 = 0xC1#8 → validateSeq rd avail = 0#32 :=
  (seqSize_attained 0xC1#8 (by decide)).2

/-- The one documented difference: `utf8_seq_size 0 = 1`, the validator rejects NUL. -/
theorem seqSize_nul (rd : Nat → B) (avail : Nat) (h : rd 0 = 0#8) :
    seqSize (rd 0) = 1#32 ∧ validateSeq rd avail = 0#32 := by
  rw [h]
  refine ⟨by decide, ?_⟩
  unfold validateSeq validateSeqW
  rw [h]
  simp only [show (0#8 < 0x80#8) from by decide, ↓reduceIte]

example : seqSize ((rdOf [0x00#8]) 0) = 1#32 ∧ validateSeq (rdOf [0x00#8]) 1 = 0#32 :=
  seqSize_nul _ 1 rfl

/-! ## utf8_validate_string -/

/-- `utf8_validate_string` accepts exactly the concatenations of well-formed sequences none of
which is NUL. -/
theorem validateString_spec (s : List B) : validateString s = true ↔ WFString s :=
  validateString_iff s

example : validateString [0x41#8, 0xE2#8, 0x82#8, 0xAC#8, 0xF0#8, 0x9F#8, 0x98#8, 0x80#8] = true :=
  (validateString_spec _).mpr
    ⟨[[0x41#8], [0xE2#8, 0x82#8, 0xAC#8], [0xF0#8, 0x9F#8, 0x98#8, 0x80#8]], rfl, by
      intro c hc
      simp only [List.mem_cons, List.not_mem_nil, or_false] at hc
      rcases hc with rfl | rfl | rfl <;> decide⟩
example : ¬ WFString [0x41#8, 0x00#8] :=
  fun h => absurd ((validateString_spec _).mpr h) (by decide)

end UsualProps.C11
