/-! Property theorems for C11 (stub: not built yet). -/
