/-! Property theorems for C20 (stub: not built yet). -/
