import UsualProofs.C20.Progress
import UsualProofs.C20.Safety
import UsualProofs.C20.Exec
import UsualProofs.C20.Trace
import UsualProofs.C20.Rank
/-! # C20 — the compat getaddrinfo_a completes every request exactly once under any schedule

Model: `Usual.C20` (lean/Usual/C20/Gaia.lean), the statements of the repaired usual/netdb.c as a
transition system over any number of submitting threads and the resolver thread.  Every theorem
below quantifies over ALL reachable states, i.e. all interleavings (`Reach Cfg.fixed ga`), for an
arbitrary resolution oracle `ga` (what getaddrinfo returns for given arguments).  The tie to the
C code is trace validation (checks/C20.py): event traces of the real code under perturbed
schedules are replayed through `Usual.C20.stepFn`, which `stepFn_sound` proves to be `Step`. -/
namespace UsualProps.C20
open Usual.C20 UsualProofs.C20

/-- a schedule: submitter `i` posts batch `b` of `n` items with GAI_NOWAIT (creating the context
    when `mk`) — used for the concrete instances below -/
def subNowait (i b n : Nat) (sev : Sev) (mk : Bool) : List (Tid × Act) :=
  [(.sub i, .begin b n sev .nowait (fun k => k)), (.sub i, .ctxAcquire), (.sub i, .ctxCheck)] ++
  (if mk then [(.sub i, .ctxMake)] else []) ++
  [(.sub i, .ctxRelease), (.sub i, .alloc)] ++ List.replicate n (.sub i, .mark) ++
  [(.sub i, .markDone), (.sub i, .qAcquire), (.sub i, .append), (.sub i, .qRelease), (.sub i, .signal)]

/-- the resolver takes one request of `n` items through to free -/
def workOne (b n : Nat) (first : Bool) : List (Tid × Act) :=
  [(.worker, if first then .wkAcquire else .wkReacquire), (.worker, .wkPop b), (.worker, .wkRelease)] ++
  List.replicate n (.worker, .wkResolve) ++ [(.worker, .wkAll), (.worker, .wkNotify), (.worker, .wkFree)]

def gaEx : Nat → Int := fun k => if k = 2 then -2 else 0

/-- two submitters, batches 7 and 9 of three items each, interleaved with the resolver:
    submitter 1 posts batch 7, the resolver handles two items of it while submitter 2 posts batch 9 -/
def schedA : List (Tid × Act) :=
  subNowait 1 7 3 .thread true ++
  [(.worker, .wkAcquire), (.worker, .wkPop 7), (.worker, .wkRelease), (.worker, .wkResolve)] ++
  subNowait 2 9 3 .signal false ++ [(.worker, .wkResolve)]

/-- … and on to quiescence -/
def schedB : List (Tid × Act) :=
  schedA ++ [(.worker, .wkResolve), (.worker, .wkAll), (.worker, .wkNotify), (.worker, .wkFree),
    (.worker, .wkAcquire), (.worker, .wkPop 9), (.worker, .wkRelease), (.worker, .wkResolve),
    (.worker, .wkResolve), (.worker, .wkResolve), (.worker, .wkAll), (.worker, .wkNotify), (.worker, .wkFree),
    (.worker, .wkAcquire), (.worker, .wkWait)]

def stA : S := (run Cfg.fixed gaEx init schedA).getD init
def stB : S := (run Cfg.fixed gaEx init schedB).getD init

theorem stA_reach : Reach Cfg.fixed gaEx stA :=
  run_reach' (l := schedA) (by decide +kernel)
theorem stB_reach : Reach Cfg.fixed gaEx stB :=
  run_reach' (l := schedB) (by decide +kernel)

/-! ## no request lost, duplicated or read from uninitialised memory -/

/-- Every item is resolved at most once; the resolver never reads an uninitialised list slot;
    every item of a finished batch was resolved exactly once and holds getaddrinfo's result for
    its arguments; and when nothing is pending every submitted batch has finished. -/
theorem no_loss_no_dup {ga : Nat → Int} (s : S) (h : Reach Cfg.fixed ga s) :
    (∀ b j, s.resolved b j ≤ 1) ∧ s.badRead = false ∧
    (∀ b j, s.loc b = .finished → j < s.nOf b →
       s.resolved b j = 1 ∧ s.status b j = .done ∧ s.result b j = some (ga (s.argOf b j))) ∧
    (¬ Pending s → ∀ b, s.loc b ≠ .unused → s.loc b = .finished) := by
  have hi := reach_inv h
  refine ⟨fun b j => ?_, hi.bad, fun b j hb hj => ?_, fun hp b hb => quiescent_finished hi hp b hb⟩
  · rw [hi.r_cnt]; split <;> omega
  · have hd := (hi.i_fin b hb j hj).1
    exact ⟨by rw [hi.r_cnt, if_pos hd], hd, (hi.r_res b j hd).1⟩

example : ¬ Pending stB ∧ stB.loc 7 = .finished ∧ stB.loc 9 = .finished ∧ stB.nOf 9 = 3 ∧
    stB.resolved 9 2 = 1 ∧ stB.result 9 2 = some (-2) ∧ stB.result 7 1 = some 0 := by
  refine ⟨?_, by decide +kernel, by decide +kernel, by decide +kernel, by decide +kernel,
    by decide +kernel, by decide +kernel⟩
  have hq := (no_loss_no_dup stB stB_reach).2.2.2
  intro hp
  rcases hp with ⟨i, hi⟩ | hq' | hw
  · have h1 : ∀ i, stB.spc i = .idle := by
      intro i
      by_cases e1 : i = 1
      · subst e1; decide +kernel
      · by_cases e2 : i = 2
        · subst e2; decide +kernel
        · simp [stB, schedB, schedA, subNowait, run, stepFn, init, e1, e2, publish, notifyB]
    exact hi (h1 i)
  · exact hq' (by decide +kernel)
  · exact hw (by decide +kernel)

/-! ## gai_error: EAI_INPROGRESS from submission until published, final afterwards -/

/-- Once a batch has been submitted (it is queued, with the resolver, or finished) each of its
    items is either EAI_INPROGRESS and not yet resolved, or final with exactly one resolution and
    getaddrinfo's result; queued items are all EAI_INPROGRESS; finished items are all final. -/
theorem inprogress_until_published {ga : Nat → Int} (s : S) (h : Reach Cfg.fixed ga s) (b j : Nat)
    (hj : j < s.nOf b) (hl : s.loc b = .queued ∨ s.loc b = .worker ∨ s.loc b = .finished) :
    ((s.status b j = .inProg ∧ s.resolved b j = 0 ∧ s.loc b ≠ .finished) ∨
     (s.status b j = .done ∧ s.resolved b j = 1 ∧ s.result b j = some (ga (s.argOf b j)))) ∧
    (s.loc b = .queued → s.status b j = .inProg) := by
  have hi := reach_inv h
  have hfin : ∀ {x}, s.status b j = x → x = .done →
      s.status b j = .done ∧ s.resolved b j = 1 ∧ s.result b j = some (ga (s.argOf b j)) := by
    intro x hx e; subst e
    exact ⟨hx, by rw [hi.r_cnt, if_pos hx], (hi.r_res b j hx).1⟩
  rcases hl with hl | hl | hl
  · have hq := ((hi.i_q b hl).2 j hj).2 (Nat.zero_le _)
    refine ⟨Or.inl ⟨hq.1, by rw [hi.r_cnt, hq.1]; simp, by simp [hl]⟩, fun _ => hq.1⟩
  · refine ⟨?_, fun e => by simp [hl] at e⟩
    have ho := (hi.l_w b).2 hl
    cases hw : s.wpc <;> simp [hw, WPc.owns] at ho
    · subst ho
      have hq := ((hi.i_w _ 0 .inProg .inProg (by simp [hw, wExpect])).2 j hj).2 (Nat.zero_le _)
      exact Or.inl ⟨hq.1, by rw [hi.r_cnt, hq.1]; simp, by simp [hl]⟩
    · next b' k =>
      subst ho
      have hq := (hi.i_w _ k .done .inProg (by simp [hw, wExpect])).2 j hj
      by_cases e : j < k
      · exact Or.inr (hfin (hq.1 e).1 rfl)
      · have h2 := (hq.2 (by omega)).1
        exact Or.inl ⟨h2, by rw [hi.r_cnt, h2]; simp, by simp [hl]⟩
    · subst ho
      have hq := ((hi.i_w _ 0 .done .done (by simp [hw, wExpect])).2 j hj).2 (Nat.zero_le _)
      exact Or.inr (hfin hq.1 rfl)
    · subst ho
      have hq := ((hi.i_w _ 0 .done .done (by simp [hw, wExpect])).2 j hj).2 (Nat.zero_le _)
      exact Or.inr (hfin hq.1 rfl)
  · exact ⟨Or.inr (hfin (hi.i_fin b hl j hj).1 rfl), fun e => by simp [hl] at e⟩

/-- A final status is never overwritten (in particular not by a late EAI_INPROGRESS), and an
    EAI_INPROGRESS item stays so until it becomes final. -/
theorem status_monotone {ga : Nat → Int} (s s' : S) (t : Tid) (a : Act) (h : Reach Cfg.fixed ga s)
    (hs : Step Cfg.fixed ga s t a s') (b j : Nat) :
    (s.status b j = .done → s'.status b j = .done ∧ s'.result b j = s.result b j) ∧
    (s.status b j = .inProg → s'.status b j = .inProg ∨ s'.status b j = .done) :=
  ⟨done_stable (reach_inv h) hs b j, inprog_next hs b j⟩

-- in stA batch 7 is with the resolver, items 0,1 final and item 2 still in progress; batch 9 queued
example : stA.loc 7 = .worker ∧ stA.status 7 0 = .done ∧ stA.status 7 1 = .done ∧ stA.status 7 2 = .inProg ∧
    stA.loc 9 = .queued ∧ stA.status 9 0 = .inProg ∧ stA.status 9 2 = .inProg ∧ stA.nOf 7 = 3 := by
  decide +kernel

/-! ## notification: exactly once, after all results -/

/-- No batch is notified twice; a notified batch has all its results published (each by exactly
    one resolution); every finished batch has been notified exactly once. -/
theorem notify_once_after_all {ga : Nat → Int} (s : S) (h : Reach Cfg.fixed ga s) (b : Nat) :
    s.notified b ≤ 1 ∧
    (s.notified b = 1 → ∀ j, j < s.nOf b → s.status b j = .done ∧ s.resolved b j = 1) ∧
    (s.loc b = .finished → s.notified b = 1) := by
  have hi := reach_inv h
  refine ⟨by rw [hi.n_cnt]; split <;> omega, fun hn j hj => ?_, fun hl => by rw [hi.n_cnt]; simp [hl]⟩
  have hd : s.status b j = .done := by
    rw [hi.n_cnt] at hn
    split at hn
    · next hc =>
      rcases hc with hc | hc
      · exact (hi.i_fin b hc j hj).1
      · exact (((hi.i_w b 0 .done .done (by simp [hc, wExpect])).2 j hj).2 (Nat.zero_le _)).1
    · omega
  exact ⟨hd, by rw [hi.r_cnt, if_pos hd]⟩

/-- The step that notifies `b` finds its count at 0, leaves it at 1, and every result of `b` was
    already published, by the notifying thread itself. -/
theorem notify_step_after_all {ga : Nat → Int} (s s' : S) (t : Tid) (a : Act) (h : Reach Cfg.fixed ga s)
    (hs : Step Cfg.fixed ga s t a s') (b : Nat) (hn : s'.notified b ≠ s.notified b) :
    s.notified b = 0 ∧ s'.notified b = 1 ∧ s'.notBy b = t ∧
      ∀ j, j < s.nOf b → s.status b j = .done ∧ s.resolved b j = 1 ∧ s.pubBy b j = t :=
  notify_step (reach_inv h) hs b hn

example : stA.notified 7 = 0 ∧ stB.notified 7 = 1 ∧ stB.notified 9 = 1 ∧ stB.sevOf 9 = .signal := by
  decide +kernel

/-! ## the queue is touched only under the lock -/

/-- Any step that reads or writes ctx->req_list (append, pop, the emptiness test before
    cond_wait), or changes the queue in any way, is taken by the thread holding ctx->lock; and the
    lock has one holder by construction (`qlock : Option Tid`). -/
theorem queue_mutex {ga : Nat → Int} (s s' : S) (t : Tid) (a : Act) (h : Reach Cfg.fixed ga s)
    (hs : Step Cfg.fixed ga s t a s') (hq : a.touchesQueue = true ∨ s'.queue ≠ s.queue) :
    s.qlock = some t :=
  queue_by_holder (reach_inv h) hs hq

-- non-vacuity: in stA the resolver is outside the lock; submitter 3 can start a call, and the
-- append step of a submitter is taken with the lock held
example : ∃ s1 s2, Reach Cfg.fixed gaEx s1 ∧ Step Cfg.fixed gaEx s1 (.sub 3) .append s2 ∧
    s1.qlock = some (.sub 3) ∧ s2.queue = [9, 11] := by
  let l := schedA ++ [(.sub 3, .begin 11 3 .none .nowait (fun k => k)), (.sub 3, .ctxAcquire),
    (.sub 3, .ctxCheck), (.sub 3, .ctxRelease), (.sub 3, .alloc), (.sub 3, .mark), (.sub 3, .mark),
    (.sub 3, .mark), (.sub 3, .markDone), (.sub 3, .qAcquire)]
  have h1 : Reach Cfg.fixed gaEx ((run Cfg.fixed gaEx init l).getD init) :=
    run_reach' (l := l) (by decide +kernel)
  refine ⟨_, (stepFn Cfg.fixed gaEx ((run Cfg.fixed gaEx init l).getD init) (.sub 3) .append).getD init,
    h1, stepFn_sound' (by decide +kernel), by decide +kernel, by decide +kernel⟩

/-! ## whoever is notified sees published results -/

/-- For a notified batch every publish was done by the thread that delivers the notification,
    strictly earlier on the logical clock: publish → notify is program order of one thread, hence
    happens-before; a callback runs in that thread, a signal is sent by it afterwards. -/
theorem results_visible_to_notified {ga : Nat → Int} (s : S) (h : Reach Cfg.fixed ga s) (b : Nat)
    (hn : 1 ≤ s.notified b) (j : Nat) (hj : j < s.nOf b) :
    s.status b j = .done ∧ s.pubBy b j = s.notBy b ∧ s.pubAt b j < s.notAt b := by
  have hi := reach_inv h
  have hn' := hi.n_cnt b
  split at hn'
  · next hc =>
    rcases hc with hc | hc
    · exact hi.i_fin b hc j hj
    · have hp := ((hi.i_w b 0 .done .done (by simp [hc, wExpect])).2 j hj).2 (Nat.zero_le _)
      have hf := hi.n_free b hc
      exact ⟨hp.1, by rw [hp.2 rfl, hf.1], hf.2 j hj⟩
  · omega

example : stB.pubBy 9 2 = .worker ∧ stB.notBy 9 = .worker ∧ stB.pubAt 9 2 < stB.notAt 9 ∧
    stB.pubAt 7 0 < stB.pubAt 7 2 ∧ stB.notAt 7 < stB.pubAt 9 0 := by
  decide +kernel

/-! ## progress -/

/-- No reachable state with pending work is terminal: some thread can take a step that is
    neither a new getaddrinfo_a call nor a spurious wake-up (so in particular a waiting resolver
    with a non-empty queue always has its wake-up signal still to come). -/
theorem no_deadlock {ga : Nat → Int} (s : S) (h : Reach Cfg.fixed ga s) (hp : Pending s) :
    ∃ t a s', a.isEnv = false ∧ Step Cfg.fixed ga s t a s' :=
  pending_enabled (reach_inv h) hp

example : Pending stA := Or.inr (Or.inl (by decide +kernel))

-- the resolver may serve queued requests in any order (the property does not pin FIFO): with 7 and
-- 9 queued, taking 9 first is an execution of the model
example : ∃ s, Reach Cfg.fixed gaEx s ∧ s.loc 9 = .worker ∧ s.loc 7 = .queued := by
  let l := subNowait 1 7 3 .thread true ++ subNowait 2 9 3 .signal false ++
    [(.worker, .wkAcquire), (.worker, .wkPop 9)]
  exact ⟨(run Cfg.fixed gaEx init l).getD init, run_reach' (l := l) (by decide +kernel), by decide +kernel⟩

/-- **Termination / eventually done.**  Let the submitters be the threads `< N`.  Then, from any
    reachable state and as long as the environment adds nothing (no new getaddrinfo_a call, no
    spurious wake-up):
    * every execution, under ANY scheduler, has at most `rank N s` steps — `rank` is a variant that
      every non-environment step of every thread strictly decreases (`rank_decreases`); so no
      fairness beyond "some enabled thread eventually runs" is needed, in particular weak fairness
      of the resolver and of each submitter suffices;
    * an execution that cannot be continued ends with nothing pending, every submitted batch
      finished, notified exactly once, every item resolved exactly once and final;
    * and such an execution exists. -/
theorem eventually_done {ga : Nat → Int} (N : Nat) (s : S) (h : Reach Cfg.fixed ga s)
    (hb : ∀ i, N ≤ i → s.spc i = .idle) :
    (∀ k s', Run ga s k s' → k ≤ rank N s) ∧
    (∀ k s', Run ga s k s' → (¬ ∃ t a s'', a.isEnv = false ∧ Step Cfg.fixed ga s' t a s'') →
       ¬ Pending s' ∧ ∀ b, s'.loc b ≠ .unused →
         s'.loc b = .finished ∧ s'.notified b = 1 ∧
         ∀ j, j < s'.nOf b → s'.status b j = .done ∧ s'.resolved b j = 1) ∧
    (∃ k s', Run ga s k s' ∧ ¬ Pending s') := by
  refine ⟨fun k s' hr => ?_, fun k s' hr hmax => ?_, run_to_quiescence N (rank N s) s (Nat.le_refl _) h hb⟩
  · have := (run_bounded hr hb).1; omega
  · have hr' := Run.reach hr h
    have hnp : ¬ Pending s' := fun hp => hmax (pending_enabled (reach_inv hr') hp)
    refine ⟨hnp, fun b hb' => ?_⟩
    have hf := (no_loss_no_dup s' hr').2.2.2 hnp b hb'
    have hn := notify_once_after_all s' hr' b
    exact ⟨hf, hn.2.2 hf, hn.2.1 (hn.2.2 hf)⟩

-- in stA (batch 7 half resolved, batch 9 queued, submitters 1 and 2) at most 16 more steps happen
example : rank 3 stA = 16 ∧ (∀ i, 3 ≤ i → stA.spc i = .idle) := by
  refine ⟨by decide +kernel, fun i hi => ?_⟩
  have e1 : i ≠ 1 := by omega
  have e2 : i ≠ 2 := by omega
  simp [stA, schedA, subNowait, run, stepFn, init, e1, e2, publish]

/-- The lazily created context exists at most once. -/
theorem one_context {ga : Nat → Int} (s : S) (h : Reach Cfg.fixed ga s) : s.nctx ≤ 1 := by
  rw [(reach_inv h).c_n]; split <;> omega

example : stA.nctx = 1 := by decide +kernel

/-! ## the tie: what an accepted trace means -/

/-- Every model state the trace validator (`Usual.C20.feed`, run by drv_c20 on the event traces of
    the real netdb.c) ever inspects is a reachable state of the model — the validator can only
    advance through `Walk.step`, i.e. through enabled `Step`s — so each theorem above holds of it.
    What is NOT proved: that the logged events are all the shared-memory effects of the C code
    (sampled schedules, C memory model: see the trusted base). -/
theorem validated_state_reachable {ga : Nat → Int} (v : V ga) :
    Reach Cfg.fixed ga v.m.s ∧ (∀ b j, v.m.s.resolved b j ≤ 1) ∧ (∀ b, v.m.s.notified b ≤ 1) ∧
    v.m.s.badRead = false :=
  ⟨(Walk.reach v.m), (no_loss_no_dup _ (Walk.reach v.m)).1, fun b => (notify_once_after_all _ (Walk.reach v.m) b).1,
   (no_loss_no_dup _ (Walk.reach v.m)).2.1⟩

-- a concrete trace fragment (the events of harness/C20/h.c for one GAI_WAIT batch of two items
-- with a SIGEV_THREAD callback) is accepted, and a notification before the last result is not
example : accepts gaEx [.begin 1 100 2 .wait .thread [0, 2], .gacall (.s 1) 100 0 0 1, .garet (.s 1) 100 0 0,
    .gacall (.s 1) 100 1 2 1, .garet (.s 1) 100 1 (-2), .notify (.s 1) 100 ['D', 'D'],
    .ret 1 100 0 ['D', 'D'], .final 1 100 0 0 1, .final 1 100 1 (-2) 1, .fin true] = true := by
  decide +kernel
example : accepts gaEx [.begin 1 100 2 .wait .thread [0, 2], .gacall (.s 1) 100 0 0 1, .garet (.s 1) 100 0 0,
    .notify (.s 1) 100 ['D', 'N']] = false := by
  decide +kernel

/-! ## the pinned code (`Cfg.orig`) violates the property: F13 -/

/-- memcpy of ONE pointer: with a batch of three the resolver reads list[1] uninitialised. -/
theorem orig_reads_uninitialised : ∃ s, Reach Cfg.orig gaEx s ∧ s.badRead = true := by
  let l := subNowait 1 7 3 .thread true ++
    [(.worker, .wkAcquire), (.worker, .wkPop 7), (.worker, .wkRelease), (.worker, .wkResolve), (.worker, .wkResolve)]
  exact ⟨(run Cfg.orig gaEx init l).getD init,
    run_reach' (l := l) (by decide +kernel), by decide +kernel⟩

/-- `_state` is not set at submission: after getaddrinfo_a has returned, gai_error is stale. -/
theorem orig_not_inprogress : ∃ s, Reach Cfg.orig gaEx s ∧ s.spc 1 = .idle ∧ s.loc 7 = .queued ∧
    s.status 7 0 = .notSub := by
  let l := subNowait 1 7 3 .thread true
  exact ⟨(run Cfg.orig gaEx init l).getD init,
    run_reach' (l := l) (by decide +kernel), by decide +kernel⟩

/-- unsynchronised `if (!ctx) ctx = create()`: two first-time submitters both create a context. -/
theorem orig_two_contexts : ∃ s, Reach Cfg.orig gaEx s ∧ s.nctx = 2 := by
  let l : List (Tid × Act) := [(.sub 1, .begin 7 3 .none .nowait (fun k => k)), (.sub 2, .begin 9 3 .none .nowait (fun k => k)),
    (.sub 1, .ctxAcquire), (.sub 2, .ctxAcquire), (.sub 1, .ctxCheck), (.sub 2, .ctxCheck),
    (.sub 1, .ctxMake), (.sub 2, .ctxMake)]
  exact ⟨(run Cfg.orig gaEx init l).getD init,
    run_reach' (l := l) (by decide +kernel), by decide +kernel⟩

end UsualProps.C20
