import UsualProofs.C16.Crc
import UsualProofs.C16.Sip
import UsualProofs.C16.L3
import UsualProofs.C16.XXH
import UsualProofs.C16.Spk
import UsualProofs.C16.SpkPub
import UsualProofs.C16.SipPaper
import UsualProofs.C16.L3Pub
import UsualProofs.C16.XXHPub
import Usual.C16.MemHash
import Usual.Gen.C16Consts
/-! # C16 — non-cryptographic hashes are pure, bounded and equal the published algorithms

Property theorems about the models in `lean/Usual/C16/` (which mirror
usual/hashing/{crc32,lookup3,siphash,spooky,xxhash,memhash}.c and are compared with the real code
by `harness/C16/h.c` on every run).

*Purity* on the model side holds by construction: every model is a Lean function of the byte
list (and seed/key) only — there is no address, alignment or surrounding memory it could depend
on.  That the C code behaves like these functions, and reads nothing outside `[data, data+len)`,
is what the guard-page / ASan differential run observes; it is not a theorem.

The specifications the models are proved equal to (`SipHashPaper`, `Lookup3Pub`, `XXH32Spec`,
`SpookyV2`) import nothing from the models: they are written from the publications (prose, index
form, rotation tables, constants in the publications' notation).  The constants found in the C
sources are regenerated into `Usual.Gen.C16Consts` on every run and proved equal to the
specifications' tables (`*_constants_ok`).

`example`s that evaluate a hash on a published test vector are **tests** (kernel-evaluated),
not proofs of equality with the publication; they are labelled `-- test vector`. -/
namespace UsualProps.C16
open Usual.C16

/-! ## CRC-32 -/

/-- Every entry of `crc_tab[]` as it stands in crc32.c today (regenerated into
`Usual.Gen.C16Crc` on every run) is the bit-level remainder of its index: eight steps of the
reflected division by 0xEDB88320, i.e. feeding the single byte `i` into a zero register. -/
theorem crc_table_ok :
    ∀ i : Fin 256, Usual.Gen.C16Crc.crcTab.getD i.val 0 = Crc32.bitwiseByte 0 (UInt8.ofNat i.val) := by
  intro i
  have h := UsualProofs.C16.Crc.tab_ok i
  unfold Crc32.tab at h
  rw [h]
  unfold Crc32.bitwiseByte
  have e : (0 : UInt32) ^^^ (UInt8.ofNat i.val).toUInt32 = UInt32.ofNat i.val := by
    apply UInt32.toNat_inj.mp
    have := i.isLt
    simp
    omega
  rw [e]
example : Usual.Gen.C16Crc.crcTab.getD 128 0 = 0xEDB88320 := by decide +kernel   -- the polynomial itself
example : Usual.Gen.C16Crc.crcTab.size = 256 := by decide +kernel

/-- The table-driven `calc_crc32` equals the bit-at-a-time definition of CRC-32/ISO-HDLC for
every byte string and every start value. -/
theorem crc_eq_bitwise (data : List UInt8) (init : UInt32) :
    Crc32.calcCrc32 data init = Crc32.crc32Bitwise data init := by
  unfold Crc32.calcCrc32 Crc32.crc32Bitwise
  rw [UsualProofs.C16.Crc.foldl_step_eq]
-- test vector: the CRC-32 check value, computed by the *bit-level spec* and by the table model
example : Crc32.crc32Bitwise [49, 50, 51, 52, 53, 54, 55, 56, 57] 0 = 0xCBF43926 := by decide +kernel
example : Crc32.calcCrc32 [49, 50, 51, 52, 53, 54, 55, 56, 57] 0 = 0xCBF43926 := by decide +kernel

/-- Incremental identity in the exact form of the API (`init` is a previous *result*, the
pre- and post-inversion are inside `calc_crc32`):
`calc_crc32(a‖b, init) = calc_crc32(b, calc_crc32(a, init))`, in particular for `init = 0`. -/
theorem crc_incremental (a b : List UInt8) (init : UInt32) :
    Crc32.calcCrc32 (a ++ b) init = Crc32.calcCrc32 b (Crc32.calcCrc32 a init) := by
  unfold Crc32.calcCrc32
  rw [List.foldl_append]
  congr 2
  rw [UInt32.xor_assoc]
  simp
example : Crc32.calcCrc32 ([49, 50, 51, 52] ++ [53, 54, 55, 56, 57]) 0
    = Crc32.calcCrc32 [53, 54, 55, 56, 57] (Crc32.calcCrc32 [49, 50, 51, 52] 0) :=
  crc_incremental _ _ 0
example : Crc32.calcCrc32 [53, 54, 55, 56, 57] (Crc32.calcCrc32 [49, 50, 51, 52] 0) = 0xCBF43926 := by
  decide +kernel

/-- the same identity for the specification (so chunked CRC-32/ISO-HDLC is well defined) -/
theorem crc_bitwise_incremental (a b : List UInt8) :
    Crc32.crc32Bitwise (a ++ b) 0 = Crc32.crc32Bitwise b (Crc32.crc32Bitwise a 0) := by
  rw [← crc_eq_bitwise, ← crc_eq_bitwise, ← crc_eq_bitwise, crc_incremental]
example : Crc32.crc32Bitwise ([1, 2] ++ [3]) 0 = Crc32.crc32Bitwise [3] (Crc32.crc32Bitwise [1, 2] 0) :=
  crc_bitwise_incremental _ _

/-! ## SipHash-2-4 -/

/-- The fall-through `switch (len & 7)` of siphash.c builds exactly the last word of the
paper's padding: the remaining `len mod 8` bytes, zero bytes, and the byte `len mod 256`,
read little-endian. -/
theorem sip_tail_eq_padding (len : Nat) (s : List UInt8) (h : s.length = len % 8) :
    SipHash.tail len s = le64 (s ++ zeros (7 - s.length) ++ [UInt8.ofNat (len % 256)]) :=
  UsualProofs.C16.Sip.tail_eq_padding len s h
example : SipHash.tail 259 [0xAA, 0xBB, 0xCC] = le64 [0xAA, 0xBB, 0xCC, 0, 0, 0, 0, 3] :=
  sip_tail_eq_padding 259 [0xAA, 0xBB, 0xCC] (by decide)

/-- `siphash24` = SipHash-2-4 of the paper (`SipHashPaper`: SipRound in the paper's statement
order with its rotation table, constants computed from "somepseudorandomlygeneratedbytes",
`c = 2` compression and `d = 4` finalisation rounds, padding to little-endian words), for every
message and key. -/
theorem siphash24_eq_paper (data : List UInt8) (k0 k1 : UInt64) :
    SipHash.siphash24 data k0 k1 = SipHashPaper.siphash24 k0 k1 data := by
  rw [UsualProofs.C16.Sip.siphash24_eq_spec, UsualProofs.C16.SipPaper.spec_eq_paper]
-- test vector: SipHash paper, Appendix A (key 00..0f, message 00..0e), by model and by spec
example : SipHash.siphash24 [0, 1, 2, 3, 4, 5, 6, 7, 8, 9, 10, 11, 12, 13, 14] 0x0706050403020100 0x0f0e0d0c0b0a0908
    = 0xa129ca6149be45e5 := by decide +kernel
example : SipHashPaper.siphash24 0x0706050403020100 0x0f0e0d0c0b0a0908 [0, 1, 2, 3, 4, 5, 6, 7, 8, 9, 10, 11, 12, 13, 14]
    = 0xa129ca6149be45e5 := by decide +kernel
example : SipHashPaper.siphash24 0x0706050403020100 0x0f0e0d0c0b0a0908 [] = 0x726fdb47dd0e0e31 := by
  decide +kernel
example : SipHash.siphash24 [0, 1, 2, 3, 4, 5, 6, 7] 0x0706050403020100 0x0f0e0d0c0b0a0908
    = 0x93f5f5799a932462 := by decide +kernel

/-- the constants of siphash.c as they stand today (regenerated on every run): rotation amounts per
state word, the four initialisation constants, the round counts and the finalisation constant
are the paper's -/
theorem siphash_constants_ok :
    Usual.Gen.C16Consts.sipRotByVar = SipHashPaper.rotByVar ∧
    Usual.Gen.C16Consts.sipInit = (List.range 4).map (fun n => (SipHashPaper.be64 SipHashPaper.initString n).toNat) ∧
    Usual.Gen.C16Consts.sipC = 2 ∧ Usual.Gen.C16Consts.sipD = 4 ∧
    Usual.Gen.C16Consts.sipFinalXor = 0xff := by decide +kernel
example : Usual.Gen.C16Consts.sipRotByVar.length = 4 := by decide

/-! ## lookup3 -/

/-- libusual copies the last 1..12 bytes into a zeroed 12-byte buffer and adds three words;
the published `hashlittle2` adds the bytes one by one in a fall-through `switch`.  They agree. -/
theorem lookup3_tail_eq_padding (s : Lookup3.St) (k : List UInt8) (h1 : 1 ≤ k.length)
    (h12 : k.length ≤ 12) :
    Lookup3.specTail k.length s k = Lookup3.addWords s k :=
  UsualProofs.C16.L3.tail_eq_padding s k h1 h12
example : Lookup3.specTail 5 (1, 2, 3) [10, 20, 30, 40, 50] = Lookup3.addWords (1, 2, 3) [10, 20, 30, 40, 50] :=
  lookup3_tail_eq_padding (1, 2, 3) [10, 20, 30, 40, 50] (by decide) (by decide)

/-- `hash_lookup3` = Jenkins' `hashlittle2` with both seeds zero (`*pb` high, `*pc` low), for
every input, against `Lookup3Pub`: `mix`/`final` by their published rotation schedules in index
form, blocks and tail byte by byte. -/
theorem hash_lookup3_eq_hashlittle2 (data : List UInt8) :
    Lookup3.hashLookup3 data = Lookup3Pub.hashlittle2 data := by
  rw [UsualProofs.C16.L3.hashLookup3_eq_spec, UsualProofs.C16.L3Pub.spec_eq_pub]
-- test vector: lookup3.c driver5: hashlittle("Four score and seven years ago", 30, 0) = 0x17770551,
-- hashlittle2 with zero seeds gives c = 17770551, b = ce7226e6; empty input gives deadbeef deadbeef
example : Lookup3.hashLookup3 [70, 111, 117, 114, 32, 115, 99, 111, 114, 101, 32, 97, 110, 100, 32, 115, 101, 118, 101, 110, 32, 121, 101, 97, 114, 115, 32, 97, 103, 111] = 0xce7226e617770551 := by decide +kernel
example : Lookup3Pub.hashlittle2 [70, 111, 117, 114, 32, 115, 99, 111, 114, 101, 32, 97, 110, 100, 32, 115, 101, 118, 101, 110, 32, 121, 101, 97, 114, 115, 32, 97, 103, 111] = 0xce7226e617770551 := by decide +kernel
example : Lookup3Pub.hashlittle2 [] = 0xdeadbeefdeadbeef := by decide +kernel

/-- the rotation schedules and the start constant in lookup3.c today are the published ones -/
theorem lookup3_constants_ok :
    Usual.Gen.C16Consts.l3MixRot = Lookup3Pub.mixRot ∧
    Usual.Gen.C16Consts.l3FinalRot = Lookup3Pub.finalRot ∧
    Usual.Gen.C16Consts.l3Init = Lookup3Pub.initConst.toNat := by decide +kernel
example : Usual.Gen.C16Consts.l3MixRot.length = 6 ∧ Usual.Gen.C16Consts.l3FinalRot.length = 7 := by decide

/-! ## XXH32 -/

/-- `xxhash()` = XXH32 of the specification (`XXH32Spec`: hexadecimal primes, rotation and shift
tables, four independent lanes over the words `4i+j` of the whole 16-byte stripes, merge, length,
remaining words, remaining bytes, avalanche) — for every input and seed. -/
theorem xxh32_eq_spec (data : List UInt8) (seed : UInt32) :
    XXHash.xxh32 data seed = XXH32Spec.xxh32 data seed := by
  rw [UsualProofs.C16.XXH.xxh32_eq_spec, UsualProofs.C16.XXHPub.spec_eq_pub]
-- test vectors: XXH32 of "", "a", "abc", and of the 39-byte sanity string, seed 0
example : XXHash.xxh32 [] 0 = 0x02CC5D05 := by decide +kernel
example : XXHash.xxh32 [97] 0 = 0x550D7456 := by decide +kernel
example : XXHash.xxh32 [97, 98, 99] 0 = 0x32D153FF := by decide +kernel
example : XXHash.xxh32 [78, 111, 98, 111, 100, 121, 32, 105, 110, 115, 112, 101, 99, 116, 115, 32, 116, 104, 101, 32, 115, 112, 97, 109, 109, 105, 115, 104, 32, 114, 101, 112, 101, 116, 105, 116, 105, 111, 110] 0 = 0xE2293B2F := by decide +kernel
example : XXH32Spec.xxh32 [78, 111, 98, 111, 100, 121, 32, 105, 110, 115, 112, 101, 99, 116, 115, 32, 116, 104, 101, 32, 115, 112, 97, 109, 109, 105, 115, 104, 32, 114, 101, 112, 101, 116, 105, 116, 105, 111, 110] 0 = 0xE2293B2F := by decide +kernel
example : XXH32Spec.xxh32 [] 0 = 0x02CC5D05 := by decide +kernel

/-- primes, rotation amounts (in source order: four stripe rounds, merge, word step, byte step) and
avalanche shifts in xxhash.c today are those of the specification -/
theorem xxh32_constants_ok :
    Usual.Gen.C16Consts.xxhPrimes = XXH32Spec.primes.map (·.toNat) ∧
    Usual.Gen.C16Consts.xxhRot = List.replicate 4 XXH32Spec.roundRot ++ XXH32Spec.mergeRot
        ++ [XXH32Spec.wordRot, XXH32Spec.byteRot] ∧
    Usual.Gen.C16Consts.xxhShift = XXH32Spec.avalancheShift := by decide +kernel
example : Usual.Gen.C16Consts.xxhPrimes.length = 5 := by decide

/-! ## SpookyHash V2 -/

/-- The `switch (remainder)` at the end of `Short` (byte, 32-bit and 64-bit reads mixed, four
fall-through groups) adds exactly the two little-endian words of the last 1..15 bytes
zero-padded to 16 bytes; with nothing left it adds `sc_const` twice. -/
theorem spooky_short_tail_eq_padding (length : Nat) (s : Spooky.S4) (p : List UInt8)
    (h : p.length ≤ 15) :
    Spooky.shortTail length p.length s p =
      if p.length = 0 then
        { s with h2 := s.h2 + Spooky.sc, h3 := s.h3 + (UInt64.ofNat length <<< 56) + Spooky.sc }
      else
        { s with h2 := s.h2 + w64 p 0, h3 := s.h3 + (UInt64.ofNat length <<< 56) + w64 p 1 } :=
  UsualProofs.C16.Spk.shortTail_eq_padding length s p h
example : Spooky.shortTail 45 13 ⟨1, 2, 3, 4⟩ [1, 2, 3, 4, 5, 6, 7, 8, 9, 10, 11, 12, 13] =
    { (⟨1, 2, 3, 4⟩ : Spooky.S4) with
        h2 := (3 : UInt64) + w64 [1, 2, 3, 4, 5, 6, 7, 8, 9, 10, 11, 12, 13] 0,
        h3 := (4 : UInt64) + (UInt64.ofNat 45 <<< 56) + w64 [1, 2, 3, 4, 5, 6, 7, 8, 9, 10, 11, 12, 13] 1 } :=
  spooky_short_tail_eq_padding 45 ⟨1, 2, 3, 4⟩ [1, 2, 3, 4, 5, 6, 7, 8, 9, 10, 11, 12, 13] (by decide)

/-- the last block of the long path is the remainder, zero bytes, and its length in byte 95 -/
theorem spooky_last_block_eq_padding (rem : List UInt8) (h : rem.length ≤ 95) :
    Spooky.lastBlock rem = rem ++ zeros (95 - rem.length) ++ [UInt8.ofNat rem.length] :=
  UsualProofs.C16.Spk.lastBlock_eq_padding rem h
example : Spooky.lastBlock [7, 8, 9] = [7, 8, 9] ++ zeros 92 ++ [3] :=
  spooky_last_block_eq_padding [7, 8, 9] (by decide)

/-- **`spookyhash` = SpookyHash V2** (`SpookyV2.hash128`: the published Short / Mix / EndPartial /
End in array-index form with the published rotation tables, `sc_const`, 96-byte blocks, the
192-byte threshold, zero-padded tails), for every message and both seed words. -/
theorem spooky_eq_published (data : List UInt8) (h1 h2 : UInt64) :
    Spooky.spookyhash data h1 h2 = SpookyV2.hash128 data h1 h2 :=
  UsualProofs.C16.SpkPub.spookyhash_eq_published data h1 h2

/-- the rotation tables of the four mixing macros, `sc_const`, `sc_numVars`, `sc_blockSize` and
`sc_bufSize` in spooky.c today are the published ones -/
theorem spooky_constants_ok :
    Usual.Gen.C16Consts.spookyConst = SpookyV2.scConst.toNat ∧
    Usual.Gen.C16Consts.spookyNumVars = SpookyV2.numVars ∧
    Usual.Gen.C16Consts.spookyBlockSize = SpookyV2.blockSize ∧
    Usual.Gen.C16Consts.spookyBufSize = SpookyV2.bufSize ∧
    Usual.Gen.C16Consts.spookyMixRot = SpookyV2.mixRot ∧
    Usual.Gen.C16Consts.spookyEndPartialRot = SpookyV2.endPartialRot ∧
    Usual.Gen.C16Consts.spookyShortMixRot = SpookyV2.shortMixRot ∧
    Usual.Gen.C16Consts.spookyShortEndRot = SpookyV2.shortEndRot := by decide +kernel
example : Usual.Gen.C16Consts.spookyMixRot.length = 12 ∧ Usual.Gen.C16Consts.spookyShortEndRot.length = 11 := by
  decide
-- test vectors: SpookyV2 TestResults (buf[i] = i+128, Hash32(buf, len, 0) = low half of hash1
-- with both seeds 0), lengths 0, 3, 31, 63
example : (Spooky.spookyhash [] 0 0).1.toUInt32 = 0x6bf50919 := by decide +kernel
example : (Spooky.spookyhash [128, 129, 130] 0 0).1.toUInt32 = 0x35bc5fbf := by decide +kernel
example : (Spooky.spookyhash [128, 129, 130, 131, 132, 133, 134, 135, 136, 137, 138, 139, 140, 141, 142, 143, 144, 145, 146, 147, 148, 149, 150, 151, 152, 153, 154, 155, 156, 157, 158] 0 0).1.toUInt32 = 0x027bca7c := by decide +kernel
example : (Spooky.spookyhash [128, 129, 130, 131, 132, 133, 134, 135, 136, 137, 138, 139, 140, 141, 142, 143, 144, 145, 146, 147, 148, 149, 150, 151, 152, 153, 154, 155, 156, 157, 158, 159, 160, 161, 162, 163, 164, 165, 166, 167, 168, 169, 170, 171, 172, 173, 174, 175, 176, 177, 178, 179, 180, 181, 182, 183, 184, 185, 186, 187, 188, 189, 190] 0 0).1.toUInt32 = 0x09c1afb4 := by decide +kernel
-- the same vectors by the specification, and one long-path evaluation (200 bytes ≥ 192) on both
example : SpookyV2.hash32 [] 0 = 0x6bf50919 := by decide +kernel
example : SpookyV2.hash32 [128, 129, 130, 131, 132, 133, 134, 135, 136, 137, 138, 139, 140, 141, 142, 143, 144, 145, 146, 147, 148, 149, 150, 151, 152, 153, 154, 155, 156, 157, 158, 159, 160, 161, 162, 163, 164, 165, 166, 167, 168, 169, 170, 171, 172, 173, 174, 175, 176, 177, 178, 179, 180, 181, 182, 183, 184, 185, 186, 187, 188, 189, 190] 0 = 0x09c1afb4 := by decide +kernel
example : SpookyV2.hash128 (List.replicate 200 7) 1 2 = Spooky.spookyhash (List.replicate 200 7) 1 2 := by
  decide +kernel

/-! ## memhash_seed -/

/-- on a host with 64-bit pointers or longs `memhash_seed(data, len, seed)` is the low 32 bits
of the published SpookyHash V2 started from `(seed, 0)`; otherwise it is the specified XXH32 -/
theorem memhash_seed_def (data : List UInt8) (seed : UInt32) :
    MemHash.memhashSeed true data seed = (SpookyV2.hash128 data seed.toUInt64 0).1.toUInt32 ∧
    MemHash.memhashSeed false data seed = XXH32Spec.xxh32 data seed := by
  constructor
  · rw [← spooky_eq_published]; rfl
  · rw [← xxh32_eq_spec]; rfl
example : MemHash.memhashSeed true [128, 129, 130] 0 = 0x35bc5fbf := by decide +kernel
example : MemHash.memhashSeed false [97, 98, 99] 0 = 0x32D153FF := by decide +kernel

end UsualProps.C16
