/-! Property theorems for C16 (stub: not built yet). -/
