import UsualProofs.C01.CapOps
/-!
# C19 — talloc memory limit is a hard cap whose accounting never drifts

Theorems about the memlimit part of the executable talloc model (`Usual.C01`, shared with C01):
`.memlimit` chunk = `Obj` of `Kind.limit` with `{lmax, lcur}`, flags `useLim` / `hasLim`,
`applyLim` = `apply_memlimit(_marked)`, `walk` = `memlimit_walk`, `moveMemlimit`, `setLimit`.
`Cfg.fixed` is the code repaired by fixes/F14-talloc-memlimit-accounting.patch (+ F15); the
accounting of the code as pinned (`Cfg.old`) is refuted by the `…_old_counterexample`s, each a
history replayed on the real library by the correspondence run (corpus/C19/*.ops).

`acctOK : State → Bool` (lean/Usual/C01/Observe.lean) is THE accounting invariant: every
`.memlimit` chunk records exactly Σ (ALIGN(size) + sizeof header) over the chunks beneath its
context (the chunk itself excepted).  The driver evaluates it on every state of every run.
-/
namespace UsualProps.C19
open Usual.C01
set_option maxRecDepth 100000

/-- a limited context `1` (limit 10000) and an unlimited sibling `2` under a common top `0` -/
def setup : List Op :=
  [.alloc none 0 false false, .alloc (some 0) 0 false false, .alloc (some 0) 0 false false,
   .setLimit 1 10000 false]

/-- **hard_cap**: `talloc_size(ctx, n)` is admitted if and only if `n ≤ TALLOC_MAXLEN` and the
charge `ALIGN(n) + sizeof(struct THeader)` fits under EVERY limit `apply_memlimit` finds on the
way up from `ctx` (`limitsAbove`): a request that would exceed any enclosing limit fails. -/
theorem hard_cap (cfg : Cfg) (s : State) (ctx : Option Id) (n : Nat) :
    admits cfg s ctx n = true ↔
      n ≤ MAXLEN ∧ (limitsAbove cfg s.fuel s (orNull s ctx)).all (fits s (totalSize n)) = true :=
  admits_iff cfg s ctx n

example :
    let s := runOps Cfg.fixed {} setup
    limitsAbove Cfg.fixed s.fuel s (some 1) = [3] ∧ admits Cfg.fixed s (some 1) 9912 = true ∧
    admits Cfg.fixed s (some 1) 9913 = false := by decide

/-- **failed_request_changes_nothing** (refused by a limit): the call answers NULL and the
state — every object, every counter, the log — is identical. -/
theorem failed_request_changes_nothing (cfg : Cfg) (s : State) (parent : Option Id) (n : Nat)
    (fromCx fail : Bool) (h : admits cfg s parent n = false) :
    step cfg s (.alloc parent n fromCx fail) = (s, -1) :=
  alloc_refused_unchanged cfg s parent n fromCx fail h

example : admits Cfg.fixed (runOps Cfg.fixed {} setup) (some 1) 20000 = false := by decide

/-- **failed_request_changes_nothing** (the request fits but the underlying allocator fails):
the charge taken before the allocation is rolled back — NULL, and every object including every
memlimit counter is as before (in every well-formed state with acyclic holder graph). -/
theorem failed_allocation_changes_nothing (s : State) (rk : Nat → Nat) (hwf : wfOK s = true)
    (hrk : Ranked rk s) (parent : Option Id) (n : Nat) (fromCx : Bool) :
    (step Cfg.fixed s (.alloc parent n fromCx true)).2 = -1 ∧
    (step Cfg.fixed s (.alloc parent n fromCx true)).1.nullCtx = s.nullCtx ∧
    ∀ j : Nat, (step Cfg.fixed s (.alloc parent n fromCx true)).1.get j = s.get j :=
  alloc_failure_unchanged Cfg.fixed s ((wfOK_iff s).1 hwf) hrk parent n fromCx

example :
    let s := runOps Cfg.fixed {} setup
    (step Cfg.fixed s (.alloc (some 1) 100 false true)).1.heap = s.heap := by decide

/-! ## the accounting of the code as pinned drifts (F14) -/

/-- alloc under the limit, steal out: the header's 88 bytes stay charged for ever — the same
configuration (empty limited context) admits 9912 bytes before and 9824 after. -/
theorem no_drift_old_counterexample :
    maxAdmissible Cfg.old (runOps Cfg.old {} setup) (some 1) = some 9912 ∧
    maxAdmissible Cfg.old (runOps Cfg.old {} (setup ++ [.alloc (some 1) 1000 false false, .steal (some 2) 4]))
      (some 1) = some 9824 := by decide

/-- the repaired code gives the headroom back -/
example :
    maxAdmissible Cfg.fixed (runOps Cfg.fixed {} (setup ++ [.alloc (some 1) 1000 false false, .steal (some 2) 4]))
      (some 1) = some 9912 := by decide

/-- the accounting invariant is false for the code as pinned … -/
theorem cur_eq_charge_old_counterexample :
    acctOK (runOps Cfg.old {} (setup ++ [.alloc (some 1) 1000 false false, .steal (some 2) 4])) = false := by
  decide

/-- … also by realloc (charged `Δsize`, released `ALIGN(size)+header`) … -/
theorem realloc_units_old_counterexample :
    acctOK (runOps Cfg.old {} (setup ++ [.alloc (some 1) 16 false false, .realloc (some 1) 4 9 false])) = false := by
  decide

/-- … a limit set on a context with a child does not see that child, and allocations below the
child are not capped at all (100000 bytes under a limit of 2000) … -/
theorem hard_cap_old_counterexample :
    let s := runOps Cfg.old {} [.alloc none 0 false false, .alloc (some 0) 0 false false,
      .alloc (some 1) 1000 false false, .setLimit 1 2000 false]
    acctOK s = false ∧ admits Cfg.old s (some 2) 100000 = true ∧ admits Cfg.fixed s (some 1) 100000 = false := by
  decide

/-- … freeing an inner limited context leaves its charge in the outer limit … -/
theorem nested_free_old_counterexample :
    acctOK (runOps Cfg.old {} [.alloc none 0 false false, .alloc (some 0) 0 false false,
      .setLimit 1 100000 false, .alloc (some 1) 0 false false, .setLimit 3 50000 false,
      .alloc (some 3) 1000 false false, .free 3]) = false := by decide

/-- … and an object promoted to a referencing context outside the limit stays charged. -/
theorem moved_in_charge_released_old_counterexample :
    acctOK (runOps Cfg.old {} (setup ++ [.alloc (some 1) 0 false false, .alloc (some 4) 1000 false false,
      .reference (some 2) 5 false, .free 4])) = false := by decide

/-- the repaired code keeps the invariant on all these histories -/
example :
    acctOK (runOps Cfg.fixed {} (setup ++ [.alloc (some 1) 1000 false false, .steal (some 2) 4])) = true ∧
    acctOK (runOps Cfg.fixed {} (setup ++ [.alloc (some 1) 16 false false, .realloc (some 1) 4 9 false])) = true ∧
    acctOK (runOps Cfg.fixed {} [.alloc none 0 false false, .alloc (some 0) 0 false false,
      .setLimit 1 100000 false, .alloc (some 1) 0 false false, .setLimit 3 50000 false,
      .alloc (some 3) 1000 false false, .free 3]) = true ∧
    acctOK (runOps Cfg.fixed {} (setup ++ [.alloc (some 1) 0 false false, .alloc (some 4) 1000 false false,
      .reference (some 2) 5 false, .free 4])) = true := by decide

end UsualProps.C19
