import UsualProofs.C01.MoveDelta
import UsualProofs.C01.LiftThm
import UsualProofs.C01.StepStuck
import UsualProofs.C01.StepFuel
/-!
# C19 — talloc memory limit is a hard cap whose accounting never drifts

Theorems about the memlimit part of the executable talloc model (`Usual.C01`, shared with C01):
`.memlimit` chunk = `Obj` of `Kind.limit` with `{lmax, lcur}`, flags `useLim` / `hasLim`,
`applyLim` = `apply_memlimit(_marked)`, `walk` = `memlimit_walk`, `moveMemlimit`, `setLimit`.
`Cfg.fixed` is the code repaired by fixes/F14-talloc-memlimit-accounting.patch (+ F15); the
accounting of the code as pinned (`Cfg.old`) is refuted by the `…_old_counterexample`s, each a
history replayed on the real library by the correspondence run (corpus/C19/*.ops).

`acctOK : State → Bool` (lean/Usual/C01/Observe.lean) is THE accounting invariant: every
`.memlimit` chunk records exactly Σ (ALIGN(size) + sizeof header) over the chunks beneath its
context (the chunk itself excepted).  The driver evaluates it on every state of every run.
Its Prop-level twin is `AcctInv` (UsualProofs/C01/Acct.lean): `lb.lcur = chargeUnder s ctx l`
with `chargeUnder s ctx l = Σ x < heap.length, if x ≠ l ∧ Anc s ctx x then totalSize (size x) else 0`
and `Anc s a x` = "`a` is a proper ancestor of `x` along primary-parent pointers";
`acctOK_iff` proves the two equal in every well-formed state with acyclic holder graph.

`Reach` = states reached from the empty heap by public operations whose arguments are live user
objects and that keep the holder graph acyclic (`OpOK`, as in C01; every operation,
`talloc_disable_null_tracking` included).  The two ghost flags of the model (fuel exhausted, loop
cursor lost) are proved never to be set (C01 `fuel_suffices`, `no_stuck`), so `Reach` carries no
premise about them.
-/
namespace UsualProps.C19
open Usual.C01
set_option maxRecDepth 100000

/-- a limited context `1` (limit 10000) and an unlimited sibling `2` under a common top `0` -/
def setup : List Op :=
  [.alloc none 0 false false, .alloc (some 0) 0 false false, .alloc (some 0) 0 false false,
   .setLimit 1 10000 false]

/-- **hard_cap**: `talloc_size(ctx, n)` is admitted if and only if `n ≤ TALLOC_MAXLEN` and the
charge `ALIGN(n) + sizeof(struct THeader)` fits under EVERY limit `apply_memlimit` finds on the
way up from `ctx` (`limitsAbove`): a request that would exceed any enclosing limit fails. -/
theorem hard_cap (cfg : Cfg) (s : State) (ctx : Option Id) (n : Nat) :
    admits cfg s ctx n = true ↔
      n ≤ MAXLEN ∧ (limitsAbove cfg s.fuel s (orNull s ctx)).all (fits s (totalSize n)) = true :=
  admits_iff cfg s ctx n

example :
    let s := runOps Cfg.fixed {} setup
    limitsAbove Cfg.fixed s.fuel s (some 1) = [3] ∧ admits Cfg.fixed s (some 1) 9912 = true ∧
    admits Cfg.fixed s (some 1) 9913 = false := by decide

/-- **failed_request_changes_nothing** (refused by a limit): the call answers NULL and the
state — every object, every counter, the log — is identical. -/
theorem failed_request_changes_nothing (cfg : Cfg) (s : State) (parent : Option Id) (n : Nat)
    (fromCx fail : Bool) (h : admits cfg s parent n = false) :
    step cfg s (.alloc parent n fromCx fail) = (s, -1) :=
  alloc_refused_unchanged cfg s parent n fromCx fail h

example : admits Cfg.fixed (runOps Cfg.fixed {} setup) (some 1) 20000 = false := by decide

/-- **failed_request_changes_nothing** (the request fits but the underlying allocator fails):
the charge taken before the allocation is rolled back — NULL, and every object including every
memlimit counter is as before (in every well-formed state with acyclic holder graph). -/
theorem failed_allocation_changes_nothing (s : State) (rk : Nat → Nat) (hwf : wfOK s = true)
    (hrk : Ranked rk s) (parent : Option Id) (n : Nat) (fromCx : Bool) :
    (step Cfg.fixed s (.alloc parent n fromCx true)).2 = -1 ∧
    (step Cfg.fixed s (.alloc parent n fromCx true)).1.nullCtx = s.nullCtx ∧
    ∀ j : Nat, (step Cfg.fixed s (.alloc parent n fromCx true)).1.get j = s.get j :=
  alloc_failure_unchanged Cfg.fixed s ((wfOK_iff s).1 hwf) hrk parent n fromCx

example :
    let s := runOps Cfg.fixed {} setup
    (step Cfg.fixed s (.alloc (some 1) 100 false true)).1.heap = s.heap := by decide

/-! ## the accounting invariant of the repaired code -/

/-- states reachable by operations inside the quantifier -/
inductive Reach : State → Prop
  | init : Reach {}
  | step (s : State) (op : Op) (rk : Nat → Nat) : Reach s → Ranked rk s → OpOK rk s op →
      Reach (step Cfg.fixed s op).1

/-- what the induction over operation lists carries: structure, acyclicity, accounting, flags -/
theorem reach_inv (s : State) (h : Reach s) :
    WF s ∧ (∃ rk, Ranked rk s) ∧ AcctInv s ∧ FlagsInv s ∧ s.stuck = false ∧ s.oof = false := by
  induction h with
  | init => exact ⟨wf_empty, ⟨fun _ => 0, ranked_empty _⟩, af_empty.1, af_empty.2, rfl, rfl⟩
  | step s op rk _ hrk hop ih =>
    obtain ⟨w, -, ac, fl, hst, hoo⟩ := ih
    have hoof := step_oof Cfg.fixed rfl op w hrk hop hst hoo
    have hstuck := step_stuck Cfg.fixed rfl op w hrk hop hst hoof
    obtain ⟨h1, h2⟩ := step_wf Cfg.fixed rfl op w hrk hop hoof hstuck
    obtain ⟨h3, h4⟩ := step_acct op w hrk ⟨ac, fl⟩ hop hoof hstuck
    exact ⟨h1, h2, h3, h4, hstuck, hoof⟩

/-- **cur_eq_charge** — THE accounting invariant, for every reachable state of the repaired
code: every `.memlimit` chunk `l` of a context `ctx` records exactly the charge
`ALIGN(size) + sizeof(struct THeader)` of every chunk beneath `ctx` (user objects, TRef chunks,
nested `.memlimit` chunks; `l` itself excepted) — under talloc_size / talloc_from_cx (also
refused or failing), talloc_free with refusing destructors and `throw_child`, talloc_unlink
with promotion to a referencing context, talloc_free_children, talloc_reference,
talloc_steal / talloc_reparent, talloc_realloc (grow, shrink, failing, size 0),
talloc_set_destructor, talloc_set_memlimit (new, re-configured on a populated context, lifted,
nested) and talloc_enable / talloc_disable_null_tracking.  Both forms: the Bool the driver evaluates, and the
explicit sum. -/
theorem cur_eq_charge (s : State) (h : Reach s) :
    acctOK s = true ∧
    ∀ (l : Nat) (lb : Obj) (ctx : Nat), s.get l = some lb → lb.kind = .limit → lb.parent = some ctx →
      lb.lcur = chargeUnder s ctx l := by
  obtain ⟨w, ⟨rk, wr⟩, ac, -⟩ := reach_inv s h
  exact ⟨(acctOK_iff w.toWFp.tree wr).2 ac, ac⟩

/-- non-vacuity: nested limits (object 1: 100000, object 2 inside it: 5000, set when 2 already
has a child), realloc, a reference from outside the limits, then `talloc_free(2)`: object 4 is
promoted to the referencing context 6 outside both limits.  Before the free the outer counter
is 152 + 104 + 96 = 352 (object 2, the inner `.memlimit` chunk, object 4) and the inner one 96;
afterwards nothing is beneath 1.  Ghost flags stay clear. -/
example :
    let ops : List Op := [.alloc none 0 false false, .alloc (some 0) 100 false false,
      .alloc (some 1) 50 false false, .setLimit 1 100000 false, .alloc (some 2) 7 false false,
      .setLimit 2 5000 false, .realloc (some 1) 2 61 false, .alloc (some 0) 0 false false,
      .reference (some 6) 4 false, .setDtor 4 (.refuse 1)]
    let s0 := runOps Cfg.fixed {} ops
    let s := (step Cfg.fixed s0 (.free 2)).1
    acctOK s0 = true ∧ (s0.get 3).map (·.lcur) = some 352 ∧ (s0.get 5).map (·.lcur) = some 96 ∧
    acctOK s = true ∧ s.oof = false ∧ s.stuck = false ∧
    (s.get 3).map (·.lcur) = some 0 ∧ s.live 4 = true ∧ s.live 2 = false ∧
    (s.get 4).map (·.parent) = some (some 6) := by decide

/-- non-vacuity: a child whose destructor refuses survives `talloc_free` of its limited parent:
`throw_child` hands it to the grandparent, outside the limit; the limit of the grandparent
(object 0: 50000) keeps counting it -/
example :
    let s := runOps Cfg.fixed {} [.alloc none 0 false false, .setLimit 0 50000 false,
      .alloc (some 0) 0 false false, .setLimit 2 10000 false, .alloc (some 2) 1000 false false,
      .setDtor 4 (.refuse 1), .free 2]
    acctOK s = true ∧ s.live 4 = true ∧ s.live 2 = false ∧ (s.get 4).map (·.parent) = some (some 0) ∧
    (s.get 1).map (·.lcur) = some 1088 := by decide

/-- **no_drift**: two reachable states with the same tree — same objects, parents, sizes, flags
and limits, whatever their histories (`absState` blanks exactly the counters and the
destructor scripts) — admit exactly the same requests under every context.  Headroom is a
function of what is beneath the limit now; nothing leaks and nothing is forgotten. -/
theorem no_drift (s₁ s₂ : State) (h₁ : Reach s₁) (h₂ : Reach s₂) (habs : absState s₁ = absState s₂)
    (ctx : Option Id) (n : Nat) : admits Cfg.fixed s₁ ctx n = admits Cfg.fixed s₂ ctx n := by
  obtain ⟨w, ⟨rk, wr⟩, ac, -⟩ := reach_inv s₂ h₂
  obtain ⟨-, -, ac', -⟩ := reach_inv s₁ h₁
  exact admits_absEq (rk := rk) (rk' := rk) (absEq_of_absState_eq habs) w.toWFp.tree wr ac ac' ctx n

/-- non-vacuity of `no_drift`: a limited context that has seen an allocation and a realloc of
the same final size ends in the same tree as one that allocated that size at once -/
example :
    absState (runOps Cfg.fixed {} (setup ++ [.alloc (some 1) 10 false false, .realloc (some 1) 4 500 false])) =
    absState (runOps Cfg.fixed {} (setup ++ [.alloc (some 1) 500 false false])) := by decide

open Classical in
/-- **moved_in_charge_released** (before/after form): `talloc_steal(newp, o)` on a reachable
state.  For every `.memlimit` chunk `l` of a context `ctx` outside the subtree of `o`, with
`subCharge s o` = Σ `ALIGN(size) + sizeof(header)` over `o` and everything beneath it:

  cur_after + (if ctx was above o before then subCharge else 0)
    = cur_before + (if ctx is above o after then subCharge else 0)

— a limit that `o` leaves is released by exactly the charge of the moved subtree, a limit that
`o` enters is charged exactly that, a limit above both places (or neither) is unchanged; the
amount is the same `ALIGN(size) + header` per chunk that allocation charged.  (Limits inside the
moved subtree keep their counters: `chargeUnder_move_inside`.)  The same equation holds between
any two reachable states that differ only in where one object hangs (`acct_move_delta`), which
covers talloc_reparent, the promotion to a referencing context and `throw_child`. -/
theorem moved_in_charge_released (s : State) (h : Reach s) (rk : Nat → Nat) (hrk : Ranked rk s)
    (newp : Option Id) (o : Nat) (hop : OpOK rk s (.steal newp o))
    (l : Nat) (lb lb' : Obj) (ctx : Nat) (hl : s.get l = some lb) (hk : lb.kind = .limit)
    (hp : lb.parent = some ctx) (hl' : (step Cfg.fixed s (.steal newp o)).1.get l = some lb')
    (hctx : ¬ InSub s o ctx) (hlo : ¬ InSub s o l) :
    lb'.lcur + (if Anc s ctx o then subCharge s o else 0) =
      lb.lcur + (if Anc (step Cfg.fixed s (.steal newp o)).1 ctx o then subCharge s o else 0) := by
  obtain ⟨w, -, ac, -⟩ := reach_inv s h
  obtain ⟨-, -, ac', -⟩ := reach_inv _ (Reach.step s _ rk h hrk hop)
  obtain ⟨m, wr'⟩ := steal_movedRel Cfg.fixed w hrk newp o hop.1 hop.2.1 hop.2.2
  exact acct_move_delta m hrk wr' ac ac' l lb lb' ctx hl hk hp hl' hctx hlo

open Classical in
/-- the same for any two reachable states that differ only in where `t` hangs -/
theorem moved_in_charge_released_general (s s' : State) (h : Reach s) (h' : Reach s') (t : Nat)
    (rk : Nat → Nat) (hrk : Ranked rk s) (hrk' : Ranked rk s') (m : MovedRel s s' t)
    (l : Nat) (lb lb' : Obj) (ctx : Nat) (hl : s.get l = some lb) (hk : lb.kind = .limit)
    (hp : lb.parent = some ctx) (hl' : s'.get l = some lb') (hctx : ¬ InSub s t ctx) (hlo : ¬ InSub s t l) :
    lb'.lcur + (if Anc s ctx t then subCharge s t else 0) =
      lb.lcur + (if Anc s' ctx t then subCharge s t else 0) :=
  acct_move_delta m hrk hrk' (reach_inv s h).2.2.1 (reach_inv s' h').2.2.1 l lb lb' ctx hl hk hp hl' hctx hlo

/-- steal out releases `ALIGN(1000)+88 = 1088`, steal back in charges it again -/
example :
    let s := runOps Cfg.fixed {} (setup ++ [.alloc (some 1) 1000 false false])
    (s.get 3).map (·.lcur) = some 1088 ∧
    ((step Cfg.fixed s (.steal (some 2) 4)).1.get 3).map (·.lcur) = some 0 ∧
    ((runOps Cfg.fixed s [.steal (some 2) 4, .steal (some 1) 4]).get 3).map (·.lcur) = some 1088 := by decide

/-- **limit_zero_lifts**: `talloc_set_memlimit(o, 0)` on a reachable state answers 0; afterwards
`o` carries no HAS flag and no `.memlimit` chunk hangs under it, so `apply_memlimit` passes `o`
without a check (only limits of proper ancestors remain in force), and the accounting of those
is exact (the released chunk is un-charged; `moved_in_charge_released` applies). -/
theorem limit_zero_lifts (s : State) (h : Reach s) (o : Nat) (fail : Bool)
    (ho : ∃ ob, s.get o = some ob ∧ ob.kind = .plain ∧ s.nullCtx ≠ some o) :
    (step Cfg.fixed s (.setLimit o 0 fail)).2 = 0 ∧
    (∃ ob', (step Cfg.fixed s (.setLimit o 0 fail)).1.get o = some ob' ∧ ob'.hasLim = false ∧
      ∀ f, limitsAbove Cfg.fixed (f + 1) (step Cfg.fixed s (.setLimit o 0 fail)).1 (some o) =
        if ob'.useLim then limitsAbove Cfg.fixed f (step Cfg.fixed s (.setLimit o 0 fail)).1 ob'.parent else []) ∧
    (∀ (l : Nat) lb, (step Cfg.fixed s (.setLimit o 0 fail)).1.get l = some lb → lb.kind = .limit →
      lb.parent ≠ some o) := by
  obtain ⟨w, ⟨rk, wr⟩, -, fl, -, -⟩ := reach_inv s h
  obtain ⟨h1, ⟨ob', h2, h3, -⟩, h4⟩ := setLimit_lift_spec Cfg.fixed w wr fl o fail ho
  simp only [step]
  exact ⟨h1, ⟨ob', h2, h3, fun f => limitsAbove_no_limit Cfg.fixed f _ o ob' h2 h3⟩, h4⟩

/-- a context with limit 10000 refuses 20000 bytes; after lifting the limit it admits them -/
example :
    let s := runOps Cfg.fixed {} setup
    admits Cfg.fixed s (some 1) 20000 = false ∧
    admits Cfg.fixed (step Cfg.fixed s (.setLimit 1 0 false)).1 (some 1) 20000 = true := by decide

/-! ## the accounting of the code as pinned drifts (F14) -/

/-- alloc under the limit, steal out: the header's 88 bytes stay charged for ever — the same
configuration (empty limited context) admits 9912 bytes before and 9824 after. -/
theorem no_drift_old_counterexample :
    maxAdmissible Cfg.old (runOps Cfg.old {} setup) (some 1) = some 9912 ∧
    maxAdmissible Cfg.old (runOps Cfg.old {} (setup ++ [.alloc (some 1) 1000 false false, .steal (some 2) 4]))
      (some 1) = some 9824 := by decide

/-- the repaired code gives the headroom back -/
example :
    maxAdmissible Cfg.fixed (runOps Cfg.fixed {} (setup ++ [.alloc (some 1) 1000 false false, .steal (some 2) 4]))
      (some 1) = some 9912 := by decide

/-- the accounting invariant is false for the code as pinned … -/
theorem cur_eq_charge_old_counterexample :
    acctOK (runOps Cfg.old {} (setup ++ [.alloc (some 1) 1000 false false, .steal (some 2) 4])) = false := by
  decide

/-- … also by realloc (charged `Δsize`, released `ALIGN(size)+header`) … -/
theorem realloc_units_old_counterexample :
    acctOK (runOps Cfg.old {} (setup ++ [.alloc (some 1) 16 false false, .realloc (some 1) 4 9 false])) = false := by
  decide

/-- … a limit set on a context with a child does not see that child, and allocations below the
child are not capped at all (100000 bytes under a limit of 2000) … -/
theorem hard_cap_old_counterexample :
    let s := runOps Cfg.old {} [.alloc none 0 false false, .alloc (some 0) 0 false false,
      .alloc (some 1) 1000 false false, .setLimit 1 2000 false]
    acctOK s = false ∧ admits Cfg.old s (some 2) 100000 = true ∧ admits Cfg.fixed s (some 1) 100000 = false := by
  decide

/-- … freeing an inner limited context leaves its charge in the outer limit … -/
theorem nested_free_old_counterexample :
    acctOK (runOps Cfg.old {} [.alloc none 0 false false, .alloc (some 0) 0 false false,
      .setLimit 1 100000 false, .alloc (some 1) 0 false false, .setLimit 3 50000 false,
      .alloc (some 3) 1000 false false, .free 3]) = false := by decide

/-- … and an object promoted to a referencing context outside the limit stays charged. -/
theorem moved_in_charge_released_old_counterexample :
    acctOK (runOps Cfg.old {} (setup ++ [.alloc (some 1) 0 false false, .alloc (some 4) 1000 false false,
      .reference (some 2) 5 false, .free 4])) = false := by decide

/-- the repaired code keeps the invariant on all these histories -/
example :
    acctOK (runOps Cfg.fixed {} (setup ++ [.alloc (some 1) 1000 false false, .steal (some 2) 4])) = true ∧
    acctOK (runOps Cfg.fixed {} (setup ++ [.alloc (some 1) 16 false false, .realloc (some 1) 4 9 false])) = true ∧
    acctOK (runOps Cfg.fixed {} [.alloc none 0 false false, .alloc (some 0) 0 false false,
      .setLimit 1 100000 false, .alloc (some 1) 0 false false, .setLimit 3 50000 false,
      .alloc (some 3) 1000 false false, .free 3]) = true ∧
    acctOK (runOps Cfg.fixed {} (setup ++ [.alloc (some 1) 0 false false, .alloc (some 4) 1000 false false,
      .reference (some 2) 5 false, .free 4])) = true := by decide

end UsualProps.C19
