/-! Property theorems for C19 (stub: not built yet). -/
