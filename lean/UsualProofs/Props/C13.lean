import UsualProofs.C13.Literal
import UsualProofs.C13.Fqident
import UsualProofs.C13.ArraySafe
import UsualProofs.C13.ArrayRT
/-!
# C13 — PostgreSQL quoting is injection-proof; array parsing is safe and exact

Models: `Usual.C13` (PgQuote = pgutil.c quoting with repair F07, PgArray = pg_parse_array with
repair F08, Gen.C13Kw = gperf tables regenerated from the tree on every run).
Specs: `Usual.C13.lexLiteral / lexIdent / lexFqIdent` (PostgreSQL lexer), `renderArray` +
`Elem.valid` (array text grammar), `litText / identText / fqText` (expected output, used for
"needed length").  A destination is `Dst`: `buf` (exactly `dstlen` cells) and `idx`, the log of
every index stored to; `cstr buf` is the C string at its start.
-/
namespace UsualProps.C13
open Usual.C13 UsualProofs.C13 Usual.Gen.C13Kw

/-! ## T-tie: the regenerated keyword tables -/

/-- every word of `pgutil_kwlookup.g` is found by the (modelled) gperf lookup over the tables
    regenerated from `pgutil_kwlookup.h`, and whatever the lookup finds is the word asked for
    and is on the list.  (`kw_found_all`, `wordlist_sound` are `decide +kernel` on the tables.) -/
theorem kw_table_ok :
    (∀ w ∈ kwWords, kwLookup w = some w) ∧
    (∀ w s, kwLookup w = some s → s = w ∧ w ∈ kwWords) :=
  ⟨kw_found, kwLookup_eq⟩

example : kwLookup [115, 101, 108, 101, 99, 116] = some [115, 101, 108, 101, 99, 116] ∧
    kwLookup [115, 101, 108, 101, 99, 116, 115] = none := by decide

/-- `pg_is_reserved_word` decides membership in the reserved list -/
theorem reserved_iff (w : Bytes) : isReserved w = true ↔ w ∈ kwWords := isReserved_iff w

example : isReserved [117, 115, 101, 114] = true ∧ isReserved [117, 115, 101, 114, 115] = false := by decide

/-! ## Memory safety of the destination and termination -/

/-- `pg_quote_literal`: every store is inside the destination, for every source (also NULL)
    and every size, whether it returns true or false -/
theorem quote_bounds_literal (src : Option Bytes) (n : Nat) :
    ∀ i ∈ (quoteLiteral src n).2.idx, i < n := by
  cases src with
  | none => exact (quoteLiteral_null_spec n).1
  | some s => exact (quoteLiteral_spec s n).1

example : (quoteLiteral (some [97, 39, 92]) 8).2.idx = [6, 5, 4, 3, 2, 1, 0, 3, 2, 1, 0] ∧
    (quoteLiteral (some [97, 39, 92]) 8).1 = false := by decide

/-- `pg_quote_ident` (repaired): every store is inside the destination -/
theorem quote_bounds_ident (s : Bytes) (n : Nat) : ∀ i ∈ (quoteIdent s n).2.idx, i < n := by
  obtain ⟨⟨X, g⟩, _, _⟩ := quoteIdentAt_spec [] 0 n n rfl (by omega) s (Dst.new n) (Good.new n)
  exact g.idx

example : (quoteIdent [97, 34] 5).1 = false ∧ (quoteIdent [97, 34] 5).2.idx = [3, 2, 1, 0, 0] := by decide

/-- `pg_quote_fqident` (repaired): every store is inside the destination -/
theorem quote_bounds_fqident (s : Bytes) (n : Nat) (h0 : 0 ∉ s) :
    ∀ i ∈ (quoteFqident s n).2.idx, i < n := (quoteFqident_spec s n h0).1

example : (quoteFqident [97, 46, 34] 6).1 = false ∧ 4 ∈ (quoteFqident [97, 46, 34] 6).2.idx := by decide

/-- F7, the code at the pinned commit: `pg_quote_ident("a\"", dst, 5)` stores to `dst[5]`
    (and returns true) -/
theorem quote_ident_old_overflow :
    (quoteIdentOld [97, 34] 5).1 = true ∧ 5 ∈ (quoteIdentOld [97, 34] 5).2.idx := by decide

/-- whenever a quoting function returns true the destination holds a NUL-terminated string -/
theorem quote_terminated (s : Bytes) (n : Nat) (h0 : 0 ∉ s) :
    ((quoteLiteral (some s) n).1 = true → terminated (quoteLiteral (some s) n).2.buf = true) ∧
    ((quoteLiteral none n).1 = true → terminated (quoteLiteral none n).2.buf = true) ∧
    ((quoteIdent s n).1 = true → terminated (quoteIdent s n).2.buf = true) ∧
    ((quoteFqident s n).1 = true → terminated (quoteFqident s n).2.buf = true) := by
  refine ⟨?_, ?_, ?_, ?_⟩
  · intro h
    obtain ⟨T, hT⟩ := (quoteLiteral_spec s n).2.2 h
    exact terminated_of_prefix _ _ T hT
  · intro h
    obtain ⟨T, hT⟩ := (quoteLiteral_null_spec n).2.2 h
    exact terminated_of_prefix _ _ T hT
  · intro h
    obtain ⟨_, _, hb⟩ := quoteIdentAt_spec [] 0 n n rfl (by omega) s (Dst.new n) (Good.new n)
    obtain ⟨T, hT⟩ := hb h
    exact terminated_of_prefix _ _ T (by simpa [quoteIdent] using hT)
  · intro h
    obtain ⟨T, hT⟩ := (quoteFqident_spec s n h0).2.2 h
    exact terminated_of_prefix _ _ T hT

example : (quoteFqident [97, 46, 34] 10).1 = true ∧ terminated (quoteFqident [97, 46, 34] 10).2.buf = true := by decide

/-! ## Returns true exactly when the result fits -/

/-- `pg_quote_literal` returns true ⇔ text + NUL fit into `dstlen` -/
theorem fits_iff_literal (s : Bytes) (n : Nat) : (quoteLiteral (some s) n).1 = true ↔ litNeeded s ≤ n :=
  (quoteLiteral_spec s n).2.1

example : litNeeded [97, 39, 92] = 9 ∧ (quoteLiteral (some [97, 39, 92]) 9).1 = true ∧
    (quoteLiteral (some [97, 39, 92]) 8).1 = false := by decide

/-- `pg_quote_literal(dst, NULL, n)` returns true ⇔ `"NULL"` fits, and then stores exactly that -/
theorem literal_null (n : Nat) :
    ((quoteLiteral none n).1 = true ↔ 5 ≤ n) ∧
    ((quoteLiteral none n).1 = true → cstr (quoteLiteral none n).2.buf = [78, 85, 76, 76]) := by
  refine ⟨(quoteLiteral_null_spec n).2.1, ?_⟩
  intro h
  obtain ⟨T, hT⟩ := (quoteLiteral_null_spec n).2.2 h
  exact cstr_of_prefix _ _ T hT (by decide)

example : (quoteLiteral none 5).1 = true ∧ (quoteLiteral none 4).1 = false := by decide

/-- `pg_quote_ident` (repaired) returns true ⇔ text + NUL fit into `dstlen` -/
theorem fits_iff_ident (s : Bytes) (n : Nat) : (quoteIdent s n).1 = true ↔ identNeeded s ≤ n :=
  (quoteIdentAt_spec [] 0 n n rfl (by omega) s (Dst.new n) (Good.new n)).2.1

example : identNeeded [97, 34] = 6 ∧ (quoteIdent [97, 34] 6).1 = true ∧ (quoteIdent [97, 34] 5).1 = false := by decide

/-- `pg_quote_fqident` (repaired) returns true ⇔ text + NUL fit into `dstlen`, for schema parts
    shorter than its 128-byte `scmbuf` (longer ones are refused whatever `dstlen` is) -/
theorem fits_iff_fqident (s : Bytes) (n : Nat) (h0 : 0 ∉ s) (h128 : (fqParts s).1.length < 128) :
    (quoteFqident s n).1 = true ↔ fqNeeded s ≤ n := (quoteFqident_spec s n h0).2.1 h128

example : fqNeeded [97, 46, 34] = 7 ∧ (quoteFqident [97, 46, 34] 7).1 = true ∧
    (quoteFqident [97, 46, 34] 6).1 = false := by decide

/-! ## Injection safety: the output is one token that decodes to exactly the input -/

/-- LITERAL: if `pg_quote_literal` returns true, the C string in the destination is a single
    string constant (`'…'`, or `E'…'`) that the PostgreSQL lexer decodes to exactly `s`, with
    nothing left over — for every byte string without NUL and every destination size -/
theorem literal_roundtrip (s : Bytes) (n : Nat) (h0 : 0 ∉ s)
    (hok : (quoteLiteral (some s) n).1 = true) :
    lexLiteral (cstr (quoteLiteral (some s) n).2.buf) = some (s, []) := by
  obtain ⟨T, hT⟩ := (quoteLiteral_spec s n).2.2 hok
  rw [cstr_of_prefix _ _ T hT (litText_no_nul s h0)]
  exact lexLiteral_litText s

example : (quoteLiteral (some [39, 59, 92, 39]) 12).1 = true ∧
    cstr (quoteLiteral (some [39, 59, 92, 39]) 12).2.buf = [69, 39, 39, 39, 59, 92, 92, 39, 39, 39] ∧
    lexLiteral [69, 39, 39, 39, 59, 92, 92, 39, 39, 39] = some ([39, 59, 92, 39], []) := by decide

/-- IDENTIFIER: if `pg_quote_ident` returns true, the output is a single identifier token that
    the lexer decodes (case folding, reserved words, `""`) to exactly the non-empty input -/
theorem ident_roundtrip (s : Bytes) (n : Nat) (h0 : 0 ∉ s) (hne : s ≠ [])
    (hok : (quoteIdent s n).1 = true) :
    lexIdent (cstr (quoteIdent s n).2.buf) = some (s, []) := by
  obtain ⟨_, _, hb⟩ := quoteIdentAt_spec [] 0 n n rfl (by omega) s (Dst.new n) (Good.new n)
  obtain ⟨T, hT⟩ := hb hok
  have hT' : (quoteIdent s n).2.buf = identText s ++ 0 :: T := by simpa [quoteIdent] using hT
  rw [cstr_of_prefix _ _ T hT' (identText_no_nul s h0)]
  have := lexIdent_identText s [] hne restOk_nil
  simpa using this

example : (quoteIdent [117, 115, 101, 114] 10).1 = true ∧
    cstr (quoteIdent [117, 115, 101, 114] 10).2.buf = [34, 117, 115, 101, 114, 34] ∧
    lexIdent [34, 117, 115, 101, 114, 34] = some ([117, 115, 101, 114], []) ∧
    lexIdent [117, 115, 101, 114] = none := by decide

/-- an identifier that comes out without quotes is the input itself, is not a reserved word and
    lexes to itself -/
theorem bare_not_reserved (s : Bytes) (n : Nat) (h0 : 0 ∉ s) (hne : s ≠ [])
    (hok : (quoteIdent s n).1 = true)
    (hbare : (cstr (quoteIdent s n).2.buf).head? ≠ some cDQ) :
    cstr (quoteIdent s n).2.buf = s ∧ s ∉ kwWords ∧ isReserved s = false ∧
    lexIdent s = some (s, []) := by
  obtain ⟨_, _, hb⟩ := quoteIdentAt_spec [] 0 n n rfl (by omega) s (Dst.new n) (Good.new n)
  obtain ⟨T, hT⟩ := hb hok
  have hT' : (quoteIdent s n).2.buf = identText s ++ 0 :: T := by simpa [quoteIdent] using hT
  have hc := cstr_of_prefix _ _ T hT' (identText_no_nul s h0)
  rw [hc] at hbare
  have hbo : bareOk s = true := by
    apply Classical.byContradiction
    intro h
    have : bareOk s = false := by simpa using h
    rw [identText_quoted s this] at hbare
    simp at hbare
  have hit : identText s = s := by simp [identText, hbo]
  have hres : isReserved s = false := by
    simp only [bareOk, Bool.decide_and, Bool.decide_eq_true, Bool.and_eq_true, Bool.not_eq_eq_eq_not,
      Bool.not_true] at hbo
    simpa using hbo.2.2
  refine ⟨by rw [hc, hit], ?_, hres, ?_⟩
  · intro hm
    have := (isReserved_iff s).mpr hm
    rw [hres] at this; cases this
  · have := lexIdent_identText s [] hne restOk_nil
    rw [hit] at this
    simpa using this

example : (quoteIdent [117, 115, 101, 114, 115] 10).1 = true ∧
    cstr (quoteIdent [117, 115, 101, 114, 115] 10).2.buf = [117, 115, 101, 114, 115] := by decide

/-- the per-byte table of the unquoted path, in plain numbers: an identifier that comes out
    without quotes consists only of `a-z`, `0-9`, `_` (so in particular no backtick 0x60, no
    upper-case letter, no `$`, no high-bit byte) and starts with `a-z` or `_` -/
theorem bare_charset (s : Bytes) (n : Nat) (h0 : 0 ∉ s) (hne : s ≠ [])
    (hok : (quoteIdent s n).1 = true)
    (hbare : (cstr (quoteIdent s n).2.buf).head? ≠ some cDQ) :
    (∀ c ∈ s, (97 ≤ c ∧ c ≤ 122) ∨ c = 95 ∨ (48 ≤ c ∧ c ≤ 57)) ∧
    (∀ c, s.head? = some c → (97 ≤ c ∧ c ≤ 122) ∨ c = 95) := by
  obtain ⟨_, _, hb⟩ := quoteIdentAt_spec [] 0 n n rfl (by omega) s (Dst.new n) (Good.new n)
  obtain ⟨T, hT⟩ := hb hok
  have hT' : (quoteIdent s n).2.buf = identText s ++ 0 :: T := by simpa [quoteIdent] using hT
  have hc := cstr_of_prefix _ _ T hT' (identText_no_nul s h0)
  rw [hc] at hbare
  have hbo : bareOk s = true := by
    apply Classical.byContradiction
    intro h
    have : bareOk s = false := by simpa using h
    rw [identText_quoted s this] at hbare
    simp at hbare
  simp only [bareOk, Bool.decide_and, Bool.decide_eq_true, Bool.and_eq_true, Bool.not_eq_eq_eq_not,
    Bool.not_true] at hbo
  obtain ⟨hst, hall, _⟩ := hbo
  constructor
  · intro c hc
    have := List.all_eq_true.mp hall c hc
    simp only [idBody, idStart, Bool.or_eq_true, Bool.and_eq_true, decide_eq_true_eq] at this
    omega
  · intro c hc
    cases s with
    | nil => simp at hc
    | cons x r =>
      simp only [List.head?_cons, Option.some.injEq] at hc
      subst hc
      have hx : idStart x = true := by simpa using hst
      simp only [idStart, Bool.or_eq_true, Bool.and_eq_true, decide_eq_true_eq] at hx
      omega

example : (quoteIdent [97, 96, 98] 10).1 = true ∧
    cstr (quoteIdent [97, 96, 98] 10).2.buf = [34, 97, 96, 98, 34] ∧
    cstr (quoteIdent [97, 95, 57] 10).2.buf = [97, 95, 57] := by decide

/-- QUALIFIED NAME: if `pg_quote_fqident` returns true, the output is `identifier . identifier`
    decoding to (schema, name) — split at the first dot, schema `public` when there is none —
    for inputs whose two parts are non-empty -/
theorem fqident_roundtrip (s : Bytes) (n : Nat) (h0 : 0 ∉ s)
    (h1 : (fqParts s).1 ≠ []) (h2 : (fqParts s).2 ≠ [])
    (hok : (quoteFqident s n).1 = true) :
    lexFqIdent (cstr (quoteFqident s n).2.buf) = some (fqParts s, []) := by
  obtain ⟨T, hT⟩ := (quoteFqident_spec s n h0).2.2 hok
  have hp := fqParts_no_nul s h0
  have hnn : 0 ∉ fqText s := by
    unfold fqText
    have a := identText_no_nul _ hp.1
    have b := identText_no_nul _ hp.2
    simp [a, b, cDot]
  rw [cstr_of_prefix _ _ T hT hnn]
  exact lexFqIdent_fqText s h1 h2

example : (quoteFqident [97, 46, 98, 46, 34] 14).1 = true ∧
    cstr (quoteFqident [97, 46, 98, 46, 34] 14).2.buf = [97, 46, 34, 98, 46, 34, 34, 34] ∧
    lexFqIdent [97, 46, 34, 98, 46, 34, 34, 34] = some (([97], [98, 46, 34]), []) := by decide

example : cstr (quoteFqident [120] 20).2.buf = [112, 117, 98, 108, 105, 99, 46, 120] := by decide

/-! ## pg_parse_array -/

/-- `pg_parse_array` (repaired) on a block whose byte `N` is NUL (in particular `N` = index of the
    first NUL) reads only indices `≤ N`, and answers NULL or a list -/
theorem array_reads_in_bounds (b : Bytes) (N : Nat) (h0 : b.getD N 0 = 0) (hN : N < b.length) :
    (∀ i ∈ (parseArray b).2, i ≤ N) ∧
    ((parseArray b).1 = .fail ∨ ∃ l, (parseArray b).1 = .ok l) := by
  obtain ⟨h1, h2⟩ := parseArray_safe b N h0 hN
  refine ⟨h2, ?_⟩
  cases h : (parseArray b).1 with
  | oof => exact absurd h h1
  | fail => exact Or.inl rfl
  | ok l => exact Or.inr ⟨l, rfl⟩

example : (parseArray [123, 34, 0]).1 = .fail ∧ (parseArray [123, 34, 0]).2 = [2, 1, 0, 0] := by decide

/-- the same for a C string `s` (no NUL inside) followed by its terminator -/
theorem array_reads_in_bounds_cstr (s : Bytes) :
    ∀ i ∈ (parseArray (s ++ [0])).2, i ≤ s.length := by
  have h0 : (s ++ [0]).getD s.length 0 = 0 := by
    have := getD_at s 0 []
    simpa using this
  exact (array_reads_in_bounds (s ++ [0]) s.length h0 (by simp)).1

example : ∀ i ∈ (parseArray ([123, 34, 92, 120] ++ [0])).2, i ≤ 4 := array_reads_in_bounds_cstr _

/-- F8, the code at the pinned commit: on the 3-byte block `{"\0` the scan reads index 3 -/
theorem parse_array_old_overread : 3 ∈ (parseArrayOld [123, 34, 0]).2 := parseArrayOld_overread

/-- ARRAY ROUND TRIP: for every list of items — each a NULL in any letter case, a bare element
    or a quoted element, with arbitrary backslash escapes (also of blanks at either end), blanks
    before and after, optional dimension prefix — whose text is array syntax (`Item.valid`,
    `dimValid`), `pg_parse_array` of the rendered text returns exactly the list of values -/
theorem array_roundtrip (dim : Option Bytes) (items : List Item) (hd : dimValid dim = true)
    (hv : ∀ it ∈ items, it.valid = true) :
    (parseArray (renderArray dim items ++ [0])).1 = .ok (items.map (·.e.value)) :=
  parseArray_render dim items hd hv

example : (Item.mk [32] (.quoted [⟨97, false⟩, ⟨34, true⟩, ⟨44, false⟩]) [9]).valid = true ∧
    (Item.mk [] (.null [78, 117, 76, 108]) []).valid = true ∧
    (Item.mk [] (.bare [⟨123, false⟩, ⟨32, true⟩, ⟨98, false⟩, ⟨32, true⟩]) [32, 32]).valid = true ∧
    (Item.mk [] (.bare [⟨97, false⟩, ⟨32, false⟩]) []).valid = false ∧
    dimValid (some [49, 58, 51]) = true ∧
    (parseArray (renderArray (some [49, 58, 51])
      [Item.mk [32] (.quoted [⟨97, false⟩, ⟨34, true⟩, ⟨44, false⟩]) [9],
       Item.mk [] (.null [78, 117, 76, 108]) [],
       Item.mk [] (.bare [⟨123, false⟩, ⟨32, true⟩, ⟨98, false⟩, ⟨32, true⟩]) [32, 32]] ++ [0])).1
      = .ok [some [97, 34, 44], none, some [123, 32, 98, 32]] := by decide

end UsualProps.C13
