/-! Property theorems for C13 (stub: not built yet). -/
