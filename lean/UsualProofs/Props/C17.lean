/-! Property theorems for C17 (stub: not built yet). -/
