import Usual.C17.Tls
import UsualProofs.C17.ConfigEq
import UsualProofs.C17.Wrap
import UsualProofs.C17.Policy
import UsualProofs.C17.Chan
/-! # C17 — TLS: policy decides session setup exactly; data intact under any schedule

Property-level theorems about the model `Usual.C17` (lean/Usual/C17/{Config,Tls}.lean), which mirrors
usual/tls/{tls.c, tls_config.c, tls_client.c, tls_server.c} *with fixes F18 (C08), F34 and F29
applied*.  What these theorems do **not** carry (and why the level claimed is "other"): the decision
about a certificate chain, the record layer and the version negotiation are taken inside the linked
OpenSSL; they appear here as the parameters `PeerCert.trusted/timeValid`, the scripted `SslRes`
results, and the functions `clientRange`/`negotiated` transcribed from OpenSSL's
`ssl_get_min_max_version`/`ssl_choose_server_version`.  The correspondence run (checks/C17.py,
harness/C17/h.c) compares each of them with the real stack on the full matrix.

Unchanged-code findings kept as theorems: `configEqualOld_counterexample` (fix F34) and
`ioOld_zero_on_oversize_counterexample` (fix F29). -/
namespace UsualProps.C17
open Usual.C17 UsualProofs.C17

/-! ## tls_config_equal -/

/-- `tls_config_equal` is true exactly when every configurable field of the two configs is equal.
    No field of `struct tls_config` other than `error` (not configurable) is left out. -/
theorem configEqual_iff (a b : Config) : configEqual a b = true ↔ ∀ f : Field, a.get f = b.get f :=
  (configEqual_iff_eq a b).trans (fields_eq_iff a b).symm

example : configEqual (runSetters [.caMem (.buf [1, 2]), .verifyDepth 3] (Config.new [47]))
                      (runSetters [.verifyDepth 3, .caMem (.buf [1, 2])] (Config.new [47])) = true := by decide
example : configEqual (runSetters [.verifyDepth 3] (Config.new [47])) (Config.new [47]) = false := by decide

/-- …equivalently: the two records are equal -/
theorem configEqual_iff_eq (a b : Config) : configEqual a b = true ↔ a = b :=
  UsualProofs.C17.configEqual_iff_eq a b

example : configEqual (runSetters [.ocspFile (some [97])] (Config.new []))
                      (runSetters [.ocspMem (.buf [97])] (Config.new [])) = false := by decide

/-- both lists end together and corresponding elements are related -/
def InStep {α : Type} (R : α → α → Prop) : List α → List α → Prop
  | [], [] => True
  | x :: xs, y :: ys => R x y ∧ InStep R xs ys
  | _, _ => False

/-- `tls_keypair_list_equal`: equal length and pairwise equal in all four members (induction on the lists) -/
theorem keypairListEqual_iff (a b : List Keypair) :
    keypairListEqual a b = true ↔
      InStep (fun x y => x.certFile = y.certFile ∧ x.certMem = y.certMem ∧
                         x.keyFile = y.keyFile ∧ x.keyMem = y.keyMem) a b := by
  rw [UsualProofs.C17.keypairListEqual_iff]
  induction a generalizing b with
  | nil => cases b <;> simp [InStep]
  | cons x xs ih =>
    cases b with
    | nil => simp [InStep]
    | cons y ys =>
      cases x; cases y
      simp only [InStep, List.cons.injEq, Keypair.mk.injEq, ← ih ys]

example : keypairListEqual [⟨none, .null 0, some [1], .buf []⟩, ⟨none, .null 0, none, .null 0⟩]
                           [⟨none, .null 0, some [1], .buf []⟩] = false := by decide

/-- The pinned tree (before fix F34): `tls_mem_equal` skips the content comparison when either
    pointer is NULL, so two configs that differ in a configurable field compare equal.
    Witness reachable through the public setters:
    `tls_config_set_ca_mem(a, NULL, 3)` versus `tls_config_set_ca_mem(b, "abc", 3)`
    (and, with length 0: the default config versus `tls_config_set_ca_mem(b, "", 0)`, where
    `tls_configure_ssl_verify` takes different branches).  Replayed on the real code: corpus/C17/f34-*.ops. -/
theorem configEqualOld_counterexample :
    ¬ (∀ a b : Config, configEqualOld a b = true ↔ a = b) := by
  intro h
  have := (h (runSetters [.caMem (.null 3)] (Config.new [])) (runSetters [.caMem (.buf [97, 98, 99])] (Config.new []))).1
    (by decide)
  exact absurd this (by decide)

example : configEqualOld (Config.new []) (runSetters [.caMem (.buf [])] (Config.new [])) = true := by decide

/-- every setter is exactly the list of field assignments of its specification `Setter.spec`,
    and a sequence of setter calls is the composition of the single calls -/
theorem setters_commute_with_model (c : Config) (s : Setter) (xs ys : List Setter) :
    (s.apply c).cfg = c.putAll (s.spec c) ∧
    runSetters (xs ++ ys) c = runSetters ys (runSetters xs c) :=
  ⟨apply_eq_spec c s, runSetters_append xs ys c⟩

example : (Setter.apply (Config.new []) (.ocspFile (some [120]))).cfg =
    (Config.new []).putAll [(.ocspMem, .mem (.null 0)), (.ocspFile, .str (some [120]))] := by decide

/-! ## return values -/

/-- `tls_read` and `tls_write` return only n > 0, 0, −1, TLS_WANT_POLLIN or TLS_WANT_POLLOUT;
    `tls_handshake` and `tls_close` only the last four — whatever the SSL object answers,
    in every connection state. -/
theorem rv_range (c : Conn) (script : List SslRes) (buflen : Nat) (sock : Option SockEnv) :
    IoRv (tlsRead c script buflen).rv ∧ IoRv (tlsWrite c script buflen).rv ∧
    StatusRv (tlsHandshake c script).rv ∧ StatusRv (tlsClose c script sock).rv :=
  ⟨io_range c script buflen, io_range c script buflen, handshake_range c script, close_range c script sock⟩

example : (tlsRead ⟨true, false, true, false, false, true, true, true, .unchanged⟩ [⟨-1, .wantRead, false⟩] 10).rv
    = TLS_WANT_POLLIN := by decide
example : (tlsRead ⟨true, false, false, false, false, true, true, true, .unchanged⟩
    [⟨1, .none, false⟩, ⟨7, .none, false⟩] 10).rv = 7 := by decide

/-- 0 means "orderly end": with the handshake complete, `tls_read`/`tls_write` return 0 only when
    the SSL call reported no error / close_notify / a bare transport EOF — and in no state for a
    buffer longer than INT_MAX -/
theorem read_zero_only_at_end (c : Conn) (script : List SslRes) (buflen : Nat)
    (hab : c.doAbort = false) (h0 : (tlsRead c script buflen).rv = 0) :
    buflen ≤ INT_MAX ∧ (c.hc = true → ZeroClass (pop script).1) :=
  ⟨io_zero_not_oversize c script buflen hab h0,
   fun hhc => (io_zero_only_at_end c script buflen hhc hab h0).2⟩

example : (tlsRead ⟨true, false, true, false, false, true, true, true, .unchanged⟩ [⟨0, .zeroReturn, false⟩] 10).rv = 0 := by
  decide

/-- The pinned tree (before fix F29): when the handshake is completed inside the call and the
    buffer is longer than INT_MAX, `tls_read`/`tls_write` set "buflen too long" but return 0. -/
theorem ioOld_zero_on_oversize_counterexample :
    ¬ (∀ (c : Conn) (s : List SslRes) (n : Nat), c.doAbort = false → (tlsIOOld c s n).rv = 0 → n ≤ INT_MAX) := by
  intro h
  obtain ⟨c, s, n, _, hab, hn, h0, _⟩ := ioOld_zero_on_oversize
  have := h c s n hab h0
  omega

/-- A transport cut without close_notify is reported by `tls_close`.
    (1) the way OpenSSL ≤ 1.1.1 signals it (SSL_read → 0, SSL_ERROR_SYSCALL, empty error queue):
        `tls_read` returns 0 and remembers it, and every later `tls_close` returns −1 — or
        asks to be called again (WANT), still remembering;
    (2) the way OpenSSL 3 signals it (fatal SSL_ERROR_SSL / SSL_ERROR_SYSCALL from SSL_shutdown):
        `tls_close` returns −1. -/
theorem eof_without_notify_reported (c : Conn) (rest script : List SslRes) (buflen : Nat)
    (sock : Option SockEnv) (r : SslRes)
    (hvalid : c.roleValid = true) (hhc : c.hc = true) (hab : c.doAbort = false) (hn : buflen ≤ INT_MAX) :
    (let o := tlsRead c (eofRes :: rest) buflen
     o.rv = 0 ∧
     ((tlsClose o.st script sock).rv = -1 ∨
      (((tlsClose o.st script sock).rv = TLS_WANT_POLLIN ∨ (tlsClose o.st script sock).rv = TLS_WANT_POLLOUT) ∧
        (tlsClose o.st script sock).st.eofNoNotify = true))) ∧
    (r.ret < 0 → (r.err = .ssl ∨ (r.err = .syscall ∧ (r.queued = true ∨ r.ret ≠ 0))) →
      (tlsClose c (r :: rest) sock).rv = -1) := by
  constructor
  · obtain ⟨h1, h2, h3⟩ := read_eof_sets_flag c rest buflen hhc hab hn
    refine ⟨h1, ?_⟩
    rcases close_reports_flag _ script sock (h3.trans hvalid) h2 with h | ⟨h, h', _⟩
    · exact Or.inl h
    · exact Or.inr ⟨h, h'⟩
  · intro hneg hfatal
    exact close_fatal_reported c r rest sock hvalid hneg hfatal

example : (tlsClose (tlsRead ⟨true, false, true, false, false, true, true, true, .unchanged⟩ [eofRes] 16).st
    [⟨0, .none, false⟩] none).rv = -1 := by decide
example : (tlsClose ⟨true, true, true, false, false, true, true, true, .unchanged⟩ [⟨-1, .syscall, false⟩] none).rv = -1 := by
  decide

/-- A refused context stays refused.  When the client's policy rejects the peer (verify_name on and
    no certificate / name not covered) `tls_handshake` returns −1 and leaves TLS_HANDSHAKE_COMPLETE
    clear; every later `tls_read`/`tls_write` on that context runs the handshake step again and — whether
    `SSL_connect` says 1 again or reports anything `tls_ssl_error` does not map to 0 — fails again
    without ever calling `SSL_read`/`SSL_write`: nothing is sent to or accepted from the refused peer. -/
theorem refused_stays_refused (c : Conn) (r r' : SslRes) (rest : List SslRes) (n : Nat)
    (hvalid : c.roleValid = true) (hcl : c.isServer = false) (hhc : c.hc = false) (hab : c.doAbort = false)
    (hvn : c.verifyName = true) (hbad : c.peerCert = false ∨ c.nameOk = false)
    (h1 : r.ret = 1) (hr' : r'.ret = 1 ∨ (r'.ret ≠ 1 ∧ (mapErr c r').1 ≠ 0)) :
    let h := tlsHandshake c (r :: r' :: rest)
    h.rv = -1 ∧ h.st.hc = false ∧
    (tlsIO h.st h.rest n).rv ≠ 0 ∧ ¬ (tlsIO h.st h.rest n).rv > 0 ∧
    (tlsIO h.st h.rest n).st.hc = false ∧ (tlsIO h.st h.rest n).rest = rest := by
  have hh : tlsHandshake c (r :: r' :: rest) =
      (if c.peerCert = false then ⟨-1, { c with err := .noCert }, r' :: rest⟩
       else ⟨-1, { c with err := .name }, r' :: rest⟩) := by
    rcases hbad with hb | hb
    · simp [tlsHandshake, hvalid, pop, h1, hcl, hvn, hb]
    · by_cases hp : c.peerCert = false
      · simp [tlsHandshake, hvalid, pop, h1, hcl, hvn, hp]
      · simp [tlsHandshake, hvalid, pop, h1, hcl, hvn, hb, hp]
  by_cases hp : c.peerCert = false
  · rw [if_pos hp] at hh
    have := refused_io { c with err := .noCert } r' rest n hvalid hcl hhc hab hvn hbad
      (by simpa [mapErr] using hr')
    rw [hh]
    exact ⟨rfl, hhc, this⟩
  · rw [if_neg hp] at hh
    have := refused_io { c with err := .name } r' rest n hvalid hcl hhc hab hvn hbad
      (by simpa [mapErr] using hr')
    rw [hh]
    exact ⟨rfl, hhc, this⟩

example : let h := tlsHandshake ⟨true, false, false, false, false, true, true, false, .unchanged⟩
              [⟨1, .none, false⟩, ⟨1, .none, false⟩, ⟨6, .none, false⟩]
    h.rv = -1 ∧ (tlsWrite h.st h.rest 6).rv = -1 ∧ (tlsWrite h.st h.rest 6).rest = [⟨6, .none, false⟩] := by decide

/-! ## protocol versions -/

/-- The negotiated version is common to both ends' effective version sets and is the highest such
    version.  (`verBits` = bits 1..4 of `config->protocols`; `perm` = versions the linked OpenSSL's
    policy permits, probed at start-up.) -/
theorem negotiated_is_max_common (perm cp sp v : Nat)
    (h : negotiated (verBits perm) (verBits cp) (verBits sp) = some v) :
    effectiveClient (verBits perm) (verBits cp) v = true ∧ effectiveServer (verBits perm) (verBits sp) v = true ∧
    ∀ w, effectiveClient (verBits perm) (verBits cp) w = true → effectiveServer (verBits perm) (verBits sp) w = true →
      w ≤ v := by
  have hp : verBits perm < 16 := Nat.mod_lt _ (by decide)
  have hc : verBits cp < 16 := Nat.mod_lt _ (by decide)
  have hs : verBits sp < 16 := Nat.mod_lt _ (by decide)
  have hk := negOk_all ⟨_, hp⟩ ⟨_, hc⟩ ⟨_, hs⟩
  simp only [negOk, h, Bool.and_eq_true, List.all_eq_true, List.mem_range, Bool.or_eq_true,
    Bool.not_eq_true', decide_eq_true_eq] at hk
  obtain ⟨hcom, hmax⟩ := hk
  simp only [common, Bool.and_eq_true] at hcom
  refine ⟨hcom.1, hcom.2, ?_⟩
  intro w hw1 hw2
  have hw4 : w < 4 := by
    simp only [effectiveServer, Bool.and_eq_true, decide_eq_true_eq] at hw2
    exact hw2.2
  rcases hmax w hw4 with h' | h'
  · simp [common, hw1, hw2] at h'
  · exact h'

example : negotiated (verBits 30) (verBits 30) (verBits 24) = some 3 := by decide
example : negotiated (verBits 30) (verBits (2 + 8)) (verBits 8) = none := by decide   -- client {1.0,1.2}: only 1.0 offered

/-- Conversely a handshake fails for version reasons only when the effective sets are disjoint — or
    in OpenSSL's one anti-downgrade case: best common version TLS 1.0, the client's maximum TLS 1.1
    disabled at a server that supports TLS 1.2 (the server marks the hello, the client aborts with
    "inappropriate fallback"). -/
theorem negotiated_none_iff_disjoint_or_fallback (perm cp sp : Nat)
    (h : negotiated (verBits perm) (verBits cp) (verBits sp) = none) :
    (∀ w, ¬ (effectiveClient (verBits perm) (verBits cp) w = true ∧ effectiveServer (verBits perm) (verBits sp) w = true)) ∨
    (highest (common (verBits perm) (verBits cp) (verBits sp)) = some 0 ∧
     highest (effectiveClient (verBits perm) (verBits cp)) = some 1 ∧
     effectiveServer (verBits perm) (verBits sp) 1 = false ∧ effectiveServer (verBits perm) (verBits sp) 2 = true) := by
  have hp : verBits perm < 16 := Nat.mod_lt _ (by decide)
  have hc : verBits cp < 16 := Nat.mod_lt _ (by decide)
  have hs : verBits sp < 16 := Nat.mod_lt _ (by decide)
  have hk := negOk_all ⟨_, hp⟩ ⟨_, hc⟩ ⟨_, hs⟩
  simp only [negOk, h, Bool.or_eq_true, List.all_eq_true, List.mem_range, Bool.not_eq_true',
    Bool.and_eq_true, beq_iff_eq] at hk
  rcases hk with hk | hk
  · left
    intro w ⟨h1, h2⟩
    have hw4 : w < 4 := by
      simp only [effectiveServer, Bool.and_eq_true, decide_eq_true_eq] at h2
      exact h2.2
    have := hk w hw4
    simp [common, h1, h2] at this
  · right
    exact ⟨hk.1.1.1, hk.1.1.2, hk.1.2, hk.2⟩

example : negotiated (verBits 30) (verBits (2 + 4)) (verBits (2 + 8)) = none := by decide  -- the fallback case

/-- what a client offers is OpenSSL's contiguous range: every version in it is enabled, nothing
    enabled lies below it, and the version right above it is disabled (the *lowest* run of the set) -/
theorem clientRange_is_lowest_run (cp mn mx : Nat) (h : clientRange (verBits cp) = (some mn, some mx)) :
    mn ≤ mx ∧ mx < 4 ∧ (∀ v, mn ≤ v → v ≤ mx → hasVer (verBits cp) v = true) ∧
    (∀ v, v < mn → hasVer (verBits cp) v = false) ∧ (mx + 1 < 4 → hasVer (verBits cp) (mx + 1) = false) := by
  have hc : verBits cp < 16 := Nat.mod_lt _ (by decide)
  have hk := rangeOk_all ⟨_, hc⟩
  simp only [rangeOk, h, Bool.and_eq_true, decide_eq_true_eq, List.all_eq_true, List.mem_range,
    Bool.or_eq_true, Bool.not_eq_true', Bool.and_eq_false_imp, decide_eq_false_iff_not] at hk
  obtain ⟨⟨h1, h2⟩, h3⟩ := hk
  refine ⟨h1, h2, ?_, ?_, ?_⟩
  · intro v hv1 hv2
    have := (h3 v (by omega)).1.1
    rcases this with h' | h'
    · exact absurd hv2 (h' hv1)
    · exact h'
  · intro v hv
    have := (h3 v (by omega)).1.2
    rcases this with h' | h'
    · exact absurd hv h'
    · exact h'
  · intro hlt
    have := (h3 (mx + 1) hlt).2
    rcases this with h' | h'
    · simp at h'
    · exact h'

example : clientRange (verBits (2 + 8 + 16)) = (some 0, some 0) := by decide

/-! ## policy -/

/-- The session-setup decision, stated outright: the server certificate chain must be trusted where
    verify_cert demands it (dates valid unless verify_time is off), the name covered when verify_name
    is on (which needs a server name), and the client certificate trusted where verify_client
    demands it: required → present and good; optional → good if present. -/
theorem decision_iff_policy (p : Policy) :
    decision p = true ↔
      (p.verifyCert = true → p.serverCert.trusted = true ∧ (p.verifyTime = true → p.serverCert.timeValid = true)) ∧
      (p.verifyName = true → p.serverNameGiven = true ∧ p.nameCovered = true) ∧
      (p.verifyClient = .required → ∃ c, p.clientCert = some c ∧ c.trusted = true ∧
          (p.serverVerifyTime = true → c.timeValid = true)) ∧
      (p.verifyClient = .optional → ∀ c, p.clientCert = some c → c.trusted = true ∧
          (p.serverVerifyTime = true → c.timeValid = true)) :=
  decision_iff p

example : decision ⟨true, true, false, true, ⟨true, false⟩, true, .optional, true, none⟩ = true := by decide
example : decision ⟨true, true, true, true, ⟨true, false⟩, true, .optional, true, none⟩ = false := by decide
example : decision ⟨false, false, true, false, ⟨false, false⟩, false, .required, true, none⟩ = false := by decide

/-- dates as input of the decision: a certificate with validity window [notBefore, notAfter] passes chain
    verification at time `now` iff it is trusted and — unless verify_time is off — notBefore ≤ now ≤ notAfter
    (any sign: dates before 1970 are ordinary dates) -/
theorem chainOk_window (verifyTime trusted : Bool) (now nb na : Int) :
    chainOk verifyTime (PeerCert.ofWindow trusted now nb na) = true ↔
      trusted = true ∧ (verifyTime = true → nb ≤ now ∧ now ≤ na) := by
  rw [chainOk_iff]
  simp [PeerCert.ofWindow, validAt]

example : chainOk true (PeerCert.ofWindow true 1790000000 (-631152000) 2840140800) = true := by decide
example : chainOk true (PeerCert.ofWindow true 1790000000 (-631152000) (-315619200)) = false := by decide
example : chainOk false (PeerCert.ofWindow true 1790000000 (-631152000) (-315619200)) = true := by decide

/-- a session is established iff the policy is satisfied and the effective protocol sets yield a version;
    the policy is read off the two `tls_config` records as the library does it -/
theorem established_iff (cc sc : Config) (given covered : Bool) (scert : PeerCert) (ccert : Option PeerCert)
    (perm : Nat) :
    established (Policy.ofConfigs cc sc given scert covered ccert) (verBits perm)
        (verBits cc.protocols.toNat) (verBits sc.protocols.toNat) = true ↔
      decision (Policy.ofConfigs cc sc given scert covered ccert) = true ∧
      ∃ v, negotiated (verBits perm) (verBits cc.protocols.toNat) (verBits sc.protocols.toNat) = some v := by
  simp [established, Option.isSome_iff_exists]

example : established (Policy.ofConfigs (Config.new []) (runSetters [.verifyClientOptional] (Config.new []))
    true ⟨true, true⟩ true none) (verBits 24) (verBits 24) (verBits 24) = true := by decide

/-- The decision is a function of the LAST configuration only.  `tls_configure` replaces the
    configuration (a server builds a fresh SSL_CTX from the new config alone, a client does so in
    `tls_connect_fds`), so whatever a context was configured with before — directly, or with a
    session attempt and `tls_reset` in between — the policy of the session is the policy of the two
    last configs, and so is the decision. -/
theorem decision_uses_last_config (tc ts : TlsCtx) (hc : tc.isServer = false) (hs : ts.isServer = true)
    (a a' b b' : Config) (given covered : Bool) (scert : PeerCert) (ccert : Option PeerCert) :
    Policy.ofCtxs ((tc.configure a).configure b).connect ((ts.configure a').configure b') given scert covered ccert
      = some (Policy.ofConfigs b b' given scert covered ccert) ∧
    Policy.ofCtxs (((tc.configure a).connect.reset).configure b).connect (((ts.configure a').reset).configure b')
        given scert covered ccert
      = some (Policy.ofConfigs b b' given scert covered ccert) ∧
    ((ts.configure a').configure b').sslCtx = some (SslCtx.ofServerConfig b') := by
  refine ⟨?_, ?_, ?_⟩
  · rw [configure_twice, configure_twice]
    exact policy_of_last tc ts hc hs b b' given scert covered ccert
  · rw [client_configure_after_reset tc a b hc, server_configure_after_reset ts a' b' hs]
    exact policy_of_last tc ts hc hs b b' given scert covered ccert
  · rw [configure_twice]
    cases ts with
    | mk s c x => simp only at hs; subst hs; simp [TlsCtx.configure]

example :
    (Policy.ofCtxs (((TlsCtx.new false []).configure (runSetters [.noVerifyCert, .noVerifyTime] (Config.new []))).configure
        (Config.new [])).connect
      (((TlsCtx.new true []).configure (runSetters [.verifyClient, .caFile (some [2])] (Config.new []))).configure
        (runSetters [.verifyClientOptional, .caFile (some [1])] (Config.new [])))
      true ⟨true, true⟩ true none).map decision = some true := by decide

/-! ## data -/

/-- Under every schedule of bounded writes, reads and closes of the two endpoints, each side has
    received exactly a prefix of what the other wrote, in order (induction on the schedule); every
    step's result is in the permitted set; and a read answers 0 only at the orderly end. -/
theorem fifo_any_schedule (cap k : Nat) (sched : List Step) (a b : Bytes) :
    let r := Duplex.run cap k sched (Duplex.init a b)
    r.1.c2s.recvd = a.take r.1.c2s.recvd.length ∧ r.1.s2c.recvd = b.take r.1.s2c.recvd.length ∧
    (r.1.c2s.pending = [] → r.1.c2s.inflight = [] → r.1.c2s.recvd = a) ∧
    (r.1.s2c.pending = [] → r.1.s2c.inflight = [] → r.1.s2c.recvd = b) ∧
    ∀ rv ∈ r.2, IoRv rv := by
  have hinv := run_inv cap k sched _ a b (init_inv a b)
  have hf := fifo cap k sched a b
  exact ⟨hf.1, hf.2, fun hp hi => complete_of_drained _ _ hinv.1 hp hi,
    fun hp hi => complete_of_drained _ _ hinv.2 hp hi, run_rvs cap k sched _⟩

example : (Duplex.run 4 3 [.write true 5, .read true 2, .write true 5, .read true 9, .write false 1, .close true,
    .read true 1, .read false 4] (Duplex.init [1, 2, 3, 4, 5, 6, 7] [9])).1.c2s.recvd = [1, 2, 3, 4, 5, 6] := by decide
example : (Duplex.run 4 3 [.write true 5, .read true 2, .close true, .read true 9, .read true 1]
    (Duplex.init [1, 2, 3] [])).2 = [3, 2, 0, 1, 0] := by decide

end UsualProps.C17
