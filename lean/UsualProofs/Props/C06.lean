import UsualProofs.C06.Refine
import UsualProofs.C06.Url
/-!
# C06 — crit-bit tree, strpool and mdict behave as a sorted map of byte strings

Property-level theorems only.  Model: `Usual/C06/CBTree.lean`, `Usual/C06/Pools.lean` (mirrors
`usual/cbtree.c`, `strpool.c`, `mdict.c`).  Keys are byte strings not ending in a zero byte
(`NoTrailingZero`, the property's precondition: the tree compares keys zero-padded).
-/
namespace UsualProps.C06
open Usual.C06

/-- **Every operation sequence equals the reference map.**  For every sequence of insert,
delete and lookup on a crit-bit tree (starting from the empty tree) whose inserted keys do
not end in a zero byte, each operation reports exactly what a reference finite map reports
(insert refuses a key already present; delete reports and frees exactly the object stored
under the named key; lookup finds exactly the stored keys), and afterwards the tree still
represents the reference map. -/
theorem cbtree_refines_map (ops : List Op) (hk : ∀ op, op ∈ ops → op.keyOk) :
    (run none ops).2 = (specRun (fun _ => none) ops).2 ∧
    absMap (run none ops).1 = (specRun (fun _ => none) ops).1 := by
  have h := run_refines ops hk none trivial (by intro e he; simp [walk] at he)
  have e : absMap none = fun _ => none := by funext k; simp [absMap, lookup]
  rw [e] at h
  exact ⟨h.1, h.2.1⟩

-- non-vacuity: a concrete history with a prefix key, a refused duplicate and a delete
example :
    let ops := [Op.ins ⟨[0x61], 1⟩, .ins ⟨[0x61, 0x62], 2⟩, .ins ⟨[0x61], 3⟩, .get [0x61, 0x62],
                .del [0x61], .get [0x61]]
    (∀ op, op ∈ ops → op.keyOk) ∧
    (run none ops).2 = [.flag true, .flag true, .flag false, .obj (some 2), .obj (some 1), .obj none] := by
  refine ⟨?_, by decide +kernel⟩
  intro op hop
  simp only [List.mem_cons, List.not_mem_nil, or_false] at hop
  rcases hop with rfl | rfl | rfl | rfl | rfl | rfl <;> simp [Op.keyOk, NoTrailingZero]

/-- **Walk order.**  In every state reachable by such a sequence, the walk visits every stored
object exactly once (`∈ walk ↔` stored in the map; strictly ascending ⇒ no repetition) in
strictly ascending bytewise key order. -/
theorem cbtree_walk_sorted (ops : List Op) (hk : ∀ op, op ∈ ops → op.keyOk) :
    let root := (run none ops).1
    (walk root).Pairwise (fun a b => keyLt a.key b.key = true) ∧
    (∀ e, e ∈ walk root ↔ absMap root e.key = some e.obj) := by
  have h := run_refines ops hk none trivial (by intro e he; simp [walk] at he)
  exact walk_spec _ h.2.2.1

example : walk (run none [Op.ins ⟨[0x62], 1⟩, .ins ⟨[0x61, 0xff], 2⟩, .ins ⟨[], 3⟩, .ins ⟨[0x61], 4⟩]).1
    = [⟨[], 3⟩, ⟨[0x61], 4⟩, ⟨[0x61, 0xff], 2⟩, ⟨[0x62], 1⟩] := by decide +kernel

/-- **Free callback exactly once.**  A successful delete hands exactly the removed object to
the free callback and removes exactly that object from the walk; every other object stays,
in order.  (`cbtree_destroy` hands `walk root` — every stored object once — to the callback
by definition of `destroyLog`.) -/
theorem cbtree_delete_frees_exactly (ops : List Op) (hk : ∀ op, op ∈ ops → op.keyOk) (k : Key) :
    let root := (run none ops).1
    ∀ e r, delete root k = some (e, r) →
      e.key = k ∧ ∃ pre post, walk root = pre ++ e :: post ∧ walk r = pre ++ post := by
  intro root e r hd
  have h := run_refines ops hk none trivial (by intro e he; simp [walk] at he)
  obtain ⟨a, _, _, _, _, pre, post, e1, e2⟩ := (delete_refines root h.2.2.1 k).2 e r hd
  exact ⟨a, pre, post, e1, e2⟩

/-- keys not ending in a zero byte are equal iff their zero-padded bit strings are equal -/
theorem pad_eq_iff_eq' (a b : Key) (ha : NoTrailingZero a) (hb : NoTrailingZero b) :
    (∀ i, getBit a i = getBit b i) ↔ a = b := pad_eq_iff_eq a b ha hb

example : NoTrailingZero [0x61, 0x00, 0x62] ∧ ¬ NoTrailingZero [0x61, 0x00] := by
  simp [NoTrailingZero]

/-- **URL round trip (text level).**  Decoding the url-encoding of a list of key/value pairs
returns exactly that list — for arbitrary bytes in keys and values, NULL and empty values —
unless the list ends in the pair (empty key, NULL value), whose encoding is empty.  For a
dict (walk order is sorted, the empty key first) the exception is exactly the dict
`{"" ↦ NULL}` (known finding K1). -/
theorem urldecode_urlencode (ps : List (Key × Val)) (h : LastOk ps) :
    urldecodePairs ((urlencode ps).length + 1) (urlencode ps) = (ps, true) :=
  urldecode_urlencode_text ps h

/-- the exception is real: the unchanged code (and the model) lose the dict `{"" ↦ NULL}` -/
theorem urldecode_urlencode_K1_counterexample :
    urldecodePairs 5 (urlencode [([], none)]) = ([], true) := by decide

example : LastOk [([], none), ([0x61, 0x20], some [0x26]), ([0x62], none)] := by
  simp [LastOk]

end UsualProps.C06
