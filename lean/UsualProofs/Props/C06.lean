/-! Property theorems for C06 (stub: not built yet). -/
