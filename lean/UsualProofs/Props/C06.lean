import UsualProofs.C06.Refine
import UsualProofs.C06.Url
import UsualProofs.C06.MDictRt
import UsualProofs.C06.StrPoolSpec
/-!
# C06 — crit-bit tree, strpool and mdict behave as a sorted map of byte strings

Property-level theorems only.  Model: `Usual/C06/CBTree.lean`, `Usual/C06/Pools.lean` (mirrors
`usual/cbtree.c`, `strpool.c`, `mdict.c`).  Keys are byte strings not ending in a zero byte
(`NoTrailingZero`, the property's precondition: the tree compares keys zero-padded).
-/
namespace UsualProps.C06
open Usual.C06

/-- **Every operation sequence equals the reference map.**  For every sequence of insert,
delete and lookup on a crit-bit tree (starting from the empty tree) whose inserted keys do
not end in a zero byte, each operation reports exactly what a reference finite map reports
(insert refuses a key already present; delete reports and frees exactly the object stored
under the named key; lookup finds exactly the stored keys), and afterwards the tree still
represents the reference map. -/
theorem cbtree_refines_map (ops : List Op) (hk : ∀ op, op ∈ ops → op.keyOk) :
    (run none ops).2 = (specRun (fun _ => none) ops).2 ∧
    absMap (run none ops).1 = (specRun (fun _ => none) ops).1 := by
  have h := run_refines ops hk none trivial (by intro e he; simp [walk] at he)
  have e : absMap none = fun _ => none := by funext k; simp [absMap, lookup]
  rw [e] at h
  exact ⟨h.1, h.2.1⟩

-- non-vacuity: a concrete history with a prefix key, a refused duplicate and a delete
example :
    let ops := [Op.ins ⟨[0x61], 1⟩, .ins ⟨[0x61, 0x62], 2⟩, .ins ⟨[0x61], 3⟩, .get [0x61, 0x62],
                .del [0x61], .get [0x61]]
    (∀ op, op ∈ ops → op.keyOk) ∧
    (run none ops).2 = [.flag true, .flag true, .flag false, .obj (some 2), .obj (some 1), .obj none] := by
  refine ⟨?_, by decide +kernel⟩
  intro op hop
  simp only [List.mem_cons, List.not_mem_nil, or_false] at hop
  rcases hop with rfl | rfl | rfl | rfl | rfl | rfl <;> simp [Op.keyOk, NoTrailingZero]

/-- **Walk order.**  In every state reachable by such a sequence, the walk visits every stored
object exactly once (`∈ walk ↔` stored in the map; strictly ascending ⇒ no repetition) in
strictly ascending bytewise key order. -/
theorem cbtree_walk_sorted (ops : List Op) (hk : ∀ op, op ∈ ops → op.keyOk) :
    let root := (run none ops).1
    (walk root).Pairwise (fun a b => keyLt a.key b.key = true) ∧
    (∀ e, e ∈ walk root ↔ absMap root e.key = some e.obj) := by
  have h := run_refines ops hk none trivial (by intro e he; simp [walk] at he)
  exact walk_spec _ h.2.2.1

example : walk (run none [Op.ins ⟨[0x62], 1⟩, .ins ⟨[0x61, 0xff], 2⟩, .ins ⟨[], 3⟩, .ins ⟨[0x61], 4⟩]).1
    = [⟨[], 3⟩, ⟨[0x61], 4⟩, ⟨[0x61, 0xff], 2⟩, ⟨[0x62], 1⟩] := by decide +kernel

/-- **Free callback exactly once.**  A successful delete hands exactly the removed object to
the free callback and removes exactly that object from the walk; every other object stays,
in order.  (`cbtree_destroy` hands `walk root` — every stored object once — to the callback
by definition of `destroyLog`.) -/
theorem cbtree_delete_frees_exactly (ops : List Op) (hk : ∀ op, op ∈ ops → op.keyOk) (k : Key) :
    let root := (run none ops).1
    ∀ e r, delete root k = some (e, r) →
      e.key = k ∧ ∃ pre post, walk root = pre ++ e :: post ∧ walk r = pre ++ post := by
  intro root e r hd
  have h := run_refines ops hk none trivial (by intro e he; simp [walk] at he)
  obtain ⟨a, _, _, _, _, pre, post, e1, e2⟩ := (delete_refines root h.2.2.1 k).2 e r hd
  exact ⟨a, pre, post, e1, e2⟩

/-- keys not ending in a zero byte are equal iff their zero-padded bit strings are equal -/
theorem pad_eq_iff_eq' (a b : Key) (ha : NoTrailingZero a) (hb : NoTrailingZero b) :
    (∀ i, getBit a i = getBit b i) ↔ a = b := pad_eq_iff_eq a b ha hb

example : NoTrailingZero [0x61, 0x00, 0x62] ∧ ¬ NoTrailingZero [0x61, 0x00] := by
  simp [NoTrailingZero]

/-- **URL round trip (text level).**  Decoding the url-encoding of a list of key/value pairs
returns exactly that list — for arbitrary bytes in keys and values, NULL and empty values —
unless the list ends in the pair (empty key, NULL value), whose encoding is empty.  For a
dict (walk order is sorted, the empty key first) the exception is exactly the dict
`{"" ↦ NULL}` (known finding K1). -/
theorem urldecode_urlencode (ps : List (Key × Val)) (h : LastOk ps) :
    urldecodePairs ((urlencode ps).length + 1) (urlencode ps) = (ps, true) :=
  urldecode_urlencode_text ps h

/-- the exception is real: the unchanged code (and the model) lose the dict `{"" ↦ NULL}` -/
theorem urldecode_urlencode_K1_counterexample :
    urldecodePairs 5 (urlencode [([], none)]) = ([], true) := by decide

example : LastOk [([], none), ([0x61, 0x20], some [0x26]), ([0x62], none)] := by
  simp [LastOk]

/-! ## strpool -/

/-- **strpool invariant for every operation sequence** (get / incref / decref on live handles,
strings not ending in a zero byte): `strpool_total` equals the number of distinct live strings
(`count = |walk|`, and the walk has pairwise different keys), a handle has a positive reference
count exactly while its string is stored, and handles are never shared by two strings. -/
theorem strpool_invariant (ops : List SOp) (hk : ∀ op, op ∈ ops → op.keyOk) :
    let sp := ops.foldl sstep {}
    sp.count = ((walk sp.tree).length : Int) ∧
    (walk sp.tree).Pairwise (fun a b => keyLt a.key b.key = true) ∧
    (∀ id, (∃ n, refOf sp.refs id = some n ∧ 0 < n) ↔ ∃ e, e ∈ walk sp.tree ∧ e.obj = id) := by
  intro sp
  have h : SPInv sp := srun_inv ops hk {} spinv_empty
  refine ⟨h.count, (walk_spec sp.tree h.inv).1, ?_⟩
  intro id
  rw [← h.live id]
  constructor
  · rintro ⟨n, hn, _⟩; exact ⟨n, hn⟩
  · rintro ⟨n, hn⟩; exact ⟨n, hn, h.pos id n hn⟩

/-- **Same handle for equal strings until the count reaches zero**: in every reachable state,
`strpool_get` of a stored string returns the stored handle (and increments its count), while
`strpool_get` of a string not stored creates a fresh handle with count 1. -/
theorem strpool_same_handle (ops : List SOp) (hk : ∀ op, op ∈ ops → op.keyOk) (e : Entry) :
    let sp := ops.foldl sstep {}
    e ∈ walk sp.tree →
      (sp.get e.key).2 = some e.obj ∧
      ∀ n, refOf sp.refs e.obj = some n → refOf (sp.get e.key).1.refs e.obj = some (n + 1) := by
  intro sp he
  have h : SPInv sp := srun_inv ops hk {} spinv_empty
  obtain ⟨a, _, _, d⟩ := get_live sp h e he
  exact ⟨a, d⟩

/-- dropping the last reference removes exactly that string; other strings keep their handles -/
theorem strpool_release (ops : List SOp) (hk : ∀ op, op ∈ ops → op.keyOk) (id : Nat) :
    let sp := ops.foldl sstep {}
    refOf sp.refs id = some 1 →
      (sp.decref id).2 = true ∧
      ∃ e pre post, e.obj = id ∧ walk sp.tree = pre ++ e :: post ∧
        walk (sp.decref id).1.tree = pre ++ post ∧ refOf (sp.decref id).1.refs id = none := by
  intro sp hr
  have h : SPInv sp := srun_inv ops hk {} spinv_empty
  obtain ⟨a, _, c⟩ := decref_release sp h id hr
  exact ⟨a, c⟩

example :
    let sp := [SOp.get [0x61], .get [0x62], .get [0x61], .dec 1, .dec 2].foldl sstep {}
    sp.count = 1 ∧ refOf sp.refs 1 = some 1 ∧ refOf sp.refs 2 = none := by decide +kernel

/-! ## mdict -/

/-- **`mdict_get` returns the last value put (or url-decoded) for a key**: after putting any
list of pairs (keys not ending in a zero byte) into the empty dict, every put succeeded and
`get k` is the value of the last pair with key `k`, absent if there is none. -/
theorem mdict_get_last_put (ps : List (Key × Val)) (hk : ∀ p, p ∈ ps → NoTrailingZero p.1) (k : Key) :
    (({} : MDict).putAll ps).2 = true ∧
    (({} : MDict).putAll ps).1.get k = lastVal ps k := by
  obtain ⟨a, _, c⟩ := putAll_spec ps {} minv_empty hk
  refine ⟨a, ?_⟩
  rw [c k]
  cases lastVal ps k with
  | some v => rfl
  | none => simp [MDict.get, lookup]

/-- put / delete on any dict state satisfying the invariant (which every state reached from the
empty dict by put, delete and url-decoding does: `put_spec`, `del_spec`, `putAll_spec` preserve
it) act on `get` exactly like update / erase on a finite map. -/
theorem mdict_put_del_refine (d : MDict) (h : MInv d) (k : Key) (hk : NoTrailingZero k) (v : Val) :
    ((d.put k v).2 = true ∧ ∀ k', (d.put k v).1.get k' = if k' = k then some v else d.get k') ∧
    ((d.del k).2 = (d.get k).isSome ∧ ∀ k', (d.del k).1.get k' = if k' = k then none else d.get k') :=
  ⟨⟨(put_spec d h k hk v).1, (put_spec d h k hk v).2.2⟩, ⟨(del_spec d h k).1, (del_spec d h k).2.2⟩⟩

/-- **URL round trip (dict level)**: url-encoding a dict and decoding the text into an empty
dict reproduces exactly its pairs, for every dict except `{"" ↦ NULL}` (K1). -/
theorem mdict_urlencode_urldecode (d : MDict) (h : MInv d) (hne : d.pairs ≠ [([], none)]) :
    (({} : MDict).urldecode (urlencode d.pairs)).2 = true ∧
    (({} : MDict).urldecode (urlencode d.pairs)).1.pairs = d.pairs :=
  mdict_roundtrip d h hne

example :
    let d := (({} : MDict).putAll [([0x62], some [0x20, 0x26]), ([], none), ([0x61, 0xff], some [])]).1
    d.pairs = [([], none), ([0x61, 0xff], some []), ([0x62], some [0x20, 0x26])] ∧
    (({} : MDict).urldecode (urlencode d.pairs)).1.pairs = d.pairs := by decide +kernel

end UsualProps.C06
