/-! Property theorems for C10 (stub: not built yet). -/
