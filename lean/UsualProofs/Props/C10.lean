import UsualProofs.C10.Script
import UsualProofs.C10.Script2
/-!
# C10 — a single allocation failure (the k-th, for every k) is reported cleanly, corrupts and
leaks nothing

Property-level theorems only.  Models: `Usual/C10/{Alloc,Tree,Structs}.lean` — an allocator
state `AS` carrying the set `fails` of request numbers made to fail, and for every modelled
operation of cbtree, strpool, mdict, hashtab, heap, strlist, pg_parse_array, mbuf, slab, the cx
tree allocator and the digest/HMAC contexts an `…A` function that makes its requests in the
code's order and rolls back as the code does.  All statements quantify over the *whole* allocator
state, so they hold for `fails = [k]` (the property's single fault, every `k`), for two faults,
and for any other schedule.

`Holds s o` : the allocator holds exactly the blocks `o` (as a multiset).
`owned st`  : the blocks reachable from a structure (what its destroy function returns).
-/
namespace UsualProps.C10
open Usual.C06 Usual.C10

/-! ## the fault model -/

/-- a request fails exactly when its number is in the schedule; a failed request changes
    nothing but the request counter -/
theorem request_fails_iff_scheduled (s : AS) :
    ((allocS s).1 = none ↔ (s.count + 1) ∈ s.fails) ∧
    ((allocS s).1 = none → (allocS s).2.live = s.live) ∧
    (∀ b, (reallocS b s).1 = none ↔ (s.count + 1) ∈ s.fails) ∧
    (∀ b, (reallocS b s).1 = none → (reallocS b s).2.live = s.live) := by
  refine ⟨allocS_fails_iff s, ?_, fun b => reallocS_fails_iff b s, ?_⟩
  · intro h
    exact (allocS_none (s' := (allocS s).2) (by rw [← h])).1
  · intro b h
    exact (reallocS_none (b := b) (s' := (reallocS b s).2) (by rw [← h])).1

-- non-vacuity: request 3 fails, request 2 does not
example : (allocS { count := 2, fails := [3] }).1 = none ∧
          (allocS { count := 1, fails := [3] }).1 = some 0 := by decide

/-! ## per operation: failure is reported, all-or-nothing, and leaks nothing -/

/-- **cbtree_insert**: `false` (node allocation failed, or key refused) ⇒ same tree, same
    allocator holdings; `true` ⇒ exactly C06's insert on the tree, the new node is owned -/
theorem cbtree_insert_fault_atomic (t t' : CB) (e : Entry) (s s' : AS) (ok : Bool)
    (h : cbInsertA t e s = ((ok, t'), s')) :
    (ok = false → t' = t ∧ s'.live = s.live) ∧
    (ok = true → Usual.C06.insert t.eroot e = some t'.eroot ∧
       ∀ o, Holds s (t.owned ++ o) → Holds s' (t'.owned ++ o)) := by
  constructor
  · intro hf; subst hf; exact cbInsertA_false h
  · intro ht; subst ht; exact ⟨(cbInsertA_true h).1, (cbInsertA_true h).2.2⟩

-- non-vacuity: inserting "b" into {"a"} with the next request failing
example : cbInsertA { hdr := 0, root := some (.leaf ⟨[0x61], 1⟩) } ⟨[0x62], 2⟩
            { nextId := 1, live := [0], count := 1, fails := [2] } =
          ((false, { hdr := 0, root := some (.leaf ⟨[0x61], 1⟩) }),
            { nextId := 1, live := [0], count := 2, fails := [2] }) := by decide

/-- **strpool_get**: NULL ⇒ pool unchanged (count, reference counts, tree) and the `PStr`
    obtained in this call was released again -/
theorem strpool_get_fault_atomic (p p' : SP) (k : Key) (s s' : AS)
    (h : spGetA p k s = ((none, p'), s')) : p' = p ∧ s'.live = s.live := spGetA_null h

/-- **strpool_get**, success: every block obtained is owned by the pool -/
theorem strpool_get_owned (p p' : SP) (k : Key) (id : Id) (s s' : AS)
    (h : spGetA p k s = ((some id, p'), s')) :
    ∀ o, Holds s (p.owned ++ o) → Holds s' (p'.owned ++ o) := (spGetA_some h).2.2

-- non-vacuity: the PStr is obtained (request 3), the tree node is refused (request 4): rolled back
example :
    let p : SP := { hdr := 0, tree := { hdr := 1, root := some (.leaf ⟨[0x61], 2⟩) }, count := 1, refs := [(2, 1)] }
    let s : AS := { nextId := 3, live := [2, 1, 0], count := 3, fails := [5] }
    (spGetA p [0x62] s).1 = (none, p) ∧ (spGetA p [0x62] s).2.live = [2, 1, 0] ∧
    (spGetA p [0x62] s).2.count = 5 := by decide

/-- **strpool_create / mdict_new**: the struct is released when the tree cannot be created -/
theorem create_fault_no_leak (s s' : AS) :
    (spCreateA s = (none, s') → s'.live = s.live) ∧ (mdNewA s = (none, s') → s'.live = s.live) :=
  ⟨spCreateA_none, mdNewA_none⟩

example : (spCreateA { fails := [2] }).1 = none ∧ (spCreateA { fails := [2] }).2.live = [] ∧
          (spCreateA { fails := [2] }).2.count = 2 := by decide

/-- **mdict_put_str** (with F10): `false` ⇒ dict unchanged, and value copy, key copy and element
    obtained in this call were all released -/
theorem mdict_put_fault_atomic (d d' : MD) (k : Key) (v : Val) (s s' : AS)
    (h : mdPutA d k v s = ((false, d'), s')) : d' = d ∧ s'.live = s.live := mdPutA_false h

/-- **mdict_put_str**, success on a valid dict: the dict stays valid and owns every block -/
theorem mdict_put_owned (d d' : MD) (k : Key) (v : Val) (s s' : AS)
    (h : mdPutA d k v s = ((true, d'), s')) (hv : d.ok) (hk : NoTrailingZero k) :
    d'.ok ∧ ∀ o, Holds s (d.owned ++ o) → Holds s' (d'.owned ++ o) :=
  ⟨mdPutA_ok h hv hk, (mdPutA_true h hv.linked).2.2⟩

-- non-vacuity: new key with value; the 3rd request of the call (the element) fails
example :
    let d : MD := { hdr := 0, tree := { hdr := 1 } }
    let s : AS := { nextId := 2, live := [1, 0], count := 2, fails := [5] }
    (mdPutA d [0x6b] (some [0x76]) s).1 = (false, d) ∧ (mdPutA d [0x6b] (some [0x76]) s).2.live = [1, 0] ∧
    (mdPutA d [0x6b] (some [0x76]) s).2.count = 5 := by decide

/-- **mdict_urldecode** is incremental: on failure the dict is the dict after the rounds that
    completed, and the failing round left no trace — neither in the dict nor in the allocator
    (decoded key, decoded value and element of that round were released).  Whatever happens, a
    valid dict stays valid and owns every block still allocated. -/
theorem mdict_urldecode_fault_prefix (fuel : Nat) (d d' : MD) (src : List UInt8) (s s' : AS)
    (h : mdUrldecodeA fuel d src s = ((false, d'), s')) :
    ∃ src1 s1, UrlSteps d src s d' src1 s1 ∧ mdUrlPairA d' src1 s1 = (none, s') ∧
      s'.live = s1.live := mdUrldecodeA_false h

theorem mdict_urldecode_owned (fuel : Nat) (d d' : MD) (src : List UInt8) (ok : Bool) (s s' : AS)
    (h : mdUrldecodeA fuel d src s = ((ok, d'), s')) (hv : d.ok) (hk : urlKeysOk fuel src) :
    d'.ok ∧ ∀ o, Holds s (d.owned ++ o) → Holds s' (d'.owned ++ o) :=
  ⟨mdUrldecodeA_ok h hv hk, (mdUrldecodeA_holds h hv.linked).2.2⟩

-- non-vacuity: "a=1&b=2", the key of the second pair cannot be decoded: first pair stays
example :
    let d : MD := { hdr := 0, tree := { hdr := 1 } }
    let s : AS := { nextId := 2, live := [1, 0], count := 2, fails := [6] }
    let r := mdUrldecodeA 8 d [0x61, 0x3d, 0x31, 0x26, 0x62, 0x3d, 0x32] s
    r.1.1 = false ∧ r.1.2.pairs = [([0x61], some [0x31])] ∧ r.2.live.length = 5 := by decide

/-- **hashtab insert** (`hashtab_lookup(.., true, ..)`): NULL ⇒ chain unchanged, nothing new
    allocated; **hashtab_copy** (with F11): NULL ⇒ whatever had been built of the new chain is
    released, the old chain is untouched -/
theorem hashtab_fault_atomic (h h' : HT) (k v n : Nat) (s s' : AS) :
    (htPutA h k v s = ((none, h'), s') → h' = h ∧ s'.live = s.live) ∧
    (htCopyA h n s = (none, s') → ∀ o, Holds s o → Holds s' o) :=
  ⟨htPutA_null, htCopyA_none⟩

-- non-vacuity: copying 4 items into segments of size 2: the 2nd segment of the copy fails
example :
    let seg : HSeg := { id := 0, size := 8, used := 4, tab := [(8, 1), (1, 1), (2, 1), (3, 1), (0, 0), (0, 0), (0, 0), (0, 0)] }
    let s : AS := { nextId := 1, live := [0], count := 1, fails := [3] }
    (htCopyA [seg] 2 s).1 = none ∧ (htCopyA [seg] 2 s).2.live = [0] ∧ (htCopyA [seg] 2 s).2.count = 3 := by
  decide

/-- the unchanged `hashtab_copy` (no NULL check after `hashtab_create`, defect F11) violates
    the property: with the first request failing and one item to copy it dereferences NULL -/
theorem hashtab_copy_unfixed_counterexample :
    (htCopyUnfixedA [{ id := 0, size := 4, used := 1, tab := [(0, 0), (1, 7), (0, 0), (0, 0)] }] 8
        { nextId := 1, live := [0], count := 1, fails := [2] }).1 = .crash := by decide

/-- **heap_push / heap_reserve**: `false` ⇒ array pointer, capacity, contents unchanged -/
theorem heap_fault_atomic (h h' : HP) (x n : Nat) (s s' : AS) :
    (hpPushA h x s = ((false, h'), s') → h' = h ∧ s'.live = s.live) ∧
    (hpReserveA h n s = ((false, h'), s') → h' = h ∧ s'.live = s.live) :=
  ⟨hpPushA_false, hpReserveA_false⟩

example :
    let h : HP := { hdr := 0, data := some 1, allocated := 32, used := 32, elems := List.replicate 32 7 }
    let s : AS := { nextId := 2, live := [1, 0], count := 2, fails := [3] }
    (hpPushA h 5 s).1 = (false, h) ∧ (hpPushA h 5 s).2.live = [1, 0] := by decide

/-- **strlist_append**: `false` ⇒ list unchanged, the string copy was released;
    **pg_parse_array**: NULL ⇒ nothing obtained during the call remains allocated -/
theorem strlist_fault_atomic (l l' : SL) (v : Option (List UInt8)) (vals : List (Option (List UInt8)))
    (s s' : AS) :
    (slAppendA l v s = ((false, l'), s') → l' = l ∧ s'.live = s.live) ∧
    (pgParseA vals s = (none, s') → ∀ o, Holds s o → Holds s' o) :=
  ⟨slAppendA_false, pgParseA_none⟩

/-- **pg_parse_array**, success: the list holds exactly the element values and owns its blocks -/
theorem pg_parse_array_owned (vals : List (Option (List UInt8))) (l : SL) (s s' : AS)
    (h : pgParseA vals s = (some l, s')) :
    l.values = vals ∧ ∀ o, Holds s o → Holds s' (l.owned ++ o) := pgParseA_some h

-- non-vacuity: {a,NULL,b}: the item for "b" (7th request) fails: everything is released
example :
    let r := pgParseA [some [0x61], none, some [0x62]] { fails := [6] }
    r.1.isNone ∧ r.2.live = [] ∧ r.2.count = 6 := by decide

/-- **mbuf_make_room / mbuf_write**: `false` ⇒ buffer pointer, capacity and content unchanged -/
theorem mbuf_fault_atomic (m m' : MB) (n : Nat) (b : List UInt8) (s s' : AS) :
    (mbMakeRoomA m n s = ((false, m'), s') → m' = m ∧ s'.live = s.live) ∧
    (mbWriteA m b s = ((false, m'), s') → m' = m ∧ s'.live = s.live) :=
  ⟨mbMakeRoomA_false, mbWriteA_false⟩

example :
    let m : MB := { data := some 0, allocLen := 8, bytes := [1, 2, 3, 4, 5, 6, 7] }
    let s : AS := { nextId := 1, live := [0], count := 1, fails := [2] }
    (mbWriteA m [8, 9] s).1 = (false, m) ∧ (mbWriteA m [8, 9] s).2.live = [0] ∧
    (mbWriteA m [8] s).1.1 = true := by
  decide

/-- **slab_alloc**: NULL ⇒ counters and fragment list unchanged;
    **tree_alloc / tree_realloc / cx_new_tree(sub)**: NULL ⇒ tree unchanged (a block whose
    realloc failed is linked into the list again); **hmac_new**: NULL ⇒ the digest context
    obtained first was released -/
theorem slab_cxtree_hmac_fault_atomic (b b' : SB) (t t' : CT) (sub : Option Id) (blk : Id) (s s' : AS) :
    (sbAllocA b s = ((false, b'), s') → b' = b ∧ s'.live = s.live) ∧
    (ctAllocA t sub s = ((none, t'), s') → t' = t ∧ s'.live = s.live) ∧
    (ctReallocA t sub blk s = ((none, t'), s') → t' = t ∧ s'.live = s.live) ∧
    (ctNewSubA t s = ((none, t'), s') → t' = t ∧ s'.live = s.live) ∧
    (hmNewA s = (none, s') → s'.live = s.live) :=
  ⟨sbAllocA_false, ctAllocA_none, ctReallocA_none, ctNewSubA_none, hmNewA_none⟩

example : (hmNewA { fails := [2] }).1.isNone ∧ (hmNewA { fails := [2] }).2.live = [] ∧
          (hmNewA { fails := [2] }).2.count = 2 := by decide

/-! ## families built on the models of C09 (pool, mempool), C03 (JSON builder), C01/C19 (talloc)

These reuse the other properties' models unchanged: the C09 / C01 models take the answer of the
underlying allocator as an oracle, and here the oracle is the fault-injecting allocator. -/

/-- **cx pool** (`Usual.C09.Pool`): `cx_alloc` / `cx_realloc` on a pool that return NULL obtained
    nothing from the parent (the pool value is unchanged — it is not even returned); when they
    succeed every parent block is a segment of the pool -/
theorem pool_fault_atomic (p : Usual.C09.Pool) (ptr len : Nat) (s s' : AS) :
    (poolAllocA p len s = (none, s') → s'.live = s.live) ∧
    (poolReallocA p ptr len s = (none, s') → s'.live = s.live) ∧
    (∀ r, poolAllocA p len s = (some r, s') →
        ∀ o, Holds s (poolOwned p ++ o) → Holds s' (poolOwned r.1 ++ o)) ∧
    (∀ r, poolReallocA p ptr len s = (some r, s') →
        ∀ o, Holds s (poolOwned p ++ o) → Holds s' (poolOwned r.1 ++ o)) :=
  ⟨poolAllocA_none, poolReallocA_none, fun r h => poolAllocA_some (p' := r.1) (q := r.2) h,
   fun _ h => poolReallocA_some h⟩

-- non-vacuity: a fresh 1024-byte pool, 2000 bytes do not fit, the new segment is refused
example :
    let p := (poolNewA 0 8 {}).1.getD default
    let s1 : AS := { (poolNewA 0 8 {}).2 with fails := [2] }
    (poolNewA 0 8 {}).1.isSome = true ∧ (poolAllocA p 2000 s1).1 = none ∧
    (poolAllocA p 2000 s1).2.live = [0] ∧ (poolAllocA p 2000 s1).2.count = 2 ∧
    (poolAllocA p 100 s1).1.isSome = true := by decide

/-- **mempool / regcomp** (`Usual.C09.MemPool`): `mempool_alloc` returning NULL obtained nothing;
    `regcomp` — whatever sequence of pool allocations the pattern needs — leaves nothing
    allocated when it returns an error (REG_ESPACE from any allocation, or a syntax error), and
    after a successful `regcomp`, `regfree` returns every block -/
theorem mempool_regcomp_fault_no_leak (mp : Usual.C09.MemPool) (n : Nat) (sizes : List Nat)
    (e : Bool) (s s' : AS) :
    (mpAllocA mp n s = (none, s') → s'.live = s.live) ∧
    (regcompA n sizes e s = (none, s') → ∀ o, Holds s o → Holds s' o) ∧
    (∀ rx, regcompA n sizes e s = (some rx, s') →
        ∀ o, Holds s o → Holds s' (mpOwned rx ++ o) ∧ Holds (regfreeA rx s') o) :=
  ⟨mpAllocA_none, regcompA_none, fun _ h => regcompA_some h⟩

-- non-vacuity: three pool blocks are needed, the third calloc fails: REG_ESPACE, nothing left
example : (regcompA 40 [300, 400, 900, 50] false { fails := [3] }).1 = none ∧
          (regcompA 40 [300, 400, 900, 50] false { fails := [3] }).2.live = [] ∧
          (regcompA 40 [300, 400, 900, 50] false { fails := [3] }).2.count = 3 := by decide

/-- **JSON builder** (`Usual.C03.Heap` in a `Usual.C09.Pool`), for every size of every
    allocation: a call in which an allocation failed answers NULL / false and leaves the heap of
    values — every container's elements, `v_size`, every attachment flag — exactly as it was; a
    call whose allocations succeed does what C03's builder model says; in both cases every
    parent block is a segment of the context's pool -/
theorem json_builder_fault_atomic (sz : JSizes) (cyc : Bool) (c c' : JCtx) (op : Usual.C03.Op)
    (r : Usual.C03.Ret) (oom : Bool) (s s' : AS) (h : jsStepA sz cyc c op s = ((c', r, oom), s')) :
    (oom = true → c'.heap = c.heap ∧ r = failRet op) ∧
    (oom = false → (c'.heap, r) = c.heap.step true cyc op) ∧
    (∀ o, Holds s (poolOwned c.pool ++ o) → Holds s' (poolOwned c'.pool ++ o)) := by
  refine ⟨?_, ?_, (jsStepA_holds h).2⟩
  · intro ho; subst ho; exact jsStepA_oom h
  · intro ho; subst ho; exact jsStepA_ok h

/-- **json_parse**: NULL for lack of memory ⇒ the heap of values is untouched -/
theorem json_parse_fault_atomic (cyc : Bool) (sizes : List Nat) (v : Usual.C03.JVal) (c c' : JCtx)
    (r : Option Nat) (s s' : AS) (h : jsParseA cyc sizes v c s = ((c', r, true), s')) :
    c'.heap = c.heap ∧ r = none := jsParseA_oom h

/-- **talloc** (`Usual.C01.step`, repaired code): a call failed by the underlying allocator is
    C01's step with `fail = true`; in every well-formed state with acyclic holder graph it leaves
    the object graph as it was (C01 `failed_op_unchanged`), obtains and releases no block; and
    after every call — failed or not — the allocator holds exactly one block per live chunk -/
theorem talloc_fault_atomic (x : TaSt) (c : TaCall) (s : AS) (rk : Nat → Nat)
    (hwf : Usual.C01.wfOK x.t = true) (hrk : Usual.C01.Ranked rk x.t) (ht : x.tracks)
    (hoom : (taStepA x c s).1.2.2 = true) (hret : (taStepA x c s).1.2.1 = -1) :
    Usual.C01.absState (taStepA x c s).1.1.t = Usual.C01.absState x.t ∧
    (taStepA x c s).1.1.blk = x.blk ∧ (taStepA x c s).2.live = s.live :=
  taStepA_fault_atomic x c s rk hwf hrk ht hoom hret

/-- with a memory limit: a failed `talloc_size`-family call leaves every object and every
    memlimit counter as it was (C19 `failed_allocation_changes_nothing`) -/
theorem talloc_alloc_fault_keeps_counters (x : TaSt) (p : Option Nat) (n : Nat) (f : Bool) (s : AS)
    (rk : Nat → Nat) (hwf : Usual.C01.wfOK x.t = true) (hrk : Usual.C01.Ranked rk x.t)
    (hoom : (taStepA x (.alloc p n f) s).1.2.2 = true) :
    (taStepA x (.alloc p n f) s).1.2.1 = -1 ∧
    ∀ j, (taStepA x (.alloc p n f) s).1.1.t.get j = x.t.get j :=
  taStepA_alloc_fault_counters x p n f s rk hwf hrk hoom

/-- **talloc, no leak under any fault schedule**: after any history of calls the allocator holds
    exactly the blocks of the chunks still live, so once no chunk is live (C01
    `all_roots_freed_balanced`: no top-level object left) it holds nothing of them -/
theorem talloc_history_no_leak (cs : List TaCall) (s : AS) (o : List Id) (h : Holds s o)
    (hne : cs ≠ []) (hd : ∀ i, (taRun cs {} s).1.t.live i = false) :
    Holds (taRun cs {} s).2 o := by
  obtain ⟨h1, h2⟩ := taRun_holds cs {} s o (by simpa [TaSt.owned] using h)
  rw [ta_all_dead_no_blocks _ (h2 hne) hd] at h1
  simpa using h1

-- non-vacuity: root, child, a reference whose TRef allocation fails, a shrinking realloc that
-- fails, free of the root: every failing call answers -1 and in the end nothing is allocated
example :
    let cs := [TaCall.alloc none 8 true, .alloc (some 0) 100 false, .alloc (some 0) 16 false,
               .reference (some 2) 1, .realloc (some 0) 1 10, .free 0]
    let r := taRun cs {} { fails := [4, 5] }
    r.2.live = [] ∧ r.2.count = 5 ∧ (∀ i, i < 5 → r.1.t.live i = false) ∧
    (taStepA (taRun (cs.take 3) {} { fails := [4, 5] }).1 (.reference (some 2) 1)
        (taRun (cs.take 3) {} { fails := [4, 5] }).2).1.2 = (-1, true) := by decide

/-! ## scripts: create, any operations, destroy — under every fault schedule -/

/-- the per-operation facts above, packaged per module (`Laws`): creation failure leaves the
    allocator as it was; a failed all-or-nothing operation returns the same state and the same
    holdings; every operation keeps "valid, and every block still allocated is owned"; destroy
    returns everything owned -/
theorem modules_lawful :
    Laws cbMod ∧ Laws spMod ∧ Laws mdMod ∧ (∀ n, Laws (htMod n)) ∧ Laws hpMod ∧ Laws slMod ∧
    Laws mbMod ∧ (∀ n, Laws (sbMod n)) ∧ Laws ctMod ∧ Laws hmMod ∧
    (∀ i al, (al = 0 ∨ Usual.C09.isPowerOf2 al = true) → Laws (poolMod i al)) ∧ Laws mpMod ∧
    (∀ sz cyc i, Laws (jsMod sz cyc i)) :=
  ⟨cbLaws, spLaws, mdLaws, htLaws, hpLaws, slLaws, mbLaws, sbLaws, ctLaws, hmLaws,
   poolLaws, mpLaws, jsLaws⟩

/-- **No leak, whatever fails.**  For every lawful module, every operation list and EVERY
    allocator state — i.e. every set of failing request numbers — after create / operations /
    destroy the allocator holds exactly what it held before. -/
theorem script_any_faults_no_leak (M : Mod) (L : Laws M) (ops : List M.Op) (s : AS) (o : List Id)
    (h : Holds s o) (hp : ∀ st s1, M.create s = (some st, s1) → PreOk M ops st s1) :
    Holds (script M ops s) o := script_balanced L ops s o h hp

/-- **Single fault**: for every script and every index `k` of the request made to fail, after
    the failing operation, continued use and destroy, nothing is allocated. -/
theorem script_single_fault (M : Mod) (L : Laws M) (ops : List M.Op) (k : Nat)
    (hp : ∀ st s1, M.create { fails := [k] } = (some st, s1) → PreOk M ops st s1) :
    (script M ops { fails := [k] }).live = [] :=
  script_live_empty L ops _ rfl hp

/-- **Double fault** (and any longer schedule): the same lemmas compose. -/
theorem script_double_fault (M : Mod) (L : Laws M) (ops : List M.Op) (k₁ k₂ : Nat)
    (hp : ∀ st s1, M.create { fails := [k₁, k₂] } = (some st, s1) → PreOk M ops st s1) :
    (script M ops { fails := [k₁, k₂] }).live = [] :=
  script_live_empty L ops _ rfl hp

/-- **The structure stays usable with its previous contents**: a failed all-or-nothing
    operation is a no-op for the structure — the rest of the script runs from the very state
    the failed operation found. -/
theorem failed_op_leaves_structure_usable (M : Mod) (L : Laws M) (op : M.Op) (ops : List M.Op)
    (st st' : M.St) (s s' : AS) (ha : M.atomic op = true)
    (hf : M.step op st s = ((false, st'), s')) :
    st' = st ∧
    runOps M (op :: ops) st s =
      ((false :: (runOps M ops st s').1.1, (runOps M ops st s').1.2), (runOps M ops st s').2) :=
  ⟨(L.step_fail op st s st' s' ha hf).1, failed_op_is_noop L op ops st st' s s' ha hf⟩

/-- caller obligations that only depend on the operation (key preconditions) -/
theorem preOk_of_forall (M : Mod) (ops : List M.Op) (h : ∀ op, op ∈ ops → ∀ st, M.pre st op)
    (st : M.St) (s : AS) : PreOk M ops st s := by
  induction ops generalizing st s with
  | nil => trivial
  | cons op ops ih =>
    exact ⟨h op (by simp) st, ih (fun o ho => h o (by simp [ho])) _ _⟩

-- non-vacuity: a strpool script; request 4 (the tree node for the 2nd string) fails; the
-- failing get reports NULL, the script goes on, and in the end nothing is allocated
example :
    let ops := [SpOp.get [0x61], .get [0x62], .get [0x61], .get [0x63]]
    (∀ op, op ∈ ops → ∀ st, spMod.pre st op) ∧
    (spMod.create { fails := [4] }).1.isSome ∧
    (script spMod ops { fails := [4] }).live = [] ∧
    (script spMod ops { fails := [4] }).count = 6 := by
  refine ⟨?_, by decide, by decide, by decide⟩
  intro op hop st
  simp only [List.mem_cons, List.not_mem_nil, or_false] at hop
  rcases hop with rfl | rfl | rfl | rfl <;> simp [spMod, NoTrailingZero]

-- non-vacuity: a double fault in an mdict script (value copy of the 1st put, element of the 2nd)
example :
    let ops := [MdOp.put [0x61] (some [0x31]), .put [0x62] none, .url [0x63, 0x3d, 0x64], .del [0x62]]
    (script mdMod ops { fails := [3, 5] }).live = [] ∧ (script mdMod ops { fails := [3, 5] }).count = 8 := by
  decide

end UsualProps.C10
