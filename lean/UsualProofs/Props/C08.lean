import UsualProofs.C08.Match
import UsualProofs.C08.Check
import UsualProofs.C08.Old
/-!
# C08 — TLS server-name verification accepts only names the certificate really covers

Property theorems about the model `Usual.C08` (`lean/Usual/C08/TlsName.lean`, a statement by
statement transcription of `usual/tls/tls_verify.c` after repairs F17/F18) against the spec
`Usual.C08.Covers` (`lean/Usual/C08/Spec.lean`, the wording of the property).

All theorems hold for every classifier `ipLit` of IP literals (= whichever `inet_pton` is
linked); the examples use the model of the platform's one, `Usual.C08.ipLit true`.
Byte strings in the examples are written out: `*`=42 `.`=46 `a`=97 `b`=98 `c`=99 `A`=65 `1`=49 …
-/
namespace UsualProps.C08
open Usual.C08 UsualProofs.C08

/-! ## tls_match_name -/

/-- A match is either equality up to ASCII case, or a wildcard `*.` + two non-empty labels (+ more)
    whose suffix equals the requested name minus its first (non-empty, dot-free) label. -/
theorem match_sound (cert name : Str) (h : matchName cert name = true) : NameCovers cert name :=
  matchName_sound cert name h

-- "*.a.b" matches "c.A.b" (wildcard, not equality)
example : matchName [42,46,97,46,98] [99,46,65,46,98] = true ∧
    eqi [42,46,97,46,98] [99,46,65,46,98] = false := by decide

/-- Every name covered by the rules is accepted. -/
theorem match_complete (cert name : Str) (h : NameCovers cert name) : matchName cert name = true :=
  matchName_complete cert name h

-- the hypotheses are satisfiable by a genuine wildcard: "*.a.b" covers "c.a.b"
example : NameCovers [42,46,97,46,98] [99,46,97,46,98] :=
  Or.inr ⟨⟨[97], [98], [], by decide, ⟨by decide, by decide⟩, ⟨by decide, by decide⟩, Or.inl rfl⟩,
    [99], [46,97,46,98], by decide, ⟨by decide, by decide⟩, by decide, by decide⟩

/-- The wildcard never spans more than one label: if what stands in front of the matched
    suffix contains a dot, there is no match.  (`*.a.b` does not match `x.y.a.b`.) -/
theorem wildcard_one_label (cd pre dom : Str) (heq : eqi cd dom = true) (hpre : DOT ∈ pre) :
    matchName (STAR :: cd) (pre ++ dom) = false := by
  cases hm : matchName (STAR :: cd) (pre ++ dom) with
  | false => rfl
  | true =>
    exfalso
    have hlen := eqi_length heq
    rcases matchName_sound _ _ hm with he | ⟨_, lbl, dom', hn, hlbl, _, he⟩
    · have hl := eqi_length he
      simp only [List.length_cons, List.length_append] at hl
      have h1 : pre.length = 1 := by omega
      match pre, h1, hpre with
      | [x], _, hx =>
        have hx : x = DOT := by
          have : DOT = x := by simpa using hx
          exact this.symm
        subst hx
        have := (eqi_iff _ _).1 he
        simp only [List.cons_append, List.nil_append, List.map_cons, List.cons.injEq] at this
        exact star_ne_dot_lower this.1
    · simp only [List.tail_cons] at he
      have hl := eqi_length he
      have := List.append_inj' hn (by omega)
      rw [this.1] at hpre
      exact hlbl.2 hpre

-- "*.a.b" vs "c.c.a.b": pre = "c.c" contains a dot
example : matchName (STAR :: [46,97,46,98]) ([99,46,99] ++ [46,97,46,98]) = false :=
  wildcard_one_label [46,97,46,98] [99,46,99] [46,97,46,98] (by decide) (by decide)

/-- The wildcard never stands for part of a label: unless the certificate name begins with the
    complete label `*` (i.e. with `*.`), only equality up to case can match.
    (`*foo.bar`, `f*.bar`, `foo.*.bar` are plain strings.) -/
theorem wildcard_not_partial (cert name : Str) (h : ∀ r, cert ≠ STAR :: DOT :: r) :
    matchName cert name = eqi cert name := by
  cases he : eqi cert name with
  | true => unfold matchName; simp [he]
  | false =>
    cases hm : matchName cert name with
    | false => rfl
    | true =>
      exfalso
      rcases matchName_sound _ _ hm with h1 | ⟨⟨l1, l2, rest, hc, _⟩, _⟩
      · rw [he] at h1; cases h1
      · exact h (l1 ++ [DOT] ++ l2 ++ rest) (by rw [hc]; simp)

-- "*a.a.b" does not match "ca.a.b", "c*.a.b" does not match "cc.a.b"
example : matchName [42,97,46,97,46,98] [99,97,46,97,46,98] = false ∧
    matchName [99,42,46,97,46,98] [99,99,46,97,46,98] = false := by decide

/-! ## tls_check_name -/

/-- IP literals: the only ways to be accepted are an identical iPAddress entry or a
    byte-identical Common Name — no wildcard, no case folding, no dNSName. -/
theorem no_wildcard_for_ip (ipLit : Str → Option Str) (cert : Cert) (name addr : Str)
    (hip : ipLit name = some addr) :
    checkName ipLit cert name = .ok ↔
      (SanEntry.ip addr ∈ cert.sans ∨ (cert.cns.head? = some name ∧ NUL ∉ name)) := by
  unfold checkName
  rw [hip, scanSAN_ip]
  by_cases hm : SanEntry.ip addr ∈ cert.sans
  · simp [hm]
  · simp only [hm, ↓reduceIte, false_or]
    exact checkCN_ip addr name cert.cns

-- requested "1.2.3.4": CN "*.2.3.4" and dNSName "1.2.3.4" do not help, iPAddress 01020304 does
example : checkName (ipLit true) ⟨[.dns [49,46,50,46,51,46,52]], [[42,46,50,46,51,46,52]]⟩
      [49,46,50,46,51,46,52] = .noMatch ∧
    checkName (ipLit true) ⟨[.ip [1,2,3,4]], []⟩ [49,46,50,46,51,46,52] = .ok := by decide

/-- SOUNDNESS: acceptance implies that the certificate covers the name by the rules. -/
theorem sound (ipLit : Str → Option Str) (cert : Cert) (name : Str)
    (h : checkName ipLit cert name = .ok) : Covers ipLit cert name := by
  unfold Covers
  cases hip : ipLit name with
  | some addr => exact (no_wildcard_for_ip ipLit cert name addr hip).1 h
  | none =>
    simp only
    unfold checkName at h
    rw [hip] at h
    cases hs : scanSAN none name cert.sans with
    | ok =>
      obtain ⟨d, m, h1, h2, h3⟩ := scanSAN_dns_ok name cert.sans hs
      exact Or.inl ⟨d, m, h1, h2, matchName_sound _ _ h3⟩
    | noMatch =>
      rw [hs] at h
      obtain ⟨cn, c1, c2, c3⟩ := (checkCN_dns name cert.cns).1 h
      exact Or.inr ⟨cn, c1, c2, matchName_sound _ _ c3⟩
    | errNulSan => rw [hs] at h; cases h
    | errSpace => rw [hs] at h; cases h
    | errNulCN => rw [hs] at h; cases h

-- a certificate that is accepted through its second dNSName, a wildcard
example : checkName (ipLit true) ⟨[.dns [98], .dns [42,46,97,46,98]], [[99]]⟩ [99,46,65,46,98] = .ok := by
  decide

/-- COMPLETENESS: every name the certificate covers is accepted, provided no malicious
    dNSName is in the certificate (a malicious entry reached first turns the answer into an
    error — see `malicious_san_is_error`; `complete_first_hit` is the sharper form). -/
theorem complete (ipLit : Str → Option Str) (cert : Cert) (name : Str)
    (hc : Covers ipLit cert name) (hclean : ipLit name = none → CleanSans cert.sans) :
    checkName ipLit cert name = .ok := by
  unfold Covers at hc
  cases hip : ipLit name with
  | some addr =>
    rw [hip] at hc
    exact (no_wildcard_for_ip ipLit cert name addr hip).2 hc
  | none =>
    rw [hip] at hc
    simp only at hc
    have hcl := hclean hip
    unfold checkName
    rw [hip]
    rcases hc with ⟨d, m, h1, h2, h3⟩ | ⟨cn, c1, c2, c3⟩
    · obtain ⟨pre, post, hsplit⟩ := List.append_of_mem m
      have hpre : ∀ d', SanEntry.dns d' ∈ pre → ¬ MaliciousDns d' := fun d' hd' =>
        hcl d' (by rw [hsplit]; simp [hd'])
      have hhit := scanSAN_dns_hit_match name d post h1 h2 (matchName_complete _ _ h3)
      rcases scanSAN_dns_clean_prefix name pre (.dns d :: post) hpre with r | r
      · rw [hsplit, r]
      · rw [hsplit, r, hhit]
    · have hcn : checkCN none name cert.cns = .ok :=
        (checkCN_dns name cert.cns).2 ⟨cn, c1, c2, matchName_complete _ _ c3⟩
      rcases scanSAN_dns_clean name cert.sans hcl with r | r
      · rw [r]
      · rw [r]; exact hcn

-- covered through the CN (wildcard) while the SAN has unrelated, clean entries
example : Covers (ipLit true) ⟨[.dns [98], .ip [1,2,3,4]], [[42,46,97,46,98]]⟩ [99,46,97,46,98] ∧
    (ipLit true [99,46,97,46,98] = none → CleanSans [.dns [98], .ip [1,2,3,4]]) := by
  refine ⟨?_, fun _ d hd => ?_⟩
  · have : ipLit true [99,46,97,46,98] = none := by decide
    unfold Covers; rw [this]
    exact Or.inr ⟨[42,46,97,46,98], rfl, by decide, matchName_sound _ _ (by decide)⟩
  · have : d = [98] := by simpa using hd
    subst this
    intro h; rcases h with h | h
    · exact absurd h (by decide)
    · exact absurd h (by decide)

/-- Sharper completeness for subjectAltName: a clean covering dNSName is accepted as soon as
    no malicious dNSName stands *before* it (what comes after does not matter). -/
theorem complete_first_hit (ipLit : Str → Option Str) (cert : Cert) (name d : Str)
    (pre post : List SanEntry) (hip : ipLit name = none)
    (hs : cert.sans = pre ++ .dns d :: post)
    (hpre : ∀ d', SanEntry.dns d' ∈ pre → ¬ MaliciousDns d')
    (hd : ¬ MaliciousDns d) (hcov : NameCovers d name) :
    checkName ipLit cert name = .ok := by
  have h1 : NUL ∉ d := fun e => hd (Or.inl e)
  have h2 : d ≠ [SPACE] := fun e => hd (Or.inr e)
  have hhit := scanSAN_dns_hit_match name d post h1 h2 (matchName_complete _ _ hcov)
  unfold checkName
  rw [hip, hs]
  rcases scanSAN_dns_clean_prefix name pre (.dns d :: post) hpre with r | r
  · rw [r]
  · rw [r, hhit]

-- [good, evil]: "a" then "a\0b" — accepted for "a"
example : checkName (ipLit true) ⟨[.dns [97], .dns [97,0,98]], []⟩ [97] = .ok := by decide

/-- A malicious dNSName (embedded NUL, or the single space) that the scan reaches — every
    dNSName before it is clean and does not cover the name — makes the result the error -2
    with the matching explanatory text; it is never a match and never "no match". -/
theorem malicious_san_is_error (ipLit : Str → Option Str) (cert : Cert) (name d : Str)
    (pre post : List SanEntry) (hip : ipLit name = none)
    (hs : cert.sans = pre ++ .dns d :: post)
    (hpre : ∀ d', SanEntry.dns d' ∈ pre → ¬ MaliciousDns d' ∧ ¬ NameCovers d' name)
    (hd : MaliciousDns d) :
    checkName ipLit cert name = (if NUL ∈ d then .errNulSan else .errSpace) ∧
    (checkName ipLit cert name).rc = -2 ∧ (checkName ipLit cert name).errClass ≠ "none" := by
  have hskip : ∀ e ∈ pre, Skipped name e := by
    intro e he d' hd'
    subst hd'
    obtain ⟨a, b⟩ := hpre d' he
    refine ⟨fun x => a (Or.inl x), fun x => a (Or.inr x), ?_⟩
    cases hm : matchName d' name with
    | false => rfl
    | true => exact absurd (matchName_sound _ _ hm) b
  have hscan : scanSAN none name cert.sans = (if NUL ∈ d then .errNulSan else .errSpace) := by
    rw [hs, scanSAN_dns_prefix name pre _ hskip]
    by_cases hn : NUL ∈ d
    · rw [if_pos hn]; exact scanSAN_dns_hit_nul name d post hn
    · rw [if_neg hn]
      rcases hd with hd | hd
      · exact absurd hd hn
      · subst hd; exact scanSAN_dns_hit_space name post
  have hres : checkName ipLit cert name = (if NUL ∈ d then .errNulSan else .errSpace) := by
    unfold checkName
    rw [hip, hscan]
    by_cases hn : NUL ∈ d
    · simp [hn]
    · simp [hn]
  refine ⟨hres, ?_, ?_⟩
  · rw [hres]; by_cases hn : NUL ∈ d <;> simp [hn, Res.rc]
  · rw [hres]; by_cases hn : NUL ∈ d <;> simp [hn, Res.errClass]

-- [evil, good]: "a\0b" before "a" is an error for "a";  " " likewise
example : checkName (ipLit true) ⟨[.dns [97,0,98], .dns [97]], []⟩ [97] = .errNulSan ∧
    checkName (ipLit true) ⟨[.dns [98], .dns [32], .dns [97]], [[97]]⟩ [97] = .errSpace := by decide

/-- A Common Name with an embedded NUL is reported as error -2 (with its text) whenever the
    Common Name is consulted, i.e. the subjectAltName gave no answer — also for IP literals. -/
theorem malicious_cn_is_error (ipLit : Str → Option Str) (cert : Cert) (name cn : Str)
    (hcn : cert.cns.head? = some cn) (hnul : NUL ∈ cn)
    (hdns : ipLit name = none →
      ∀ d, SanEntry.dns d ∈ cert.sans → ¬ MaliciousDns d ∧ ¬ NameCovers d name)
    (hipa : ∀ addr, ipLit name = some addr → SanEntry.ip addr ∉ cert.sans) :
    checkName ipLit cert name = .errNulCN ∧ (checkName ipLit cert name).rc = -2 ∧
    (checkName ipLit cert name).errClass ≠ "none" := by
  have hcns : ∃ t, cert.cns = cn :: t := by
    cases hc : cert.cns with
    | nil => rw [hc] at hcn; cases hcn
    | cons x t => rw [hc] at hcn; simp at hcn; exact ⟨t, by rw [hcn]⟩
  obtain ⟨t, hcns⟩ := hcns
  have hres : checkName ipLit cert name = .errNulCN := by
    unfold checkName
    cases hip : ipLit name with
    | some addr =>
      rw [scanSAN_ip, if_neg (hipa addr hip), hcns]
      exact checkCN_nul _ name cn t hnul
    | none =>
      have hskip : ∀ e ∈ cert.sans, Skipped name e := by
        intro e he d' hd'
        subst hd'
        obtain ⟨a, b⟩ := hdns hip d' he
        refine ⟨fun x => a (Or.inl x), fun x => a (Or.inr x), ?_⟩
        cases hm : matchName d' name with
        | false => rfl
        | true => exact absurd (matchName_sound _ _ hm) b
      rw [(scanSAN_dns_noMatch name cert.sans).2 hskip, hcns]
      exact checkCN_nul _ name cn t hnul
  exact ⟨hres, by rw [hres]; rfl, by rw [hres]; decide⟩

-- CN "a\0b", no SAN, requested "a"
example : checkName (ipLit true) ⟨[], [[97,0,98]]⟩ [97] = .errNulCN := by decide

/-- A certificate whose only names are malicious is never accepted. -/
theorem malicious_never_ok (ipLit : Str → Option Str) (cert : Cert) (name : Str)
    (hip : ipLit name = none)
    (hsan : ∀ d, SanEntry.dns d ∈ cert.sans → MaliciousDns d)
    (hcn : ∀ cn, cert.cns.head? = some cn → NUL ∈ cn) :
    (checkName ipLit cert name).rc ≠ 0 := by
  intro h0
  have hok : checkName ipLit cert name = .ok := by
    cases hr : checkName ipLit cert name <;> rw [hr] at h0 <;> first | rfl | (exact absurd h0 (by decide))
  have hc := sound ipLit cert name hok
  unfold Covers at hc
  rw [hip] at hc
  rcases hc with ⟨d, m, h1, h2, _⟩ | ⟨cn, c1, c2, _⟩
  · rcases hsan d m with h | h
    · exact h1 h
    · exact h2 h
  · exact c2 (hcn cn c1)

example : (checkName (ipLit true) ⟨[.dns [97,0]], [[0,97]]⟩ [97]).rc = -2 := by decide

/-- The result is -2 exactly when an explanatory `tls_error` text is left behind. -/
theorem error_has_text (r : Res) : r.rc = -2 ↔ r.errClass ≠ "none" := by
  cases r <;> simp [Res.rc, Res.errClass]

example : (Res.errSpace).rc = -2 ∧ (Res.errSpace).errClass = "space" := by decide

/-- `tls_peer_cert_contains_name` says yes only for covered names. -/
theorem contains_sound (ipLit : Str → Option Str) (cert : Cert) (name : Str)
    (h : containsName ipLit cert name = true) : Covers ipLit cert name := by
  unfold containsName at h
  exact sound ipLit cert name (by simpa using h)

example : containsName (ipLit true) ⟨[.dns [42,46,97,46,98]], []⟩ [99,46,97,46,98] = true := by decide

/-! ## the client handshake (tail of `tls_handshake_client`, verify_name on) -/

/-- The handshake succeeds only for covered names; otherwise it fails with -1 — in
    particular a malicious certificate name is a definite failure with its explanatory text,
    never `TLS_WANT_POLLIN` (-2). -/
theorem handshake_sound (ipLit : Str → Option Str) (cert : Cert) (name : Str) :
    ((handshakeRc (checkName ipLit cert name)).1 = 0 → Covers ipLit cert name) ∧
    ((handshakeRc (checkName ipLit cert name)).1 = 0 ∨ (handshakeRc (checkName ipLit cert name)).1 = -1) ∧
    ((checkName ipLit cert name).rc = -2 →
      handshakeRc (checkName ipLit cert name) = (-1, (checkName ipLit cert name).errClass) ∧
      (checkName ipLit cert name).errClass ≠ "none") := by
  refine ⟨fun h => ?_, ?_, fun h => ?_⟩
  · apply sound
    cases hr : checkName ipLit cert name <;> rw [hr] at h <;> first | rfl | (exact absurd h (by decide))
  · cases checkName ipLit cert name <;> simp [handshakeRc]
  · cases hr : checkName ipLit cert name <;> rw [hr] at h <;>
      first | (exact absurd h (by decide)) | (exact ⟨rfl, by decide⟩)

example : handshakeRc (checkName (ipLit true) ⟨[.dns [97,0,98]], []⟩ [97]) = (-1, "nul-san") := by decide

/-- THE PEER QUERY DEPENDS ON NOTHING BUT (RECORDED CERTIFICATE, QUERIED NAME): a "yes" of
    `tls_peer_cert_contains_name` on a live connection means that a certificate was recorded
    and that it covers the queried name by the rules — whatever name was passed to
    `tls_connect*`, whether `verify_name` was on, and whatever state the handshake is in
    (`peerContains` has no such arguments); in particular with verification off a completed
    handshake proves nothing about the connected name. -/
theorem peer_query_sound (ipLit : Str → Option Str) (peer : Option Cert) (q : Str)
    (h : peerContains ipLit peer q = true) : ∃ c, peer = some c ∧ Covers ipLit c q := by
  cases peer with
  | none => simp [peerContains] at h
  | some c => exact ⟨c, rfl, contains_sound ipLit c q (by simpa [peerContains] using h)⟩

/-- … and every covered name is answered "yes" (no malicious dNSName in the way). -/
theorem peer_query_complete (ipLit : Str → Option Str) (c : Cert) (q : Str)
    (hc : Covers ipLit c q) (hclean : ipLit q = none → CleanSans c.sans) :
    peerContains ipLit (some c) q = true := by
  simp [peerContains, containsName, complete ipLit c q hc hclean]

-- verify_name off: the handshake for "x" completes against a certificate for "a"; asked about
-- "x" (the connected name) the answer is no, about "a" yes; malicious "a\0b": no for "a"
example : handshakeCfg false (checkName (ipLit true) ⟨[.dns [97]], []⟩ [120]) = (0, "none") ∧
    peerContains (ipLit true) (recordedPeer 0 ⟨[.dns [97]], []⟩) [120] = false ∧
    peerContains (ipLit true) (recordedPeer 0 ⟨[.dns [97]], []⟩) [97] = true ∧
    peerContains (ipLit true) (recordedPeer 0 ⟨[.dns [97,0,98]], []⟩) [97] = false := by decide

/-- helper: from a state that is not falsely "complete", every call of a script gives the same
    answer, fixed by the verdict of the name check -/
theorem runCalls_const (r : Res) : ∀ (calls : List Call) (c : Client),
    (c.complete = true → r = .ok) →
    ∀ x ∈ runCalls r c calls, x = (decide (r = .ok), (handshakeRc r).2)
  | [], _, _ => by simp [runCalls]
  | k :: ks, c, hc => by
    intro x hx
    simp only [runCalls, List.mem_cons] at hx
    rcases hx with hx | hx
    · subst hx
      cases r <;> cases k <;> cases c with | mk b => cases b <;>
        first | rfl | (exact absurd (hc rfl) (by decide))
    · refine runCalls_const r ks _ ?_ x hx
      cases r <;> cases k <;> cases c with | mk b => cases b <;>
        first | (intro _; rfl) | (intro h; exact absurd h (by decide)) | (exact absurd (hc rfl) (by decide))

/-- RETRIES DO NOT CHANGE THE VERDICT: on one connection, whatever sequence of further
    `tls_handshake` / `tls_write` / `tls_read` calls the application makes, every call succeeds
    exactly when the certificate covers the name given to the connect call — a refused name
    (mismatch, wildcard misuse, IP literal, malicious NUL/" " name) stays refused with its
    explanatory text, inside read/write too, and an accepted one stays accepted. -/
theorem verdict_stable_under_retry (ipLit : Str → Option Str) (cert : Cert) (name : Str)
    (calls : List Call) :
    ∀ x ∈ runCalls (checkName ipLit cert name) ⟨false⟩ calls,
      x = (decide (checkName ipLit cert name = .ok), (handshakeRc (checkName ipLit cert name)).2) ∧
      (x.1 = true → Covers ipLit cert name) := by
  intro x hx
  have h := runCalls_const (checkName ipLit cert name) calls ⟨false⟩ (by intro h; cases h) x hx
  refine ⟨h, fun hx1 => ?_⟩
  rw [h] at hx1
  exact sound ipLit cert name (by simpa using hx1)

-- "a\0b" asked for "a": handshake, handshake, write, read — refused four times with the same text;
-- "*.a.b" asked for "c.a.b": accepted every time
example : runCalls (checkName (ipLit true) ⟨[.dns [97,0,98]], []⟩ [97]) ⟨false⟩ [.hs, .hs, .wr, .rd] =
      [(false, "nul-san"), (false, "nul-san"), (false, "nul-san"), (false, "nul-san")] ∧
    runCalls (checkName (ipLit true) ⟨[.dns [42,46,97,46,98]], []⟩ [99,46,97,46,98]) ⟨false⟩ [.wr, .hs, .rd] =
      [(true, "none"), (true, "none"), (true, "none")] := by decide

/-! ## the unchanged code violates the property (defects F17, F18) -/

/-- F17: before the repair, `*.a.` (one non-empty label after `*.`) matched `c.a.`, which the
    rules do not cover.  Replayed on the real code by corpus/C08/f17-wildcard-trailing-dot.ops. -/
theorem old_wildcard_counterexample :
    ¬ (∀ cert name, matchNameOld cert name = true → NameCovers cert name) := by
  intro h
  have hc := h [42,46,97,46] [99,46,97,46] (by decide)
  have : matchName [42,46,97,46] [99,46,97,46] = true := matchName_complete _ _ hc
  exact absurd this (by decide)

/-- F18: before the repair, a malicious certificate name made the handshake return -2, which
    is `TLS_WANT_POLLIN`, not an error.  Replayed by corpus/C08/f18-handshake-malicious.ops. -/
theorem old_handshake_counterexample :
    ∃ cert name, (checkName (ipLit true) cert name).rc = -2 ∧
      handshakeRcOld (checkName (ipLit true) cert name) = TLS_WANT_POLLIN :=
  ⟨⟨[.dns [97,0,98]], []⟩, [97], by decide, by decide⟩

end UsualProps.C08
