/-! Property theorems for C08 (stub: not built yet). -/
