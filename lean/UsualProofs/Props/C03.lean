import UsualProofs.C03.RoundTrip
import UsualProofs.C03.BuildInv
import UsualProofs.C03.ParseWf
import UsualProofs.C03.Utf8Link
import UsualProofs.C03.EndToEnd
import UsualProofs.C03.Forest
import UsualProofs.C03.Load
/-!
# C03 — JSON render/parse round trip and builder consistency

Property-level theorems only.  Models: `Usual/C03/Render.lean` (= `json_render`),
`Usual/C03/Build.lean` (= the builder API; dicts are the crit-bit tree model of C06),
specification: `Usual/C03/Rfc.lean` (RFC 8259 / RFC 3629 reference recogniser–evaluator) and
`Usual/C03/Value.lean`.  The models are tied to `usual/json.c` by the correspondence run of
`checks/C03.py` (driver `Driver/C03.lean` vs `harness/C03/h.c`).

Reading guide:
* `v.wf` — integers within ±(2^53−1), finite doubles, valid NUL-free UTF-8 strings and names,
  names of every dict strictly ascending bytewise (the order `json_dict_iter` visits them).
  `built_wf` shows that every tree the builder can produce satisfies it.
* `fmt17 : UInt64 → Bytes` is what `snprintf("%.17g")` prints for a double given by its bits,
  `strtod : Bytes → Option UInt64` what `strtod` reads.  The two facts about the libc the round
  trip needs are explicit hypotheses, *not proved* (they are checked on every double a check run
  uses): `hsyn` — the rendered text is an RFC 8259 number token with a fraction or exponent;
  `hf` — `strtod` maps it back to the same bits.
* Nesting depth: no theorem needs a bound.  `json.c`'s parser is iterative (parent pointers, no
  nesting limit); `json_render` recurses once per level, which is what the property's "depth up
  to 512" keeps within the C stack — the run exercises depth 512, the model has no stack.
* Builder histories are *all* finite sequences of `Op` (every public constructor / append / put
  call, with NULL or dangling arguments, duplicate keys, already attached values, invalid
  strings, out-of-range numbers), starting from the empty context; `f2fixed = true` is the
  repaired code (fixes/F02-json-dict-size.patch), `false` the code as found.
-/
namespace UsualProps.C03
open Usual.C03
open Usual.C03.Rfc (parse)

/-! ## strings -/

/-- **escape / unescape.**  For every valid NUL-free UTF-8 string, un-escaping the string
literal `json_render` writes (RFC 8259 §7 grammar, all escapes incl. surrogate pairs) gives the
string back, byte for byte. -/
theorem escape_unescape (s rest : Bytes) (hs : validString s = true) :
    ∃ body, renderString s = 0x22 :: body ∧ Rfc.string (body ++ rest) = some (s, rest) := by
  refine ⟨escBody 0 s ++ [0x22], rfl, ?_⟩
  simpa using string_escBody s rest hs

/-- non-vacuity: controls, quote, backslash, DEL, 2/3/4-byte sequences, U+2028, U+2029 -/
example : validString [0x01, 0x0A, 0x22, 0x5C, 0x2F, 0x7F, 0xC2, 0x80, 0xE2, 0x80, 0xA8, 0xE2, 0x80, 0xA9,
    0xEF, 0xBF, 0xBF, 0xF4, 0x8F, 0xBF, 0xBF] = true := by decide
example : renderString [0x01, 0x0A, 0xE2, 0x80, 0xA8, 0x41] =
    [0x22, 0x5C, 0x75, 0x30, 0x30, 0x30, 0x31, 0x5C, 0x6E, 0x5C, 0x75, 0x32, 0x30, 0x32, 0x38, 0x41, 0x22] := by
  decide

/-! ## render / parse -/

/-- **json_render emits an RFC 8259 document.**  Pure recognition (`strtod` replaced by a
constant: only the syntax matters), under the syntactic hypothesis on `%.17g`. -/
theorem render_is_rfc (fmt17 : UInt64 → Bytes)
    (hsyn : ∀ x, isFinite x = true → floatTok (renderFloat fmt17 x) = true)
    (v : JVal) (hv : v.wf = true) :
    Rfc.valid (fun _ => some 0) (render fmt17 v) := by
  have H : FloatHyp (fun _ => some 0) fmt17 (fun _ => 0) :=
    fun x hx => ⟨hsyn x hx, rfl, (by decide : Rfc.isFiniteBits 0 = true)⟩
  simp [Rfc.valid, parse_render _ fmt17 _ H v hv]

/-- **Round trip.**  Parsing the rendered document yields a structurally equal tree: same types,
equal integers, bit-identical doubles (including subnormals and −0.0: `hf` is about bits),
byte-identical strings, list order, equal members. -/
theorem render_parse_roundtrip (strtod : Bytes → Option UInt64) (fmt17 : UInt64 → Bytes)
    (hsyn : ∀ x, isFinite x = true → floatTok (renderFloat fmt17 x) = true)
    (hf : ∀ x, isFinite x = true → strtod (renderFloat fmt17 x) = some x)
    (v : JVal) (hv : v.wf = true) :
    Rfc.parse strtod (render fmt17 v) = some v := by
  have H : FloatHyp strtod fmt17 id := fun x hx => ⟨hsyn x hx, hf x hx, hx⟩
  rw [parse_render strtod fmt17 id H v hv, JVal.mapF_id]

/-- non-vacuity: the hypotheses are satisfiable for *all* doubles (bit pattern in decimal + `.0`
as `%.17g`), and a tree with every kind of node, a subnormal, −0.0 and U+2028 is well-formed -/
example : (∀ x, isFinite x = true → floatTok (renderFloat fmtCanon x) = true) ∧
    (∀ x, isFinite x = true → sdCanon (renderFloat fmtCanon x) = some x) :=
  ⟨fun x _ => by rw [renderFloat_canon]; exact floatTok_canon x,
   fun x _ => by rw [renderFloat_canon]; exact sdCanon_canon x⟩
example : (JVal.dict [([], .list [.int (-9007199254740991), .float 1, .float 0x8000000000000000, .null]),
    ([0x61], .str [0xE2, 0x80, 0xA8, 0x0A]), ([0x61, 0x62], .dict []), ([0x62], .bool true)]).wf = true := by
  decide

/-! ## builder -/

/-- heaps reachable by builder calls from a fresh context (code with repair F2; `cyc` says
whether the proposed repair F38 — refuse attaching a container below itself — is present:
every theorem of this section holds for both) -/
def reachC (cyc : Bool) (ops : List Op) : Heap := (Heap.run true cyc {} ops).1

/-- reachable heaps of the code as it is in the repository (F2 repaired, no cycle check) -/
abbrev reach (ops : List Op) : Heap := reachC false ops

/-- **json_value_size = number of elements iteration visits**, in every state reachable by any
sequence of builder calls including failing ones, for every container. -/
theorem size_eq_iter (cyc : Bool) (ops : List Op) (p : Option Nat) (l : List Nat)
    (hl : (reachC cyc ops).iter p = some l) : (reachC cyc ops).valueSize p = l.length :=
  (SizeInv.run SizeInv.empty cyc ops).size_eq_iter p l hl

/-- non-vacuity: duplicate key, invalid UTF-8 key, out-of-range int, NaN, re-attachment, NULL -/
example : let h := reach [.newDict, .newList, .putS 0 [0x61] (.int 1), .putS 0 [0x61] (.int 2),
      .putS 0 [0xC0] .null, .putS 0 [0x62] (.int (2 ^ 53)), .putS 0 [0x62] (.float 0x7FF8000000000000),
      .put (some 0) [0x63] (some 1), .put (some 0) [0x64] (some 1), .append (some 1) none,
      .appendS 1 (.str [0x80]), .appendS 1 (.str [0x41])]
    h.iter (some 0) = some [2, 1] ∧ h.valueSize (some 0) = 2 ∧ h.iter (some 1) = some [5] := by
  decide

/-- **Defect F2 (code as found).**  With `v_size++` before `cbtree_insert`, a refused duplicate
`json_dict_put` leaves `json_value_size` = 2 while iteration visits 1 element. -/
theorem size_eq_iter_fails_before_F2 :
    ∃ ops p l, let h := (Heap.run false false {} ops).1
      h.iter p = some l ∧ h.valueSize p ≠ l.length :=
  ⟨[.newDict, .putS 0 [0x61] (.int 1), .putS 0 [0x61] (.int 2)], some 0, [1], by decide⟩

/-- **A value is attached to at most one container**: in every reachable state every value is
linked (as list element or dict member, counted with multiplicity over all containers) at most
once, and a value still `UNATTACHED` is linked from nowhere. -/
theorem attach_at_most_once (cyc : Bool) (ops : List Op) (id : Nat) :
    occ (reachC cyc ops) id ≤ 1 ∧ (¬ isAtt (reachC cyc ops) id → occ (reachC cyc ops) id = 0) :=
  (AttInv.run AttInv.empty cyc ops) id

/-- … and an attached value is refused by both attaching calls, which then change nothing. -/
theorem attach_refused (cyc : Bool) (h : Heap) (l d : Option Nat) (key : Bytes) (v : Nat)
    (ha : isAtt h v) :
    h.listAppend cyc l (some v) = (h, false) ∧ h.dictPut true cyc d key (some v) = (h, false) := by
  obtain ⟨vc, hvc, hatt⟩ := ha
  constructor
  · rcases listAppend_cases cyc h l (some v) with e | ⟨vi, vc', _, _, _, _, hv, _, hc, hf, _, _, _⟩
    · exact e
    · cases hv; rw [hvc] at hc; cases hc; rw [hatt] at hf; cases hf
  · rcases dictPut_cases cyc h d key (some v) with e | ⟨vi, vc', _, _, _, _, _, hv, _, hc, hf, _, _, _, _, _⟩
    · exact e
    · cases hv; rw [hvc] at hc; cases hc; rw [hatt] at hf; cases hf

example : let h := reach [.newList, .newList, .new (.int 7), .append (some 0) (some 2), .append (some 1) (some 2)]
    occ h 2 = 1 ∧ h.iter (some 0) = some [2] ∧ h.iter (some 1) = some [] := by decide

/-- **Everything the builder can produce is well-formed** (hence renders to an RFC document that
parses back to the same tree): the value tree hanging off any cell of any reachable heap. -/
theorem built_wf (cyc : Bool) (ops : List Op) (i : Nat) (v : JVal)
    (hv : (reachC cyc ops).value i = some v) : v.wf = true :=
  toVal_wf (SizeInv.run SizeInv.empty cyc ops) _ i v hv

/-- round trip for trees built through the API -/
theorem built_roundtrip (strtod : Bytes → Option UInt64) (fmt17 : UInt64 → Bytes)
    (hsyn : ∀ x, isFinite x = true → floatTok (renderFloat fmt17 x) = true)
    (hf : ∀ x, isFinite x = true → strtod (renderFloat fmt17 x) = some x)
    (cyc : Bool) (ops : List Op) (i : Nat) (v : JVal) (hv : (reachC cyc ops).value i = some v) :
    Rfc.parse strtod (render fmt17 v) = some v :=
  render_parse_roundtrip strtod fmt17 hsyn hf v (built_wf cyc ops i v hv)

example : (reach [.newDict, .newList, .putS 0 [0x62] (.float 1), .put (some 0) [0x61] (some 1),
      .appendS 1 (.str [0xE2, 0x80, 0xA9]), .appendS 1 .null]).value 0 =
    some (.dict [([0x61], .list [.str [0xE2, 0x80, 0xA9], .null]), ([0x62], .float 1)]) := by decide

/-! ## trees obtained from parsing -/

/-- **Every value of the reference parser is well-formed**, provided no string or name contains
a 0 byte (`\u0000`: not representable in `json.c`, which refuses the document).  Together with
property C02 (`json_parse` yields `Rfc.parse`'s value on RFC documents) this puts every tree
obtained from `json_parse` into the domain of the round-trip theorem. -/
theorem parsed_wf (strtod : Bytes → Option UInt64) (doc : Bytes) (v : JVal)
    (h : parse strtod doc = some v) (hz : v.noNul) : v.wf = true :=
  parse_wf strtod doc v h hz

/-- round trip for parsed trees: render what was parsed, parse again, same tree -/
theorem parsed_roundtrip (strtod : Bytes → Option UInt64) (fmt17 : UInt64 → Bytes)
    (hsyn : ∀ x, isFinite x = true → floatTok (renderFloat fmt17 x) = true)
    (hf : ∀ x, isFinite x = true → strtod (renderFloat fmt17 x) = some x)
    (doc : Bytes) (v : JVal) (h : parse strtod doc = some v) (hz : v.noNul) :
    parse strtod (render fmt17 v) = some v :=
  render_parse_roundtrip strtod fmt17 hsyn hf v (parsed_wf strtod doc v h hz)

/-- non-vacuity: ` {"b":[1,-0,"\u2028\n"],"a":{}}` (names out of order, escapes, white space) -/
example : parse sdCanon [0x20, 0x7B, 0x22, 0x62, 0x22, 0x3A, 0x5B, 0x31, 0x2C, 0x2D, 0x30, 0x2C, 0x22, 0x5C, 0x75,
      0x32, 0x30, 0x32, 0x38, 0x5C, 0x6E, 0x22, 0x5D, 0x2C, 0x22, 0x61, 0x22, 0x3A, 0x7B, 0x7D, 0x7D] =
    some (.dict [([0x61], .dict []), ([0x62], .list [.int 1, .int 0, .str [0xE2, 0x80, 0xA8, 0x0A]])]) := by
  decide
example : (JVal.dict [([0x61], .dict []), ([0x62], .list [.int 1, .int 0, .str [0xE2, 0x80, 0xA8, 0x0A]])]).noNul := by
  simp [JVal.noNul, noNulKvs, noNulList]

/-! ## link to property C11 -/

/-- **The string check of the builder model is `utf8_validate_string`**: `validString` (what
`newString` / `dictPut` test, written with the RFC 3629 recogniser of the reference) accepts
exactly the strings the C11 model of `utf8_validate_string` accepts — the model property C11
ties to `usual/utf8.c` by translation. -/
theorem new_string_check_is_utf8_validate_string (s : Bytes) :
    validString s = true ↔ Usual.C11.validateStringU s = true :=
  validString_iff_c11 s

example : Usual.C11.validateStringU [0x41, 0xE2, 0x80, 0xA8, 0xF4, 0x8F, 0xBF, 0xBF] = true ∧
    Usual.C11.validateStringU [0xED, 0xA0, 0x80] = false ∧ validString [0xED, 0xA0, 0x80] = false := by
  decide

/-! ## end to end: `json_parse (json_render v) = v` (composition with property C02) -/

/-- **The property's sentence with `json_parse` in it.**  `Usual.C02.parse sd o` is the model of
`json_parse` with option set `o` (property C02: state table extracted from `json.c`, tied to the
code by C02's correspondence run); `sd` is the platform's `strtod` (bits, bytes consumed).  For
every well-formed tree whose member names fit `JSON_MAX_KEY` (1 MiB — `json_dict_put` and the
parser both refuse longer names), under all four option sets, parsing the rendered document
yields exactly the tree.  The three hypotheses are the libc facts: the `%.17g` text (+ `.0`) of a
finite double is an RFC number token (`hsyn`), is shorter than `NUMBER_BUF` = 100 bytes (`hlen`;
otherwise `render_float` itself fails), and `strtod` consumes all of it and returns the same
bits (`hsd`).  No bound on the nesting depth. -/
theorem json_parse_render_roundtrip (sd : Bytes → UInt64 × Nat) (fmt17 : UInt64 → Bytes)
    (hsyn : ∀ x, isFinite x = true → floatTok (renderFloat fmt17 x) = true)
    (hlen : ∀ x, isFinite x = true → (renderFloat fmt17 x).length < Usual.Gen.C02Tables.NUMBER_BUF)
    (hsd : ∀ x, isFinite x = true → sd (renderFloat fmt17 x) = (x, (renderFloat fmt17 x).length))
    (v : JVal) (hv : v.wf = true) (hk : v.shortKeys) (o : Usual.C02.Opts) :
    Usual.C02.parse sd o (render fmt17 v) = .ok v :=
  c02_parse_render sd fmt17 hsyn hlen hsd v hv hk o

/-- … in particular for every tree reachable through the builder API -/
theorem built_json_roundtrip (sd : Bytes → UInt64 × Nat) (fmt17 : UInt64 → Bytes)
    (hsyn : ∀ x, isFinite x = true → floatTok (renderFloat fmt17 x) = true)
    (hlen : ∀ x, isFinite x = true → (renderFloat fmt17 x).length < Usual.Gen.C02Tables.NUMBER_BUF)
    (hsd : ∀ x, isFinite x = true → sd (renderFloat fmt17 x) = (x, (renderFloat fmt17 x).length))
    (cyc : Bool) (ops : List Op) (i : Nat) (v : JVal) (hv : (reachC cyc ops).value i = some v)
    (o : Usual.C02.Opts) : Usual.C02.parse sd o (render fmt17 v) = .ok v :=
  c02_parse_render sd fmt17 hsyn hlen hsd v (built_wf cyc ops i v hv)
    (toVal_shortKeys (SizeInv.run SizeInv.empty cyc ops) _ i v hv) o

/-- non-vacuity: a (`%.17g`, `strtod`) pair satisfying the three hypotheses for all doubles -/
example : (∀ x, isFinite x = true → floatTok (renderFloat fmtCanon x) = true) ∧
    (∀ x, isFinite x = true → (renderFloat fmtCanon x).length < Usual.Gen.C02Tables.NUMBER_BUF) ∧
    (∀ x, isFinite x = true →
      sdCanonC (renderFloat fmtCanon x) = (x, (renderFloat fmtCanon x).length)) :=
  ⟨fun x _ => by rw [renderFloat_canon]; exact floatTok_canon x,
   fun x _ => by rw [renderFloat_canon]; exact fmtCanon_short x,
   fun x _ => by rw [renderFloat_canon]; exact sdCanonC_canon x⟩

/-! ## depth -/

/-- `n` nested lists around `null` -/
def nest : Nat → JVal
  | 0 => .null
  | n + 1 => .list [nest n]

/-- **Every depth.**  The round trip (with `json_parse`'s model, all option sets) holds for trees
of every nesting depth: `nest n` has depth exactly `n`.  The theorems above carry no depth
hypothesis because neither model recurses on a machine stack: the C parser is iterative (parent
pointers, no nesting limit — C02's model is a loop over tokens with an explicit container
stack).  On the C side the only recursion is `json_render` → `render_any` → `render_list` /
`render_dict` → `json_list_iter` / `cbtree_walk` → `list_elem_writer` / `dict_elem_writer` →
`render_any`: a handful of small frames per nesting level, bounded only by the thread's stack.
That is what the property's "nesting depth up to 512" keeps harmless, and it is exercised — not
proved — by the check run (chains of depth 512 rendered and re-parsed under ASan). -/
theorem roundtrip_every_depth (sd : Bytes → UInt64 × Nat) (fmt17 : UInt64 → Bytes)
    (hsyn : ∀ x, isFinite x = true → floatTok (renderFloat fmt17 x) = true)
    (hlen : ∀ x, isFinite x = true → (renderFloat fmt17 x).length < Usual.Gen.C02Tables.NUMBER_BUF)
    (hsd : ∀ x, isFinite x = true → sd (renderFloat fmt17 x) = (x, (renderFloat fmt17 x).length))
    (n : Nat) (o : Usual.C02.Opts) :
    (nest n).depth = n ∧ Usual.C02.parse sd o (render fmt17 (nest n)) = .ok (nest n) := by
  have hd : ∀ n, (nest n).depth = n := by
    intro n; induction n with
    | zero => rfl
    | succ n ih => simp [nest, JVal.depth, depthList, ih]
  have hw : ∀ n, (nest n).wf = true := by
    intro n; induction n with
    | zero => rfl
    | succ n ih => simp [nest, JVal.wf, wfList, ih]
  have hs : ∀ n, (nest n).shortKeys := by
    intro n; induction n with
    | zero => trivial
    | succ n ih => exact ⟨ih, trivial⟩
  exact ⟨hd n, c02_parse_render sd fmt17 hsyn hlen hsd _ (hw n) (hs n) o⟩

example : render fmtCanon (nest 3) = [0x5B, 0x5B, 0x5B, 0x6E, 0x75, 0x6C, 0x6C, 0x5D, 0x5D, 0x5D] := by decide

/-! ## cycles (proposed repair F38) -/

/-- **Code as found: the API can build a structure that is not a tree.**  `l = json_new_list();
json_list_append(l, l)` succeeds (the value *is* unattached), the list then contains itself, and
no amount of fuel gives it a value tree: `json_render` recurses until the stack is exhausted.
Such a structure is not a "value tree of nesting depth ≤ 512", so the round-trip clause does not
speak about it, and `size_eq_iter` / `attach_at_most_once` hold on it (they are proved for every
reachable heap) — which is why the check does not alarm on this. -/
theorem cycle_reachable_without_F38 :
    ∃ ops i, i < (reachC false ops).cells.length ∧ ∀ f, (reachC false ops).toVal f i = none := by
  refine ⟨[.newList, .append (some 0) (some 0)], 0, by decide, ?_⟩
  have hc : (reachC false [.newList, .append (some 0) (some 0)]).cells = [⟨.list [0] 1, true⟩] := rfl
  intro f
  induction f with
  | zero => rfl
  | succ f ih => simp [Heap.toVal, hc, ih, Heap.optList]

/-- **With repair F38 every reachable builder state is a forest**: below every cell hangs a finite
tree (some amount of fuel evaluates it), and that tree is well-formed — so `json_render`
terminates on, and the round trip applies to, *every* value any sequence of builder calls can
produce, not only to those that happen to be trees. -/
theorem built_is_tree_with_F38 (ops : List Op) (i : Nat) (hi : i < (reachC true ops).cells.length) :
    ∃ f v, (reachC true ops).toVal f i = some v ∧ v.wf = true ∧ v.shortKeys := by
  obtain ⟨f, v, hv⟩ := (Forest.run Forest.empty AttInv.empty ops).total i hi
  exact ⟨f, v, hv, toVal_wf (SizeInv.run SizeInv.empty true ops) f i v hv,
    toVal_shortKeys (SizeInv.run SizeInv.empty true ops) f i v hv⟩

/-- the two attempts that build a cycle today are refused under F38, everything else goes through -/
example : (Heap.run true true {} [.newList, .append (some 0) (some 0), .newDict, .newList,
      .put (some 1) [0x61] (some 2), .append (some 2) (some 1), .appendS 2 (.int 1)]).2 =
    [.ptr (some 0), .flag false, .ptr (some 1), .ptr (some 2), .flag true, .flag false, .flag true] := by
  decide

/-! ## parsed-then-extended trees -/

/-- **A tree that came from `json_parse` is a builder state.**  The model represents a parsed tree
`v` by running `loadOps v` — the tree built through the very builder calls (`json_new_*`,
`json_list_append`, `json_dict_put`), then its root marked as not `UNATTACHED` — on whatever heap
the context has reached.  This theorem shows that the representation is exact: after any history
`ops`, loading any value `v` of the reference parser (no NUL, names ≤ `JSON_MAX_KEY`) yields again
a *reachable* heap (so `size_eq_iter`, `attach_at_most_once`, `built_wf`, `built_json_roundtrip`
apply to it and to every extension of it by further builder calls) in which the fresh id holds an
attached cell whose value tree is exactly `v`, all older cells being untouched. -/
theorem parsed_tree_is_built (cyc : Bool) (ops : List Op) (strtod : Bytes → Option UInt64)
    (doc : Bytes) (v : JVal) (h : parse strtod doc = some v) (hz : v.noNul) (hk : v.shortKeys) :
    let base := (reachC cyc ops).cells.length
    let h' := reachC cyc (ops ++ loadOps v base)
    h'.value base = some v ∧ isAtt h' base ∧ (∀ i, i < base → h'.cells[i]? = (reachC cyc ops).cells[i]?) := by
  have hw := parsed_wf strtod doc v h hz
  have hp : ParOK (reachC cyc ops) := ParOK.run ParOK.empty cyc ops
  have := load_spec v hw hk cyc (reachC cyc ops) hp
  simp only [reachC] at this ⊢
  rw [run_append]
  exact this

/-- non-vacuity: `{"b":[1,"x"],"a":{}}` loaded after an unrelated history, then extended -/
example : let v : JVal := .dict [([0x61], .dict []), ([0x62], .list [.int 1, .str [0x78]])]
    let h := reachC true ([.newList, .appendS 0 (.int 5)] ++ loadOps v 2 ++ [.putS 2 [0x63] .null, .append (some 0) (some 2)])
    h.value 2 = some (.dict [([0x61], .dict []), ([0x62], .list [.int 1, .str [0x78]]), ([0x63], .null)]) ∧
    h.value 0 = some (.list [.int 5]) := by decide

/-! ## the name limit is on the decoded name -/

/-- **`JSON_MAX_KEY` limits the decoded name.**  On a fresh dict, `json_dict_put_null(d, k)` with a
valid name `k` succeeds exactly when `k` itself is at most 1 MiB long — the length of the literal
`json_render` writes for `k` (`renderString k`, up to six bytes per byte of `k`) plays no role.
The parser model of C02 applies the same rule after un-escaping, which is why
`json_parse_render_roundtrip` needs `shortKeys` only. -/
theorem key_limit_is_on_decoded_length (cyc : Bool) (k : Bytes) (hk : validString k = true) :
    (Heap.run true cyc {} [.newDict, .putS 0 k .null]).2 =
      [.ptr (some 0), .flag (decide (k.length ≤ Heap.jsonMaxKey))] := by
  by_cases hl : k.length ≤ Heap.jsonMaxKey
  · have hl' : ¬ k.length > Heap.jsonMaxKey := by omega
    cases cyc <;>
    simp [Heap.run, Heap.step, Heap.alloc, Heap.hasContext, Heap.newScalar, Heap.dictPut, Heap.get, hk, hl, hl',
      Usual.C06.insert, Heap.selfOrAncestor, Heap.parentOf]
  · have hl' : k.length > Heap.jsonMaxKey := by omega
    cases cyc <;>
    simp [Heap.run, Heap.step, Heap.alloc, Heap.hasContext, Heap.newScalar, Heap.dictPut, Heap.get, hk, hl, hl',
      Heap.selfOrAncestor, Heap.parentOf]

theorem validString_ctl (n : Nat) : validString (List.replicate n 0x01) = true := by
  unfold validString
  simp only [List.length_replicate]
  induction n with
  | zero => rfl
  | succ n ih => simp [List.replicate_succ, validStr, Rfc.utf8Len, ih]

theorem renderString_ctl_length (n : Nat) : (renderString (List.replicate n 0x01)).length = 6 * n + 2 := by
  have h : ∀ n, (escBody 0 (List.replicate n 0x01)).length = 6 * n := by
    intro n
    induction n with
    | zero => rfl
    | succ n ih =>
      have e : escBody 0 ((0x01 : UInt8) :: List.replicate n 0x01) =
          escapeChar 1 ++ escBody 0 (List.replicate n 0x01) := by
        simp [escBody, needsEscape]
      rw [List.replicate_succ, e, List.length_append, ih]
      have : (escapeChar 1).length = 6 := by decide
      omega
  simp [renderString, h n]

/-- a name that fits decoded (174 763 bytes) while its literal does not (1 048 580 bytes with the
quotes): accepted, rendered, and read back by the `json_parse` model under every option set -/
theorem escaped_name_over_limit_roundtrips (sd : Bytes → UInt64 × Nat) (fmt17 : UInt64 → Bytes)
    (hsyn : ∀ x, isFinite x = true → floatTok (renderFloat fmt17 x) = true)
    (hlen : ∀ x, isFinite x = true → (renderFloat fmt17 x).length < Usual.Gen.C02Tables.NUMBER_BUF)
    (hsd : ∀ x, isFinite x = true → sd (renderFloat fmt17 x) = (x, (renderFloat fmt17 x).length))
    (o : Usual.C02.Opts) :
    let k : Bytes := List.replicate 174763 0x01
    k.length ≤ Heap.jsonMaxKey ∧ Heap.jsonMaxKey < (renderString k).length ∧
    Usual.C02.parse sd o (render fmt17 (.dict [(k, .null)])) = .ok (.dict [(k, .null)]) := by
  intro k
  have hkl : k.length = 174763 := List.length_replicate
  have hkv : validString k = true := validString_ctl 174763
  have hrl : (renderString k).length = 6 * 174763 + 2 := renderString_ctl_length 174763
  generalize k = k' at *
  refine ⟨by rw [hkl]; decide, by rw [hrl]; decide, ?_⟩
  refine json_parse_render_roundtrip sd fmt17 hsyn hlen hsd _ ?_ ?_ o
  · simp only [JVal.wf, keysSorted, wfKvs, hkv, Bool.and_self]
  · exact ⟨by rw [hkl]; decide, trivial, trivial⟩

/-! ## the context's history does not matter -/

/-- **`json_parse`'s result is independent of what the context has seen before.**  The model has no
parser state that survives a call: `Rfc.parse` and C02's `Usual.C02.parse` are functions of the
document alone (the C function must re-initialise `parent`, `cur_key`, `top`, `lasterr`, `linenr` at
entry to match that), and the only context state the model has is the heap of values.  This theorem
is the statement over that state: after ANY two histories of builder calls and loaded (parsed)
trees — including every failing call — loading the same parsed value yields the same tree at the
fresh id.  Failed parses allocate nothing the model can see; on the implementation the frame
condition "a re-parse gives the same tree in a fresh context, in the tree's own context and in a
context that has seen failed and successful parses" is monitored on every run (`rtf`/`rts`/`rt`
after `poison`, checks/C03.py `rt_monitor`). -/
theorem parse_result_independent_of_history (cyc : Bool) (ops₁ ops₂ : List Op)
    (strtod : Bytes → Option UInt64) (doc : Bytes) (v : JVal)
    (h : parse strtod doc = some v) (hz : v.noNul) (hk : v.shortKeys) :
    (reachC cyc (ops₁ ++ loadOps v (reachC cyc ops₁).cells.length)).value (reachC cyc ops₁).cells.length =
    (reachC cyc (ops₂ ++ loadOps v (reachC cyc ops₂).cells.length)).value (reachC cyc ops₂).cells.length := by
  rw [(parsed_tree_is_built cyc ops₁ strtod doc v h hz hk).1,
    (parsed_tree_is_built cyc ops₂ strtod doc v h hz hk).1]

example : (reachC true ([] ++ loadOps (.list [.int 1]) 0)).value 0 =
    (reachC true ([.newDict, .putS 0 [0x61] (.int (2 ^ 60)), .newList, .append (some 1) (some 1)] ++
      loadOps (.list [.int 1]) 2)).value 2 := by decide

end UsualProps.C03
