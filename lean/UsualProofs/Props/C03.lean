/-! Property theorems for C03 (stub: not built yet). -/
