import UsualProofs.C10.CxPool
import Usual.C10.Json
/-!
# C10 — JSON under faults: a failed builder / parse call leaves the heap of values untouched;
every parent block belongs to the context's pool and goes back with `json_free_context`
-/
namespace Usual.C10
open Usual.C09 Usual.C03

theorem cxAlloc_allowFree {p p' : Pool} {len q : Nat} {pa : Option Nat}
    (h : cxAlloc p len pa = some (p', q)) : p'.allowFree = p.allowFree := by
  unfold cxAlloc at h
  split at h
  · cases h
  · unfold alloc at h
    split at h
    · cases h
    · simp only at h
      cases hs : p.segs with
      | nil =>
        simp only [hs] at h
        cases pa with
        | none => cases h
        | some a => simp only [Option.map_some, Option.some.injEq, allocNew, Prod.mk.injEq] at h; rw [← h.1]
      | cons sg rest =>
        simp only [hs] at h
        split at h
        · simp only [Option.some.injEq, allocFit, Prod.mk.injEq] at h; rw [← h.1]
        · cases pa with
          | none => cases h
          | some a => simp only [Option.map_some, Option.some.injEq, allocNew, Prod.mk.injEq] at h; rw [← h.1]

theorem jalloc_none {c : JCtx} {n : Nat} {s s' : AS} (h : jalloc c n s = (none, s')) :
    s'.live = s.live := by
  unfold jalloc at h
  split at h
  · next s1 e => cases h; exact poolAllocA_none e
  · cases h

theorem jalloc_some {c c1 : JCtx} {n : Nat} {s s' : AS} (h : jalloc c n s = (some c1, s')) :
    c1.heap = c.heap ∧ c1.pool.allowFree = c.pool.allowFree ∧
    ∀ o, Holds s (poolOwned c.pool ++ o) → Holds s' (poolOwned c1.pool ++ o) := by
  unfold jalloc at h
  split at h
  · cases h
  · next r s1 e =>
    cases h
    obtain ⟨p', q⟩ := r
    refine ⟨rfl, ?_, poolAllocA_some e⟩
    unfold poolAllocA at e
    generalize askParent (cxAllocReq c.pool n) s = qq at e
    obtain ⟨pa, s2⟩ := qq
    simp only [Prod.mk.injEq] at e
    exact cxAlloc_allowFree e.1

/-- a run of pool allocations never touches the heap of values, whether it completes or not,
    and every block it obtained is a segment of the pool -/
theorem runAllocs_spec {sizes : List Nat} {c c1 : JCtx} {ok : Bool} {s s' : AS}
    (h : runAllocs sizes c s = ((ok, c1), s')) :
    c1.heap = c.heap ∧ c1.pool.allowFree = c.pool.allowFree ∧
    ∀ o, Holds s (poolOwned c.pool ++ o) → Holds s' (poolOwned c1.pool ++ o) := by
  induction sizes generalizing c s with
  | nil => simp only [runAllocs] at h; cases h; exact ⟨rfl, rfl, fun o ho => ho⟩
  | cons n rest ih =>
    simp only [runAllocs] at h
    split at h
    · next s1 e => cases h; exact ⟨rfl, rfl, fun o ho => ho.of_live_eq (jalloc_none e)⟩
    · next c2 s1 e =>
      obtain ⟨h1, h2, h3⟩ := jalloc_some e
      obtain ⟨g1, g2, g3⟩ := ih h
      exact ⟨g1.trans h1, g2.trans h2, fun o ho => g3 o (h3 o ho)⟩

/-- **a failed builder call** (some allocation inside it failed): it answers NULL / false and
    the heap of values — every container's contents, `v_size`, every attachment flag — is
    exactly what it was -/
theorem jsStepA_oom {sz : JSizes} {cyc : Bool} {c c' : JCtx} {op : Op} {r : Ret} {s s' : AS}
    (h : jsStepA sz cyc c op s = ((c', r, true), s')) : c'.heap = c.heap ∧ r = failRet op := by
  unfold jsStepA at h
  split at h
  · next c1 s1 e => cases h; exact ⟨(runAllocs_spec e).1, rfl⟩
  · cases h

/-- **a builder call whose allocations all succeed** does exactly what C03's model of the
    builder says (fault injection does not change the meaning of a successful call) -/
theorem jsStepA_ok {sz : JSizes} {cyc : Bool} {c c' : JCtx} {op : Op} {r : Ret} {s s' : AS}
    (h : jsStepA sz cyc c op s = ((c', r, false), s')) :
    (c'.heap, r) = c.heap.step true cyc op := by
  unfold jsStepA at h
  split at h
  · cases h
  · cases h; rfl

/-- whatever happens, the parent blocks are exactly the pool's segments -/
theorem jsStepA_holds {sz : JSizes} {cyc : Bool} {c c' : JCtx} {op : Op} {r : Ret} {b : Bool}
    {s s' : AS} (h : jsStepA sz cyc c op s = ((c', r, b), s')) :
    c'.pool.allowFree = c.pool.allowFree ∧
    ∀ o, Holds s (poolOwned c.pool ++ o) → Holds s' (poolOwned c'.pool ++ o) := by
  unfold jsStepA at h
  split at h
  · next c1 s1 e => cases h; exact (runAllocs_spec e).2
  · next c1 s1 e => cases h; exact (runAllocs_spec e).2

/-- **json_parse, allocation failure**: NULL, the heap of values is untouched -/
theorem jsParseA_oom {cyc : Bool} {sizes : List Nat} {v : JVal} {c c' : JCtx} {r : Option Nat}
    {s s' : AS} (h : jsParseA cyc sizes v c s = ((c', r, true), s')) :
    c'.heap = c.heap ∧ r = none := by
  unfold jsParseA at h
  split at h
  · next c1 s1 e => cases h; exact ⟨(runAllocs_spec e).1, rfl⟩
  · cases h

theorem jsParseA_holds {cyc : Bool} {sizes : List Nat} {v : JVal} {c c' : JCtx} {r : Option Nat}
    {b : Bool} {s s' : AS} (h : jsParseA cyc sizes v c s = ((c', r, b), s')) :
    c'.pool.allowFree = c.pool.allowFree ∧
    ∀ o, Holds s (poolOwned c.pool ++ o) → Holds s' (poolOwned c'.pool ++ o) := by
  unfold jsParseA at h
  split at h
  · next c1 s1 e => cases h; exact (runAllocs_spec e).2
  · next c1 s1 e => cases h; exact (runAllocs_spec e).2

/-- **json_new_context, failure**: NULL ⇒ the pool obtained first was destroyed again -/
theorem jsNewA_none {sz : JSizes} {i : Nat} {s s' : AS} (h : jsNewA sz i s = (none, s')) :
    ∀ o, Holds s o → Holds s' o := by
  unfold jsNewA at h
  split at h
  · next s1 e => cases h; exact fun o ho => ho.of_live_eq (poolNewA_none e (Or.inr (by decide)))
  · next p s1 e =>
    split at h
    · next s2 e2 =>
      cases h
      obtain ⟨ha, _, ht⟩ := poolNewA_some e
      exact fun o ho => poolDestroyA_holds ha ((ht o ho).of_live_eq (poolAllocA_none e2))
    · cases h

theorem jsNewA_some {sz : JSizes} {i : Nat} {c : JCtx} {s s' : AS} (h : jsNewA sz i s = (some c, s')) :
    c.heap.cells = [] ∧ c.pool.allowFree = true ∧ ∀ o, Holds s o → Holds s' (poolOwned c.pool ++ o) := by
  unfold jsNewA at h
  split at h
  · cases h
  · next p s1 e =>
    split at h
    · cases h
    · next r s2 e2 =>
      cases h
      obtain ⟨p', q⟩ := r
      obtain ⟨ha, _, ht⟩ := poolNewA_some e
      have hj : jalloc ⟨{}, p⟩ sz.ctx s1 = (some ⟨{}, p'⟩, s') := by simp [jalloc, e2]
      obtain ⟨_, h2, h3⟩ := jalloc_some hj
      exact ⟨rfl, h2.trans ha, fun o ho => h3 o (ht o ho)⟩

theorem jsFreeA_holds {c : JCtx} {s : AS} {o : List Id} (ha : c.pool.allowFree = true)
    (h : Holds s (poolOwned c.pool ++ o)) : Holds (jsFreeA c s) o := poolDestroyA_holds ha h

end Usual.C10
