import UsualProofs.C10.Alloc
import Usual.C10.CxPool
/-!
# C10 — cx pool, mempool, regcomp under faults (over the C09 models): failure changes nothing,
every parent block is owned, destroy returns everything
-/
namespace Usual.C10
open Usual.C09

theorem idOf_addrOf (b : Id) : idOf (addrOf b) = b := by
  unfold idOf addrOf
  rw [Nat.mul_div_cancel _ (by decide : 0 < 2 ^ 40)]
  exact Nat.add_sub_cancel b 1

theorem askParent_none_req (s : AS) : askParent none s = (none, s) := rfl

theorem askParent_fail {r : Nat} {s s' : AS} (h : askParent (some r) s = (none, s')) :
    s'.live = s.live := by
  unfold askParent at h
  simp only at h
  split at h
  · next s1 e => cases h; exact (allocS_none e).1
  · cases h

theorem askParent_ok {r a : Nat} {s s' : AS} (h : askParent (some r) s = (some a, s')) :
    ∃ b, a = addrOf b ∧ allocS s = (some b, s') := by
  unfold askParent at h
  simp only at h
  split at h
  · cases h
  · next b s1 e => cases h; exact ⟨b, rfl, e⟩

/-! ## cx pool -/

/-- no parent request: the answer does not matter and the segments' regions stay the same -/
theorem alloc_noReq {p : Pool} {size : Nat} (hr : allocReq p size = none) (pa : Option Nat) :
    alloc p size pa = alloc p size none ∧
    ∀ p' q, alloc p size none = some (p', q) → poolOwned p' = poolOwned p := by
  unfold allocReq at hr
  unfold alloc
  by_cases hm : size > poolMaxSize
  · simp [hm]
  · simp only [hm, ↓reduceIte] at hr ⊢
    cases hs : p.segs with
    | nil => simp [fits, hs] at hr
    | cons sg rest =>
      simp only [fits, hs] at hr
      by_cases hf : sg.pos + alignUp size p.align ≤ sg.stop
      · simp only [hf, ↓reduceIte, true_and]
        intro p' q h
        simp only [allocFit, Option.some.injEq, Prod.mk.injEq] at h
        obtain ⟨rfl, _⟩ := h
        simp [poolOwned, hs]
      · simp [hf] at hr

/-- a parent request is made: NULL from the parent gives NULL, an address gives a new segment -/
theorem alloc_req {p : Pool} {size r : Nat} (hr : allocReq p size = some r) :
    alloc p size none = none ∧
    ∀ a, ∃ p' q, alloc p size (some a) = some (p', q) ∧ poolOwned p' = idOf a :: poolOwned p := by
  unfold allocReq at hr
  unfold alloc
  by_cases hm : size > poolMaxSize
  · simp [hm] at hr
  · simp only [hm, ↓reduceIte] at hr ⊢
    cases hs : p.segs with
    | nil =>
      refine ⟨rfl, fun a => ⟨_, _, rfl, ?_⟩⟩
      simp [newSeg, poolOwned, hs]
    | cons sg rest =>
      simp only [fits, hs] at hr
      by_cases hf : sg.pos + alignUp size p.align ≤ sg.stop
      · simp [hf] at hr
      · simp only [hf, ↓reduceIte, Option.map_none, true_and]
        intro a
        refine ⟨_, _, rfl, ?_⟩
        simp [newSeg, poolOwned, hs]

theorem poolNewA_none {i al : Nat} {s s' : AS} (h : poolNewA i al s = (none, s'))
    (hal : al = 0 ∨ isPowerOf2 al = true) : s'.live = s.live := by
  unfold poolNewA at h
  generalize hq : askParent (some (newPoolReq i)) s = q at h
  obtain ⟨pa, s1⟩ := q
  simp only [Prod.mk.injEq] at h
  obtain ⟨hn, rfl⟩ := h
  cases pa with
  | none => exact askParent_fail hq
  | some a =>
    -- the area was obtained: cx_new_pool_from_area cannot refuse it (size and alignment are fine)
    exfalso
    simp only [newPool, fromArea] at hn
    have h1 : ¬ (newPoolReq i < sizeofPool) := by unfold newPoolReq sizeofPool; split <;> omega
    simp only [h1, ↓reduceIte] at hn
    rcases hal with rfl | hp
    · simp at hn
    · simp [hp] at hn

theorem poolNewA_some {i al : Nat} {p : Pool} {s s' : AS} (h : poolNewA i al s = (some p, s')) :
    p.allowFree = true ∧ p.segs.length = 1 ∧ ∀ o, Holds s o → Holds s' (poolOwned p ++ o) := by
  unfold poolNewA at h
  generalize hq : askParent (some (newPoolReq i)) s = q at h
  obtain ⟨pa, s1⟩ := q
  simp only [Prod.mk.injEq] at h
  obtain ⟨hn, rfl⟩ := h
  cases pa with
  | none => simp [newPool] at hn
  | some a =>
    obtain ⟨b, rfl, hb⟩ := askParent_ok hq
    simp only [newPool, fromArea] at hn
    split at hn
    · cases hn
    · split at hn
      · cases hn
      · cases hn
        refine ⟨rfl, rfl, fun o ho => ?_⟩
        simpa [poolOwned, idOf_addrOf] using ho.alloc hb

/-- **cx_alloc on a pool, failure**: NULL ⇒ the allocator holds exactly what it held (the pool
    value is not even an output: it is unchanged) -/
theorem poolAllocA_none {p : Pool} {len : Nat} {s s' : AS} (h : poolAllocA p len s = (none, s')) :
    s'.live = s.live := by
  unfold poolAllocA at h
  cases hr : cxAllocReq p len with
  | none => simp only [hr, askParent_none_req, Prod.mk.injEq] at h; rw [← h.2]
  | some r =>
    simp only [hr] at h
    generalize hq : askParent (some r) s = q at h
    obtain ⟨pa, s1⟩ := q
    simp only [Prod.mk.injEq] at h
    obtain ⟨hn, rfl⟩ := h
    cases pa with
    | none => exact askParent_fail hq
    | some a =>
      exfalso
      have hlen : len ≠ 0 := by intro h0; simp [cxAllocReq, h0] at hr
      simp only [cxAllocReq, hlen, ↓reduceIte] at hr
      obtain ⟨p', q', e, _⟩ := (alloc_req hr).2 a
      simp [cxAlloc, hlen, e] at hn

theorem poolAllocA_some {p p' : Pool} {len q : Nat} {s s' : AS}
    (h : poolAllocA p len s = (some (p', q), s')) :
    ∀ o, Holds s (poolOwned p ++ o) → Holds s' (poolOwned p' ++ o) := by
  unfold poolAllocA at h
  have hlen : len ≠ 0 := by
    intro h0; subst h0
    generalize askParent (cxAllocReq p 0) s = qq at h
    simp [cxAlloc] at h
  cases hr : cxAllocReq p len with
  | none =>
    simp only [hr, askParent_none_req, Prod.mk.injEq] at h
    obtain ⟨ha, rfl⟩ := h
    simp only [cxAllocReq, hlen, ↓reduceIte] at hr
    simp only [cxAlloc, hlen, ↓reduceIte] at ha
    have := (alloc_noReq hr none).2 p' q ha
    intro o ho; rw [this]; exact ho
  | some r =>
    simp only [hr] at h
    generalize hq : askParent (some r) s = qq at h
    obtain ⟨pa, s1⟩ := qq
    simp only [Prod.mk.injEq] at h
    obtain ⟨ha, rfl⟩ := h
    simp only [cxAllocReq, hlen, ↓reduceIte] at hr
    simp only [cxAlloc, hlen, ↓reduceIte] at ha
    cases pa with
    | none => rw [(alloc_req hr).1] at ha; cases ha
    | some a =>
      obtain ⟨b, rfl, hb⟩ := askParent_ok hq
      obtain ⟨p2, q2, e, ho2⟩ := (alloc_req hr).2 (addrOf b)
      rw [e] at ha
      simp only [Option.some.injEq, Prod.mk.injEq] at ha
      obtain ⟨rfl, _⟩ := ha
      intro o ho
      rw [ho2, idOf_addrOf]
      exact ho.alloc hb

/-- `pool_realloc` either stays inside the current segment (no parent request, same regions)
    or is a `pool_alloc` of some size whose result it passes on -/
theorem realloc_cases (p : Pool) (ptr len : Nat) :
    (reallocReq p ptr len = none ∧ ∀ pa, realloc p ptr len pa = realloc p ptr len none ∧
        ∀ r, realloc p ptr len none = some r → poolOwned r.1 = poolOwned p) ∨
    (∃ x f, reallocReq p ptr len = allocReq p x ∧
        (∀ pa, realloc p ptr len pa = (alloc p x pa).map f) ∧ ∀ r, (f r).1 = r.1) := by
  unfold reallocReq realloc
  by_cases hm : len > poolMaxSize
  · left; simp [hm]
  · simp only [hm, ↓reduceIte]
    by_cases hl : p.lastPtr ≠ some ptr
    · right
      simp only [if_pos hl]
      exact ⟨len, fun r => (r.1, r.2, if guessOldLen p.align p.segs ptr > len then len
                                       else guessOldLen p.align p.segs ptr),
             rfl, fun pa => rfl, fun r => rfl⟩
    · simp only [if_neg hl]
      cases hs : p.segs with
      | nil => left; simp
      | cons sg rest =>
        simp only [reallocLast]
        by_cases hf : sg.pos - (sg.pos - ptr) + alignUp len p.align ≤ sg.stop
        · left
          simp only [hf, ↓reduceIte, true_and]
          intro _pa r hr
          cases hr
          simp [poolOwned, hs]
        · right
          simp only [hf, ↓reduceIte]
          exact ⟨alignUp len p.align, fun r => (r.1, r.2, sg.pos - ptr), rfl, fun pa => rfl, fun r => rfl⟩

/-- **cx_realloc on a pool, failure**: NULL ⇒ nothing was obtained; the old block and the pool
    are as they were -/
theorem poolReallocA_none {p : Pool} {ptr len : Nat} {s s' : AS}
    (h : poolReallocA p ptr len s = (none, s')) : s'.live = s.live := by
  unfold poolReallocA at h
  rcases realloc_cases p ptr len with ⟨hr, _⟩ | ⟨x, f, hr, hre, _⟩
  · simp only [hr, askParent_none_req, Prod.mk.injEq] at h; rw [← h.2]
  · rw [hr] at h
    cases hq0 : allocReq p x with
    | none => simp only [hq0, askParent_none_req, Prod.mk.injEq] at h; rw [← h.2]
    | some r =>
      simp only [hq0] at h
      generalize hq : askParent (some r) s = q at h
      obtain ⟨pa, s1⟩ := q
      simp only [Prod.mk.injEq] at h
      obtain ⟨hn, rfl⟩ := h
      cases pa with
      | none => exact askParent_fail hq
      | some a =>
        exfalso
        obtain ⟨p', q', e, _⟩ := (alloc_req hq0).2 a
        rw [hre, e] at hn
        simp at hn

theorem poolReallocA_some {p : Pool} {ptr len : Nat} {r : Pool × Nat × Nat} {s s' : AS}
    (h : poolReallocA p ptr len s = (some r, s')) :
    ∀ o, Holds s (poolOwned p ++ o) → Holds s' (poolOwned r.1 ++ o) := by
  unfold poolReallocA at h
  rcases realloc_cases p ptr len with ⟨hr, hind⟩ | ⟨x, f, hr, hre, hf⟩
  · simp only [hr, askParent_none_req, Prod.mk.injEq] at h
    obtain ⟨ha, rfl⟩ := h
    intro o ho
    rw [(hind none).2 r ha]; exact ho
  · rw [hr] at h
    cases hq0 : allocReq p x with
    | none =>
      simp only [hq0, askParent_none_req, Prod.mk.injEq] at h
      obtain ⟨ha, rfl⟩ := h
      rw [hre] at ha
      cases hal : alloc p x none with
      | none => simp [hal] at ha
      | some r0 =>
        simp only [hal, Option.map_some, Option.some.injEq] at ha
        subst ha
        intro o ho
        rw [hf, (alloc_noReq hq0 none).2 r0.1 r0.2 hal]; exact ho
    | some rq =>
      simp only [hq0] at h
      generalize hq : askParent (some rq) s = qq at h
      obtain ⟨pa, s1⟩ := qq
      simp only [Prod.mk.injEq] at h
      obtain ⟨ha, rfl⟩ := h
      rw [hre] at ha
      cases pa with
      | none => rw [(alloc_req hq0).1] at ha; cases ha
      | some a =>
        obtain ⟨b, rfl, hb⟩ := askParent_ok hq
        obtain ⟨p2, q2, e, ho2⟩ := (alloc_req hq0).2 (addrOf b)
        rw [e] at ha
        simp only [Option.map_some, Option.some.injEq] at ha
        subst ha
        intro o ho
        rw [hf, ho2, idOf_addrOf]
        exact ho.alloc hb

theorem free_owned (p : Pool) (ptr : Nat) : poolOwned (free p ptr) = poolOwned p := by
  unfold free
  split
  · rfl
  · split
    · next sg rest hs => simp [poolOwned, hs]
    · rfl

theorem dropLast_getLast {α : Type} (l : List α) : l.dropLast ++ l.getLast?.toList = l := by
  induction l with
  | nil => rfl
  | cons a t ih =>
    cases t with
    | nil => rfl
    | cons b t' =>
      simp only [List.dropLast_cons_cons, List.getLast?_cons_cons, List.cons_append]
      rw [ih]

/-- **cx_destroy(pool)**: every segment goes back to the parent -/
theorem poolDestroyA_holds {p : Pool} {s : AS} {o : List Id} (ha : p.allowFree = true)
    (h : Holds s (poolOwned p ++ o)) : Holds (poolDestroyA p s) o := by
  unfold poolDestroyA
  apply Holds.freeAll
  have : (destroy p).map (fun r => idOf r.1) = poolOwned p := by
    have e : p.segs.dropLast.map Seg.region ++ (p.segs.getLast?.map Seg.region).toList
        = p.segs.map Seg.region := by
      conv => rhs; rw [← dropLast_getLast p.segs]
      cases p.segs.getLast? <;> simp
    simp only [destroy, ha, ↓reduceIte, poolOwned, e, List.map_map]
    rfl
  rw [this]; exact h

/-! ## mempool -/

theorem mpAlloc_noReq {mp : MemPool} {size : Nat} (hr : mpAllocReq mp size = none) (pa : Option Nat) :
    mpAlloc mp size pa = mpAlloc mp size none ∧
    ∀ mp' q, mpAlloc mp size none = some (mp', q) → mpOwned mp' = mpOwned mp := by
  unfold mpAllocReq at hr
  unfold mpAlloc
  by_cases hm : size > mpMaxSize
  · simp [hm]
  · simp only [hm, ↓reduceIte] at hr ⊢
    cases hs : mp.segs with
    | nil => simp [mpFits, hs] at hr
    | cons sg rest =>
      simp only [mpFits, hs] at hr
      by_cases hf : alignUp size 8 ≤ sg.size - sg.used
      · simp only [hf, ↓reduceIte, true_and]
        intro mp' q h
        simp only [Option.some.injEq, Prod.mk.injEq] at h
        obtain ⟨rfl, _⟩ := h
        simp [mpOwned, hs]
      · simp [hf] at hr

theorem mpAlloc_req {mp : MemPool} {size r : Nat} (hr : mpAllocReq mp size = some r) :
    mpAlloc mp size none = none ∧
    ∀ a, ∃ mp' q, mpAlloc mp size (some a) = some (mp', q) ∧ mpOwned mp' = idOf a :: mpOwned mp := by
  unfold mpAllocReq at hr
  unfold mpAlloc
  by_cases hm : size > mpMaxSize
  · simp [hm] at hr
  · simp only [hm, ↓reduceIte] at hr ⊢
    cases hs : mp.segs with
    | nil =>
      refine ⟨rfl, fun a => ⟨_, _, rfl, ?_⟩⟩
      simp [mpOwned, hs]
    | cons sg rest =>
      simp only [mpFits, hs] at hr
      by_cases hf : alignUp size 8 ≤ sg.size - sg.used
      · simp [hf] at hr
      · simp only [hf, ↓reduceIte, Option.map_none, true_and]
        intro a
        refine ⟨_, _, rfl, ?_⟩
        simp [mpOwned, hs]

/-- **mempool_alloc, failure**: NULL ⇒ nothing was obtained, the pool (not an output) is as it was -/
theorem mpAllocA_none {mp : MemPool} {size : Nat} {s s' : AS} (h : mpAllocA mp size s = (none, s')) :
    s'.live = s.live := by
  unfold mpAllocA at h
  cases hr : mpAllocReq mp size with
  | none => simp only [hr, askParent_none_req, Prod.mk.injEq] at h; rw [← h.2]
  | some r =>
    simp only [hr] at h
    generalize hq : askParent (some r) s = q at h
    obtain ⟨pa, s1⟩ := q
    simp only [Prod.mk.injEq] at h
    obtain ⟨hn, rfl⟩ := h
    cases pa with
    | none => exact askParent_fail hq
    | some a =>
      exfalso
      obtain ⟨p', q', e, _⟩ := (mpAlloc_req hr).2 a
      simp [e] at hn

theorem mpAllocA_some {mp mp' : MemPool} {size q : Nat} {s s' : AS}
    (h : mpAllocA mp size s = (some (mp', q), s')) :
    ∀ o, Holds s (mpOwned mp ++ o) → Holds s' (mpOwned mp' ++ o) := by
  unfold mpAllocA at h
  cases hr : mpAllocReq mp size with
  | none =>
    simp only [hr, askParent_none_req, Prod.mk.injEq] at h
    obtain ⟨ha, rfl⟩ := h
    have := (mpAlloc_noReq hr none).2 mp' q ha
    intro o ho; rw [this]; exact ho
  | some r =>
    simp only [hr] at h
    generalize hq : askParent (some r) s = qq at h
    obtain ⟨pa, s1⟩ := qq
    simp only [Prod.mk.injEq] at h
    obtain ⟨ha, rfl⟩ := h
    cases pa with
    | none => rw [(mpAlloc_req hr).1] at ha; cases ha
    | some a =>
      obtain ⟨b, rfl, hb⟩ := askParent_ok hq
      obtain ⟨p2, q2, e, ho2⟩ := (mpAlloc_req hr).2 (addrOf b)
      rw [e] at ha
      simp only [Option.some.injEq, Prod.mk.injEq] at ha
      obtain ⟨rfl, _⟩ := ha
      intro o ho
      rw [ho2, idOf_addrOf]
      exact ho.alloc hb

theorem mpDestroyA_holds {mp : MemPool} {s : AS} {o : List Id}
    (h : Holds s (mpOwned mp ++ o)) : Holds (mpDestroyA mp s) o := by
  unfold mpDestroyA
  apply Holds.freeAll
  have : (mpDestroy mp).map (fun r => idOf r.1) = mpOwned mp := by
    simp [mpDestroy, mpOwned, Function.comp_def]
  rw [this]; exact h

/-! ## regcomp -/

theorem rxAllocs_none {sizes : List Nat} {mp : MemPool} {s s' : AS}
    (h : rxAllocs sizes mp s = (none, s')) : ∀ o, Holds s (mpOwned mp ++ o) → Holds s' o := by
  induction sizes generalizing mp s with
  | nil => simp [rxAllocs] at h
  | cons n rest ih =>
    simp only [rxAllocs] at h
    split at h
    · next s1 e =>
      cases h
      exact fun o ho => mpDestroyA_holds (ho.of_live_eq (mpAllocA_none e))
    · next r s1 e =>
      obtain ⟨mp1, q⟩ := r
      exact fun o ho => ih h o (mpAllocA_some e o ho)

theorem rxAllocs_some {sizes : List Nat} {mp mp' : MemPool} {s s' : AS}
    (h : rxAllocs sizes mp s = (some mp', s')) :
    ∀ o, Holds s (mpOwned mp ++ o) → Holds s' (mpOwned mp' ++ o) := by
  induction sizes generalizing mp s with
  | nil => simp only [rxAllocs] at h; cases h; exact fun o ho => ho
  | cons n rest ih =>
    simp only [rxAllocs] at h
    split at h
    · cases h
    · next r s1 e =>
      obtain ⟨mp1, q⟩ := r
      exact fun o ho => ih h o (mpAllocA_some e o ho)

/-- **regcomp, any error** (REG_ESPACE from any of its allocations, or a syntax error): nothing
    obtained during the call remains allocated -/
theorem regcompA_none {n : Nat} {sizes : List Nat} {e : Bool} {s s' : AS}
    (h : regcompA n sizes e s = (none, s')) : ∀ o, Holds s o → Holds s' o := by
  unfold regcompA at h
  split at h
  · next s1 e1 =>
    cases h
    exact fun o ho => rxAllocs_none e1 o (by simpa [mpOwned] using ho)
  · next mp s1 e1 =>
    split at h
    · cases h
      exact fun o ho => mpDestroyA_holds (rxAllocs_some e1 o (by simpa [mpOwned] using ho))
    · cases h

/-- **regcomp, success, then regfree**: the compiled expression owns its pool blocks and
    `regfree` returns all of them -/
theorem regcompA_some {n : Nat} {sizes : List Nat} {e : Bool} {mp : MemPool} {s s' : AS}
    (h : regcompA n sizes e s = (some mp, s')) :
    ∀ o, Holds s o → Holds s' (mpOwned mp ++ o) ∧ Holds (regfreeA mp s') o := by
  unfold regcompA at h
  split at h
  · cases h
  · next mp1 s1 e1 =>
    split at h
    · cases h
    · cases h
      intro o ho
      have := rxAllocs_some e1 o (by simpa [mpOwned] using ho)
      exact ⟨this, mpDestroyA_holds this⟩

end Usual.C10
