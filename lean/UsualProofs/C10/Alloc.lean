import Usual.C10.Alloc
/-!
# C10 — basic facts about the allocator state

`Holds s o`: the allocator holds exactly the blocks of the list `o` (as a multiset).  Every
ownership statement has the form `Holds s (owned structure ++ frame)`: the blocks reachable
from the structure plus whatever else the caller keeps (`frame`), so the lemmas compose with
other structures living in the same allocator.
-/
namespace Usual.C10

def Holds (s : AS) (o : List Id) : Prop := ∀ a, s.live.count a = o.count a

theorem Holds.perm {s : AS} {o : List Id} (h : Holds s o) : s.live.Perm o :=
  List.perm_iff_count.mpr h

theorem Holds.of_perm {s : AS} {o : List Id} (h : s.live.Perm o) : Holds s o :=
  List.perm_iff_count.mp h

theorem Holds.congr {s : AS} {o o' : List Id} (h : Holds s o) (p : o.Perm o') : Holds s o' :=
  fun a => (h a).trans (p.count_eq a)

theorem Holds.nil_iff {s : AS} : Holds s [] ↔ s.live = [] := by
  constructor
  · intro h; exact List.Perm.eq_nil (h.perm)
  · intro h a; simp [h]

theorem Holds.of_live_eq {s s' : AS} {o : List Id} (h : Holds s o) (e : s'.live = s.live) :
    Holds s' o := fun a => by rw [e]; exact h a

/-! ### alloc -/

theorem allocS_none {s s' : AS} (h : allocS s = (none, s')) :
    s'.live = s.live ∧ s'.fails = s.fails ∧ s'.count = s.count + 1 := by
  unfold allocS at h
  split at h
  · cases h; exact ⟨rfl, rfl, rfl⟩
  · cases h

theorem allocS_some {s s' : AS} {b : Id} (h : allocS s = (some b, s')) :
    s'.live = b :: s.live ∧ s'.fails = s.fails ∧ s'.count = s.count + 1 ∧ b = s.nextId := by
  unfold allocS at h
  split at h
  · cases h
  · cases h; exact ⟨rfl, rfl, rfl, rfl⟩

/-- a request fails exactly when its number is in the fail set -/
theorem allocS_fails_iff (s : AS) : (allocS s).1 = none ↔ (s.count + 1) ∈ s.fails := by
  unfold allocS AS.nextFails
  split <;> simp_all

theorem reallocS_fails_iff (b : Id) (s : AS) : (reallocS b s).1 = none ↔ (s.count + 1) ∈ s.fails := by
  unfold reallocS AS.nextFails
  split <;> simp_all

theorem Holds.alloc {s s' : AS} {b : Id} {o : List Id} (h : Holds s o)
    (e : allocS s = (some b, s')) : Holds s' (b :: o) := by
  intro a
  rw [(allocS_some e).1, List.count_cons, List.count_cons, h a]

theorem Holds.alloc_none {s s' : AS} {o : List Id} (h : Holds s o)
    (e : allocS s = (none, s')) : Holds s' o :=
  h.of_live_eq (allocS_none e).1

/-! ### free -/

@[simp] theorem freeS_live (b : Id) (s : AS) : (freeS b s).live = s.live.erase b := rfl
@[simp] theorem freeS_fails (b : Id) (s : AS) : (freeS b s).fails = s.fails := rfl
@[simp] theorem freeS_count (b : Id) (s : AS) : (freeS b s).count = s.count := rfl

theorem Holds.free {s : AS} {o : List Id} (h : Holds s o) (b : Id) :
    Holds (freeS b s) (o.erase b) := by
  intro a
  rw [freeS_live, List.count_erase, List.count_erase, h a]

/-- releasing the head block of `b :: o` -/
theorem Holds.free_head {s : AS} {o : List Id} {b : Id} (h : Holds s (b :: o)) :
    Holds (freeS b s) o := by
  have := h.free b
  rwa [List.erase_cons_head] at this

/-- releasing a block that is somewhere in the list: the rest is held -/
theorem Holds.free_perm {s : AS} {o o' : List Id} {b : Id} (h : Holds s o) (p : o.Perm (b :: o')) :
    Holds (freeS b s) o' := (h.congr p).free_head

theorem Holds.freeOpt_none {s : AS} {o : List Id} (h : Holds s o) : Holds (freeOptS none s) o := h

theorem Holds.freeOpt_some {s : AS} {o : List Id} {b : Id} (h : Holds s (b :: o)) :
    Holds (freeOptS (some b) s) o := h.free_head

theorem Holds.freeAll {s : AS} {o : List Id} (bs : List Id) (h : Holds s (bs ++ o)) :
    Holds (freeAllS bs s) o := by
  induction bs generalizing s with
  | nil => simpa [freeAllS] using h
  | cons b bs ih =>
    simp only [freeAllS]
    apply ih
    exact Holds.free_head (by simpa using h)

theorem Holds.freeAll_perm {s : AS} {o o' : List Id} (bs : List Id) (h : Holds s o)
    (p : o.Perm (bs ++ o')) : Holds (freeAllS bs s) o' := (h.congr p).freeAll bs

@[simp] theorem freeAllS_fails (bs : List Id) (s : AS) : (freeAllS bs s).fails = s.fails := by
  induction bs generalizing s with
  | nil => rfl
  | cons b bs ih => simp [freeAllS, ih]

@[simp] theorem freeOptS_fails (b : Option Id) (s : AS) : (freeOptS b s).fails = s.fails := by
  cases b <;> rfl

/-! ### realloc -/

theorem reallocS_none {b : Id} {s s' : AS} (h : reallocS b s = (none, s')) :
    s'.live = s.live ∧ s'.fails = s.fails := by
  unfold reallocS at h
  split at h
  · cases h; exact ⟨rfl, rfl⟩
  · cases h

theorem reallocS_some {b n : Id} {s s' : AS} (h : reallocS b s = (some n, s')) :
    s'.live = n :: s.live.erase b ∧ s'.fails = s.fails := by
  unfold reallocS at h
  split at h
  · cases h
  · cases h; exact ⟨rfl, rfl⟩

theorem Holds.realloc {s s' : AS} {b n : Id} {o : List Id} (h : Holds s (b :: o))
    (e : reallocS b s = (some n, s')) : Holds s' (n :: o) := by
  intro a
  rw [(reallocS_some e).1, List.count_cons, List.count_cons, List.count_erase, h a, List.count_cons]
  omega

theorem Holds.realloc_none {s s' : AS} {b : Id} {o : List Id} (h : Holds s o)
    (e : reallocS b s = (none, s')) : Holds s' o :=
  h.of_live_eq (reallocS_none e).1

/-! ### roll-back patterns: blocks obtained in this call and released again, in any order -/

theorem erase_2nd (a b : Id) (L : List Id) : ((a :: b :: L).erase b).erase a = L := by
  by_cases h : a = b
  · subst h; simp
  · have : (a == b) = false := by simpa using h
    simp [this]

/-- blocks `xs` sit in front of `L`; releasing them in any order `ys` leaves exactly `L` -/
theorem foldl_erase_perm (ys xs L : List Id) (p : ys.Perm xs) :
    ys.foldl List.erase (xs ++ L) = L := by
  induction ys generalizing xs with
  | nil => have := p.symm.eq_nil; subst this; rfl
  | cons y ys ih =>
    have hy : y ∈ xs := p.subset (by simp)
    simp only [List.foldl_cons]
    rw [List.erase_append_left _ hy]
    apply ih
    have := (List.perm_cons_erase hy)
    exact (List.Perm.cons_inv (p.trans this))

theorem erase_3_rev (a b c : Id) (L : List Id) :
    (((a :: b :: c :: L).erase c).erase b).erase a = L := by
  have := foldl_erase_perm [c, b, a] [a, b, c] L (by
    apply List.perm_iff_count.mpr; intro x
    simp only [List.count_cons, List.count_nil]; omega)
  simpa using this

/-- counting proof of a permutation goal between explicit lists -/
macro "perm_count" : tactic =>
  `(tactic| (apply List.perm_iff_count.mpr; intro a;
             simp only [List.count_cons, List.count_append, List.count_nil, List.count_singleton]
             <;> omega))

end Usual.C10
