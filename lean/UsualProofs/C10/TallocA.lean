import UsualProofs.C10.Alloc
import Usual.C10.TallocA
import UsualProofs.Props.C01
import UsualProofs.Props.C19
/-!
# C10 — talloc under faults (over the C01 / C19 model): every live block backs a live chunk,
a call in which the underlying allocator failed is C01's step with `fail = true`, for which
C01 (`failed_op_unchanged`) and C19 (`failed_allocation_changes_nothing`) prove "nothing changed"
-/
namespace Usual.C10
open Usual.C01

theorem filter_split_count (l : List (Nat × Id)) (p : Nat × Id → Bool) (a : Id) :
    ((l.filter p).map (·.2)).count a + ((l.filter fun e => !p e).map (·.2)).count a =
    (l.map (·.2)).count a := by
  induction l with
  | nil => rfl
  | cons e es ih =>
    by_cases hp : p e = true
    · simp only [List.filter_cons, hp, ↓reduceIte, Bool.not_true, Bool.false_eq_true, List.map_cons,
        List.count_cons] at ih ⊢
      omega
    · have hp' : p e = false := by simpa using hp
      simp only [List.filter_cons, hp', Bool.false_eq_true, ↓reduceIte, Bool.not_false, List.map_cons,
        List.count_cons] at ih ⊢
      omega

def optL : Option Id → List Id
  | none => []
  | some b => [b]

/-- the book-keeping step keeps "the allocator holds exactly the recorded blocks" -/
theorem taFinish_holds (x : TaSt) (t' : State) (nb : Option Id) (s : AS) (o : List Id)
    (h : Holds s (optL nb ++ (x.owned ++ o))) :
    Holds (taFinish x t' nb s).2 ((taFinish x t' nb s).1.owned ++ o) := by
  have hs1 : Holds (freeAllS ((x.blk.filter fun e => !t'.live e.1).map (·.2)) s)
      (optL nb ++ (((x.blk.filter fun e => t'.live e.1).map (·.2)) ++ o)) := by
    apply Holds.freeAll_perm _ h
    apply List.perm_iff_count.mpr; intro a
    have := filter_split_count x.blk (fun e => t'.live e.1) a
    simp only [TaSt.owned, List.count_append] at this ⊢
    omega
  unfold taFinish
  cases nb with
  | none => simpa [optL, TaSt.owned] using hs1
  | some b =>
    simp only
    split
    · simpa [optL, TaSt.owned] using hs1
    · simp only [TaSt.owned]
      apply Holds.free_head (b := b)
      simpa [optL] using hs1

/-- every recorded block backs a chunk that is live in the C01 state -/
def TaSt.tracks (x : TaSt) : Prop := ∀ e, e ∈ x.blk → x.t.live e.1 = true

theorem taFinish_tracks (x : TaSt) (t' : State) (nb : Option Id) (s : AS) :
    (taFinish x t' nb s).1.tracks ∧ (taFinish x t' nb s).1.t = t' := by
  unfold taFinish
  cases nb with
  | none =>
    refine ⟨?_, rfl⟩
    intro e he
    simp only [List.mem_filter] at he
    exact he.2
  | some b =>
    simp only
    split
    · next hl =>
      refine ⟨?_, rfl⟩
      intro e he
      simp only [List.mem_cons, List.mem_filter] at he
      rcases he with rfl | he
      · exact hl
      · exact he.2
    · refine ⟨?_, rfl⟩
      intro e he
      simp only [List.mem_filter] at he
      exact he.2

theorem setBlk_count (o : Nat) (b nb : Id) (blk : List (Nat × Id)) (h : blkOf blk o = some b) (a : Id) :
    ((setBlk o nb blk).map (·.2)).count a + [b].count a = (blk.map (·.2)).count a + [nb].count a := by
  induction blk with
  | nil => simp [blkOf] at h
  | cons e es ih =>
    by_cases he : (e.1 == o) = true
    · simp only [blkOf, List.find?_cons, he, Option.map_some, Option.some.injEq] at h
      subst h
      simp only [setBlk, he, ↓reduceIte, List.map_cons, List.count_cons, List.count_nil]
      omega
    · have he' : (e.1 == o) = false := by simpa using he
      simp only [blkOf, List.find?_cons, he'] at h
      have := ih h
      simp only [setBlk, he', Bool.false_eq_true, ↓reduceIte, List.map_cons, List.count_cons] at this ⊢
      omega

theorem blkOf_mem {blk : List (Nat × Id)} {o : Nat} {b : Id} (hb : blkOf blk o = some b) :
    b ∈ blk.map (·.2) := by
  simp only [blkOf, Option.map_eq_some_iff] at hb
  obtain ⟨e, he, rfl⟩ := hb
  exact List.mem_map.mpr ⟨e, List.mem_of_find?_eq_some he, rfl⟩

theorem taAllocBranch_holds (x : TaSt) (c : TaCall) (s : AS) (o : List Id)
    (h : Holds s (x.owned ++ o)) :
    Holds (taAllocBranch x c s).2 ((taAllocBranch x c s).1.1.owned ++ o) ∧
    (taAllocBranch x c s).1.1.tracks := by
  unfold taAllocBranch
  generalize hq : allocS s = q
  obtain ⟨r, s1⟩ := q
  cases r with
  | none =>
    exact ⟨taFinish_holds x _ none s1 o (by simpa [optL] using h.alloc_none hq),
           (taFinish_tracks x _ none s1).1⟩
  | some b =>
    exact ⟨taFinish_holds x _ (some b) s1 o (by simpa [optL] using h.alloc hq),
           (taFinish_tracks x _ (some b) s1).1⟩

theorem taReallocBranch_holds (x : TaSt) (c : TaCall) (ob : Nat) (s : AS) (o : List Id)
    (h : Holds s (x.owned ++ o)) :
    Holds (taReallocBranch x c ob s).2 ((taReallocBranch x c ob s).1.1.owned ++ o) ∧
    (taReallocBranch x c ob s).1.1.tracks := by
  unfold taReallocBranch
  cases hb : blkOf x.blk ob with
  | none =>
    exact ⟨taFinish_holds x _ none s o (by simpa [optL] using h), (taFinish_tracks x _ none s).1⟩
  | some b =>
    simp only
    generalize hq : reallocS b s = q
    obtain ⟨r, s1⟩ := q
    cases r with
    | none =>
      exact ⟨taFinish_holds x _ none s1 o (by simpa [optL] using h.realloc_none hq),
             (taFinish_tracks x _ none s1).1⟩
    | some nb =>
      refine ⟨taFinish_holds _ _ none s1 o ?_, (taFinish_tracks _ _ none s1).1⟩
      have hm := blkOf_mem hb
      simp only [optL, List.nil_append, TaSt.owned]
      have h0 : Holds s (b :: ((x.blk.map (·.2)).erase b ++ o)) := by
        apply h.congr
        apply List.perm_iff_count.mpr; intro a
        have pc := (List.perm_cons_erase hm).count_eq a
        simp only [TaSt.owned, List.count_cons, List.count_append] at pc ⊢
        omega
      apply (h0.realloc hq).congr
      apply List.perm_iff_count.mpr; intro a
      have pc := (List.perm_cons_erase hm).count_eq a
      have sc := setBlk_count ob b nb x.blk hb a
      simp only [List.count_cons, List.count_append, List.count_nil] at pc sc ⊢
      omega

/-- **ownership**: after every talloc call — successful, refused, or failed by the allocator —
    the underlying allocator holds exactly the blocks recorded for chunks, and (`tracks`) every
    recorded chunk is live in the C01 state -/
theorem taStepA_holds (x : TaSt) (c : TaCall) (s : AS) (o : List Id)
    (h : Holds s (x.owned ++ o)) :
    Holds (taStepA x c s).2 ((taStepA x c s).1.1.owned ++ o) ∧ (taStepA x c s).1.1.tracks := by
  unfold taStepA
  split
  · exact ⟨taFinish_holds x _ none s o (by simpa [optL] using h), (taFinish_tracks x _ none s).1⟩
  · cases c <;> first | exact taReallocBranch_holds x _ _ s o h | exact taAllocBranch_holds x _ s o h

theorem taRun_holds (cs : List TaCall) (x : TaSt) (s : AS) (o : List Id)
    (h : Holds s (x.owned ++ o)) :
    Holds (taRun cs x s).2 ((taRun cs x s).1.owned ++ o) ∧ (cs ≠ [] → (taRun cs x s).1.tracks) := by
  induction cs generalizing x s with
  | nil => exact ⟨h, fun hn => absurd rfl hn⟩
  | cons c cs ih =>
    simp only [taRun]
    obtain ⟨h1, h2⟩ := taStepA_holds x c s o h
    obtain ⟨h3, h4⟩ := ih _ _ h1
    refine ⟨h3, fun _ => ?_⟩
    cases cs with
    | nil => simpa [taRun] using h2
    | cons c' cs' => exact h4 (by simp)

/-- **everything is returned**: when no chunk of the talloc heap is live any more (C01's
    `all_roots_freed_balanced` says when: no top-level object is left), the underlying allocator
    holds nothing of it -/
theorem ta_all_dead_no_blocks (x : TaSt) (ht : x.tracks) (hd : ∀ i, x.t.live i = false) :
    x.owned = [] := by
  cases hb : x.blk with
  | nil => simp [TaSt.owned, hb]
  | cons e es =>
    have := ht e (by simp [hb])
    rw [hd e.1] at this
    cases this

/-! ### a call in which the allocator failed -/

/-- what `taStepA_state` says about one branch result `q` -/
def StateSpec (x : TaSt) (c : TaCall) (q : (TaSt × Int × Bool) × AS) : Prop :=
  (q.1.2.2 = true → q.1.1.t = (step Cfg.fixed x.t (c.toOp true)).1 ∧
      q.1.2.1 = (step Cfg.fixed x.t (c.toOp true)).2) ∧
  (q.1.2.2 = false → q.1.1.t = (step Cfg.fixed x.t (c.toOp false)).1 ∧
      q.1.2.1 = (step Cfg.fixed x.t (c.toOp false)).2)

theorem taAllocBranch_state (x : TaSt) (c : TaCall) (s : AS) : StateSpec x c (taAllocBranch x c s) := by
  unfold taAllocBranch StateSpec
  generalize allocS s = q
  obtain ⟨r, s1⟩ := q
  cases r with
  | none => exact ⟨fun _ => ⟨(taFinish_tracks _ _ _ _).2, rfl⟩, fun h => by cases h⟩
  | some b => exact ⟨(fun h => by cases h), fun _ => ⟨(taFinish_tracks _ _ _ _).2, rfl⟩⟩

theorem taReallocBranch_state (x : TaSt) (c : TaCall) (ob : Nat) (s : AS) :
    StateSpec x c (taReallocBranch x c ob s) := by
  unfold taReallocBranch StateSpec
  cases blkOf x.blk ob with
  | none => exact ⟨fun _ => ⟨(taFinish_tracks _ _ _ _).2, rfl⟩, fun h => by cases h⟩
  | some b =>
    simp only
    generalize reallocS b s = q
    obtain ⟨r, s1⟩ := q
    cases r with
    | none => exact ⟨fun _ => ⟨(taFinish_tracks _ _ _ _).2, rfl⟩, fun h => by cases h⟩
    | some nb => exact ⟨(fun h => by cases h), fun _ => ⟨(taFinish_tracks _ _ _ _).2, rfl⟩⟩

/-- the state after `taStepA` is the C01 state after the step with the oracle flag it used:
    `fail = true` exactly when the underlying allocator failed -/
theorem taStepA_state (x : TaSt) (c : TaCall) (s : AS) : StateSpec x c (taStepA x c s) := by
  unfold taStepA
  split
  · exact ⟨(fun h => by cases h), fun _ => ⟨(taFinish_tracks x _ none s).2, rfl⟩⟩
  · cases c <;> first | exact taReallocBranch_state x _ _ s | exact taAllocBranch_state x _ s

theorem absState_live {a b : State} (h : absState a = absState b) (j : Nat) : a.live j = b.live j := by
  unfold absState at h
  have h1 := (Prod.mk.injEq _ _ _ _ ▸ h).1
  have : (a.heap.map (Option.map absObj))[j]? = (b.heap.map (Option.map absObj))[j]? := by rw [h1]
  simp only [List.getElem?_map] at this
  unfold State.live State.get
  cases ha : a.heap[j]? <;> cases hb : b.heap[j]? <;> simp_all
  next va vb => cases va <;> cases vb <;> simp_all



/-- in a call where the allocator failed, nothing but the book-keeping step follows the failed
    request -/
def OomSpec (x : TaSt) (c : TaCall) (s : AS) (q : (TaSt × Int × Bool) × AS) : Prop :=
  q.1.2.2 = true → ∃ s1, s1.live = s.live ∧
    (q.1.1, q.2) = taFinish x (step Cfg.fixed x.t (c.toOp true)).1 none s1

theorem taAllocBranch_oom (x : TaSt) (c : TaCall) (s : AS) : OomSpec x c s (taAllocBranch x c s) := by
  unfold taAllocBranch OomSpec
  generalize hq : allocS s = q
  obtain ⟨r, s1⟩ := q
  cases r with
  | none => exact fun _ => ⟨s1, (allocS_none hq).1, rfl⟩
  | some b => exact fun h => by cases h

theorem taReallocBranch_oom (x : TaSt) (c : TaCall) (ob : Nat) (s : AS) :
    OomSpec x c s (taReallocBranch x c ob s) := by
  unfold taReallocBranch OomSpec
  cases blkOf x.blk ob with
  | none => exact fun _ => ⟨s, rfl, rfl⟩
  | some b =>
    simp only
    generalize hq : reallocS b s = q
    obtain ⟨r, s1⟩ := q
    cases r with
    | none => exact fun _ => ⟨s1, (reallocS_none hq).1, rfl⟩
    | some nb => exact fun h => by cases h

theorem taStepA_oomSpec (x : TaSt) (c : TaCall) (s : AS) : OomSpec x c s (taStepA x c s) := by
  unfold taStepA
  split
  · exact fun h => by cases h
  · cases c <;> first | exact taReallocBranch_oom x _ _ s | exact taAllocBranch_oom x _ s

theorem taFinish_all_live (x : TaSt) (t' : State) (s : AS) (h : ∀ e, e ∈ x.blk → t'.live e.1 = true) :
    taFinish x t' none s = ({ t := t', blk := x.blk }, s) := by
  unfold taFinish
  have h1 : x.blk.filter (fun e => t'.live e.1) = x.blk := List.filter_eq_self.mpr h
  have h2 : x.blk.filter (fun e => !t'.live e.1) = [] := by
    apply List.filter_eq_nil_iff.mpr
    intro e he; simp [h e he]
  simp [h1, h2, freeAllS]

/-- **talloc, a call failed by the underlying allocator** (−1 / NULL): in every well-formed state
    with acyclic holder graph the object graph is what it was (`absState`: C01's
    `failed_op_unchanged`), no block was obtained or released, and the record of blocks is
    unchanged -/
theorem taStepA_fault_atomic (x : TaSt) (c : TaCall) (s : AS) (rk : Nat → Nat)
    (hwf : wfOK x.t = true) (hrk : Ranked rk x.t) (ht : x.tracks)
    (hoom : (taStepA x c s).1.2.2 = true) (hret : (taStepA x c s).1.2.1 = -1) :
    absState (taStepA x c s).1.1.t = absState x.t ∧
    (taStepA x c s).1.1.blk = x.blk ∧ (taStepA x c s).2.live = s.live := by
  obtain ⟨hst, hr⟩ := (taStepA_state x c s).1 hoom
  rw [hr] at hret
  have habs := UsualProps.C01.failed_op_unchanged x.t (c.toOp true) rk hwf hrk hret
  obtain ⟨s1, hl, hf⟩ := taStepA_oomSpec x c s hoom
  have hall : ∀ e, e ∈ x.blk → (step Cfg.fixed x.t (c.toOp true)).1.live e.1 = true := by
    intro e he
    rw [absState_live habs]; exact ht e he
  rw [taFinish_all_live x _ s1 hall] at hf
  simp only [Prod.mk.injEq] at hf
  refine ⟨by rw [hst]; exact habs, by rw [hf.1], by rw [hf.2]; exact hl⟩

/-- with a memory limit in effect: a `talloc_size`-family call failed by the allocator leaves
    every object and every memlimit counter as it was (C19) -/
theorem taStepA_alloc_fault_counters (x : TaSt) (p : Option Nat) (n : Nat) (f : Bool) (s : AS)
    (rk : Nat → Nat) (hwf : wfOK x.t = true) (hrk : Ranked rk x.t)
    (hoom : (taStepA x (.alloc p n f) s).1.2.2 = true) :
    (taStepA x (.alloc p n f) s).1.2.1 = -1 ∧
    ∀ j, (taStepA x (.alloc p n f) s).1.1.t.get j = x.t.get j := by
  obtain ⟨hst, hr⟩ := (taStepA_state x (.alloc p n f) s).1 hoom
  obtain ⟨h1, _, h3⟩ := UsualProps.C19.failed_allocation_changes_nothing x.t rk hwf hrk p n f
  exact ⟨by rw [hr]; exact h1, fun j => by rw [hst]; exact h3 j⟩

end Usual.C10
