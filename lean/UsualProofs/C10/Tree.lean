import UsualProofs.C10.Alloc
import UsualProofs.C06.Refine
import Usual.C10.Tree
/-!
# C10 — crit-bit tree with node blocks: link to the C06 tree, ownership of the node blocks
-/
namespace Usual.C10
open Usual.C06

/-! ## erasure to the C06 tree -/

theorem NT.erase_entries (t : NT) : t.erase.entries = t.entries := by
  induction t with
  | leaf e => rfl
  | node i b l r ihl ihr => simp [NT.erase, T.entries, NT.entries, ihl, ihr]

theorem NT.erase_insertAt (t : NT) (n : Nat) (e : Entry) (id : Id) :
    (t.insertAt n e id).erase = t.erase.insertAt n e := by
  induction t with
  | leaf x =>
    simp only [NT.insertAt, NT.erase, T.insertAt]
    split <;> rfl
  | node i b l r ihl ihr =>
    simp only [NT.insertAt, NT.erase, T.insertAt]
    by_cases h1 : b < n
    · simp only [h1, ↓reduceIte]
      by_cases h2 : getBit e.key b = true
      · simp only [h2, ↓reduceIte, NT.erase, ihr]
      · simp only [h2, Bool.false_eq_true, ↓reduceIte, NT.erase, ihl]
    · simp only [h1, ↓reduceIte]
      split <;> rfl

theorem NT.nodeIds_insertAt (t : NT) (n : Nat) (e : Entry) (id : Id) :
    (t.insertAt n e id).nodeIds.Perm (id :: t.nodeIds) := by
  induction t with
  | leaf x =>
    simp only [NT.insertAt]
    split <;> simp [NT.nodeIds]
  | node i b l r ihl ihr =>
    simp only [NT.insertAt]
    by_cases h1 : b < n
    · simp only [h1, ↓reduceIte]
      by_cases h2 : getBit e.key b = true
      · simp only [h2, ↓reduceIte, NT.nodeIds]
        have := List.perm_iff_count.mp ihr
        apply List.perm_iff_count.mpr; intro a
        have := this a
        simp only [List.count_cons, List.count_append, List.count_nil] at this ⊢
        omega
      · simp only [h2, Bool.false_eq_true, ↓reduceIte, NT.nodeIds]
        have := List.perm_iff_count.mp ihl
        apply List.perm_iff_count.mpr; intro a
        have := this a
        simp only [List.count_cons, List.count_append, List.count_nil] at this ⊢
        omega
    · simp only [h1, ↓reduceIte]
      split
      · simp only [NT.nodeIds]
        apply List.perm_iff_count.mpr; intro a
        simp only [List.count_cons, List.count_append, List.count_nil]
        omega
      · simp only [NT.nodeIds]
        apply List.perm_iff_count.mpr; intro a
        simp only [List.count_cons, List.count_append, List.count_nil]
        omega

/-- `NT.delete` is `T.delete` on the erased tree -/
theorem NT.erase_delete (t : NT) (k : Key) :
    t.erase.delete k = (t.delete k).map fun p => (p.1, p.2.map fun q => q.2.erase) := by
  induction t with
  | leaf x =>
    simp only [NT.erase, T.delete, NT.delete]
    split <;> rfl
  | node i b l r ihl ihr =>
    simp only [NT.erase, T.delete, NT.delete]
    by_cases h : getBit k b = true
    · simp only [h, ↓reduceIte, ihr]
      cases hr : r.delete k with
      | none => rfl
      | some p =>
        obtain ⟨e, q⟩ := p
        cases q with
        | none => rfl
        | some jr => obtain ⟨j, r'⟩ := jr; rfl
    · simp only [h, Bool.false_eq_true, ↓reduceIte, ihl]
      cases hl : l.delete k with
      | none => rfl
      | some p =>
        obtain ⟨e, q⟩ := p
        cases q with
        | none => rfl
        | some jl => obtain ⟨j, l'⟩ := jl; rfl

/-- the deleted leaf was the whole tree: no internal node existed -/
theorem NT.delete_none_nodeIds (t : NT) (k : Key) (e : Entry) (h : t.delete k = some (e, none)) :
    t.nodeIds = [] := by
  cases t with
  | leaf x => rfl
  | node i b l r =>
    simp only [NT.delete] at h
    split at h
    · cases hr : r.delete k with
      | none => simp [hr] at h
      | some p =>
        obtain ⟨e', q⟩ := p
        cases q with
        | none => simp [hr] at h
        | some jr => obtain ⟨j, r'⟩ := jr; simp [hr] at h
    · cases hl : l.delete k with
      | none => simp [hl] at h
      | some p =>
        obtain ⟨e', q⟩ := p
        cases q with
        | none => simp [hl] at h
        | some jl => obtain ⟨j, l'⟩ := jl; simp [hl] at h

/-- exactly one node block is dropped by a delete below the root -/
theorem NT.delete_some_nodeIds (t : NT) (k : Key) (e : Entry) (j : Id) (t' : NT)
    (h : t.delete k = some (e, some (j, t'))) : t.nodeIds.Perm (j :: t'.nodeIds) := by
  induction t generalizing e j t' with
  | leaf x =>
    simp only [NT.delete] at h
    split at h <;> simp at h
  | node i b l r ihl ihr =>
    simp only [NT.delete] at h
    by_cases hb : getBit k b = true
    · simp only [hb, ↓reduceIte] at h
      cases hr : r.delete k with
      | none => simp [hr] at h
      | some p =>
        obtain ⟨e', q⟩ := p
        cases q with
        | none =>
          simp only [hr, Option.some.injEq, Prod.mk.injEq] at h
          obtain ⟨_, hj, ht⟩ := h
          subst hj; subst ht
          have := NT.delete_none_nodeIds r k e' hr
          simp only [NT.nodeIds, this]
          apply List.perm_iff_count.mpr; intro a
          simp only [List.count_cons, List.count_append, List.count_nil]
          omega
        | some jr =>
          obtain ⟨j', r'⟩ := jr
          simp only [hr, Option.some.injEq, Prod.mk.injEq] at h
          obtain ⟨_, hj, ht⟩ := h
          subst hj; subst ht
          have := List.perm_iff_count.mp (ihr e' j' r' hr)
          simp only [NT.nodeIds]
          apply List.perm_iff_count.mpr; intro a
          have := this a
          simp only [List.count_cons, List.count_append, List.count_nil] at this ⊢
          omega
    · simp only [hb, Bool.false_eq_true, ↓reduceIte] at h
      cases hl : l.delete k with
      | none => simp [hl] at h
      | some p =>
        obtain ⟨e', q⟩ := p
        cases q with
        | none =>
          simp only [hl, Option.some.injEq, Prod.mk.injEq] at h
          obtain ⟨_, hj, ht⟩ := h
          subst hj; subst ht
          have := NT.delete_none_nodeIds l k e' hl
          simp only [NT.nodeIds, this]
          apply List.perm_iff_count.mpr; intro a
          simp only [List.count_cons, List.count_append, List.count_nil]
          omega
        | some jl =>
          obtain ⟨j', l'⟩ := jl
          simp only [hl, Option.some.injEq, Prod.mk.injEq] at h
          obtain ⟨_, hj, ht⟩ := h
          subst hj; subst ht
          have := List.perm_iff_count.mp (ihl e' j' l' hl)
          simp only [NT.nodeIds]
          apply List.perm_iff_count.mpr; intro a
          have := this a
          simp only [List.count_cons, List.count_append, List.count_nil] at this ⊢
          omega

theorem NT.entries_insertAt (t : NT) (n : Nat) (e : Entry) (id : Id) :
    (t.insertAt n e id).entries.Perm (e :: t.entries) := by
  induction t with
  | leaf x =>
    simp only [NT.insertAt]
    split
    · simp only [NT.entries]; exact List.perm_append_comm (l₁ := [x]) (l₂ := [e])
    · simp [NT.entries]
  | node i b l r ihl ihr =>
    simp only [NT.insertAt]
    by_cases h1 : b < n
    · simp only [h1, ↓reduceIte]
      by_cases h2 : getBit e.key b = true
      · simp only [h2, ↓reduceIte, NT.entries]
        exact (List.Perm.append_left _ ihr).trans (List.perm_middle)
      · simp only [h2, Bool.false_eq_true, ↓reduceIte, NT.entries]
        exact List.Perm.append_right _ ihl
    · simp only [h1, ↓reduceIte]
      split
      · simp only [NT.entries]
        exact (List.perm_append_comm (l₁ := l.entries ++ r.entries) (l₂ := [e]))
      · simp [NT.entries]

/-- the deleted entry leaves the walk, everything else stays -/
theorem NT.delete_entries (t : NT) (k : Key) (e : Entry) (q : Option (Id × NT))
    (h : t.delete k = some (e, q)) :
    t.entries.Perm (e :: (match q with | none => [] | some p => p.2.entries)) := by
  induction t generalizing e q with
  | leaf x =>
    simp only [NT.delete] at h
    split at h
    · cases h; simp [NT.entries]
    · cases h
  | node i b l r ihl ihr =>
    simp only [NT.delete] at h
    by_cases hb : getBit k b = true
    · simp only [hb, ↓reduceIte] at h
      cases hr : r.delete k with
      | none => simp [hr] at h
      | some p =>
        obtain ⟨e', q'⟩ := p
        have := ihr e' q' hr
        cases q' with
        | none =>
          simp only [hr, Option.some.injEq, Prod.mk.injEq] at h
          obtain ⟨he, hq⟩ := h
          subst he; subst hq
          simp only [NT.entries]
          exact (List.Perm.append_left _ this).trans (by simp)
        | some jr =>
          obtain ⟨j', r'⟩ := jr
          simp only [hr, Option.some.injEq, Prod.mk.injEq] at h
          obtain ⟨he, hq⟩ := h
          subst he; subst hq
          simp only [NT.entries]
          exact (List.Perm.append_left _ this).trans List.perm_middle
    · simp only [hb, Bool.false_eq_true, ↓reduceIte] at h
      cases hl : l.delete k with
      | none => simp [hl] at h
      | some p =>
        obtain ⟨e', q'⟩ := p
        have := ihl e' q' hl
        cases q' with
        | none =>
          simp only [hl, Option.some.injEq, Prod.mk.injEq] at h
          obtain ⟨he, hq⟩ := h
          subst he; subst hq
          simp only [NT.entries]
          simpa using List.Perm.append_right r.entries this
        | some jl =>
          obtain ⟨j', l'⟩ := jl
          simp only [hl, Option.some.injEq, Prod.mk.injEq] at h
          obtain ⟨he, hq⟩ := h
          subst he; subst hq
          simp only [NT.entries]
          simpa using List.Perm.append_right r.entries this

/-! ## `struct CBTree` -/

theorem CB.eroot_entries (t : CB) : walk t.eroot = t.entries := by
  unfold CB.eroot CB.entries walk
  cases t.root with
  | none => rfl
  | some r => simp [NT.erase_entries]

theorem cbCreateA_none {s s' : AS} (h : cbCreateA s = (none, s')) : s'.live = s.live := by
  unfold cbCreateA at h
  split at h
  · next s1 e => cases h; exact (allocS_none e).1
  · cases h

theorem cbCreateA_some {s s' : AS} {t : CB} (h : cbCreateA s = (some t, s')) :
    t.root = none ∧ ∀ o, Holds s o → Holds s' (t.owned ++ o) := by
  unfold cbCreateA at h
  split at h
  · cases h
  · next b s1 e =>
    cases h
    refine ⟨rfl, fun o ho => ?_⟩
    simpa [CB.owned, CB.nodeIds] using ho.alloc e

/-- a refused or failed `cbtree_insert` changes neither the tree nor the allocator's holdings -/
theorem cbInsertA_false {t t' : CB} {e : Entry} {s s' : AS}
    (h : cbInsertA t e s = ((false, t'), s')) : t' = t ∧ s'.live = s.live := by
  unfold cbInsertA at h
  split at h
  · cases h
  · split at h
    · cases h; exact ⟨rfl, rfl⟩
    · split at h
      · next s1 e1 => cases h; exact ⟨rfl, (allocS_none e1).1⟩
      · cases h

/-- a successful `cbtree_insert` is the C06 C06.insert on the erased tree; the one new block is the
    new internal node (none when the tree was empty) -/
theorem cbInsertA_true {t t' : CB} {e : Entry} {s s' : AS}
    (h : cbInsertA t e s = ((true, t'), s')) :
    C06.insert t.eroot e = some t'.eroot ∧ t'.hdr = t.hdr ∧
    ∀ o, Holds s (t.owned ++ o) → Holds s' (t'.owned ++ o) := by
  unfold cbInsertA at h
  split at h
  · next hr =>
    cases h
    refine ⟨by simp [CB.eroot, hr, C06.insert, NT.erase], rfl, fun o ho => ?_⟩
    simpa [CB.owned, CB.nodeIds, hr, NT.nodeIds] using ho
  · next r hr =>
    split at h
    · cases h
    · next n hn =>
      split at h
      · cases h
      · next id s1 e1 =>
        cases h
        refine ⟨?_, rfl, fun o ho => ?_⟩
        · simp only [CB.eroot, hr, Option.map_some, C06.insert, hn, NT.erase_insertAt]
        · have h1 := ho.alloc e1
          have p := NT.nodeIds_insertAt r n e id
          intro a
          have := h1 a
          have pc := p.count_eq a
          simp only [CB.owned, CB.nodeIds, hr, List.count_cons, List.count_append] at this pc ⊢
          omega

theorem cbInsertA_entries {t t' : CB} {e : Entry} {s s' : AS}
    (h : cbInsertA t e s = ((true, t'), s')) : t'.entries.Perm (e :: t.entries) := by
  unfold cbInsertA at h
  split at h
  · next hr => cases h; simp [CB.entries, hr, NT.entries]
  · next r hr =>
    split at h
    · cases h
    · split at h
      · cases h
      · next id s1 e1 =>
        cases h
        simpa [CB.entries, hr] using NT.entries_insertAt r _ e id

theorem cbDeleteA_entries {t t' : CB} {k : Key} {e : Entry} {s s' : AS}
    (h : cbDeleteA t k s = ((some e, t'), s')) : t.entries.Perm (e :: t'.entries) := by
  unfold cbDeleteA at h
  cases hr : t.root with
  | none => simp [hr] at h
  | some rt =>
    simp only [hr] at h
    cases hd : rt.delete k with
    | none => simp [hd] at h
    | some p =>
      obtain ⟨e', q⟩ := p
      have := NT.delete_entries rt k e' q hd
      cases q with
      | none =>
        simp only [hd] at h
        cases h
        simpa [CB.entries, hr] using this
      | some jr =>
        obtain ⟨j, r'⟩ := jr
        simp only [hd] at h
        cases h
        simpa [CB.entries, hr] using this

/-- when the C06 insert refuses the key, no request is made at all -/
theorem cbInsertA_refused {t : CB} {e : Entry} (s : AS) (h : C06.insert t.eroot e = none) :
    cbInsertA t e s = ((false, t), s) := by
  unfold cbInsertA
  cases hr : t.root with
  | none => simp [CB.eroot, hr, C06.insert] at h
  | some r =>
    simp only [CB.eroot, hr, Option.map_some, C06.insert] at h
    simp only
    split at h
    · next hn => simp [hn]
    · cases h

/-- without an injected failure at this point `cbInsertA` succeeds exactly when C06's C06.insert does -/
theorem cbInsertA_no_fault {t : CB} {e : Entry} {s : AS} (hf : s.nextFails = false) :
    (cbInsertA t e s).1.1 = (C06.insert t.eroot e).isSome := by
  unfold cbInsertA
  cases hr : t.root with
  | none => simp [CB.eroot, hr, C06.insert]
  | some r =>
    simp only [CB.eroot, hr, Option.map_some, C06.insert]
    cases hn : findCrit e.key (r.erase.rawLookup e.key).key with
    | none => simp
    | some n => simp [allocS, hf]

theorem cbDeleteA_spec {t t' : CB} {k : Key} {r : Option Entry} {s s' : AS}
    (h : cbDeleteA t k s = ((r, t'), s')) :
    (C06.delete t.eroot k).map (·.1) = r ∧
    (∀ e, r = some e → C06.delete t.eroot k = some (e, t'.eroot)) ∧
    (r = none → t' = t ∧ s' = s) ∧ t'.hdr = t.hdr ∧ s'.fails = s.fails ∧
    ∀ o, Holds s (t.owned ++ o) → Holds s' (t'.owned ++ o) := by
  unfold cbDeleteA at h
  cases hr : t.root with
  | none =>
    simp only [hr] at h
    cases h
    simp [CB.eroot, hr, C06.delete]
  | some rt =>
    simp only [hr] at h
    have he := NT.erase_delete rt k
    cases hd : rt.delete k with
    | none =>
      simp only [hd] at h
      cases h
      simp only [hd, Option.map_none] at he
      simp [CB.eroot, hr, C06.delete, he]
    | some p =>
      obtain ⟨e, q⟩ := p
      cases q with
      | none =>
        simp only [hd] at h
        cases h
        simp only [hd, Option.map_some, Option.map_none] at he
        refine ⟨by simp [CB.eroot, hr, C06.delete, he], ?_, by simp, rfl, rfl, ?_⟩
        · intro e' he'; cases he'; simp [CB.eroot, hr, C06.delete, he]
        · intro o ho
          have := NT.delete_none_nodeIds rt k e hd
          simpa [CB.owned, CB.nodeIds, hr, this] using ho
      | some jr =>
        obtain ⟨j, r'⟩ := jr
        simp only [hd] at h
        cases h
        simp only [hd, Option.map_some] at he
        refine ⟨by simp [CB.eroot, hr, C06.delete, he], ?_, by simp, rfl, rfl, ?_⟩
        · intro e' he'; cases he'; simp [CB.eroot, hr, C06.delete, he]
        · intro o ho
          have p := NT.delete_some_nodeIds rt k e j r' hd
          apply Holds.free_perm ho
          apply List.perm_iff_count.mpr; intro a
          have pc := p.count_eq a
          simp only [CB.owned, CB.nodeIds, hr, List.count_cons, List.count_append] at pc ⊢
          omega

theorem cbDestroyA_holds {t : CB} {s : AS} {o : List Id} (h : Holds s (t.owned ++ o)) :
    Holds (cbDestroyA t s) o := by
  unfold cbDestroyA
  apply Holds.free_head (b := t.hdr)
  apply Holds.freeAll_perm t.nodeIds h
  apply List.perm_iff_count.mpr; intro a
  simp only [CB.owned, List.count_cons, List.count_append]
  omega

@[simp] theorem cbDestroyA_fails (t : CB) (s : AS) : (cbDestroyA t s).fails = s.fails := by
  simp [cbDestroyA]

end Usual.C10
