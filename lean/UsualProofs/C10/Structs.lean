import UsualProofs.C10.Alloc
import Usual.C10.Structs
/-!
# C10 — hashtab, heap, strlist, pg_parse_array, mbuf, slab, cx tree, digest/HMAC:
failure is all-or-nothing, every block is owned
-/
namespace Usual.C10

macro "perm_blocks'" : tactic =>
  `(tactic| (apply List.perm_iff_count.mpr; intro a;
             simp only [List.count_cons, List.count_append, List.count_nil, List.map_append,
                        List.map_cons, List.map_nil, List.flatMap_append, List.flatMap_cons,
                        List.flatMap_nil, List.append_nil, List.append_assoc, List.cons_append,
                        List.nil_append]
             <;> omega))

/-! ## hashtab -/

theorem htCreateA_none {n : Nat} {s s' : AS} (h : htCreateA n s = (none, s')) : s'.live = s.live := by
  unfold htCreateA at h
  split at h
  · next s1 e => cases h; exact (allocS_none e).1
  · cases h

theorem htCreateA_some {n : Nat} {seg : HSeg} {s s' : AS} (h : htCreateA n s = (some seg, s')) :
    s'.live = seg.id :: s.live ∧ seg.used = 0 ∧ seg.size = n := by
  unfold htCreateA at h
  split at h
  · cases h
  · next b s1 e => cases h; exact ⟨(allocS_some e).1, rfl, rfl⟩

@[simp] theorem HSeg.put_id (h : HSeg) (p k v : Nat) : (h.put p k v).id = h.id := rfl

/-- **insert into the chain, failure**: NULL ⇒ chain and allocator unchanged -/
theorem htInsertLast_none {key val : Nat} {h h' : HT} {s s' : AS}
    (e : htInsertLast key val h s = ((none, h'), s')) : h' = h ∧ s'.live = s.live := by
  induction h generalizing h' s s' with
  | nil => simp only [htInsertLast] at e; cases e; exact ⟨rfl, rfl⟩
  | cons seg rest ih =>
    cases rest with
    | nil =>
      simp only [htInsertLast] at e
      split at e
      · split at e
        · next s1 e1 => cases e; exact ⟨rfl, htCreateA_none e1⟩
        · cases e
      · cases e
    | cons seg2 rest2 =>
      simp only [htInsertLast] at e
      generalize hq : htInsertLast key val (seg2 :: rest2) s = q at e
      obtain ⟨⟨r, t⟩, s1⟩ := q
      simp only [Prod.mk.injEq] at e
      obtain ⟨⟨hr, ht⟩, hs⟩ := e
      subst hr; subst ht; subst hs
      obtain ⟨ht, hl⟩ := ih hq
      exact ⟨by rw [ht], hl⟩

/-- **insert into the chain, success**: at most one new segment, owned by the chain -/
theorem htInsertLast_some {key val : Nat} {h h' : HT} {u : Unit} {s s' : AS}
    (e : htInsertLast key val h s = ((some u, h'), s')) :
    ∀ o, Holds s (h.owned ++ o) → Holds s' (h'.owned ++ o) := by
  induction h generalizing h' s s' with
  | nil => simp [htInsertLast] at e
  | cons seg rest ih =>
    cases rest with
    | nil =>
      simp only [htInsertLast] at e
      split at e
      · split at e
        · cases e
        · next n s1 e1 =>
          cases e
          intro o ho
          intro a
          rw [(htCreateA_some e1).1]
          have := ho a
          simp only [HT.owned, List.map_cons, List.map_nil, HSeg.put_id, List.count_cons,
            List.count_append, List.count_nil] at this ⊢
          omega
      · cases e
        intro o ho
        simpa [HT.owned] using ho
    | cons seg2 rest2 =>
      simp only [htInsertLast] at e
      generalize hq : htInsertLast key val (seg2 :: rest2) s = q at e
      obtain ⟨⟨r, t⟩, s1⟩ := q
      simp only [Prod.mk.injEq] at e
      obtain ⟨⟨hr, ht⟩, hs⟩ := e
      subst hr; subst ht; subst hs
      intro o ho
      have h1 : Holds s (HT.owned (seg2 :: rest2) ++ (seg.id :: o)) := by
        apply ho.congr; simp only [HT.owned, List.map_cons]; perm_blocks'
      apply (ih hq _ h1).congr
      simp only [HT.owned, List.map_cons]; perm_blocks'

theorem htPutA_null {h h' : HT} {k v : Nat} {s s' : AS}
    (e : htPutA h k v s = ((none, h'), s')) : h' = h ∧ s'.live = s.live := by
  unfold htPutA at e
  split at e
  · cases e
  · split at e
    · next h2 s1 e1 => cases e; exact htInsertLast_none e1
    · cases e

theorem htPutA_some {h h' : HT} {k v x : Nat} {s s' : AS}
    (e : htPutA h k v s = ((some x, h'), s')) :
    ∀ o, Holds s (h.owned ++ o) → Holds s' (h'.owned ++ o) := by
  unfold htPutA at e
  split at e
  · cases e; exact fun o ho => ho
  · split at e
    · cases e
    · next u h2 s1 e1 => cases e; exact htInsertLast_some e1

theorem HSeg.compact_id (h : HSeg) (fuel dst : Nat) : (h.compact fuel dst).id = h.id := by
  induction fuel generalizing h dst with
  | zero => rfl
  | succ n ih =>
    simp only [HSeg.compact]
    split
    · rw [ih]
    · rfl

theorem htDelete_owned (k : Nat) (h : HT) : (htDelete k h).owned = h.owned := by
  induction h with
  | nil => rfl
  | cons seg rest ih =>
    simp only [htDelete]
    split
    · simp [HT.owned, HSeg.compact_id]
    · simp only [HT.owned, List.map_cons] at ih ⊢; rw [ih]

theorem htDestroyA_holds {h : HT} {s : AS} {o : List Id} (e : Holds s (h.owned ++ o)) :
    Holds (htDestroyA h s) o := Holds.freeAll _ e

/-- the copy loop: on failure the whole new chain is gone again -/
theorem htCopyLoop_none {items : List (Nat × Nat)} {n : HT} {s s' : AS}
    (e : htCopyLoop items n s = (none, s')) :
    ∀ o, Holds s (n.owned ++ o) → Holds s' o := by
  induction items generalizing n s with
  | nil => simp [htCopyLoop] at e
  | cons kv rest ih =>
    obtain ⟨k, v⟩ := kv
    simp only [htCopyLoop] at e
    split at e
    · next n' s1 e1 =>
      cases e
      obtain ⟨hn, hl⟩ := htInsertLast_none e1
      intro o ho
      subst hn
      exact htDestroyA_holds (ho.of_live_eq hl)
    · next u n' s1 e1 =>
      intro o ho
      exact ih e o (htInsertLast_some e1 o ho)

theorem htCopyLoop_some {items : List (Nat × Nat)} {n n2 : HT} {s s' : AS}
    (e : htCopyLoop items n s = (some n2, s')) :
    ∀ o, Holds s (n.owned ++ o) → Holds s' (n2.owned ++ o) := by
  induction items generalizing n s with
  | nil => simp only [htCopyLoop] at e; cases e; exact fun o ho => ho
  | cons kv rest ih =>
    obtain ⟨k, v⟩ := kv
    simp only [htCopyLoop] at e
    split at e
    · cases e
    · next u n' s1 e1 =>
      intro o ho
      exact ih e o (htInsertLast_some e1 o ho)

/-- **hashtab_copy, failure** (with F11): NULL ⇒ nothing of the new chain stays allocated; the
    old chain is not touched (it is not even an output of the function) -/
theorem htCopyA_none {h : HT} {n : Nat} {s s' : AS} (e : htCopyA h n s = (none, s')) :
    ∀ o, Holds s o → Holds s' o := by
  unfold htCopyA at e
  split at e
  · next s1 e1 => cases e; exact fun o ho => ho.of_live_eq (htCreateA_none e1)
  · next seg s1 e1 =>
    intro o ho
    apply htCopyLoop_none e o
    intro a
    rw [(htCreateA_some e1).1]
    simp only [HT.owned, List.map_cons, List.map_nil, List.count_cons, List.count_append,
      List.count_nil, ho a]
    omega

theorem htCopyA_some {h h2 : HT} {n : Nat} {s s' : AS} (e : htCopyA h n s = (some h2, s')) :
    ∀ o, Holds s o → Holds s' (h2.owned ++ o) := by
  unfold htCopyA at e
  split at e
  · cases e
  · next seg s1 e1 =>
    intro o ho
    apply htCopyLoop_some e o
    intro a
    rw [(htCreateA_some e1).1]
    simp only [HT.owned, List.map_cons, List.map_nil, List.count_cons, List.count_append,
      List.count_nil, ho a]
    omega

/-! ## heap -/

theorem hpCreateA_none {s s' : AS} (h : hpCreateA s = (none, s')) : s'.live = s.live := by
  unfold hpCreateA at h
  split at h
  · next s1 e => cases h; exact (allocS_none e).1
  · cases h

theorem hpCreateA_some {s s' : AS} {hp : HP} (h : hpCreateA s = (some hp, s')) :
    hp.elems = [] ∧ hp.used = 0 ∧ ∀ o, Holds s o → Holds s' (hp.owned ++ o) := by
  unfold hpCreateA at h
  split at h
  · cases h
  · next b s1 e =>
    cases h
    exact ⟨rfl, rfl, fun o ho => by simpa [HP.owned] using ho.alloc e⟩

/-- **heap_reserve, failure**: the heap (array pointer, capacity, contents) is unchanged -/
theorem hpReserveA_false {h h' : HP} {n : Nat} {s s' : AS}
    (e : hpReserveA h n s = ((false, h'), s')) : h' = h ∧ s'.live = s.live := by
  unfold hpReserveA at e
  split at e
  · cases e
  · simp only at e
    cases hd : h.data with
    | none =>
      simp only [hd, reallocOptS] at e
      split at e
      · next s1 e1 => cases e; exact ⟨rfl, (allocS_none e1).1⟩
      · cases e
    | some d =>
      simp only [hd, reallocOptS] at e
      split at e
      · next s1 e1 => cases e; exact ⟨rfl, (reallocS_none e1).1⟩
      · cases e

theorem hpReserveA_true {h h' : HP} {n : Nat} {s s' : AS}
    (e : hpReserveA h n s = ((true, h'), s')) :
    h'.elems = h.elems ∧ h'.used = h.used ∧ h'.hdr = h.hdr ∧
    ∀ o, Holds s (h.owned ++ o) → Holds s' (h'.owned ++ o) := by
  unfold hpReserveA at e
  split at e
  · cases e; exact ⟨rfl, rfl, rfl, fun o ho => ho⟩
  · simp only at e
    cases hd : h.data with
    | none =>
      simp only [hd, reallocOptS] at e
      split at e
      · cases e
      · next d s1 e1 =>
        cases e
        refine ⟨rfl, rfl, rfl, fun o ho => ?_⟩
        apply (ho.alloc e1).congr
        simp only [HP.owned, hd]; perm_blocks'
    | some d0 =>
      simp only [hd, reallocOptS] at e
      split at e
      · cases e
      · next d s1 e1 =>
        cases e
        refine ⟨rfl, rfl, rfl, fun o ho => ?_⟩
        have h0 : Holds s (d0 :: (h.hdr :: o)) := by
          apply ho.congr; simp only [HP.owned, hd]; perm_blocks'
        apply (h0.realloc e1).congr
        simp only [HP.owned]; perm_blocks'

/-- **heap_push, failure**: nothing changed -/
theorem hpPushA_false {h h' : HP} {x : Nat} {s s' : AS}
    (e : hpPushA h x s = ((false, h'), s')) : h' = h ∧ s'.live = s.live := by
  unfold hpPushA at e
  split at e
  · split at e
    · next h2 s1 e1 => cases e; exact hpReserveA_false e1
    · cases e
  · cases e

theorem hpPushA_true {h h' : HP} {x : Nat} {s s' : AS}
    (e : hpPushA h x s = ((true, h'), s')) :
    h'.elems = x :: h.elems ∧ h'.used = h.used + 1 ∧
    ∀ o, Holds s (h.owned ++ o) → Holds s' (h'.owned ++ o) := by
  unfold hpPushA at e
  split at e
  · split at e
    · cases e
    · next h2 s1 e1 =>
      cases e
      obtain ⟨he, hu, hh, ht⟩ := hpReserveA_true e1
      refine ⟨by simp [he], by simp [hu], fun o ho => ?_⟩
      simpa [HP.owned] using ht o ho
  · cases e
    exact ⟨rfl, rfl, fun o ho => by simpa [HP.owned] using ho⟩

theorem hpPop_owned (h : HP) : (hpPop h).2.owned = h.owned := by
  unfold hpPop
  split <;> rfl

theorem hpDestroyA_holds {h : HP} {s : AS} {o : List Id} (e : Holds s (h.owned ++ o)) :
    Holds (hpDestroyA h s) o := by
  unfold hpDestroyA
  cases hd : h.data with
  | none =>
    simp only [freeOptS]
    apply Holds.free_head (b := h.hdr)
    simpa [HP.owned, hd] using e
  | some d =>
    simp only [freeOptS]
    apply Holds.free_head (b := h.hdr)
    apply Holds.free_perm e
    simp only [HP.owned, hd]; perm_blocks'

/-! ## strlist and pg_parse_array -/

theorem slNewA_none {s s' : AS} (h : slNewA s = (none, s')) : s'.live = s.live := by
  unfold slNewA at h
  split at h
  · next s1 e => cases h; exact (allocS_none e).1
  · cases h

theorem slNewA_some {s s' : AS} {l : SL} (h : slNewA s = (some l, s')) :
    l.items = [] ∧ ∀ o, Holds s o → Holds s' (l.owned ++ o) := by
  unfold slNewA at h
  split at h
  · cases h
  · next b s1 e => cases h; exact ⟨rfl, fun o ho => by simpa [SL.owned] using ho.alloc e⟩

theorem slAppendRefA_false {l l' : SL} {str : Option (Id × List UInt8)} {s s' : AS}
    (e : slAppendRefA l str s = ((false, l'), s')) : l' = l ∧ s'.live = s.live := by
  unfold slAppendRefA at e
  split at e
  · next s1 e1 => cases e; exact ⟨rfl, (allocS_none e1).1⟩
  · cases e

theorem slAppendRefA_true {l l' : SL} {str : Option (Id × List UInt8)} {s s' : AS}
    (e : slAppendRefA l str s = ((true, l'), s')) :
    ∃ b, s'.live = b :: s.live ∧ l' = { l with items := l.items ++ [⟨b, str⟩] } := by
  unfold slAppendRefA at e
  split at e
  · cases e
  · next b s1 e1 => cases e; exact ⟨b, (allocS_some e1).1, rfl⟩

/-- **strlist_append, failure**: the list is unchanged and the string copy was released -/
theorem slAppendA_false {l l' : SL} {str : Option (List UInt8)} {s s' : AS}
    (e : slAppendA l str s = ((false, l'), s')) : l' = l ∧ s'.live = s.live := by
  unfold slAppendA at e
  split at e
  · exact slAppendRefA_false e
  · split at e
    · next s1 e1 => cases e; exact ⟨rfl, (allocS_none e1).1⟩
    · next nb s1 e1 =>
      split at e
      · next l2 s2 e2 =>
        cases e
        obtain ⟨hl, hs⟩ := slAppendRefA_false e2
        refine ⟨hl, ?_⟩
        rw [freeS_live, hs, (allocS_some e1).1, List.erase_cons_head]
      · cases e

theorem slAppendA_true {l l' : SL} {str : Option (List UInt8)} {s s' : AS}
    (e : slAppendA l str s = ((true, l'), s')) :
    l'.values = l.values ++ [str] ∧ l'.hdr = l.hdr ∧
    ∀ o, Holds s (l.owned ++ o) → Holds s' (l'.owned ++ o) := by
  unfold slAppendA at e
  split at e
  · obtain ⟨b, hb, hl⟩ := slAppendRefA_true e
    subst hl
    refine ⟨by simp [SL.values], rfl, fun o ho => ?_⟩
    intro a; rw [hb]
    have := ho a
    simp only [SL.owned, List.flatMap_append, List.flatMap_cons, List.flatMap_nil, SItem.blocks,
      List.count_cons, List.count_append, List.count_nil, List.append_nil] at this ⊢
    omega
  · next bytes =>
    split at e
    · cases e
    · next nb s1 e1 =>
      split at e
      · cases e
      · next l2 s2 e2 =>
        cases e
        obtain ⟨b, hb, hl⟩ := slAppendRefA_true e2
        subst hl
        refine ⟨by simp [SL.values], rfl, fun o ho => ?_⟩
        intro a; rw [hb, (allocS_some e1).1]
        have := ho a
        simp only [SL.owned, List.flatMap_append, List.flatMap_cons, List.flatMap_nil, SItem.blocks,
          List.count_cons, List.count_append, List.count_nil, List.append_nil] at this ⊢
        omega

theorem slPopA_holds {l l' : SL} {r : Option (Option (List UInt8))} {s s' : AS}
    (e : slPopA l s = ((r, l'), s')) :
    s'.fails = s.fails ∧ l'.hdr = l.hdr ∧
    ∀ o, Holds s (l.owned ++ o) → Holds s' (l'.owned ++ o) := by
  unfold slPopA at e
  split at e
  · cases e; exact ⟨rfl, rfl, fun o ho => ho⟩
  · next i rest hi =>
    cases e
    refine ⟨by simp, rfl, fun o ho => ?_⟩
    cases hs : i.str with
    | none =>
      simp only [Option.map_none, freeOptS]
      apply Holds.free_perm ho
      simp only [SL.owned, hi, List.flatMap_cons, SItem.blocks, hs]; perm_blocks'
    | some p =>
      simp only [Option.map_some, freeOptS]
      apply Holds.free_perm (o := p.1 :: (({ l with items := rest } : SL).owned ++ o))
      · apply Holds.free_perm ho
        simp only [SL.owned, hi, List.flatMap_cons, SItem.blocks, hs]; perm_blocks'
      · exact List.Perm.refl _

theorem slFreeA_holds {l : SL} {s : AS} {o : List Id} (e : Holds s (l.owned ++ o)) :
    Holds (slFreeA l s) o := by
  unfold slFreeA
  apply Holds.free_head (b := l.hdr)
  apply Holds.freeAll_perm _ e
  simp only [SL.owned]; perm_blocks'

theorem pgValueA_false {l l' : SL} {v : Option (List UInt8)} {s s' : AS}
    (e : pgValueA l v s = ((false, l'), s')) : l' = l ∧ s'.live = s.live := by
  unfold pgValueA at e
  split at e
  · exact slAppendRefA_false e
  · split at e
    · next s1 e1 => cases e; exact ⟨rfl, (allocS_none e1).1⟩
    · next nb s1 e1 =>
      split at e
      · next l2 s2 e2 =>
        cases e
        obtain ⟨hl, hs⟩ := slAppendRefA_false e2
        refine ⟨hl, ?_⟩
        rw [freeS_live, hs, (allocS_some e1).1, List.erase_cons_head]
      · cases e

theorem pgValueA_true {l l' : SL} {v : Option (List UInt8)} {s s' : AS}
    (e : pgValueA l v s = ((true, l'), s')) :
    l'.values = l.values ++ [v] ∧
    ∀ o, Holds s (l.owned ++ o) → Holds s' (l'.owned ++ o) := by
  have : pgValueA l v s = slAppendA l v s := by
    unfold pgValueA slAppendA; rfl
  rw [this] at e
  exact ⟨(slAppendA_true e).1, (slAppendA_true e).2.2⟩

theorem pgLoopA_none {vals : List (Option (List UInt8))} {l : SL} {s s' : AS}
    (e : pgLoopA vals l s = (none, s')) : ∀ o, Holds s (l.owned ++ o) → Holds s' o := by
  induction vals generalizing l s with
  | nil => simp [pgLoopA] at e
  | cons v rest ih =>
    simp only [pgLoopA] at e
    split at e
    · next l2 s1 e1 =>
      cases e
      obtain ⟨hl, hs⟩ := pgValueA_false e1
      subst hl
      exact fun o ho => slFreeA_holds (ho.of_live_eq hs)
    · next l2 s1 e1 =>
      exact fun o ho => ih e o ((pgValueA_true e1).2 o ho)

theorem pgLoopA_some {vals : List (Option (List UInt8))} {l l' : SL} {s s' : AS}
    (e : pgLoopA vals l s = (some l', s')) :
    l'.values = l.values ++ vals ∧ ∀ o, Holds s (l.owned ++ o) → Holds s' (l'.owned ++ o) := by
  induction vals generalizing l s with
  | nil => simp only [pgLoopA] at e; cases e; exact ⟨by simp, fun o ho => ho⟩
  | cons v rest ih =>
    simp only [pgLoopA] at e
    split at e
    · cases e
    · next l2 s1 e1 =>
      obtain ⟨hv, ht⟩ := pgValueA_true e1
      obtain ⟨hv2, ht2⟩ := ih e
      exact ⟨by rw [hv2, hv]; simp, fun o ho => ht2 o (ht o ho)⟩

/-- **pg_parse_array, failure**: NULL ⇒ nothing obtained during the call remains allocated -/
theorem pgParseA_none {vals : List (Option (List UInt8))} {s s' : AS}
    (e : pgParseA vals s = (none, s')) : ∀ o, Holds s o → Holds s' o := by
  unfold pgParseA at e
  split at e
  · next s1 e1 => cases e; exact fun o ho => ho.of_live_eq (slNewA_none e1)
  · next l s1 e1 => exact fun o ho => pgLoopA_none e o ((slNewA_some e1).2 o ho)

/-- **pg_parse_array, success**: the list holds exactly the element values, and owns its blocks -/
theorem pgParseA_some {vals : List (Option (List UInt8))} {l : SL} {s s' : AS}
    (e : pgParseA vals s = (some l, s')) :
    l.values = vals ∧ ∀ o, Holds s o → Holds s' (l.owned ++ o) := by
  unfold pgParseA at e
  split at e
  · cases e
  · next l0 s1 e1 =>
    obtain ⟨hi, ht⟩ := slNewA_some e1
    obtain ⟨hv, ht2⟩ := pgLoopA_some e
    exact ⟨by rw [hv]; simp [SL.values, hi], fun o ho => ht2 o (ht o ho)⟩

/-! ## mbuf -/

/-- **mbuf_make_room, failure**: buffer pointer, capacity and content unchanged -/
theorem mbMakeRoomA_false {m m' : MB} {n : Nat} {s s' : AS}
    (e : mbMakeRoomA m n s = ((false, m'), s')) : m' = m ∧ s'.live = s.live := by
  unfold mbMakeRoomA at e
  split at e
  · cases e
  · simp only at e
    cases hd : m.data with
    | none =>
      simp only [hd, reallocOptS] at e
      split at e
      · next s1 e1 => cases e; exact ⟨rfl, (allocS_none e1).1⟩
      · cases e
    | some d =>
      simp only [hd, reallocOptS] at e
      split at e
      · next s1 e1 => cases e; exact ⟨rfl, (reallocS_none e1).1⟩
      · cases e

theorem mbMakeRoomA_true {m m' : MB} {n : Nat} {s s' : AS}
    (e : mbMakeRoomA m n s = ((true, m'), s')) :
    m'.bytes = m.bytes ∧ ∀ o, Holds s (m.owned ++ o) → Holds s' (m'.owned ++ o) := by
  unfold mbMakeRoomA at e
  split at e
  · cases e; exact ⟨rfl, fun o ho => ho⟩
  · simp only at e
    cases hd : m.data with
    | none =>
      simp only [hd, reallocOptS] at e
      split at e
      · cases e
      · next d s1 e1 =>
        cases e
        refine ⟨rfl, fun o ho => ?_⟩
        apply (ho.alloc e1).congr
        simp only [MB.owned, hd]; perm_blocks'
    | some d0 =>
      simp only [hd, reallocOptS] at e
      split at e
      · cases e
      · next d s1 e1 =>
        cases e
        refine ⟨rfl, fun o ho => ?_⟩
        have h0 : Holds s (d0 :: o) := by simpa [MB.owned, hd] using ho
        simpa [MB.owned] using h0.realloc e1

theorem mbWriteA_false {m m' : MB} {b : List UInt8} {s s' : AS}
    (e : mbWriteA m b s = ((false, m'), s')) : m' = m ∧ s'.live = s.live := by
  unfold mbWriteA at e
  split at e
  · next m2 s1 e1 => cases e; exact mbMakeRoomA_false e1
  · cases e

theorem mbWriteA_true {m m' : MB} {b : List UInt8} {s s' : AS}
    (e : mbWriteA m b s = ((true, m'), s')) :
    m'.bytes = m.bytes ++ b ∧ ∀ o, Holds s (m.owned ++ o) → Holds s' (m'.owned ++ o) := by
  unfold mbWriteA at e
  split at e
  · cases e
  · next m2 s1 e1 =>
    cases e
    obtain ⟨hb, ht⟩ := mbMakeRoomA_true e1
    exact ⟨by simp [hb], fun o ho => by simpa [MB.owned] using ht o ho⟩

theorem mbFreeA_holds {m : MB} {s : AS} {o : List Id} (e : Holds s (m.owned ++ o)) :
    Holds (mbFreeA m s) o := by
  unfold mbFreeA
  cases hd : m.data with
  | none => simpa [freeOptS, MB.owned, hd] using e
  | some d =>
    simp only [freeOptS]
    apply Holds.free_head (b := d)
    simpa [MB.owned, hd] using e

/-! ## slab -/

theorem sbCreateA_none {n : Nat} {s s' : AS} (h : sbCreateA n s = (none, s')) : s'.live = s.live := by
  unfold sbCreateA at h
  split at h
  · next s1 e => cases h; exact (allocS_none e).1
  · cases h

theorem sbCreateA_some {n : Nat} {b : SB} {s s' : AS} (h : sbCreateA n s = (some b, s')) :
    b.total = 0 ∧ b.free = 0 ∧ ∀ o, Holds s o → Holds s' (b.owned ++ o) := by
  unfold sbCreateA at h
  split at h
  · cases h
  · next x s1 e => cases h; exact ⟨rfl, rfl, fun o ho => by simpa [SB.owned] using ho.alloc e⟩

/-- **slab_alloc, failure**: NULL ⇒ counters and fragment list unchanged -/
theorem sbAllocA_false {b b' : SB} {s s' : AS}
    (e : sbAllocA b s = ((false, b'), s')) : b' = b ∧ s'.live = s.live := by
  unfold sbAllocA at e
  split at e
  · cases e
  · split at e
    · next s1 e1 => cases e; exact ⟨rfl, (allocS_none e1).1⟩
    · cases e

theorem sbAllocA_true {b b' : SB} {s s' : AS}
    (e : sbAllocA b s = ((true, b'), s')) :
    (b.free > 0 ∧ b'.total = b.total ∧ b'.free = b.free - 1 ∧ s' = s) ∨
    (b.free = 0 ∧ b'.total = b.total + b.growCount ∧ b'.free = b.growCount - 1) := by
  unfold sbAllocA at e
  split at e
  · next hf => cases e; exact Or.inl ⟨hf, rfl, rfl, rfl⟩
  · next hf =>
    split at e
    · cases e
    · next f s1 e1 => cases e; exact Or.inr ⟨by omega, rfl, rfl⟩

theorem sbAllocA_holds {b b' : SB} {ok : Bool} {s s' : AS}
    (e : sbAllocA b s = ((ok, b'), s')) :
    ∀ o, Holds s (b.owned ++ o) → Holds s' (b'.owned ++ o) := by
  unfold sbAllocA at e
  split at e
  · cases e; exact fun o ho => by simpa [SB.owned] using ho
  · split at e
    · next s1 e1 => cases e; exact fun o ho => ho.of_live_eq (allocS_none e1).1
    · next f s1 e1 =>
      cases e
      intro o ho
      apply (ho.alloc e1).congr
      simp only [SB.owned]; perm_blocks'

theorem sbDestroyA_holds {b : SB} {s : AS} {o : List Id} (e : Holds s (b.owned ++ o)) :
    Holds (sbDestroyA b s) o := by
  unfold sbDestroyA
  apply Holds.free_head (b := b.hdr)
  apply Holds.freeAll_perm _ e
  simp only [SB.owned]; perm_blocks'

/-! ## cx tree allocator -/

def subBlocks (p : Id × List Id) : List Id := p.1 :: p.2

theorem CT.owned_eq (t : CT) : t.owned = t.hdr :: (t.items ++ t.subs.flatMap subBlocks) := rfl

theorem ctNewA_none {s s' : AS} (h : ctNewA s = (none, s')) : s'.live = s.live := by
  unfold ctNewA at h
  split at h
  · next s1 e => cases h; exact (allocS_none e).1
  · cases h

theorem ctNewA_some {s s' : AS} {t : CT} (h : ctNewA s = (some t, s')) :
    t.items = [] ∧ t.subs = [] ∧ ∀ o, Holds s o → Holds s' (t.owned ++ o) := by
  unfold ctNewA at h
  split at h
  · cases h
  · next b s1 e => cases h; exact ⟨rfl, rfl, fun o ho => by simpa [CT.owned] using ho.alloc e⟩

theorem ctNewSubA_none {t t' : CT} {s s' : AS} (h : ctNewSubA t s = ((none, t'), s')) :
    t' = t ∧ s'.live = s.live := by
  unfold ctNewSubA at h
  split at h
  · next s1 e => cases h; exact ⟨rfl, (allocS_none e).1⟩
  · cases h

theorem ctNewSubA_some {t t' : CT} {b : Id} {s s' : AS} (h : ctNewSubA t s = ((some b, t'), s')) :
    t'.items = t.items ∧ ∀ o, Holds s (t.owned ++ o) → Holds s' (t'.owned ++ o) := by
  unfold ctNewSubA at h
  split at h
  · cases h
  · next b' s1 e =>
    cases h
    refine ⟨rfl, fun o ho => ?_⟩
    apply (ho.alloc e).congr
    apply List.perm_iff_count.mpr; intro a
    simp only [CT.owned_eq, List.flatMap_append, List.flatMap_cons, List.flatMap_nil, subBlocks,
      List.count_cons, List.count_append, List.count_nil, List.append_nil]
    omega

/-- changing the item list of the first sub-tree with struct block `sid` -/
theorem modSub_count (sid : Id) (f : List Id → List Id) (subs : List (Id × List Id))
    (p : Id × List Id) (h : subs.find? (·.1 == sid) = some p) (a : Id) :
    ((modSub sid f subs).flatMap subBlocks).count a + p.2.count a =
    (subs.flatMap subBlocks).count a + (f p.2).count a := by
  induction subs with
  | nil => simp at h
  | cons x xs ih =>
    by_cases hx : (x.1 == sid) = true
    · simp only [List.find?_cons, hx, Option.some.injEq] at h
      subst h
      simp only [modSub, hx, ↓reduceIte, List.flatMap_cons, subBlocks, List.count_append,
        List.count_cons]
      omega
    · have hx' : (x.1 == sid) = false := by simpa using hx
      simp only [List.find?_cons, hx'] at h
      have := ih h
      simp only [modSub, hx', Bool.false_eq_true, ↓reduceIte, List.flatMap_cons,
        List.count_append] at this ⊢
      omega

/-- **tree_alloc, failure** -/
theorem ctAllocA_none {t t' : CT} {sub : Option Id} {s s' : AS}
    (h : ctAllocA t sub s = ((none, t'), s')) : t' = t ∧ s'.live = s.live := by
  unfold ctAllocA at h
  split at h
  · next s1 e => cases h; exact ⟨rfl, (allocS_none e).1⟩
  · split at h <;> cases h

theorem ctAllocA_some {t t' : CT} {sub : Option Id} {b : Id} {s s' : AS}
    (h : ctAllocA t sub s = ((some b, t'), s'))
    (hsub : ∀ sid, sub = some sid → (t.subs.find? (·.1 == sid)).isSome) :
    ∀ o, Holds s (t.owned ++ o) → Holds s' (t'.owned ++ o) := by
  unfold ctAllocA at h
  split at h
  · cases h
  · next b' s1 e =>
    split at h
    · cases h
      intro o ho
      apply (ho.alloc e).congr
      simp only [CT.owned_eq]; perm_blocks'
    · next sid =>
      cases h
      obtain ⟨p, hp⟩ := Option.isSome_iff_exists.mp (hsub sid rfl)
      intro o ho
      apply (ho.alloc e).congr
      apply List.perm_iff_count.mpr; intro a
      have := modSub_count sid (· ++ [b]) t.subs p hp a
      simp only [CT.owned_eq, addToSub, List.count_cons, List.count_append, List.count_nil] at this ⊢
      omega

/-- **tree_realloc, failure**: the block is linked into the list again, nothing changed -/
theorem ctReallocA_none {t t' : CT} {sub : Option Id} {blk : Id} {s s' : AS}
    (h : ctReallocA t sub blk s = ((none, t'), s')) : t' = t ∧ s'.live = s.live := by
  unfold ctReallocA at h
  split at h
  · next s1 e => cases h; exact ⟨rfl, (reallocS_none e).1⟩
  · split at h <;> cases h

theorem ctReallocA_some_top {t t' : CT} {blk b : Id} {s s' : AS}
    (h : ctReallocA t none blk s = ((some b, t'), s')) (hm : blk ∈ t.items) :
    ∀ o, Holds s (t.owned ++ o) → Holds s' (t'.owned ++ o) := by
  unfold ctReallocA at h
  split at h
  · cases h
  · next b' s1 e =>
    simp only at h
    cases h
    intro o ho
    have h0 : Holds s (blk :: (t.hdr :: (t.items.erase blk ++ t.subs.flatMap subBlocks) ++ o)) := by
      apply ho.congr
      apply List.perm_iff_count.mpr; intro a
      have pc := (List.perm_cons_erase hm).count_eq a
      simp only [CT.owned_eq, List.count_cons, List.count_append] at pc ⊢
      omega
    apply (h0.realloc e).congr
    simp only [CT.owned_eq]; perm_blocks'

theorem ctFreeA_top_holds {t : CT} {blk : Id} {s : AS} (hm : blk ∈ t.items) :
    ∀ o, Holds s (t.owned ++ o) → Holds (ctFreeA t none blk s).2 ((ctFreeA t none blk s).1.owned ++ o) := by
  intro o ho
  simp only [ctFreeA]
  apply Holds.free_perm ho
  apply List.perm_iff_count.mpr; intro a
  have pc := (List.perm_cons_erase hm).count_eq a
  simp only [CT.owned_eq, List.count_cons, List.count_append] at pc ⊢
  omega

theorem eraseP_sub_count (subs : List (Id × List Id)) (sid : Id) (p : Id × List Id)
    (h : subs.find? (·.1 == sid) = some p) (a : Id) :
    (subs.flatMap subBlocks).count a =
    (subBlocks p).count a + ((subs.eraseP (·.1 == sid)).flatMap subBlocks).count a := by
  induction subs with
  | nil => simp at h
  | cons x xs ih =>
    by_cases hx : (x.1 == sid) = true
    · simp only [List.find?_cons, hx, Option.some.injEq] at h
      subst h
      simp [hx, List.count_append]
    · have hx' : (x.1 == sid) = false := by simpa using hx
      simp only [List.find?_cons, hx'] at h
      simp only [List.eraseP_cons, hx', cond_false, List.flatMap_cons, List.count_append]
      rw [ih h]
      omega

/-- **cx_destroy of a sub-tree**: its items and its struct are returned -/
theorem ctDestroySubA_holds {t : CT} {sid : Id} {s : AS} :
    ∀ o, Holds s (t.owned ++ o) →
      Holds (ctDestroySubA t sid s).2 ((ctDestroySubA t sid s).1.owned ++ o) := by
  intro o ho
  unfold ctDestroySubA
  split
  · exact ho
  · next p hp =>
    simp only
    apply Holds.free_head (b := p.1)
    apply Holds.freeAll_perm _ ho
    apply List.perm_iff_count.mpr; intro a
    simp only [CT.owned_eq, List.count_cons, List.count_append]
    rw [eraseP_sub_count t.subs sid p hp a]
    simp only [subBlocks, List.count_cons]
    omega

theorem flatMap_swap_count (subs : List (Id × List Id)) (a : Id) :
    (subs.flatMap fun p => p.2 ++ [p.1]).count a = (subs.flatMap subBlocks).count a := by
  induction subs with
  | nil => rfl
  | cons x xs ih =>
    simp only [List.flatMap_cons, List.count_append, subBlocks, List.count_cons, List.count_nil, ih]
    omega

/-- **cx_destroy of the tree**: every item, every sub-tree and the struct are returned -/
theorem ctDestroyA_holds {t : CT} {s : AS} {o : List Id} (e : Holds s (t.owned ++ o)) :
    Holds (ctDestroyA t s) o := by
  unfold ctDestroyA
  apply Holds.free_head (b := t.hdr)
  apply Holds.freeAll (o := t.hdr :: o)
  apply Holds.freeAll_perm _ e
  apply List.perm_iff_count.mpr; intro a
  simp only [CT.owned_eq, List.count_cons, List.count_append]
  rw [flatMap_swap_count]
  omega

/-! ## digest / HMAC contexts -/

/-- **hmac_new, failure**: NULL ⇒ the digest context obtained first was released again -/
theorem hmNewA_none {s s' : AS} (h : hmNewA s = (none, s')) : s'.live = s.live := by
  unfold hmNewA dgNewA at h
  split at h
  · next s1 e => cases h; exact (allocS_none e).1
  · next b s1 e =>
    split at h
    · next s2 e2 =>
      cases h
      rw [freeS_live, (allocS_none e2).1, (allocS_some e).1, List.erase_cons_head]
    · cases h

theorem hmNewA_some {s s' : AS} {hm : HM} (h : hmNewA s = (some hm, s')) :
    ∀ o, Holds s o → Holds s' (hm.owned ++ o) := by
  unfold hmNewA dgNewA at h
  split at h
  · cases h
  · next b s1 e =>
    split at h
    · cases h
    · next c s2 e2 =>
      cases h
      exact fun o ho => by simpa [HM.owned] using (ho.alloc e).alloc e2

theorem hmFreeA_holds {hm : HM} {s : AS} {o : List Id} (e : Holds s (hm.owned ++ o)) :
    Holds (hmFreeA hm s) o := by
  unfold hmFreeA
  apply Holds.free_head (b := hm.ctx)
  apply Holds.free_perm e
  simp only [HM.owned]; perm_blocks'

end Usual.C10
