import UsualProofs.C10.Tree
/-!
# C10 — strpool and mdict: failure is all-or-nothing, every block is owned
-/
namespace Usual.C10
open Usual.C06

/-- permutation goals between lists built from `::`, `++`, `map` of opaque pieces -/
macro "perm_blocks" : tactic =>
  `(tactic| (apply List.perm_iff_count.mpr; intro a;
             simp only [List.count_cons, List.count_append, List.count_nil, List.map_append,
                        List.map_cons, List.map_nil, List.flatMap_append, List.flatMap_cons,
                        List.flatMap_nil, List.append_nil, List.append_assoc, List.cons_append,
                        List.nil_append]
             <;> omega))

theorem setRef_ids (refs : List (Nat × Nat)) (id n : Nat) :
    (setRef refs id n).map (·.1) = refs.map (·.1) := by
  induction refs with
  | nil => rfl
  | cons p ps ih =>
    simp only [setRef, List.map_cons, List.cons.injEq] at ih ⊢
    refine ⟨?_, ih⟩
    split
    · next h => simpa using (beq_iff_eq.mp h).symm
    · rfl

theorem eraseP_ids (refs : List (Nat × Nat)) (id : Nat) :
    (refs.eraseP (·.1 == id)).map (·.1) = (refs.map (·.1)).erase id := by
  induction refs with
  | nil => rfl
  | cons p ps ih =>
    by_cases h : p.1 = id
    · simp [h]
    · have : (p.1 == id) = false := by simpa using h
      simp [this, ih]

theorem refOf_mem {refs : List (Nat × Nat)} {id n : Nat} (h : refOf refs id = some n) :
    id ∈ refs.map (·.1) := by
  unfold refOf at h
  cases hf : refs.find? (·.1 == id) with
  | none => simp [hf] at h
  | some p =>
    have hm := List.mem_of_find?_eq_some hf
    have hp := List.find?_some hf
    simp only [beq_iff_eq] at hp
    exact List.mem_map.mpr ⟨p, hm, hp⟩

/-- the truncated subtraction in `count (l.erase b)` is exact when `b ∈ l` -/
theorem ite_le_count {l : List Id} {b : Id} (h : b ∈ l) (a : Id) :
    (if (b == a) = true then 1 else 0) ≤ l.count a := by
  split
  · next e =>
    have : b = a := by simpa using e
    subst this
    exact List.count_pos_iff.mpr h
  · omega

/-! ## strpool -/

theorem spCreateA_none {s s' : AS} (h : spCreateA s = (none, s')) : s'.live = s.live := by
  unfold spCreateA at h
  split at h
  · next s1 e => cases h; exact (allocS_none e).1
  · next b s1 e =>
    split at h
    · next s2 e2 =>
      cases h
      rw [freeS_live, cbCreateA_none e2, (allocS_some e).1, List.erase_cons_head]
    · cases h

theorem spCreateA_some {s s' : AS} {p : SP} (h : spCreateA s = (some p, s')) :
    p.refs = [] ∧ p.tree.root = none ∧ p.count = 0 ∧
    ∀ o, Holds s o → Holds s' (p.owned ++ o) := by
  unfold spCreateA at h
  split at h
  · cases h
  · next b s1 e =>
    split at h
    · cases h
    · next t s2 e2 =>
      cases h
      obtain ⟨hr, ht⟩ := cbCreateA_some e2
      refine ⟨rfl, hr, rfl, fun o ho => ?_⟩
      have := ht _ (ho.alloc e)
      apply this.congr
      simp only [SP.owned]
      perm_blocks

/-- **strpool_get, failure**: NULL ⇒ the pool value is unchanged and the allocator holds exactly
    what it held before (the `PStr` obtained in this call was released again) -/
theorem spGetA_null {p p' : SP} {k : Key} {s s' : AS}
    (h : spGetA p k s = ((none, p'), s')) : p' = p ∧ s'.live = s.live := by
  unfold spGetA at h
  split at h
  · cases h
  · split at h
    · next s1 e1 => cases h; exact ⟨rfl, (allocS_none e1).1⟩
    · next b s1 e1 =>
      split at h
      · next t2 s2 e2 =>
        cases h
        refine ⟨rfl, ?_⟩
        rw [freeS_live, (cbInsertA_false e2).2, (allocS_some e1).1, List.erase_cons_head]
      · cases h

/-- **strpool_get, success**: either the string was there (reference count up, nothing
    allocated) or it is new: the tree gained exactly this entry (C06 insert), and the new
    blocks (`PStr`, tree node) are owned by the pool -/
theorem spGetA_some {p p' : SP} {k : Key} {id : Id} {s s' : AS}
    (h : spGetA p k s = ((some id, p'), s')) :
    ((∃ e, lookup p.tree.eroot k = some e ∧ e.obj = id ∧ p'.tree = p.tree ∧ p'.count = p.count ∧ s' = s) ∨
     (lookup p.tree.eroot k = none ∧ C06.insert p.tree.eroot ⟨k, id⟩ = some p'.tree.eroot ∧
      p'.count = p.count + 1 ∧ p'.refs = p.refs ++ [(id, 1)])) ∧
    p'.hdr = p.hdr ∧
    ∀ o, Holds s (p.owned ++ o) → Holds s' (p'.owned ++ o) := by
  unfold spGetA at h
  split at h
  · next e he =>
    cases h
    refine ⟨Or.inl ⟨e, he, rfl, rfl, rfl, rfl⟩, rfl, fun o ho => ?_⟩
    simpa [SP.owned, setRef_ids] using ho
  · next hl =>
    split at h
    · cases h
    · next b s1 e1 =>
      split at h
      · cases h
      · next t' s2 e2 =>
        cases h
        obtain ⟨hi, hh, ht⟩ := cbInsertA_true e2
        refine ⟨Or.inr ⟨hl, hi, rfl, rfl⟩, rfl, fun o ho => ?_⟩
        have h1 : Holds s1 (p.tree.owned ++ (id :: p.hdr :: (p.refs.map (·.1) ++ o))) := by
          apply (ho.alloc e1).congr
          simp only [SP.owned]
          perm_blocks
        apply (ht _ h1).congr
        simp only [SP.owned]
        perm_blocks

/-- **strpool_decref**: never allocates; a released string's block and tree node are returned -/
theorem spDecrefA_holds {p p' : SP} {id : Id} {rel : Bool} {s s' : AS}
    (h : spDecrefA p id s = ((rel, p'), s')) :
    s'.fails = s.fails ∧ p'.hdr = p.hdr ∧
    ∀ o, Holds s (p.owned ++ o) → Holds s' (p'.owned ++ o) := by
  unfold spDecrefA at h
  split at h
  · cases h; exact ⟨rfl, rfl, fun o ho => ho⟩
  · next n hn =>
    split at h
    · cases h
      exact ⟨rfl, rfl, fun o ho => by simpa [SP.owned, setRef_ids] using ho⟩
    · split at h
      · cases h; exact ⟨rfl, rfl, fun o ho => ho⟩
      · next k hk =>
        split at h
        next r t' s1 e1 =>
        cases h
        obtain ⟨_, _, _, _, hf, ht⟩ := cbDeleteA_spec e1
        refine ⟨by simp [hf], rfl, fun o ho => ?_⟩
        have hm := refOf_mem hn
        have h1 : Holds s (p.tree.owned ++ (p.hdr :: (p.refs.map (·.1) ++ o))) := by
          apply ho.congr
          simp only [SP.owned]
          perm_blocks
        apply Holds.free_perm (ht _ h1)
        apply List.perm_iff_count.mpr; intro a
        have pc := (List.perm_cons_erase hm).count_eq a
        simp only [SP.owned, eraseP_ids, List.count_cons, List.count_append] at pc ⊢
        rw [pc]; omega

theorem spFreeA_holds {p : SP} {s : AS} {o : List Id}
    (hv : (p.tree.entries.map (·.obj)).Perm (p.refs.map (·.1)))
    (h : Holds s (p.owned ++ o)) : Holds (spFreeA p s) o := by
  unfold spFreeA
  apply Holds.free_head (b := p.hdr)
  apply cbDestroyA_holds
  apply Holds.freeAll_perm _ h
  apply List.perm_iff_count.mpr; intro a
  have := hv.count_eq a
  simp only [SP.owned, List.count_cons, List.count_append] at this ⊢
  omega

/-! ## mdict -/

def optList : Option Id → List Id
  | none => []
  | some b => [b]

theorem MEl.blocks_eq (m : MEl) : m.blocks = m.kblk :: (optList m.vblk ++ [m.el]) := by
  unfold MEl.blocks optList
  cases m.vblk <;> rfl

/-- every entry of the tree has its element record -/
def MD.linked (d : MD) : Prop := ∀ e, e ∈ d.tree.entries → (d.elOf e.obj).isSome

theorem lookup_mem_entries {t : CB} {k : Key} {e : Entry} (h : lookup t.eroot k = some e) :
    e ∈ t.entries := by
  unfold lookup at h
  cases hr : t.root with
  | none => simp [CB.eroot, hr] at h
  | some r =>
    simp only [CB.eroot, hr, Option.map_some] at h
    split at h
    · cases h
      have := rawLookup_mem r.erase k
      simpa [CB.entries, hr, NT.erase_entries] using this
    · cases h

/-- replacing the value of a found element: its old value block goes, the new one comes -/
theorem updVal_blocks (id : Id) (vb : Option Id) (v : Val) (els : List MEl) (m : MEl)
    (h : els.find? (·.el == id) = some m) (a : Id) :
    (optList m.vblk).count a + ((updVal id vb v els).flatMap MEl.blocks).count a =
    (optList vb).count a + (els.flatMap MEl.blocks).count a := by
  induction els with
  | nil => simp at h
  | cons x xs ih =>
    simp only [List.find?_cons] at h
    by_cases hx : (x.el == id) = true
    · simp only [hx, Option.some.injEq] at h
      subst h
      simp only [updVal, hx, ↓reduceIte, List.flatMap_cons, List.count_append, MEl.blocks_eq,
        List.count_cons]
      omega
    · simp only [hx] at h
      have := ih h
      simp only [updVal, hx, Bool.false_eq_true, ↓reduceIte, List.flatMap_cons, List.count_append] at this ⊢
      omega

theorem updVal_find (id : Id) (vb : Option Id) (v : Val) (els : List MEl) (j : Id) :
    ((updVal id vb v els).find? (·.el == j)).isSome = (els.find? (·.el == j)).isSome := by
  induction els with
  | nil => rfl
  | cons x xs ih =>
    by_cases hx : (x.el == id) = true
    · simp only [updVal, hx, ↓reduceIte, List.find?_cons]
      by_cases hj : (x.el == j) = true <;> simp [hj]
    · simp only [updVal, hx, Bool.false_eq_true, ↓reduceIte, List.find?_cons]
      by_cases hj : (x.el == j) = true <;> simp [hj, ih]

theorem mdNewA_none {s s' : AS} (h : mdNewA s = (none, s')) : s'.live = s.live := by
  unfold mdNewA at h
  split at h
  · next s1 e => cases h; exact (allocS_none e).1
  · next b s1 e =>
    split at h
    · next s2 e2 =>
      cases h
      rw [freeS_live, cbCreateA_none e2, (allocS_some e).1, List.erase_cons_head]
    · cases h

theorem mdNewA_some {s s' : AS} {d : MD} (h : mdNewA s = (some d, s')) :
    d.els = [] ∧ d.tree.root = none ∧ ∀ o, Holds s o → Holds s' (d.owned ++ o) := by
  unfold mdNewA at h
  split at h
  · cases h
  · next b s1 e =>
    split at h
    · cases h
    · next t s2 e2 =>
      cases h
      obtain ⟨hr, ht⟩ := cbCreateA_some e2
      refine ⟨rfl, hr, fun o ho => ?_⟩
      apply (ht _ (ho.alloc e)).congr
      simp only [MD.owned]
      perm_blocks

theorem mdValCopyA_none {v : Val} {s s' : AS} (h : mdValCopyA v s = (none, s')) :
    s'.live = s.live := by
  unfold mdValCopyA at h
  split at h
  · cases h
  · split at h
    · next s1 e => cases h; exact (allocS_none e).1
    · cases h

theorem mdValCopyA_some {v : Val} {vb : Option Id} {s s' : AS}
    (h : mdValCopyA v s = (some vb, s')) : s'.live = optList vb ++ s.live := by
  unfold mdValCopyA at h
  split at h
  · cases h; rfl
  · split at h
    · cases h
    · next b s1 e => cases h; simpa [optList] using (allocS_some e).1

theorem freeOptS_live_head (vb : Option Id) (s : AS) (L : List Id)
    (h : s.live = optList vb ++ L) : (freeOptS vb s).live = L := by
  cases vb with
  | none => simpa [freeOptS, optList] using h
  | some b => simp [freeOptS, optList, h]

/-- **mdict_put_str, failure**: `false` ⇒ the dict is unchanged and the allocator holds exactly
    what it held before: value copy, key copy and element obtained in this call were released -/
theorem mdPutA_false {d d' : MD} {k : Key} {v : Val} {s s' : AS}
    (h : mdPutA d k v s = ((false, d'), s')) : d' = d ∧ s'.live = s.live := by
  unfold mdPutA at h
  split at h
  · next s1 e1 => cases h; exact ⟨rfl, mdValCopyA_none e1⟩
  · next vb s1 e1 =>
    have hv := mdValCopyA_some e1
    split at h
    · cases h
    · split at h
      · next s2 e2 =>
        cases h
        refine ⟨rfl, ?_⟩
        apply freeOptS_live_head
        rw [(allocS_none e2).1, hv]
      · next kb s2 e2 =>
        split at h
        · next s3 e3 =>
          cases h
          refine ⟨rfl, ?_⟩
          apply freeOptS_live_head
          rw [freeS_live, (allocS_none e3).1, (allocS_some e2).1, List.erase_cons_head, hv]
        · next eb s3 e3 =>
          split at h
          · next t4 s4 e4 =>
            cases h
            refine ⟨rfl, ?_⟩
            apply freeOptS_live_head
            rw [freeS_live, freeS_live, (cbInsertA_false e4).2, (allocS_some e3).1,
              List.erase_cons_head, (allocS_some e2).1, List.erase_cons_head, hv]
          · cases h

theorem Holds.of_live {s : AS} {o : List Id} (h : s.live.Perm o) : Holds s o := Holds.of_perm h

/-- **mdict_put_str, success**: every block obtained is owned by the dict, the replaced value
    block was released -/
theorem mdPutA_true {d d' : MD} {k : Key} {v : Val} {s s' : AS}
    (h : mdPutA d k v s = ((true, d'), s')) (hl : d.linked) :
    d'.linked ∧ d'.hdr = d.hdr ∧ ∀ o, Holds s (d.owned ++ o) → Holds s' (d'.owned ++ o) := by
  unfold mdPutA at h
  split at h
  · cases h
  · next vb s1 e1 =>
    have hv := mdValCopyA_some e1
    split at h
    · next e he =>
      cases h
      have hmem := lookup_mem_entries he
      have hfound := hl e hmem
      obtain ⟨m, hm⟩ := Option.isSome_iff_exists.mp hfound
      refine ⟨?_, rfl, fun o ho => ?_⟩
      · intro e' he'
        have := hl e' he'
        simpa [MD.elOf, MD.setVal, updVal_find] using this
      · have hold : d.oldVblk e.obj = m.vblk := by simp [MD.oldVblk, hm]
        have hs1 : Holds s1 (optList vb ++ (d.owned ++ o)) := by
          intro a; rw [hv, List.count_append, List.count_append, ho a]
        rw [hold]
        have hb := updVal_blocks e.obj vb v d.els m (by simpa [MD.elOf] using hm)
        cases hmv : m.vblk with
        | none =>
          simp only [freeOptS]
          apply hs1.congr
          apply List.perm_iff_count.mpr; intro a
          have := hb a
          simp only [hmv, optList, List.count_nil, MD.owned, MD.setVal, List.count_cons,
            List.count_append] at this ⊢
          omega
        | some ob =>
          simp only [freeOptS]
          apply Holds.free_perm hs1
          apply List.perm_iff_count.mpr; intro a
          have := hb a
          simp only [hmv, optList, List.count_nil, MD.owned, MD.setVal, List.count_cons,
            List.count_append] at this ⊢
          omega
    · next hlk =>
      split at h
      · cases h
      · next kb s2 e2 =>
        split at h
        · cases h
        · next eb s3 e3 =>
          split at h
          · cases h
          · next t' s4 e4 =>
            cases h
            obtain ⟨hi, hh, ht⟩ := cbInsertA_true e4
            refine ⟨?_, rfl, fun o ho => ?_⟩
            · intro e' he'
              have hp := (cbInsertA_entries e4).subset he'
              simp only [List.mem_cons] at hp
              rcases hp with rfl | hp
              · simp [MD.elOf, List.find?_append]
              · have := hl e' hp
                obtain ⟨m, hm⟩ := Option.isSome_iff_exists.mp this
                simp only [MD.elOf] at hm
                simp [MD.elOf, List.find?_append, hm]
            · have h3 : Holds s3 (d.tree.owned ++ (eb :: kb :: (optList vb ++ (d.hdr :: (d.els.flatMap MEl.blocks ++ o))))) := by
                intro a
                rw [(allocS_some e3).1, (allocS_some e2).1, hv]
                have := ho a
                simp only [MD.owned, List.count_cons, List.count_append] at this ⊢
                omega
              apply (ht _ h3).congr
              apply List.perm_iff_count.mpr; intro a
              simp only [MD.owned, List.flatMap_append, List.flatMap_cons, List.flatMap_nil,
                MEl.blocks_eq, List.count_cons, List.count_append, List.count_nil, List.append_nil]
              omega

theorem find_eraseP_blocks (els : List MEl) (id : Id) (a : Id) :
    (els.flatMap MEl.blocks).count a =
    (blocksOfL els id).count a +
      ((els.eraseP (fun m : MEl => m.el == id)).flatMap MEl.blocks).count a := by
  induction els with
  | nil => simp [blocksOfL]
  | cons x xs ih =>
    by_cases hx : (x.el == id) = true
    · simp [blocksOfL, hx]
    · have hx' : (x.el == id) = false := by simpa using hx
      simp only [blocksOfL, List.find?_cons, hx', List.eraseP_cons, cond_false, List.flatMap_cons,
        List.count_append] at ih ⊢
      rw [ih]
      omega

/-- **mdict_del_key**: never allocates; key, value, element and tree node of the removed pair
    are returned -/
theorem mdDelA_holds {d d' : MD} {k : Key} {ok : Bool} {s s' : AS}
    (h : mdDelA d k s = ((ok, d'), s')) :
    s'.fails = s.fails ∧ d'.hdr = d.hdr ∧
    ∀ o, Holds s (d.owned ++ o) → Holds s' (d'.owned ++ o) := by
  unfold mdDelA at h
  split at h
  · cases h; exact ⟨rfl, rfl, fun o ho => ho⟩
  · next e he =>
    split at h
    next r t' s1 e1 =>
    cases h
    obtain ⟨_, _, _, _, hf, ht⟩ := cbDeleteA_spec e1
    refine ⟨by simpa using hf, rfl, fun o ho => ?_⟩
    apply (ht (d.hdr :: ((d.els.eraseP (·.el == e.obj)).flatMap MEl.blocks ++ o)) ?_).congr
    · simp only [MD.owned]; perm_blocks
    · apply Holds.freeAll_perm _ ho
      apply List.perm_iff_count.mpr; intro a
      simp only [MD.owned, MD.blocksOf, List.count_cons, List.count_append]
      rw [find_eraseP_blocks d.els e.obj a]
      omega

theorem mdFreeA_holds {d : MD} {s : AS} {o : List Id} (h : Holds s (d.owned ++ o)) :
    Holds (mdFreeA d s) o := by
  unfold mdFreeA
  apply Holds.free_head (b := d.hdr)
  apply cbDestroyA_holds
  apply Holds.freeAll_perm _ h
  simp only [MD.owned]
  perm_blocks

/-! ### urldecode -/

theorem urldecStrA_none {src : List UInt8} {s s' : AS} (h : urldecStrA src s = (none, s')) :
    s'.live = s.live := by
  unfold urldecStrA at h
  split at h
  · next s1 e => cases h; exact (allocS_none e).1
  · next b s1 e =>
    split at h
    · cases h; rw [freeS_live, (allocS_some e).1, List.erase_cons_head]
    · cases h

theorem urldecStrA_some {src : List UInt8} {b : Id} {x r : List UInt8} {s s' : AS}
    (h : urldecStrA src s = (some (b, x, r), s')) :
    s'.live = b :: s.live ∧ urldecStr src = some (x, r) := by
  unfold urldecStrA at h
  split at h
  · cases h
  · next b' s1 e =>
    split at h
    · cases h
    · next d rest hd => cases h; exact ⟨(allocS_some e).1, hd⟩

theorem urlValueA_none {r : List UInt8} {s s' : AS} (h : urlValueA r s = (none, s')) :
    s'.live = s.live := by
  unfold urlValueA at h
  split at h
  · split at h
    · next s2 e => cases h; exact urldecStrA_none e
    · cases h
  · cases h

theorem urlValueA_some {r r2 : List UInt8} {vb : Option Id} {v : Val} {s s' : AS}
    (h : urlValueA r s = (some (vb, v, r2), s')) : s'.live = optList vb ++ s.live := by
  unfold urlValueA at h
  split at h
  · split at h
    · cases h
    · next vb' v' r2' s2 e => cases h; simpa [optList] using (urldecStrA_some e).1
  · cases h; rfl

/-- **one pair of mdict_urldecode, failure**: the dict is untouched (by construction) and the
    allocator holds exactly what it held before this pair — decoded key, decoded value and
    element obtained in this round were all released -/
theorem mdUrlPairA_none {d : MD} {src : List UInt8} {s s' : AS}
    (h : mdUrlPairA d src s = (none, s')) : s'.live = s.live := by
  unfold mdUrlPairA at h
  split at h
  · next s1 e1 => cases h; exact urldecStrA_none e1
  · next kb k r s1 e1 =>
    have hk := (urldecStrA_some e1).1
    split at h
    · next s2 e2 =>
      cases h
      rw [freeS_live, urlValueA_none e2, hk, List.erase_cons_head]
    · next vb v r2 s2 e2 =>
      have hv := urlValueA_some e2
      simp only at h
      split at h
      · cases h
      · split at h
        · next s3 e3 =>
          cases h
          apply freeOptS_live_head
          rw [freeS_live, (allocS_none e3).1, hv, hk]
          cases vb with
          | none => simp [optList]
          | some b =>
            simp only [optList, List.cons_append, List.nil_append]
            by_cases hb : b = kb
            · subst hb; simp
            · have : (b == kb) = false := by simpa using hb
              simp [this]
        · next eb s3 e3 =>
          split at h
          · next t4 s4 e4 =>
            cases h
            rw [freeS_live]
            have hl4 : s4.live = eb :: (optList vb ++ kb :: s.live) := by
              rw [(cbInsertA_false e4).2, (allocS_some e3).1, hv, hk]
            cases vb with
            | none =>
              simp only [freeOptS, freeS_live, hl4, optList, List.nil_append]
              exact erase_2nd eb kb s.live
            | some b =>
              simp only [freeOptS, freeS_live, hl4, optList, List.cons_append, List.nil_append]
              exact erase_3_rev eb b kb s.live
          · cases h

/-- **one pair of mdict_urldecode, success** -/
theorem mdUrlPairA_some {d d1 : MD} {src rest : List UInt8} {s s' : AS}
    (h : mdUrlPairA d src s = (some (d1, rest), s')) (hl : d.linked) :
    d1.linked ∧ d1.hdr = d.hdr ∧ ∀ o, Holds s (d.owned ++ o) → Holds s' (d1.owned ++ o) := by
  unfold mdUrlPairA at h
  split at h
  · cases h
  · next kb k r s1 e1 =>
    have hk := (urldecStrA_some e1).1
    split at h
    · cases h
    · next vb v r2 s2 e2 =>
      have hv := urlValueA_some e2
      simp only at h
      split at h
      · next e he =>
        cases h
        have hmem := lookup_mem_entries he
        obtain ⟨m, hm⟩ := Option.isSome_iff_exists.mp (hl e hmem)
        refine ⟨?_, rfl, fun o ho => ?_⟩
        · intro e' he'
          have := hl e' he'
          simpa [MD.elOf, MD.setVal, updVal_find] using this
        · have hold : d.oldVblk e.obj = m.vblk := by simp [MD.oldVblk, hm]
          have hs2 : Holds s2 (optList vb ++ kb :: (d.owned ++ o)) := by
            intro a; rw [hv, hk]
            have := ho a
            simp only [List.count_cons, List.count_append] at this ⊢
            omega
          rw [hold]
          have hb := updVal_blocks e.obj vb v d.els m (by simpa [MD.elOf] using hm)
          cases hmv : m.vblk with
          | none =>
            simp only [freeOptS]
            apply Holds.free_perm hs2
            apply List.perm_iff_count.mpr; intro a
            have := hb a
            simp only [hmv, optList, List.count_nil, MD.owned, MD.setVal, List.count_cons,
              List.count_append] at this ⊢
            omega
          | some ob =>
            simp only [freeOptS]
            apply Holds.free_perm (o := kb :: (d.setVal e.obj vb v).owned ++ o)
            · apply Holds.free_perm hs2
              apply List.perm_iff_count.mpr; intro a
              have := hb a
              simp only [hmv, optList, List.count_nil, MD.owned, MD.setVal, List.count_cons,
                List.count_append] at this ⊢
              omega
            · simp
      · next hlk =>
        split at h
        · cases h
        · next eb s3 e3 =>
          split at h
          · cases h
          · next t' s4 e4 =>
            cases h
            obtain ⟨hi, hh, ht⟩ := cbInsertA_true e4
            refine ⟨?_, rfl, fun o ho => ?_⟩
            · intro e' he'
              have hp := (cbInsertA_entries e4).subset he'
              simp only [List.mem_cons] at hp
              rcases hp with rfl | hp
              · simp [MD.elOf, List.find?_append]
              · have := hl e' hp
                obtain ⟨m, hm⟩ := Option.isSome_iff_exists.mp this
                simp only [MD.elOf] at hm
                simp [MD.elOf, List.find?_append, hm]
            · have h3 : Holds s3 (d.tree.owned ++ (eb :: (optList vb ++ kb :: (d.hdr :: (d.els.flatMap MEl.blocks ++ o))))) := by
                intro a
                rw [(allocS_some e3).1, hv, hk]
                have := ho a
                simp only [MD.owned, List.count_cons, List.count_append] at this ⊢
                omega
              apply (ht _ h3).congr
              apply List.perm_iff_count.mpr; intro a
              simp only [MD.owned, List.flatMap_append, List.flatMap_cons, List.flatMap_nil,
                MEl.blocks_eq, List.count_cons, List.count_append, List.count_nil, List.append_nil]
              omega

/-- completed rounds of `mdict_urldecode` -/
inductive UrlSteps : MD → List UInt8 → AS → MD → List UInt8 → AS → Prop
  | refl (d src s) : UrlSteps d src s d src s
  | step {d src s d1 rest s1 d' src' s'} :
      mdUrlPairA d src s = (some (d1, rest), s1) → UrlSteps d1 rest s1 d' src' s' →
      UrlSteps d src s d' src' s'

/-- **mdict_urldecode, failure**: the dict returned is the dict after the rounds that completed,
    and the failing round left no trace in it nor in the allocator -/
theorem mdUrldecodeA_false {fuel : Nat} {d d' : MD} {src : List UInt8} {s s' : AS}
    (h : mdUrldecodeA fuel d src s = ((false, d'), s')) :
    ∃ src1 s1, UrlSteps d src s d' src1 s1 ∧ mdUrlPairA d' src1 s1 = (none, s') ∧
      s'.live = s1.live := by
  induction fuel generalizing d src s with
  | zero => simp [mdUrldecodeA] at h
  | succ n ih =>
    simp only [mdUrldecodeA] at h
    split at h
    · cases h
    · split at h
      · next s1 e1 =>
        cases h
        exact ⟨src, s, UrlSteps.refl _ _ _, e1, mdUrlPairA_none e1⟩
      · next d1 rest s1 e1 =>
        obtain ⟨src1, s2, hs, hp, hl⟩ := ih h
        exact ⟨src1, s2, UrlSteps.step e1 hs, hp, hl⟩

/-- **mdict_urldecode, ownership**: whether it succeeds or fails, every block still allocated
    is owned by the dict -/
theorem mdUrldecodeA_holds {fuel : Nat} {d d' : MD} {src : List UInt8} {ok : Bool} {s s' : AS}
    (h : mdUrldecodeA fuel d src s = ((ok, d'), s')) (hl : d.linked) :
    d'.linked ∧ d'.hdr = d.hdr ∧ ∀ o, Holds s (d.owned ++ o) → Holds s' (d'.owned ++ o) := by
  induction fuel generalizing d src s with
  | zero => simp only [mdUrldecodeA] at h; cases h; exact ⟨hl, rfl, fun o ho => ho⟩
  | succ n ih =>
    simp only [mdUrldecodeA] at h
    split at h
    · cases h; exact ⟨hl, rfl, fun o ho => ho⟩
    · split at h
      · next s1 e1 =>
        cases h
        exact ⟨hl, rfl, fun o ho => ho.of_live_eq (mdUrlPairA_none e1)⟩
      · next d1 rest s1 e1 =>
        obtain ⟨hl1, hh1, ht1⟩ := mdUrlPairA_some e1 hl
        obtain ⟨hl2, hh2, ht2⟩ := ih h hl1
        exact ⟨hl2, hh2.trans hh1, fun o ho => ht2 o (ht1 o ho)⟩


/-! ## validity: the C06 tree invariant plus "the objects of the tree are exactly the records" -/

/-- bare tree: well formed, keys satisfy C06's precondition -/
def CB.ok (t : CB) : Prop := C06.Inv t.eroot ∧ NTZ t.eroot

theorem cbCreateA_ok {s s' : AS} {t : CB} (h : cbCreateA s = (some t, s')) : t.ok := by
  have hr := (cbCreateA_some h).1
  simp [CB.ok, CB.eroot, hr, C06.Inv, NTZ, walk]

theorem cbInsertA_ok {t t' : CB} {e : Entry} {ok : Bool} {s s' : AS}
    (h : cbInsertA t e s = ((ok, t'), s')) (hv : t.ok) (hk : NoTrailingZero e.key) : t'.ok := by
  cases ok with
  | false => rw [(cbInsertA_false h).1]; exact hv
  | true =>
    obtain ⟨hi, _, _⟩ := cbInsertA_true h
    obtain ⟨a, b, _⟩ := (insert_refines t.eroot hv.1 hv.2 e hk).2 _ hi
    exact ⟨a, b⟩

theorem cbDeleteA_ok {t t' : CB} {k : Key} {r : Option Entry} {s s' : AS}
    (h : cbDeleteA t k s = ((r, t'), s')) (hv : t.ok) : t'.ok := by
  obtain ⟨_, h2, h3, _⟩ := cbDeleteA_spec h
  cases r with
  | none => rw [(h3 rfl).1]; exact hv
  | some e =>
    obtain ⟨_, _, c, d, _⟩ := (delete_refines t.eroot hv.1 k).2 e t'.eroot (h2 e rfl)
    exact ⟨c, d hv.2⟩

/-- the entry a delete removes is the one a lookup of the same key finds -/
theorem cbDeleteA_of_lookup {t t' : CB} {k : Key} {r : Option Entry} {e : Entry} {s s' : AS}
    (h : cbDeleteA t k s = ((r, t'), s')) (hv : t.ok) (hl : lookup t.eroot k = some e) :
    ∃ e2, r = some e2 ∧ e2.obj = e.obj := by
  obtain ⟨h1, h2, _⟩ := cbDeleteA_spec h
  have habs : absMap t.eroot k = some e.obj := by simp [absMap, hl]
  cases r with
  | none =>
    have : C06.delete t.eroot k = none := by
      cases hd : C06.delete t.eroot k with
      | none => rfl
      | some p => simp [hd] at h1
    have := (delete_refines t.eroot hv.1 k).1.mp this
    rw [habs] at this; cases this
  | some e2 =>
    obtain ⟨_, b, _⟩ := (delete_refines t.eroot hv.1 k).2 e2 t'.eroot (h2 e2 rfl)
    rw [habs] at b
    exact ⟨e2, rfl, (Option.some.inj b).symm⟩

/-- strpool: tree well formed, and the objects stored in the tree are exactly the `PStr` blocks -/
def SP.ok (p : SP) : Prop :=
  p.tree.ok ∧ (p.tree.entries.map (·.obj)).Perm (p.refs.map (·.1))

theorem spCreateA_ok {s s' : AS} {p : SP} (h : spCreateA s = (some p, s')) : p.ok := by
  obtain ⟨hr, ht, _, _⟩ := spCreateA_some h
  refine ⟨by simp [CB.ok, CB.eroot, ht, C06.Inv, NTZ, walk], ?_⟩
  simp [CB.entries, ht, hr]

theorem spGetA_ok {p p' : SP} {k : Key} {r : Option Id} {s s' : AS}
    (h : spGetA p k s = ((r, p'), s')) (hv : p.ok) (hk : NoTrailingZero k) : p'.ok := by
  cases r with
  | none => rw [(spGetA_null h).1]; exact hv
  | some id =>
    unfold spGetA at h
    split at h
    · cases h
      exact ⟨hv.1, by simpa [setRef_ids] using hv.2⟩
    · split at h
      · cases h
      · next b s1 e1 =>
        split at h
        · cases h
        · next t' s2 e2 =>
          cases h
          refine ⟨cbInsertA_ok e2 hv.1 hk, ?_⟩
          have p1 := (cbInsertA_entries e2).map (·.obj)
          refine p1.trans ?_
          simp only [List.map_cons, List.map_append, List.map_nil]
          exact (List.Perm.cons _ hv.2).trans (List.perm_append_singleton _ _).symm

theorem spDecrefA_ok {p p' : SP} {id : Id} {rel : Bool} {s s' : AS}
    (h : spDecrefA p id s = ((rel, p'), s')) (hv : p.ok) : p'.ok := by
  unfold spDecrefA at h
  split at h
  · cases h; exact hv
  · next n hn =>
    split at h
    · cases h; exact ⟨hv.1, by simpa [setRef_ids] using hv.2⟩
    · split at h
      · cases h; exact hv
      · next k hk =>
        split at h
        next r t' s1 e1 =>
        cases h
        refine ⟨cbDeleteA_ok e1 hv.1, ?_⟩
        -- the entry found by `strOf` is the one the delete removes
        simp only [SP.strOf, Option.map_eq_some_iff] at hk
        obtain ⟨x, hx, hxk⟩ := hk
        have hxm := List.mem_of_find?_eq_some hx
        have hxo : x.obj = id := by simpa using List.find?_some hx
        have hw : (⟨k, id⟩ : Entry) ∈ walk p.tree.eroot := by
          rw [CB.eroot_entries]; cases x; simp_all
        have habs := (absMap_some_iff p.tree.eroot hv.1.1 k id).mpr hw
        have hlk : ∃ e, lookup p.tree.eroot k = some e ∧ e.obj = id := by
          simp only [absMap, Option.map_eq_some_iff] at habs; exact habs
        obtain ⟨e, hle, heo⟩ := hlk
        obtain ⟨e2, hr, he2⟩ := cbDeleteA_of_lookup e1 hv.1 hle
        subst hr
        have pe := (cbDeleteA_entries e1).map (·.obj)
        simp only [List.map_cons] at pe
        rw [eraseP_ids]
        have hid : e2.obj = id := he2.trans heo
        rw [hid] at pe
        have hmem : id ∈ p.refs.map (·.1) := refOf_mem hn
        exact List.Perm.cons_inv ((pe.symm.trans hv.2).trans (List.perm_cons_erase hmem))


/-- mdict: tree well formed, and the objects stored in the tree are exactly the element records -/
def MD.ok (d : MD) : Prop :=
  d.tree.ok ∧ (d.tree.entries.map (·.obj)).Perm (d.els.map (·.el))

theorem find_isSome_of_mem_ids {els : List MEl} {id : Id} (h : id ∈ els.map (·.el)) :
    (els.find? (·.el == id)).isSome := by
  simp only [List.mem_map] at h
  obtain ⟨m, hm, he⟩ := h
  rw [List.find?_isSome]
  exact ⟨m, hm, by simp [he]⟩

theorem MD.ok.linked {d : MD} (h : d.ok) : d.linked := by
  intro e he
  have : e.obj ∈ d.tree.entries.map (·.obj) := List.mem_map.mpr ⟨e, he, rfl⟩
  exact find_isSome_of_mem_ids (h.2.subset this)

theorem updVal_ids (id : Id) (vb : Option Id) (v : Val) (els : List MEl) :
    (updVal id vb v els).map (·.el) = els.map (·.el) := by
  induction els with
  | nil => rfl
  | cons x xs ih =>
    by_cases hx : (x.el == id) = true
    · simp [updVal, hx]
    · simp [updVal, hx, ih]

theorem eraseP_el_ids (els : List MEl) (id : Id) :
    (els.eraseP (·.el == id)).map (·.el) = (els.map (·.el)).erase id := by
  induction els with
  | nil => rfl
  | cons x xs ih =>
    by_cases h : x.el = id
    · simp [h]
    · have : (x.el == id) = false := by simpa using h
      simp [this, ih]

theorem mdNewA_ok {s s' : AS} {d : MD} (h : mdNewA s = (some d, s')) : d.ok := by
  obtain ⟨he, ht, _⟩ := mdNewA_some h
  refine ⟨by simp [CB.ok, CB.eroot, ht, C06.Inv, NTZ, walk], ?_⟩
  simp [CB.entries, ht, he]

theorem mdPutA_ok {d d' : MD} {k : Key} {v : Val} {r : Bool} {s s' : AS}
    (h : mdPutA d k v s = ((r, d'), s')) (hv : d.ok) (hk : NoTrailingZero k) : d'.ok := by
  cases r with
  | false => rw [(mdPutA_false h).1]; exact hv
  | true =>
    unfold mdPutA at h
    split at h
    · cases h
    · split at h
      · cases h
        exact ⟨hv.1, by simpa [MD.setVal, updVal_ids] using hv.2⟩
      · split at h
        · cases h
        · split at h
          · cases h
          · next eb s3 e3 =>
            split at h
            · cases h
            · next t' s4 e4 =>
              cases h
              refine ⟨cbInsertA_ok e4 hv.1 hk, ?_⟩
              have p1 := (cbInsertA_entries e4).map (·.obj)
              refine p1.trans ?_
              simp only [List.map_cons, List.map_append, List.map_nil]
              exact (List.Perm.cons _ hv.2).trans (List.perm_append_singleton _ _).symm

theorem mdDelA_ok {d d' : MD} {k : Key} {r : Bool} {s s' : AS}
    (h : mdDelA d k s = ((r, d'), s')) (hv : d.ok) : d'.ok := by
  unfold mdDelA at h
  split at h
  · cases h; exact hv
  · next e he =>
    split at h
    next r2 t' s1 e1 =>
    cases h
    refine ⟨cbDeleteA_ok e1 hv.1, ?_⟩
    obtain ⟨e2, hr, he2⟩ := cbDeleteA_of_lookup e1 hv.1 he
    subst hr
    have pe := (cbDeleteA_entries e1).map (·.obj)
    simp only [List.map_cons] at pe
    rw [he2] at pe
    rw [eraseP_el_ids]
    have hmem : e.obj ∈ d.els.map (·.el) :=
      hv.2.subset (List.mem_map.mpr ⟨e, lookup_mem_entries he, rfl⟩)
    exact List.Perm.cons_inv ((pe.symm.trans hv.2).trans (List.perm_cons_erase hmem))

/-- decoded keys must satisfy C06's precondition for the tree to stay well formed; the loop of
    `mdict_urldecode` meets every key of the text, so the hypothesis is on the text -/
def urlKeysOk (fuel : Nat) (src : List UInt8) : Prop :=
  match fuel with
  | 0 => True
  | fuel + 1 =>
    if src.isEmpty then True else
    match urldecStr src with
    | none => True
    | some (k, r) =>
      NoTrailingZero k ∧
      (if r.head? = some 61 then
        match urldecStr r.tail with
        | none => True
        | some (_, r2) => urlKeysOk fuel (if r2.head? = some 38 then r2.tail else r2)
       else urlKeysOk fuel (if r.head? = some 38 then r.tail else r))

theorem mdUrlPairA_ok {d d1 : MD} {src rest : List UInt8} {s s' : AS}
    (h : mdUrlPairA d src s = (some (d1, rest), s')) (hv : d.ok)
    (hk : ∀ k r, urldecStr src = some (k, r) → NoTrailingZero k) : d1.ok := by
  unfold mdUrlPairA at h
  split at h
  · cases h
  · next kb k r s1 e1 =>
    have hkk := hk k r (urldecStrA_some e1).2
    split at h
    · cases h
    · simp only at h
      split at h
      · cases h
        exact ⟨hv.1, by simpa [MD.setVal, updVal_ids] using hv.2⟩
      · split at h
        · cases h
        · next eb s3 e3 =>
          split at h
          · cases h
          · next t' s4 e4 =>
            cases h
            refine ⟨cbInsertA_ok e4 hv.1 hkk, ?_⟩
            have p1 := (cbInsertA_entries e4).map (·.obj)
            refine p1.trans ?_
            simp only [List.map_cons, List.map_append, List.map_nil]
            exact (List.Perm.cons _ hv.2).trans (List.perm_append_singleton _ _).symm


theorem urlValueA_rest {r r2 : List UInt8} {vb : Option Id} {v : Val} {s s' : AS}
    (h : urlValueA r s = (some (vb, v, r2), s')) :
    (r.head? = some 61 ∧ ∃ x, urldecStr r.tail = some (x, r2)) ∨ (r.head? ≠ some 61 ∧ r2 = r) := by
  unfold urlValueA at h
  split at h
  · next h61 =>
    split at h
    · cases h
    · next vb' v' r2' s2 e => cases h; exact Or.inl ⟨h61, _, (urldecStrA_some e).2⟩
  · next h61 => cases h; exact Or.inr ⟨h61, rfl⟩

/-- where the next round starts -/
theorem mdUrlPairA_rest {d d1 : MD} {src rest : List UInt8} {s s' : AS}
    (h : mdUrlPairA d src s = (some (d1, rest), s')) :
    ∃ k r, urldecStr src = some (k, r) ∧
      ((r.head? = some 61 ∧ ∃ x r2, urldecStr r.tail = some (x, r2) ∧
          rest = if r2.head? = some 38 then r2.tail else r2) ∨
       (r.head? ≠ some 61 ∧ rest = if r.head? = some 38 then r.tail else r)) := by
  unfold mdUrlPairA at h
  split at h
  · cases h
  · next kb k r s1 e1 =>
    refine ⟨k, r, (urldecStrA_some e1).2, ?_⟩
    split at h
    · cases h
    · next vb v r2 s2 e2 =>
      have hr := urlValueA_rest e2
      simp only at h
      have hrest : rest = if r2.head? = some 38 then r2.tail else r2 := by
        split at h
        · cases h; rfl
        · split at h
          · cases h
          · split at h
            · cases h
            · cases h; rfl
      rcases hr with ⟨h61, x, hx⟩ | ⟨h61, hr2⟩
      · exact Or.inl ⟨h61, x, r2, hx, hrest⟩
      · subst hr2; exact Or.inr ⟨h61, hrest⟩

/-- **mdict_urldecode keeps the dict valid** (whether it succeeds or fails) -/
theorem mdUrldecodeA_ok {fuel : Nat} {d d' : MD} {src : List UInt8} {r : Bool} {s s' : AS}
    (h : mdUrldecodeA fuel d src s = ((r, d'), s')) (hv : d.ok) (hk : urlKeysOk fuel src) :
    d'.ok := by
  induction fuel generalizing d src s with
  | zero => simp only [mdUrldecodeA] at h; cases h; exact hv
  | succ n ih =>
    simp only [mdUrldecodeA] at h
    split at h
    · cases h; exact hv
    · next hne =>
      split at h
      · cases h; exact hv
      · next d1 rest s1 e1 =>
        obtain ⟨k, r0, hkr, hrest⟩ := mdUrlPairA_rest e1
        simp only [urlKeysOk, hne, Bool.false_eq_true, ↓reduceIte, hkr] at hk
        have hd1 : d1.ok := mdUrlPairA_ok e1 hv (by
          intro k' r' hk'; rw [hkr] at hk'; cases hk'; exact hk.1)
        apply ih h hd1
        rcases hrest with ⟨h61, x, r2, hx, hr⟩ | ⟨h61, hr⟩
        · have := hk.2
          simp only [h61, ↓reduceIte, hx] at this
          rw [hr]; exact this
        · have := hk.2
          simp only [h61, ↓reduceIte] at this
          rw [hr]; exact this

end Usual.C10
