import UsualProofs.C10.Tree
/-!
# C10 — strpool and mdict: failure is all-or-nothing, every block is owned
-/
namespace Usual.C10
open Usual.C06

/-- permutation goals between lists built from `::`, `++`, `map` of opaque pieces -/
macro "perm_blocks" : tactic =>
  `(tactic| (apply List.perm_iff_count.mpr; intro a;
             simp only [List.count_cons, List.count_append, List.count_nil, List.map_append,
                        List.map_cons, List.map_nil, List.flatMap_append, List.flatMap_cons,
                        List.flatMap_nil, List.append_nil, List.append_assoc, List.cons_append,
                        List.nil_append]
             <;> omega))

theorem setRef_ids (refs : List (Nat × Nat)) (id n : Nat) :
    (setRef refs id n).map (·.1) = refs.map (·.1) := by
  induction refs with
  | nil => rfl
  | cons p ps ih =>
    simp only [setRef, List.map_cons, List.cons.injEq] at ih ⊢
    refine ⟨?_, ih⟩
    split
    · next h => simpa using (beq_iff_eq.mp h).symm
    · rfl

theorem eraseP_ids (refs : List (Nat × Nat)) (id : Nat) :
    (refs.eraseP (·.1 == id)).map (·.1) = (refs.map (·.1)).erase id := by
  induction refs with
  | nil => rfl
  | cons p ps ih =>
    by_cases h : p.1 = id
    · simp [h]
    · have : (p.1 == id) = false := by simpa using h
      simp [this, ih]

theorem refOf_mem {refs : List (Nat × Nat)} {id n : Nat} (h : refOf refs id = some n) :
    id ∈ refs.map (·.1) := by
  unfold refOf at h
  cases hf : refs.find? (·.1 == id) with
  | none => simp [hf] at h
  | some p =>
    have hm := List.mem_of_find?_eq_some hf
    have hp := List.find?_some hf
    simp only [beq_iff_eq] at hp
    exact List.mem_map.mpr ⟨p, hm, hp⟩

/-- the truncated subtraction in `count (l.erase b)` is exact when `b ∈ l` -/
theorem ite_le_count {l : List Id} {b : Id} (h : b ∈ l) (a : Id) :
    (if (b == a) = true then 1 else 0) ≤ l.count a := by
  split
  · next e =>
    have : b = a := by simpa using e
    subst this
    exact List.count_pos_iff.mpr h
  · omega

/-! ## strpool -/

theorem spCreateA_none {s s' : AS} (h : spCreateA s = (none, s')) : s'.live = s.live := by
  unfold spCreateA at h
  split at h
  · next s1 e => cases h; exact (allocS_none e).1
  · next b s1 e =>
    split at h
    · next s2 e2 =>
      cases h
      rw [freeS_live, cbCreateA_none e2, (allocS_some e).1, List.erase_cons_head]
    · cases h

theorem spCreateA_some {s s' : AS} {p : SP} (h : spCreateA s = (some p, s')) :
    p.refs = [] ∧ p.tree.root = none ∧ p.count = 0 ∧
    ∀ o, Holds s o → Holds s' (p.owned ++ o) := by
  unfold spCreateA at h
  split at h
  · cases h
  · next b s1 e =>
    split at h
    · cases h
    · next t s2 e2 =>
      cases h
      obtain ⟨hr, ht⟩ := cbCreateA_some e2
      refine ⟨rfl, hr, rfl, fun o ho => ?_⟩
      have := ht _ (ho.alloc e)
      apply this.congr
      simp only [SP.owned]
      perm_blocks

/-- **strpool_get, failure**: NULL ⇒ the pool value is unchanged and the allocator holds exactly
    what it held before (the `PStr` obtained in this call was released again) -/
theorem spGetA_null {p p' : SP} {k : Key} {s s' : AS}
    (h : spGetA p k s = ((none, p'), s')) : p' = p ∧ s'.live = s.live := by
  unfold spGetA at h
  split at h
  · cases h
  · split at h
    · next s1 e1 => cases h; exact ⟨rfl, (allocS_none e1).1⟩
    · next b s1 e1 =>
      split at h
      · next t2 s2 e2 =>
        cases h
        refine ⟨rfl, ?_⟩
        rw [freeS_live, (cbInsertA_false e2).2, (allocS_some e1).1, List.erase_cons_head]
      · cases h

/-- **strpool_get, success**: either the string was there (reference count up, nothing
    allocated) or it is new: the tree gained exactly this entry (C06 insert), and the new
    blocks (`PStr`, tree node) are owned by the pool -/
theorem spGetA_some {p p' : SP} {k : Key} {id : Id} {s s' : AS}
    (h : spGetA p k s = ((some id, p'), s')) :
    ((∃ e, lookup p.tree.eroot k = some e ∧ e.obj = id ∧ p'.tree = p.tree ∧ p'.count = p.count ∧ s' = s) ∨
     (lookup p.tree.eroot k = none ∧ C06.insert p.tree.eroot ⟨k, id⟩ = some p'.tree.eroot ∧
      p'.count = p.count + 1 ∧ p'.refs = p.refs ++ [(id, 1)])) ∧
    p'.hdr = p.hdr ∧
    ∀ o, Holds s (p.owned ++ o) → Holds s' (p'.owned ++ o) := by
  unfold spGetA at h
  split at h
  · next e he =>
    cases h
    refine ⟨Or.inl ⟨e, he, rfl, rfl, rfl, rfl⟩, rfl, fun o ho => ?_⟩
    simpa [SP.owned, setRef_ids] using ho
  · next hl =>
    split at h
    · cases h
    · next b s1 e1 =>
      split at h
      · cases h
      · next t' s2 e2 =>
        cases h
        obtain ⟨hi, hh, ht⟩ := cbInsertA_true e2
        refine ⟨Or.inr ⟨hl, hi, rfl, rfl⟩, rfl, fun o ho => ?_⟩
        have h1 : Holds s1 (p.tree.owned ++ (id :: p.hdr :: (p.refs.map (·.1) ++ o))) := by
          apply (ho.alloc e1).congr
          simp only [SP.owned]
          perm_blocks
        apply (ht _ h1).congr
        simp only [SP.owned]
        perm_blocks

/-- **strpool_decref**: never allocates; a released string's block and tree node are returned -/
theorem spDecrefA_holds {p p' : SP} {id : Id} {rel : Bool} {s s' : AS}
    (h : spDecrefA p id s = ((rel, p'), s')) :
    s'.fails = s.fails ∧ p'.hdr = p.hdr ∧
    ∀ o, Holds s (p.owned ++ o) → Holds s' (p'.owned ++ o) := by
  unfold spDecrefA at h
  split at h
  · cases h; exact ⟨rfl, rfl, fun o ho => ho⟩
  · next n hn =>
    split at h
    · cases h
      exact ⟨rfl, rfl, fun o ho => by simpa [SP.owned, setRef_ids] using ho⟩
    · split at h
      · cases h; exact ⟨rfl, rfl, fun o ho => ho⟩
      · next k hk =>
        split at h
        next r t' s1 e1 =>
        cases h
        obtain ⟨_, _, _, _, hf, ht⟩ := cbDeleteA_spec e1
        refine ⟨by simp [hf], rfl, fun o ho => ?_⟩
        have hm := refOf_mem hn
        have h1 : Holds s (p.tree.owned ++ (p.hdr :: (p.refs.map (·.1) ++ o))) := by
          apply ho.congr
          simp only [SP.owned]
          perm_blocks
        apply Holds.free_perm (ht _ h1)
        apply List.perm_iff_count.mpr; intro a
        have pc := (List.perm_cons_erase hm).count_eq a
        simp only [SP.owned, eraseP_ids, List.count_cons, List.count_append] at pc ⊢
        rw [pc]; omega

theorem spFreeA_holds {p : SP} {s : AS} {o : List Id}
    (hv : (p.tree.entries.map (·.obj)).Perm (p.refs.map (·.1)))
    (h : Holds s (p.owned ++ o)) : Holds (spFreeA p s) o := by
  unfold spFreeA
  apply Holds.free_head (b := p.hdr)
  apply cbDestroyA_holds
  apply Holds.freeAll_perm _ h
  apply List.perm_iff_count.mpr; intro a
  have := hv.count_eq a
  simp only [SP.owned, List.count_cons, List.count_append] at this ⊢
  omega

end Usual.C10
