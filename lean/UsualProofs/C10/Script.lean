import UsualProofs.C10.Pools
import UsualProofs.C10.Structs
/-!
# C10 — scripts: create, any operations, destroy, under any fault schedule

A module is packaged as `Mod` (state, operations with their allocation behaviour, ownership,
validity); `Laws` collects the per-operation facts proved in `Tree/Pools/Structs.lean`; the
script theorems are proved once for every lawful module and instantiated below.
-/
namespace Usual.C10
open Usual.C06

structure Mod where
  St : Type
  Op : Type
  create : AS → Option St × AS
  /-- `(reported success, state')` -/
  step : Op → St → AS → (Bool × St) × AS
  destroy : St → AS → AS
  owned : St → List Id
  ok : St → Prop
  /-- what the caller must respect (key precondition of C06, handles that exist) -/
  pre : St → Op → Prop
  /-- operations whose failure is all-or-nothing -/
  atomic : Op → Bool

structure Laws (M : Mod) : Prop where
  create_none : ∀ s s', M.create s = (none, s') → ∀ o, Holds s o → Holds s' o
  create_some : ∀ s s' st, M.create s = (some st, s') →
    M.ok st ∧ ∀ o, Holds s o → Holds s' (M.owned st ++ o)
  step_fail : ∀ op st s st' s', M.atomic op = true → M.step op st s = ((false, st'), s') →
    st' = st ∧ ∀ o, Holds s o → Holds s' o
  step_holds : ∀ op st s r st' s', M.ok st → M.pre st op → M.step op st s = ((r, st'), s') →
    M.ok st' ∧ ∀ o, Holds s (M.owned st ++ o) → Holds s' (M.owned st' ++ o)
  destroy_holds : ∀ st s o, M.ok st → Holds s (M.owned st ++ o) → Holds (M.destroy st s) o

/-- run a list of operations; the list of reported results, the final state, the allocator -/
def runOps (M : Mod) : List M.Op → M.St → AS → (List Bool × M.St) × AS
  | [], st, s => (([], st), s)
  | op :: ops, st, s =>
    match M.step op st s with
    | ((r, st1), s1) =>
      match runOps M ops st1 s1 with
      | ((rs, st2), s2) => ((r :: rs, st2), s2)

/-- the caller's obligations along the run -/
def PreOk (M : Mod) : List M.Op → M.St → AS → Prop
  | [], _, _ => True
  | op :: ops, st, s => M.pre st op ∧ PreOk M ops (M.step op st s).1.2 (M.step op st s).2

/-- a whole script: create, operations, destroy.  Returns the allocator at the end. -/
def script (M : Mod) (ops : List M.Op) (s : AS) : AS :=
  match M.create s with
  | (none, s1) => s1
  | (some st, s1) =>
    match runOps M ops st s1 with
    | ((_, st2), s2) => M.destroy st2 s2

theorem runOps_cons (M : Mod) (op : M.Op) (ops : List M.Op) (st : M.St) (s : AS) :
    runOps M (op :: ops) st s =
      (((M.step op st s).1.1 :: (runOps M ops (M.step op st s).1.2 (M.step op st s).2).1.1,
        (runOps M ops (M.step op st s).1.2 (M.step op st s).2).1.2),
       (runOps M ops (M.step op st s).1.2 (M.step op st s).2).2) := rfl

theorem runOps_holds {M : Mod} (L : Laws M) (ops : List M.Op) (st : M.St) (s : AS)
    (hv : M.ok st) (hp : PreOk M ops st s) :
    M.ok (runOps M ops st s).1.2 ∧
    ∀ o, Holds s (M.owned st ++ o) → Holds (runOps M ops st s).2 (M.owned (runOps M ops st s).1.2 ++ o) := by
  induction ops generalizing st s with
  | nil => exact ⟨hv, fun o ho => ho⟩
  | cons op ops ih =>
    rw [runOps_cons]
    simp only [PreOk] at hp
    obtain ⟨h1, h2⟩ := L.step_holds op st s (M.step op st s).1.1 (M.step op st s).1.2
      (M.step op st s).2 hv hp.1 rfl
    obtain ⟨h3, h4⟩ := ih (M.step op st s).1.2 (M.step op st s).2 h1 hp.2
    exact ⟨h3, fun o ho => h4 o (h2 o ho)⟩

/-- **Single fault, double fault, any fault schedule — nothing leaks.**  For every lawful
    module, every operation list, every allocator state (in particular every set `fails` of
    failing request numbers): after create / operations / destroy the allocator holds exactly
    what it held before the script. -/
theorem script_balanced {M : Mod} (L : Laws M) (ops : List M.Op) (s : AS) (o : List Id)
    (h : Holds s o)
    (hp : ∀ st s1, M.create s = (some st, s1) → PreOk M ops st s1) :
    Holds (script M ops s) o := by
  unfold script
  generalize hc : M.create s = c
  obtain ⟨c1, s1⟩ := c
  cases c1 with
  | none => exact L.create_none s s1 hc o h
  | some st =>
    simp only
    obtain ⟨hv, ht⟩ := L.create_some s s1 st hc
    obtain ⟨h3, h4⟩ := runOps_holds L ops st s1 hv (hp st s1 hc)
    exact L.destroy_holds _ _ o h3 (h4 o (ht o h))

/-- starting from an empty allocator the script ends with an empty allocator -/
theorem script_live_empty {M : Mod} (L : Laws M) (ops : List M.Op) (s : AS) (h : s.live = [])
    (hp : ∀ st s1, M.create s = (some st, s1) → PreOk M ops st s1) :
    (script M ops s).live = [] :=
  Holds.nil_iff.mp (script_balanced L ops s [] (Holds.nil_iff.mpr h) hp)

/-- **A failed all-or-nothing operation is a no-op for the structure**: the rest of the script
    runs from the very state the failed operation found (only the allocator's request counter
    has moved on). -/
theorem failed_op_is_noop {M : Mod} (L : Laws M) (op : M.Op) (ops : List M.Op) (st st' : M.St)
    (s s' : AS) (ha : M.atomic op = true) (hf : M.step op st s = ((false, st'), s')) :
    runOps M (op :: ops) st s =
      ((false :: (runOps M ops st s').1.1, (runOps M ops st s').1.2), (runOps M ops st s').2) := by
  obtain ⟨e, _⟩ := L.step_fail op st s st' s' ha hf
  subst e
  rw [runOps_cons, hf]

/-! ## the modules -/

/-- bare crit-bit tree -/
inductive CbOp where
  | ins (e : Entry)
  | del (k : Key)

def cbMod : Mod where
  St := CB
  Op := CbOp
  create := cbCreateA
  step := fun op t s => match op with
    | .ins e => cbInsertA t e s
    | .del k => (((cbDeleteA t k s).1.1.isSome, (cbDeleteA t k s).1.2), (cbDeleteA t k s).2)
  destroy := cbDestroyA
  owned := CB.owned
  ok := CB.ok
  pre := fun _ op => match op with | .ins e => NoTrailingZero e.key | .del _ => True
  atomic := fun _ => true

theorem cbLaws : Laws cbMod where
  create_none := fun s s' h o ho => ho.of_live_eq (cbCreateA_none h)
  create_some := fun s s' st h => ⟨cbCreateA_ok h, (cbCreateA_some h).2⟩
  step_fail := by
    intro op st s st' s' _ h
    cases op with
    | ins e => exact ⟨(cbInsertA_false h).1, fun o ho => ho.of_live_eq (cbInsertA_false h).2⟩
    | del k =>
      simp only [cbMod] at h
      generalize hq : cbDeleteA st k s = q at h
      obtain ⟨⟨r, t'⟩, s1⟩ := q
      injection h with h1 hs
      injection h1 with hr ht
      subst ht; subst hs
      cases r with
      | some e => simp at hr
      | none =>
        obtain ⟨_, _, h3, _⟩ := cbDeleteA_spec hq
        obtain ⟨e1, e2⟩ := h3 rfl
        exact ⟨e1, fun o ho => by rw [e2]; exact ho⟩
  step_holds := by
    intro op st s r st' s' hv hp h
    cases op with
    | ins e =>
      refine ⟨cbInsertA_ok h hv hp, ?_⟩
      cases r with
      | false =>
        obtain ⟨e1, e2⟩ := cbInsertA_false h
        rw [e1]; exact fun o ho => ho.of_live_eq e2
      | true => exact (cbInsertA_true h).2.2
    | del k =>
      simp only [cbMod] at h
      generalize hq : cbDeleteA st k s = q at h
      obtain ⟨⟨r2, t'⟩, s1⟩ := q
      injection h with h1 hs
      injection h1 with hr ht
      subst ht; subst hs
      exact ⟨cbDeleteA_ok hq hv, (cbDeleteA_spec hq).2.2.2.2.2⟩
  destroy_holds := fun st s o _ h => cbDestroyA_holds h

/-- strpool -/
inductive SpOp where
  | get (k : Key)
  | dec (id : Id)

def spMod : Mod where
  St := SP
  Op := SpOp
  create := spCreateA
  step := fun op p s => match op with
    | .get k => (((spGetA p k s).1.1.isSome, (spGetA p k s).1.2), (spGetA p k s).2)
    | .dec id => ((true, (spDecrefA p id s).1.2), (spDecrefA p id s).2)
  destroy := spFreeA
  owned := SP.owned
  ok := SP.ok
  pre := fun _ op => match op with | .get k => NoTrailingZero k | .dec _ => True
  atomic := fun _ => true

theorem spLaws : Laws spMod where
  create_none := fun s s' h o ho => ho.of_live_eq (spCreateA_none h)
  create_some := fun s s' st h => ⟨spCreateA_ok h, (spCreateA_some h).2.2.2⟩
  step_fail := by
    intro op st s st' s' _ h
    cases op with
    | get k =>
      simp only [spMod] at h
      generalize hq : spGetA st k s = q at h
      obtain ⟨⟨r, p'⟩, s1⟩ := q
      injection h with h1 hs
      injection h1 with hr ht
      subst ht; subst hs
      cases r with
      | some e => simp at hr
      | none => exact ⟨(spGetA_null hq).1, fun o ho => ho.of_live_eq (spGetA_null hq).2⟩
    | dec id =>
      simp only [spMod] at h
      injection h with h1 hs
      injection h1 with hr ht
      cases hr
  step_holds := by
    intro op st s r st' s' hv hp h
    cases op with
    | get k =>
      simp only [spMod] at h
      generalize hq : spGetA st k s = q at h
      obtain ⟨⟨r2, p'⟩, s1⟩ := q
      injection h with h1 hs
      injection h1 with hr ht
      subst ht; subst hs
      refine ⟨spGetA_ok hq hv hp, ?_⟩
      cases r2 with
      | none =>
        obtain ⟨e1, e2⟩ := spGetA_null hq
        rw [e1]; exact fun o ho => ho.of_live_eq e2
      | some id => exact (spGetA_some hq).2.2
    | dec id =>
      simp only [spMod] at h
      generalize hq : spDecrefA st id s = q at h
      obtain ⟨⟨r2, p'⟩, s1⟩ := q
      injection h with h1 hs
      injection h1 with hr ht
      subst ht; subst hs
      exact ⟨spDecrefA_ok hq hv, (spDecrefA_holds hq).2.2⟩
  destroy_holds := fun st s o hv h => spFreeA_holds hv.2 h

/-- mdict -/
inductive MdOp where
  | put (k : Key) (v : Val)
  | del (k : Key)
  | url (text : List UInt8)

def mdMod : Mod where
  St := MD
  Op := MdOp
  create := mdNewA
  step := fun op d s => match op with
    | .put k v => mdPutA d k v s
    | .del k => mdDelA d k s
    | .url t => mdUrldecodeA (t.length + 1) d t s
  destroy := mdFreeA
  owned := MD.owned
  ok := MD.ok
  pre := fun _ op => match op with
    | .put k _ => NoTrailingZero k
    | .del _ => True
    | .url t => urlKeysOk (t.length + 1) t
  atomic := fun op => match op with | .url _ => false | _ => true

theorem mdLaws : Laws mdMod where
  create_none := fun s s' h o ho => ho.of_live_eq (mdNewA_none h)
  create_some := fun s s' st h => ⟨mdNewA_ok h, (mdNewA_some h).2.2⟩
  step_fail := by
    intro op st s st' s' ha h
    cases op with
    | put k v => exact ⟨(mdPutA_false h).1, fun o ho => ho.of_live_eq (mdPutA_false h).2⟩
    | del k =>
      simp only [mdMod] at h
      unfold mdDelA at h
      split at h
      · cases h; exact ⟨rfl, fun o ho => ho⟩
      · injection h with h1 hs
        injection h1 with hr ht
        cases hr
    | url t => simp [mdMod] at ha
  step_holds := by
    intro op st s r st' s' hv hp h
    cases op with
    | put k v =>
      refine ⟨mdPutA_ok h hv hp, ?_⟩
      cases r with
      | false =>
        obtain ⟨e1, e2⟩ := mdPutA_false h
        rw [e1]; exact fun o ho => ho.of_live_eq e2
      | true => exact (mdPutA_true h hv.linked).2.2
    | del k => exact ⟨mdDelA_ok h hv, (mdDelA_holds h).2.2⟩
    | url t => exact ⟨mdUrldecodeA_ok h hv hp, (mdUrldecodeA_holds h hv.linked).2.2⟩
  destroy_holds := fun st s o _ h => mdFreeA_holds h


/-- hashtab (chain); `copy` is the resize idiom: on success the old chain is destroyed and
    replaced by the copy, on failure the old chain stays -/
inductive HtOp where
  | put (k v : Nat)
  | del (k : Nat)
  | copy (newsize : Nat)

def htStep (op : HtOp) (h : HT) (s : AS) : (Bool × HT) × AS :=
  match op with
  | .put k v => (((htPutA h k v s).1.1.isSome, (htPutA h k v s).1.2), (htPutA h k v s).2)
  | .del k => ((true, htDelete k h), s)
  | .copy n =>
    match htCopyA h n s with
    | (none, s1) => ((false, h), s1)
    | (some h2, s1) => ((true, h2), htDestroyA h s1)

def htMod (size : Nat) : Mod where
  St := HT
  Op := HtOp
  create := fun s => match htCreateA size s with
    | (none, s1) => (none, s1)
    | (some seg, s1) => (some [seg], s1)
  step := htStep
  destroy := htDestroyA
  owned := HT.owned
  ok := fun _ => True
  pre := fun _ _ => True
  atomic := fun _ => true

theorem htLaws (size : Nat) : Laws (htMod size) where
  create_none := by
    intro s s' h o ho
    simp only [htMod] at h
    split at h
    · next s1 e => cases h; exact ho.of_live_eq (htCreateA_none e)
    · cases h
  create_some := by
    intro s s' st h
    simp only [htMod] at h
    split at h
    · cases h
    · next seg s1 e =>
      cases h
      refine ⟨trivial, fun o ho => ?_⟩
      intro a
      rw [(htCreateA_some e).1]
      simp only [htMod, HT.owned, List.map_cons, List.map_nil, List.count_cons, List.count_append,
        List.count_nil, ho a]
      omega
  step_fail := by
    intro op st s st' s' _ h
    cases op with
    | put k v =>
      simp only [htMod, htStep] at h
      generalize hq : htPutA st k v s = q at h
      obtain ⟨⟨r, h'⟩, s1⟩ := q
      injection h with h1 hs
      injection h1 with hr ht
      subst ht; subst hs
      cases r with
      | some e => simp at hr
      | none => exact ⟨(htPutA_null hq).1, fun o ho => ho.of_live_eq (htPutA_null hq).2⟩
    | del k =>
      simp only [htMod, htStep] at h
      injection h with h1 hs
      injection h1 with hr ht
      cases hr
    | copy n =>
      simp only [htMod, htStep] at h
      split at h
      · next s1 e => cases h; exact ⟨rfl, htCopyA_none e⟩
      · cases h
  step_holds := by
    intro op st s r st' s' _ _ h
    refine ⟨trivial, ?_⟩
    cases op with
    | put k v =>
      simp only [htMod, htStep] at h
      generalize hq : htPutA st k v s = q at h
      obtain ⟨⟨r2, h'⟩, s1⟩ := q
      injection h with h1 hs
      injection h1 with hr ht
      subst ht; subst hs
      cases r2 with
      | none =>
        obtain ⟨e1, e2⟩ := htPutA_null hq
        rw [e1]; exact fun o ho => ho.of_live_eq e2
      | some x => exact htPutA_some hq
    | del k =>
      simp only [htMod, htStep] at h
      injection h with h1 hs
      injection h1 with hr ht
      subst ht; subst hs
      intro o ho
      have e : (htDelete k st).owned = HT.owned st := htDelete_owned k st
      exact (e ▸ ho : Holds s ((htDelete k st).owned ++ o))
    | copy n =>
      simp only [htMod, htStep] at h
      split at h
      · next s1 e => cases h; exact fun o ho => htCopyA_none e _ ho
      · next h2 s1 e =>
        cases h
        intro o ho
        have h1 := htCopyA_some e _ ho
        apply htDestroyA_holds
        apply h1.congr
        simp only [htMod]; perm_blocks
  destroy_holds := fun st s o _ h => htDestroyA_holds h

/-- heap -/
inductive HpOp where
  | push (x : Nat)
  | reserve (n : Nat)
  | pop

def hpStep (op : HpOp) (h : HP) (s : AS) : (Bool × HP) × AS :=
  match op with
  | .push x => hpPushA h x s
  | .reserve n => hpReserveA h n s
  | .pop => (((hpPop h).1.isSome, (hpPop h).2), s)

def hpMod : Mod where
  St := HP
  Op := HpOp
  create := hpCreateA
  step := hpStep
  destroy := hpDestroyA
  owned := HP.owned
  ok := fun _ => True
  pre := fun _ _ => True
  atomic := fun op => match op with | .pop => false | _ => true

theorem hpLaws : Laws hpMod where
  create_none := fun s s' h o ho => ho.of_live_eq (hpCreateA_none h)
  create_some := fun s s' st h => ⟨trivial, (hpCreateA_some h).2.2⟩
  step_fail := by
    intro op st s st' s' ha h
    cases op with
    | push x => exact ⟨(hpPushA_false h).1, fun o ho => ho.of_live_eq (hpPushA_false h).2⟩
    | reserve n => exact ⟨(hpReserveA_false h).1, fun o ho => ho.of_live_eq (hpReserveA_false h).2⟩
    | pop => simp [hpMod] at ha
  step_holds := by
    intro op st s r st' s' _ _ h
    refine ⟨trivial, ?_⟩
    cases op with
    | push x =>
      cases r with
      | false =>
        obtain ⟨e1, e2⟩ := hpPushA_false h
        rw [e1]; exact fun o ho => ho.of_live_eq e2
      | true => exact (hpPushA_true h).2.2
    | reserve n =>
      cases r with
      | false =>
        obtain ⟨e1, e2⟩ := hpReserveA_false h
        rw [e1]; exact fun o ho => ho.of_live_eq e2
      | true => exact (hpReserveA_true h).2.2.2
    | pop =>
      simp only [hpMod, hpStep] at h
      injection h with h1 hs
      injection h1 with hr ht
      subst ht; subst hs
      intro o ho
      have e : (hpPop st).2.owned = HP.owned st := hpPop_owned st
      exact (e ▸ ho : Holds s ((hpPop st).2.owned ++ o))
  destroy_holds := fun st s o _ h => hpDestroyA_holds h

/-- strlist; `pop` includes the caller releasing the string it was handed -/
inductive SlOp where
  | app (v : Option (List UInt8))
  | pop

def slStep (op : SlOp) (l : SL) (s : AS) : (Bool × SL) × AS :=
  match op with
  | .app v => slAppendA l v s
  | .pop => (((slPopA l s).1.1.isSome, (slPopA l s).1.2), (slPopA l s).2)

def slMod : Mod where
  St := SL
  Op := SlOp
  create := slNewA
  step := slStep
  destroy := slFreeA
  owned := SL.owned
  ok := fun _ => True
  pre := fun _ _ => True
  atomic := fun op => match op with | .pop => false | _ => true

theorem slLaws : Laws slMod where
  create_none := fun s s' h o ho => ho.of_live_eq (slNewA_none h)
  create_some := fun s s' st h => ⟨trivial, (slNewA_some h).2⟩
  step_fail := by
    intro op st s st' s' ha h
    cases op with
    | app v => exact ⟨(slAppendA_false h).1, fun o ho => ho.of_live_eq (slAppendA_false h).2⟩
    | pop => simp [slMod] at ha
  step_holds := by
    intro op st s r st' s' _ _ h
    refine ⟨trivial, ?_⟩
    cases op with
    | app v =>
      cases r with
      | false =>
        obtain ⟨e1, e2⟩ := slAppendA_false h
        rw [e1]; exact fun o ho => ho.of_live_eq e2
      | true => exact (slAppendA_true h).2.2
    | pop =>
      simp only [slMod, slStep] at h
      generalize hq : slPopA st s = q at h
      obtain ⟨⟨r2, l'⟩, s1⟩ := q
      injection h with h1 hs
      injection h1 with hr ht
      subst ht; subst hs
      exact (slPopA_holds hq).2.2
  destroy_holds := fun st s o _ h => slFreeA_holds h

/-- dynamic mbuf -/
def mbMod : Mod where
  St := MB
  Op := List UInt8
  create := fun s => (some {}, s)
  step := fun b m s => mbWriteA m b s
  destroy := mbFreeA
  owned := MB.owned
  ok := fun _ => True
  pre := fun _ _ => True
  atomic := fun _ => true

theorem mbLaws : Laws mbMod where
  create_none := by intro s s' h; simp [mbMod] at h
  create_some := by
    intro s s' st h
    simp only [mbMod] at h
    injection h with h1 h2
    injection h1 with h3
    subst h3; subst h2
    exact ⟨trivial, fun o ho => by simpa [mbMod, MB.owned] using ho⟩
  step_fail := fun op st s st' s' _ h =>
    ⟨(mbWriteA_false h).1, fun o ho => ho.of_live_eq (mbWriteA_false h).2⟩
  step_holds := by
    intro op st s r st' s' _ _ h
    refine ⟨trivial, ?_⟩
    cases r with
    | false =>
      obtain ⟨e1, e2⟩ := mbWriteA_false h
      rw [e1]; exact fun o ho => ho.of_live_eq e2
    | true => exact (mbWriteA_true h).2
  destroy_holds := fun st s o _ h => mbFreeA_holds h

/-- slab -/
inductive SbOp where
  | alloc
  | free

def sbMod (objSize : Nat) : Mod where
  St := SB
  Op := SbOp
  create := sbCreateA objSize
  step := fun op b s => match op with
    | .alloc => sbAllocA b s
    | .free => ((true, sbFree b), s)
  destroy := sbDestroyA
  owned := SB.owned
  ok := fun _ => True
  pre := fun _ _ => True
  atomic := fun _ => true

theorem sbLaws (objSize : Nat) : Laws (sbMod objSize) where
  create_none := fun s s' h o ho => ho.of_live_eq (sbCreateA_none h)
  create_some := fun s s' st h => ⟨trivial, (sbCreateA_some h).2.2⟩
  step_fail := by
    intro op st s st' s' _ h
    cases op with
    | alloc => exact ⟨(sbAllocA_false h).1, fun o ho => ho.of_live_eq (sbAllocA_false h).2⟩
    | free =>
      simp only [sbMod] at h
      injection h with h1 hs
      injection h1 with hr ht
      cases hr
  step_holds := by
    intro op st s r st' s' _ _ h
    refine ⟨trivial, ?_⟩
    cases op with
    | alloc => exact sbAllocA_holds h
    | free =>
      simp only [sbMod] at h
      injection h with h1 hs
      injection h1 with hr ht
      subst ht; subst hs
      exact fun o ho => by simpa [sbMod, sbFree, SB.owned] using ho
  destroy_holds := fun st s o _ h => sbDestroyA_holds h

/-- cx tree allocator: blocks in the top tree, sub-trees with their blocks -/
inductive CtOp where
  | alloc                         -- cx_alloc(tree)
  | allocSub (sid : Id)           -- cx_alloc(sub-tree)
  | realloc (blk : Id)            -- cx_realloc(tree, blk)
  | free (blk : Id)               -- cx_free(tree, blk)
  | newSub                        -- cx_new_tree(tree)
  | destroySub (sid : Id)         -- cx_destroy(sub-tree)

def ctStep (op : CtOp) (t : CT) (s : AS) : (Bool × CT) × AS :=
  match op with
  | .alloc => (((ctAllocA t none s).1.1.isSome, (ctAllocA t none s).1.2), (ctAllocA t none s).2)
  | .allocSub sid =>
    (((ctAllocA t (some sid) s).1.1.isSome, (ctAllocA t (some sid) s).1.2), (ctAllocA t (some sid) s).2)
  | .realloc blk =>
    (((ctReallocA t none blk s).1.1.isSome, (ctReallocA t none blk s).1.2), (ctReallocA t none blk s).2)
  | .free blk => ((true, (ctFreeA t none blk s).1), (ctFreeA t none blk s).2)
  | .newSub => (((ctNewSubA t s).1.1.isSome, (ctNewSubA t s).1.2), (ctNewSubA t s).2)
  | .destroySub sid => ((true, (ctDestroySubA t sid s).1), (ctDestroySubA t sid s).2)

def ctMod : Mod where
  St := CT
  Op := CtOp
  create := ctNewA
  step := ctStep
  destroy := ctDestroyA
  owned := CT.owned
  ok := fun _ => True
  pre := fun t op => match op with
    | .allocSub sid => (t.subs.find? (·.1 == sid)).isSome
    | .realloc blk => blk ∈ t.items
    | .free blk => blk ∈ t.items
    | _ => True
  atomic := fun _ => true

theorem ctLaws : Laws ctMod where
  create_none := fun s s' h o ho => ho.of_live_eq (ctNewA_none h)
  create_some := fun s s' st h => ⟨trivial, (ctNewA_some h).2.2⟩
  step_fail := by
    intro op st s st' s' _ h
    cases op with
    | alloc =>
      simp only [ctMod, ctStep] at h
      generalize hq : ctAllocA st none s = q at h
      obtain ⟨⟨r, t'⟩, s1⟩ := q
      injection h with h1 hs
      injection h1 with hr ht
      subst ht; subst hs
      cases r with
      | some e => simp at hr
      | none => exact ⟨(ctAllocA_none hq).1, fun o ho => ho.of_live_eq (ctAllocA_none hq).2⟩
    | allocSub sid =>
      simp only [ctMod, ctStep] at h
      generalize hq : ctAllocA st (some sid) s = q at h
      obtain ⟨⟨r, t'⟩, s1⟩ := q
      injection h with h1 hs
      injection h1 with hr ht
      subst ht; subst hs
      cases r with
      | some e => simp at hr
      | none => exact ⟨(ctAllocA_none hq).1, fun o ho => ho.of_live_eq (ctAllocA_none hq).2⟩
    | realloc blk =>
      simp only [ctMod, ctStep] at h
      generalize hq : ctReallocA st none blk s = q at h
      obtain ⟨⟨r, t'⟩, s1⟩ := q
      injection h with h1 hs
      injection h1 with hr ht
      subst ht; subst hs
      cases r with
      | some e => simp at hr
      | none => exact ⟨(ctReallocA_none hq).1, fun o ho => ho.of_live_eq (ctReallocA_none hq).2⟩
    | free blk =>
      simp only [ctMod, ctStep] at h
      injection h with h1 hs
      injection h1 with hr ht
      cases hr
    | newSub =>
      simp only [ctMod, ctStep] at h
      generalize hq : ctNewSubA st s = q at h
      obtain ⟨⟨r, t'⟩, s1⟩ := q
      injection h with h1 hs
      injection h1 with hr ht
      subst ht; subst hs
      cases r with
      | some e => simp at hr
      | none => exact ⟨(ctNewSubA_none hq).1, fun o ho => ho.of_live_eq (ctNewSubA_none hq).2⟩
    | destroySub sid =>
      simp only [ctMod, ctStep] at h
      injection h with h1 hs
      injection h1 with hr ht
      cases hr
  step_holds := by
    intro op st s r st' s' _ hp h
    refine ⟨trivial, ?_⟩
    cases op with
    | alloc =>
      simp only [ctMod, ctStep] at h
      generalize hq : ctAllocA st none s = q at h
      obtain ⟨⟨r2, t'⟩, s1⟩ := q
      injection h with h1 hs
      injection h1 with hr ht
      subst ht; subst hs
      cases r2 with
      | none =>
        obtain ⟨e1, e2⟩ := ctAllocA_none hq
        rw [e1]; exact fun o ho => ho.of_live_eq e2
      | some b => exact ctAllocA_some hq (by intro sid hs; cases hs)
    | allocSub sid =>
      simp only [ctMod, ctStep] at h
      generalize hq : ctAllocA st (some sid) s = q at h
      obtain ⟨⟨r2, t'⟩, s1⟩ := q
      injection h with h1 hs
      injection h1 with hr ht
      subst ht; subst hs
      cases r2 with
      | none =>
        obtain ⟨e1, e2⟩ := ctAllocA_none hq
        rw [e1]; exact fun o ho => ho.of_live_eq e2
      | some b => exact ctAllocA_some hq (by intro sid' hs; cases hs; exact hp)
    | realloc blk =>
      simp only [ctMod, ctStep] at h
      generalize hq : ctReallocA st none blk s = q at h
      obtain ⟨⟨r2, t'⟩, s1⟩ := q
      injection h with h1 hs
      injection h1 with hr ht
      subst ht; subst hs
      cases r2 with
      | none =>
        obtain ⟨e1, e2⟩ := ctReallocA_none hq
        rw [e1]; exact fun o ho => ho.of_live_eq e2
      | some b => exact ctReallocA_some_top hq hp
    | free blk =>
      simp only [ctMod, ctStep] at h
      injection h with h1 hs
      injection h1 with hr ht
      subst ht; subst hs
      exact ctFreeA_top_holds hp
    | newSub =>
      simp only [ctMod, ctStep] at h
      generalize hq : ctNewSubA st s = q at h
      obtain ⟨⟨r2, t'⟩, s1⟩ := q
      injection h with h1 hs
      injection h1 with hr ht
      subst ht; subst hs
      cases r2 with
      | none =>
        obtain ⟨e1, e2⟩ := ctNewSubA_none hq
        rw [e1]; exact fun o ho => ho.of_live_eq e2
      | some b => exact (ctNewSubA_some hq).2
    | destroySub sid =>
      simp only [ctMod, ctStep] at h
      injection h with h1 hs
      injection h1 with hr ht
      subst ht; subst hs
      exact ctDestroySubA_holds
  destroy_holds := fun st s o _ h => ctDestroyA_holds h

/-- HMAC context: creation and release only (the digest computation does not allocate) -/
def hmMod : Mod where
  St := HM
  Op := Unit
  create := hmNewA
  step := fun _ h s => ((true, h), s)
  destroy := hmFreeA
  owned := HM.owned
  ok := fun _ => True
  pre := fun _ _ => True
  atomic := fun _ => true

theorem hmLaws : Laws hmMod where
  create_none := fun s s' h o ho => ho.of_live_eq (hmNewA_none h)
  create_some := fun s s' st h => ⟨trivial, hmNewA_some h⟩
  step_fail := by
    intro op st s st' s' _ h
    simp only [hmMod] at h
    injection h with h1 hs
    injection h1 with hr ht
    cases hr
  step_holds := by
    intro op st s r st' s' _ _ h
    simp only [hmMod] at h
    injection h with h1 hs
    injection h1 with hr ht
    subst ht; subst hs
    exact ⟨trivial, fun o ho => ho⟩
  destroy_holds := fun st s o _ h => hmFreeA_holds h

end Usual.C10
