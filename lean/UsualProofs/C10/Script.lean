import UsualProofs.C10.Pools
import UsualProofs.C10.Structs
/-!
# C10 — scripts: create, any operations, destroy, under any fault schedule

A module is packaged as `Mod` (state, operations with their allocation behaviour, ownership,
validity); `Laws` collects the per-operation facts proved in `Tree/Pools/Structs.lean`; the
script theorems are proved once for every lawful module and instantiated below.
-/
namespace Usual.C10
open Usual.C06

structure Mod where
  St : Type
  Op : Type
  create : AS → Option St × AS
  /-- `(reported success, state')` -/
  step : Op → St → AS → (Bool × St) × AS
  destroy : St → AS → AS
  owned : St → List Id
  ok : St → Prop
  /-- what the caller must respect (key precondition of C06, handles that exist) -/
  pre : St → Op → Prop
  /-- operations whose failure is all-or-nothing -/
  atomic : Op → Bool

structure Laws (M : Mod) : Prop where
  create_none : ∀ s s', M.create s = (none, s') → ∀ o, Holds s o → Holds s' o
  create_some : ∀ s s' st, M.create s = (some st, s') →
    M.ok st ∧ ∀ o, Holds s o → Holds s' (M.owned st ++ o)
  step_fail : ∀ op st s st' s', M.atomic op = true → M.step op st s = ((false, st'), s') →
    st' = st ∧ ∀ o, Holds s o → Holds s' o
  step_holds : ∀ op st s r st' s', M.ok st → M.pre st op → M.step op st s = ((r, st'), s') →
    M.ok st' ∧ ∀ o, Holds s (M.owned st ++ o) → Holds s' (M.owned st' ++ o)
  destroy_holds : ∀ st s o, M.ok st → Holds s (M.owned st ++ o) → Holds (M.destroy st s) o

/-- run a list of operations; the list of reported results, the final state, the allocator -/
def runOps (M : Mod) : List M.Op → M.St → AS → (List Bool × M.St) × AS
  | [], st, s => (([], st), s)
  | op :: ops, st, s =>
    match M.step op st s with
    | ((r, st1), s1) =>
      match runOps M ops st1 s1 with
      | ((rs, st2), s2) => ((r :: rs, st2), s2)

/-- the caller's obligations along the run -/
def PreOk (M : Mod) : List M.Op → M.St → AS → Prop
  | [], _, _ => True
  | op :: ops, st, s => M.pre st op ∧ PreOk M ops (M.step op st s).1.2 (M.step op st s).2

/-- a whole script: create, operations, destroy.  Returns the allocator at the end. -/
def script (M : Mod) (ops : List M.Op) (s : AS) : AS :=
  match M.create s with
  | (none, s1) => s1
  | (some st, s1) =>
    match runOps M ops st s1 with
    | ((_, st2), s2) => M.destroy st2 s2

theorem runOps_cons (M : Mod) (op : M.Op) (ops : List M.Op) (st : M.St) (s : AS) :
    runOps M (op :: ops) st s =
      (((M.step op st s).1.1 :: (runOps M ops (M.step op st s).1.2 (M.step op st s).2).1.1,
        (runOps M ops (M.step op st s).1.2 (M.step op st s).2).1.2),
       (runOps M ops (M.step op st s).1.2 (M.step op st s).2).2) := rfl

theorem runOps_holds {M : Mod} (L : Laws M) (ops : List M.Op) (st : M.St) (s : AS)
    (hv : M.ok st) (hp : PreOk M ops st s) :
    M.ok (runOps M ops st s).1.2 ∧
    ∀ o, Holds s (M.owned st ++ o) → Holds (runOps M ops st s).2 (M.owned (runOps M ops st s).1.2 ++ o) := by
  induction ops generalizing st s with
  | nil => exact ⟨hv, fun o ho => ho⟩
  | cons op ops ih =>
    rw [runOps_cons]
    simp only [PreOk] at hp
    obtain ⟨h1, h2⟩ := L.step_holds op st s (M.step op st s).1.1 (M.step op st s).1.2
      (M.step op st s).2 hv hp.1 rfl
    obtain ⟨h3, h4⟩ := ih (M.step op st s).1.2 (M.step op st s).2 h1 hp.2
    exact ⟨h3, fun o ho => h4 o (h2 o ho)⟩

/-- **Single fault, double fault, any fault schedule — nothing leaks.**  For every lawful
    module, every operation list, every allocator state (in particular every set `fails` of
    failing request numbers): after create / operations / destroy the allocator holds exactly
    what it held before the script. -/
theorem script_balanced {M : Mod} (L : Laws M) (ops : List M.Op) (s : AS) (o : List Id)
    (h : Holds s o)
    (hp : ∀ st s1, M.create s = (some st, s1) → PreOk M ops st s1) :
    Holds (script M ops s) o := by
  unfold script
  generalize hc : M.create s = c
  obtain ⟨c1, s1⟩ := c
  cases c1 with
  | none => exact L.create_none s s1 hc o h
  | some st =>
    simp only
    obtain ⟨hv, ht⟩ := L.create_some s s1 st hc
    obtain ⟨h3, h4⟩ := runOps_holds L ops st s1 hv (hp st s1 hc)
    exact L.destroy_holds _ _ o h3 (h4 o (ht o h))

/-- starting from an empty allocator the script ends with an empty allocator -/
theorem script_live_empty {M : Mod} (L : Laws M) (ops : List M.Op) (s : AS) (h : s.live = [])
    (hp : ∀ st s1, M.create s = (some st, s1) → PreOk M ops st s1) :
    (script M ops s).live = [] :=
  Holds.nil_iff.mp (script_balanced L ops s [] (Holds.nil_iff.mpr h) hp)

/-- **A failed all-or-nothing operation is a no-op for the structure**: the rest of the script
    runs from the very state the failed operation found (only the allocator's request counter
    has moved on). -/
theorem failed_op_is_noop {M : Mod} (L : Laws M) (op : M.Op) (ops : List M.Op) (st st' : M.St)
    (s s' : AS) (ha : M.atomic op = true) (hf : M.step op st s = ((false, st'), s')) :
    runOps M (op :: ops) st s =
      ((false :: (runOps M ops st s').1.1, (runOps M ops st s').1.2), (runOps M ops st s').2) := by
  obtain ⟨e, _⟩ := L.step_fail op st s st' s' ha hf
  subst e
  rw [runOps_cons, hf]

/-! ## the modules -/

/-- bare crit-bit tree -/
inductive CbOp where
  | ins (e : Entry)
  | del (k : Key)

def cbMod : Mod where
  St := CB
  Op := CbOp
  create := cbCreateA
  step := fun op t s => match op with
    | .ins e => cbInsertA t e s
    | .del k => (((cbDeleteA t k s).1.1.isSome, (cbDeleteA t k s).1.2), (cbDeleteA t k s).2)
  destroy := cbDestroyA
  owned := CB.owned
  ok := CB.ok
  pre := fun _ op => match op with | .ins e => NoTrailingZero e.key | .del _ => True
  atomic := fun _ => true

theorem cbLaws : Laws cbMod where
  create_none := fun s s' h o ho => ho.of_live_eq (cbCreateA_none h)
  create_some := fun s s' st h => ⟨cbCreateA_ok h, (cbCreateA_some h).2⟩
  step_fail := by
    intro op st s st' s' _ h
    cases op with
    | ins e => exact ⟨(cbInsertA_false h).1, fun o ho => ho.of_live_eq (cbInsertA_false h).2⟩
    | del k =>
      simp only [cbMod] at h
      generalize hq : cbDeleteA st k s = q at h
      obtain ⟨⟨r, t'⟩, s1⟩ := q
      injection h with h1 hs
      injection h1 with hr ht
      subst ht; subst hs
      cases r with
      | some e => simp at hr
      | none =>
        obtain ⟨_, _, h3, _⟩ := cbDeleteA_spec hq
        obtain ⟨e1, e2⟩ := h3 rfl
        exact ⟨e1, fun o ho => by rw [e2]; exact ho⟩
  step_holds := by
    intro op st s r st' s' hv hp h
    cases op with
    | ins e =>
      refine ⟨cbInsertA_ok h hv hp, ?_⟩
      cases r with
      | false =>
        obtain ⟨e1, e2⟩ := cbInsertA_false h
        rw [e1]; exact fun o ho => ho.of_live_eq e2
      | true => exact (cbInsertA_true h).2.2
    | del k =>
      simp only [cbMod] at h
      generalize hq : cbDeleteA st k s = q at h
      obtain ⟨⟨r2, t'⟩, s1⟩ := q
      injection h with h1 hs
      injection h1 with hr ht
      subst ht; subst hs
      exact ⟨cbDeleteA_ok hq hv, (cbDeleteA_spec hq).2.2.2.2.2⟩
  destroy_holds := fun st s o _ h => cbDestroyA_holds h

/-- strpool -/
inductive SpOp where
  | get (k : Key)
  | dec (id : Id)

def spMod : Mod where
  St := SP
  Op := SpOp
  create := spCreateA
  step := fun op p s => match op with
    | .get k => (((spGetA p k s).1.1.isSome, (spGetA p k s).1.2), (spGetA p k s).2)
    | .dec id => ((true, (spDecrefA p id s).1.2), (spDecrefA p id s).2)
  destroy := spFreeA
  owned := SP.owned
  ok := SP.ok
  pre := fun _ op => match op with | .get k => NoTrailingZero k | .dec _ => True
  atomic := fun _ => true

theorem spLaws : Laws spMod where
  create_none := fun s s' h o ho => ho.of_live_eq (spCreateA_none h)
  create_some := fun s s' st h => ⟨spCreateA_ok h, (spCreateA_some h).2.2.2⟩
  step_fail := by
    intro op st s st' s' _ h
    cases op with
    | get k =>
      simp only [spMod] at h
      generalize hq : spGetA st k s = q at h
      obtain ⟨⟨r, p'⟩, s1⟩ := q
      injection h with h1 hs
      injection h1 with hr ht
      subst ht; subst hs
      cases r with
      | some e => simp at hr
      | none => exact ⟨(spGetA_null hq).1, fun o ho => ho.of_live_eq (spGetA_null hq).2⟩
    | dec id =>
      simp only [spMod] at h
      injection h with h1 hs
      injection h1 with hr ht
      cases hr
  step_holds := by
    intro op st s r st' s' hv hp h
    cases op with
    | get k =>
      simp only [spMod] at h
      generalize hq : spGetA st k s = q at h
      obtain ⟨⟨r2, p'⟩, s1⟩ := q
      injection h with h1 hs
      injection h1 with hr ht
      subst ht; subst hs
      refine ⟨spGetA_ok hq hv hp, ?_⟩
      cases r2 with
      | none =>
        obtain ⟨e1, e2⟩ := spGetA_null hq
        rw [e1]; exact fun o ho => ho.of_live_eq e2
      | some id => exact (spGetA_some hq).2.2
    | dec id =>
      simp only [spMod] at h
      generalize hq : spDecrefA st id s = q at h
      obtain ⟨⟨r2, p'⟩, s1⟩ := q
      injection h with h1 hs
      injection h1 with hr ht
      subst ht; subst hs
      exact ⟨spDecrefA_ok hq hv, (spDecrefA_holds hq).2.2⟩
  destroy_holds := fun st s o hv h => spFreeA_holds hv.2 h

/-- mdict -/
inductive MdOp where
  | put (k : Key) (v : Val)
  | del (k : Key)
  | url (text : List UInt8)

def mdMod : Mod where
  St := MD
  Op := MdOp
  create := mdNewA
  step := fun op d s => match op with
    | .put k v => mdPutA d k v s
    | .del k => mdDelA d k s
    | .url t => mdUrldecodeA (t.length + 1) d t s
  destroy := mdFreeA
  owned := MD.owned
  ok := MD.ok
  pre := fun _ op => match op with
    | .put k _ => NoTrailingZero k
    | .del _ => True
    | .url t => urlKeysOk (t.length + 1) t
  atomic := fun op => match op with | .url _ => false | _ => true

theorem mdLaws : Laws mdMod where
  create_none := fun s s' h o ho => ho.of_live_eq (mdNewA_none h)
  create_some := fun s s' st h => ⟨mdNewA_ok h, (mdNewA_some h).2.2⟩
  step_fail := by
    intro op st s st' s' ha h
    cases op with
    | put k v => exact ⟨(mdPutA_false h).1, fun o ho => ho.of_live_eq (mdPutA_false h).2⟩
    | del k =>
      simp only [mdMod] at h
      unfold mdDelA at h
      split at h
      · cases h; exact ⟨rfl, fun o ho => ho⟩
      · injection h with h1 hs
        injection h1 with hr ht
        cases hr
    | url t => simp [mdMod] at ha
  step_holds := by
    intro op st s r st' s' hv hp h
    cases op with
    | put k v =>
      refine ⟨mdPutA_ok h hv hp, ?_⟩
      cases r with
      | false =>
        obtain ⟨e1, e2⟩ := mdPutA_false h
        rw [e1]; exact fun o ho => ho.of_live_eq e2
      | true => exact (mdPutA_true h hv.linked).2.2
    | del k => exact ⟨mdDelA_ok h hv, (mdDelA_holds h).2.2⟩
    | url t => exact ⟨mdUrldecodeA_ok h hv hp, (mdUrldecodeA_holds h hv.linked).2.2⟩
  destroy_holds := fun st s o _ h => mdFreeA_holds h

end Usual.C10
