import UsualProofs.C10.Script
import UsualProofs.C10.Json
import UsualProofs.C10.TallocA
/-!
# C10 — the families built on the C09 / C03 models as lawful modules (cx pool, mempool, JSON)
-/
namespace Usual.C10
open Usual.C09 Usual.C03

theorem alloc_allowFree {p p' : Pool} {len q : Nat} {pa : Option Nat}
    (h : alloc p len pa = some (p', q)) : p'.allowFree = p.allowFree := by
  by_cases h0 : len = 0
  · subst h0
    unfold alloc at h
    split at h
    · cases h
    · simp only at h
      cases hs : p.segs with
      | nil =>
        simp only [hs] at h
        cases pa with
        | none => cases h
        | some a => simp only [Option.map_some, Option.some.injEq, allocNew, Prod.mk.injEq] at h; rw [← h.1]
      | cons sg rest =>
        simp only [hs] at h
        split at h
        · simp only [Option.some.injEq, allocFit, Prod.mk.injEq] at h; rw [← h.1]
        · cases pa with
          | none => cases h
          | some a => simp only [Option.map_some, Option.some.injEq, allocNew, Prod.mk.injEq] at h; rw [← h.1]
  · exact cxAlloc_allowFree (len := len) (by simpa [cxAlloc, h0] using h)

theorem realloc_allowFree {p : Pool} {ptr len : Nat} {pa : Option Nat} {r : Pool × Nat × Nat}
    (h : realloc p ptr len pa = some r) : r.1.allowFree = p.allowFree := by
  unfold realloc at h
  split at h
  · cases h
  · split at h
    · simp only [reallocOther, Option.map_eq_some_iff] at h
      obtain ⟨a, ha, rfl⟩ := h
      exact alloc_allowFree (q := a.2) (by rw [ha])
    · split at h
      · simp only [reallocLast] at h
        split at h
        · cases h; rfl
        · simp only [Option.map_eq_some_iff] at h
          obtain ⟨a, ha, rfl⟩ := h
          exact alloc_allowFree (q := a.2) (by rw [ha])
      · cases h

theorem free_allowFree (p : Pool) (ptr : Nat) : (Usual.C09.free p ptr).allowFree = p.allowFree := by
  unfold Usual.C09.free
  by_cases hl : p.lastPtr ≠ some ptr
  · rw [if_pos hl]
  · rw [if_neg hl]
    cases p.segs <;> rfl

/-- cx pool: blocks are handed out, reallocated, released; the pool is destroyed at the end -/
inductive PoolOp where
  | alloc (len : Nat)
  | realloc (ptr len : Nat)
  | free (ptr : Nat)

def poolStep (op : PoolOp) (p : Pool) (s : AS) : (Bool × Pool) × AS :=
  match op with
  | .alloc len =>
    match poolAllocA p len s with
    | (none, s1) => ((false, p), s1)
    | (some r, s1) => ((true, r.1), s1)
  | .realloc ptr len =>
    match poolReallocA p ptr len s with
    | (none, s1) => ((false, p), s1)
    | (some r, s1) => ((true, r.1), s1)
  | .free ptr => ((true, Usual.C09.free p ptr), s)

def poolMod (initial align : Nat) : Mod where
  St := Pool
  Op := PoolOp
  create := poolNewA initial align
  step := poolStep
  destroy := poolDestroyA
  owned := poolOwned
  ok := fun p => p.allowFree = true
  pre := fun _ _ => True
  atomic := fun _ => true

theorem poolLaws (initial align : Nat) (hal : align = 0 ∨ isPowerOf2 align = true) :
    Laws (poolMod initial align) where
  create_none := fun s s' h o ho => ho.of_live_eq (poolNewA_none h hal)
  create_some := fun s s' st h => ⟨(poolNewA_some h).1, (poolNewA_some h).2.2⟩
  step_fail := by
    intro op st s st' s' _ h
    cases op with
    | alloc len =>
      simp only [poolMod, poolStep] at h
      split at h
      · next s1 e => cases h; exact ⟨rfl, fun o ho => ho.of_live_eq (poolAllocA_none e)⟩
      · cases h
    | realloc ptr len =>
      simp only [poolMod, poolStep] at h
      split at h
      · next s1 e => cases h; exact ⟨rfl, fun o ho => ho.of_live_eq (poolReallocA_none e)⟩
      · cases h
    | free ptr => simp only [poolMod, poolStep] at h; cases h
  step_holds := by
    intro op st s r st' s' hv _ h
    cases op with
    | alloc len =>
      simp only [poolMod, poolStep] at h
      split at h
      · next s1 e => cases h; exact ⟨hv, fun o ho => ho.of_live_eq (poolAllocA_none e)⟩
      · next rr s1 e =>
        cases h
        obtain ⟨p', q⟩ := rr
        refine ⟨?_, poolAllocA_some e⟩
        unfold poolAllocA at e
        generalize askParent (cxAllocReq st len) s = qq at e
        obtain ⟨pa, s2⟩ := qq
        simp only [Prod.mk.injEq] at e
        exact (cxAlloc_allowFree e.1).trans hv
    | realloc ptr len =>
      simp only [poolMod, poolStep] at h
      split at h
      · next s1 e => cases h; exact ⟨hv, fun o ho => ho.of_live_eq (poolReallocA_none e)⟩
      · next rr s1 e =>
        cases h
        refine ⟨?_, poolReallocA_some e⟩
        unfold poolReallocA at e
        generalize askParent (reallocReq st ptr len) s = qq at e
        obtain ⟨pa, s2⟩ := qq
        simp only [Prod.mk.injEq] at e
        exact (realloc_allowFree e.1).trans hv
    | free ptr =>
      simp only [poolMod, poolStep] at h
      cases h
      have ha : (Usual.C09.free st ptr).allowFree = st.allowFree := free_allowFree st ptr
      refine ⟨ha.trans hv, fun o ho => ?_⟩
      have e : poolOwned (Usual.C09.free st ptr) = poolOwned st := free_owned st ptr
      exact (e ▸ ho : Holds s (poolOwned (Usual.C09.free st ptr) ++ o))
  destroy_holds := fun st s o hv h => poolDestroyA_holds hv h

/-- mempool: a pool pointer that starts as NULL, `mempool_alloc`s, `mempool_destroy` -/
def mpMod : Mod where
  St := MemPool
  Op := Nat
  create := fun s => (some { segs := [] }, s)
  step := fun size mp s =>
    match mpAllocA mp size s with
    | (none, s1) => ((false, mp), s1)
    | (some r, s1) => ((true, r.1), s1)
  destroy := mpDestroyA
  owned := mpOwned
  ok := fun _ => True
  pre := fun _ _ => True
  atomic := fun _ => true

theorem mpLaws : Laws mpMod where
  create_none := by intro s s' h; simp [mpMod] at h
  create_some := by
    intro s s' st h
    simp only [mpMod] at h
    injection h with h1 h2
    injection h1 with h3
    subst h3; subst h2
    exact ⟨trivial, fun o ho => by simpa [mpMod, mpOwned] using ho⟩
  step_fail := by
    intro op st s st' s' _ h
    simp only [mpMod] at h
    split at h
    · next s1 e => cases h; exact ⟨rfl, fun o ho => ho.of_live_eq (mpAllocA_none e)⟩
    · cases h
  step_holds := by
    intro op st s r st' s' _ _ h
    simp only [mpMod] at h
    split at h
    · next s1 e => cases h; exact ⟨trivial, fun o ho => ho.of_live_eq (mpAllocA_none e)⟩
    · next rr s1 e => cases h; obtain ⟨mp', q⟩ := rr; exact ⟨trivial, mpAllocA_some e⟩
  destroy_holds := fun st s o _ h => mpDestroyA_holds h

/-- JSON context: builder calls and parses; `json_free_context` at the end.  A call in which an
    allocation failed reports `false` here; it is not listed as all-or-nothing for the *context*
    (the pool may have grown) — that the heap of values is untouched is `jsStepA_oom` -/
inductive JsOp where
  | build (op : Usual.C03.Op)
  | parse (sizes : List Nat) (v : JVal)

def jsStep (sz : JSizes) (cyc : Bool) (op : JsOp) (c : JCtx) (s : AS) : (Bool × JCtx) × AS :=
  match op with
  | .build b => ((!(jsStepA sz cyc c b s).1.2.2, (jsStepA sz cyc c b s).1.1), (jsStepA sz cyc c b s).2)
  | .parse sizes v =>
    ((!(jsParseA cyc sizes v c s).1.2.2, (jsParseA cyc sizes v c s).1.1), (jsParseA cyc sizes v c s).2)

def jsMod (sz : JSizes) (cyc : Bool) (initial : Nat) : Mod where
  St := JCtx
  Op := JsOp
  create := jsNewA sz initial
  step := jsStep sz cyc
  destroy := jsFreeA
  owned := fun c => poolOwned c.pool
  ok := fun c => c.pool.allowFree = true
  pre := fun _ _ => True
  atomic := fun _ => false

theorem jsLaws (sz : JSizes) (cyc : Bool) (initial : Nat) : Laws (jsMod sz cyc initial) where
  create_none := fun s s' h => jsNewA_none h
  create_some := fun s s' st h => ⟨(jsNewA_some h).2.1, (jsNewA_some h).2.2⟩
  step_fail := by intro op st s st' s' ha; simp [jsMod] at ha
  step_holds := by
    intro op st s r st' s' hv _ h
    cases op with
    | build b =>
      simp only [jsMod, jsStep] at h
      injection h with h1 hs
      injection h1 with hr ht
      subst ht; subst hs
      obtain ⟨g1, g2⟩ := jsStepA_holds (sz := sz) (cyc := cyc) (c := st) (op := b) (s := s)
        (c' := (jsStepA sz cyc st b s).1.1) (r := (jsStepA sz cyc st b s).1.2.1)
        (b := (jsStepA sz cyc st b s).1.2.2) (s' := (jsStepA sz cyc st b s).2) rfl
      exact ⟨g1.trans hv, g2⟩
    | parse sizes v =>
      simp only [jsMod, jsStep] at h
      injection h with h1 hs
      injection h1 with hr ht
      subst ht; subst hs
      obtain ⟨g1, g2⟩ := jsParseA_holds (cyc := cyc) (sizes := sizes) (v := v) (c := st) (s := s)
        (c' := (jsParseA cyc sizes v st s).1.1) (r := (jsParseA cyc sizes v st s).1.2.1)
        (b := (jsParseA cyc sizes v st s).1.2.2) (s' := (jsParseA cyc sizes v st s).2) rfl
      exact ⟨g1.trans hv, g2⟩
  destroy_holds := fun st s o hv h => jsFreeA_holds hv h

end Usual.C10
