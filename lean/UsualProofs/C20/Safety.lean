import UsualProofs.C20.InvStep
/-! C20 — step-level consequences of the invariant: a final status never changes again, the
    queue is only touched by the lock holder, a notification step happens once and after all
    results of its batch. -/
namespace UsualProofs.C20
open Usual.C20

macro "step_auto" : tactic => `(tactic|
  ((try simp only [publish, notifyB] at *) <;>
    grind [→ sExpect_owns, → wExpect_owns, sExpect, wExpect, SPc.owns, WPc.owns, SPc.holdsQ, WPc.holdsQ,
      Prog, St, upd_apply, upd2_apply, Cfg.fixed, Act.touchesQueue]))

/-- once an item is `done`, its status and stored result never change -/
theorem done_stable {ga : Nat → Int} {s s' : S} {t : Tid} {a : Act} (hi : Inv ga s)
    (hs : Step Cfg.fixed ga s t a s') (b j : Nat) (hd : s.status b j = .done) :
    s'.status b j = .done ∧ s'.result b j = s.result b j := by
  have h7 := hi.i_sub
  have h9 := hi.i_w
  cases hs
  case mark i b' k hpc hk =>
    have := h7 i b' k .inProg .notSub (by simp [hpc, sExpect])
    step_auto
  case wResolve i b' k hpc hk =>
    have := h7 i b' k .done .notSub (by simp [hpc, sExpect])
    step_auto
  case wkResolve b' k hpc hk =>
    have := h9 b' k .done .inProg (by simp [hpc, wExpect])
    step_auto
  all_goals exact ⟨hd, rfl⟩

/-- an item that is EAI_INPROGRESS stays so or becomes final -/
theorem inprog_next {ga : Nat → Int} {s s' : S} {t : Tid} {a : Act}
    (hs : Step Cfg.fixed ga s t a s') (b j : Nat) (hd : s.status b j = .inProg) :
    s'.status b j = .inProg ∨ s'.status b j = .done := by
  cases hs
  case mark i b' k hpc hk => step_auto
  case wResolve i b' k hpc hk => step_auto
  case wkResolve b' k hpc hk => step_auto
  all_goals exact Or.inl hd

/-- the queue is read or written only by the thread that holds ctx->lock -/
theorem queue_by_holder {ga : Nat → Int} {s s' : S} {t : Tid} {a : Act} (hi : Inv ga s)
    (hs : Step Cfg.fixed ga s t a s') (h : a.touchesQueue = true ∨ s'.queue ≠ s.queue) :
    s.qlock = some t := by
  have hq := hi.k_q_sub
  have hw := hi.k_q_w
  cases hs
  case append i b hpc => exact (hq i).2 (by simp [hpc, SPc.holdsQ])
  case wkPop b hpc hq' => exact hw.2 (by simp [hpc, WPc.holdsQ])
  case wkWait hpc hq' => exact hw.2 (by simp [hpc, WPc.holdsQ])
  all_goals (simp [Act.touchesQueue, publish, notifyB] at h)

/-- a step that changes the notification count of `b` is the single notification of `b`, and
    all results of `b` are already published -/
theorem notify_step {ga : Nat → Int} {s s' : S} {t : Tid} {a : Act} (hi : Inv ga s)
    (hs : Step Cfg.fixed ga s t a s') (b : Nat) (h : s'.notified b ≠ s.notified b) :
    s.notified b = 0 ∧ s'.notified b = 1 ∧ s'.notBy b = t ∧
      ∀ j, j < s.nOf b → s.status b j = .done ∧ s.resolved b j = 1 ∧ s.pubBy b j = t := by
  have h1 := hi.l_sub
  have h5 := hi.l_w
  have h7 := hi.i_sub
  have h9 := hi.i_w
  have h11 := hi.n_cnt
  have h13 := hi.r_cnt
  cases hs
  case wNotify i b' hpc =>
    have := h7 i b' 0 .done .done (by simp [hpc, sExpect])
    have := h1 i b' (by simp [hpc, SPc.owns])
    step_auto
  case wkNotify b' hpc =>
    have := h9 b' 0 .done .done (by simp [hpc, wExpect])
    have := (h5 b').1 (by simp [hpc, WPc.owns])
    step_auto
  all_goals (simp [publish] at h)

end UsualProofs.C20
