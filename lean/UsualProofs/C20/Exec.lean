import Usual.C20.Exec
/-! C20 — every step of the executable `stepFn` is a step of the relation `Step`; hence the
    final state of every accepted schedule is `Reach`able. -/
namespace UsualProofs.C20
open Usual.C20

theorem stepFn_sound {cfg : Cfg} {ga : Nat → Int} {s s' : S} {t : Tid} {a : Act}
    (h : stepFn cfg ga s t a = some s') : Step cfg ga s t a s' := by
  cases t with
  | worker =>
    cases a <;> simp only [stepFn] at h <;> try (cases h; done)
    case wkAcquire =>
      split at h
      · next hc => cases h; exact Step.wkAcquire s hc.1 hc.2
      · cases h
    case wkPop b =>
      split at h
      · next hc => cases h; exact Step.wkPop s b hc.1 hc.2
      · cases h
    case wkWait =>
      split at h
      · next hc => cases h; exact Step.wkWait s hc.1 hc.2
      · cases h
    case wkSpurious =>
      split at h
      · next hc => cases h; exact Step.wkSpurious s hc
      · cases h
    case wkReacquire =>
      split at h
      · next hc => cases h; exact Step.wkReacquire s hc.1 hc.2
      · cases h
    case wkRelease =>
      split at h
      · next b hc => cases h; exact Step.wkRelease s b hc
      · cases h
    case wkResolve =>
      split at h
      · next b k hc =>
        split at h
        · next hk => cases h; exact Step.wkResolve s b k hc hk
        · cases h
      · cases h
    case wkAll =>
      split at h
      · next b k hc =>
        split at h
        · next hk => cases h; exact Step.wkAll s b k hc hk
        · cases h
      · cases h
    case wkNotify =>
      split at h
      · next b hc => cases h; exact Step.wkNotify s b hc
      · cases h
    case wkFree =>
      split at h
      · next b hc => cases h; exact Step.wkFree s b hc
      · cases h
  | sub i =>
    cases a <;> simp only [stepFn] at h <;> try (cases h; done)
    case begin b n sev mode args =>
      split at h
      · next hc => cases h; exact Step.begin s i b n sev mode args hc.1 hc.2.1 hc.2.2
      · cases h
    case ctxAcquire =>
      split at h
      · next b hc =>
        split at h
        · next hl => cases h; exact Step.ctxAcquire s i b hc hl
        · cases h
      · cases h
    case ctxCheck =>
      split at h
      · next b hc => cases h; exact Step.ctxCheck s i b hc
      · cases h
    case ctxMake =>
      split at h
      · next b hc => cases h; exact Step.ctxMake s i b hc
      · cases h
    case ctxRelease =>
      split at h
      · next b hc => cases h; exact Step.ctxRelease s i b hc
      · cases h
    case alloc =>
      split at h
      · next b hc => cases h; exact Step.alloc s i b hc
      · cases h
    case mark =>
      split at h
      · next b k hc =>
        split at h
        · next hk => cases h; exact Step.mark s i b k hc hk
        · cases h
      · cases h
    case markDone =>
      split at h
      · next b k hc =>
        split at h
        · next hk => cases h; exact Step.markDone s i b k hc hk
        · cases h
      · cases h
    case qAcquire =>
      split at h
      · next b hc =>
        split at h
        · next hl => cases h; exact Step.qAcquire s i b hc hl
        · cases h
      · cases h
    case append =>
      split at h
      · next b hc => cases h; exact Step.append s i b hc
      · cases h
    case qRelease =>
      split at h
      · next hc => cases h; exact Step.qRelease s i hc
      · cases h
    case signal =>
      split at h
      · next hc => cases h; exact Step.signal s i hc
      · cases h
    case wResolve =>
      split at h
      · next b k hc =>
        split at h
        · next hk => cases h; exact Step.wResolve s i b k hc hk
        · cases h
      · cases h
    case wAll =>
      split at h
      · next b k hc =>
        split at h
        · next hk => cases h; exact Step.wAll s i b k hc hk
        · cases h
      · cases h
    case wNotify =>
      split at h
      · next b hc => cases h; exact Step.wNotify s i b hc
      · cases h

theorem run_reach {cfg : Cfg} {ga : Nat → Int} {s s' : S} {l : List (Tid × Act)}
    (hs : Reach cfg ga s) (h : run cfg ga s l = some s') : Reach cfg ga s' := by
  induction l generalizing s with
  | nil => simp [run] at h; subst h; exact hs
  | cons x rest ih =>
    obtain ⟨t, a⟩ := x
    simp only [run] at h
    split at h
    · next s1 h1 => exact ih (Reach.step s s1 t a hs (stepFn_sound h1)) h
    · cases h

/-- decidable form: a schedule that `run` accepts from `init` ends in a reachable state -/
theorem run_reach' {cfg : Cfg} {ga : Nat → Int} {l : List (Tid × Act)}
    (h : (run cfg ga init l).isSome = true) : Reach cfg ga ((run cfg ga init l).getD init) := by
  cases hr : run cfg ga init l with
  | none => simp [hr] at h
  | some s' => exact run_reach Reach.init hr

theorem stepFn_sound' {cfg : Cfg} {ga : Nat → Int} {s : S} {t : Tid} {a : Act}
    (h : (stepFn cfg ga s t a).isSome = true) : Step cfg ga s t a ((stepFn cfg ga s t a).getD init) := by
  cases hr : stepFn cfg ga s t a with
  | none => simp [hr] at h
  | some s' => exact stepFn_sound hr

end UsualProofs.C20
