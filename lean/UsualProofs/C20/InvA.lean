import UsualProofs.C20.Inv
/-! C20 — preservation of the invariant, one lemma per action (begin ctxAcquire ctxCheck ctxMake ctxRelease alloc mark markDone). -/
namespace UsualProofs.C20
open Usual.C20

theorem inv_begin {ga : Nat → Int} {s s' : S} {t : Tid} {b n : Nat} {sev : Sev} {mode : Mode} {args : Nat → Nat} (hi : Inv ga s)
    (hs : Step Cfg.fixed ga s t (.begin b n sev mode args) s') : Inv ga s' := by
  have hi0 := hi
  obtain ⟨h1,h2,h3,h4,h5,h6,h7,h8,h9,h10,h11,h12,h13,h14,h15,h16,h17,h18,h19,h20,h21,h22,h23,h24,h25,h26,h27⟩ := hi
  cases hs with
  | begin i _ _ _ _ _ hpc hb hn =>
  constructor
  case i_w =>
    intro b' k lo hi he
    have hne : b' ≠ b := by
      have := (h5 b').1 (wExpect_owns he); intro e; subst e; simp [hb] at this
    exact Prog_frame (s := s) (by simp [hne]) (fun _ => rfl) (fun _ => rfl) (h9 _ _ _ _ he)
  case i_sub =>
    intro i' b' k lo hi he
    by_cases hii : i' = i
    · subst hii
      cases mode <;> simp [sExpect] at he <;> obtain ⟨rfl, rfl, rfl, rfl⟩ := he <;>
        simp [Prog, St, h6 _ hb]
    · simp only [upd_apply, if_neg hii] at he
      have hne : b' ≠ b := by
        have := h1 _ _ (sExpect_owns he); intro e; subst e; simp [hb] at this
      exact Prog_frame (s := s) (by simp [hne]) (fun _ => rfl) (fun _ => rfl) (h7 _ _ _ _ _ he)
  all_goals (cases mode <;> inv_auto)

theorem inv_ctxAcquire {ga : Nat → Int} {s s' : S} {t : Tid} (hi : Inv ga s)
    (hs : Step Cfg.fixed ga s t .ctxAcquire s') : Inv ga s' := by
  obtain ⟨h1,h2,h3,h4,h5,h6,h7,h8,h9,h10,h11,h12,h13,h14,h15,h16,h17,h18,h19,h20,h21,h22,h23,h24,h25,h26,h27⟩ := hi
  cases hs
  constructor <;> inv_auto

theorem inv_ctxCheck {ga : Nat → Int} {s s' : S} {t : Tid} (hi : Inv ga s)
    (hs : Step Cfg.fixed ga s t .ctxCheck s') : Inv ga s' := by
  obtain ⟨h1,h2,h3,h4,h5,h6,h7,h8,h9,h10,h11,h12,h13,h14,h15,h16,h17,h18,h19,h20,h21,h22,h23,h24,h25,h26,h27⟩ := hi
  cases hs
  constructor <;> inv_auto

theorem inv_ctxMake {ga : Nat → Int} {s s' : S} {t : Tid} (hi : Inv ga s)
    (hs : Step Cfg.fixed ga s t .ctxMake s') : Inv ga s' := by
  obtain ⟨h1,h2,h3,h4,h5,h6,h7,h8,h9,h10,h11,h12,h13,h14,h15,h16,h17,h18,h19,h20,h21,h22,h23,h24,h25,h26,h27⟩ := hi
  cases hs
  constructor <;> inv_auto

theorem inv_ctxRelease {ga : Nat → Int} {s s' : S} {t : Tid} (hi : Inv ga s)
    (hs : Step Cfg.fixed ga s t .ctxRelease s') : Inv ga s' := by
  obtain ⟨h1,h2,h3,h4,h5,h6,h7,h8,h9,h10,h11,h12,h13,h14,h15,h16,h17,h18,h19,h20,h21,h22,h23,h24,h25,h26,h27⟩ := hi
  cases hs
  constructor <;> inv_auto

theorem inv_alloc {ga : Nat → Int} {s s' : S} {t : Tid} (hi : Inv ga s)
    (hs : Step Cfg.fixed ga s t .alloc s') : Inv ga s' := by
  obtain ⟨h1,h2,h3,h4,h5,h6,h7,h8,h9,h10,h11,h12,h13,h14,h15,h16,h17,h18,h19,h20,h21,h22,h23,h24,h25,h26,h27⟩ := hi
  cases hs
  constructor <;> inv_auto

theorem inv_mark {ga : Nat → Int} {s s' : S} {t : Tid} (hi : Inv ga s)
    (hs : Step Cfg.fixed ga s t .mark s') : Inv ga s' := by
  obtain ⟨h1,h2,h3,h4,h5,h6,h7,h8,h9,h10,h11,h12,h13,h14,h15,h16,h17,h18,h19,h20,h21,h22,h23,h24,h25,h26,h27⟩ := hi
  cases hs with
  | mark i b k hpc hk =>
  have hlb : s.loc b = .sub i := h1 i b (by simp [hpc, SPc.owns])
  constructor
  case i_w =>
    intro b' k' lo hi he
    have hne : b' ≠ b := by
      have := (h5 b').1 (wExpect_owns he); intro e; subst e; simp [hlb] at this
    exact Prog_frame (s := s) rfl (fun j => by simp [Cfg.fixed, hne]) (fun _ => rfl) (h9 _ _ _ _ he)
  case i_sub =>
    intro i' b' k' lo hi he
    by_cases hii : i' = i
    · subst hii
      simp [sExpect] at he; obtain ⟨rfl, rfl, rfl, rfl⟩ := he
      exact Prog_advance (s := s) hk rfl (fun j => by simp [Cfg.fixed]) (fun _ _ => rfl) (by simp)
        (h7 _ _ _ _ _ (by simp [hpc, sExpect]))
    · simp only [upd_apply, if_neg hii] at he
      have hne : b' ≠ b := by
        have := h1 _ _ (sExpect_owns he); intro e; subst e; simp [hlb] at this; exact hii this.symm
      exact Prog_frame (s := s) rfl (fun j => by simp [Cfg.fixed, hne]) (fun _ => rfl) (h7 _ _ _ _ _ he)
  all_goals inv_auto

theorem inv_markDone {ga : Nat → Int} {s s' : S} {t : Tid} (hi : Inv ga s)
    (hs : Step Cfg.fixed ga s t .markDone s') : Inv ga s' := by
  obtain ⟨h1,h2,h3,h4,h5,h6,h7,h8,h9,h10,h11,h12,h13,h14,h15,h16,h17,h18,h19,h20,h21,h22,h23,h24,h25,h26,h27⟩ := hi
  cases hs
  constructor <;> inv_auto

end UsualProofs.C20
