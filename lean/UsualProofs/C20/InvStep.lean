import UsualProofs.C20.InvA
import UsualProofs.C20.InvB
import UsualProofs.C20.InvC
import UsualProofs.C20.InvD
/-! C20 — the invariant holds in every reachable state of the repaired protocol. -/
namespace UsualProofs.C20
open Usual.C20

theorem inv_step {ga : Nat → Int} {s s' : S} {t : Tid} {a : Act} (hi : Inv ga s)
    (hs : Step Cfg.fixed ga s t a s') : Inv ga s' := by
  cases a with
  | begin b n sev mode args => exact inv_begin hi hs
  | ctxAcquire => exact inv_ctxAcquire hi hs
  | ctxCheck => exact inv_ctxCheck hi hs
  | ctxMake => exact inv_ctxMake hi hs
  | ctxRelease => exact inv_ctxRelease hi hs
  | alloc => exact inv_alloc hi hs
  | mark => exact inv_mark hi hs
  | markDone => exact inv_markDone hi hs
  | qAcquire => exact inv_qAcquire hi hs
  | append => exact inv_append hi hs
  | qRelease => exact inv_qRelease hi hs
  | signal => exact inv_signal hi hs
  | wResolve => exact inv_wResolve hi hs
  | wAll => exact inv_wAll hi hs
  | wNotify => exact inv_wNotify hi hs
  | wkAcquire => exact inv_wkAcquire hi hs
  | wkPop b => exact inv_wkPop hi hs
  | wkWait => exact inv_wkWait hi hs
  | wkSpurious => exact inv_wkSpurious hi hs
  | wkReacquire => exact inv_wkReacquire hi hs
  | wkRelease => exact inv_wkRelease hi hs
  | wkResolve => exact inv_wkResolve hi hs
  | wkAll => exact inv_wkAll hi hs
  | wkNotify => exact inv_wkNotify hi hs
  | wkFree => exact inv_wkFree hi hs

theorem reach_inv {ga : Nat → Int} {s : S} (h : Reach Cfg.fixed ga s) : Inv ga s := by
  induction h with
  | init => exact inv_init ga
  | step s s' t a _ hs ih => exact inv_step ih hs

end UsualProofs.C20
