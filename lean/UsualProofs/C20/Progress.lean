import UsualProofs.C20.InvStep
/-! C20 — progress: a reachable state with pending work has an enabled action that is neither a
    new submission nor a spurious wake-up. -/
namespace UsualProofs.C20
open Usual.C20

def Enabled (ga : Nat → Int) (s : S) : Prop :=
  ∃ t a s', a.isEnv = false ∧ Step Cfg.fixed ga s t a s'

/-- whoever holds the queue lock can take a step -/
theorem qholder_enabled {ga : Nat → Int} {s : S} (hi : Inv ga s) {t : Tid} (h : s.qlock = some t) :
    Enabled ga s := by
  cases t with
  | worker =>
    have hq := hi.k_q_w.1 h
    cases hw : s.wpc <;> simp [hw, WPc.holdsQ] at hq
    · cases hqq : s.queue with
      | nil => exact ⟨_, _, _, rfl, Step.wkWait s hw hqq⟩
      | cons b q => exact ⟨_, _, _, rfl, Step.wkPop s b hw (by simp [hqq])⟩
    · next b => exact ⟨_, _, _, rfl, Step.wkRelease s b hw⟩
  | sub i =>
    have hq := (hi.k_q_sub i).1 h
    cases hp : s.spc i <;> simp [hp, SPc.holdsQ] at hq
    · next b => exact ⟨_, _, _, rfl, Step.append s i b hp⟩
    · exact ⟨_, _, _, rfl, Step.qRelease s i hp⟩

/-- whoever holds ctx_lock can take a step -/
theorem iholder_enabled {ga : Nat → Int} {s : S} (hi : Inv ga s) {t : Tid} (h : s.ilock = some t) :
    Enabled ga s := by
  cases t with
  | worker => exact absurd h hi.k_i_w
  | sub i =>
    have hq := (hi.k_i_sub i).1 h
    cases hp : s.spc i <;> simp [hp, SPc.holdsI] at hq
    · next b => exact ⟨_, _, _, rfl, Step.ctxCheck s i b hp⟩
    · next b => exact ⟨_, _, _, rfl, Step.ctxMake s i b hp⟩
    · next b => exact ⟨_, _, _, rfl, Step.ctxRelease s i b hp⟩

theorem sub_enabled {ga : Nat → Int} {s : S} (hi : Inv ga s) (i : Nat) (h : s.spc i ≠ .idle) :
    Enabled ga s := by
  cases hp : s.spc i with
  | idle => exact absurd hp h
  | ctxLock b =>
    cases hl : s.ilock with
    | none => exact ⟨_, _, _, rfl, Step.ctxAcquire s i b hp (fun _ => hl)⟩
    | some t => exact iholder_enabled hi hl
  | ctxHeld b => exact ⟨_, _, _, rfl, Step.ctxCheck s i b hp⟩
  | ctxMake b => exact ⟨_, _, _, rfl, Step.ctxMake s i b hp⟩
  | ctxRel b => exact ⟨_, _, _, rfl, Step.ctxRelease s i b hp⟩
  | alloc b => exact ⟨_, _, _, rfl, Step.alloc s i b hp⟩
  | mark b k =>
    have hk := (hi.i_sub i b k .inProg .notSub (by simp [hp, sExpect])).1
    by_cases e : k = s.nOf b
    · exact ⟨_, _, _, rfl, Step.markDone s i b k hp e⟩
    · exact ⟨_, _, _, rfl, Step.mark s i b k hp (by omega)⟩
  | lockQ b =>
    cases hl : s.qlock with
    | none => exact ⟨_, _, _, rfl, Step.qAcquire s i b hp hl⟩
    | some t => exact qholder_enabled hi hl
  | append b => exact ⟨_, _, _, rfl, Step.append s i b hp⟩
  | unlock => exact ⟨_, _, _, rfl, Step.qRelease s i hp⟩
  | signal => exact ⟨_, _, _, rfl, Step.signal s i hp⟩
  | wResolve b k =>
    have hk := (hi.i_sub i b k .done .notSub (by simp [hp, sExpect])).1
    by_cases e : k = s.nOf b
    · exact ⟨_, _, _, rfl, Step.wAll s i b k hp e⟩
    · exact ⟨_, _, _, rfl, Step.wResolve s i b k hp (by omega)⟩
  | wNotify b => exact ⟨_, _, _, rfl, Step.wNotify s i b hp⟩

theorem worker_enabled {ga : Nat → Int} {s : S} (hi : Inv ga s)
    (h : s.queue ≠ [] ∨ s.wpc.owns ≠ none) : Enabled ga s := by
  cases hw : s.wpc with
  | notStarted =>
    rcases h with h | h
    · have := hi.c_q h
      have := hi.c_w.2 hw
      simp_all
    · simp [hw, WPc.owns] at h
  | lockQ =>
    cases hl : s.qlock with
    | none => exact ⟨_, _, _, rfl, Step.wkAcquire s hw hl⟩
    | some t => exact qholder_enabled hi hl
  | top =>
    cases hqq : s.queue with
    | nil => exact ⟨_, _, _, rfl, Step.wkWait s hw hqq⟩
    | cons b q => exact ⟨_, _, _, rfl, Step.wkPop s b hw (by simp [hqq])⟩
  | waiting =>
    rcases h with h | h
    · rcases hi.w_wake hw with h0 | h1 | h2
      · exact absurd h0 h
      · exact ⟨_, _, _, rfl, Step.qRelease s _ h1⟩
      · exact ⟨_, _, _, rfl, Step.signal s _ h2⟩
    · simp [hw, WPc.owns] at h
  | woken =>
    cases hl : s.qlock with
    | none => exact ⟨_, _, _, rfl, Step.wkReacquire s hw hl⟩
    | some t => exact qholder_enabled hi hl
  | popped b => exact ⟨_, _, _, rfl, Step.wkRelease s b hw⟩
  | resolve b k =>
    have hk := (hi.i_w b k .done .inProg (by simp [hw, wExpect])).1
    by_cases e : k = s.nOf b
    · exact ⟨_, _, _, rfl, Step.wkAll s b k hw e⟩
    · exact ⟨_, _, _, rfl, Step.wkResolve s b k hw (by omega)⟩
  | notify b => exact ⟨_, _, _, rfl, Step.wkNotify s b hw⟩
  | free b => exact ⟨_, _, _, rfl, Step.wkFree s b hw⟩

theorem pending_enabled {ga : Nat → Int} {s : S} (hi : Inv ga s) (h : Pending s) : Enabled ga s := by
  rcases h with ⟨i, h⟩ | h | h
  · exact sub_enabled hi i h
  · exact worker_enabled hi (Or.inl h)
  · exact worker_enabled hi (Or.inr h)

/-- when nothing is pending every submitted batch has finished -/
theorem quiescent_finished {ga : Nat → Int} {s : S} (hi : Inv ga s) (h : ¬ Pending s) (b : Nat)
    (hb : s.loc b ≠ .unused) : s.loc b = .finished := by
  simp only [Pending, not_or, not_exists, Decidable.not_not] at h
  obtain ⟨h1, h2, h3⟩ := h
  cases hl : s.loc b with
  | unused => exact absurd hl hb
  | sub i => have := hi.l_sub' i b hl; simp [h1 i, SPc.owns] at this
  | queued => have := (hi.l_q b).2 hl; simp [h2] at this
  | worker => have := (hi.l_w b).2 hl; simp [h3] at this
  | finished => rfl

end UsualProofs.C20
