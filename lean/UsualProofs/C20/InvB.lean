import UsualProofs.C20.Inv
/-! C20 — preservation of the invariant, one lemma per action (qAcquire append qRelease signal wResolve wAll wNotify). -/
namespace UsualProofs.C20
open Usual.C20

theorem inv_qAcquire {ga : Nat → Int} {s s' : S} {t : Tid} (hi : Inv ga s)
    (hs : Step Cfg.fixed ga s t .qAcquire s') : Inv ga s' := by
  obtain ⟨h1,h2,h3,h4,h5,h6,h7,h8,h9,h10,h11,h12,h13,h14,h15,h16,h17,h18,h19,h20,h21,h22,h23,h24,h25,h26,h27⟩ := hi
  cases hs
  constructor <;> inv_auto

theorem inv_append {ga : Nat → Int} {s s' : S} {t : Tid} (hi : Inv ga s)
    (hs : Step Cfg.fixed ga s t .append s') : Inv ga s' := by
  obtain ⟨h1,h2,h3,h4,h5,h6,h7,h8,h9,h10,h11,h12,h13,h14,h15,h16,h17,h18,h19,h20,h21,h22,h23,h24,h25,h26,h27⟩ := hi
  cases hs
  constructor <;> inv_auto

theorem inv_qRelease {ga : Nat → Int} {s s' : S} {t : Tid} (hi : Inv ga s)
    (hs : Step Cfg.fixed ga s t .qRelease s') : Inv ga s' := by
  obtain ⟨h1,h2,h3,h4,h5,h6,h7,h8,h9,h10,h11,h12,h13,h14,h15,h16,h17,h18,h19,h20,h21,h22,h23,h24,h25,h26,h27⟩ := hi
  cases hs
  constructor <;> inv_auto

theorem inv_signal {ga : Nat → Int} {s s' : S} {t : Tid} (hi : Inv ga s)
    (hs : Step Cfg.fixed ga s t .signal s') : Inv ga s' := by
  obtain ⟨h1,h2,h3,h4,h5,h6,h7,h8,h9,h10,h11,h12,h13,h14,h15,h16,h17,h18,h19,h20,h21,h22,h23,h24,h25,h26,h27⟩ := hi
  cases hs
  constructor <;> inv_auto

theorem inv_wResolve {ga : Nat → Int} {s s' : S} {t : Tid} (hi : Inv ga s)
    (hs : Step Cfg.fixed ga s t .wResolve s') : Inv ga s' := by
  obtain ⟨h1,h2,h3,h4,h5,h6,h7,h8,h9,h10,h11,h12,h13,h14,h15,h16,h17,h18,h19,h20,h21,h22,h23,h24,h25,h26,h27⟩ := hi
  cases hs with
  | wResolve i b k hpc hk =>
  have hlb : s.loc b = .sub i := h1 i b (by simp [hpc, SPc.owns])
  constructor
  case i_w =>
    intro b' k' lo hi he
    have hne : b' ≠ b := by
      have := (h5 b').1 (wExpect_owns he); intro e; subst e; simp [hlb] at this
    exact Prog_frame (s := s) rfl (fun j => by simp [publish, hne]) (fun j => by simp [publish, hne]) (h9 _ _ _ _ he)
  case i_sub =>
    intro i' b' k' lo hi he
    by_cases hii : i' = i
    · subst hii
      simp [sExpect] at he; obtain ⟨rfl, rfl, rfl, rfl⟩ := he
      exact Prog_advance (s := s) hk rfl (fun j => by simp [publish]) (fun j hj => by simp [publish, hj])
        (by simp [publish]) (h7 _ _ _ _ _ (by simp [hpc, sExpect]))
    · simp only [upd_apply, if_neg hii] at he
      have hne : b' ≠ b := by
        have := h1 _ _ (sExpect_owns he); intro e; subst e; simp [hlb] at this; exact hii this.symm
      exact Prog_frame (s := s) rfl (fun j => by simp [publish, hne]) (fun j => by simp [publish, hne]) (h7 _ _ _ _ _ he)
  all_goals inv_auto

theorem inv_wAll {ga : Nat → Int} {s s' : S} {t : Tid} (hi : Inv ga s)
    (hs : Step Cfg.fixed ga s t .wAll s') : Inv ga s' := by
  obtain ⟨h1,h2,h3,h4,h5,h6,h7,h8,h9,h10,h11,h12,h13,h14,h15,h16,h17,h18,h19,h20,h21,h22,h23,h24,h25,h26,h27⟩ := hi
  cases hs with
  | wAll i b k hpc hk =>
  constructor
  case i_sub =>
    intro i' b' k' lo hi he
    by_cases hii : i' = i
    · subst hii
      simp [sExpect] at he; obtain ⟨rfl, rfl, rfl, rfl⟩ := he
      have := h7 i' b k .done .notSub (by simp [hpc, sExpect])
      subst hk
      unfold Prog at *
      refine ⟨by omega, fun j hj => ⟨fun h => by omega, fun _ => (this.2 j hj).1 hj⟩⟩
    · simp only [upd_apply, if_neg hii] at he
      exact Prog_frame (s := s) rfl (fun _ => rfl) (fun _ => rfl) (h7 _ _ _ _ _ he)
  all_goals inv_auto

theorem inv_wNotify {ga : Nat → Int} {s s' : S} {t : Tid} (hi : Inv ga s)
    (hs : Step Cfg.fixed ga s t .wNotify s') : Inv ga s' := by
  obtain ⟨h1,h2,h3,h4,h5,h6,h7,h8,h9,h10,h11,h12,h13,h14,h15,h16,h17,h18,h19,h20,h21,h22,h23,h24,h25,h26,h27⟩ := hi
  cases hs
  constructor <;> inv_auto

end UsualProofs.C20
