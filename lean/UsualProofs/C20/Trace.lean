import Usual.C20.Trace
import UsualProofs.C20.Exec
/-! C20 — the trace validator only ever inspects reachable model states. -/
namespace UsualProofs.C20
open Usual.C20

/-- the state of a `Walk` (the only way the validator `feed` advances the model) is reachable -/
theorem Walk.reach {ga : Nat → Int} (w : Walk ga) : Reach Cfg.fixed ga w.s :=
  run_reach Reach.init w.ok

/-- a step of a walk is a step of the relation -/
theorem Walk.step_sound {ga : Nat → Int} (w w' : Walk ga) (t : Tid) (a : Act)
    (h : w.step t a = some w') : Step Cfg.fixed ga w.s t a w'.s := by
  unfold Walk.step at h
  split at h
  · next s' hs => cases h; exact stepFn_sound hs
  · cases h

end UsualProofs.C20
