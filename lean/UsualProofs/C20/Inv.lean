import Usual.C20.Gaia
/-! C20 — the inductive invariant of the repaired protocol (`Cfg.fixed`). -/
namespace UsualProofs.C20
open Usual.C20

/-- status `x`, and if final then published by `who` -/
def St (s : S) (who : Tid) (b j : Nat) (x : ISt) : Prop :=
  s.status b j = x ∧ (x = .done → s.pubBy b j = who)

/-- items below `k` are in state `lo`, the others in state `hi` -/
def Prog (s : S) (who : Tid) (b k : Nat) (lo hi : ISt) : Prop :=
  k ≤ s.nOf b ∧ ∀ j, j < s.nOf b → (j < k → St s who b j lo) ∧ (k ≤ j → St s who b j hi)

def sExpect : SPc → Option (Nat × Nat × ISt × ISt)
  | .ctxLock b | .ctxHeld b | .ctxMake b | .ctxRel b | .alloc b => some (b, 0, .notSub, .notSub)
  | .mark b k => some (b, k, .inProg, .notSub)
  | .lockQ b | .append b => some (b, 0, .inProg, .inProg)
  | .wResolve b k => some (b, k, .done, .notSub)
  | .wNotify b => some (b, 0, .done, .done)
  | .idle | .unlock | .signal => none

def wExpect : WPc → Option (Nat × Nat × ISt × ISt)
  | .popped b => some (b, 0, .inProg, .inProg)
  | .resolve b k => some (b, k, .done, .inProg)
  | .notify b | .free b => some (b, 0, .done, .done)
  | _ => none

def pastCtx : SPc → Bool
  | .ctxRel _ | .alloc _ | .mark _ _ | .lockQ _ | .append _ | .unlock | .signal => true
  | _ => false

def postAlloc : SPc → Option Nat
  | .mark b _ | .lockQ b | .append b => some b
  | _ => none

structure Inv (ga : Nat → Int) (s : S) : Prop where
  l_sub : ∀ i b, (s.spc i).owns = some b → s.loc b = .sub i
  l_sub' : ∀ i b, s.loc b = .sub i → (s.spc i).owns = some b
  l_q : ∀ b, b ∈ s.queue ↔ s.loc b = .queued
  l_qnd : s.queue.Nodup
  l_w : ∀ b, s.wpc.owns = some b ↔ s.loc b = .worker
  i_unused : ∀ b, s.loc b = .unused → ∀ k, s.status b k = .notSub
  i_sub : ∀ i b k lo hi, sExpect (s.spc i) = some (b, k, lo, hi) → Prog s (.sub i) b k lo hi
  i_q : ∀ b, s.loc b = .queued → Prog s .worker b 0 .inProg .inProg
  i_w : ∀ b k lo hi, wExpect s.wpc = some (b, k, lo, hi) → Prog s .worker b k lo hi
  i_fin : ∀ b, s.loc b = .finished → ∀ j, j < s.nOf b →
            s.status b j = .done ∧ s.pubBy b j = s.notBy b ∧ s.pubAt b j < s.notAt b
  n_cnt : ∀ b, s.notified b = if s.loc b = .finished ∨ s.wpc = .free b then 1 else 0
  n_free : ∀ b, s.wpc = .free b → s.notBy b = .worker ∧ ∀ j, j < s.nOf b → s.pubAt b j < s.notAt b
  r_cnt : ∀ b j, s.resolved b j = if s.status b j = .done then 1 else 0
  r_res : ∀ b j, s.status b j = .done → s.result b j = some (ga (s.argOf b j)) ∧ s.pubAt b j < s.now
  k_q_sub : ∀ i, s.qlock = some (.sub i) ↔ (s.spc i).holdsQ = true
  k_q_w : s.qlock = some .worker ↔ s.wpc.holdsQ = true
  k_i_sub : ∀ i, s.ilock = some (.sub i) ↔ (s.spc i).holdsI = true
  k_i_w : s.ilock ≠ some .worker
  c_n : s.nctx = if s.ctx then 1 else 0
  c_w : s.ctx = false ↔ s.wpc = .notStarted
  c_make : ∀ i b, s.spc i = .ctxMake b → s.ctx = false
  c_after : ∀ i, pastCtx (s.spc i) = true → s.ctx = true
  c_q : s.queue ≠ [] → s.ctx = true
  w_wake : s.wpc = .waiting → s.queue = [] ∨ s.spc s.lastApp = .unlock ∨ s.spc s.lastApp = .signal
  cp_sub : ∀ i b, postAlloc (s.spc i) = some b → s.copiedOf b = s.nOf b
  cp_q : ∀ b, s.loc b = .queued ∨ s.loc b = .worker → s.copiedOf b = s.nOf b
  bad : s.badRead = false

theorem inv_init (ga : Nat → Int) : Inv ga init := by
  constructor <;> simp [init, SPc.owns, WPc.owns, sExpect, wExpect, SPc.holdsQ, WPc.holdsQ, SPc.holdsI,
    pastCtx, postAlloc]

theorem sExpect_owns {p : SPc} {b k : Nat} {lo hi : ISt} (h : sExpect p = some (b, k, lo, hi)) :
    p.owns = some b := by
  cases p <;> simp_all [sExpect, SPc.owns]

theorem wExpect_owns {p : WPc} {b k : Nat} {lo hi : ISt} (h : wExpect p = some (b, k, lo, hi)) :
    p.owns = some b := by
  cases p <;> simp_all [wExpect, WPc.owns]

theorem postAlloc_owns {p : SPc} {b : Nat} (h : postAlloc p = some b) : p.owns = some b := by
  cases p <;> simp_all [postAlloc, SPc.owns]

/-- `Prog` of batch `b'` only depends on `nOf`, `status`, `pubBy` of that batch -/
theorem Prog_frame {s s' : S} {who : Tid} {b' k : Nat} {lo hi : ISt}
    (hn : s'.nOf b' = s.nOf b') (hs : ∀ j, s'.status b' j = s.status b' j)
    (hp : ∀ j, s'.pubBy b' j = s.pubBy b' j) (h : Prog s who b' k lo hi) : Prog s' who b' k lo hi := by
  unfold Prog St at *
  simp only [hn, hs, hp]
  exact h

theorem Prog_advance {s s' : S} {who : Tid} {b k : Nat} {lo hi : ISt} (hk : k < s.nOf b)
    (hn : s'.nOf b = s.nOf b)
    (hs : ∀ j, s'.status b j = if j = k then lo else s.status b j)
    (hp : ∀ j, j ≠ k → s'.pubBy b j = s.pubBy b j) (hpk : lo = .done → s'.pubBy b k = who)
    (h : Prog s who b k lo hi) : Prog s' who b (k + 1) lo hi := by
  unfold Prog St at *
  obtain ⟨h0, h⟩ := h
  refine ⟨by omega, fun j hj => ?_⟩
  rw [hn] at hj
  have hj' := h j hj
  by_cases e : j = k
  · subst e
    refine ⟨fun _ => ⟨by simp [hs], hpk⟩, fun h2 => by omega⟩
  · rw [hs, if_neg e, hp j e]
    exact ⟨fun h1 => hj'.1 (by omega), fun h2 => hj'.2 (by omega)⟩

macro "inv_auto" : tactic => `(tactic|
  ((try simp only [publish, notifyB]) <;> first
    | assumption
    | grind [→ sExpect_owns, → wExpect_owns, → postAlloc_owns, SPc.owns, WPc.owns, sExpect, wExpect, SPc.holdsQ, WPc.holdsQ, SPc.holdsI, pastCtx,
        postAlloc, Prog, St, upd_apply, upd2_apply, publish, notifyB, Cfg.fixed, Cfg.copyLen]))

end UsualProofs.C20
