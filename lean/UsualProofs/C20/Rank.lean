import UsualProofs.C20.Progress
/-! C20 — a variant (ranking) function: every step that is not an environment action (a new call
    of getaddrinfo_a, a spurious wake-up) strictly decreases `rank`, whoever takes it.  Hence every
    execution without environment steps is finite, with an explicit bound, and — with
    `pending_enabled` — ends in a quiescent state. -/
namespace UsualProofs.C20
open Usual.C20

def sumTo : Nat → (Nat → Nat) → Nat
  | 0, _ => 0
  | n + 1, g => sumTo n g + g n

theorem sumTo_congr {N : Nat} {g g' : Nat → Nat} (h : ∀ j, j < N → g' j = g j) :
    sumTo N g' = sumTo N g := by
  induction N with
  | zero => rfl
  | succ n ih =>
    simp only [sumTo]
    rw [ih (fun j hj => h j (by omega)), h n (by omega)]

theorem sumTo_update {N i : Nat} (hi : i < N) {g g' : Nat → Nat} (h : ∀ j, j ≠ i → g' j = g j) :
    sumTo N g' + g i = sumTo N g + g' i := by
  induction N with
  | zero => omega
  | succ n ih =>
    simp only [sumTo]
    by_cases e : i = n
    · subst e
      rw [sumTo_congr (g := g) (g' := g') (fun j hj => h j (by omega))]
      omega
    · have := ih (by omega)
      rw [h n (fun e' => e e'.symm)]
      omega

/-- remaining steps of a submitter's call (its queued request's service included) -/
def sr (nOf : Nat → Nat) : SPc → Nat
  | .idle => 0
  | .signal => 3
  | .unlock => 4
  | .append b => nOf b + 12
  | .lockQ b => nOf b + 13
  | .mark b k => nOf b + 14 + (nOf b - k)
  | .alloc b => 2 * nOf b + 15
  | .ctxRel b => 2 * nOf b + 16
  | .ctxMake b => 2 * nOf b + 19
  | .ctxHeld b => 2 * nOf b + 20
  | .ctxLock b => 2 * nOf b + 21
  | .wNotify _ => 1
  | .wResolve b k => 2 + (nOf b - k)

/-- remaining steps of the resolver until it waits again -/
def wr (nOf : Nat → Nat) : WPc → Nat
  | .notStarted => 0
  | .waiting => 0
  | .top => 1
  | .lockQ => 2
  | .woken => 2
  | .popped b => nOf b + 6
  | .resolve b k => (nOf b - k) + 5
  | .notify _ => 4
  | .free _ => 3

def qsum (nOf : Nat → Nat) : List Nat → Nat
  | [] => 0
  | b :: q => nOf b + 7 + qsum nOf q

theorem qsum_append (nOf : Nat → Nat) (q : List Nat) (b : Nat) : qsum nOf (q ++ [b]) = qsum nOf q + (nOf b + 7) := by
  induction q with
  | nil => simp [qsum]
  | cons x q ih => simp only [List.cons_append, qsum, ih]; omega

theorem qsum_erase (nOf : Nat → Nat) (q : List Nat) (b : Nat) (h : b ∈ q) :
    qsum nOf (q.erase b) + (nOf b + 7) = qsum nOf q := by
  induction q with
  | nil => simp at h
  | cons x q ih =>
    by_cases e : x = b
    · subst e; simp [qsum]; omega
    · have hb : b ∈ q := by simpa [Ne.symm e] using h
      rw [List.erase_cons_tail (by simpa using e)]
      simp only [qsum]
      have := ih hb
      omega

/-- the variant, for a system whose submitters are the threads `< N` -/
def rank (N : Nat) (s : S) : Nat :=
  sumTo N (fun i => sr s.nOf (s.spc i)) + wr s.nOf s.wpc + qsum s.nOf s.queue

/-- a submitter step: only `spc i` changes in the sum -/
theorem rank_sub {N i : Nat} (hi : i < N) (s s' : S) (pc' : SPc) (hspc : s'.spc = upd s.spc i pc')
    (hn : s'.nOf = s.nOf) :
    rank N s' + sr s.nOf (s.spc i) =
      sumTo N (fun j => sr s.nOf (s.spc j)) + sr s.nOf pc' + wr s.nOf s'.wpc + qsum s.nOf s'.queue := by
  unfold rank
  rw [hn, hspc]
  have := sumTo_update (N := N) hi (g := fun j => sr s.nOf (s.spc j))
    (g' := fun j => sr s.nOf (upd s.spc i pc' j)) (fun j hj => by simp [hj])
  simp only [upd_apply, if_pos] at this
  simp only [upd_apply] at *
  omega

theorem rank_sub_lt {N i : Nat} (hi : i < N) (s s' : S) (pc' : SPc) (hspc : s'.spc = upd s.spc i pc')
    (hn : s'.nOf = s.nOf)
    (h : sr s.nOf pc' + wr s.nOf s'.wpc + qsum s.nOf s'.queue <
         sr s.nOf (s.spc i) + wr s.nOf s.wpc + qsum s.nOf s.queue) : rank N s' < rank N s := by
  have := rank_sub hi s s' pc' hspc hn
  unfold rank at this ⊢
  omega

theorem rank_w_lt {N : Nat} (s s' : S) (hspc : s'.spc = s.spc) (hn : s'.nOf = s.nOf)
    (h : wr s.nOf s'.wpc + qsum s.nOf s'.queue < wr s.nOf s.wpc + qsum s.nOf s.queue) :
    rank N s' < rank N s := by
  unfold rank
  rw [hn, hspc]
  omega

/-- every non-environment step strictly decreases the variant -/
theorem rank_decreases {ga : Nat → Int} {N : Nat} {s s' : S} {t : Tid} {a : Act}
    (hs : Step Cfg.fixed ga s t a s') (he : a.isEnv = false) (ht : ∀ i, t = .sub i → i < N) :
    rank N s' < rank N s := by
  cases hs with
  | begin i b n sev mode args hpc hb hn => simp [Act.isEnv] at he
  | wkSpurious hpc => simp [Act.isEnv] at he
  | ctxAcquire i b hpc hl =>
    apply rank_sub_lt (ht i rfl) s _ (.ctxHeld b)
    · rfl
    · rfl
    · simp only [hpc, sr]; omega
  | ctxCheck i b hpc =>
    apply rank_sub_lt (ht i rfl) s _ _
    · rfl
    · rfl
    · simp only [hpc]; split <;> simp only [sr] <;> omega
  | ctxMake i b hpc =>
    apply rank_sub_lt (ht i rfl) s _ (.ctxRel b)
    · rfl
    · rfl
    · simp only [hpc, sr]
      split <;> simp_all [wr] <;> omega
  | ctxRelease i b hpc =>
    apply rank_sub_lt (ht i rfl) s _ (.alloc b)
    · rfl
    · rfl
    · simp only [hpc, sr]; omega
  | alloc i b hpc =>
    apply rank_sub_lt (ht i rfl) s _ (.mark b 0)
    · rfl
    · rfl
    · simp only [hpc, sr]; omega
  | mark i b k hpc hk =>
    apply rank_sub_lt (ht i rfl) s _ (.mark b (k + 1))
    · rfl
    · rfl
    · simp only [hpc, sr]; omega
  | markDone i b k hpc hk =>
    apply rank_sub_lt (ht i rfl) s _ (.lockQ b)
    · rfl
    · rfl
    · simp only [hpc, sr]; omega
  | qAcquire i b hpc hl =>
    apply rank_sub_lt (ht i rfl) s _ (.append b)
    · rfl
    · rfl
    · simp only [hpc, sr]; omega
  | append i b hpc =>
    apply rank_sub_lt (ht i rfl) s _ .unlock
    · rfl
    · rfl
    · simp only [hpc, sr, qsum_append]; omega
  | qRelease i hpc =>
    apply rank_sub_lt (ht i rfl) s _ .signal
    · rfl
    · rfl
    · simp only [hpc, sr]; omega
  | signal i hpc =>
    apply rank_sub_lt (ht i rfl) s _ .idle
    · rfl
    · rfl
    · simp only [hpc, sr]
      split <;> simp_all [wr] <;> omega
  | wResolve i b k hpc hk =>
    apply rank_sub_lt (ht i rfl) s _ (.wResolve b (k + 1))
    · rfl
    · rfl
    · simp only [publish, hpc, sr]; omega
  | wAll i b k hpc hk =>
    apply rank_sub_lt (ht i rfl) s _ (.wNotify b)
    · rfl
    · rfl
    · simp only [hpc, sr]; omega
  | wNotify i b hpc =>
    apply rank_sub_lt (ht i rfl) s _ .idle
    · rfl
    · rfl
    · simp only [notifyB, hpc, sr]; omega
  | wkAcquire hpc hl =>
    apply rank_w_lt s _
    · rfl
    · rfl
    · simp only [hpc, wr]; omega
  | wkPop b hpc hq =>
    apply rank_w_lt s _
    · rfl
    · rfl
    · simp only [hpc, wr]
      have := qsum_erase s.nOf s.queue b hq; omega
  | wkWait hpc hq =>
    apply rank_w_lt s _
    · rfl
    · rfl
    · simp only [hpc, wr]; omega
  | wkReacquire hpc hl =>
    apply rank_w_lt s _
    · rfl
    · rfl
    · simp only [hpc, wr]; omega
  | wkRelease b hpc =>
    apply rank_w_lt s _
    · rfl
    · rfl
    · simp only [hpc, wr]; omega
  | wkResolve b k hpc hk =>
    apply rank_w_lt s _
    · rfl
    · rfl
    · simp only [publish, hpc, wr]; omega
  | wkAll b k hpc hk =>
    apply rank_w_lt s _
    · rfl
    · rfl
    · simp only [hpc, wr]; omega
  | wkNotify b hpc =>
    apply rank_w_lt s _
    · rfl
    · rfl
    · simp only [notifyB, hpc, wr]; omega
  | wkFree b hpc =>
    apply rank_w_lt s _
    · rfl
    · rfl
    · simp only [hpc, wr]; omega


/-- `k` non-environment steps (no new calls, no spurious wake-ups), in any order, by any threads -/
inductive Run (ga : Nat → Int) : S → Nat → S → Prop
  | nil (s : S) : Run ga s 0 s
  | cons (s s1 s2 : S) (t : Tid) (a : Act) (k : Nat) : Step Cfg.fixed ga s t a s1 → a.isEnv = false →
      Run ga s1 k s2 → Run ga s (k + 1) s2

/-- all submitters beyond `N` are idle -/
def IdleBeyond (N : Nat) (s : S) : Prop := ∀ i, N ≤ i → s.spc i = .idle

/-- a non-environment step of submitter `i` needs `i` to be inside a call -/
theorem step_sub_busy {ga : Nat → Int} {s s' : S} {i : Nat} {a : Act}
    (hs : Step Cfg.fixed ga s (.sub i) a s') (he : a.isEnv = false) : s.spc i ≠ .idle := by
  cases hs <;> simp_all [Act.isEnv]

set_option linter.unusedSimpArgs false in
theorem idleBeyond_step {ga : Nat → Int} {N : Nat} {s s' : S} {t : Tid} {a : Act}
    (hs : Step Cfg.fixed ga s t a s') (he : a.isEnv = false) (hb : IdleBeyond N s) : IdleBeyond N s' := by
  intro j hj
  have hj' := hb j hj
  cases hs <;> first
    | exact hj'
    | (simp only [upd_apply, publish, notifyB]
       split
       · next e => subst e; simp_all [Act.isEnv]
       · exact hj')

theorem step_thread_lt {ga : Nat → Int} {N : Nat} {s s' : S} {t : Tid} {a : Act}
    (hs : Step Cfg.fixed ga s t a s') (he : a.isEnv = false) (hb : IdleBeyond N s) :
    ∀ i, t = .sub i → i < N := by
  intro i e
  subst e
  have := step_sub_busy hs he
  by_cases h : i < N
  · exact h
  · exact absurd (hb i (by omega)) this

/-- an execution without environment steps is at most `rank N s` long -/
theorem run_bounded {ga : Nat → Int} {N : Nat} {s s' : S} {k : Nat} (h : Run ga s k s')
    (hb : IdleBeyond N s) : k + rank N s' ≤ rank N s ∧ IdleBeyond N s' := by
  induction h with
  | nil s => exact ⟨by omega, hb⟩
  | cons s s1 s2 t a k hs he _ ih =>
    have h1 := rank_decreases (N := N) hs he (step_thread_lt hs he hb)
    have h2 := ih (idleBeyond_step hs he hb)
    exact ⟨by omega, h2.2⟩

theorem Run.reach {ga : Nat → Int} {s s' : S} {k : Nat} (h : Run ga s k s') (hr : Reach Cfg.fixed ga s) :
    Reach Cfg.fixed ga s' := by
  induction h with
  | nil s => exact hr
  | cons s s1 s2 t a k hs he _ ih => exact ih (Reach.step s s1 t a hr hs)

theorem run_snoc {ga : Nat → Int} {s s1 s2 : S} {k : Nat} {t : Tid} {a : Act} (h : Run ga s k s1)
    (hs : Step Cfg.fixed ga s1 t a s2) (he : a.isEnv = false) : Run ga s (k + 1) s2 := by
  induction h with
  | nil s => exact Run.cons s s2 s2 t a 0 hs he (Run.nil s2)
  | cons s s' s'' t' a' k hs' he' _ ih => exact Run.cons s s' s2 t' a' (k + 1) hs' he' (ih hs)

/-- from every reachable state some execution without environment steps reaches quiescence -/
theorem run_to_quiescence {ga : Nat → Int} (N : Nat) :
    ∀ (m : Nat) (s : S), rank N s ≤ m → Reach Cfg.fixed ga s → IdleBeyond N s →
      ∃ k s', Run ga s k s' ∧ ¬ Pending s' := by
  intro m
  induction m with
  | zero =>
    intro s hm hr hb
    by_cases hp : Pending s
    · obtain ⟨t, a, s1, he, hs⟩ := pending_enabled (reach_inv hr) hp
      have := rank_decreases (N := N) hs he (step_thread_lt hs he hb)
      omega
    · exact ⟨0, s, Run.nil s, hp⟩
  | succ m ih =>
    intro s hm hr hb
    by_cases hp : Pending s
    · obtain ⟨t, a, s1, he, hs⟩ := pending_enabled (reach_inv hr) hp
      have hlt := rank_decreases (N := N) hs he (step_thread_lt hs he hb)
      obtain ⟨k, s', hrun, hq⟩ := ih s1 (by omega) (Reach.step s s1 t a hr hs) (idleBeyond_step hs he hb)
      exact ⟨k + 1, s', Run.cons s s1 s' t a k hs he hrun, hq⟩
    · exact ⟨0, s, Run.nil s, hp⟩

end UsualProofs.C20
