import UsualProofs.C20.Inv
/-! C20 — preservation of the invariant, one lemma per action (wkResolve wkAll wkNotify wkFree). -/
namespace UsualProofs.C20
open Usual.C20

theorem inv_wkResolve {ga : Nat → Int} {s s' : S} {t : Tid} (hi : Inv ga s)
    (hs : Step Cfg.fixed ga s t .wkResolve s') : Inv ga s' := by
  obtain ⟨h1,h2,h3,h4,h5,h6,h7,h8,h9,h10,h11,h12,h13,h14,h15,h16,h17,h18,h19,h20,h21,h22,h23,h24,h25,h26,h27⟩ := hi
  cases hs with
  | wkResolve b k hpc hk =>
  have hlb : s.loc b = .worker := (h5 b).1 (by simp [hpc, WPc.owns])
  constructor
  case i_sub =>
    intro i' b' k' lo hi he
    have hne : b' ≠ b := by
      have := h1 _ _ (sExpect_owns he); intro e; subst e; simp [hlb] at this
    exact Prog_frame (s := s) rfl (fun j => by simp [publish, hne]) (fun j => by simp [publish, hne]) (h7 _ _ _ _ _ he)
  all_goals inv_auto

theorem inv_wkAll {ga : Nat → Int} {s s' : S} {t : Tid} (hi : Inv ga s)
    (hs : Step Cfg.fixed ga s t .wkAll s') : Inv ga s' := by
  obtain ⟨h1,h2,h3,h4,h5,h6,h7,h8,h9,h10,h11,h12,h13,h14,h15,h16,h17,h18,h19,h20,h21,h22,h23,h24,h25,h26,h27⟩ := hi
  cases hs
  constructor <;> inv_auto

theorem inv_wkNotify {ga : Nat → Int} {s s' : S} {t : Tid} (hi : Inv ga s)
    (hs : Step Cfg.fixed ga s t .wkNotify s') : Inv ga s' := by
  obtain ⟨h1,h2,h3,h4,h5,h6,h7,h8,h9,h10,h11,h12,h13,h14,h15,h16,h17,h18,h19,h20,h21,h22,h23,h24,h25,h26,h27⟩ := hi
  cases hs
  constructor <;> inv_auto

theorem inv_wkFree {ga : Nat → Int} {s s' : S} {t : Tid} (hi : Inv ga s)
    (hs : Step Cfg.fixed ga s t .wkFree s') : Inv ga s' := by
  obtain ⟨h1,h2,h3,h4,h5,h6,h7,h8,h9,h10,h11,h12,h13,h14,h15,h16,h17,h18,h19,h20,h21,h22,h23,h24,h25,h26,h27⟩ := hi
  cases hs
  constructor <;> inv_auto

end UsualProofs.C20
