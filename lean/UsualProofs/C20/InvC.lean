import UsualProofs.C20.Inv
/-! C20 — preservation of the invariant, one lemma per action (wkAcquire wkPop wkWait wkSpurious wkReacquire wkRelease). -/
namespace UsualProofs.C20
open Usual.C20

theorem inv_wkAcquire {ga : Nat → Int} {s s' : S} {t : Tid} (hi : Inv ga s)
    (hs : Step Cfg.fixed ga s t .wkAcquire s') : Inv ga s' := by
  obtain ⟨h1,h2,h3,h4,h5,h6,h7,h8,h9,h10,h11,h12,h13,h14,h15,h16,h17,h18,h19,h20,h21,h22,h23,h24,h25,h26,h27⟩ := hi
  cases hs
  constructor <;> inv_auto

theorem inv_wkPop {ga : Nat → Int} {s s' : S} {t : Tid} (hi : Inv ga s)
    {b : Nat} (hs : Step Cfg.fixed ga s t (.wkPop b) s') : Inv ga s' := by
  obtain ⟨h1,h2,h3,h4,h5,h6,h7,h8,h9,h10,h11,h12,h13,h14,h15,h16,h17,h18,h19,h20,h21,h22,h23,h24,h25,h26,h27⟩ := hi
  cases hs
  constructor <;> inv_auto

theorem inv_wkWait {ga : Nat → Int} {s s' : S} {t : Tid} (hi : Inv ga s)
    (hs : Step Cfg.fixed ga s t .wkWait s') : Inv ga s' := by
  obtain ⟨h1,h2,h3,h4,h5,h6,h7,h8,h9,h10,h11,h12,h13,h14,h15,h16,h17,h18,h19,h20,h21,h22,h23,h24,h25,h26,h27⟩ := hi
  cases hs
  constructor <;> inv_auto

theorem inv_wkSpurious {ga : Nat → Int} {s s' : S} {t : Tid} (hi : Inv ga s)
    (hs : Step Cfg.fixed ga s t .wkSpurious s') : Inv ga s' := by
  obtain ⟨h1,h2,h3,h4,h5,h6,h7,h8,h9,h10,h11,h12,h13,h14,h15,h16,h17,h18,h19,h20,h21,h22,h23,h24,h25,h26,h27⟩ := hi
  cases hs
  constructor <;> inv_auto

theorem inv_wkReacquire {ga : Nat → Int} {s s' : S} {t : Tid} (hi : Inv ga s)
    (hs : Step Cfg.fixed ga s t .wkReacquire s') : Inv ga s' := by
  obtain ⟨h1,h2,h3,h4,h5,h6,h7,h8,h9,h10,h11,h12,h13,h14,h15,h16,h17,h18,h19,h20,h21,h22,h23,h24,h25,h26,h27⟩ := hi
  cases hs
  constructor <;> inv_auto

theorem inv_wkRelease {ga : Nat → Int} {s s' : S} {t : Tid} (hi : Inv ga s)
    (hs : Step Cfg.fixed ga s t .wkRelease s') : Inv ga s' := by
  obtain ⟨h1,h2,h3,h4,h5,h6,h7,h8,h9,h10,h11,h12,h13,h14,h15,h16,h17,h18,h19,h20,h21,h22,h23,h24,h25,h26,h27⟩ := hi
  cases hs
  constructor <;> inv_auto

end UsualProofs.C20
