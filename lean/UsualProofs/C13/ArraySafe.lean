import UsualProofs.C13.PV
/-! C13: `pg_parse_array` (repaired) never reads past the first NUL and the model never runs
    out of fuel. -/
namespace UsualProofs.C13
open Usual.C13

/-- what `scanQ` guarantees when started at `s ≤ N` -/
def SQPost (b : Bytes) (N s : Nat) (r : Res Nat × Log) : Prop :=
  match r.1 with
  | .ok s' => (∃ q, QToks b s (s' - 1) q) ∧ s < s' ∧ s' ≤ N ∧ LogLe r.2 N
  | .fail => LogLe r.2 N
  | .oof => False

theorem SQPost.esc {b N s r} (h : SQPost b N (s + 2) r) (h1 : b.getD s 0 = cBS)
    (h2 : b.getD (s + 1) 0 ≠ 0) : SQPost b N s r := by
  unfold SQPost at *
  cases hr : r.1 with
  | ok s' =>
    rw [hr] at h
    obtain ⟨⟨q, hq⟩, a, c, d⟩ := h
    exact ⟨⟨_, QToks.esc s _ q h1 h2 hq⟩, by omega, c, d⟩
  | fail => rw [hr] at h; exact h
  | oof => rw [hr] at h; exact h

theorem SQPost.plain {b N s r} (h : SQPost b N (s + 1) r) (h1 : b.getD s 0 ≠ cDQ)
    (h2 : b.getD s 0 ≠ cBS) (h3 : b.getD s 0 ≠ 0) : SQPost b N s r := by
  unfold SQPost at *
  cases hr : r.1 with
  | ok s' =>
    rw [hr] at h
    obtain ⟨⟨q, hq⟩, a, c, d⟩ := h
    exact ⟨⟨_, QToks.plain s _ q h1 h2 h3 hq⟩, by omega, c, d⟩
  | fail => rw [hr] at h; exact h
  | oof => rw [hr] at h; exact h

theorem scanQ_spec (b : Bytes) (N : Nat) (h0 : b.getD N 0 = 0) :
    ∀ (fuel s : Nat) (log : Log), s ≤ N → LogLe log N → N - s < fuel →
    SQPost b N s (scanQ true b fuel s log) := by
  intro fuel
  induction fuel with
  | zero => intro s log _ _ hf; omega
  | succ f ih =>
    intro s log hs hl hf
    have e1 : (0 : Nat) ≠ cDQ := by decide
    have e2 : (0 : Nat) ≠ cBS := by decide
    by_cases hq : b.getD s 0 = cDQ
    · have hsN : s ≠ N := by intro e; subst e; rw [h0] at hq; revert hq; decide
      simp only [scanQ, hq, ↓reduceIte]
      unfold SQPost
      refine ⟨⟨[], ?_⟩, by omega, by omega, by simp [hl]; omega⟩
      simpa using QToks.nil s hq
    · by_cases hz : b.getD s 0 = 0
      · simp only [scanQ, hz, e1, ↓reduceIte, true_and]
        unfold SQPost
        simp [hl]; omega
      · have hsN : s < N := by
          have : s ≠ N := by intro e; subst e; exact hz h0
          omega
        by_cases hb : b.getD s 0 = cBS
        · have hne : cBS ≠ cDQ := by decide
          have hne0 : cBS ≠ 0 := by decide
          by_cases hz1 : b.getD (s + 1) 0 = 0
          · simp only [scanQ, hb, hne, hne0, hz1, ↓reduceIte, and_false]
            unfold SQPost
            simp [hl]; omega
          · have hs1 : s + 1 < N := by
              have : s + 1 ≠ N := by intro e; rw [e] at hz1; exact hz1 h0
              omega
            have hne : cBS ≠ cDQ := by decide
            have hne0 : cBS ≠ 0 := by decide
            simp only [scanQ, hb, hne, hne0, hz1, ↓reduceIte, and_false]
            exact (ih (s + 2) _ (by omega) (by simp [hl]; omega) (by omega)).esc hb hz1
        · by_cases hz1 : b.getD (s + 1) 0 = 0
          · simp only [scanQ, hq, hz, hb, hz1, ↓reduceIte, and_false]
            unfold SQPost
            simp [hl]; omega
          · simp only [scanQ, hq, hz, hb, hz1, ↓reduceIte, and_false]
            exact (ih (s + 1) _ (by omega) (by simp [hl]; omega) (by omega)).plain hq hb hz

theorem scan_safe (b : Bytes) (N : Nat) (h0 : b.getD N 0 = 0) (hNb : N < b.length) :
    ∀ (fuel s : Nat) (val : Option Nat) (lst : List (Option Bytes)) (log : Log),
    1 ≤ s → s ≤ N → LogLe log N → (∀ v, val = some v → ∃ o, Toks b v s o) → N - s < fuel →
    (scan true b fuel s val lst log).1 ≠ .oof ∧ LogLe (scan true b fuel s val lst log).2 N := by
  intro fuel
  induction fuel with
  | zero => intro s val lst log _ _ _ _ hf; omega
  | succ f ih =>
    intro s val lst log hs1 hsN hl hval hf
    have hv : ∃ o, Toks b (val.getD s) s o := by
      cases val with
      | none => exact ⟨[], Toks.nil s⟩
      | some v => exact hval v rfl
    obtain ⟨o, tv⟩ := hv
    unfold scan
    simp only
    by_cases hz : b.getD s 0 = 0
    · simp only [hz, ↓reduceIte]
      split <;> exact ⟨by simp, by simp [hl]; omega⟩
    · have hlt : s < N := by
        have : s ≠ N := by intro e; subst e; exact hz h0
        omega
      simp only [hz, ↓reduceIte]
      by_cases hr : b.getD s 0 = cRBrace
      · simp only [hr, ↓reduceIte]
        by_cases hz1 : b.getD (s + 1) 0 ≠ 0
        · simp only [hz1, ↓reduceIte, ne_eq, not_false_eq_true]
          exact ⟨by simp, by simp [hl]; omega⟩
        · simp only [hz1, ↓reduceIte]
          cases val with
          | none => exact ⟨by simp, by simp [hl]; omega⟩
          | some v =>
            simp only
            have hl' : LogLe ((s + 1) :: s :: log) N := by simp [hl]; omega
            simp only [Option.getD_some] at tv
            obtain ⟨p1, p2⟩ := parseValue_safe b N hNb tv (by omega) _ hl'
            generalize parseValue b v s ((s + 1) :: s :: log) = r at p1 p2 ⊢
            obtain ⟨r1, r2⟩ := r
            cases r1 with
            | oof => exact absurd rfl p1
            | fail => exact ⟨by simp, p2⟩
            | ok x => exact ⟨by simp, p2⟩
      · simp only [hr, ↓reduceIte]
        by_cases hc : b.getD s 0 = cComma
        · simp only [hc, ↓reduceIte]
          have hl' : LogLe (s :: log) N := by simp [hl]; omega
          obtain ⟨p1, p2⟩ := parseValue_safe b N hNb tv (by omega) _ hl'
          generalize parseValue b (val.getD s) s (s :: log) = r at p1 p2 ⊢
          obtain ⟨r1, r2⟩ := r
          cases r1 with
          | oof => exact absurd rfl p1
          | fail => exact ⟨by simp, p2⟩
          | ok x =>
            exact ih (s + 1) _ _ _ (by omega) (by omega) p2
              (fun v hv => by cases hv; exact ⟨[], Toks.nil _⟩) (by omega)
        · simp only [hc, ↓reduceIte]
          by_cases hq : b.getD s 0 = cDQ
          · simp only [hq, ↓reduceIte]
            have hl' : LogLe (s :: log) N := by simp [hl]; omega
            have sq := scanQ_spec b N h0 (b.length + 1) (s + 1) (s :: log) (by omega) hl' (by omega)
            generalize scanQ true b (b.length + 1) (s + 1) (s :: log) = r at sq
            unfold SQPost at sq
            obtain ⟨r1, r2⟩ := r
            cases r1 with
            | oof => exact sq.elim
            | fail => exact ⟨by simp, sq⟩
            | ok s' =>
              obtain ⟨⟨q, hqt⟩, a1, a2, a3⟩ := sq
              simp only at hqt a1 a2 a3 ⊢
              refine ih s' _ _ _ (by omega) a2 a3 ?_ (by omega)
              intro v hv
              cases hv
              have tq : Toks b s s' (q ++ []) :=
                Toks.quo s (s' - 1) s' q [] hq hqt (by rw [show s' - 1 + 1 = s' by omega]; exact Toks.nil s')
              exact ⟨_, tv.append tq⟩
          · simp only [hq, ↓reduceIte]
            by_cases hb : b.getD s 0 = cBS
            · simp only [hb, ↓reduceIte]
              by_cases hz1 : b.getD (s + 1) 0 = 0
              · simp only [hz1, ↓reduceIte]
                exact ⟨by simp, by simp [hl]; omega⟩
              · simp only [hz1, ↓reduceIte]
                have hs1N : s + 1 < N := by
                  have : s + 1 ≠ N := by intro e; rw [e] at hz1; exact hz1 h0
                  omega
                refine ih (s + 2) _ _ _ (by omega) (by omega) (by simp [hl]; omega) ?_ (by omega)
                intro v hv
                cases hv
                exact ⟨_, tv.append (Toks.esc s (s + 2) [] hb hz1 (Toks.nil _))⟩
            · simp only [hb, ↓reduceIte]
              refine ih (s + 1) _ _ _ (by omega) (by omega) (by simp [hl]; omega) ?_ (by omega)
              intro v hv
              cases hv
              exact ⟨_, tv.append (Toks.plain s (s + 1) [] hz hq hb hc hr (Toks.nil _))⟩

end UsualProofs.C13

namespace UsualProofs.C13
open Usual.C13

theorem findRBrack_spec (b : Bytes) (N : Nat) (h0 : b.getD N 0 = 0) :
    ∀ (fuel s : Nat) (log : Log), s ≤ N → LogLe log N → N - s < fuel →
    match (findRBrack b fuel s log).1 with
    | .ok j => j < N ∧ b.getD j 0 = cRBrack ∧ LogLe (findRBrack b fuel s log).2 N
    | .fail => LogLe (findRBrack b fuel s log).2 N
    | .oof => False := by
  intro fuel
  induction fuel with
  | zero => intro s log _ _ hf; omega
  | succ f ih =>
    intro s log hs hl hf
    by_cases hr : b.getD s 0 = cRBrack
    · have hsN : s ≠ N := by intro e; subst e; rw [h0] at hr; revert hr; decide
      simp only [findRBrack, hr, ↓reduceIte]
      exact ⟨by omega, trivial, by simp [hl]; omega⟩
    · by_cases hz : b.getD s 0 = 0
      · have e1 : (0 : Nat) ≠ cRBrack := by decide
        simp only [findRBrack, hz, e1, ↓reduceIte]
        simp [hl]; omega
      · have hsN : s ≠ N := by intro e; subst e; exact hz h0
        simp only [findRBrack, hr, hz, ↓reduceIte]
        exact ih (s + 1) _ (by omega) (by simp [hl]; omega) (by omega)

/-- `pg_parse_array` (repaired) on a block whose byte `N` is NUL: every index read is `≤ N`,
    and the model does not run out of fuel -/
theorem parseArray_safe (b : Bytes) (N : Nat) (h0 : b.getD N 0 = 0) (hNb : N < b.length) :
    (parseArray b).1 ≠ .oof ∧ LogLe (parseArray b).2 N := by
  have body : ∀ (s : Nat) (log : Log), s ≤ N → LogLe log N →
      (if b.getD s 0 ≠ cLBrace then ((.fail : Res (List (Option Bytes))), s :: log)
        else scan true b (b.length + 1) (s + 1) none [] (s :: log)).1 ≠ .oof ∧
      LogLe (if b.getD s 0 ≠ cLBrace then ((.fail : Res (List (Option Bytes))), s :: log)
        else scan true b (b.length + 1) (s + 1) none [] (s :: log)).2 N := by
    intro s log hs hl
    by_cases hb : b.getD s 0 ≠ cLBrace
    · simp only [hb, ↓reduceIte, ne_eq, not_false_eq_true]
      exact ⟨by simp, by simp [hl]; omega⟩
    · simp only [hb, ↓reduceIte]
      have hb' : b.getD s 0 = cLBrace := by simpa using hb
      have hsN : s ≠ N := by intro e; subst e; rw [h0] at hb'; revert hb'; decide
      exact scan_safe b N h0 hNb _ (s + 1) none [] _ (by omega) (by omega) (by simp [hl]; omega)
        (fun v hv => by cases hv) (by omega)
  unfold parseArray parseArrayGen
  simp only
  by_cases hbr : b.getD 0 0 = cLBrack
  · simp only [hbr, ↓reduceIte]
    have hf := findRBrack_spec b N h0 (b.length + 1) 0 [0] (by omega) (by simp [logLe_nil]) (by omega)
    generalize findRBrack b (b.length + 1) 0 [0] = r at hf
    obtain ⟨r1, r2⟩ := r
    cases r1 with
    | oof => exact hf.elim
    | fail => exact ⟨by simp, hf⟩
    | ok j =>
      obtain ⟨hj, hjb, hjl⟩ := hf
      simp only at hjl ⊢
      by_cases he : b.getD (j + 1) 0 ≠ cEq
      · simp only [he, ↓reduceIte, ne_eq, not_false_eq_true]
        exact ⟨by simp, by simp [hjl]; omega⟩
      · simp only [he, ↓reduceIte]
        have he' : b.getD (j + 1) 0 = cEq := by simpa using he
        have hj1 : j + 1 ≠ N := by intro e; rw [e, h0] at he'; revert he'; decide
        exact body (j + 2) _ (by omega) (by simp [hjl]; omega)
  · simp only [hbr, ↓reduceIte]
    exact body 0 [0] (by omega) (by simp [logLe_nil])

/-- F8 at the pinned commit: on the 3-byte block `{"\0` the unrepaired scan reads index 3 -/
theorem parseArrayOld_overread : 3 ∈ (parseArrayOld [123, 34, 0]).2 := by decide

end UsualProofs.C13
