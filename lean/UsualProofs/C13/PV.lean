import UsualProofs.C13.Toks
/-! C13: `parse_value` on a token run: trimming, unquoting, reads. -/
namespace UsualProofs.C13
open Usual.C13

theorem isSpace_ne_bs (c : Nat) (h : isSpace c = true) : c ≠ cBS := (isSpace_plain c h).2.2.1
theorem isSpace_ne_dq (c : Nat) (h : isSpace c = true) : c ≠ cDQ := (isSpace_plain c h).2.1

/-! ### trimming -/

theorem trimL_spec (b : Bytes) : ∀ (fuel val vend : Nat) (log : Log), val ≤ vend → vend - val ≤ fuel →
    val ≤ (trimL b fuel val vend log).1 ∧ (trimL b fuel val vend log).1 ≤ vend ∧
    (∀ i, val ≤ i → i < (trimL b fuel val vend log).1 → isSpace (b.getD i 0) = true) ∧
    ((trimL b fuel val vend log).1 < vend → isSpace (b.getD (trimL b fuel val vend log).1 0) = false) ∧
    (∀ N, vend ≤ N + 1 → LogLe log N → LogLe (trimL b fuel val vend log).2 N) := by
  intro fuel
  induction fuel with
  | zero =>
    intro val vend log h1 h2
    have : val = vend := by omega
    subst this
    simp only [trimL]
    exact ⟨by omega, by omega, fun i a b => by omega, fun h => by omega, fun N _ h => h⟩
  | succ f ih =>
    intro val vend log h1 h2
    by_cases hlt : val < vend
    · by_cases hs : isSpace (b.getD val 0) = true
      · simp only [trimL, hlt, hs, ↓reduceIte]
        obtain ⟨a1, a2, a3, a4, a5⟩ := ih (val + 1) vend (val :: log) (by omega) (by omega)
        refine ⟨by omega, a2, ?_, a4, ?_⟩
        · intro i hi1 hi2
          by_cases hiv : i = val
          · subst hiv; exact hs
          · exact a3 i (by omega) hi2
        · intro N hN hl
          exact a5 N hN (by simp [hl]; omega)
      · have hs' : isSpace (b.getD val 0) = false := by simpa using hs
        simp only [trimL, hlt, hs', Bool.false_eq_true, ↓reduceIte]
        refine ⟨by omega, by omega, fun i a b => by omega, fun _ => by first | trivial | exact hs', ?_⟩
        intro N hN hl
        simp [hl]; omega
    · simp only [trimL, hlt, ↓reduceIte]
      exact ⟨by omega, by omega, fun i a b => by omega, fun h => by first | exact h.elim | omega, fun N _ h => h⟩

theorem trimR_spec (b : Bytes) : ∀ (fuel val vend : Nat) (log : Log), val ≤ vend → vend - val ≤ fuel →
    val ≤ (trimR b fuel val vend log).1 ∧ (trimR b fuel val vend log).1 ≤ vend ∧
    (∀ i, (trimR b fuel val vend log).1 ≤ i → i < vend → isSpace (b.getD i 0) = true) ∧
    (val < (trimR b fuel val vend log).1 → isSpace (b.getD ((trimR b fuel val vend log).1 - 1) 0) = false) ∧
    (∀ N, vend ≤ N + 1 → LogLe log N → LogLe (trimR b fuel val vend log).2 N) := by
  intro fuel
  induction fuel with
  | zero =>
    intro val vend log h1 h2
    have : val = vend := by omega
    subst this
    simp only [trimR]
    exact ⟨by omega, by omega, fun i a b => by omega, fun h => by omega, fun N _ h => h⟩
  | succ f ih =>
    intro val vend log h1 h2
    by_cases hlt : val < vend
    · by_cases hs : isSpace (b.getD (vend - 1) 0) = true
      · simp only [trimR, hlt, hs, ↓reduceIte]
        obtain ⟨a1, a2, a3, a4, a5⟩ := ih val (vend - 1) ((vend - 1) :: log) (by omega) (by omega)
        refine ⟨a1, by omega, ?_, a4, ?_⟩
        · intro i hi1 hi2
          by_cases hiv : i = vend - 1
          · subst hiv; exact hs
          · exact a3 i hi1 (by omega)
        · intro N hN hl
          exact a5 N (by omega) (by simp [hl]; omega)
      · have hs' : isSpace (b.getD (vend - 1) 0) = false := by simpa using hs
        simp only [trimR, hlt, hs', Bool.false_eq_true, ↓reduceIte]
        refine ⟨by omega, by omega, fun i a b => by omega, fun _ => by first | trivial | exact hs', ?_⟩
        intro N hN hl
        simp [hl]; omega
    · simp only [trimR, hlt, ↓reduceIte]
      exact ⟨by omega, by omega, fun i a b => by omega, fun h => by first | exact h.elim | omega, fun N _ h => h⟩

theorem Toks.drop_spaces {b : Bytes} : ∀ (n i j : Nat) (o : Bytes), Toks b i j o → i + n ≤ j →
    (∀ k, i ≤ k → k < i + n → isSpace (b.getD k 0) = true) → ∃ o', Toks b (i + n) j o' := by
  intro n
  induction n with
  | zero => intro i j o h _ _; exact ⟨o, h⟩
  | succ n ih =>
    intro i j o h hle hs
    obtain ⟨o1, h1⟩ := h.drop_space (by omega) (hs i (by omega) (by omega))
    obtain ⟨o2, h2⟩ := ih (i + 1) j o1 h1 (by omega) (fun k a b => hs k (by omega) (by omega))
    exact ⟨o2, by rwa [show i + (n + 1) = i + 1 + n by omega]⟩

/-- state of the element range after trimming blanks at the end: either still a token run, or
    the last blank removed was the second byte of a backslash pair -/
def TrimSt (b : Bytes) (val v : Nat) : Prop :=
  (∃ o, Toks b val v o) ∨
  (∃ o, val + 1 ≤ v ∧ Toks b val (v - 1) o ∧ b.getD (v - 1) 0 = cBS ∧ b.getD v 0 ≠ 0)

theorem TrimSt.step {b val v} (h : TrimSt b val v) (hlt : val < v)
    (hs : isSpace (b.getD (v - 1) 0) = true) : TrimSt b val (v - 1) := by
  rcases h with ⟨o, t⟩ | ⟨o, _, _, hb, _⟩
  · rcases t.last hlt with ⟨o', t', _⟩ | ⟨o', hle, t', hb, hz⟩ | hq
    · exact Or.inl ⟨o', t'⟩
    · refine Or.inr ⟨o', by omega, ?_, ?_, ?_⟩
      · rwa [show v - 1 - 1 = v - 2 by omega]
      · rwa [show v - 1 - 1 = v - 2 by omega]
      · exact hz
    · exact absurd hq (isSpace_ne_dq _ hs)
  · exact absurd hb (isSpace_ne_bs _ hs)

theorem TrimSt.spaces {b val vend} (h : TrimSt b val vend) : ∀ (n v : Nat), v + n = vend → val ≤ v →
    (∀ i, v ≤ i → i < vend → isSpace (b.getD i 0) = true) → TrimSt b val v := by
  intro n
  induction n with
  | zero => intro v hv _ _; have : v = vend := by omega
            subst this; exact h
  | succ n ih =>
    intro v hv hval hs
    have h1 := ih (v + 1) (by omega) (by omega) (fun i a b => hs i (by omega) b)
    have := h1.step (by omega) (by simpa using hs v (by omega) (by omega))
    simpa using this

/-! ### unquoting -/

theorem unqQ_spec (b : Bytes) {s m : Nat} {q : Bytes} (h : QToks b s m q) :
    ∀ (fuel : Nat) (acc : Bytes) (log : Log), m - s < fuel →
    ∃ log', unqQ b fuel s acc log = (.ok (m + 1, acc ++ q), log') ∧
      (∀ N, m ≤ N → LogLe log N → LogLe log' N) := by
  induction h with
  | nil i hq =>
    intro fuel acc log hf
    cases fuel with
    | zero => omega
    | succ f =>
      simp only [unqQ, hq, ↓reduceIte, List.append_nil]
      exact ⟨_, rfl, fun N hN hl => by simp [hl]; omega⟩
  | plain i m q a1 a2 a3 t ih =>
    intro fuel acc log hf
    cases fuel with
    | zero => omega
    | succ f =>
      have := t.le
      obtain ⟨log', h1, h2⟩ := ih f (acc ++ [b.getD i 0]) (i :: log) (by omega)
      simp only [unqQ, a1, a2, ↓reduceIte]
      refine ⟨log', by rw [h1]; simp, ?_⟩
      intro N hN hl
      exact h2 N hN (by simp [hl]; omega)
  | esc i m q a1 a2 t ih =>
    intro fuel acc log hf
    cases fuel with
    | zero => omega
    | succ f =>
      have := t.le
      have hne : cBS ≠ cDQ := by decide
      obtain ⟨log', h1, h2⟩ := ih f (acc ++ [b.getD (i + 1) 0]) ((i + 1) :: i :: log) (by omega)
      simp only [unqQ, a1, hne, ↓reduceIte]
      refine ⟨log', by rw [h1]; simp, ?_⟩
      intro N hN hl
      exact h2 N hN (by simp [hl]; omega)

/-- the unquote loop runs token by token -/
theorem unq_progress (b : Bytes) {s k : Nat} {o : Bytes} (h : Toks b s k o) :
    ∀ (fuel vend : Nat) (acc : Bytes) (log : Log), k ≤ vend → k - s < fuel →
    ∃ fuel' log', fuel + s ≤ fuel' + k ∧
      unq b fuel s vend acc log = unq b fuel' k vend (acc ++ o) log' ∧
      (∀ N, k ≤ N + 1 → LogLe log N → LogLe log' N) := by
  induction h with
  | nil i =>
    intro fuel vend acc log _ _
    exact ⟨fuel, log, by omega, by simp, fun N _ h => h⟩
  | plain i j o a1 a2 a3 a4 a5 t ih =>
    intro fuel vend acc log hk hf
    have := t.le
    cases fuel with
    | zero => omega
    | succ f =>
      obtain ⟨fuel', log', h1, h2, h3⟩ := ih f vend (acc ++ [b.getD i 0]) (i :: log) hk (by omega)
      refine ⟨fuel', log', by omega, ?_, ?_⟩
      · have hlt : i < vend := by omega
        simp only [unq, hlt, a2, a3, ↓reduceIte]
        rw [h2]; simp
      · intro N hN hl
        exact h3 N hN (by simp [hl]; omega)
  | esc i j o a1 a2 t ih =>
    intro fuel vend acc log hk hf
    have := t.le
    cases fuel with
    | zero => omega
    | succ f =>
      have hne : cBS ≠ cDQ := by decide
      obtain ⟨fuel', log', h1, h2, h3⟩ := ih f vend (acc ++ [b.getD (i + 1) 0]) ((i + 1) :: i :: log) hk (by omega)
      refine ⟨fuel', log', by omega, ?_, ?_⟩
      · have hlt : i < vend := by omega
        simp only [unq, hlt, a1, hne, ↓reduceIte]
        rw [h2]; simp
      · intro N hN hl
        exact h3 N hN (by simp [hl]; omega)
  | quo i m j q o a1 hq t ih =>
    intro fuel vend acc log hk hf
    have := t.le
    have := hq.le
    cases fuel with
    | zero => omega
    | succ f =>
      obtain ⟨logq, hq1, hq2⟩ := unqQ_spec b hq f acc (i :: log) (by omega)
      obtain ⟨fuel', log', h1, h2, h3⟩ := ih f vend (acc ++ q) logq hk (by omega)
      refine ⟨fuel', log', by omega, ?_, ?_⟩
      · have hlt : i < vend := by omega
        simp only [unq, hlt, a1, ↓reduceIte, hq1]
        rw [h2]; simp
      · intro N hN hl
        exact h3 N hN (hq2 N (by omega) (by simp [hl]; omega))

/-- unquoting a complete token run -/
theorem unq_toks (b : Bytes) {s k : Nat} {o : Bytes} (h : Toks b s k o) (fuel : Nat) (log : Log)
    (hf : k - s < fuel) :
    ∃ log', unq b fuel s k [] log = (.ok o, log') ∧ (∀ N, k ≤ N + 1 → LogLe log N → LogLe log' N) := by
  obtain ⟨fuel', log', h1, h2, h3⟩ := unq_progress b h fuel k [] log (by omega) (by omega)
  refine ⟨log', ?_, h3⟩
  rw [h2]
  cases fuel' with
  | zero => omega
  | succ f => simp [unq]

/-- unquoting when the trailing trim cut a backslash pair in two: the loop reads `vend[0]` -/
theorem unq_dangling (b : Bytes) {s v : Nat} {o : Bytes} (h : Toks b s (v - 1) o) (hv : s + 1 ≤ v)
    (hb : b.getD (v - 1) 0 = cBS) (fuel : Nat) (log : Log) (hf : v - s < fuel) :
    ∃ log', unq b fuel s v [] log = (.ok (o ++ [b.getD v 0]), log') ∧
      (∀ N, v ≤ N → LogLe log N → LogLe log' N) := by
  have := h.le
  obtain ⟨fuel', log', h1, h2, h3⟩ := unq_progress b h fuel v [] log (by omega) (by omega)
  rw [h2]
  cases fuel' with
  | zero => omega
  | succ f =>
    cases f with
    | zero => omega
    | succ f2 =>
      have hlt : v - 1 < v := by omega
      have hne : cBS ≠ cDQ := by decide
      have h4 : ¬ (v - 1 + 2 < v) := by omega
      refine ⟨(v - 1 + 1) :: (v - 1) :: log', ?_, ?_⟩
      · simp only [unq, hlt, hb, hne, ↓reduceIte, h4, List.nil_append]
        rw [show v - 1 + 1 = v by omega]
      · intro N hN hl
        have := h3 N (by omega) hl
        simp [this]; omega

end UsualProofs.C13

namespace UsualProofs.C13
open Usual.C13

/-- `parse_value` on a range the scanner has accepted: stays inside the NUL-terminated block and
    terminates (no fuel exhaustion in the model) -/
theorem parseValue_safe (b : Bytes) (N : Nat) (hNb : N < b.length) {val vend : Nat} {o : Bytes}
    (h : Toks b val vend o) (hv : vend ≤ N) (log : Log) (hl : LogLe log N) :
    (parseValue b val vend log).1 ≠ .oof ∧ LogLe (parseValue b val vend log).2 N := by
  have hle := h.le
  unfold parseValue
  obtain ⟨l1, l2, l3, l4, l5⟩ := trimL_spec b (vend - val) val vend log hle (by omega)
  generalize trimL b (vend - val) val vend log = tl at l1 l2 l3 l4 l5
  obtain ⟨val1, log1⟩ := tl
  simp only at l1 l2 l3 l4 l5 ⊢
  obtain ⟨r1, r2, r3, r4, r5⟩ := trimR_spec b (vend - val1) val1 vend log1 l2 (by omega)
  generalize trimR b (vend - val1) val1 vend log1 = tr at r1 r2 r3 r4 r5
  obtain ⟨vend1, log2⟩ := tr
  simp only at r1 r2 r3 r4 r5 ⊢
  have hl1 : LogLe log1 N := l5 N (by omega) hl
  have hl2 : LogLe log2 N := r5 N (by omega) hl1
  obtain ⟨o1, t1⟩ := Toks.drop_spaces (val1 - val) val vend o h (by omega)
    (fun k a c => l3 k a (by omega))
  rw [show val + (val1 - val) = val1 by omega] at t1
  have ts : TrimSt b val1 vend1 :=
    TrimSt.spaces (Or.inl ⟨o1, t1⟩) (vend - vend1) vend1 (by omega) r1 r3
  by_cases he : val1 = vend1
  · simp only [he, ↓reduceIte]
    exact ⟨by simp, hl2⟩
  · simp only [he, ↓reduceIte]
    have hl3 : LogLe (if vend1 - val1 = 4 then (val1 + 3) :: (val1 + 2) :: (val1 + 1) :: val1 :: log2 else log2) N := by
      split
      · simp [hl2]; omega
      · exact hl2
    generalize (if vend1 - val1 = 4 then (val1 + 3) :: (val1 + 2) :: (val1 + 1) :: val1 :: log2 else log2) = log3 at hl3 ⊢
    by_cases hnull : vend1 - val1 = 4 ∧ isNullWord (slice b val1 vend1) = true
    · simp only [hnull, and_self, ↓reduceIte]
      exact ⟨by simp, hl3⟩
    · simp only [hnull, ↓reduceIte]
      rcases ts with ⟨o2, t2⟩ | ⟨o2, hge, t2, hb, hz⟩
      · obtain ⟨log', hu, hb'⟩ := unq_toks b t2 (b.length + 1) log3 (by omega)
        rw [hu]
        exact ⟨by simp, hb' N (by omega) hl3⟩
      · obtain ⟨log', hu, hb'⟩ := unq_dangling b t2 (by omega) hb (b.length + 1) log3 (by omega)
        rw [hu]
        exact ⟨by simp, hb' N (by omega) hl3⟩

end UsualProofs.C13
