import UsualProofs.C13.Ident
/-! C13: `pg_quote_fqident`. -/
namespace UsualProofs.C13
open Usual.C13

theorem splitDot_eq (s a b : Bytes) (h : splitDot s = some (a, b)) : s = a ++ cDot :: b := by
  induction s generalizing a with
  | nil => simp [splitDot] at h
  | cons c cs ih =>
    unfold splitDot at h
    by_cases hc : c = cDot
    · simp [hc] at h
      obtain ⟨rfl, rfl⟩ := h
      simp [hc]
    · simp only [hc, ↓reduceIte] at h
      cases hsd : splitDot cs with
      | none => simp [hsd] at h
      | some ab =>
        obtain ⟨a', b'⟩ := ab
        simp [hsd] at h
        obtain ⟨rfl, rfl⟩ := h
        simp [ih a' hsd]

theorem identText_no_nul (s : Bytes) (h : 0 ∉ s) : 0 ∉ identText s := by
  unfold identText
  split
  · exact h
  · have := identBody_no_nul s h
    simp [cDQ, this]

theorem fqParts_no_nul (s : Bytes) (h : 0 ∉ s) : 0 ∉ (fqParts s).1 ∧ 0 ∉ (fqParts s).2 := by
  unfold fqParts
  cases hsd : splitDot s with
  | none => simp only; exact ⟨by decide, h⟩
  | some ab =>
    obtain ⟨a, b⟩ := ab
    have := splitDot_eq s a b hsd
    subst this
    simp only
    simp at h
    exact ⟨h.1, h.2.2⟩

/-- the two `pg_quote_ident` calls of `pg_quote_fqident` -/
theorem fqGo_spec (scm name : Bytes) (n : Nat) (h0 : 0 ∉ scm) :
    (∀ i ∈ (fqGo true scm name n).2.idx, i < n) ∧
    ((fqGo true scm name n).1 = true ↔ (identText scm).length + 1 + (identText name).length + 1 ≤ n) ∧
    ((fqGo true scm name n).1 = true →
      ∃ T, (fqGo true scm name n).2.buf = (identText scm ++ cDot :: identText name) ++ 0 :: T) := by
  unfold fqGo
  have h1 := quoteIdentAt_spec [] 0 n n rfl (by omega) scm (Dst.new n) (Good.new n)
  unfold quoteIdentAt at h1
  generalize quoteIdentGen true (Dst.new n) 0 scm n = r1 at h1
  obtain ⟨ok1, d1⟩ := r1
  obtain ⟨⟨X1, g1⟩, hiff1, hbuf1⟩ := h1
  simp only at g1 hiff1 hbuf1
  cases ok1 with
  | false =>
    simp only
    refine ⟨g1.idx, ⟨(fun h => by cases h), ?_⟩, by simp⟩
    intro hfit
    have : identNeeded scm ≤ n := by unfold identNeeded; omega
    have := hiff1.mpr this
    cases this
  | true =>
    simp only
    obtain ⟨T1, hT1⟩ := hbuf1 rfl
    simp only [List.nil_append] at hT1
    have hnn := identText_no_nul scm h0
    have hcs : cstr d1.buf = identText scm := cstr_of_prefix _ _ T1 hT1 hnn
    rw [hcs]
    have hfit1 : identNeeded scm ≤ n := hiff1.mp rfl
    unfold identNeeded at hfit1
    have gA : Good d1 (identText scm) n := ⟨g1.len, ⟨0 :: T1, hT1⟩, g1.idx⟩
    have gB := gA.put' (identText scm).length rfl (by omega) cDot
    have h2 := quoteIdentAt_spec (identText scm ++ [cDot]) ((identText scm).length + 1) (n - ((identText scm).length + 1)) n
      (by simp) (by omega) name _ gB
    unfold quoteIdentAt at h2
    obtain ⟨⟨X2, g2⟩, hiff2, hbuf2⟩ := h2
    refine ⟨g2.idx, ?_, ?_⟩
    · rw [hiff2]; unfold identNeeded; omega
    · intro ht
      obtain ⟨T, hT⟩ := hbuf2 ht
      exact ⟨T, by rw [hT]; simp⟩

/-- everything about one call of the repaired `pg_quote_fqident` -/
theorem quoteFqident_spec (s : Bytes) (n : Nat) (h0 : 0 ∉ s) :
    (∀ i ∈ (quoteFqident s n).2.idx, i < n) ∧
    ((fqParts s).1.length < 128 → ((quoteFqident s n).1 = true ↔ fqNeeded s ≤ n)) ∧
    ((quoteFqident s n).1 = true → ∃ T, (quoteFqident s n).2.buf = fqText s ++ 0 :: T) := by
  have hp := fqParts_no_nul s h0
  unfold quoteFqident quoteFqidentGen fqNeeded fqText fqParts at *
  cases hsd : splitDot s with
  | none =>
    simp only [hsd] at hp ⊢
    have := fqGo_spec cPublic s n hp.1
    refine ⟨this.1, fun _ => ?_, this.2.2⟩
    rw [this.2.1]; simp; omega
  | some ab =>
    obtain ⟨a, b⟩ := ab
    simp only [hsd] at hp ⊢
    by_cases h128 : 128 ≤ a.length
    · simp only [h128, ↓reduceIte]
      exact ⟨by simp [Dst.new], fun h => by omega, by simp⟩
    · simp only [h128, ↓reduceIte]
      have := fqGo_spec a b n hp.1
      refine ⟨this.1, fun _ => ?_, this.2.2⟩
      rw [this.2.1]; simp; omega

/-- the text is `identifier . identifier` and decodes to the two parts -/
theorem lexFqIdent_fqText (s : Bytes) (h1 : (fqParts s).1 ≠ []) (h2 : (fqParts s).2 ≠ []) :
    lexFqIdent (fqText s) = some (fqParts s, []) := by
  unfold lexFqIdent fqText
  rw [lexIdent_identText _ _ h1 (restOk_dot _)]
  simp only [↓reduceIte]
  have := lexIdent_identText (fqParts s).2 [] h2 restOk_nil
  simp only [List.append_nil] at this
  rw [this]

end UsualProofs.C13
