import Usual.C13.PgLex
/-! C13: the regenerated gperf tables implement membership in the `.g` word list. -/
namespace UsualProofs.C13
open Usual.C13 Usual.Gen.C13Kw

/-- every word of the list is found, and found as itself -/
theorem kw_found_all : kwWords.all (fun w => kwLookup w == some w) = true := by decide +kernel

/-- every entry of the gperf `wordlist` is a word of the list -/
theorem wordlist_sound :
    wordlist.all (fun e => match e with | some s => kwWords.contains s | none => true) = true := by
  decide +kernel

theorem kw_found (w : Bytes) (h : w ∈ kwWords) : kwLookup w = some w := by
  have := List.all_eq_true.mp kw_found_all w h
  simpa using this

theorem kwLookup_eq (w s : Bytes) (h : kwLookup w = some s) : s = w ∧ w ∈ kwWords := by
  unfold kwLookup at h
  simp only at h
  split at h
  · split at h
    · split at h
      · rename_i s' hs
        split at h
        · rename_i hw
          have hs2 : s' = s := by simpa using h
          subst hs2
          refine ⟨hw.symm, ?_⟩
          have hm : (some s') ∈ wordlist := by
            rw [List.getD_eq_getElem?_getD] at hs
            cases hg : wordlist[kwHash w]? with
            | none => simp [hg] at hs
            | some e =>
              simp [hg] at hs
              subst hs
              exact List.mem_of_getElem? hg
          have := List.all_eq_true.mp wordlist_sound _ hm
          simp at this
          rw [hw]; exact this
        · cases h
      · cases h
    · cases h
  · cases h

/-- `pg_is_reserved_word` (as modelled on the regenerated tables) decides membership in the
    reserved list of `pgutil_kwlookup.g` -/
theorem isReserved_iff (w : Bytes) : isReserved w = true ↔ w ∈ kwWords := by
  constructor
  · intro h
    unfold isReserved at h
    cases hk : kwLookup w with
    | none => simp [hk] at h
    | some s => exact (kwLookup_eq w s hk).2
  · intro h
    simp [isReserved, kw_found w h]

theorem isReserved_eq_reservedWord (w : Bytes) : isReserved w = reservedWord w := by
  have := isReserved_iff w
  unfold reservedWord
  cases h : isReserved w <;> cases h2 : kwWords.contains w <;> simp_all

end UsualProofs.C13
