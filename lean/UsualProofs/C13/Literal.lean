import UsualProofs.C13.Dst
import Usual.C13.PgText
/-! C13: `pg_quote_literal` — model output = `litText`, bounds, fits, lexer round trip. -/
namespace UsualProofs.C13
open Usual.C13

theorem litBody_length_ge (ext : Bool) (s : Bytes) : s.length ≤ (litBody ext s).length := by
  induction s with
  | nil => simp [litBody]
  | cons c cs ih => unfold litBody; split <;> (try split) <;> simp <;> omega

theorem litBody_false_le_true (s : Bytes) : (litBody false s).length ≤ (litBody true s).length := by
  induction s with
  | nil => simp [litBody]
  | cons c cs ih =>
    unfold litBody
    by_cases h1 : c = cQ
    · simp [h1]; omega
    · by_cases h2 : c = cBS
      · subst h2
        have : cBS ≠ cQ := by decide
        simp [this]; omega
      · simp [h1, h2]; omega

theorem litBody_q (ext : Bool) (cs : Bytes) : litBody ext (cQ :: cs) = cQ :: cQ :: litBody ext cs := by
  simp [litBody]
theorem litBody_bs (cs : Bytes) : litBody true (cBS :: cs) = cBS :: cBS :: litBody true cs := by
  have : cBS ≠ cQ := by decide
  simp [litBody, this]
theorem litBody_other (ext : Bool) (c : Nat) (cs : Bytes) (h1 : c ≠ cQ) (h2 : ¬ (c = cBS ∧ ext = true)) :
    litBody ext (c :: cs) = c :: litBody ext cs := by
  simp [litBody, h1, h2]

theorem litBody_no_nul (ext : Bool) (s : Bytes) (h : 0 ∉ s) : 0 ∉ litBody ext s := by
  induction s with
  | nil => simp [litBody]
  | cons c cs ih =>
    have hc : c ≠ 0 := by intro e; subst e; simp at h
    have hcs : 0 ∉ cs := fun hm => h (List.mem_cons_of_mem _ hm)
    have := ih hcs
    unfold litBody
    split
    · simp [cQ, this]
    · split
      · simp [cBS, this]
      · simp [this]; omega

/-- the copy loop of `pg_quote_literal` -/
theorem litLoop_spec (ext : Bool) (e N : Nat) (hN : e + 2 = N) :
    ∀ (src : Bytes) (p : Nat) (d : Dst) (W : Bytes), Good d W N → W.length = p → p ≤ e + 1 →
    match litLoop ext e src p d with
    | .retry d' => ext = false ∧ cBS ∈ src ∧ ∃ W', Good d' W' N
    | .done rest p' d' =>
        ∃ W', Good d' W' N ∧ W'.length = p' ∧ p' ≤ e + 1 ∧
          (rest = [] → W' = W ++ litBody ext src ∧ (ext = false → cBS ∉ src)) ∧
          (rest ≠ [] → e < p + (litBody ext src).length) := by
  intro src
  induction src with
  | nil =>
    intro p d W g hW hp
    simp only [litLoop]
    exact ⟨W, g, hW, hp, by simp [litBody], by simp⟩
  | cons c cs ih =>
    intro p d W g hW hp
    by_cases hpe : p < e
    · by_cases hq : c = cQ
      · subst hq
        simp only [litLoop, hpe, ↓reduceIte]
        have g1 := g.put' p hW.symm (by omega) cQ
        have g2 := g1.put' (p + 1) (by simp [hW]) (by omega) cQ
        have := ih (p + 2) _ _ g2 (by simp [hW]) (by omega)
        generalize litLoop ext e cs (p + 2) ((d.put p cQ).put (p + 1) cQ) = r at this
        cases r with
        | retry d' =>
          obtain ⟨h1, h2, h3⟩ := this
          exact ⟨h1, List.mem_cons_of_mem _ h2, h3⟩
        | done rest p' d' =>
          obtain ⟨W', h1, h2, h3, h4, h5⟩ := this
          refine ⟨W', h1, h2, h3, ?_, ?_⟩
          · intro hr
            obtain ⟨h6, h7⟩ := h4 hr
            refine ⟨by rw [h6, litBody_q]; simp, ?_⟩
            intro he hm
            have : cBS ≠ cQ := by decide
            simp [this] at hm
            exact h7 he hm
          · intro hr
            have := h5 hr
            rw [litBody_q]; simp; omega
      · by_cases hb : c = cBS
        · subst hb
          cases ext with
          | false =>
            simp only [litLoop, hpe, hq, ↓reduceIte]
            exact ⟨trivial, by simp, W, g⟩
          | true =>
            simp only [litLoop, hpe, hq, ↓reduceIte]
            have g1 := g.put' p hW.symm (by omega) cBS
            have g2 := g1.put' (p + 1) (by simp [hW]) (by omega) cBS
            have := ih (p + 2) _ _ g2 (by simp [hW]) (by omega)
            generalize litLoop true e cs (p + 2) ((d.put p cBS).put (p + 1) cBS) = r at this
            cases r with
            | retry d' =>
              obtain ⟨h1, _, _⟩ := this
              cases h1
            | done rest p' d' =>
              obtain ⟨W', h1, h2, h3, h4, h5⟩ := this
              refine ⟨W', h1, h2, h3, ?_, ?_⟩
              · intro hr
                obtain ⟨h6, _⟩ := h4 hr
                exact ⟨by rw [h6, litBody_bs]; simp, by intro h; cases h⟩
              · intro hr
                have := h5 hr
                rw [litBody_bs]; simp; omega
        · simp only [litLoop, hpe, hq, hb, ↓reduceIte]
          have g1 := g.put' p hW.symm (by omega) c
          have := ih (p + 1) _ _ g1 (by simp [hW]) (by omega)
          generalize litLoop ext e cs (p + 1) (d.put p c) = r at this
          have hbo : ¬ (c = cBS ∧ ext = true) := fun h => hb h.1
          cases r with
          | retry d' =>
            obtain ⟨h1, h2, h3⟩ := this
            exact ⟨h1, List.mem_cons_of_mem _ h2, h3⟩
          | done rest p' d' =>
            obtain ⟨W', h1, h2, h3, h4, h5⟩ := this
            refine ⟨W', h1, h2, h3, ?_, ?_⟩
            · intro hr
              obtain ⟨h6, h7⟩ := h4 hr
              refine ⟨by rw [h6, litBody_other ext c cs hq hbo]; simp, ?_⟩
              intro he hm
              have hcb : ¬ cBS = c := fun h => hb h.symm
              simp [hcb] at hm
              exact h7 he hm
            · intro hr
              have := h5 hr
              rw [litBody_other ext c cs hq hbo]; simp; omega
    · simp only [litLoop, hpe, ↓reduceIte]
      refine ⟨W, g, hW, hp, by simp, ?_⟩
      intro _
      have := litBody_length_ge ext (c :: cs)
      simp at this
      omega

end UsualProofs.C13

namespace UsualProofs.C13
open Usual.C13

theorem litFinish_spec (e N : Nat) (hN : e + 2 = N) (rest : Bytes) (p : Nat) (d : Dst) (W : Bytes)
    (g : Good d W N) (hW : W.length = p) (hp : p ≤ e + 1) :
    (∃ W', Good (litFinish e rest p d).2 W' N) ∧
    ((litFinish e rest p d).1 = true ↔ (rest = [] ∧ p ≤ e)) ∧
    ((litFinish e rest p d).1 = true → ∃ T, (litFinish e rest p d).2.buf = W ++ cQ :: 0 :: T) := by
  unfold litFinish
  by_cases h : rest ≠ [] ∨ e < p
  · simp only [h, ↓reduceIte]
    refine ⟨⟨W, g⟩, ?_, by simp⟩
    constructor
    · intro h'; cases h'
    · intro ⟨h1, h2⟩
      cases h with
      | inl h => exact absurd h1 h
      | inr h => omega
  · simp only [h, ↓reduceIte]
    have h' : rest = [] ∧ p ≤ e := by
      constructor
      · apply Classical.byContradiction; intro hh; exact h (Or.inl hh)
      · apply Classical.byContradiction; intro hh; exact h (Or.inr (by omega))
    have g1 := g.put' p hW.symm (by omega) cQ
    have g2 := g1.put' (p + 1) (by simp [hW]) (by omega) 0
    refine ⟨⟨_, g2⟩, by simp [h'], ?_⟩
    intro _
    obtain ⟨T, hT⟩ := g2.pre
    exact ⟨T, by rw [hT]; simp⟩

theorem litText_length (s : Bytes) :
    (litText s).length = if cBS ∈ s then (litBody true s).length + 3 else (litBody false s).length + 2 := by
  unfold litText; split <;> simp

theorem litText_no_nul (s : Bytes) (h : 0 ∉ s) : 0 ∉ litText s := by
  unfold litText
  split
  · have := litBody_no_nul true s h
    simp [cE, cQ, this]
  · have := litBody_no_nul false s h
    simp [cQ, this]

/-- everything about one call of `pg_quote_literal` with a non-NULL source -/
theorem quoteLiteral_spec (s : Bytes) (n : Nat) :
    (∀ i ∈ (quoteLiteral (some s) n).2.idx, i < n) ∧
    ((quoteLiteral (some s) n).1 = true ↔ litNeeded s ≤ n) ∧
    ((quoteLiteral (some s) n).1 = true → ∃ T, (quoteLiteral (some s) n).2.buf = litText s ++ 0 :: T) := by
  have hlen := litText_length s
  have hge1 := litBody_length_ge true s
  have hft := litBody_false_le_true s
  unfold quoteLiteral
  by_cases hn : n < 3
  · simp only [hn, ↓reduceIte]
    refine ⟨by simp [Dst.new], ?_, by simp⟩
    simp only [litNeeded, hlen]
    constructor
    · intro h; cases h
    · intro h; split at h <;> omega
  · simp only [hn, ↓reduceIte]
    have hN : (n - 2) + 2 = n := by omega
    have g0 : Good ((Dst.new n).put 0 cQ) [cQ] n := by
      simpa using (Good.new n).put' 0 rfl (by omega) cQ
    have h1 := litLoop_spec false (n - 2) n hN s 1 _ _ g0 rfl (by omega)
    generalize litLoop false (n - 2) s 1 ((Dst.new n).put 0 cQ) = r1 at h1
    cases r1 with
    | done rest p d1 =>
      obtain ⟨W', gW, hWl, hp, hA, hB⟩ := h1
      have hf := litFinish_spec (n - 2) n hN rest p d1 W' gW hWl hp
      obtain ⟨⟨W2, g2⟩, hiff, hbuf⟩ := hf
      simp only
      refine ⟨g2.idx, ?_, ?_⟩
      · rw [hiff]
        simp only [litNeeded, hlen]
        constructor
        · intro ⟨hr, hpe⟩
          obtain ⟨hW', hnb⟩ := hA hr
          have hnb := hnb rfl
          have : W'.length = 1 + (litBody false s).length := by rw [hW']; simp; omega
          simp only [hnb, ↓reduceIte]
          omega
        · intro hfit
          by_cases hr : rest = []
          · obtain ⟨hW', hnb⟩ := hA hr
            have hnb := hnb rfl
            have : W'.length = 1 + (litBody false s).length := by rw [hW']; simp; omega
            simp only [hnb, ↓reduceIte] at hfit
            exact ⟨hr, by omega⟩
          · have := hB hr
            split at hfit <;> omega
      · intro ht
        obtain ⟨T, hT⟩ := hbuf ht
        obtain ⟨hr, _⟩ := hiff.mp ht
        obtain ⟨hW', hnb⟩ := hA hr
        have hnb := hnb rfl
        refine ⟨T, ?_⟩
        rw [hT, hW']
        simp [litText, hnb]
    | retry d1 =>
      obtain ⟨_, hbs, W1, gW1⟩ := h1
      simp only
      have g1 : Good ((d1.put 0 cE).put 1 cQ) [cE, cQ] n := by
        have a := gW1.nil.put' 0 rfl (by omega) cE
        have b := a.put' 1 rfl (by omega) cQ
        simpa using b
      have h2 := litLoop_spec true (n - 2) n hN s 2 _ _ g1 rfl (by omega)
      generalize litLoop true (n - 2) s 2 ((d1.put 0 cE).put 1 cQ) = r2 at h2
      cases r2 with
      | retry d2 =>
        obtain ⟨hh, _⟩ := h2
        cases hh
      | done rest p d2 =>
        obtain ⟨W', gW, hWl, hp, hA, hB⟩ := h2
        have hf := litFinish_spec (n - 2) n hN rest p d2 W' gW hWl hp
        obtain ⟨⟨W2, g2⟩, hiff, hbuf⟩ := hf
        simp only
        refine ⟨g2.idx, ?_, ?_⟩
        · rw [hiff]
          simp only [litNeeded, hlen, hbs, ↓reduceIte]
          constructor
          · intro ⟨hr, hpe⟩
            obtain ⟨hW', _⟩ := hA hr
            have : W'.length = 2 + (litBody true s).length := by rw [hW']; simp; omega
            omega
          · intro hfit
            by_cases hr : rest = []
            · obtain ⟨hW', _⟩ := hA hr
              have : W'.length = 2 + (litBody true s).length := by rw [hW']; simp; omega
              exact ⟨hr, by omega⟩
            · have := hB hr
              omega
        · intro ht
          obtain ⟨T, hT⟩ := hbuf ht
          obtain ⟨hr, _⟩ := hiff.mp ht
          obtain ⟨hW', _⟩ := hA hr
          refine ⟨T, ?_⟩
          rw [hT, hW']
          simp [litText, hbs]

/-- `pg_quote_literal(dst, NULL, n)` -/
theorem quoteLiteral_null_spec (n : Nat) :
    (∀ i ∈ (quoteLiteral none n).2.idx, i < n) ∧
    ((quoteLiteral none n).1 = true ↔ 5 ≤ n) ∧
    ((quoteLiteral none n).1 = true → ∃ T, (quoteLiteral none n).2.buf = [78, 85, 76, 76] ++ 0 :: T) := by
  unfold quoteLiteral
  by_cases hn : n < 3
  · simp only [hn, ↓reduceIte]
    exact ⟨by simp [Dst.new], ⟨(fun h => by cases h), (fun h => by omega)⟩, by simp⟩
  · by_cases h5 : n < 5
    · simp only [hn, h5, ↓reduceIte]
      exact ⟨by simp [Dst.new], ⟨(fun h => by cases h), (fun h => by omega)⟩, by simp⟩
    · simp only [hn, h5, ↓reduceIte]
      have a := (Good.new n).put' 0 rfl (by omega) 78
      have b := a.put' 1 rfl (by omega) 85
      have c := b.put' 2 rfl (by omega) 76
      have d := c.put' 3 rfl (by omega) 76
      have e := d.put' 4 rfl (by omega) 0
      refine ⟨e.idx, by simp; omega, ?_⟩
      intro _
      obtain ⟨T, hT⟩ := e.pre
      exact ⟨T, by rw [hT]; simp⟩

end UsualProofs.C13

namespace UsualProofs.C13
open Usual.C13

/-- the lexer undoes `litBody` and stops exactly at the closing quote, whatever follows -/
theorem lexBody_litBody (ext : Bool) :
    ∀ (s rest : Bytes) (fuel : Nat), (ext = false → cBS ∉ s) → (litBody ext s).length + 1 ≤ fuel →
      (rest.head? ≠ some cQ) →
      lexBody ext fuel (litBody ext s ++ cQ :: rest) = some (s, rest) := by
  intro s
  induction s with
  | nil =>
    intro rest fuel _ hf hr
    cases fuel with
    | zero => simp [litBody] at hf
    | succ fuel =>
      simp only [litBody, List.nil_append, lexBody, ↓reduceIte]
      cases rest with
      | nil => rfl
      | cons r rs =>
        have : r ≠ cQ := by intro e; subst e; simp at hr
        simp [this]
  | cons c cs ih =>
    intro rest fuel hbs hf hr
    have hbs' : ext = false → cBS ∉ cs := fun h hm => hbs h (List.mem_cons_of_mem _ hm)
    by_cases hq : c = cQ
    · subst hq
      rw [litBody_q] at hf ⊢
      cases fuel with
      | zero => simp at hf
      | succ fuel =>
        simp only [List.cons_append, lexBody, ↓reduceIte]
        rw [ih rest fuel hbs' (by simp at hf; omega) hr]; rfl
    · by_cases hb : c = cBS ∧ ext = true
      · obtain ⟨hb1, hb2⟩ := hb
        subst hb1; subst hb2
        rw [litBody_bs] at hf ⊢
        cases fuel with
        | zero => simp at hf
        | succ fuel =>
          have hne : cBS ≠ cQ := by decide
          simp only [List.cons_append, lexBody, hne, ↓reduceIte, and_self, true_or]
          rw [ih rest fuel hbs' (by simp at hf; omega) hr]; rfl
      · rw [litBody_other ext c cs hq hb] at hf ⊢
        cases fuel with
        | zero => simp at hf
        | succ fuel =>
          simp only [List.cons_append, lexBody, hq, hb, ↓reduceIte]
          rw [ih rest fuel hbs' (by simp at hf; omega) hr]; rfl

/-- the text `pg_quote_literal` is expected to produce is one string constant that the lexer
    decodes to exactly the input, with nothing left over -/
theorem lexLiteral_litText (s : Bytes) : lexLiteral (litText s) = some (s, []) := by
  unfold litText
  by_cases hbs : cBS ∈ s
  · simp only [hbs, ↓reduceIte, lexLiteral]
    have h1 : cE ≠ cQ := by decide
    simp only [h1, ↓reduceIte]
    exact lexBody_litBody true s [] _ (by intro h; cases h) (by simp) (by simp)
  · simp only [hbs, ↓reduceIte, lexLiteral]
    exact lexBody_litBody false s [] _ (fun _ => hbs) (by simp) (by simp)

end UsualProofs.C13
